/-
T4: the compiler model is deterministic up to the iteration order of kwargs maps.  The order in
which `compile_kwargs` visits a `HashMap<String, Expression>` is a parameter of the model (the order
of the kwargs list in the AST).  `reorder σ` applies an arbitrary reordering `σ` (a permutation of
its argument) to EVERY kwargs list of a tree, at every depth.
-/
import TeraModel.Lemmas.CompilerEvents
import Mathlib.Tactic.Tauto
namespace Tera.Compiler

/-! ### The length of the emitted code does not depend on where it is emitted -/

def LbM1 (e : Expr) : Prop :=
  ∀ b loop b' loop', loop.isSome = loop'.isSome →
    (exprCode b loop e).length = (exprCode b' loop' e).length
def LbM2 (ns : List Node) : Prop :=
  ∀ b loop b' loop', loop.isSome = loop'.isSome →
    (nodesCode b loop ns).length = (nodesCode b' loop' ns).length
def LbM3 (n : Node) : Prop :=
  ∀ b loop b' loop', loop.isSome = loop'.isSome →
    (nodeCode b loop n).length = (nodeCode b' loop' n).length
def LbM4 (k : List (String × Expr)) : Prop :=
  ∀ b loop b' loop', loop.isSome = loop'.isSome →
    (kwargsCode b loop k).length = (kwargsCode b' loop' k).length
def LbM5 (f : List Expr) : Prop :=
  ∀ b loop b' loop', loop.isSome = loop'.isSome →
    (filtersCode b loop f).length = (filtersCode b' loop' f).length
def LbM6 (o : Option Expr) : Prop :=
  ∀ b loop b' loop', loop.isSome = loop'.isSome →
    (condCode b loop o).length = (condCode b' loop' o).length
def LbM7 (o : Option Expr) : Prop :=
  ∀ b loop b' loop' d d', loop.isSome = loop'.isSome →
    (optExprCode b loop d o).length = (optExprCode b' loop' d' o).length
def LbM8 (a : List ArrayEntry) : Prop :=
  ∀ b loop b' loop', loop.isSome = loop'.isSome →
    (arrayItemsCode b loop a).length = (arrayItemsCode b' loop' a).length
def LbM9 (m : List MapEntry) : Prop :=
  ∀ b loop b' loop', loop.isSome = loop'.isSome →
    (mapItemsCode b loop m).length = (mapItemsCode b' loop' m).length

theorem len_base_aux :
    (∀ (_ : Nat) (_ : Option Nat) e, LbM1 e) ∧
    (∀ (_ : Nat) (_ : Option Nat) ns, LbM2 ns) ∧
    (∀ (_ : Nat) (_ : Option Nat) n, LbM3 n) ∧
    (∀ (_ : Nat) (_ : Option Nat) k, LbM4 k) ∧
    (∀ (_ : Nat) (_ : Option Nat) f, LbM5 f) ∧
    (∀ (_ : Nat) (_ : Option Nat) o, LbM6 o) ∧
    (∀ (_ : Nat) (_ : Option Nat) (_ : CInstr) o, LbM7 o) ∧
    (∀ (_ : Nat) (_ : Option Nat) a, LbM8 a) ∧
    (∀ (_ : Nat) (_ : Option Nat) m, LbM9 m) := by
  apply exprCode.mutual_induct
    (motive_1 := fun _ _ e => LbM1 e)
    (motive_2 := fun _ _ ns => LbM2 ns)
    (motive_3 := fun _ _ n => LbM3 n)
    (motive_4 := fun _ _ k => LbM4 k)
    (motive_5 := fun _ _ f => LbM5 f)
    (motive_6 := fun _ _ o => LbM6 o)
    (motive_7 := fun _ _ _ o => LbM7 o)
    (motive_8 := fun _ _ a => LbM8 a)
    (motive_9 := fun _ _ m => LbM9 m)
  all_goals intros
  all_goals simp only [LbM1, LbM2, LbM3, LbM4, LbM5, LbM6, LbM7, LbM8, LbM9] at *
  all_goals intros
  all_goals simp only [exprCode, nodesCode, nodeCode, kwargsCode, filtersCode, condCode, optExprCode,
    arrayItemsCode, mapItemsCode] at *
  all_goals (try (simp (config := { zetaDelta := true }) only [List.length_append, List.length_cons,
    List.length_nil]; done))
  all_goals (try split)
  all_goals (try split)
  all_goals (try split)
  all_goals (try split)
  all_goals (try (simp (config := { zetaDelta := true }) only [List.length_append, List.length_cons,
    List.length_nil] at *))
  all_goals (try grind)

theorem len_base_expr (e : Expr) (b b' : Nat) (loop : Option Nat) :
    (exprCode b loop e).length = (exprCode b' loop e).length :=
  len_base_aux.1 0 none e b loop b' loop rfl

/-- the kwargs loop emits, per kwarg, one `LoadConst` and the value's code: a sum over the list -/
theorem kwargs_len_sum (k : List (String × Expr)) (b : Nat) (loop : Option Nat) :
    (kwargsCode b loop k).length = (k.map fun p => 1 + (exprCode 0 loop p.2).length).sum := by
  induction k generalizing b with
  | nil => simp [kwargsCode]
  | cons x xs ih =>
    obtain ⟨n, v⟩ := x
    simp only [kwargsCode, List.length_append, List.length_cons, List.length_nil, List.map_cons,
      List.sum_cons, ih]
    rw [len_base_expr v (b + 1) 0 loop]

theorem kwargs_len_perm {k1 k2 : List (String × Expr)} (h : k1.Perm k2) (b b' : Nat)
    (loop : Option Nat) : (kwargsCode b loop k1).length = (kwargsCode b' loop k2).length := by
  rw [kwargs_len_sum, kwargs_len_sum]
  exact (h.map _).sum_nat

/-! ### Reordering every kwargs map of a tree -/

abbrev Kw := List (String × Expr)

mutual
def reExpr (σ : Kw → Kw) : Expr → Expr
  | .const v => .const v
  | .map entries => .map (reMap σ entries)
  | .array items => .array (reArray σ items)
  | .var n => .var n
  | .getAttr e n o => .getAttr (reExpr σ e) n o
  | .getItem e s o => .getItem (reExpr σ e) (reExpr σ s) o
  | .slice e a b c o => .slice (reExpr σ e) (reOpt σ a) (reOpt σ b) (reOpt σ c) o
  | .filter e n k => .filter (reExpr σ e) n (σ (reKwargs σ k))
  | .test e n k => .test (reExpr σ e) n (σ (reKwargs σ k))
  | .ternary c t f => .ternary (reExpr σ c) (reExpr σ t) (reExpr σ f)
  | .listComprehension e k v t c => .listComprehension (reExpr σ e) k v (reExpr σ t) (reOpt σ c)
  | .componentCall n k b sc => .componentCall n (reMap σ k) (reNodes σ b) sc
  | .functionCall n k => .functionCall n (σ (reKwargs σ k))
  | .unary op e => .unary op (reExpr σ e)
  | .binary op l r => .binary op (reExpr σ l) (reExpr σ r)
def reOpt (σ : Kw → Kw) : Option Expr → Option Expr
  | some e => some (reExpr σ e)
  | none => none
/-- the values of a kwargs map, in place (the caller applies `σ` to the result) -/
def reKwargs (σ : Kw → Kw) : Kw → Kw
  | [] => []
  | (n, v) :: rest => (n, reExpr σ v) :: reKwargs σ rest
def reArray (σ : Kw → Kw) : List ArrayEntry → List ArrayEntry
  | [] => []
  | .item e :: rest => .item (reExpr σ e) :: reArray σ rest
  | .spread e :: rest => .spread (reExpr σ e) :: reArray σ rest
def reMap (σ : Kw → Kw) : List MapEntry → List MapEntry
  | [] => []
  | .keyValue k v :: rest => .keyValue k (reExpr σ v) :: reMap σ rest
  | .spread e :: rest => .spread (reExpr σ e) :: reMap σ rest
def reFilters (σ : Kw → Kw) : List Expr → List Expr
  | [] => []
  | e :: rest => reExpr σ e :: reFilters σ rest
def reNode (σ : Kw → Kw) : Node → Node
  | .content t => .content t
  | .expression e => .expression (reExpr σ e)
  | .set n v g => .set n (reExpr σ v) g
  | .blockSet n fs body g => .blockSet n (reFilters σ fs) (reNodes σ body) g
  | .include n => .include n
  | .block n body => .block n (reNodes σ body)
  | .forLoop k v t body els => .forLoop k v (reExpr σ t) (reNodes σ body) (reNodes σ els)
  | .break => .break
  | .continue => .continue
  | .if c body els => .if (reExpr σ c) (reNodes σ body) (reNodes σ els)
  | .filterSection n k body => .filterSection n (σ (reKwargs σ k)) (reNodes σ body)
def reNodes (σ : Kw → Kw) : List Node → List Node
  | [] => []
  | n :: rest => reNode σ n :: reNodes σ rest
end

theorem len_base_nodes (ns : List Node) (b b' : Nat) (loop loop' : Option Nat)
    (h : loop.isSome = loop'.isSome) : (nodesCode b loop ns).length = (nodesCode b' loop' ns).length :=
  len_base_aux.2.1 0 none ns b loop b' loop' h
theorem len_base_kwargs (k : Kw) (b b' : Nat) (loop : Option Nat) :
    (kwargsCode b loop k).length = (kwargsCode b' loop k).length :=
  len_base_aux.2.2.2.1 0 none k b loop b' loop rfl
theorem len_base_filters (f : List Expr) (b b' : Nat) (loop : Option Nat) :
    (filtersCode b loop f).length = (filtersCode b' loop f).length :=
  len_base_aux.2.2.2.2.1 0 none f b loop b' loop rfl
theorem len_base_cond (o : Option Expr) (b b' : Nat) (loop : Option Nat) :
    (condCode b loop o).length = (condCode b' loop o).length :=
  len_base_aux.2.2.2.2.2.1 0 none o b loop b' loop rfl
theorem len_base_opt (o : Option Expr) (b b' : Nat) (loop : Option Nat) (d d' : CInstr) :
    (optExprCode b loop d o).length = (optExprCode b' loop d' o).length :=
  len_base_aux.2.2.2.2.2.2.1 0 none d o b loop b' loop d d' rfl
theorem len_base_array (a : List ArrayEntry) (b b' : Nat) (loop : Option Nat) :
    (arrayItemsCode b loop a).length = (arrayItemsCode b' loop a).length :=
  len_base_aux.2.2.2.2.2.2.2.1 0 none a b loop b' loop rfl
theorem len_base_map (m : List MapEntry) (b b' : Nat) (loop : Option Nat) :
    (mapItemsCode b loop m).length = (mapItemsCode b' loop m).length :=
  len_base_aux.2.2.2.2.2.2.2.2 0 none m b loop b' loop rfl

theorem reNodes_isEmpty (σ : Kw → Kw) (ns : List Node) : (reNodes σ ns).isEmpty = ns.isEmpty := by
  cases ns <;> simp [reNodes]

theorem filters_len_cons (x : Expr) (xs : List Expr) (b : Nat) (loop : Option Nat) :
    (filtersCode b loop (x :: xs)).length
      = (filtersCode b loop [x]).length + (filtersCode 0 loop xs).length := by
  cases x <;> simp only [filtersCode, List.length_append, List.length_cons, List.length_nil,
    List.append_nil] <;>
    first
    | (rw [len_base_filters xs _ 0 loop]; omega)
    | (rw [len_base_filters xs _ 0 loop])

/-! ### T4a: the size of every chunk does not depend on the kwarg order -/

section
variable (σ : Kw → Kw) (hσ : ∀ l, (σ l).Perm l)
include hσ

theorem re_len_aux :
    (∀ e, (∀ b loop, (exprCode b loop (reExpr σ e)).length = (exprCode b loop e).length) ∧
          (∀ b loop, (filtersCode b loop [reExpr σ e]).length = (filtersCode b loop [e]).length)) ∧
    (∀ ns, ∀ b loop, (nodesCode b loop (reNodes σ ns)).length = (nodesCode b loop ns).length) ∧
    (∀ n, ∀ b loop, (nodeCode b loop (reNode σ n)).length = (nodeCode b loop n).length) ∧
    (∀ k, ∀ b loop, (kwargsCode b loop (reKwargs σ k)).length = (kwargsCode b loop k).length) ∧
    (∀ f, ∀ b loop, (filtersCode b loop (reFilters σ f)).length = (filtersCode b loop f).length) ∧
    (∀ o, (∀ b loop d, (optExprCode b loop d (reOpt σ o)).length = (optExprCode b loop d o).length) ∧
          (∀ b loop, (condCode b loop (reOpt σ o)).length = (condCode b loop o).length) ∧
          ((reOpt σ o).isSome = o.isSome)) ∧
    (∀ a, (∀ b loop, (arrayItemsCode b loop (reArray σ a)).length = (arrayItemsCode b loop a).length)) ∧
    (∀ m, (∀ b loop, (mapItemsCode b loop (reMap σ m)).length = (mapItemsCode b loop m).length)) := by
  apply reExpr.mutual_induct
    (motive_1 := fun e => (∀ b loop, (exprCode b loop (reExpr σ e)).length = (exprCode b loop e).length) ∧
          (∀ b loop, (filtersCode b loop [reExpr σ e]).length = (filtersCode b loop [e]).length))
    (motive_2 := fun ns => ∀ b loop, (nodesCode b loop (reNodes σ ns)).length = (nodesCode b loop ns).length)
    (motive_3 := fun n => ∀ b loop, (nodeCode b loop (reNode σ n)).length = (nodeCode b loop n).length)
    (motive_4 := fun k => ∀ b loop, (kwargsCode b loop (reKwargs σ k)).length = (kwargsCode b loop k).length)
    (motive_5 := fun f => ∀ b loop, (filtersCode b loop (reFilters σ f)).length = (filtersCode b loop f).length)
    (motive_6 := fun o => (∀ b loop d, (optExprCode b loop d (reOpt σ o)).length = (optExprCode b loop d o).length) ∧
          (∀ b loop, (condCode b loop (reOpt σ o)).length = (condCode b loop o).length) ∧
          ((reOpt σ o).isSome = o.isSome))
    (motive_7 := fun a => ∀ b loop, (arrayItemsCode b loop (reArray σ a)).length = (arrayItemsCode b loop a).length)
    (motive_8 := fun m => ∀ b loop, (mapItemsCode b loop (reMap σ m)).length = (mapItemsCode b loop m).length)
  all_goals intros
  all_goals (try simp only [reExpr, reNodes, reNode, reKwargs, reFilters, reOpt, reArray, reMap] at *)
  all_goals (try (refine ⟨?_, ?_⟩))
  all_goals intros
  all_goals (try simp only [exprCode, nodesCode, nodeCode, kwargsCode, filtersCode, condCode, optExprCode,
    arrayItemsCode, mapItemsCode] at *)
  all_goals (try split)
  all_goals (try split)
  all_goals (try split)
  all_goals (try (simp (config := { zetaDelta := true }) only [List.length_append, List.length_cons,
    List.length_nil] at *))
  all_goals (try grind [len_base_expr, len_base_nodes, len_base_kwargs, len_base_filters, len_base_cond,
    len_base_opt, len_base_array, len_base_map, kwargs_len_perm, reNodes_isEmpty])
  case case40 e rest ih1 ih2 b loop =>
    rw [filters_len_cons (reExpr σ e), filters_len_cons e, ih1.2, ih2 0 loop]

/-! ### T4b: what is recorded does not depend on the kwarg order, up to a permutation -/

/-- an event without its chunk: kind, name, top-level flag -/
def Event.tag : Event → String × String × Bool
  | .filterCall n => ("filter", n, false)
  | .testCall n => ("test", n, false)
  | .functionCall n => ("function", n, false)
  | .includeCall n => ("include", n, false)
  | .componentCall n => ("component", n, false)
  | .blockDef n _ top => ("block", n, top)
  | .panic site => ("panic", site, false)

def tags (evs : List Event) : List (String × String × Bool) := evs.map Event.tag

omit hσ in
@[simp] theorem tags_append (a b : List Event) : tags (a ++ b) = tags a ++ tags b := by
  simp [tags]

omit hσ in
theorem kwargsEvents_flatMap (il : Bool) (d : Nat) (k : Kw) :
    kwargsEvents il d k = k.flatMap fun p => exprEvents il d p.2 := by
  induction k with
  | nil => simp [kwargsEvents]
  | cons x xs ih => obtain ⟨n, v⟩ := x; simp [kwargsEvents, ih]

omit hσ in
theorem kw_tags_perm {k1 k2 : Kw} (h : k1.Perm k2) (il : Bool) (d : Nat) :
    (tags (kwargsEvents il d k1)).Perm (tags (kwargsEvents il d k2)) := by
  rw [kwargsEvents_flatMap, kwargsEvents_flatMap]
  exact (h.flatMap_right _).map _

omit hσ in
theorem filtersEvents_cons (il : Bool) (d : Nat) (x : Expr) (xs : List Expr) :
    filtersEvents il d (x :: xs) = filtersEvents il d [x] ++ filtersEvents il d xs := by
  cases x <;> simp [filtersEvents]

theorem re_tags_aux :
    (∀ e, (∀ il d x, x ∈ tags (exprEvents il d (reExpr σ e)) ↔ x ∈ tags (exprEvents il d e)) ∧
          (∀ il d x, x ∈ tags (filtersEvents il d [reExpr σ e]) ↔ x ∈ tags (filtersEvents il d [e]))) ∧
    (∀ ns, ∀ il d x, x ∈ tags (nodesEvents il d (reNodes σ ns)) ↔ x ∈ tags (nodesEvents il d ns)) ∧
    (∀ n, ∀ il d x, x ∈ tags (nodeEvents il d (reNode σ n)) ↔ x ∈ tags (nodeEvents il d n)) ∧
    (∀ k, ∀ il d x, x ∈ tags (kwargsEvents il d (reKwargs σ k)) ↔ x ∈ tags (kwargsEvents il d k)) ∧
    (∀ f, ∀ il d x, x ∈ tags (filtersEvents il d (reFilters σ f)) ↔ x ∈ tags (filtersEvents il d f)) ∧
    (∀ o, ∀ il d x, x ∈ tags (optExprEvents il d (reOpt σ o)) ↔ x ∈ tags (optExprEvents il d o)) ∧
    (∀ a, ∀ il d x, x ∈ tags (arrayItemsEvents il d (reArray σ a)) ↔ x ∈ tags (arrayItemsEvents il d a)) ∧
    (∀ m, ∀ il d x, x ∈ tags (mapItemsEvents il d (reMap σ m)) ↔ x ∈ tags (mapItemsEvents il d m)) := by
  have key : ∀ K il d x, x ∈ tags (kwargsEvents il d (σ K)) ↔ x ∈ tags (kwargsEvents il d K) :=
    fun K il d x => (kw_tags_perm (hσ K) il d).mem_iff
  clear hσ
  apply reExpr.mutual_induct
    (motive_1 := fun e => (∀ il d x, x ∈ tags (exprEvents il d (reExpr σ e)) ↔ x ∈ tags (exprEvents il d e)) ∧
          (∀ il d x, x ∈ tags (filtersEvents il d [reExpr σ e]) ↔ x ∈ tags (filtersEvents il d [e])))
    (motive_2 := fun ns => ∀ il d x, x ∈ tags (nodesEvents il d (reNodes σ ns)) ↔ x ∈ tags (nodesEvents il d ns))
    (motive_3 := fun n => ∀ il d x, x ∈ tags (nodeEvents il d (reNode σ n)) ↔ x ∈ tags (nodeEvents il d n))
    (motive_4 := fun k => ∀ il d x, x ∈ tags (kwargsEvents il d (reKwargs σ k)) ↔ x ∈ tags (kwargsEvents il d k))
    (motive_5 := fun f => ∀ il d x, x ∈ tags (filtersEvents il d (reFilters σ f)) ↔ x ∈ tags (filtersEvents il d f))
    (motive_6 := fun o => ∀ il d x, x ∈ tags (optExprEvents il d (reOpt σ o)) ↔ x ∈ tags (optExprEvents il d o))
    (motive_7 := fun a => ∀ il d x, x ∈ tags (arrayItemsEvents il d (reArray σ a)) ↔ x ∈ tags (arrayItemsEvents il d a))
    (motive_8 := fun m => ∀ il d x, x ∈ tags (mapItemsEvents il d (reMap σ m)) ↔ x ∈ tags (mapItemsEvents il d m))
  case case40 =>
    intro e rest ih1 ih2 il d x
    simp only [reFilters]
    rw [filtersEvents_cons il d (reExpr σ e), filtersEvents_cons il d e]
    simp only [tags_append, List.mem_append, ih1.2 il d x, ih2 il d x]
  all_goals intros
  all_goals (try simp only [reExpr, reNodes, reNode, reKwargs, reFilters, reOpt, reArray, reMap] at *)
  all_goals (try (refine ⟨?_, ?_⟩))
  all_goals intros
  all_goals (try simp only [exprEvents, nodesEvents, nodeEvents, kwargsEvents, filtersEvents,
    optExprEvents, arrayItemsEvents, mapItemsEvents, tags_append, List.append_nil, List.mem_append] at *)
  all_goals (try split)
  all_goals (try (simp only [tags_append, List.mem_append, key, *]; done))
  all_goals (try (simp only [tags, List.map_cons, List.map_nil, Event.tag, List.mem_cons, List.not_mem_nil, or_false] at *))
  all_goals (try grind)

/-! ### T4c: the scoping precondition does not depend on the kwarg order -/

omit hσ in
theorem kwargsScoped_all (k : Kw) : kwargsScoped k = k.all fun p => exprScoped p.2 := by
  induction k with
  | nil => rfl
  | cons x xs ih => obtain ⟨n, v⟩ := x; simp [kwargsScoped, ih]

omit hσ in
theorem filtersScoped_cons (x : Expr) (xs : List Expr) :
    filtersScoped (x :: xs) = (filtersScoped [x] && filtersScoped xs) := by
  cases x <;> simp [filtersScoped]

theorem re_scoped_aux :
    (∀ e, exprScoped (reExpr σ e) = exprScoped e ∧ filtersScoped [reExpr σ e] = filtersScoped [e]) ∧
    (∀ ns, ∀ il, nodesScoped il (reNodes σ ns) = nodesScoped il ns) ∧
    (∀ n, ∀ il, nodeScoped il (reNode σ n) = nodeScoped il n) ∧
    (∀ k, kwargsScoped (reKwargs σ k) = kwargsScoped k) ∧
    (∀ f, filtersScoped (reFilters σ f) = filtersScoped f) ∧
    (∀ o, optExprScoped (reOpt σ o) = optExprScoped o) ∧
    (∀ a, arrayItemsScoped (reArray σ a) = arrayItemsScoped a) ∧
    (∀ m, mapItemsScoped (reMap σ m) = mapItemsScoped m) := by
  have key : ∀ K, kwargsScoped (σ K) = kwargsScoped K := fun K => by
    rw [kwargsScoped_all, kwargsScoped_all]; exact (hσ K).all_eq
  clear hσ
  apply reExpr.mutual_induct
    (motive_1 := fun e => exprScoped (reExpr σ e) = exprScoped e ∧ filtersScoped [reExpr σ e] = filtersScoped [e])
    (motive_2 := fun ns => ∀ il, nodesScoped il (reNodes σ ns) = nodesScoped il ns)
    (motive_3 := fun n => ∀ il, nodeScoped il (reNode σ n) = nodeScoped il n)
    (motive_4 := fun k => kwargsScoped (reKwargs σ k) = kwargsScoped k)
    (motive_5 := fun f => filtersScoped (reFilters σ f) = filtersScoped f)
    (motive_6 := fun o => optExprScoped (reOpt σ o) = optExprScoped o)
    (motive_7 := fun a => arrayItemsScoped (reArray σ a) = arrayItemsScoped a)
    (motive_8 := fun m => mapItemsScoped (reMap σ m) = mapItemsScoped m)
  case case40 =>
    intro e rest ih1 ih2
    simp only [reFilters]
    rw [filtersScoped_cons (reExpr σ e), filtersScoped_cons e, ih1.2, ih2]
  all_goals intros
  all_goals (try simp only [reExpr, reNodes, reNode, reKwargs, reFilters, reOpt, reArray, reMap] at *)
  all_goals (try simp only [exprScoped, nodesScoped, nodeScoped, kwargsScoped, filtersScoped,
    optExprScoped, arrayItemsScoped, mapItemsScoped] at *)
  all_goals (try (simp only [key, *]; done))
  all_goals (try grind)

end

/-! ### Templates -/

/-- every kwargs map of the template reordered by `σ` -/
def reTemplate (σ : Kw → Kw) (t : Template) : Template :=
  { parent := t.parent
    nodes := reNodes σ t.nodes
    componentDefinitions := t.componentDefinitions.map fun c => { c with body := reNodes σ c.body } }

theorem mem_filterCalls (evs : List Event) (n : String) :
    n ∈ filterCalls evs ↔ ("filter", n, false) ∈ tags evs := by
  simp only [filterCalls, tags, List.mem_filterMap, List.mem_map]
  constructor
  · rintro ⟨ev, hev, h⟩; refine ⟨ev, hev, ?_⟩; cases ev <;> simp_all [Event.tag]
  · rintro ⟨ev, hev, h⟩; refine ⟨ev, hev, ?_⟩; cases ev <;> simp_all [Event.tag]
theorem mem_testCalls (evs : List Event) (n : String) :
    n ∈ testCalls evs ↔ ("test", n, false) ∈ tags evs := by
  simp only [testCalls, tags, List.mem_filterMap, List.mem_map]
  constructor
  · rintro ⟨ev, hev, h⟩; refine ⟨ev, hev, ?_⟩; cases ev <;> simp_all [Event.tag]
  · rintro ⟨ev, hev, h⟩; refine ⟨ev, hev, ?_⟩; cases ev <;> simp_all [Event.tag]
theorem mem_functionCalls (evs : List Event) (n : String) :
    n ∈ functionCalls evs ↔ ("function", n, false) ∈ tags evs := by
  simp only [functionCalls, tags, List.mem_filterMap, List.mem_map]
  constructor
  · rintro ⟨ev, hev, h⟩; refine ⟨ev, hev, ?_⟩; cases ev <;> simp_all [Event.tag]
  · rintro ⟨ev, hev, h⟩; refine ⟨ev, hev, ?_⟩; cases ev <;> simp_all [Event.tag]
theorem mem_includeCalls (evs : List Event) (n : String) :
    n ∈ includeCalls evs ↔ ("include", n, false) ∈ tags evs := by
  simp only [includeCalls, tags, List.mem_filterMap, List.mem_map]
  constructor
  · rintro ⟨ev, hev, h⟩; refine ⟨ev, hev, ?_⟩; cases ev <;> simp_all [Event.tag]
  · rintro ⟨ev, hev, h⟩; refine ⟨ev, hev, ?_⟩; cases ev <;> simp_all [Event.tag]
theorem mem_componentCalls (evs : List Event) (n : String) :
    n ∈ componentCalls evs ↔ ("component", n, false) ∈ tags evs := by
  simp only [componentCalls, tags, List.mem_filterMap, List.mem_map]
  constructor
  · rintro ⟨ev, hev, h⟩; refine ⟨ev, hev, ?_⟩; cases ev <;> simp_all [Event.tag]
  · rintro ⟨ev, hev, h⟩; refine ⟨ev, hev, ?_⟩; cases ev <;> simp_all [Event.tag]
theorem mem_topBlocks (evs : List Event) (n : String) :
    n ∈ topBlocks evs ↔ ("block", n, true) ∈ tags evs := by
  simp only [topBlocks, tags, List.mem_filterMap, List.mem_map]
  constructor
  · rintro ⟨ev, hev, h⟩; refine ⟨ev, hev, ?_⟩
    cases ev <;> simp_all [Event.tag]
    rename_i name chunk top; cases top <;> simp_all
  · rintro ⟨ev, hev, h⟩; refine ⟨ev, hev, ?_⟩
    cases ev <;> simp_all [Event.tag]
theorem block_tag_mem (evs : List Event) (n : String) (top : Bool) :
    ("block", n, top) ∈ tags evs ↔ ∃ code, Event.blockDef n code top ∈ evs := by
  simp only [tags, List.mem_map]
  constructor
  · rintro ⟨ev, hev, h⟩
    cases ev <;> simp [Event.tag] at h
    obtain ⟨rfl, rfl⟩ := h
    exact ⟨_, hev⟩
  · rintro ⟨code, h⟩
    exact ⟨_, h, rfl⟩

theorem mem_blockNames (evs : List Event) (n : String) :
    n ∈ (blockDefs evs).map (·.1) ↔ ∃ top, ("block", n, top) ∈ tags evs := by
  simp only [block_tag_mem, blockDefs, List.mem_map, List.mem_filterMap]
  constructor
  · rintro ⟨⟨m, c⟩, ⟨ev, hev, h⟩, rfl⟩
    cases ev <;> simp at h
    obtain ⟨rfl, rfl⟩ := h
    exact ⟨_, _, hev⟩
  · rintro ⟨top, code, h⟩
    exact ⟨(n, code), ⟨_, h, rfl⟩, rfl⟩

theorem firstPanic_none (evs : List Event) :
    firstPanic evs = none ↔ ∀ site, ("panic", site, false) ∉ tags evs := by
  simp only [firstPanic, List.findSome?_eq_none_iff, tags, List.mem_map, not_exists, not_and]
  constructor
  · intro h site ev hev; have := h ev hev; cases ev <;> simp_all [Event.tag, Event.isPanic]
  · intro h ev hev
    cases ev <;> simp [Event.isPanic]
    rename_i site; exact h site _ hev (by simp [Event.tag])
theorem anyBlock_iff (evs : List Event) :
    evs.any Event.isBlock = true ↔ ∃ n top, ("block", n, top) ∈ tags evs := by
  simp only [block_tag_mem, List.any_eq_true]
  constructor
  · rintro ⟨ev, hev, h⟩
    cases ev <;> simp [Event.isBlock] at h
    exact ⟨_, _, _, hev⟩
  · rintro ⟨n, top, code, h⟩
    exact ⟨_, h, rfl⟩

section
variable (σ : Kw → Kw) (hσ : ∀ l, (σ l).Perm l)
include hσ

theorem re_tags_allEvents (t : Template) (x : String × String × Bool) :
    x ∈ tags (allEvents (reTemplate σ t)) ↔ x ∈ tags (allEvents t) := by
  have hn := (re_tags_aux σ hσ).2.1
  simp only [allEvents, bodyEvents, componentEvents, reTemplate, tags_append, List.mem_append, hn]
  apply or_congr Iff.rfl
  simp only [tags, List.mem_map, List.mem_flatMap]
  constructor
  · rintro ⟨ev, ⟨c', ⟨c, hc, rfl⟩, hev⟩, rfl⟩
    have := (hn c.body false 0 ev.tag).mp (List.mem_map.mpr ⟨ev, hev, rfl⟩)
    obtain ⟨ev', hev', htag⟩ := List.mem_map.mp this
    exact ⟨ev', ⟨c, hc, hev'⟩, htag⟩
  · rintro ⟨ev, ⟨c, hc, hev⟩, rfl⟩
    have := (hn c.body false 0 ev.tag).mpr (List.mem_map.mpr ⟨ev, hev, rfl⟩)
    obtain ⟨ev', hev', htag⟩ := List.mem_map.mp this
    exact ⟨ev', ⟨_, ⟨c, hc, rfl⟩, hev'⟩, htag⟩

theorem re_tags_bodyEvents (t : Template) (x : String × String × Bool) :
    x ∈ tags (bodyEvents (reTemplate σ t)) ↔ x ∈ tags (bodyEvents t) :=
  (re_tags_aux σ hσ).2.1 t.nodes false 0 x

theorem re_templateScoped (t : Template) : templateScoped (reTemplate σ t) = templateScoped t := by
  have hs := (re_scoped_aux σ hσ).2.1
  have hn := (re_tags_aux σ hσ).2.1
  simp only [templateScoped, reTemplate, hs, List.all_map]
  congr 1
  apply List.all_congr rfl
  intro c
  simp only [Function.comp, hs, componentEvents]
  congr 1
  have : (nodesEvents false 0 (reNodes σ c.body)).any Event.isBlock
      = (nodesEvents false 0 c.body).any Event.isBlock := by
    rw [Bool.eq_iff_iff, anyBlock_iff, anyBlock_iff]
    simp only [hn]
  rw [this]
end

end Tera.Compiler
