/-
Fuel monotonicity of the VM model (for Props/RefineE2E.lean): a result of `Vm.interp` other than
"out of fuel" does not change when the step fuel and the nesting fuel grow.  (The fuel is an
artefact of the model: the Rust interpreter has none.)

`step_recLe`: a turn of the loop only looks at its nested interpreter through one call; a nested
interpreter that answers the same wherever the first one answers at all gives the same turn.
-/
import TeraModel.Lemmas.OptimizeSimVmRun
namespace Tera.Refine
open Tera Tera.Vm

/-- `rec2` answers as `rec1` wherever `rec1` does not run out of fuel -/
def RecLe (rec1 rec2 : VmCtx → Chunk → State → RunRes) : Prop :=
  ∀ vm c st, rec1 vm c st ≠ .outOfFuel → rec2 vm c st = rec1 vm c st

section
variable {rec1 rec2 : VmCtx → Chunk → State → RunRes}

theorem stepSuper_recLe (h12 : RecLe rec1 rec2) (env : Vm.Env) (vm : VmCtx) (c : Chunk)
    (pc : Nat) (st : State) (hne : stepSuper rec1 env vm c pc st ≠ .outOfFuel) :
    stepSuper rec2 env vm c pc st = stepSuper rec1 env vm c pc st := by
  unfold stepSuper at hne ⊢
  cases h1 : st.currentBlockName with
  | none => rfl
  | some cur =>
    simp only [h1] at hne ⊢
    cases h2 : blockPos st.blocks cur with
    | none => rfl
    | some pos =>
      simp only [h2] at hne ⊢
      cases h3 : st.blocks[st.blocks.length - 1 - pos]? with
      | none => rfl
      | some x =>
        obtain ⟨nm, lineage, level⟩ := x
        simp only [h3] at hne ⊢
        cases h4 : lineage[level + 1]? with
        | none => rfl
        | some bc =>
          simp only [h4] at hne ⊢
          cases h5 : setLevel st.blocks pos (level + 1) with
          | none => rfl
          | some blocks1 =>
            simp only [h5] at hne ⊢
            have hr : rec1 vm bc (enterSuper st blocks1) ≠ .outOfFuel := by
              intro h; rw [h] at hne; exact hne rfl
            rw [h12 _ _ _ hr]

theorem stepComponent_recLe (h12 : RecLe rec1 rec2) (env : Vm.Env) (vm : VmCtx) (c : Chunk)
    (n : String) (hb : Bool) (pc : Nat) (st : State)
    (hne : stepComponent rec1 env vm c n hb pc st ≠ .outOfFuel) :
    stepComponent rec2 env vm c n hb pc st = stepComponent rec1 env vm c n hb pc st := by
  unfold stepComponent at hne ⊢
  cases h1 : st.stack with
  | nil => rfl
  | cons top rest =>
    obtain ⟨kwargs, sp⟩ := top
    simp only [h1] at hne ⊢
    cases kwargs <;> first | rfl | skip
    rename_i es
    simp only at hne ⊢
    cases h2 : findComponent env vm n with
    | none => rfl
    | some x =>
      obtain ⟨cdef, cchunk⟩ := x
      simp only [h2] at hne ⊢
      cases h3 : popBody hb rest with
      | none => rfl
      | some y =>
        obtain ⟨body, rest'⟩ := y
        simp only [h3] at hne ⊢
        cases h4 : Component.buildContext cdef es body with
        | error _ => rfl
        | ok bound =>
          simp only [h4] at hne ⊢
          split
          · rfl
          · rename_i hd
            simp only [hd, if_false] at hne
            have hr : rec1 { vm with depth := vm.depth + 1 } cchunk (componentState bound) ≠ .outOfFuel := by
              intro h; rw [h] at hne; exact hne rfl
            rw [h12 _ _ _ hr]

theorem step_recLe (h12 : RecLe rec1 rec2) (env : Vm.Env) (vm : VmCtx) (c : Chunk) (e : VEntry)
    (pc : Nat) (st : State) (hne : step rec1 env vm c e pc st ≠ .outOfFuel) :
    step rec2 env vm c e pc st = step rec1 env vm c e pc st := by
  obtain ⟨i, sps⟩ := e
  cases i <;> first | rfl | skip
  case include_ n =>
    simp only [step, stepInclude] at hne ⊢
    cases ht : env.template n with
    | none => rfl
    | some tpl =>
      simp only [ht] at hne ⊢
      have hr : rec1 { vm with template := tpl } tpl.chunk (includeState st) ≠ .outOfFuel := by
        intro h; rw [h] at hne; exact hne rfl
      rw [h12 _ _ _ hr]
  case renderBlock n =>
    simp only [step, stepRenderBlock] at hne ⊢
    split <;> first | rfl | skip
    rename_i first more hl
    simp only [hl] at hne
    have hr : rec1 vm first (enterBlock st n (first :: more)) ≠ .outOfFuel := by
      intro h; rw [h] at hne; exact hne rfl
    rw [h12 _ _ _ hr]
  case callFunction n =>
    simp only [step, stepCallFunction] at hne ⊢
    cases hs : st.stack with
    | nil => rfl
    | cons top rest =>
      obtain ⟨kwargs, sp⟩ := top
      simp only [hs] at hne ⊢
      by_cases hn : n = "super"
      · simp only [hn, if_true] at hne ⊢
        exact stepSuper_recLe h12 env vm c pc _ hne
      · simp only [hn, if_false]
  case renderComponent n hb =>
    exact stepComponent_recLe h12 env vm c n hb pc st hne

theorem runLoop_recLe (h12 : RecLe rec1 rec2) (env : Vm.Env) (vm : VmCtx) (c : Chunk) :
    ∀ (n pc : Nat) (st : State), runLoop rec1 env vm c n pc st ≠ .outOfFuel →
      runLoop rec2 env vm c n pc st = runLoop rec1 env vm c n pc st := by
  intro n
  induction n with
  | zero => intro pc st _; simp only [runLoop]
  | succ n ih =>
    intro pc st hne
    simp only [runLoop] at hne ⊢
    cases hc : c.code[pc]? with
    | none => rfl
    | some e =>
      simp only [hc] at hne ⊢
      have hs : step rec1 env vm c e pc st ≠ .outOfFuel := by
        intro h; rw [h] at hne; exact hne rfl
      rw [step_recLe h12 env vm c e pc st hs]
      cases hst : step rec1 env vm c e pc st with
      | next pc' st' =>
        rw [hst] at hne
        exact ih pc' st' hne
      | _ => rfl
end

/-- `interp_mono`: a result other than "out of fuel" is the result with any larger fuel -/
theorem interp_mono (env : Vm.Env) (s s' : Nat) (hs : s ≤ s') :
    ∀ (d d' : Nat), d ≤ d' → RecLe (interp env s d) (interp env s' d') := by
  intro d
  induction d with
  | zero => intro d' _ vm c st hne; exact absurd rfl hne
  | succ d ih =>
    intro d' hd vm c st hne
    obtain ⟨d'', rfl⟩ : ∃ d'', d' = d'' + 1 := ⟨d' - 1, by omega⟩
    simp only [interp] at hne ⊢
    have h1 := runLoop_recLe (ih d'' (by omega)) env vm c s 0 st hne
    rw [← h1] at hne
    rw [OptimizeSimVm.runLoop_mono _ env vm c s 0 st hne s' hs, h1]

end Tera.Refine
