/-
Bridge from the typed instruction set of the compiler model to the wire form the verified checker
of Model/WellFormed.lean reads: for every instruction the compiler can emit,
`WellFormed.opOf (i.toInstr enc) = some (cop i)` (whatever the payload encoders are), so a table that
passes the local check on the typed chunk passes `WellFormed.verify` on `toEntries enc chunk`.
-/
import TeraModel.Lemmas.CompilerSound
namespace Tera.Compiler
open Tera.WellFormed

/-! ### Only the 15 arithmetic / comparison operators become `binop` instructions -/

def ValidI : CInstr → Prop
  | .binop op => op ≠ .And ∧ op ≠ .Or ∧ op ≠ .Is ∧ op ≠ .Pipe
  | _ => True

def ValidE (y : CEntry) : Prop := ValidI y.1

@[simp] theorem allC_validE_keyStore (k : Option String) : AllC ValidE (keyStore k) := by
  cases k <;> simp [keyStore, ValidE, ValidI, ns]

@[simp] theorem validE_unary (op : UnaryOperator) : ValidE (sp (unaryInstr op)) := by
  cases op <;> simp [ValidE, ValidI, sp, unaryInstr]

def ValM1 (e : Expr) : Prop :=
  ∀ base loop, AllC ValidE (exprCode base loop e)
def ValM2 (ns : List Node) : Prop :=
  ∀ base loop, AllC ValidE (nodesCode base loop ns)
def ValM3 (n : Node) : Prop :=
  ∀ base loop, AllC ValidE (nodeCode base loop n)
def ValM4 (k : List (String × Expr)) : Prop :=
  ∀ base loop, AllC ValidE (kwargsCode base loop k)
def ValM5 (f : List Expr) : Prop :=
  ∀ base loop, AllC ValidE (filtersCode base loop f)
def ValM6 (o : Option Expr) : Prop :=
  ∀ base loop, AllC ValidE (condCode base loop o)
def ValM7 (o : Option Expr) : Prop :=
  ∀ base loop dflt, ValidE (ns dflt) → AllC ValidE (optExprCode base loop dflt o)
def ValM8 (a : List ArrayEntry) : Prop :=
  ∀ base loop, AllC ValidE (arrayItemsCode base loop a)
def ValM9 (m : List MapEntry) : Prop :=
  ∀ base loop, AllC ValidE (mapItemsCode base loop m)

theorem valid_code_aux :
    (∀ (_ : Nat) (_ : Option Nat) e, ValM1 e) ∧
    (∀ (_ : Nat) (_ : Option Nat) ns, ValM2 ns) ∧
    (∀ (_ : Nat) (_ : Option Nat) n, ValM3 n) ∧
    (∀ (_ : Nat) (_ : Option Nat) k, ValM4 k) ∧
    (∀ (_ : Nat) (_ : Option Nat) f, ValM5 f) ∧
    (∀ (_ : Nat) (_ : Option Nat) o, ValM6 o) ∧
    (∀ (_ : Nat) (_ : Option Nat) (_ : CInstr) o, ValM7 o) ∧
    (∀ (_ : Nat) (_ : Option Nat) a, ValM8 a) ∧
    (∀ (_ : Nat) (_ : Option Nat) m, ValM9 m) := by
  apply exprCode.mutual_induct
    (motive_1 := fun _ _ e => ValM1 e)
    (motive_2 := fun _ _ ns => ValM2 ns)
    (motive_3 := fun _ _ n => ValM3 n)
    (motive_4 := fun _ _ k => ValM4 k)
    (motive_5 := fun _ _ f => ValM5 f)
    (motive_6 := fun _ _ o => ValM6 o)
    (motive_7 := fun _ _ _ o => ValM7 o)
    (motive_8 := fun _ _ a => ValM8 a)
    (motive_9 := fun _ _ m => ValM9 m)
  all_goals intros
  all_goals simp only [ValM1, ValM2, ValM3, ValM4, ValM5, ValM6, ValM7, ValM8, ValM9] at *
  all_goals intros
  all_goals simp only [exprCode, nodesCode, nodeCode, kwargsCode, filtersCode, condCode, optExprCode,
    arrayItemsCode, mapItemsCode] at *
  all_goals (try split)
  all_goals (try simp_all (config := { zetaDelta := true }) only [allC_append, allC_cons, allC_nil,
    and_true, true_and, and_self, allC_validE_keyStore, validE_unary])
  all_goals (try (simp only [ValidE, ValidI, sp, ns, mapBuild, arrayBuild, setInstr]; done))
  all_goals (try grind [ValidE, ValidI, sp, ns, mapBuild, arrayBuild, setInstr])

theorem valid_nodes (ns : List Node) (base : Nat) (loop : Option Nat) :
    AllC ValidE (nodesCode base loop ns) := valid_code_aux.2.1 0 none ns base loop

/-! ### Decimal counts -/

theorem digitChar_ok : ∀ d, d < 10 →
    ('0' ≤ digitChar d ∧ digitChar d ≤ '9') ∧ (digitChar d).toNat - '0'.toNat = d := by decide

def decStep (acc : Option Nat) (ch : Char) : Option Nat :=
  acc.bind fun n => if '0' ≤ ch ∧ ch ≤ '9' then some (n * 10 + (ch.toNat - '0'.toNat)) else none

theorem decStep_digit (n d : Nat) (h : d < 10) : decStep (some n) (digitChar d) = some (n * 10 + d) := by
  obtain ⟨h1, h2⟩ := digitChar_ok d h
  have h2' : (digitChar d).toNat - 48 = d := h2
  simp [decStep, h1, h2']

theorem foldl_natDec (n : Nat) : (natDec n).foldl decStep (some 0) = some n := by
  induction n using Nat.strongRecOn with
  | _ n ih =>
    rw [natDec]
    split
    · rename_i h
      simp [decStep_digit 0 n h]
    · rename_i h
      rw [List.foldl_append, ih (n / 10) (by omega)]
      simp only [List.foldl_cons, List.foldl_nil]
      rw [decStep_digit _ _ (Nat.mod_lt n (by omega))]
      congr 1
      omega

theorem natDec_ne_nil (n : Nat) : natDec n ≠ [] := by
  rw [natDec]; split <;> simp

theorem decNat_natDec (n : Nat) : decNat (natDec n) = some n := by
  unfold decNat
  have h : (natDec n).isEmpty = false := by
    cases hh : natDec n with
    | nil => exact absurd hh (natDec_ne_nil n)
    | cons _ _ => rfl
  rw [h]
  exact foldl_natDec n

theorem foldl_spread (l : List Bool) (acc : Nat) :
    (l.map fun b => if b then 't' else 'f').foldl (fun n ch => n + (if ch = 't' then 1 else 2)) acc
      = acc + flagSlots l := by
  induction l generalizing acc with
  | nil => simp [flagSlots]
  | cons b bs ih =>
    simp only [List.map_cons, List.foldl_cons, flagSlots]
    rw [ih]
    cases b <;> simp <;> omega

theorem spreadPops_flagsText (l : List Bool) : spreadPops (flagsText l) = flagSlots l := by
  simp only [spreadPops, flagsText, String.toList_ofList]
  rw [foldl_spread]; omega

/-! ### `opOf` of the wire form -/

theorem opOf_toInstr (enc : Enc) (i : CInstr) (h : ValidI i) :
    opOf (i.toInstr enc) = some (cop i) := by
  cases i
  case binop op =>
    simp only [ValidI] at h
    cases op <;> simp_all [CInstr.toInstr, opOf, cop, BinaryOperator.name]
  case buildMap n =>
    simp only [CInstr.toInstr, opOf, cop, String.toList_ofList, decNat_natDec, Option.map_some]
  case buildList n =>
    simp only [CInstr.toInstr, opOf, cop, String.toList_ofList, decNat_natDec, Option.map_some]
  case buildMapWithSpreads l =>
    simp only [CInstr.toInstr, opOf, cop, spreadPops_flagsText]
  case buildListWithSpreads l =>
    simp only [CInstr.toInstr, opOf, cop, flagsText, String.length_ofList, List.length_map]
  all_goals simp [CInstr.toInstr, opOf, cop]

/-! ### From the local check on the typed chunk to `WellFormed.verify` on the wire form -/

theorem covered_of_cov (tab : List St) (n : Nat) (hn : tab.length = n) (x : Nat × St)
    (h : Cov (tab ++ [St.empty]) x) : covered (tab.map some) n x = true := by
  obtain ⟨b, hb, hle⟩ := h
  unfold covered
  by_cases hlt : x.1 < n
  · rw [if_pos hlt]
    have hlt' : x.1 < tab.length := by omega
    rw [List.getElem?_append_left hlt'] at hb
    have : (tab.map some)[x.1]? = some (some b) := by
      rw [List.getElem?_map, hb]; rfl
    rw [this]; exact hle
  · rw [if_neg hlt]
    have hlt2 := (List.getElem?_eq_some_iff.mp hb).1
    simp only [List.length_append, List.length_cons, List.length_nil] at hlt2
    have hpc : x.1 = tab.length := by omega
    rw [hpc] at hb
    simp only [List.getElem?_append_right (Nat.le_refl _), Nat.sub_self, List.getElem?_cons_zero,
      Option.some.injEq] at hb
    subst hb
    have := St.le_empty x.2 hle
    simp [hpc, hn, this]

/-- A typed chunk whose table passes the local check everywhere, started with empty stacks: the
wire form passes the verified checker's `verify` with the same table. -/
theorem verify_of_okr (enc : Enc) (code : Code) (tab : List St) (hlen : tab.length = code.length)
    (hvalid : AllC ValidE code) (h0 : (tab ++ [St.empty])[0]? = some St.empty)
    (hok : OKr code (tab ++ [St.empty]) 0 code.length) :
    verify (toEntries enc code) (tab.map some) = true := by
  have hclen : (toEntries enc code).length = code.length := by simp [toEntries]
  simp only [verify, Bool.and_eq_true, List.all_eq_true, List.mem_range, hclen]
  refine ⟨covered_of_cov tab _ hlen (0, St.empty) ⟨St.empty, h0, St.le_refl _⟩, ?_⟩
  intro pc hpc
  have hpc' : pc < tab.length := by omega
  have hce : code[pc]? = some code[pc] := List.getElem?_eq_getElem hpc
  have hte : (tab ++ [St.empty])[pc]? = some tab[pc] := by
    rw [List.getElem?_append_left hpc']; exact List.getElem?_eq_getElem hpc'
  have hl := hok pc hpc
  rw [Nat.zero_add] at hl
  obtain ⟨succs, hstep, hall⟩ := hl _ _ hce hte
  have h1 : (tab.map some)[pc]? = some (some tab[pc]) := by
    rw [List.getElem?_map, List.getElem?_eq_getElem hpc']; rfl
  have h2 : (toEntries enc code)[pc]?
      = some ((code[pc]).1.toInstr enc, if (code[pc]).2 then ["s"] else []) := by
    simp only [toEntries, List.getElem?_map, hce, Option.map_some]
  have hop := opOf_toInstr enc (code[pc]).1 (hvalid _ (List.getElem_mem hpc))
  simp only [verifyAt, h1, h2, hop, hstep, List.all_eq_true, hclen]
  intro x hx
  exact covered_of_cov tab _ hlen x (hall x hx)

/-- the certificate of a whole compiled chunk passes `verify` -/
theorem nodes_verify (enc : Enc) (ns : List Node) (hsc : nodesScoped false ns = true) :
    verify (toEntries enc (nodesCode 0 none ns)) ((nodesTab 0 none St.empty ns).map some) = true := by
  have hlen : (nodesTab 0 none St.empty ns).length = (nodesCode 0 none ns).length :=
    tabLen2 ns 0 none St.empty
  have hend : (nodesTab 0 none St.empty ns ++ [St.empty])[0 + (nodesCode 0 none ns).length]?
      = some St.empty := by
    rw [Nat.zero_add, ← hlen]; simp
  have hsegT : Seg (nodesTab 0 none St.empty ns ++ [St.empty]) 0 (nodesTab 0 none St.empty ns) :=
    Tera.C07Compile.seg_prefix _ _
  have hok := wf_aux.2.1 0 none ns 0 none St.empty (nodesCode 0 none ns)
    (nodesTab 0 none St.empty ns ++ [St.empty]) false (Tera.C07Compile.seg_self _) hsegT hend hsc
    (fun h => by cases h)
  have h0 : (nodesTab 0 none St.empty ns ++ [St.empty])[0]? = some St.empty :=
    head_nodes hsegT hend hsc (fun h => by cases h)
  exact verify_of_okr enc _ _ hlen (valid_nodes ns 0 none) h0 hok

end Tera.Compiler
