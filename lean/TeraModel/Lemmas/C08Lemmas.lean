/-
Helper lemmas for Props/C08.lean (positional form of the filter spec, trimming yields a suffix,
byte-disjoint texts contain no start delimiter).
-/
import TeraModel.Lemmas.NoStart
namespace Tera.C08
open Tera Utf8 Lexer WsFilter WsSpec

theorem specFilter_length (ts : List Item) : ∀ prev, (specFilter prev ts).length = ts.length := by
  induction ts with
  | nil => intro _; rfl
  | cons hd tl ih => intro prev; simp [specFilter, ih]

theorem specFilter_getElem (ts : List Item) : ∀ (prev : Option Token) (i : Nat) (h : i < ts.length),
    (specFilter prev ts)[i]'(by rw [specFilter_length]; exact h) =
      specItem (if i = 0 then prev else (ts[i - 1]?).map (·.1)) ts[i] ((ts[i + 1]?).map (·.1)) := by
  induction ts with
  | nil => intro _ i h; simp at h
  | cons hd tl ih =>
    intro prev i h
    cases i with
    | zero =>
      simp only [specFilter, List.getElem_cons_zero, if_true]
      cases tl <;> simp
    | succ j =>
      simp only [specFilter, List.getElem_cons_succ]
      rw [ih (some hd.1) j (by simpa using h)]
      cases j with
      | zero => simp
      | succ j' => simp

theorem trimStartFuel_suffix : ∀ (fuel : Nat) (s : Bytes), ∃ k, trimStartFuel fuel s = s.drop k := by
  intro fuel
  induction fuel with
  | zero => intro s; exact ⟨0, by simp [trimStartFuel]⟩
  | succ f ih =>
    intro s
    unfold trimStartFuel
    split
    · rename_i c n _
      split
      · obtain ⟨k, hk⟩ := ih (s.drop n)
        exact ⟨n + k, by rw [hk, List.drop_drop]⟩
      · exact ⟨0, by simp⟩
    · exact ⟨0, by simp⟩

/-- an optional `-` marker -/
def dash (b : Bool) : Bytes := if b then [0x2D] else []

def delimBytes (d : Delims) : Bytes :=
  d.blockStart ++ d.blockEnd ++ d.variableStart ++ d.variableEnd ++ d.commentStart ++ d.commentEnd

/-- a template independent of the delimiter spelling -/
inductive Seg where
  | text (s : Bytes)
  | var (dashL dashR : Bool) (expr : Bytes)
  | tag (dashL dashR : Bool) (body : Bytes)
  | comment (dashL dashR : Bool) (body : Bytes)

def spellSeg (d : Delims) : Seg → Bytes
  | .text s => s
  | .var l r e => d.variableStart ++ dash l ++ [0x20] ++ e ++ [0x20] ++ dash r ++ d.variableEnd
  | .tag l r b => d.blockStart ++ dash l ++ [0x20] ++ b ++ [0x20] ++ dash r ++ d.blockEnd
  | .comment l r b => d.commentStart ++ dash l ++ [0x20] ++ b ++ [0x20] ++ dash r ++ d.commentEnd

def spell (d : Delims) (segs : List Seg) : Bytes := segs.flatMap (spellSeg d)

def segPayload : Seg → Bytes
  | .text s => s
  | .var _ _ e => e
  | .tag _ _ b => b
  | .comment _ _ b => b

/-- "the delimiters of `d` do not occur in its text or expressions", read strongly and
spelling-independently: no payload byte is a byte of any delimiter of `d`; neither the space used
by `spell`, nor `-`, nor any ASCII whitespace, nor a letter of `raw` is a delimiter byte;
expressions and tag bodies contain no string quote (an unterminated string would scan across the
end delimiter, making its payload depend on the spelling) and tag bodies do not mention `raw` (raw
blocks are a different path). -/
structure Clean (d : Delims) (segs : List Seg) : Prop where
  space : 0x20 ∉ delimBytes d
  dash : 0x2D ∉ delimBytes d
  noWs : ∀ b ∈ delimBytes d, isAsciiWs b = false
  noRaw : ∀ b ∈ Generated.rawName, b ∉ delimBytes d
  payload : ∀ s ∈ segs, ∀ b ∈ segPayload s, b ∉ delimBytes d
  exprs : ∀ s ∈ segs,
    match s with
    | .var _ _ e => ∀ q ∈ Generated.stringQuotes, q ∉ e
    | .tag _ _ b => (∀ q ∈ Generated.stringQuotes, q ∉ b) ∧ ¬ Occurs Generated.rawName b
    | _ => True

theorem Clean.tail {d : Delims} {s : Seg} {rest : List Seg} (h : Clean d (s :: rest)) : Clean d rest :=
  ⟨h.space, h.dash, h.noWs, h.noRaw, fun x hx => h.payload x (List.mem_cons_of_mem _ hx),
   fun x hx => h.exprs x (List.mem_cons_of_mem _ hx)⟩

theorem noStart_of_disjoint (d : Delims) (s : Bytes) (h1 : d.variableStart ≠ []) (h2 : d.blockStart ≠ [])
    (h3 : d.commentStart ≠ []) (h : ∀ b ∈ s, b ∉ delimBytes d) : NoStart d s := by
  have key : ∀ x : Bytes, x ≠ [] → (∀ b ∈ x, b ∈ delimBytes d) → ¬ Occurs x s := by
    intro x hx hsub ⟨pre, post, heq⟩
    cases x with
    | nil => exact hx rfl
    | cons a x' =>
      have ha : a ∈ s := by rw [heq]; simp
      exact h a ha (hsub a (by simp))
  refine ⟨key _ h1 ?_, key _ h2 ?_, key _ h3 ?_⟩ <;>
  · intro b hb; simp [delimBytes, hb]


end Tera.C08
