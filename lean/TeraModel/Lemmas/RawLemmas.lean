/-
What a `RawContent` token holds (C08 raw_verbatim): a verbatim slice of the source.
-/
import TeraModel.Lemmas.LexNoPanic
namespace Tera.Lexer
open Tera Utf8 Generated

theorem getRange_eq {s r : Bytes} {a b : Nat} (h : getRange s a b = some r) :
    r = (s.drop a).take (b - a) ∧ a ≤ b ∧ b ≤ s.length := by
  unfold getRange at h
  split at h
  · rename_i hc
    simp only [Option.some.injEq] at h
    exact ⟨h.symm, hc.1, hc.2.1⟩
  · cases h

/-- What the raw-block search returns: the body is the source slice from the end of the raw tag
up to a `block_start` that is followed by a well-formed `endraw` tag, trimmed at its start iff the
raw tag ended in `-`, at its end iff that `block_start` is followed by `-`; `consume` is the end of
the `endraw` tag and `wsEnd` its trailing `-`. -/
theorem rawLoop_found {d : Delims} {rest : Bytes} {bodyStart : Nat} {ews : Bool} :
    ∀ (fuel offset : Nat) {result : Bytes} {consume : Nat} {wsEnd : Bool},
      bodyStart ≤ offset →
      rawLoop d rest bodyStart ews fuel offset = .found result consume wsEnd →
      ∃ bodyEnd endraw, bodyStart ≤ bodyEnd ∧
        d.blockStart.isPrefixOf (rest.drop bodyEnd) = true ∧
        skipTag (rest.drop (bodyEnd + 2)) endrawName d.blockEnd = some (endraw, wsEnd) ∧
        consume = bodyEnd + 2 + endraw ∧
        result =
          (let body := (rest.drop bodyStart).take (bodyEnd - bodyStart)
           let body := if ews then trimStart body else body
           if rest[bodyEnd + 2]? = some 0x2D then trimEnd body else body) := by
  intro fuel
  induction fuel with
  | zero => intro offset _ _ _ _ h; simp [rawLoop] at h
  | succ f ih =>
    intro offset result consume wsEnd hle h
    unfold rawLoop at h
    split at h
    · cases h
    · split at h
      · cases h
      · cases h
      · rename_i block hm0
        have hm : findSub d.blockStart (rest.drop offset) 0 = some block := by
          unfold memstr at hm0
          split at hm0
          · cases hm0
          · simpa using hm0
        · have hpre := findSub_prefix _ _ _ _ hm
          simp only [Nat.sub_zero, List.drop_drop] at hpre
          simp only at h
          split at h
          · cases h
          · rename_i tail hsf
            have htail : tail = rest.drop (offset + block + 2) := by
              unfold sliceFrom? at hsf
              split at hsf
              · simpa using hsf.symm
              · cases hsf
            split at h
            · rename_i endraw wsEnd' hsk
              split at h
              · cases h
              · rename_i sl hsl
                simp only [RawRes.found.injEq] at h
                obtain ⟨h1, h2, h3⟩ := h
                have hs := (getRange_eq hsl).1
                refine ⟨offset + block, endraw, by omega, hpre, ?_, by omega, ?_⟩
                · rw [← htail, ← h3]; exact hsk
                · rw [← h1, hs]
                  simp only [decide_eq_true_eq]
            · exact ih _ (by omega) h

/-- **raw token.**  Whenever the `Template` state emits a `RawContent`, its body is a verbatim slice
of the source (nothing inside it is tokenized), trimmed only where the inner markers carry `-`. -/
theorem stepTemplate_raw {d : Delims} {p0 : Pos} {st st' : List State} {ws wsEnd : Bool} {body : Bytes}
    {sp : Span} {p' : Pos} (h : stepTemplate d p0 st = .emit (.rawContent ws body wsEnd) sp p' st') :
    ∃ (p : Pos) (bodyStart bodyEnd endraw : Nat) (ews : Bool),
      checkWsStart p0 = .ok (ws, p) ∧
      skipTag p.rest rawName d.blockEnd = some (bodyStart, ews) ∧
      bodyStart ≤ bodyEnd ∧
      d.blockStart.isPrefixOf (p.rest.drop bodyEnd) = true ∧
      skipTag (p.rest.drop (bodyEnd + 2)) endrawName d.blockEnd = some (endraw, wsEnd) ∧
      p'.rest = p.rest.drop (bodyEnd + 2 + endraw) ∧
      body =
        (let b := (p.rest.drop bodyStart).take (bodyEnd - bodyStart)
         let b := if ews then trimStart b else b
         if p.rest[bodyEnd + 2]? = some 0x2D then trimEnd b else b) := by
  unfold stepTemplate at h
  simp only at h
  split at h
  · split at h <;> simp at h
  · split at h
    · split at h
      · simp at h
      · rename_i ws' p hcw
        split at h
        · rename_i offset ews hsk
          split at h
          · rename_i body' consume wsEnd' hr
            split at h
            · simp at h
            · rename_i sk p'' ha
              simp only [Step.emit.injEq, Token.rawContent.injEq] at h
              obtain ⟨⟨rfl, rfl, rfl⟩, _, rfl, _⟩ := h
              obtain ⟨bodyEnd, endraw, h1, h2, h3, h4, h5⟩ := rawLoop_found _ _ (Nat.le_refl _) hr
              refine ⟨p, offset, bodyEnd, endraw, ews, hcw, hsk, h1, h2, h3, ?_, h5⟩
              rw [(advance_ok ha).1.2.1, h4]
          · simp at h
          · simp at h
          · simp at h
        · simp at h
    · split at h
      · split at h
        · simp at h
        · split at h
          · simp at h
          · split at h <;> simp at h
          · simp at h
      · split at h <;> simp at h

end Tera.Lexer
