/-
C08, parser link, general form: for EVERY accepted template the non-empty Content tokens, in
order, are an order-preserving merge of the texts of the node tree (`Node.allTextsList`) and the
texts of the component definition bodies, definition after definition (`defsTexts`).
-/
import TeraModel.Lemmas.TemplateParserTextsT
namespace Tera

/-- `l` is an interleaving of `a` and `b` that keeps the order of both -/
inductive Merge {α : Type} : List α → List α → List α → Prop where
  | nil : Merge [] [] []
  | left {a b l : List α} (x : α) : Merge a b l → Merge (x :: a) b (x :: l)
  | right {a b l : List α} (x : α) : Merge a b l → Merge a (x :: b) (x :: l)

theorem Merge.leftOnly {α : Type} : ∀ a : List α, Merge a [] a
  | [] => .nil
  | x :: a => .left x (Merge.leftOnly a)

theorem Merge.rightOnly {α : Type} : ∀ b : List α, Merge [] b b
  | [] => .nil
  | x :: b => .right x (Merge.rightOnly b)

theorem Merge.append {α : Type} {a1 b1 l1 a2 b2 l2 : List α} (h1 : Merge a1 b1 l1)
    (h2 : Merge a2 b2 l2) : Merge (a1 ++ a2) (b1 ++ b2) (l1 ++ l2) := by
  induction h1 with
  | nil => simpa using h2
  | left x _ ih => exact .left x ih
  | right x _ ih => exact .right x ih

/-- the texts of the component definition bodies, definition after definition -/
def defsTexts : List ComponentDefinition → List String
  | [] => []
  | d :: ds => Node.allTextsList d.body ++ defsTexts ds

theorem defsTexts_append (a b : List ComponentDefinition) :
    defsTexts (a ++ b) = defsTexts a ++ defsTexts b := by
  induction a with
  | nil => rfl
  | cons x xs ih => simp [defsTexts, ih]

namespace TParser
open Tera.Parser

/-- body contexts, component definitions, texts still in the token list -/
abbrev G := List BodyContext × List ComponentDefinition × List String

def absG (s : TState) : G := (s.bodyContexts, s.componentDefinitions, toksTexts s.p.toks)

/-- what parsing `nodes` does: contexts restored, definitions `d'` appended (none inside a tag),
the consumed texts `pre` are a merge of the node texts and the texts of `d'` -/
def PostG (a : G) (nodes : List Node) (a' : G) : Prop :=
  a'.1 = a.1 ∧ ∃ d' pre, a'.2.1 = a.2.1 ++ d' ∧ a.2.2 = pre ++ a'.2.2
    ∧ Merge (Node.allTextsList nodes) (defsTexts d') pre ∧ (a.1 ≠ [] → d' = [])

theorem PostG.nil (a : G) : PostG a [] a :=
  ⟨rfl, [], [], by simp, by simp, by simpa [Node.allTextsList, defsTexts] using (Merge.nil (α := String)), fun _ => rfl⟩

theorem PostG.frame {c c' : List BodyContext} {d d' : List ComponentDefinition}
    {r0 r1 r2 r3 : List String} {ns : List Node}
    (h : PostG (c, d, r1) ns (c', d', r2)) (e0 : r0 = r1) (e1 : r2 = r3) :
    PostG (c, d, r0) ns (c', d', r3) := by subst e0 e1; exact h

theorem PostG.trans {a a1 a2 : G} {x y : List Node} (h1 : PostG a x a1) (h2 : PostG a1 y a2) :
    PostG a (x ++ y) a2 := by
  obtain ⟨c1, d1, p1, e1, f1, m1, n1⟩ := h1
  obtain ⟨c2, d2, p2, e2, f2, m2, n2⟩ := h2
  refine ⟨c2.trans c1, d1 ++ d2, p1 ++ p2, by rw [e2, e1, List.append_assoc],
    by rw [f1, f2, List.append_assoc], ?_, ?_⟩
  · rw [Node.allTextsList_append, defsTexts_append]; exact m1.append m2
  · intro h; rw [n1 h, n2 (by rw [c1]; exact h)]; rfl

/-- a node without text of its own; only frame steps -/
theorem PostG.leaf {c : List BodyContext} {d : List ComponentDefinition} {r0 r1 : List String}
    {nd : Node} (hn : Node.allTexts nd = []) (e : r0 = r1) : PostG (c, d, r0) [nd] (c, d, r1) := by
  subst e
  exact ⟨rfl, [], [], by simp, by simp, by simpa [Node.allTextsList, hn, defsTexts] using (Merge.nil (α := String)), fun _ => rfl⟩

/-- a node whose texts are those of one body parsed under a pushed context -/
theorem PostG.wrap {c : List BodyContext} {d : List ComponentDefinition} {r0 r1 r5 : List String}
    {a4 : G} {k : BodyContext} {nd : Node} {body : List Node}
    (hb : PostG (c ++ [k], d, r1) body a4) (hn : Node.allTexts nd = Node.allTextsList body)
    (e0 : r0 = r1) (e1 : a4.2.2 = r5) : PostG (c, d, r0) [nd] (a4.1.dropLast, a4.2.1, r5) := by
  subst e0 e1
  obtain ⟨c1, d1, p1, e1, f1, m1, n1⟩ := hb
  have hd : d1 = [] := n1 (by simp)
  subst hd
  refine ⟨by simp [c1], [], p1, by simpa using e1, f1, ?_, fun _ => rfl⟩
  simpa [Node.allTextsList, hn] using m1

theorem PostG.if_ {c : List BodyContext} {d : List ComponentDefinition} {r0 r1 r4 r7 : List String}
    {a4 a6 : G} {e : Expr} {body fb : List Node}
    (hb : PostG (c ++ [.If], d, r1) body a4) (hf : PostG (a4.1, a4.2.1, r4) fb a6)
    (e0 : r0 = r1) (e4 : a4.2.2 = r4) (e7 : a6.2.2 = r7) :
    PostG (c, d, r0) [.if e body fb] (a6.1.dropLast, a6.2.1, r7) := by
  subst e0 e4
  have := PostG.trans hb hf
  exact PostG.wrap (nd := .if e body fb) this
    (by simp [Node.allTexts, Node.allTextsList_append]) rfl e7

theorem PostG.for_ {c : List BodyContext} {d : List ComponentDefinition} {r0 r1 r4 r7 : List String}
    {a4 a6 : G} {k : Option String} {v : String} {t : Expr} {body els : List Node}
    (hb : PostG (c ++ [.ForLoop], d, r1) body a4)
    (hf : PostG (a4.1.dropLast, a4.2.1, r4) els a6)
    (e0 : r0 = r1) (e4 : a4.2.2 = r4) (e7 : a6.2.2 = r7) :
    PostG (c, d, r0) [.forLoop k v t body els] (a6.1, a6.2.1, r7) := by
  subst e0 e4 e7
  have h1 := PostG.wrap (nd := .forLoop k v t body []) (r5 := a4.2.2) hb
    (by simp [Node.allTexts, Node.allTextsList]) rfl rfl
  obtain ⟨c1, d1, p1, e1, f1, m1, n1⟩ := h1
  obtain ⟨c2, d2, p2, e2, f2, m2, n2⟩ := hf
  refine ⟨by simpa using c2.trans c1, d1 ++ d2, p1 ++ p2, ?_, ?_, ?_, ?_⟩
  · simp only [] at e1 e2 ⊢; rw [e2, e1, List.append_assoc]
  · simp only [] at f1 f2 ⊢; rw [f1, f2, List.append_assoc]
  · have : Node.allTextsList [Node.forLoop k v t body els]
        = Node.allTextsList [Node.forLoop k v t body []] ++ Node.allTextsList els := by
      simp [Node.allTextsList, Node.allTexts]
    rw [this, defsTexts_append]
    exact m1.append m2
  · intro h
    simp only [] at n1 n2 c1
    rw [n1 h, n2 (by rw [c1]; exact h)]; rfl

/-- a component definition, recorded by `parse_tag` -/
theorem PostG.compdef {c : List BodyContext} {d : List ComponentDefinition} {r0 r1 r5 : List String}
    {a4 : G} {name : String} {kw : List (String × ComponentArgument)} {rest : Option String}
    {md : List (String × Value)} {body : List Node} (hc : c = [])
    (hb : PostG (c ++ [.ComponentDefinition], d, r1) body a4) (e0 : r0 = r1) (e1 : a4.2.2 = r5) :
    PostG (c, d, r0) [] (a4.1.dropLast, a4.2.1 ++ [⟨name, kw, rest, md, body⟩], r5) := by
  subst e0 e1 hc
  obtain ⟨c1, d1, p1, e1, f1, m1, n1⟩ := hb
  have hd : d1 = [] := n1 (by simp)
  subst hd
  refine ⟨by simp [c1], [⟨name, kw, rest, md, body⟩], p1, by simpa using e1, f1, ?_, fun h => absurd rfl h⟩
  have hm : p1 = Node.allTextsList body := by
    have : ∀ (a l : List String), Merge a [] l → l = a := by
      intro a l h
      generalize hb : ([] : List String) = b at h
      induction h with
      | nil => rfl
      | left x _ ih => rw [ih hb]
      | right x _ _ => cases hb
    exact this _ _ (by simpa [defsTexts] using m1)
  subst hm
  simpa [defsTexts, Node.allTextsList] using Merge.rightOnly (Node.allTextsList body)

/-! ### expression-level pieces of a component definition -/

section pdef
variable {ex : Nat → P Expr} (C : Cfg) (hex : ∀ m p, PT (ex m) p (Keeps p))
include hex

theorem KT.parseLiteralMap : ∀ p, PT (parseLiteralMap ex) p (Keeps p) := by
  have hm := fun p => PT.cps (Parser.KT.parseMap hex p)
  intro p
  unfold TParser.parseLiteralMap
  try unfold Parser.expect
  pttac
  all_goals ptleaf

theorem KT.componentDefault : ∀ p, PT (componentDefault C ex) p (Keeps p) := by
  have hm := fun p => PT.cps (KT.parseLiteralMap hex p)
  have ha := fun p => PT.cps (Parser.KT.parseArray C hex p)
  intro p
  unfold TParser.componentDefault
  try unfold Parser.expect
  pttac
  all_goals ptleaf

theorem KT.componentArgs : ∀ n kwargs seen p, PT (componentArgs C ex n kwargs seen) p (Keeps p) := by
  have hd := fun p => PT.cps (KT.componentDefault C hex p)
  intro n
  induction n with
  | zero => intro _ _ p; exact PT.fuel
  | succ n ih =>
    intro kwargs seen p
    have ih' := fun kwargs seen p => PT.cps (ih kwargs seen p)
    unfold TParser.componentArgs
    try unfold Parser.expect
    try unfold Parser.expectIdent
    pttac
    all_goals ptleaf

end pdef

/-! ### the walk -/

theorem TW.cpsG {x : T α} {s : TState} {P : α → TState → Prop} {R : TState → Prop}
    (h : TW x s (fun a s' => P a s' ∧ R s'))
    (Q : α → TState → Prop) (hq : ∀ a s', P a s' → R s' → Q a s') : TW x s Q :=
  TW.mono h (fun a s' hab => hq a s' hab.1 hab.2)

macro "gxtac" : tactic => `(tactic|
  repeat' (first
    | (show TW _ _ _; dsimp only)
    | with_reducible exact TW.err
    | with_reducible exact TW.fuel
    | with_reducible exact TW.panic
    | (with_reducible apply_assumption -exfalso; intro _ _ _ _)
    | (with_reducible apply_assumption -exfalso; intro _ _ _)
    | with_reducible refine TW.bind ?_
    | with_reducible refine TW.pure ?_
    | with_reducible refine TW.pushCtx _ ?_
    | with_reducible refine TW.popCtx ?_
    | with_reducible refine TW.getState ?_
    | with_reducible refine TW.modify _ ?_
    | (with_reducible refine TW.exprK ?_ ?_ _ (fun _ _ _ _ => ?_)
       (focus (with_reducible assumption)); (focus (with_reducible assumption)))
    | with_reducible refine TW.liftHeadIs _ (fun _ _ => ?_)
    | with_reducible refine TW.liftPeek (fun _ _ => ?_)
    | with_reducible refine TW.liftFuel (fun _ => ?_)
    | with_reducible refine TW.liftNext (fun _ _ _ => ?_)
    | with_reducible refine TW.liftK KT.expectTagEnd (fun _ _ _ => ?_)
    | with_reducible refine TW.liftK KT.expectVariableEnd (fun _ _ _ => ?_)
    | with_reducible refine TW.liftK KT.expectIdent (fun _ _ _ => ?_)
    | with_reducible refine TW.liftK Parser.KT.dottedName (fun _ _ _ => ?_)
    | refine TW.liftK (KT.expect _ (by rfl)) (fun _ _ _ => ?_)
    | (with_reducible refine TW.liftK ?_ (fun _ _ _ => ?_); focus (with_reducible apply_assumption -exfalso))
    | with_reducible refine TW.ite (fun _ => ?_) (fun _ => ?_)
    | (show TW _ _ _; split)))

/-- closes an equation between texts still in the token list -/
macro "geq" : tactic => `(tactic| (simp_all [HeadNC, toksTexts, absG]; done))

section level
variable {C : Bool → Cfg} {recU : EndCheck → T (List Node)} {ex : Bool → Nat → P Expr}
variable (Hcl : ∀ il m, PW (ex il m) Closed)
variable (Hk : ∀ il m p, PT (ex il m) p (Keeps p))
variable (HU : ∀ ec s, TW (recU ec) s (fun nodes s' => PostG (absG s) nodes (absG s') ∧ HeadNC s'))
include Hcl Hk HU

theorem GX.parseIf : ∀ n s, TW (parseIf recU ex n) s
    (fun x s' => PostG (absG s) [.if x.1 x.2.1 x.2.2] (absG s')) := by
  intro n
  induction n with
  | zero => intro s; exact TW.fuel
  | succ n ih =>
    intro s
    have hrec := fun ec s => TW.cpsG (HU ec s)
    have ih' := fun s => TW.cps (ih s)
    unfold TParser.parseIf
    gxtac
    all_goals
      try dsimp only at *
    · rcases ‹Expr × List Node × List Node› with ⟨c, b, f⟩
      simp_all [absG, HeadNC, toksTexts]
      exact PostG.if_ (by assumption) (by assumption) rfl rfl rfl
    · simp_all [absG, HeadNC, toksTexts]
      exact PostG.if_ (by assumption) (by assumption) rfl rfl rfl
    · simp_all [absG, HeadNC, toksTexts]
      exact PostG.if_ (by assumption) (PostG.nil _) rfl rfl rfl

theorem GX.parseForLoop (s : TState) : TW (parseForLoop recU ex) s
    (fun nd s' => PostG (absG s) [nd] (absG s')) := by
  have hrec := fun ec s => TW.cpsG (HU ec s)
  unfold TParser.parseForLoop
  gxtac
  all_goals
    try dsimp only at *
  all_goals
    simp_all [absG, HeadNC, toksTexts]
  all_goals first
    | exact PostG.for_ (by assumption) (by assumption) rfl rfl rfl
    | exact PostG.for_ (by assumption) (PostG.nil _) rfl rfl rfl

theorem GX.parseSet (g : Bool) (s : TState) : TW (parseSet recU ex g) s
    (fun nd s' => PostG (absG s) [nd] (absG s')) := by
  have hrec := fun ec s => TW.cpsG (HU ec s)
  have hsf : ∀ il n p, PT (setFilters (ex il) n []) p (Keeps p) :=
    fun il n p => KT.setFilters (Hk il) n [] p
  unfold TParser.parseSet
  gxtac
  all_goals
    try dsimp only at *
  all_goals
    simp_all [absG, HeadNC, toksTexts]
  all_goals first
    | (refine PostG.leaf ?_ rfl
       simp [Node.allTexts]; done)
    | (refine PostG.wrap (k := .Capture) (by assumption) ?_ rfl rfl
       simp [Node.allTexts]; done)

omit Hcl in
theorem GX.parseComponentWithBody (s : TState) : TW (parseComponentWithBody recU ex) s
    (fun e s' => PostG (absG s) [.expression e] (absG s')) := by
  have hrec := fun ec s => TW.cpsG (HU ec s)
  have hca : ∀ il n p, PT (componentAttributes (ex il) n []) p (Keeps p) :=
    fun il n p => Parser.KT.componentAttributes (Hk il) n [] p
  unfold TParser.parseComponentWithBody
  gxtac
  all_goals
    try dsimp only at *
  all_goals
    simp_all [absG, HeadNC, toksTexts]
  all_goals
    refine PostG.wrap (k := .Capture) (by assumption) ?_ rfl rfl
    simp [Node.allTexts]

omit Hcl in
/-- `parse_component_definition`, with the state as `parse_tag` records the definition -/
theorem GX.parseComponentDefinition (s : TState) : TW (parseComponentDefinition C recU ex) s
    (fun df s' => PostG (absG s) []
      (absG { s' with componentDefinitions := s'.componentDefinitions ++ [df] })) := by
  have hrec := fun ec s => TW.cpsG (HU ec s)
  have hargs : ∀ n p, PT (componentArgs (C false) (ex false) n [] []) p (Keeps p) :=
    fun n p => KT.componentArgs (C false) (Hk false) n [] [] p
  have hlm : ∀ p, PT (parseLiteralMap (ex false)) p (Keeps p) :=
    fun p => KT.parseLiteralMap (Hk false) p
  unfold TParser.parseComponentDefinition
  gxtac
  all_goals
    try dsimp only at *
  all_goals
    have hc : s.bodyContexts = [] := by simpa using ‹¬ (!s.bodyContexts.isEmpty) = true›
    simp_all [absG, HeadNC, toksTexts]
  all_goals
    exact PostG.compdef rfl (by simpa using ‹PostG _ _ _›) rfl rfl

theorem GX.parseTag (isFirst : Bool) (s : TState) :
    TW (parseTag C recU ex isFirst) s (fun on s' => PostG (absG s) on.toList (absG s')) := by
  have hrec := fun ec s => TW.cpsG (HU ec s)
  have h1 := fun g s => TW.cps (GX.parseSet Hcl Hk HU g s)
  have h2 := fun s => TW.cps (GX.parseForLoop Hcl Hk HU s)
  have h3 := fun n s => TW.cps (GX.parseIf Hcl Hk HU n s)
  have h4 := fun s => TW.cps (GX.parseComponentDefinition (C := C) Hk HU s)
  have h5 := fun s => TW.cps (GX.parseComponentWithBody Hk HU s)
  have hkw : ∀ il p, PT (parseKwargs (ex il)) p (Keeps p) :=
    fun il p => Parser.KT.parseKwargs (Hk il) p
  unfold TParser.parseTag
  gxtac
  all_goals
    try dsimp only at *
  all_goals
    simp_all [absG, HeadNC, toksTexts, Option.toList]
  all_goals first
    | assumption
    | exact PostG.nil _
    | (refine PostG.leaf ?_ rfl
       simp [Node.allTexts]; done)
    | (refine PostG.wrap (k := .Capture) (by assumption) ?_ rfl rfl
       simp [Node.allTexts]; done)
    | (refine PostG.wrap (k := .Block) (by assumption) ?_ rfl rfl
       simp [Node.allTexts]; done)

omit Hcl Hk HU in
/-- a non-empty Content token becomes one content node -/
theorem PostG.text (c : List BodyContext) (d : List ComponentDefinition) (t : String)
    (r : List String) : PostG (c, d, t :: r) [.content t] (c, d, r) :=
  ⟨rfl, [], [t], by simp, by simp,
    by simpa [Node.allTextsList, Node.allTexts, defsTexts] using Merge.leftOnly [t], fun _ => rfl⟩

theorem GX.untilLoop (ec : EndCheck) : ∀ n nodes s, TW (untilLoop C recU ex ec n nodes) s
    (fun r s' => ∃ more, r = nodes ++ more ∧ PostG (absG s) more (absG s') ∧ HeadNC s'
      ∧ (ec = .never → s'.p.toks = [])) := by
  have htag := fun f s => TW.cps (GX.parseTag (C := C) Hcl Hk HU f s)
  intro n
  induction n with
  | zero => intro nodes s; exact TW.fuel
  | succ n ih =>
    intro nodes s
    obtain ⟨⟨ts, a, b⟩, c1, c2, c3, c4, c5⟩ := s
    rw [TW_def]
    unfold TParser.untilLoop
    cases ts with
    | nil =>
      refine ⟨[], by simp, PostG.nil _, ?_, fun _ => rfl⟩
      intro t rest h; cases h
    | cons tok rest =>
      cases tok
      case error => trivial
      case content c =>
        dsimp only
        rw [← TW_def]
        refine TW.mono (ih _ _) (fun r s' h => ?_)
        obtain ⟨more, rfl, hp, hn, hs⟩ := h
        by_cases hc : c.isEmpty = true
        · refine ⟨more, by simp [hc], ?_, hn, hs⟩
          simpa [absG, toksTexts, hc] using hp
        · refine ⟨.content c :: more, by simp [hc], ?_, hn, hs⟩
          have h1 : PostG (c1, c5, c :: toksTexts rest) [.content c] (c1, c5, toksTexts rest) :=
            PostG.text _ _ _ _
          have := PostG.trans h1 (by simpa [absG] using hp)
          simpa [absG, toksTexts, hc] using this
      case variableStart w =>
        dsimp only
        rw [← TW_def]
        refine TW.bind (TW.exprK Hcl Hk _ (fun e p' hcl hk => ?_))
        refine TW.bind (TW.liftK KT.expectVariableEnd (fun _ p2 hk2 => ?_))
        refine TW.mono (ih _ _) (fun r s' h => ?_)
        obtain ⟨more, rfl, hp, hn, hs⟩ := h
        refine ⟨.expression e :: more, by simp, ?_, hn, hs⟩
        simp only [] at hk hk2
        have h1 : PostG (c1, c5, toksTexts rest) [.expression e] (c1, c5, toksTexts p2.toks) :=
          PostG.leaf (Node.allTexts_expression e hcl) (hk.trans hk2)
        have := PostG.trans h1 (by simpa [absG] using hp)
        simpa [absG, toksTexts] using this
      case tagStart w =>
        dsimp only
        split
        · rename_i r s' heq
          split at heq
          · cases heq
          · cases heq
          · split at heq
            · rename_i t tail _ ht
              cases heq
              refine ⟨[], by simp, ?_, ?_, ?_⟩
              · simpa [absG, toksTexts] using PostG.nil (c1, c5, toksTexts (t :: tail))
              · intro t' rest' h
                simp only [] at h
                cases h
                exact EndCheck.test_keeps ec _ _ ht
              · intro hec; subst hec; simp [EndCheck.test] at ht
            · rename_i t tail _ hne
              refine TW.of_eq (Q := fun r s' => ∃ more, r = nodes ++ more ∧
                PostG (absG ⟨⟨.tagStart w :: t :: tail, a, b⟩, c1, c2, c3, c4, c5⟩) more (absG s')
                ∧ HeadNC s' ∧ (ec = .never → s'.p.toks = [])) heq ?_
              refine TW.bind (htag _ _ _ (fun node s1 hp1 => ?_))
              refine TW.bind (TW.liftK KT.expectTagEnd (fun _ p2 hk2 => ?_))
              refine TW.mono (ih _ _) (fun r2 s2 h2 => ?_)
              obtain ⟨more, rfl, hp2, hn, hs⟩ := h2
              refine ⟨node.toList ++ more, by cases node <;> simp, ?_, hn, hs⟩
              have h3 : PostG (absG s1) more (absG s2) := by
                have := hp2
                simp only [absG] at this ⊢
                exact PostG.frame this hk2 rfl
              have := PostG.trans hp1 h3
              simpa [absG, toksTexts] using this
        all_goals trivial
      all_goals trivial

end level

theorem GX.parseUntil : ∀ r ec s, TW (parseUntil r ec) s
    (fun nodes s' => PostG (absG s) nodes (absG s') ∧ HeadNC s'
      ∧ (ec = .never → s'.p.toks = [])) := by
  intro r
  induction r with
  | zero => intro ec s; exact TW.err
  | succ r ih =>
    intro ec s
    unfold TParser.parseUntil
    refine TW.bind (TW.liftFuel (fun n => ?_))
    refine TW.mono (GX.untilLoop (fun il m => PW.innerParseExpression _ _ _)
      (fun il m p => Parser.KT.innerParseExpression _ _ _ p)
      (fun ec s => TW.mono (ih ec s) (fun _ _ h => ⟨h.1, h.2.1⟩)) ec n [] _) ?_
    intro nodes s' ⟨more, h, hp⟩
    simp at h; subst h
    exact hp

/-- **the non-empty Content tokens of an accepted template are an order-preserving merge of the
texts of its node tree and the texts of its component definition bodies** -/
theorem parse_texts_merge (maxDepth : Nat) (toks : List Tok) (t : Template) (s : TState)
    (h : parse maxDepth toks = .ok t s) :
    Merge (Node.allTextsList t.nodes) (defsTexts t.componentDefinitions) (toksTexts toks) := by
  unfold parse at h
  simp only [] at h
  split at h <;> try cases h
  rename_i _ nodes heq
  have := TW.of_eq heq (GX.parseUntil maxDepth .never _)
  obtain ⟨⟨_, d', pre, e1, f1, m1, _⟩, _, hs⟩ := this
  simp only [absG, List.nil_append] at e1 f1
  rw [hs rfl] at f1
  simp only [toksTexts, List.append_nil] at f1
  rw [e1, f1]
  exact m1

end TParser
end Tera
