/-
Compiler correctness (Props/Refine.lean), part 3: expressions.

`expr_sim`: for every expression of the core `InCore lf`, compiled at any index `base`
(`CodeAt c base (exprCode base loop e)`: the chunk may hold anything before and after), from any
VM state `st` (any value stack, any captures / output / block bookkeeping) whose scope corresponds
to the evaluator's scope `sc` (`ScopeSim sc st.scope`, Lemmas/RefineScope.lean):

* `evalExpr fuel eenv sc e = .ok v`  ⟹  the interpreter loop runs from `pc = base` to
  `pc = base + |code|`, ends in `st.push v rg` (the SAME state with exactly one more slot, holding
  `v`; `rg` is a span range both of whose ends carry a span), executes only instructions of
  `[base, base + |code|)` — at most `|code|` of them (= the step fuel needed) when `lf = true`,
  i.e. on the loop-free core (no list comprehension);
* `evalExpr … = .error err`, `err` reportable  ⟹  the loop ends in a rendering error of the class
  of `err` (`errMatch`) after instructions of that range — no panic, no `unmodelled`, no running
  out of fuel;

and this whatever the nested interpreter `rec` of `Vm.step` is (`Run`, `Fails` quantify over it).

Induction on the evaluator's fuel (every recursive call of `evalExpr` and of its helpers is at
`fuel`): `SimAt fuel` holds the statement for expressions, optional slice bounds, array entries,
map entries, keyword arguments and the loop of a comprehension at that level; `simAt` proves
`SimAt 0` (everything is "out of fuel") and `SimAt fuel → SimAt (fuel + 1)`, one `*_step` theorem
per component, generalised over the code position, the compiler's loop context and the VM state.
-/
import TeraModel.Lemmas.RefineInstr6
set_option linter.unusedSimpArgs false
namespace Tera.Refine
open Tera Tera.Vm Tera.Compiler

/-- the expression of an array entry -/
def entryExpr : ArrayEntry → Expr
  | .item e => e
  | .spread e => e

/-- the value expression of a map entry -/
def mapEntryExpr : MapEntry → Expr
  | .keyValue _ e => e
  | .spread e => e

/-- The expressions `expr_sim` covers. -/
inductive InCore (lf : Bool) : Expr → Prop
  | const (v : Value) : InCore lf (.const v)
  | var (n : String) : InCore lf (.var n)
  | getAttr {e : Expr} (n : String) (opt : Bool) : InCore lf e → InCore lf (.getAttr e n opt)
  | unary {e : Expr} (op : UnaryOperator) : InCore lf e → InCore lf (.unary op e)
  /-- `* / // % + - ** < > <= >= == != ~ in` -/
  | binary {l r : Expr} (op : BinaryOperator) : strictOp op = true → InCore lf l → InCore lf r →
      InCore lf (.binary op l r)
  | and {l r : Expr} : InCore lf l → InCore lf r → InCore lf (.binary .And l r)
  | or {l r : Expr} : InCore lf l → InCore lf r → InCore lf (.binary .Or l r)
  | ternary {c t f : Expr} : InCore lf c → InCore lf t → InCore lf f → InCore lf (.ternary c t f)
  | getItem {e s : Expr} (opt : Bool) : InCore lf e → InCore lf s → InCore lf (.getItem e s opt)
  | slice {e : Expr} {start stop step : Option Expr} (opt : Bool) : InCore lf e →
      (∀ x, start = some x → InCore lf x) → (∀ x, stop = some x → InCore lf x) →
      (∀ x, step = some x → InCore lf x) → InCore lf (.slice e start stop step opt)
  /-- array literals, with or without `...spread` entries -/
  | array {items : List ArrayEntry} : (∀ it ∈ items, InCore lf (entryExpr it)) → InCore lf (.array items)
  /-- map literals, with or without `...spread` entries -/
  | map {entries : List MapEntry} : (∀ en ∈ entries, InCore lf (mapEntryExpr en)) → InCore lf (.map entries)
  /-- `e | name(k = v, …)`: keyword-argument names are distinct (the parser rejects a repeated
  name); which filters exist and what they do is the table `BuiltinsRel` relates -/
  | filter {e : Expr} (name : String) {kwargs : List (String × Expr)} : InCore lf e →
      (∀ p ∈ kwargs, InCore lf p.2) → (kwargs.map (·.1)).Nodup → InCore lf (.filter e name kwargs)
  /-- `e is name(k = v, …)` -/
  | test {e : Expr} (name : String) {kwargs : List (String × Expr)} : InCore lf e →
      (∀ p ∈ kwargs, InCore lf p.2) → (kwargs.map (·.1)).Nodup → InCore lf (.test e name kwargs)
  /-- `[e for key, value in target if cond]` (only outside the loop-free core) -/
  | compr {e target : Expr} (key : Option String) (value : String) {cond : Option Expr} :
      lf = false → InCore lf e → InCore lf target → (∀ x, cond = some x → InCore lf x) →
      InCore lf (.listComprehension e key value target cond)
  /-- `name(k = v, …)` -/
  | functionCall (name : String) {kwargs : List (String × Expr)} :
      (∀ p ∈ kwargs, InCore lf p.2) → (kwargs.map (·.1)).Nodup → InCore lf (.functionCall name kwargs)

/-! ### the code of a list comprehension, in three pieces -/

/-- between `Iterate` and the closing `Jump`: `[cond; PopJumpIfFalse(→ the Jump);] expr; AppendToList` -/
def comprBody (startIdx : Nat) (loop : Option Nat) (e : Expr) (cond : Option Expr) : Code :=
  let cc := condCode (startIdx + 1) loop cond
  let exprIdx := startIdx + 1 + cc.length + (if cond.isSome then 1 else 0)
  let ce := exprCode exprIdx loop e
  let skip := if cond.isSome then [ns (.popJumpIfFalse (exprIdx + ce.length + 1))] else []
  cc ++ skip ++ ce ++ [ns .appendToList]

/-- `Iterate(loop_end)`, the body, `Jump(start_idx)` -/
def comprLoop (startIdx : Nat) (loop : Option Nat) (e : Expr) (cond : Option Expr) : Code :=
  [ns (.iterate (startIdx + 1 + (comprBody startIdx loop e cond).length + 1))]
    ++ comprBody startIdx loop e cond ++ [ns (.jump startIdx)]

/-- `BuildList(0)`, the iterable, `StartIterateComprehension`, the `StoreLocal`s -/
def comprPre (base : Nat) (loop : Option Nat) (key : Option String) (value : String) (target : Expr) :
    Code :=
  [sp (.buildList 0)] ++ exprCode (base + 1) loop target
    ++ [ns (.startIterateComprehension key.isSome), ns (.storeLocal value)] ++ keyStore key

theorem exprCode_compr (base : Nat) (loop : Option Nat) (e : Expr) (key : Option String)
    (value : String) (target : Expr) (cond : Option Expr) :
    exprCode base loop (.listComprehension e key value target cond)
      = comprPre base loop key value target
        ++ comprLoop (base + (comprPre base loop key value target).length) loop e cond
        ++ [ns .popLoop] := by
  simp only [exprCode, comprPre, comprLoop, comprBody, List.append_assoc, List.cons_append,
    List.nil_append]

theorem comprBody_none (s : Nat) (loop : Option Nat) (e : Expr) :
    comprBody s loop e none = exprCode (s + 1) loop e ++ [ns .appendToList] := by
  simp [comprBody, condCode]

theorem comprBody_some (s : Nat) (loop : Option Nat) (e cnd : Expr) :
    comprBody s loop e (some cnd)
      = exprCode (s + 1) loop cnd
        ++ [ns (.popJumpIfFalse (s + 1 + (exprCode (s + 1) loop cnd).length + 1
              + (exprCode (s + 1 + (exprCode (s + 1) loop cnd).length + 1) loop e).length + 1))]
        ++ exprCode (s + 1 + (exprCode (s + 1) loop cnd).length + 1) loop e ++ [ns .appendToList] := by
  simp [comprBody, condCode]

section
variable (venv : Vm.Env) (vm : VmCtx) (c : Chunk) (lf : Bool)

/-- What the VM does on the code (at `base`, `len` instructions) of an expression whose evaluator
result is `r`, started in state `st`. -/
def ExprOutcome (r : Except Err Value) (base len : Nat) (st : State) : Prop :=
  match r with
  | .ok v => ∃ tr rg, Run venv vm c base st tr (base + len) (st.push v rg) ∧ SpanOk c rg
      ∧ Within base (base + len) tr ∧ (lf = true → tr.length ≤ len)
  | .error err => reportable err = true →
      ∃ tr re, Fails venv vm c base st tr re ∧ errMatch err re = true
        ∧ Within base (base + len) tr ∧ (lf = true → tr.length ≤ len)
end

section
variable (venv : Vm.Env) (vm : VmCtx) (c : Chunk) (lf : Bool)

/-- The same for an optional slice bound (`optExprCode`): the slot pushed stands for the
evaluator's bound value (`BoundRel`: the compiler's default constants have no span and the default
step is `1i64` where the evaluator says `1u64`). -/
def OptOutcome (r : Except Err Value) (base len : Nat) (st : State) : Prop :=
  match r with
  | .ok v => ∃ tr w rg, Run venv vm c base st tr (base + len) (st.push w rg) ∧ BoundRel c v w rg
      ∧ Within base (base + len) tr ∧ (lf = true → tr.length ≤ len)
  | .error err => reportable err = true →
      ∃ tr re, Fails venv vm c base st tr re ∧ errMatch err re = true
        ∧ Within base (base + len) tr ∧ (lf = true → tr.length ≤ len)

/-- The entries of an array literal (`arrayItemsCode`): one slot per entry is pushed. -/
def ArrOutcome (r : Except Err (List (Bool × Value))) (base len : Nat) (st : State) : Prop :=
  match r with
  | .ok parts => ∃ tr stk, Run venv vm c base st tr (base + len) { st with stack := stk }
      ∧ ArrStack c parts st.stack stk ∧ Within base (base + len) tr ∧ (lf = true → tr.length ≤ len)
  | .error err => reportable err = true →
      ∃ tr re, Fails venv vm c base st tr re ∧ errMatch err re = true
        ∧ Within base (base + len) tr ∧ (lf = true → tr.length ≤ len)

/-- The entries of a map literal (`mapItemsCode`). -/
def MapOutcome (r : Except Err (List (Option Key × Value))) (base len : Nat) (st : State) : Prop :=
  match r with
  | .ok parts => ∃ tr stk, Run venv vm c base st tr (base + len) { st with stack := stk }
      ∧ MapStack c parts st.stack stk ∧ Within base (base + len) tr ∧ (lf = true → tr.length ≤ len)
  | .error err => reportable err = true →
      ∃ tr re, Fails venv vm c base st tr re ∧ errMatch err re = true
        ∧ Within base (base + len) tr ∧ (lf = true → tr.length ≤ len)

/-- Keyword arguments (`kwargsCode`): per argument the name constant and the value are pushed. -/
def KwOutcome (r : Except Err (List (String × Value))) (base len : Nat) (st : State) : Prop :=
  match r with
  | .ok kw => ∃ tr stk, Run venv vm c base st tr (base + len) { st with stack := stk }
      ∧ MapStack c (kwParts kw) st.stack stk ∧ Within base (base + len) tr ∧ (lf = true → tr.length ≤ len)
  | .error err => reportable err = true →
      ∃ tr re, Fails venv vm c base st tr re ∧ errMatch err re = true
        ∧ Within base (base + len) tr ∧ (lf = true → tr.length ≤ len)

/-- The loop of a list comprehension (`comprLoop`, `len` instructions at `startIdx`), entered with
the accumulator `acc` on top of the stack: it ends at `startIdx + len` (the `PopLoop`) with the
evaluator's list there instead, in a scope that differs from the initial one in the innermost
loop only. -/
def ComprOutcome (r : Except Err (List Value)) (startIdx len : Nat) (st : State) (acc : List Value)
    (rl : SpanRange) : Prop :=
  match r with
  | .ok res => ∃ tr sc', Run venv vm c startIdx (st.push (.arr acc) rl) tr (startIdx + len)
        { st.push (.arr res) rl with scope := sc' }
      ∧ sc'.popLoop = st.scope.popLoop ∧ Within startIdx (startIdx + len) tr
  | .error err => reportable err = true →
      ∃ tr re, Fails venv vm c startIdx (st.push (.arr acc) rl) tr re ∧ errMatch err re = true
        ∧ Within startIdx (startIdx + len) tr

variable (eenv : Tera.Env)

/-- the simulation statements at one level of evaluator fuel -/
structure SimAt (fuel : Nat) : Prop where
  expr : ∀ (e : Expr), InCore lf e → ∀ (base : Nat) (loop : Option Nat) (st : State) (sc : Scope), ScopeSim sc st.scope →
    CodeAt c base (exprCode base loop e) →
    ExprOutcome venv vm c lf (evalExpr fuel eenv sc e) base (exprCode base loop e).length st
  opt : ∀ (oe : Option Expr), (∀ x, oe = some x → InCore lf x) →
    ∀ (base : Nat) (loop : Option Nat) (w dv : Value) (st : State) (sc : Scope), ScopeSim sc st.scope →
    CodeAt c base (optExprCode base loop (.loadConst w) oe) →
    (∃ b, Tera.sliceBound dv = .ok b ∧ Vm.sliceBound w = .val b) →
    OptOutcome venv vm c lf (evalOpt fuel eenv sc oe dv) base
      (optExprCode base loop (.loadConst w) oe).length st
  arr : ∀ (items : List ArrayEntry), (∀ it ∈ items, InCore lf (entryExpr it)) →
    ∀ (base : Nat) (loop : Option Nat) (st : State) (sc : Scope), ScopeSim sc st.scope →
    CodeAt c base (arrayItemsCode base loop items) →
    ArrOutcome venv vm c lf (evalArrayEntries fuel eenv sc items) base
      (arrayItemsCode base loop items).length st
  mapE : ∀ (entries : List MapEntry), (∀ en ∈ entries, InCore lf (mapEntryExpr en)) →
    ∀ (base : Nat) (loop : Option Nat) (st : State) (sc : Scope), ScopeSim sc st.scope →
    CodeAt c base (mapItemsCode base loop entries) →
    MapOutcome venv vm c lf (evalMapEntries fuel eenv sc entries) base
      (mapItemsCode base loop entries).length st
  kw : ∀ (kwargs : List (String × Expr)), (∀ p ∈ kwargs, InCore lf p.2) →
    ∀ (base : Nat) (loop : Option Nat) (st : State) (sc : Scope), ScopeSim sc st.scope →
    CodeAt c base (kwargsCode base loop kwargs) →
    KwOutcome venv vm c lf (evalKwargs fuel eenv sc kwargs) base
      (kwargsCode base loop kwargs).length st
  compr : ∀ (e : Expr) (cond : Option Expr), InCore lf e → (∀ x, cond = some x → InCore lf x) →
    ∀ (startIdx : Nat) (loop : Option Nat) (st : State) (sc : Scope) (acc : List Value)
      (rl : SpanRange), ScopeSim sc st.scope →
    CodeAt c startIdx (comprLoop startIdx loop e cond) →
    ComprOutcome venv vm c (evalCompr fuel eenv sc e cond acc) startIdx
      (comprLoop startIdx loop e cond).length st acc rl
end

section
variable {venv : Vm.Env} {vm : VmCtx} {c : Chunk}
  {eenv : Tera.Env} {lf : Bool}

theorem ExprOutcome.ok_intro {v : Value} {base len : Nat} {st : State} (tr : List Nat)
    (rg : SpanRange) {pc' : Nat} (h : Run venv vm c base st tr pc' (st.push v rg))
    (hpc : pc' = base + len) (hsp : SpanOk c rg) (hw : Within base (base + len) tr)
    (hl : lf = true → tr.length ≤ len) : ExprOutcome venv vm c lf (.ok v) base len st := by
  subst hpc
  exact ⟨tr, rg, h, hsp, hw, hl⟩

theorem ExprOutcome.error_intro {err : Err} {base len : Nat} {st : State} (tr : List Nat)
    (re : RErr) (h : Fails venv vm c base st tr re) (hm : errMatch err re = true)
    (hw : Within base (base + len) tr) (hl : lf = true → tr.length ≤ len) :
    ExprOutcome venv vm c lf (.error err) base len st :=
  fun _ => ⟨tr, re, h, hm, hw, hl⟩

/-- a sub-expression's error, reached after the run `tr0`, is the whole expression's error -/
theorem ExprOutcome.error_of_sub {err : Err} {base len base1 len1 : Nat} {st st1 : State}
    {tr0 : List Nat} (hsub : ExprOutcome venv vm c lf (.error err) base1 len1 st1)
    (hrun : Run venv vm c base st tr0 base1 st1) (hw0 : Within base (base + len) tr0)
    (hb : base ≤ base1) (hl : base1 + len1 ≤ base + len) (hlen : lf = true → tr0.length + len1 ≤ len) :
    ExprOutcome venv vm c lf (.error err) base len st := by
  intro hrep
  obtain ⟨tr, re, hf, hm, hw, hl1⟩ := hsub hrep
  refine ⟨tr0 ++ tr, re, hrun.fails hf, hm, hw0.append (hw.mono hb hl), ?_⟩
  bnd

/-- a sub-expression in tail position: reached by the run `tr0` that leaves the state as it was,
followed by the state-preserving run `tr2` to the end of the code -/
theorem ExprOutcome.tail {r : Except Err Value} {base len base1 len1 : Nat} {st : State}
    {tr0 tr2 : List Nat} (hsub : ExprOutcome venv vm c lf r base1 len1 st)
    (hpre : Run venv vm c base st tr0 base1 st) (hw0 : Within base (base + len) tr0)
    (hpost : ∀ st', Run venv vm c (base1 + len1) st' tr2 (base + len) st')
    (hw2 : Within base (base + len) tr2)
    (hb : base ≤ base1) (hl : base1 + len1 ≤ base + len)
    (hlen : lf = true → tr0.length + len1 + tr2.length ≤ len) :
    ExprOutcome venv vm c lf r base len st := by
  cases r with
  | error err => exact ExprOutcome.error_of_sub hsub hpre hw0 hb hl (by bnd)
  | ok v =>
    obtain ⟨tr1, rg, hrun, hsp, hw1, hl1⟩ := hsub
    refine ⟨tr0 ++ tr1 ++ tr2, rg, (hpre.trans hrun).trans (hpost _), hsp,
      (hw0.append (hw1.mono hb hl)).append hw2, ?_⟩
    bnd

theorem Run.cast {pc : Nat} {st : State} {tr : List Nat} {pc' pc'' : Nat} {st' : State}
    (h : Run venv vm c pc st tr pc' st') (e : pc' = pc'') : Run venv vm c pc st tr pc'' st' :=
  e ▸ h

/-! ### code shapes -/

theorem exprCode_strict (base : Nat) (loop : Option Nat) (op : BinaryOperator) (l r : Expr)
    (hop : strictOp op = true) :
    exprCode base loop (.binary op l r)
      = exprCode base loop l ++ exprCode (base + (exprCode base loop l).length) loop r
        ++ [sp (.binop op)] := by
  cases op <;> simp only [strictOp, Bool.false_eq_true] at hop <;> simp only [exprCode]

theorem evalExpr_strict_l (fuel : Nat) (eenv : Tera.Env) (sc : Scope) (op : BinaryOperator)
    (l r : Expr) (hop : strictOp op = true) (err : Err) (h1 : evalExpr fuel eenv sc l = .error err) :
    evalExpr (fuel + 1) eenv sc (.binary op l r) = .error err := by
  cases op <;> simp only [strictOp, Bool.false_eq_true] at hop <;> simp only [evalExpr, h1]

theorem evalExpr_strict_r (fuel : Nat) (eenv : Tera.Env) (sc : Scope) (op : BinaryOperator)
    (l r : Expr) (hop : strictOp op = true) (a : Value) (err : Err)
    (h1 : evalExpr fuel eenv sc l = .ok a) (h2 : evalExpr fuel eenv sc r = .error err) :
    evalExpr (fuel + 1) eenv sc (.binary op l r) = .error err := by
  cases op <;> simp only [strictOp, Bool.false_eq_true] at hop <;> simp only [evalExpr, h1, h2]

theorem evalExpr_strict_ok (fuel : Nat) (eenv : Tera.Env) (sc : Scope) (op : BinaryOperator)
    (l r : Expr) (hop : strictOp op = true) (a b : Value)
    (h1 : evalExpr fuel eenv sc l = .ok a) (h2 : evalExpr fuel eenv sc r = .ok b) :
    evalExpr (fuel + 1) eenv sc (.binary op l r) = binop eenv op a b := by
  cases op <;> simp only [strictOp, Bool.false_eq_true] at hop <;> simp only [evalExpr, h1, h2]

theorem exprCode_and (base : Nat) (loop : Option Nat) (l r : Expr) :
    exprCode base loop (.binary .And l r)
      = exprCode base loop l
        ++ [ns (.jumpIfFalseOrPop (base + (exprCode base loop l).length + 1
              + (exprCode (base + (exprCode base loop l).length + 1) loop r).length))]
        ++ exprCode (base + (exprCode base loop l).length + 1) loop r := by
  simp only [exprCode, if_true]

theorem exprCode_or (base : Nat) (loop : Option Nat) (l r : Expr) :
    exprCode base loop (.binary .Or l r)
      = exprCode base loop l
        ++ [ns (.jumpIfTrueOrPop (base + (exprCode base loop l).length + 1
              + (exprCode (base + (exprCode base loop l).length + 1) loop r).length))]
        ++ exprCode (base + (exprCode base loop l).length + 1) loop r := by
  simp only [exprCode, reduceCtorEq, if_false]

theorem evalExpr_getItem_ok (fuel : Nat) (eenv : Tera.Env) (sc : Scope) (e s : Expr) (opt : Bool)
    (a b : Value) (h1 : evalExpr fuel eenv sc e = .ok a) (h2 : evalExpr fuel eenv sc s = .ok b) :
    evalExpr (fuel + 1) eenv sc (.getItem e s opt) = itemTail opt a b := by
  simp only [evalExpr, h1, h2, itemTail]
  rfl

theorem evalExpr_slice_ok (fuel : Nat) (eenv : Tera.Env) (sc : Scope) (e : Expr)
    (start stop step : Option Expr) (opt : Bool) (a v1 v2 v3 : Value)
    (h0 : evalExpr fuel eenv sc e = .ok a) (h1 : evalOpt fuel eenv sc start .none = .ok v1)
    (h2 : evalOpt fuel eenv sc stop .none = .ok v2) (h3 : evalOpt fuel eenv sc step (.u64 1) = .ok v3) :
    evalExpr (fuel + 1) eenv sc (.slice e start stop step opt) = sliceTail opt a v1 v2 v3 := by
  simp only [evalExpr, h0, h1, h2, h3, sliceTail]
  rfl

theorem OptOutcome.error_to_expr {venv : Vm.Env}
    {vm : VmCtx} {c : Chunk} {err : Err} {base len : Nat} {st : State}
    (h : OptOutcome venv vm c lf (.error err) base len st) :
    ExprOutcome venv vm c lf (.error err) base len st := h

theorem evalArrayEntries_flags (eenv : Tera.Env) (sc : Scope) :
    ∀ (items : List ArrayEntry) (fuel : Nat) (parts : List (Bool × Value)),
      evalArrayEntries fuel eenv sc items = .ok parts →
      parts.map (·.1) = items.map ArrayEntry.isSpread := by
  intro items
  induction items with
  | nil =>
    intro fuel parts h
    cases fuel with
    | zero => simp [evalArrayEntries] at h
    | succ f => simp only [evalArrayEntries, Except.ok.injEq] at h; subst h; rfl
  | cons entry rest ih =>
    intro fuel parts h
    cases fuel with
    | zero => simp [evalArrayEntries] at h
    | succ f =>
      cases entry with
      | item e =>
        simp only [evalArrayEntries] at h
        cases hr : evalExpr f eenv sc e with
        | error x => simp [hr] at h
        | ok v =>
          simp only [hr] at h
          cases hr2 : evalArrayEntries f eenv sc rest with
          | error x => simp [hr2, Except.map] at h
          | ok parts' =>
            simp only [hr2, Except.map, Except.ok.injEq] at h
            subst h
            simp [ih f parts' hr2, ArrayEntry.isSpread]
      | spread e =>
        simp only [evalArrayEntries] at h
        cases hr : evalExpr f eenv sc e with
        | error x => simp [hr] at h
        | ok v =>
          simp only [hr] at h
          cases hr2 : evalArrayEntries f eenv sc rest with
          | error x => simp [hr2, Except.map] at h
          | ok parts' =>
            simp only [hr2, Except.map, Except.ok.injEq] at h
            subst h
            simp [ih f parts' hr2, ArrayEntry.isSpread]

theorem evalMapEntries_flags (eenv : Tera.Env) (sc : Scope) :
    ∀ (entries : List MapEntry) (fuel : Nat) (parts : List (Option Key × Value)),
      evalMapEntries fuel eenv sc entries = .ok parts →
      parts.map (·.1.isNone) = entries.map MapEntry.isSpread := by
  intro entries
  induction entries with
  | nil =>
    intro fuel parts h
    cases fuel with
    | zero => simp [evalMapEntries] at h
    | succ f => simp only [evalMapEntries, Except.ok.injEq] at h; subst h; rfl
  | cons entry rest ih =>
    intro fuel parts h
    cases fuel with
    | zero => simp [evalMapEntries] at h
    | succ f =>
      cases entry with
      | keyValue k e =>
        simp only [evalMapEntries] at h
        cases hr : evalExpr f eenv sc e with
        | error x => simp [hr] at h
        | ok v =>
          simp only [hr] at h
          cases hr2 : evalMapEntries f eenv sc rest with
          | error x => simp [hr2, Except.map] at h
          | ok parts' =>
            simp only [hr2, Except.map, Except.ok.injEq] at h
            subst h
            simp [ih f parts' hr2, MapEntry.isSpread]
      | spread e =>
        simp only [evalMapEntries] at h
        cases hr : evalExpr f eenv sc e with
        | error x => simp [hr] at h
        | ok v =>
          simp only [hr] at h
          cases hr2 : evalMapEntries f eenv sc rest with
          | error x => simp [hr2, Except.map] at h
          | ok parts' =>
            simp only [hr2, Except.map, Except.ok.injEq] at h
            subst h
            simp [ih f parts' hr2, MapEntry.isSpread]

theorem evalKwargs_names (eenv : Tera.Env) (sc : Scope) :
    ∀ (kwargs : List (String × Expr)) (fuel : Nat) (kw : List (String × Value)),
      evalKwargs fuel eenv sc kwargs = .ok kw → kw.map (·.1) = kwargs.map (·.1) := by
  intro kwargs
  induction kwargs with
  | nil =>
    intro fuel kw h
    cases fuel with
    | zero => simp [evalKwargs] at h
    | succ f => simp only [evalKwargs, Except.ok.injEq] at h; subst h; rfl
  | cons entry rest ih =>
    intro fuel kw h
    obtain ⟨n, e⟩ := entry
    cases fuel with
    | zero => simp [evalKwargs] at h
    | succ f =>
      simp only [evalKwargs] at h
      cases hr : evalExpr f eenv sc e with
      | error x => simp [hr] at h
      | ok v =>
        simp only [hr] at h
        cases hr2 : evalKwargs f eenv sc rest with
        | error x => simp [hr2, Except.map] at h
        | ok kw' =>
          simp only [hr2, Except.map, Except.ok.injEq] at h
          subst h
          simp [ih f kw' hr2]

/-! ### the simulation -/

theorem expr_step (hE : EnvRel venv eenv) (hB : BuiltinsRel venv eenv)
    (ht : reportTargetOk venv vm c = true) (fuel : Nat) (H : SimAt venv vm c lf eenv fuel) :
    ∀ (e : Expr), InCore lf e → ∀ (base : Nat) (loop : Option Nat) (st : State) (sc : Scope), ScopeSim sc st.scope →
      CodeAt c base (exprCode base loop e) →
      ExprOutcome venv vm c lf (evalExpr (fuel + 1) eenv sc e) base (exprCode base loop e).length st := by
  have ih := H.expr
  · intro e hcore
    cases hcore with
    | const v =>
      intro base loop st sc hsc hcode
      simp only [exprCode, CodeAt] at hcode
      simp only [evalExpr, exprCode, List.length_singleton]
      exact .ok_intro [base] (base, base) (run_loadConst hcode.1 st) rfl (spanOk_own hcode.1)
        (Within.single (Nat.le_refl _) (by bnd)) (by bnd)
    | var n =>
      intro base loop st sc hsc hcode
      simp only [exprCode, CodeAt] at hcode
      simp only [evalExpr, exprCode, List.length_singleton]
      cases hn : (n == "__tera_context")
      · simp only [Bool.false_eq_true, if_false]
        rw [hsc.getValue n]
        exact .ok_intro [base] (base, base) (run_loadName hcode.1 st hn) rfl (spanOk_own hcode.1)
          (Within.single (Nat.le_refl _) (by bnd)) (by bnd)
      · simp only [if_true]
        intro h; simp [reportable] at h
    | @getAttr e1 n opt h1 =>
      intro base loop st sc hsc hcode
      simp only [exprCode] at hcode ⊢
      rw [CodeAt.append] at hcode
      obtain ⟨hc1, hc2⟩ := hcode
      have IH := ih e1 h1 base loop st sc hsc hc1
      simp only [evalExpr, List.length_append, List.length_singleton]
      cases hr : evalExpr fuel eenv sc e1 with
      | error err =>
        rw [hr] at IH
        exact IH.error_of_sub (Run.nil _ _) Within.nil (Nat.le_refl _) (by bnd) (by bnd)
      | ok a =>
        rw [hr] at IH
        obtain ⟨tr1, rg1, hrun1, hsp1, hw1, hl1⟩ := IH
        have hent := CodeAt.single.mp hc2
        have hA := attr_sim hent ht st a rg1 hsp1
        have hown : SpanOk c (base + (exprCode base loop e1).length, base + (exprCode base loop e1).length) := by
          cases opt <;> exact spanOk_own hent
        simp only
        by_cases hb1 : (opt && (a.isUndef || a.isNone)) = true
        · rw [if_pos hb1] at hA ⊢
          exact .ok_intro (tr1 ++ [_]) _ (hrun1.trans hA) (by bnd) hown
            ((hw1.mono (Nat.le_refl _) (by bnd)).append (Within.single (by bnd) (by bnd)))
            (by bnd)
        · rw [if_neg hb1] at hA ⊢
          by_cases hb2 : a.isUndef = true
          · rw [if_pos hb2] at hA ⊢
            exact .error_intro (tr1 ++ [_]) _ (hrun1.fails hA) (by simp [errMatch])
              ((hw1.mono (Nat.le_refl _) (by bnd)).append (Within.single (by bnd) (by bnd)))
              (by bnd)
          · rw [if_neg hb2] at hA ⊢
            exact .ok_intro (tr1 ++ [_]) _ (hrun1.trans hA) (by bnd) hown
              ((hw1.mono (Nat.le_refl _) (by bnd)).append (Within.single (by bnd) (by bnd)))
              (by bnd)
    | @unary e1 op h1 =>
      intro base loop st sc hsc hcode
      simp only [exprCode] at hcode ⊢
      rw [CodeAt.append] at hcode
      obtain ⟨hc1, hc2⟩ := hcode
      have IH := ih e1 h1 base loop st sc hsc hc1
      have hent := CodeAt.single.mp hc2
      simp only [List.length_append, List.length_singleton]
      cases op with
      | Not =>
        simp only [evalExpr]
        cases hr : evalExpr fuel eenv sc e1 with
        | error err =>
          rw [hr] at IH
          exact IH.error_of_sub (Run.nil _ _) Within.nil (Nat.le_refl _) (by bnd) (by bnd)
        | ok a =>
          rw [hr] at IH
          obtain ⟨tr1, rg1, hrun1, hsp1, hw1, hl1⟩ := IH
          exact .ok_intro (tr1 ++ [_]) _ (hrun1.trans (run_not hent st a rg1)) (by bnd) hsp1
            ((hw1.mono (Nat.le_refl _) (by bnd)).append (Within.single (by bnd) (by bnd)))
            (by bnd)
      | Minus =>
        simp only [evalExpr]
        cases hr : evalExpr fuel eenv sc e1 with
        | error err =>
          rw [hr] at IH
          exact IH.error_of_sub (Run.nil _ _) Within.nil (Nat.le_refl _) (by bnd) (by bnd)
        | ok a =>
          rw [hr] at IH
          obtain ⟨tr1, rg1, hrun1, hsp1, hw1, hl1⟩ := IH
          have hN := negative_sim hent hE ht st a rg1 hsp1
          simp only
          cases hn : liftNum (negate eenv.F a) with
          | ok v =>
            rw [hn] at hN
            exact .ok_intro (tr1 ++ [_]) _ (hrun1.trans hN) (by bnd) hsp1
              ((hw1.mono (Nat.le_refl _) (by bnd)).append (Within.single (by bnd) (by bnd)))
              (by bnd)
          | error err =>
            rw [hn] at hN
            obtain ⟨re, hf, hm⟩ := hN
            exact .error_intro (tr1 ++ [_]) _ (hrun1.fails hf) hm
              ((hw1.mono (Nat.le_refl _) (by bnd)).append (Within.single (by bnd) (by bnd)))
              (by bnd)
    | @binary l r op hop hl hr =>
      intro base loop st sc hsc hcode
      rw [exprCode_strict _ _ _ _ _ hop] at hcode ⊢
      rw [CodeAt.append, CodeAt.append] at hcode
      obtain ⟨⟨hc1, hc2⟩, hc3⟩ := hcode
      have hent := CodeAt.single.mp hc3
      simp only [List.length_append, List.length_singleton, ← Nat.add_assoc] at hent ⊢
      have IH1 := ih l hl base loop st sc hsc hc1
      cases hr1 : evalExpr fuel eenv sc l with
      | error err =>
        rw [evalExpr_strict_l _ _ _ _ _ _ hop _ hr1]
        rw [hr1] at IH1
        exact IH1.error_of_sub (Run.nil _ _) Within.nil (Nat.le_refl _) (by bnd) (by bnd)
      | ok a =>
        rw [hr1] at IH1
        obtain ⟨tr1, rg1, hrun1, hsp1, hw1, hl1⟩ := IH1
        have IH2 : ExprOutcome venv vm c lf (evalExpr fuel eenv sc r) _ _ (st.push a rg1) :=
          ih r hr _ loop (st.push a rg1) sc hsc hc2
        cases hr2 : evalExpr fuel eenv sc r with
        | error err =>
          rw [evalExpr_strict_r _ _ _ _ _ _ hop _ _ hr1 hr2]
          rw [hr2] at IH2
          exact IH2.error_of_sub hrun1 (hw1.mono (Nat.le_refl _) (by bnd)) (by bnd) (by bnd)
            (by bnd)
        | ok b =>
          rw [evalExpr_strict_ok _ _ _ _ _ _ hop _ _ hr1 hr2]
          rw [hr2] at IH2
          obtain ⟨tr2, rg2, hrun2, hsp2, hw2, hl2⟩ := IH2
          have hB := binop_sim hop hent hE ht st a rg1 b rg2 hsp1 hsp2
          cases hb : binop eenv op a b with
          | ok v =>
            rw [hb] at hB
            obtain ⟨rg, hrunB, hspB⟩ := hB
            exact .ok_intro (tr1 ++ tr2 ++ [_]) rg ((hrun1.trans hrun2).trans hrunB) (by bnd) hspB
              (((hw1.mono (Nat.le_refl _) (by bnd)).append (hw2.mono (by bnd) (by bnd))).append
                (Within.single (by bnd) (by bnd)))
              (by bnd)
          | error err =>
            rw [hb] at hB
            obtain ⟨re, hf, hm⟩ := hB
            exact .error_intro (tr1 ++ tr2 ++ [_]) re ((hrun1.trans hrun2).fails hf) hm
              (((hw1.mono (Nat.le_refl _) (by bnd)).append (hw2.mono (by bnd) (by bnd))).append
                (Within.single (by bnd) (by bnd)))
              (by bnd)
    | @and l r hl hr =>
      intro base loop st sc hsc hcode
      rw [exprCode_and] at hcode ⊢
      rw [CodeAt.append, CodeAt.append] at hcode
      obtain ⟨⟨hc1, hc2⟩, hc3⟩ := hcode
      have hent := CodeAt.single.mp hc2
      simp only [List.length_append, List.length_singleton, ← Nat.add_assoc] at hc3 ⊢
      have IH1 := ih l hl base loop st sc hsc hc1
      simp only [evalExpr]
      cases hr1 : evalExpr fuel eenv sc l with
      | error err =>
        rw [hr1] at IH1
        exact IH1.error_of_sub (Run.nil _ _) Within.nil (Nat.le_refl _) (by bnd) (by bnd)
      | ok a =>
        rw [hr1] at IH1
        obtain ⟨tr1, rg1, hrun1, hsp1, hw1, hl1⟩ := IH1
        simp only
        cases hta : a.isTruthy with
        | false =>
          simp only [Bool.not_false, if_true]
          exact .ok_intro (tr1 ++ [_]) rg1
            (hrun1.trans (run_jumpIfFalseOrPop_false hent st a rg1 hta)) (by bnd) hsp1
            ((hw1.mono (Nat.le_refl _) (by bnd)).append (Within.single (by bnd) (by bnd)))
            (by bnd)
        | true =>
          simp only [Bool.not_true, Bool.false_eq_true, if_false]
          have IH2 := ih r hr _ loop st sc hsc hc3
          exact IH2.tail (tr2 := []) (hrun1.trans (run_jumpIfFalseOrPop_true hent st a rg1 hta))
            ((hw1.mono (Nat.le_refl _) (by bnd)).append (Within.single (by bnd) (by bnd)))
            (fun st' => (Run.nil _ st').cast (by bnd)) Within.nil (by bnd) (by bnd)
            (by bnd)
    | @or l r hl hr =>
      intro base loop st sc hsc hcode
      rw [exprCode_or] at hcode ⊢
      rw [CodeAt.append, CodeAt.append] at hcode
      obtain ⟨⟨hc1, hc2⟩, hc3⟩ := hcode
      have hent := CodeAt.single.mp hc2
      simp only [List.length_append, List.length_singleton, ← Nat.add_assoc] at hc3 ⊢
      have IH1 := ih l hl base loop st sc hsc hc1
      simp only [evalExpr]
      cases hr1 : evalExpr fuel eenv sc l with
      | error err =>
        rw [hr1] at IH1
        exact IH1.error_of_sub (Run.nil _ _) Within.nil (Nat.le_refl _) (by bnd) (by bnd)
      | ok a =>
        rw [hr1] at IH1
        obtain ⟨tr1, rg1, hrun1, hsp1, hw1, hl1⟩ := IH1
        simp only
        cases hta : a.isTruthy with
        | true =>
          simp only [if_true]
          exact .ok_intro (tr1 ++ [_]) rg1
            (hrun1.trans (run_jumpIfTrueOrPop_true hent st a rg1 hta)) (by bnd) hsp1
            ((hw1.mono (Nat.le_refl _) (by bnd)).append (Within.single (by bnd) (by bnd)))
            (by bnd)
        | false =>
          simp only [Bool.false_eq_true, if_false]
          have IH2 := ih r hr _ loop st sc hsc hc3
          exact IH2.tail (tr2 := []) (hrun1.trans (run_jumpIfTrueOrPop_false hent st a rg1 hta))
            ((hw1.mono (Nat.le_refl _) (by bnd)).append (Within.single (by bnd) (by bnd)))
            (fun st' => (Run.nil _ st').cast (by bnd)) Within.nil (by bnd) (by bnd)
            (by bnd)
    | @ternary cnd t f hcnd htr hfa =>
      intro base loop st sc hsc hcode
      simp only [exprCode] at hcode ⊢
      rw [CodeAt.append, CodeAt.append, CodeAt.append, CodeAt.append] at hcode
      obtain ⟨⟨⟨⟨hc1, hc2⟩, hc3⟩, hc4⟩, hc5⟩ := hcode
      have hent2 := CodeAt.single.mp hc2
      have hent4 := CodeAt.single.mp hc4
      simp only [List.length_append, List.length_singleton, ← Nat.add_assoc] at hc3 hent4 hc5 ⊢
      have IH1 := ih cnd hcnd base loop st sc hsc hc1
      simp only [evalExpr]
      cases hr1 : evalExpr fuel eenv sc cnd with
      | error err =>
        rw [hr1] at IH1
        exact IH1.error_of_sub (Run.nil _ _) Within.nil (Nat.le_refl _) (by bnd) (by bnd)
      | ok a =>
        rw [hr1] at IH1
        obtain ⟨tr1, rg1, hrun1, hsp1, hw1, hl1⟩ := IH1
        have hP := run_popJumpIfFalse (venv := venv) (vm := vm) hent2 st a rg1
        simp only
        cases hta : a.isTruthy with
        | true =>
          simp only [hta, if_true] at hP ⊢
          have IH2 := ih t htr _ loop st sc hsc hc3
          exact IH2.tail (hrun1.trans hP)
            ((hw1.mono (Nat.le_refl _) (by bnd)).append (Within.single (by bnd) (by bnd)))
            (fun st' => (run_jump hent4 st').cast (by bnd))
            (Within.single (by bnd) (by bnd)) (by bnd) (by bnd)
            (by bnd)
        | false =>
          simp only [hta, Bool.false_eq_true, if_false] at hP ⊢
          have IH3 := ih f hfa _ loop st sc hsc hc5
          exact IH3.tail (tr2 := []) (hrun1.trans hP)
            ((hw1.mono (Nat.le_refl _) (by bnd)).append (Within.single (by bnd) (by bnd)))
            (fun st' => (Run.nil _ st').cast (by bnd)) Within.nil (by bnd) (by bnd)
            (by bnd)

    | @getItem e1 s1 opt h1 h2 =>
      intro base loop st sc hsc hcode
      simp only [exprCode] at hcode ⊢
      rw [CodeAt.append, CodeAt.append] at hcode
      obtain ⟨⟨hc1, hc2⟩, hc3⟩ := hcode
      have hent := CodeAt.single.mp hc3
      simp only [List.length_append, List.length_singleton, ← Nat.add_assoc] at hent ⊢
      have IH1 := ih e1 h1 base loop st sc hsc hc1
      cases hr1 : evalExpr fuel eenv sc e1 with
      | error err =>
        have hval : evalExpr (fuel + 1) eenv sc (.getItem e1 s1 opt) = .error err := by
          simp only [evalExpr, hr1]
        rw [hval]
        rw [hr1] at IH1
        exact IH1.error_of_sub (Run.nil _ _) Within.nil (Nat.le_refl _) (by bnd) (by bnd)
      | ok a =>
        rw [hr1] at IH1
        obtain ⟨tr1, rg1, hrun1, hsp1, hw1, hl1⟩ := IH1
        have IH2 : ExprOutcome venv vm c lf (evalExpr fuel eenv sc s1) _ _ (st.push a rg1) :=
          ih s1 h2 _ loop (st.push a rg1) sc hsc hc2
        cases hr2 : evalExpr fuel eenv sc s1 with
        | error err =>
          have hval : evalExpr (fuel + 1) eenv sc (.getItem e1 s1 opt) = .error err := by
            simp only [evalExpr, hr1, hr2]
          rw [hval]
          rw [hr2] at IH2
          exact IH2.error_of_sub hrun1 (hw1.mono (Nat.le_refl _) (by bnd)) (by bnd) (by bnd)
            (by bnd)
        | ok b =>
          rw [evalExpr_getItem_ok _ _ _ _ _ _ _ _ hr1 hr2]
          rw [hr2] at IH2
          obtain ⟨tr2, rg2, hrun2, hsp2, hw2, hl2⟩ := IH2
          have hB := subscript_sim hent ht st a rg1 b rg2 hsp1 hsp2
          cases hb : itemTail opt a b with
          | ok v =>
            rw [hb] at hB
            obtain ⟨rg, hrunB, hspB⟩ := hB
            exact .ok_intro (tr1 ++ tr2 ++ [_]) rg ((hrun1.trans hrun2).trans hrunB) (by bnd) hspB
              (((hw1.mono (Nat.le_refl _) (by bnd)).append (hw2.mono (by bnd) (by bnd))).append
                (Within.single (by bnd) (by bnd)))
              (by bnd)
          | error err =>
            rw [hb] at hB
            obtain ⟨re, hf, hm⟩ := hB
            exact .error_intro (tr1 ++ tr2 ++ [_]) re ((hrun1.trans hrun2).fails hf) hm
              (((hw1.mono (Nat.le_refl _) (by bnd)).append (hw2.mono (by bnd) (by bnd))).append
                (Within.single (by bnd) (by bnd)))
              (by bnd)
    | @slice e0 start stop step opt h0 hstart hstop hstep =>
      intro base loop st sc hsc hcode
      simp only [exprCode] at hcode ⊢
      rw [CodeAt.append, CodeAt.append, CodeAt.append, CodeAt.append] at hcode
      obtain ⟨⟨⟨⟨hc0, hc1⟩, hc2⟩, hc3⟩, hc4⟩ := hcode
      have hent := CodeAt.single.mp hc4
      simp only [List.length_append, List.length_singleton, ← Nat.add_assoc] at hc2 hc3 hent ⊢
      have IH0 := ih e0 h0 base loop st sc hsc hc0
      cases hr0 : evalExpr fuel eenv sc e0 with
      | error err =>
        have hval : evalExpr (fuel + 1) eenv sc (.slice e0 start stop step opt) = .error err := by
          simp only [evalExpr, hr0]
        rw [hval]
        rw [hr0] at IH0
        exact IH0.error_of_sub (Run.nil _ _) Within.nil (Nat.le_refl _) (by bnd) (by bnd)
      | ok a =>
        rw [hr0] at IH0
        obtain ⟨tr0, rg0, hrun0, hsp0, hw0, hl0⟩ := IH0
        have IH1 : OptOutcome venv vm c lf (evalOpt fuel eenv sc start .none) _ _ (st.push a rg0) :=
          H.opt start hstart _ loop .none .none (st.push a rg0) sc hsc hc1 ⟨none, rfl, rfl⟩
        cases hr1 : evalOpt fuel eenv sc start .none with
        | error err =>
          have hval : evalExpr (fuel + 1) eenv sc (.slice e0 start stop step opt) = .error err := by
            simp only [evalExpr, hr0, hr1]
          rw [hval]
          rw [hr1] at IH1
          exact IH1.error_to_expr.error_of_sub hrun0 (hw0.mono (Nat.le_refl _) (by bnd)) (by bnd)
            (by bnd) (by bnd)
        | ok v1 =>
          rw [hr1] at IH1
          obtain ⟨tr1, w1, rg1, hrun1, hb1, hw1, hl1⟩ := IH1
          have IH2 : OptOutcome venv vm c lf (evalOpt fuel eenv sc stop .none) _ _
              ((st.push a rg0).push w1 rg1) :=
            H.opt stop hstop _ loop .none .none ((st.push a rg0).push w1 rg1) sc hsc hc2 ⟨none, rfl, rfl⟩
          cases hr2 : evalOpt fuel eenv sc stop .none with
          | error err =>
            have hval : evalExpr (fuel + 1) eenv sc (.slice e0 start stop step opt) = .error err := by
              simp only [evalExpr, hr0, hr1, hr2]
            rw [hval]
            rw [hr2] at IH2
            exact IH2.error_to_expr.error_of_sub (hrun0.trans hrun1)
              ((hw0.mono (Nat.le_refl _) (by bnd)).append (hw1.mono (by bnd) (by bnd)))
              (by bnd) (by bnd) (by bnd)
          | ok v2 =>
            rw [hr2] at IH2
            obtain ⟨tr2, w2, rg2, hrun2, hb2, hw2, hl2⟩ := IH2
            have IH3 : OptOutcome venv vm c lf (evalOpt fuel eenv sc step (.u64 1)) _ _
                (((st.push a rg0).push w1 rg1).push w2 rg2) :=
              H.opt step hstep _ loop (.i64 1) (.u64 1) (((st.push a rg0).push w1 rg1).push w2 rg2) sc hsc hc3
                ⟨some 1, rfl, rfl⟩
            cases hr3 : evalOpt fuel eenv sc step (.u64 1) with
            | error err =>
              have hval : evalExpr (fuel + 1) eenv sc (.slice e0 start stop step opt) = .error err := by
                simp only [evalExpr, hr0, hr1, hr2, hr3]
              rw [hval]
              rw [hr3] at IH3
              exact IH3.error_to_expr.error_of_sub ((hrun0.trans hrun1).trans hrun2)
                (((hw0.mono (Nat.le_refl _) (by bnd)).append (hw1.mono (by bnd) (by bnd))).append
                  (hw2.mono (by bnd) (by bnd)))
                (by bnd) (by bnd) (by bnd)
            | ok v3 =>
              rw [hr3] at IH3
              obtain ⟨tr3, w3, rg3, hrun3, hb3, hw3, hl3⟩ := IH3
              rw [evalExpr_slice_ok _ _ _ _ _ _ _ _ _ _ _ _ hr0 hr1 hr2 hr3]
              have hS := slice_sim hent ht st a rg0 v1 w1 rg1 v2 w2 rg2 v3 w3 rg3 hsp0 hb1 hb2 hb3
              cases hb : sliceTail opt a v1 v2 v3 with
              | ok v =>
                rw [hb] at hS
                obtain ⟨rg, hrunS, hspS⟩ := hS
                exact .ok_intro (tr0 ++ tr1 ++ tr2 ++ tr3 ++ [_]) rg
                  ((((hrun0.trans hrun1).trans hrun2).trans hrun3).trans hrunS) (by bnd) hspS
                  (((((hw0.mono (Nat.le_refl _) (by bnd)).append (hw1.mono (by bnd) (by bnd))).append
                    (hw2.mono (by bnd) (by bnd))).append (hw3.mono (by bnd) (by bnd))).append
                    (Within.single (by bnd) (by bnd)))
                  (by bnd)
              | error err =>
                rw [hb] at hS
                obtain ⟨re, hf, hm⟩ := hS
                exact .error_intro (tr0 ++ tr1 ++ tr2 ++ tr3 ++ [_]) re
                  ((((hrun0.trans hrun1).trans hrun2).trans hrun3).fails hf) hm
                  (((((hw0.mono (Nat.le_refl _) (by bnd)).append (hw1.mono (by bnd) (by bnd))).append
                    (hw2.mono (by bnd) (by bnd))).append (hw3.mono (by bnd) (by bnd))).append
                    (Within.single (by bnd) (by bnd)))
                  (by bnd)

    | @array items hitems =>
      intro base loop st sc hsc hcode
      simp only [exprCode] at hcode ⊢
      rw [CodeAt.append] at hcode
      obtain ⟨hc1, hc2⟩ := hcode
      have hent := CodeAt.single.mp hc2
      simp only [List.length_append, List.length_singleton]
      have IH := H.arr items hitems base loop st sc hsc hc1
      simp only [evalExpr]
      cases hr : evalArrayEntries fuel eenv sc items with
      | error err =>
        rw [hr] at IH
        exact ExprOutcome.error_of_sub (show ExprOutcome venv vm c lf (.error err) _ _ st from IH)
          (Run.nil _ _) Within.nil (Nat.le_refl _) (by bnd) (by bnd)
      | ok parts =>
        rw [hr] at IH
        obtain ⟨tr1, stk, hrun1, hstk, hw1, hl1⟩ := IH
        have hB := arrayBuild_sim hent ht st parts stk
          (evalArrayEntries_flags eenv sc items fuel parts hr) hstk
        simp only
        cases hb : buildList parts with
        | ok xs =>
          rw [hb] at hB
          simp only [Except.map]
          exact .ok_intro (tr1 ++ [_]) _ (hrun1.trans hB) (by bnd) (spanOk_own hent)
            ((hw1.mono (Nat.le_refl _) (by bnd)).append (Within.single (by bnd) (by bnd)))
            (by bnd)
        | error err =>
          rw [hb] at hB
          obtain ⟨re, hf, hm⟩ := hB
          simp only [Except.map]
          exact .error_intro (tr1 ++ [_]) re (hrun1.fails hf) hm
            ((hw1.mono (Nat.le_refl _) (by bnd)).append (Within.single (by bnd) (by bnd)))
            (by bnd)

    | @map entries hentries =>
      intro base loop st sc hsc hcode
      simp only [exprCode] at hcode ⊢
      rw [CodeAt.append] at hcode
      obtain ⟨hc1, hc2⟩ := hcode
      have hent := CodeAt.single.mp hc2
      simp only [List.length_append, List.length_singleton]
      have IH := H.mapE entries hentries base loop st sc hsc hc1
      simp only [evalExpr]
      cases hr : evalMapEntries fuel eenv sc entries with
      | error err =>
        rw [hr] at IH
        exact ExprOutcome.error_of_sub (show ExprOutcome venv vm c lf (.error err) _ _ st from IH)
          (Run.nil _ _) Within.nil (Nat.le_refl _) (by bnd) (by bnd)
      | ok parts =>
        rw [hr] at IH
        obtain ⟨tr1, stk, hrun1, hstk, hw1, hl1⟩ := IH
        have hB := mapBuild_sim hent ht st parts stk
          (evalMapEntries_flags eenv sc entries fuel parts hr) hstk
        simp only
        cases hb : buildMap parts with
        | ok m =>
          rw [hb] at hB
          simp only [Except.map]
          exact .ok_intro (tr1 ++ [_]) _ (hrun1.trans hB) (by bnd) (spanOk_own hent)
            ((hw1.mono (Nat.le_refl _) (by bnd)).append (Within.single (by bnd) (by bnd)))
            (by bnd)
        | error err =>
          rw [hb] at hB
          obtain ⟨re, hf, hm⟩ := hB
          simp only [Except.map]
          exact .error_intro (tr1 ++ [_]) re (hrun1.fails hf) hm
            ((hw1.mono (Nat.le_refl _) (by bnd)).append (Within.single (by bnd) (by bnd)))
            (by bnd)

    | @filter e0 name kwargs h0 hkw hnd =>
      intro base loop st sc hsc hcode
      simp only [exprCode] at hcode ⊢
      rw [CodeAt.append, CodeAt.append] at hcode
      obtain ⟨⟨hc0, hc1⟩, hc2⟩ := hcode
      simp only [CodeAt, List.length_append, ← Nat.add_assoc] at hc2
      obtain ⟨hentB, hentF, _⟩ := hc2
      simp only [List.length_append, List.length_cons, List.length_nil, ← Nat.add_assoc]
      have IH0 := ih e0 h0 base loop st sc hsc hc0
      cases hr0 : evalExpr fuel eenv sc e0 with
      | error err =>
        have hval : evalExpr (fuel + 1) eenv sc (.filter e0 name kwargs) = .error err := by
          simp only [evalExpr, hr0]
        rw [hval]
        rw [hr0] at IH0
        exact IH0.error_of_sub (Run.nil _ _) Within.nil (Nat.le_refl _) (by bnd) (by bnd)
      | ok v =>
        rw [hr0] at IH0
        obtain ⟨tr0, rg0, hrun0, hsp0, hw0, hl0⟩ := IH0
        have IH1 : KwOutcome venv vm c lf (evalKwargs fuel eenv sc kwargs) _ _ (st.push v rg0) :=
          H.kw kwargs hkw _ loop (st.push v rg0) sc hsc hc1
        cases hr1 : evalKwargs fuel eenv sc kwargs with
        | error err =>
          have hval : evalExpr (fuel + 1) eenv sc (.filter e0 name kwargs) = .error err := by
            simp only [evalExpr, hr0, hr1]
          rw [hval]
          rw [hr1] at IH1
          exact ExprOutcome.error_of_sub (show ExprOutcome venv vm c lf (.error err) _ _ _ from IH1) hrun0
            (hw0.mono (Nat.le_refl _) (by bnd)) (by bnd) (by bnd) (by bnd)
        | ok kw =>
          have hval : evalExpr (fuel + 1) eenv sc (.filter e0 name kwargs)
              = applyFilter eenv name v kw := by
            simp only [evalExpr, hr0, hr1]
          rw [hval]
          rw [hr1] at IH1
          obtain ⟨tr1, stk, hrun1, hstk, hw1, hl1⟩ := IH1
          have hnames := evalKwargs_names eenv sc kwargs fuel kw hr1
          have hd : (kw.map (·.1)).Nodup := by rw [hnames]; exact hnd
          have hlen : kwargs.length = kw.length := by
            have := congrArg List.length hnames; simpa using this.symm
          have hrunB := run_buildKwargs (venv := venv) (vm := vm) hentB (st.push v rg0) kw stk
            hlen hstk
          have hF := filter_sim hentF hB ht st v rg0 kw
            ((base + (exprCode base loop e0).length + (kwargsCode (base + (exprCode base loop e0).length) loop kwargs).length), (base + (exprCode base loop e0).length + (kwargsCode (base + (exprCode base loop e0).length) loop kwargs).length)) hd hsp0
          cases hb : applyFilter eenv name v kw with
          | ok r =>
            rw [hb] at hF
            exact .ok_intro (tr0 ++ tr1 ++ [_] ++ [_]) _ (((hrun0.trans hrun1).trans hrunB).trans hF)
              (by bnd) (spanOk_own hentF)
              ((((hw0.mono (Nat.le_refl _) (by bnd)).append (hw1.mono (by bnd) (by bnd))).append
                (Within.single (by bnd) (by bnd))).append (Within.single (by bnd) (by bnd)))
              (by bnd)
          | error err =>
            rw [hb] at hF
            intro hrep
            obtain ⟨re, hf, hm⟩ := hF hrep
            exact ⟨tr0 ++ tr1 ++ [_] ++ [_], re, ((hrun0.trans hrun1).trans hrunB).fails hf, hm,
              ((((hw0.mono (Nat.le_refl _) (by bnd)).append (hw1.mono (by bnd) (by bnd))).append
                (Within.single (by bnd) (by bnd))).append (Within.single (by bnd) (by bnd))),
              by bnd⟩
    | @test e0 name kwargs h0 hkw hnd =>
      intro base loop st sc hsc hcode
      simp only [exprCode] at hcode ⊢
      rw [CodeAt.append, CodeAt.append] at hcode
      obtain ⟨⟨hc0, hc1⟩, hc2⟩ := hcode
      simp only [CodeAt, List.length_append, ← Nat.add_assoc] at hc2
      obtain ⟨hentB, hentF, _⟩ := hc2
      simp only [List.length_append, List.length_cons, List.length_nil, ← Nat.add_assoc]
      have IH0 := ih e0 h0 base loop st sc hsc hc0
      cases hr0 : evalExpr fuel eenv sc e0 with
      | error err =>
        have hval : evalExpr (fuel + 1) eenv sc (.test e0 name kwargs) = .error err := by
          simp only [evalExpr, hr0]
        rw [hval]
        rw [hr0] at IH0
        exact IH0.error_of_sub (Run.nil _ _) Within.nil (Nat.le_refl _) (by bnd) (by bnd)
      | ok v =>
        rw [hr0] at IH0
        obtain ⟨tr0, rg0, hrun0, hsp0, hw0, hl0⟩ := IH0
        have IH1 : KwOutcome venv vm c lf (evalKwargs fuel eenv sc kwargs) _ _ (st.push v rg0) :=
          H.kw kwargs hkw _ loop (st.push v rg0) sc hsc hc1
        cases hr1 : evalKwargs fuel eenv sc kwargs with
        | error err =>
          have hval : evalExpr (fuel + 1) eenv sc (.test e0 name kwargs) = .error err := by
            simp only [evalExpr, hr0, hr1]
          rw [hval]
          rw [hr1] at IH1
          exact ExprOutcome.error_of_sub (show ExprOutcome venv vm c lf (.error err) _ _ _ from IH1) hrun0
            (hw0.mono (Nat.le_refl _) (by bnd)) (by bnd) (by bnd) (by bnd)
        | ok kw =>
          have hval : evalExpr (fuel + 1) eenv sc (.test e0 name kwargs)
              = (applyTest name v).map Value.bool := by
            simp only [evalExpr, hr0, hr1]
          rw [hval]
          rw [hr1] at IH1
          obtain ⟨tr1, stk, hrun1, hstk, hw1, hl1⟩ := IH1
          have hnames := evalKwargs_names eenv sc kwargs fuel kw hr1
          have hd : (kw.map (·.1)).Nodup := by rw [hnames]; exact hnd
          have hlen : kwargs.length = kw.length := by
            have := congrArg List.length hnames; simpa using this.symm
          have hrunB := run_buildKwargs (venv := venv) (vm := vm) hentB (st.push v rg0) kw stk
            hlen hstk
          have hF := test_sim hentF hB ht st v rg0 kw
            ((base + (exprCode base loop e0).length + (kwargsCode (base + (exprCode base loop e0).length) loop kwargs).length), (base + (exprCode base loop e0).length + (kwargsCode (base + (exprCode base loop e0).length) loop kwargs).length)) hd hsp0
          cases hb : applyTest name v with
          | ok r =>
            rw [hb] at hF
            simp only [Except.map]
            exact .ok_intro (tr0 ++ tr1 ++ [_] ++ [_]) _ (((hrun0.trans hrun1).trans hrunB).trans hF)
              (by bnd) (spanOk_own hentF)
              ((((hw0.mono (Nat.le_refl _) (by bnd)).append (hw1.mono (by bnd) (by bnd))).append
                (Within.single (by bnd) (by bnd))).append (Within.single (by bnd) (by bnd)))
              (by bnd)
          | error err =>
            rw [hb] at hF
            simp only [Except.map]
            intro hrep
            obtain ⟨re, hf, hm⟩ := hF hrep
            exact ⟨tr0 ++ tr1 ++ [_] ++ [_], re, ((hrun0.trans hrun1).trans hrunB).fails hf, hm,
              ((((hw0.mono (Nat.le_refl _) (by bnd)).append (hw1.mono (by bnd) (by bnd))).append
                (Within.single (by bnd) (by bnd))).append (Within.single (by bnd) (by bnd))),
              by bnd⟩
    | @functionCall name kwargs hkw hnd =>
      intro base loop st sc hsc hcode
      simp only [exprCode] at hcode ⊢
      rw [CodeAt.append] at hcode
      obtain ⟨hc1, hc2⟩ := hcode
      simp only [CodeAt, ← Nat.add_assoc] at hc2
      obtain ⟨hentB, hentF, _⟩ := hc2
      simp only [List.length_append, List.length_cons, List.length_nil, ← Nat.add_assoc]
      have IH1 := H.kw kwargs hkw base loop st sc hsc hc1
      cases hr1 : evalKwargs fuel eenv sc kwargs with
      | error err =>
        have hval : evalExpr (fuel + 1) eenv sc (.functionCall name kwargs) = .error err := by
          simp only [evalExpr, hr1]
        rw [hval]
        rw [hr1] at IH1
        exact ExprOutcome.error_of_sub (show ExprOutcome venv vm c lf (.error err) _ _ _ from IH1)
          (Run.nil _ _) Within.nil (Nat.le_refl _) (by bnd) (by bnd)
      | ok kw =>
        have hval : evalExpr (fuel + 1) eenv sc (.functionCall name kwargs)
            = applyFunction name kw := by
          simp only [evalExpr, hr1]
        rw [hval]
        rw [hr1] at IH1
        obtain ⟨tr1, stk, hrun1, hstk, hw1, hl1⟩ := IH1
        have hnames := evalKwargs_names eenv sc kwargs fuel kw hr1
        have hd : (kw.map (·.1)).Nodup := by rw [hnames]; exact hnd
        have hlen : kwargs.length = kw.length := by
          have := congrArg List.length hnames; simpa using this.symm
        have hrunB := run_buildKwargs (venv := venv) (vm := vm) hentB st kw stk hlen hstk
        have hF := function_sim hentF hB ht st kw ((base + (kwargsCode base loop kwargs).length), (base + (kwargsCode base loop kwargs).length)) hd
        cases hb : applyFunction name kw with
        | ok r =>
          rw [hb] at hF
          exact .ok_intro (tr1 ++ [_] ++ [_]) _ ((hrun1.trans hrunB).trans hF)
            (by bnd) (spanOk_own hentF)
            (((hw1.mono (Nat.le_refl _) (by bnd)).append
              (Within.single (by bnd) (by bnd))).append (Within.single (by bnd) (by bnd)))
            (by bnd)
        | error err =>
          rw [hb] at hF
          intro hrep
          obtain ⟨re, hf, hm⟩ := hF hrep
          exact ⟨tr1 ++ [_] ++ [_], re, (hrun1.trans hrunB).fails hf, hm,
            (((hw1.mono (Nat.le_refl _) (by bnd)).append
              (Within.single (by bnd) (by bnd))).append (Within.single (by bnd) (by bnd))),
            by bnd⟩

    | @compr e0 target key value cond hlf he0 htarget hcond =>
      intro base loop st sc hsc hcode
      rw [exprCode_compr] at hcode ⊢
      rw [CodeAt.append, CodeAt.append] at hcode
      obtain ⟨⟨hcP, hcL⟩, hcE⟩ := hcode
      have hentE := CodeAt.single.mp hcE
      simp only [List.length_append, ← Nat.add_assoc] at hentE
      simp only [comprPre] at hcP
      rw [CodeAt.append, CodeAt.append, CodeAt.append] at hcP
      obtain ⟨⟨⟨hcB, hcT⟩, hcS⟩, hcK⟩ := hcP
      have hentB := CodeAt.single.mp hcB
      simp only [CodeAt, List.length_append, List.length_singleton, ← Nat.add_assoc] at hcS
      simp only [List.length_append, List.length_singleton, List.length_cons, List.length_nil,
        ← Nat.add_assoc, Nat.add_zero] at hcT hcK
      obtain ⟨hentS, hentV, _⟩ := hcS
      have hnb : ∀ {n m : Nat}, lf = true → n ≤ m := fun h => by rw [hlf] at h; cases h
      -- BuildList(0)
      have hrunB := run_buildList0 (venv := venv) (vm := vm) hentB st
      have hspB : SpanOk c (base, base) := spanOk_own hentB
      -- the iterable
      have IHt : ExprOutcome venv vm c lf (evalExpr fuel eenv sc target) _ _
          (st.push (.arr []) (base, base)) :=
        ih target htarget _ loop (st.push (.arr []) (base, base)) sc hsc hcT
      have hlenP : (comprPre base loop key value target).length
          = 1 + (exprCode (base + 1) loop target).length + 2 + (keyStore key).length := by
        simp only [comprPre, List.length_append, List.length_singleton, List.length_cons,
          List.length_nil]
      have htot : (comprPre base loop key value target
            ++ comprLoop (base + (comprPre base loop key value target).length) loop e0 cond
            ++ [ns .popLoop]).length
          = (comprPre base loop key value target).length
            + (comprLoop (base + (comprPre base loop key value target).length) loop e0 cond).length + 1 := by
        simp only [List.length_append, List.length_singleton]
      have hpos : Within base (base + (comprPre base loop key value target
          ++ comprLoop (base + (comprPre base loop key value target).length) loop e0 cond
          ++ [ns .popLoop]).length) [base] :=
        Within.single (Nat.le_refl _) (by rw [htot]; omega)
      cases hrt : evalExpr fuel eenv sc target with
      | error err =>
        have hval : evalExpr (fuel + 1) eenv sc (.listComprehension e0 key value target cond)
            = .error err := by simp only [evalExpr, hrt]
        rw [hval]
        rw [hrt] at IHt
        exact IHt.error_of_sub hrunB hpos (by omega) (by rw [htot]; omega) hnb
      | ok tv =>
        rw [hrt] at IHt
        obtain ⟨trT, rgT, hrunT, hspT, hwT, _⟩ := IHt
        have hS := startIterate_sim (compr := true) hentS ht (st.push (.arr []) (base, base))
          tv rgT hspT
        have hwide : ∀ {tr : List Nat} {lo hi : Nat}, Within lo hi tr → base ≤ lo →
            hi ≤ base + (comprPre base loop key value target
              ++ comprLoop (base + (comprPre base loop key value target).length) loop e0 cond
              ++ [ns .popLoop]).length →
            Within base (base + (comprPre base loop key value target
              ++ comprLoop (base + (comprPre base loop key value target).length) loop e0 cond
              ++ [ns .popLoop]).length) tr := fun h h1 h2 => h.mono h1 h2
        cases hit : iterItems tv with
        | none =>
          have hval : evalExpr (fuel + 1) eenv sc (.listComprehension e0 key value target cond)
              = .error .iteration := by simp only [evalExpr, hrt, hit]
          rw [hval]
          rw [hit] at hS
          exact .error_intro ([base] ++ trT ++ [_]) .iteration ((hrunB.trans hrunT).fails hS) rfl
            ((hpos.append (hwide hwT (by omega) (by rw [htot]; omega))).append
              (Within.single (by omega) (by rw [htot]; omega))) hnb
        | some items =>
          rw [hit] at hS
          simp only at hS
          by_cases hk : (key.isSome && !tv.isMap) = true
          · have hval : evalExpr (fuel + 1) eenv sc (.listComprehension e0 key value target cond)
                = .error .iteration := by simp only [evalExpr, hrt, hit, hk, if_true]
            rw [hval]
            rw [if_pos hk] at hS
            exact .error_intro ([base] ++ trT ++ [_]) .iteration ((hrunB.trans hrunT).fails hS) rfl
              ((hpos.append (hwide hwT (by omega) (by rw [htot]; omega))).append
                (Within.single (by omega) (by rw [htot]; omega))) hnb
          · rw [if_neg hk] at hS
            -- the loop variables
            have hV := run_storeLocal (venv := venv) (vm := vm) hentV
              { st.push (.arr []) (base, base) with
                scope := st.scope.pushLoop (ForLoop.new items true) }
              (ForLoop.new items true) st.scope.forLoops (by simp)
            simp only [setTopLoop_pushLoop] at hV
            -- `l`: the loop both models enter with
            obtain ⟨l, trK, hrunK, hlE, hwK, hlenK⟩ : ∃ (l : ForLoop) (trK : List Nat),
                Run venv vm c (base + 1 + (exprCode (base + 1) loop target).length + 1 + 1)
                  { st.push (.arr []) (base, base) with
                    scope := st.scope.pushLoop ((ForLoop.new items true).storeLocalName value) }
                  trK (base + (comprPre base loop key value target).length)
                  { st.push (.arr []) (base, base) with scope := st.scope.pushLoop l }
                ∧ l = (match key with
                    | none => (ForLoop.new items true).storeLocalName value
                    | some k => ((ForLoop.new items true).storeLocalName value).storeLocalName k)
                ∧ Within (base + 1 + (exprCode (base + 1) loop target).length + 1 + 1)
                    (base + (comprPre base loop key value target).length) trK
                ∧ trK.length = (keyStore key).length := by
              cases key with
              | none =>
                refine ⟨_, [], (Run.nil _ _).cast ?_, rfl, Within.nil, rfl⟩
                rw [hlenP]; simp only [keyStore, List.length_nil]; omega
              | some k =>
                simp only [keyStore, CodeAt, List.length_append, List.length_singleton,
                  List.length_cons, List.length_nil, ← Nat.add_assoc] at hcK
                have hK := run_storeLocal (venv := venv) (vm := vm) hcK.1
                  { st.push (.arr []) (base, base) with
                    scope := st.scope.pushLoop ((ForLoop.new items true).storeLocalName value) }
                  ((ForLoop.new items true).storeLocalName value) st.scope.forLoops (by simp)
                simp only [setTopLoop_pushLoop] at hK
                refine ⟨_, [_], hK.cast ?_, rfl, Within.single (by omega) ?_, rfl⟩
                · rw [hlenP]; simp only [keyStore, List.length_singleton]; omega
                · rw [hlenP]; simp only [keyStore, List.length_singleton]; omega
            -- the loop
            have hscL : ScopeSim (sc.pushLoop l) (st.scope.pushLoop l) := hsc.pushLoop (LoopSim.refl l)
            have IHL := H.compr e0 cond he0 hcond _ loop
              { st with scope := st.scope.pushLoop l } (sc.pushLoop l) [] (base, base) hscL hcL
            have hval : evalExpr (fuel + 1) eenv sc (.listComprehension e0 key value target cond)
                = (evalCompr fuel eenv (sc.pushLoop l) e0 cond []).map Value.arr := by
              simp only [evalExpr, hrt, hit, hk, Bool.false_eq_true, if_false]
              rw [hlE]
              cases key <;> rfl
            rw [hval]
            have hpre : Run venv vm c base st
                ([base] ++ trT ++ [base + 1 + (exprCode (base + 1) loop target).length] ++ [base + 1 + (exprCode (base + 1) loop target).length + 1] ++ trK)
                (base + (comprPre base loop key value target).length)
                { st.push (.arr []) (base, base) with scope := st.scope.pushLoop l } :=
              (((hrunB.trans hrunT).trans hS).trans hV).trans hrunK
            have hwpre : Within base (base + (comprPre base loop key value target
                  ++ comprLoop (base + (comprPre base loop key value target).length) loop e0 cond
                  ++ [ns .popLoop]).length)
                ([base] ++ trT ++ [base + 1 + (exprCode (base + 1) loop target).length] ++ [base + 1 + (exprCode (base + 1) loop target).length + 1] ++ trK) :=
              ((((hpos.append (hwide hwT (by omega) (by rw [htot]; omega))).append
                (Within.single (by omega) (by rw [htot]; omega))).append
                (Within.single (by omega) (by rw [htot]; omega))).append
                (hwide hwK (by omega) (by rw [htot]; omega)))
            cases hrc : evalCompr fuel eenv (sc.pushLoop l) e0 cond [] with
            | error err =>
              rw [hrc] at IHL
              simp only [Except.map]
              intro hrep
              obtain ⟨trL, re, hf, hm, hwL⟩ := IHL hrep
              exact ⟨_, re, hpre.fails hf, hm,
                hwpre.append (hwide hwL (by omega) (by rw [htot]; omega)), hnb⟩
            | ok res =>
              rw [hrc] at IHL
              obtain ⟨trL, sc', hrunL, hpop, hwL⟩ := IHL
              simp only [Except.map]
              have hE := run_popLoop (venv := venv) (vm := vm) hentE
                { st.push (.arr res) (base, base) with scope := sc' }
              have hpop' : sc'.popLoop = st.scope := by
                rw [hpop]; exact popLoop_pushLoop _ _
              have hfin : ({ st.push (.arr res) (base, base) with scope := sc'.popLoop } : State)
                  = st.push (.arr res) (base, base) := by
                rw [hpop']; rfl
              have hrunAll := (hpre.trans hrunL).trans hE
              exact .ok_intro _ (base, base) (by rw [← hfin]; exact hrunAll) (by rw [htot]; omega) hspB
                ((hwpre.append (hwide hwL (by omega) (by rw [htot]; omega))).append
                  (Within.single (by omega) (by rw [htot]; omega))) hnb

theorem compr_step (fuel : Nat) (H : SimAt venv vm c lf eenv fuel) :
    ∀ (e : Expr) (cond : Option Expr), InCore lf e → (∀ x, cond = some x → InCore lf x) →
    ∀ (startIdx : Nat) (loop : Option Nat) (st : State) (sc : Scope) (acc : List Value)
      (rl : SpanRange), ScopeSim sc st.scope →
    CodeAt c startIdx (comprLoop startIdx loop e cond) →
    ComprOutcome venv vm c (evalCompr (fuel + 1) eenv sc e cond acc) startIdx
      (comprLoop startIdx loop e cond).length st acc rl := by
  intro e cond he hcond startIdx loop st sc acc rl hsc hcode
  have hlen : (comprLoop startIdx loop e cond).length = 1 + (comprBody startIdx loop e cond).length + 1 := by
    simp only [comprLoop, List.length_append, List.length_singleton]
  have hcode' := hcode
  simp only [comprLoop] at hcode'
  rw [CodeAt.append, CodeAt.append] at hcode'
  obtain ⟨⟨hcI, hcB⟩, hcJ⟩ := hcode'
  have hentI := CodeAt.single.mp hcI
  have hentJ := CodeAt.single.mp hcJ
  simp only [List.length_append, List.length_singleton, ← Nat.add_assoc] at hentJ hcB
  simp only [evalCompr]
  have hloops : LoopsSim sc.forLoops st.scope.forLoops := hsc.forLoops
  cases hlE : sc.forLoops with
  | nil => intro h; simp [reportable] at h
  | cons l ls =>
    cases hlV : st.scope.forLoops with
    | nil => rw [hlE, hlV] at hloops; exact hloops.elim
    | cons lv lvs =>
      rw [hlE, hlV] at hloops
      have hls : LoopSim l lv := hloops.1
      simp only
      rcases hls.iterate (t := startIdx + 1 + (comprBody startIdx loop e cond).length + 1) (by omega) with
        ⟨h1, h2⟩ | ⟨a, b, h1, h2, hab⟩
      · -- the loop is over
        simp only [h1]
        refine ⟨[startIdx], st.scope,
          (run_iterate_over hentI (st.push (.arr acc) rl) lv lvs hlV h2).cast (by rw [hlen]; omega),
          rfl, Within.single (Nat.le_refl _) (by rw [hlen]; omega)⟩
      · simp only [h1]
        have hsc1 : ScopeSim (sc.setTopLoop a) (st.scope.setTopLoop b) := hsc.setTopLoop hab
        have hrunI : Run venv vm c startIdx (st.push (.arr acc) rl) [startIdx] (startIdx + 1)
            (({ st with scope := st.scope.setTopLoop b } : State).push (.arr acc) rl) :=
          run_iterate_next hentI (st.push (.arr acc) rl) lv b lvs hlV h2
        have hpopT : ∀ (sc' : Scope), sc'.popLoop = (st.scope.setTopLoop b).popLoop →
            sc'.popLoop = st.scope.popLoop := fun sc' h => by rw [h, popLoop_setTopLoop]
        have hwI : Within startIdx (startIdx + (comprLoop startIdx loop e cond).length) [startIdx] :=
          Within.single (Nat.le_refl _) (by rw [hlen]; omega)
        -- the tail of every iteration: `Jump(start_idx)`, then the rest of the loop
        have tailK : ∀ (acc' : List Value) (tr0 : List Nat),
            Run venv vm c startIdx (st.push (.arr acc) rl) tr0
              (startIdx + 1 + (comprBody startIdx loop e cond).length)
              (({ st with scope := st.scope.setTopLoop b } : State).push (.arr acc') rl) →
            Within startIdx (startIdx + (comprLoop startIdx loop e cond).length) tr0 →
            ComprOutcome venv vm c (evalCompr fuel eenv (sc.setTopLoop a) e cond acc') startIdx
              (comprLoop startIdx loop e cond).length st acc rl := by
          intro acc' tr0 hrun0 hw0
          have hJ := run_jump (venv := venv) (vm := vm) hentJ
            (({ st with scope := st.scope.setTopLoop b } : State).push (.arr acc') rl)
          have IH := H.compr e cond he hcond startIdx loop { st with scope := st.scope.setTopLoop b }
            (sc.setTopLoop a) acc' rl hsc1 hcode
          cases hr : evalCompr fuel eenv (sc.setTopLoop a) e cond acc' with
          | error err =>
            rw [hr] at IH
            intro hrep
            obtain ⟨trL, re, hf, hm, hwL⟩ := IH hrep
            exact ⟨tr0 ++ [_] ++ trL, re, (hrun0.trans hJ).fails hf, hm,
              (hw0.append (Within.single (by omega) (by rw [hlen]; omega))).append hwL⟩
          | ok res =>
            rw [hr] at IH
            obtain ⟨trL, sc', hrunL, hpop, hwL⟩ := IH
            exact ⟨tr0 ++ [_] ++ trL, sc', (hrun0.trans hJ).trans hrunL, hpopT sc' hpop,
              (hw0.append (Within.single (by omega) (by rw [hlen]; omega))).append hwL⟩
        cases cond with
        | none =>
          simp only
          rw [comprBody_none] at hcB
          rw [CodeAt.append] at hcB
          obtain ⟨hcE, hcA⟩ := hcB
          have hentA := CodeAt.single.mp hcA
          have hbl : (comprBody startIdx loop e none).length = (exprCode (startIdx + 1) loop e).length + 1 := by
            rw [comprBody_none]; simp only [List.length_append, List.length_singleton]
          have IHe : ExprOutcome venv vm c lf (evalExpr fuel eenv (sc.setTopLoop a) e) _ _
              (({ st with scope := st.scope.setTopLoop b } : State).push (.arr acc) rl) :=
            H.expr e he _ loop (({ st with scope := st.scope.setTopLoop b } : State).push (.arr acc) rl)
              (sc.setTopLoop a) hsc1 hcE
          cases hre : evalExpr fuel eenv (sc.setTopLoop a) e with
          | error err =>
            rw [hre] at IHe
            intro hrep
            obtain ⟨trE, re, hf, hm, hwE, _⟩ := IHe hrep
            exact ⟨[startIdx] ++ trE, re, hrunI.fails hf, hm,
              hwI.append (hwE.mono (by omega) (by rw [hlen, hbl]; omega))⟩
          | ok x =>
            rw [hre] at IHe
            obtain ⟨trE, rgE, hrunE, _, hwE, _⟩ := IHe
            have hA := run_appendToList (venv := venv) (vm := vm) hentA
              { st with scope := st.scope.setTopLoop b } acc rl x rgE
            simp only
            exact tailK (acc ++ [x]) ([startIdx] ++ trE ++ [_])
              (((hrunI.trans hrunE).trans hA).cast (by rw [hbl]; omega))
              ((hwI.append (hwE.mono (by omega) (by rw [hlen, hbl]; omega))).append
                (Within.single (by omega) (by rw [hlen, hbl]; omega)))
        | some cnd =>
          have hcnd : InCore lf cnd := hcond cnd rfl
          rw [comprBody_some] at hcB
          rw [CodeAt.append, CodeAt.append, CodeAt.append] at hcB
          obtain ⟨⟨⟨hcC, hcP⟩, hcE⟩, hcA⟩ := hcB
          have hentP := CodeAt.single.mp hcP
          have hentA := CodeAt.single.mp hcA
          simp only [List.length_append, List.length_singleton, ← Nat.add_assoc] at hcE hentA
          have hbl : (comprBody startIdx loop e (some cnd)).length
              = (exprCode (startIdx + 1) loop cnd).length + 1
                + (exprCode (startIdx + 1 + (exprCode (startIdx + 1) loop cnd).length + 1) loop e).length + 1 := by
            rw [comprBody_some]; simp only [List.length_append, List.length_singleton]
          have IHc : ExprOutcome venv vm c lf (evalExpr fuel eenv (sc.setTopLoop a) cnd) _ _
              (({ st with scope := st.scope.setTopLoop b } : State).push (.arr acc) rl) :=
            H.expr cnd hcnd _ loop (({ st with scope := st.scope.setTopLoop b } : State).push (.arr acc) rl)
              (sc.setTopLoop a) hsc1 hcC
          simp only
          cases hrc : evalExpr fuel eenv (sc.setTopLoop a) cnd with
          | error err =>
            rw [hrc] at IHc
            simp only [Except.map]
            intro hrep
            obtain ⟨trC, re, hf, hm, hwC, _⟩ := IHc hrep
            exact ⟨[startIdx] ++ trC, re, hrunI.fails hf, hm,
              hwI.append (hwC.mono (by omega) (by rw [hlen, hbl]; omega))⟩
          | ok cv =>
            rw [hrc] at IHc
            obtain ⟨trC, rgC, hrunC, _, hwC, _⟩ := IHc
            have hP := run_popJumpIfFalse (venv := venv) (vm := vm) hentP
              (({ st with scope := st.scope.setTopLoop b } : State).push (.arr acc) rl) cv rgC
            simp only [Except.map]
            cases htc : cv.isTruthy with
            | false =>
              simp only [htc, Bool.false_eq_true, if_false] at hP
              simp only
              exact tailK acc ([startIdx] ++ trC ++ [_])
                (((hrunI.trans hrunC).trans hP).cast (by rw [hbl]; omega))
                ((hwI.append (hwC.mono (by omega) (by rw [hlen, hbl]; omega))).append
                  (Within.single (by omega) (by rw [hlen, hbl]; omega)))
            | true =>
              simp only [htc, if_true] at hP
              simp only
              have IHe : ExprOutcome venv vm c lf (evalExpr fuel eenv (sc.setTopLoop a) e) _ _
                  (({ st with scope := st.scope.setTopLoop b } : State).push (.arr acc) rl) :=
                H.expr e he _ loop (({ st with scope := st.scope.setTopLoop b } : State).push (.arr acc) rl)
                  (sc.setTopLoop a) hsc1 hcE
              cases hre : evalExpr fuel eenv (sc.setTopLoop a) e with
              | error err =>
                rw [hre] at IHe
                intro hrep
                obtain ⟨trE, re, hf, hm, hwE, _⟩ := IHe hrep
                exact ⟨[startIdx] ++ trC ++ [_] ++ trE, re, ((hrunI.trans hrunC).trans hP).fails hf, hm,
                  ((hwI.append (hwC.mono (by omega) (by rw [hlen, hbl]; omega))).append
                    (Within.single (by omega) (by rw [hlen, hbl]; omega))).append
                    (hwE.mono (by omega) (by rw [hlen, hbl]; omega))⟩
              | ok x =>
                rw [hre] at IHe
                obtain ⟨trE, rgE, hrunE, _, hwE, _⟩ := IHe
                have hA := run_appendToList (venv := venv) (vm := vm) hentA
                  { st with scope := st.scope.setTopLoop b } acc rl x rgE
                simp only
                exact tailK (acc ++ [x]) ([startIdx] ++ trC ++ [_] ++ trE ++ [_])
                  (((((hrunI.trans hrunC).trans hP).trans hrunE).trans hA).cast (by rw [hbl]; omega))
                  (((((hwI.append (hwC.mono (by omega) (by rw [hlen, hbl]; omega))).append
                    (Within.single (by omega) (by rw [hlen, hbl]; omega))).append
                    (hwE.mono (by omega) (by rw [hlen, hbl]; omega))).append
                    (Within.single (by omega) (by rw [hlen, hbl]; omega))))

theorem kw_step (fuel : Nat) (H : SimAt venv vm c lf eenv fuel) :
    ∀ (kwargs : List (String × Expr)), (∀ p ∈ kwargs, InCore lf p.2) →
    ∀ (base : Nat) (loop : Option Nat) (st : State) (sc : Scope), ScopeSim sc st.scope →
    CodeAt c base (kwargsCode base loop kwargs) →
    KwOutcome venv vm c lf (evalKwargs (fuel + 1) eenv sc kwargs) base
      (kwargsCode base loop kwargs).length st := by
  intro kwargs hkw base loop st sc hsc hcode
  cases kwargs with
  | nil =>
    simp only [evalKwargs, kwargsCode, List.length_nil]
    exact ⟨[], st.stack, Run.nil _ _, MapStack.nil _, Within.nil, by bnd⟩
  | cons entry rest =>
    obtain ⟨n, e⟩ := entry
    have hrest : ∀ p ∈ rest, InCore lf p.2 := fun p hp => hkw p (by simp [hp])
    have he : InCore lf e := hkw (n, e) (by simp)
    simp only [kwargsCode] at hcode ⊢
    simp only [evalKwargs]
    rw [CodeAt.append, CodeAt.append] at hcode
    obtain ⟨⟨hc0, hc1⟩, hc2⟩ := hcode
    have hent := CodeAt.single.mp hc0
    simp only [List.length_append, List.length_singleton, ← Nat.add_assoc] at hc1 hc2 ⊢
    have hrun0 := run_loadConst (venv := venv) (vm := vm) hent st
    have IH1 : ExprOutcome venv vm c lf (evalExpr fuel eenv sc e) _ _
        (st.push (nameValue n) (base, base)) :=
      H.expr e he _ loop (st.push (nameValue n) (base, base)) sc hsc hc1
    cases hr1 : evalExpr fuel eenv sc e with
    | error err =>
      rw [hr1] at IH1
      exact ExprOutcome.error_of_sub IH1 hrun0 (Within.single (Nat.le_refl _) (by bnd)) (by bnd)
        (by bnd) (by bnd)
    | ok v =>
      rw [hr1] at IH1
      obtain ⟨tr1, rg1, hrun1, hsp1, hw1, hl1⟩ := IH1
      have IH2 : KwOutcome venv vm c lf (evalKwargs fuel eenv sc rest) _ _
          ((st.push (nameValue n) (base, base)).push v rg1) :=
        H.kw rest hrest _ loop ((st.push (nameValue n) (base, base)).push v rg1) sc hsc hc2
      simp only
      cases hr2 : evalKwargs fuel eenv sc rest with
      | error err =>
        rw [hr2] at IH2
        simp only [Except.map]
        exact ExprOutcome.error_of_sub (show ExprOutcome venv vm c lf (.error err) _ _ _ from IH2)
          (hrun0.trans hrun1)
          ((Within.single (Nat.le_refl _) (by bnd)).append (hw1.mono (by bnd) (by bnd)))
          (by bnd) (by bnd) (by bnd)
      | ok kw' =>
        rw [hr2] at IH2
        obtain ⟨tr2, stk, hrun2, hstk, hw2, hl2⟩ := IH2
        simp only [Except.map]
        refine ⟨[base] ++ tr1 ++ tr2, stk, ((hrun0.trans hrun1).trans hrun2).cast (by bnd), ?_,
          ((Within.single (Nat.le_refl _) (by bnd)).append (hw1.mono (by bnd) (by bnd))).append
            (hw2.mono (by bnd) (by bnd)),
          by bnd⟩
        exact MapStack.consKV (k := Key.str n.toList) (rk := (base, base)) hstk

theorem mapE_step (fuel : Nat) (H : SimAt venv vm c lf eenv fuel) :
    ∀ (entries : List MapEntry), (∀ en ∈ entries, InCore lf (mapEntryExpr en)) →
    ∀ (base : Nat) (loop : Option Nat) (st : State) (sc : Scope), ScopeSim sc st.scope →
    CodeAt c base (mapItemsCode base loop entries) →
    MapOutcome venv vm c lf (evalMapEntries (fuel + 1) eenv sc entries) base
      (mapItemsCode base loop entries).length st := by
  intro entries hentries base loop st sc hsc hcode
  cases entries with
  | nil =>
    simp only [evalMapEntries, mapItemsCode, List.length_nil]
    exact ⟨[], st.stack, Run.nil _ _, MapStack.nil _, Within.nil, by bnd⟩
  | cons entry rest =>
    have hrest : ∀ en ∈ rest, InCore lf (mapEntryExpr en) := fun en hen => hentries en (by simp [hen])
    cases entry with
    | keyValue k e =>
      have he : InCore lf e := hentries (.keyValue k e) (by simp)
      simp only [mapItemsCode] at hcode ⊢
      simp only [evalMapEntries]
      rw [CodeAt.append, CodeAt.append] at hcode
      obtain ⟨⟨hc0, hc1⟩, hc2⟩ := hcode
      have hent := CodeAt.single.mp hc0
      simp only [List.length_append, List.length_singleton, ← Nat.add_assoc] at hc1 hc2 ⊢
      have hrun0 := run_loadConst (venv := venv) (vm := vm) hent st
      have IH1 : ExprOutcome venv vm c lf (evalExpr fuel eenv sc e) _ _
          (st.push (keyValue k) (base, base)) :=
        H.expr e he _ loop (st.push (keyValue k) (base, base)) sc hsc hc1
      cases hr1 : evalExpr fuel eenv sc e with
      | error err =>
        rw [hr1] at IH1
        exact ExprOutcome.error_of_sub IH1 hrun0 (Within.single (Nat.le_refl _) (by bnd)) (by bnd)
          (by bnd) (by bnd)
      | ok v =>
        rw [hr1] at IH1
        obtain ⟨tr1, rg1, hrun1, hsp1, hw1, hl1⟩ := IH1
        have IH2 : MapOutcome venv vm c lf (evalMapEntries fuel eenv sc rest) _ _
            ((st.push (keyValue k) (base, base)).push v rg1) :=
          H.mapE rest hrest _ loop ((st.push (keyValue k) (base, base)).push v rg1) sc hsc hc2
        simp only
        cases hr2 : evalMapEntries fuel eenv sc rest with
        | error err =>
          rw [hr2] at IH2
          simp only [Except.map]
          exact ExprOutcome.error_of_sub (show ExprOutcome venv vm c lf (.error err) _ _ _ from IH2)
            (hrun0.trans hrun1)
            ((Within.single (Nat.le_refl _) (by bnd)).append (hw1.mono (by bnd) (by bnd)))
            (by bnd) (by bnd) (by bnd)
        | ok parts' =>
          rw [hr2] at IH2
          obtain ⟨tr2, stk, hrun2, hstk, hw2, hl2⟩ := IH2
          simp only [Except.map]
          exact ⟨[base] ++ tr1 ++ tr2, stk, ((hrun0.trans hrun1).trans hrun2).cast (by bnd),
            MapStack.consKV hstk,
            ((Within.single (Nat.le_refl _) (by bnd)).append (hw1.mono (by bnd) (by bnd))).append
              (hw2.mono (by bnd) (by bnd)),
            by bnd⟩
    | spread e =>
      have he : InCore lf e := hentries (.spread e) (by simp)
      simp only [mapItemsCode] at hcode ⊢
      simp only [evalMapEntries]
      rw [CodeAt.append] at hcode
      obtain ⟨hc1, hc2⟩ := hcode
      simp only [List.length_append]
      have IH1 := H.expr e he base loop st sc hsc hc1
      cases hr1 : evalExpr fuel eenv sc e with
      | error err =>
        rw [hr1] at IH1
        exact ExprOutcome.error_of_sub IH1 (Run.nil _ _) Within.nil (Nat.le_refl _) (by bnd)
          (by bnd)
      | ok v =>
        rw [hr1] at IH1
        obtain ⟨tr1, rg1, hrun1, hsp1, hw1, hl1⟩ := IH1
        have IH2 : MapOutcome venv vm c lf (evalMapEntries fuel eenv sc rest) _ _ (st.push v rg1) :=
          H.mapE rest hrest _ loop (st.push v rg1) sc hsc hc2
        simp only
        cases hr2 : evalMapEntries fuel eenv sc rest with
        | error err =>
          rw [hr2] at IH2
          simp only [Except.map]
          exact ExprOutcome.error_of_sub (show ExprOutcome venv vm c lf (.error err) _ _ _ from IH2) hrun1
            (hw1.mono (Nat.le_refl _) (by bnd)) (by bnd) (by bnd) (by bnd)
        | ok parts' =>
          rw [hr2] at IH2
          obtain ⟨tr2, stk, hrun2, hstk, hw2, hl2⟩ := IH2
          simp only [Except.map]
          exact ⟨tr1 ++ tr2, stk, (hrun1.trans hrun2).cast (by bnd), MapStack.consSpread hsp1 hstk,
            (hw1.mono (Nat.le_refl _) (by bnd)).append (hw2.mono (by bnd) (by bnd)),
            by bnd⟩

theorem arr_step (fuel : Nat) (H : SimAt venv vm c lf eenv fuel) :
    ∀ (items : List ArrayEntry), (∀ it ∈ items, InCore lf (entryExpr it)) →
    ∀ (base : Nat) (loop : Option Nat) (st : State) (sc : Scope), ScopeSim sc st.scope →
    CodeAt c base (arrayItemsCode base loop items) →
    ArrOutcome venv vm c lf (evalArrayEntries (fuel + 1) eenv sc items) base
      (arrayItemsCode base loop items).length st := by
  intro items hitems base loop st sc hsc hcode
  cases items with
  | nil =>
    simp only [evalArrayEntries, arrayItemsCode, List.length_nil]
    exact ⟨[], st.stack, Run.nil _ _, ArrStack.nil _, Within.nil, by bnd⟩
  | cons entry rest =>
    have key : ∀ (f : Bool) (e : Expr), InCore lf e →
        CodeAt c base (exprCode base loop e ++ arrayItemsCode (base + (exprCode base loop e).length) loop rest) →
        ArrOutcome venv vm c lf
          (match evalExpr fuel eenv sc e with
            | .error x => .error x
            | .ok v => (evalArrayEntries fuel eenv sc rest).map ((f, v) :: ·)) base
          (exprCode base loop e ++ arrayItemsCode (base + (exprCode base loop e).length) loop rest).length st := by
      intro f e he hcode
      rw [CodeAt.append] at hcode
      obtain ⟨hc1, hc2⟩ := hcode
      simp only [List.length_append]
      have IH1 := H.expr e he base loop st sc hsc hc1
      cases hr1 : evalExpr fuel eenv sc e with
      | error err =>
        rw [hr1] at IH1
        exact ExprOutcome.error_of_sub IH1 (Run.nil _ _) Within.nil (Nat.le_refl _) (by bnd)
          (by bnd)
      | ok v =>
        rw [hr1] at IH1
        obtain ⟨tr1, rg1, hrun1, hsp1, hw1, hl1⟩ := IH1
        have IH2 : ArrOutcome venv vm c lf (evalArrayEntries fuel eenv sc rest) _ _ (st.push v rg1) :=
          H.arr rest (fun it hit => hitems it (by simp [hit])) _ loop (st.push v rg1) sc hsc hc2
        simp only
        cases hr2 : evalArrayEntries fuel eenv sc rest with
        | error err =>
          rw [hr2] at IH2
          simp only [Except.map]
          exact ExprOutcome.error_of_sub (show ExprOutcome venv vm c lf (.error err) _ _ _ from IH2) hrun1
            (hw1.mono (Nat.le_refl _) (by bnd)) (by bnd) (by bnd) (by bnd)
        | ok parts' =>
          rw [hr2] at IH2
          obtain ⟨tr2, stk, hrun2, hstk, hw2, hl2⟩ := IH2
          simp only [Except.map]
          exact ⟨tr1 ++ tr2, stk, (hrun1.trans hrun2).cast (by bnd), ArrStack.cons hsp1 hstk,
            (hw1.mono (Nat.le_refl _) (by bnd)).append (hw2.mono (by bnd) (by bnd)),
            by bnd⟩
    cases entry with
    | item e =>
      simp only [arrayItemsCode] at hcode ⊢
      simp only [evalArrayEntries]
      exact key false e (hitems (.item e) (by simp)) hcode
    | spread e =>
      simp only [arrayItemsCode] at hcode ⊢
      simp only [evalArrayEntries]
      exact key true e (hitems (.spread e) (by simp)) hcode

theorem opt_step (fuel : Nat) (H : SimAt venv vm c lf eenv fuel) :
    ∀ (oe : Option Expr), (∀ x, oe = some x → InCore lf x) →
    ∀ (base : Nat) (loop : Option Nat) (w dv : Value) (st : State) (sc : Scope), ScopeSim sc st.scope →
    CodeAt c base (optExprCode base loop (.loadConst w) oe) →
    (∃ b, Tera.sliceBound dv = .ok b ∧ Vm.sliceBound w = .val b) →
    OptOutcome venv vm c lf (evalOpt (fuel + 1) eenv sc oe dv) base
      (optExprCode base loop (.loadConst w) oe).length st := by
  intro oe hoe base loop w dv st sc hsc hcode hb
  cases oe with
  | none =>
    simp only [optExprCode, CodeAt] at hcode
    simp only [evalOpt, optExprCode, List.length_singleton]
    exact ⟨[base], w, (base, base), run_loadConst hcode.1 st, .inr hb,
      Within.single (Nat.le_refl _) (by bnd), by bnd⟩
  | some e =>
    simp only [optExprCode] at hcode ⊢
    simp only [evalOpt]
    have h := H.expr e (hoe e rfl) base loop st sc hsc hcode
    cases hr : evalExpr fuel eenv sc e with
    | error err => rw [hr] at h; exact h
    | ok v =>
      rw [hr] at h
      obtain ⟨tr, rg, hrun, hsp, hw, hl⟩ := h
      exact ⟨tr, v, rg, hrun, .inl ⟨rfl, hsp⟩, hw, hl⟩

theorem simAt (hE : EnvRel venv eenv) (hB : BuiltinsRel venv eenv)
    (ht : reportTargetOk venv vm c = true) :
    ∀ fuel, SimAt venv vm c lf eenv fuel := by
  intro fuel
  induction fuel with
  | zero =>
    refine ⟨?_, ?_, ?_, ?_, ?_, ?_⟩
    · intro e _ base loop st sc _ _
      simp only [evalExpr]
      intro h; simp [reportable] at h
    · intro oe _ base loop w dv st sc _ _ _
      simp only [evalOpt]
      intro h; simp [reportable] at h
    · intro items _ base loop st sc _ _
      simp only [evalArrayEntries]
      intro h; simp [reportable] at h
    · intro entries _ base loop st sc _ _
      simp only [evalMapEntries]
      intro h; simp [reportable] at h
    · intro kwargs _ base loop st sc _ _
      simp only [evalKwargs]
      intro h; simp [reportable] at h
    · intro e cond _ _ startIdx loop st sc acc rl _ _
      simp only [evalCompr]
      intro h; simp [reportable] at h
  | succ fuel ih =>
    exact ⟨expr_step hE hB ht fuel ih, opt_step fuel ih, arr_step fuel ih, mapE_step fuel ih,
      kw_step fuel ih, compr_step fuel ih⟩

/-- the simulation theorem for expressions -/
theorem expr_sim (hE : EnvRel venv eenv) (hB : BuiltinsRel venv eenv)
    (ht : reportTargetOk venv vm c = true) :
    ∀ (fuel : Nat) (e : Expr), InCore lf e → ∀ (base : Nat) (loop : Option Nat) (st : State) (sc : Scope), ScopeSim sc st.scope →
      CodeAt c base (exprCode base loop e) →
      ExprOutcome venv vm c lf (evalExpr fuel eenv sc e) base (exprCode base loop e).length st :=
  fun fuel => (simAt hE hB ht fuel).expr

/-- the simulation theorem for keyword arguments (statements with arguments use it) -/
theorem kwargs_sim (hE : EnvRel venv eenv) (hB : BuiltinsRel venv eenv)
    (ht : reportTargetOk venv vm c = true) :
    ∀ (fuel : Nat) (kwargs : List (String × Expr)), (∀ p ∈ kwargs, InCore lf p.2) →
    ∀ (base : Nat) (loop : Option Nat) (st : State) (sc : Scope), ScopeSim sc st.scope →
    CodeAt c base (kwargsCode base loop kwargs) →
    KwOutcome venv vm c lf (evalKwargs fuel eenv sc kwargs) base
      (kwargsCode base loop kwargs).length st :=
  fun fuel => (simAt hE hB ht fuel).kw

end
end Tera.Refine
