/-
Compiler correctness (Props/Refine.lean), part 3: expressions.

`expr_sim`: for every expression of the core `InCore`, compiled at any index `base`
(`CodeAt c base (exprCode base loop e)`: the chunk may hold anything before and after), from any
VM state `st` (any value stack, any captures / output / block bookkeeping; the evaluator reads
`st.scope`, the very `Scope` the VM state holds):

* `evalExpr fuel eenv st.scope e = .ok v`  ⟹  the interpreter loop runs from `pc = base` to
  `pc = base + |code|`, ends in `st.push v rg` (the SAME state with exactly one more slot, holding
  `v`; `rg` is a span range both of whose ends carry a span), executes only instructions of
  `[base, base + |code|)`, at most `|code|` of them (= the step fuel needed);
* `evalExpr … = .error err`, `err` reportable  ⟹  the loop ends in a rendering error of the class
  of `err` (`errMatch`) after at most `|code|` instructions of that range — no panic, no
  `unmodelled`, no running out of fuel.

Induction on the evaluator's fuel (every recursive call of `evalExpr` is at `fuel`), generalised
over the code position, the loop context and the VM state.
-/
import TeraModel.Lemmas.RefineInstr2
namespace Tera.Refine
open Tera Tera.Vm Tera.Compiler

/-- The expressions `expr_sim` covers. -/
inductive InCore : Expr → Prop
  | const (v : Value) : InCore (.const v)
  | var (n : String) : InCore (.var n)
  | getAttr {e : Expr} (n : String) (opt : Bool) : InCore e → InCore (.getAttr e n opt)
  | unary {e : Expr} (op : UnaryOperator) : InCore e → InCore (.unary op e)
  /-- `* / // % + - ** < > <= >= == != ~ in` -/
  | binary {l r : Expr} (op : BinaryOperator) : strictOp op = true → InCore l → InCore r →
      InCore (.binary op l r)
  | and {l r : Expr} : InCore l → InCore r → InCore (.binary .And l r)
  | or {l r : Expr} : InCore l → InCore r → InCore (.binary .Or l r)
  | ternary {c t f : Expr} : InCore c → InCore t → InCore f → InCore (.ternary c t f)
  | getItem {e s : Expr} (opt : Bool) : InCore e → InCore s → InCore (.getItem e s opt)
  | slice {e : Expr} {start stop step : Option Expr} (opt : Bool) : InCore e →
      (∀ x, start = some x → InCore x) → (∀ x, stop = some x → InCore x) →
      (∀ x, step = some x → InCore x) → InCore (.slice e start stop step opt)

section
variable (rec : VmCtx → Chunk → State → RunRes) (venv : Vm.Env) (vm : VmCtx) (c : Chunk)

/-- What the VM does on the code (at `base`, `len` instructions) of an expression whose evaluator
result is `r`, started in state `st`. -/
def ExprOutcome (r : Except Err Value) (base len : Nat) (st : State) : Prop :=
  match r with
  | .ok v => ∃ tr rg, Run rec venv vm c base st tr (base + len) (st.push v rg) ∧ SpanOk c rg
      ∧ Within base (base + len) tr ∧ tr.length ≤ len
  | .error err => reportable err = true →
      ∃ tr re, Fails rec venv vm c base st tr re ∧ errMatch err re = true
        ∧ Within base (base + len) tr ∧ tr.length ≤ len
end

section
variable (rec : VmCtx → Chunk → State → RunRes) (venv : Vm.Env) (vm : VmCtx) (c : Chunk)

/-- The same for an optional slice bound (`optExprCode`): the slot pushed stands for the
evaluator's bound value (`BoundRel`: the compiler's default constants have no span and the default
step is `1i64` where the evaluator says `1u64`). -/
def OptOutcome (r : Except Err Value) (base len : Nat) (st : State) : Prop :=
  match r with
  | .ok v => ∃ tr w rg, Run rec venv vm c base st tr (base + len) (st.push w rg) ∧ BoundRel c v w rg
      ∧ Within base (base + len) tr ∧ tr.length ≤ len
  | .error err => reportable err = true →
      ∃ tr re, Fails rec venv vm c base st tr re ∧ errMatch err re = true
        ∧ Within base (base + len) tr ∧ tr.length ≤ len

variable (eenv : Tera.Env)

/-- the simulation statements at one level of evaluator fuel -/
structure SimAt (fuel : Nat) : Prop where
  expr : ∀ (e : Expr), InCore e → ∀ (base : Nat) (loop : Option Nat) (st : State),
    CodeAt c base (exprCode base loop e) →
    ExprOutcome rec venv vm c (evalExpr fuel eenv st.scope e) base (exprCode base loop e).length st
  opt : ∀ (oe : Option Expr), (∀ x, oe = some x → InCore x) →
    ∀ (base : Nat) (loop : Option Nat) (w dv : Value) (st : State),
    CodeAt c base (optExprCode base loop (.loadConst w) oe) →
    (∃ b, Tera.sliceBound dv = .ok b ∧ Vm.sliceBound w = .val b) →
    OptOutcome rec venv vm c (evalOpt fuel eenv st.scope oe dv) base
      (optExprCode base loop (.loadConst w) oe).length st
end

section
variable {rec : VmCtx → Chunk → State → RunRes} {venv : Vm.Env} {vm : VmCtx} {c : Chunk}
  {eenv : Tera.Env}

theorem ExprOutcome.ok_intro {v : Value} {base len : Nat} {st : State} (tr : List Nat)
    (rg : SpanRange) {pc' : Nat} (h : Run rec venv vm c base st tr pc' (st.push v rg))
    (hpc : pc' = base + len) (hsp : SpanOk c rg) (hw : Within base (base + len) tr)
    (hl : tr.length ≤ len) : ExprOutcome rec venv vm c (.ok v) base len st := by
  subst hpc
  exact ⟨tr, rg, h, hsp, hw, hl⟩

theorem ExprOutcome.error_intro {err : Err} {base len : Nat} {st : State} (tr : List Nat)
    (re : RErr) (h : Fails rec venv vm c base st tr re) (hm : errMatch err re = true)
    (hw : Within base (base + len) tr) (hl : tr.length ≤ len) :
    ExprOutcome rec venv vm c (.error err) base len st :=
  fun _ => ⟨tr, re, h, hm, hw, hl⟩

/-- a sub-expression's error, reached after the run `tr0`, is the whole expression's error -/
theorem ExprOutcome.error_of_sub {err : Err} {base len base1 len1 : Nat} {st st1 : State}
    {tr0 : List Nat} (hsub : ExprOutcome rec venv vm c (.error err) base1 len1 st1)
    (hrun : Run rec venv vm c base st tr0 base1 st1) (hw0 : Within base (base + len) tr0)
    (hb : base ≤ base1) (hl : base1 + len1 ≤ base + len) (hlen : tr0.length + len1 ≤ len) :
    ExprOutcome rec venv vm c (.error err) base len st := by
  intro hrep
  obtain ⟨tr, re, hf, hm, hw, hl1⟩ := hsub hrep
  refine ⟨tr0 ++ tr, re, hrun.fails hf, hm, hw0.append (hw.mono hb hl), ?_⟩
  simp only [List.length_append]; omega

/-- a sub-expression in tail position: reached by the run `tr0` that leaves the state as it was,
followed by the state-preserving run `tr2` to the end of the code -/
theorem ExprOutcome.tail {r : Except Err Value} {base len base1 len1 : Nat} {st : State}
    {tr0 tr2 : List Nat} (hsub : ExprOutcome rec venv vm c r base1 len1 st)
    (hpre : Run rec venv vm c base st tr0 base1 st) (hw0 : Within base (base + len) tr0)
    (hpost : ∀ st', Run rec venv vm c (base1 + len1) st' tr2 (base + len) st')
    (hw2 : Within base (base + len) tr2)
    (hb : base ≤ base1) (hl : base1 + len1 ≤ base + len)
    (hlen : tr0.length + len1 + tr2.length ≤ len) :
    ExprOutcome rec venv vm c r base len st := by
  cases r with
  | error err => exact ExprOutcome.error_of_sub hsub hpre hw0 hb hl (by omega)
  | ok v =>
    obtain ⟨tr1, rg, hrun, hsp, hw1, hl1⟩ := hsub
    refine ⟨tr0 ++ tr1 ++ tr2, rg, (hpre.trans hrun).trans (hpost _), hsp,
      (hw0.append (hw1.mono hb hl)).append hw2, ?_⟩
    simp only [List.length_append]; omega

theorem Run.cast {pc : Nat} {st : State} {tr : List Nat} {pc' pc'' : Nat} {st' : State}
    (h : Run rec venv vm c pc st tr pc' st') (e : pc' = pc'') : Run rec venv vm c pc st tr pc'' st' :=
  e ▸ h

/-! ### code shapes -/

theorem exprCode_strict (base : Nat) (loop : Option Nat) (op : BinaryOperator) (l r : Expr)
    (hop : strictOp op = true) :
    exprCode base loop (.binary op l r)
      = exprCode base loop l ++ exprCode (base + (exprCode base loop l).length) loop r
        ++ [sp (.binop op)] := by
  cases op <;> simp only [strictOp, Bool.false_eq_true] at hop <;> simp only [exprCode]

theorem evalExpr_strict_l (fuel : Nat) (eenv : Tera.Env) (sc : Scope) (op : BinaryOperator)
    (l r : Expr) (hop : strictOp op = true) (err : Err) (h1 : evalExpr fuel eenv sc l = .error err) :
    evalExpr (fuel + 1) eenv sc (.binary op l r) = .error err := by
  cases op <;> simp only [strictOp, Bool.false_eq_true] at hop <;> simp only [evalExpr, h1]

theorem evalExpr_strict_r (fuel : Nat) (eenv : Tera.Env) (sc : Scope) (op : BinaryOperator)
    (l r : Expr) (hop : strictOp op = true) (a : Value) (err : Err)
    (h1 : evalExpr fuel eenv sc l = .ok a) (h2 : evalExpr fuel eenv sc r = .error err) :
    evalExpr (fuel + 1) eenv sc (.binary op l r) = .error err := by
  cases op <;> simp only [strictOp, Bool.false_eq_true] at hop <;> simp only [evalExpr, h1, h2]

theorem evalExpr_strict_ok (fuel : Nat) (eenv : Tera.Env) (sc : Scope) (op : BinaryOperator)
    (l r : Expr) (hop : strictOp op = true) (a b : Value)
    (h1 : evalExpr fuel eenv sc l = .ok a) (h2 : evalExpr fuel eenv sc r = .ok b) :
    evalExpr (fuel + 1) eenv sc (.binary op l r) = binop eenv op a b := by
  cases op <;> simp only [strictOp, Bool.false_eq_true] at hop <;> simp only [evalExpr, h1, h2]

theorem exprCode_and (base : Nat) (loop : Option Nat) (l r : Expr) :
    exprCode base loop (.binary .And l r)
      = exprCode base loop l
        ++ [ns (.jumpIfFalseOrPop (base + (exprCode base loop l).length + 1
              + (exprCode (base + (exprCode base loop l).length + 1) loop r).length))]
        ++ exprCode (base + (exprCode base loop l).length + 1) loop r := by
  simp only [exprCode, if_true]

theorem exprCode_or (base : Nat) (loop : Option Nat) (l r : Expr) :
    exprCode base loop (.binary .Or l r)
      = exprCode base loop l
        ++ [ns (.jumpIfTrueOrPop (base + (exprCode base loop l).length + 1
              + (exprCode (base + (exprCode base loop l).length + 1) loop r).length))]
        ++ exprCode (base + (exprCode base loop l).length + 1) loop r := by
  simp only [exprCode, reduceCtorEq, if_false]

theorem evalExpr_getItem_ok (fuel : Nat) (eenv : Tera.Env) (sc : Scope) (e s : Expr) (opt : Bool)
    (a b : Value) (h1 : evalExpr fuel eenv sc e = .ok a) (h2 : evalExpr fuel eenv sc s = .ok b) :
    evalExpr (fuel + 1) eenv sc (.getItem e s opt) = itemTail opt a b := by
  simp only [evalExpr, h1, h2, itemTail]
  rfl

theorem evalExpr_slice_ok (fuel : Nat) (eenv : Tera.Env) (sc : Scope) (e : Expr)
    (start stop step : Option Expr) (opt : Bool) (a v1 v2 v3 : Value)
    (h0 : evalExpr fuel eenv sc e = .ok a) (h1 : evalOpt fuel eenv sc start .none = .ok v1)
    (h2 : evalOpt fuel eenv sc stop .none = .ok v2) (h3 : evalOpt fuel eenv sc step (.u64 1) = .ok v3) :
    evalExpr (fuel + 1) eenv sc (.slice e start stop step opt) = sliceTail opt a v1 v2 v3 := by
  simp only [evalExpr, h0, h1, h2, h3, sliceTail]
  rfl

theorem OptOutcome.error_to_expr {rec : VmCtx → Chunk → State → RunRes} {venv : Vm.Env}
    {vm : VmCtx} {c : Chunk} {err : Err} {base len : Nat} {st : State}
    (h : OptOutcome rec venv vm c (.error err) base len st) :
    ExprOutcome rec venv vm c (.error err) base len st := h

/-! ### the simulation -/

theorem expr_step (hE : EnvRel venv eenv) (ht : reportTargetOk venv vm c = true) (fuel : Nat)
    (H : SimAt rec venv vm c eenv fuel) :
    ∀ (e : Expr), InCore e → ∀ (base : Nat) (loop : Option Nat) (st : State),
      CodeAt c base (exprCode base loop e) →
      ExprOutcome rec venv vm c (evalExpr (fuel + 1) eenv st.scope e) base (exprCode base loop e).length st := by
  have ih := H.expr
  · intro e hcore
    cases hcore with
    | const v =>
      intro base loop st hcode
      simp only [exprCode, CodeAt] at hcode
      simp only [evalExpr, exprCode, List.length_singleton]
      exact .ok_intro [base] (base, base) (run_loadConst hcode.1 st) rfl (spanOk_own hcode.1)
        (Within.single (Nat.le_refl _) (by omega)) (by simp)
    | var n =>
      intro base loop st hcode
      simp only [exprCode, CodeAt] at hcode
      simp only [evalExpr, exprCode, List.length_singleton]
      cases hn : (n == "__tera_context")
      · simp only [Bool.false_eq_true, if_false]
        exact .ok_intro [base] (base, base) (run_loadName hcode.1 st hn) rfl (spanOk_own hcode.1)
          (Within.single (Nat.le_refl _) (by omega)) (by simp)
      · simp only [if_true]
        intro h; simp [reportable] at h
    | @getAttr e1 n opt h1 =>
      intro base loop st hcode
      simp only [exprCode] at hcode ⊢
      rw [CodeAt.append] at hcode
      obtain ⟨hc1, hc2⟩ := hcode
      have IH := ih e1 h1 base loop st hc1
      simp only [evalExpr, List.length_append, List.length_singleton]
      cases hr : evalExpr fuel eenv st.scope e1 with
      | error err =>
        rw [hr] at IH
        exact IH.error_of_sub (Run.nil _ _) Within.nil (Nat.le_refl _) (by omega) (by simp only [List.length_nil]; omega)
      | ok a =>
        rw [hr] at IH
        obtain ⟨tr1, rg1, hrun1, hsp1, hw1, hl1⟩ := IH
        have hent := CodeAt.single.mp hc2
        have hA := attr_sim (rec := rec) hent ht st a rg1 hsp1
        have hown : SpanOk c (base + (exprCode base loop e1).length, base + (exprCode base loop e1).length) := by
          cases opt <;> exact spanOk_own hent
        simp only
        by_cases hb1 : (opt && (a.isUndef || a.isNone)) = true
        · rw [if_pos hb1] at hA ⊢
          exact .ok_intro (tr1 ++ [_]) _ (hrun1.trans hA) (by omega) hown
            ((hw1.mono (Nat.le_refl _) (by omega)).append (Within.single (by omega) (by omega)))
            (by simp only [List.length_append, List.length_singleton]; omega)
        · rw [if_neg hb1] at hA ⊢
          by_cases hb2 : a.isUndef = true
          · rw [if_pos hb2] at hA ⊢
            exact .error_intro (tr1 ++ [_]) _ (hrun1.fails hA) (by simp [errMatch])
              ((hw1.mono (Nat.le_refl _) (by omega)).append (Within.single (by omega) (by omega)))
              (by simp only [List.length_append, List.length_singleton]; omega)
          · rw [if_neg hb2] at hA ⊢
            exact .ok_intro (tr1 ++ [_]) _ (hrun1.trans hA) (by omega) hown
              ((hw1.mono (Nat.le_refl _) (by omega)).append (Within.single (by omega) (by omega)))
              (by simp only [List.length_append, List.length_singleton]; omega)
    | @unary e1 op h1 =>
      intro base loop st hcode
      simp only [exprCode] at hcode ⊢
      rw [CodeAt.append] at hcode
      obtain ⟨hc1, hc2⟩ := hcode
      have IH := ih e1 h1 base loop st hc1
      have hent := CodeAt.single.mp hc2
      simp only [List.length_append, List.length_singleton]
      cases op with
      | Not =>
        simp only [evalExpr]
        cases hr : evalExpr fuel eenv st.scope e1 with
        | error err =>
          rw [hr] at IH
          exact IH.error_of_sub (Run.nil _ _) Within.nil (Nat.le_refl _) (by omega) (by simp only [List.length_nil]; omega)
        | ok a =>
          rw [hr] at IH
          obtain ⟨tr1, rg1, hrun1, hsp1, hw1, hl1⟩ := IH
          exact .ok_intro (tr1 ++ [_]) _ (hrun1.trans (run_not hent st a rg1)) (by omega) hsp1
            ((hw1.mono (Nat.le_refl _) (by omega)).append (Within.single (by omega) (by omega)))
            (by simp only [List.length_append, List.length_singleton]; omega)
      | Minus =>
        simp only [evalExpr]
        cases hr : evalExpr fuel eenv st.scope e1 with
        | error err =>
          rw [hr] at IH
          exact IH.error_of_sub (Run.nil _ _) Within.nil (Nat.le_refl _) (by omega) (by simp only [List.length_nil]; omega)
        | ok a =>
          rw [hr] at IH
          obtain ⟨tr1, rg1, hrun1, hsp1, hw1, hl1⟩ := IH
          have hN := negative_sim (rec := rec) hent hE ht st a rg1 hsp1
          simp only
          cases hn : liftNum (negate eenv.F a) with
          | ok v =>
            rw [hn] at hN
            exact .ok_intro (tr1 ++ [_]) _ (hrun1.trans hN) (by omega) hsp1
              ((hw1.mono (Nat.le_refl _) (by omega)).append (Within.single (by omega) (by omega)))
              (by simp only [List.length_append, List.length_singleton]; omega)
          | error err =>
            rw [hn] at hN
            obtain ⟨re, hf, hm⟩ := hN
            exact .error_intro (tr1 ++ [_]) _ (hrun1.fails hf) hm
              ((hw1.mono (Nat.le_refl _) (by omega)).append (Within.single (by omega) (by omega)))
              (by simp only [List.length_append, List.length_singleton]; omega)
    | @binary l r op hop hl hr =>
      intro base loop st hcode
      rw [exprCode_strict _ _ _ _ _ hop] at hcode ⊢
      rw [CodeAt.append, CodeAt.append] at hcode
      obtain ⟨⟨hc1, hc2⟩, hc3⟩ := hcode
      have hent := CodeAt.single.mp hc3
      simp only [List.length_append, List.length_singleton, ← Nat.add_assoc] at hent ⊢
      have IH1 := ih l hl base loop st hc1
      cases hr1 : evalExpr fuel eenv st.scope l with
      | error err =>
        rw [evalExpr_strict_l _ _ _ _ _ _ hop _ hr1]
        rw [hr1] at IH1
        exact IH1.error_of_sub (Run.nil _ _) Within.nil (Nat.le_refl _) (by omega) (by simp only [List.length_nil]; omega)
      | ok a =>
        rw [hr1] at IH1
        obtain ⟨tr1, rg1, hrun1, hsp1, hw1, hl1⟩ := IH1
        have IH2 : ExprOutcome rec venv vm c (evalExpr fuel eenv st.scope r) _ _ (st.push a rg1) :=
          ih r hr _ loop (st.push a rg1) hc2
        cases hr2 : evalExpr fuel eenv st.scope r with
        | error err =>
          rw [evalExpr_strict_r _ _ _ _ _ _ hop _ _ hr1 hr2]
          rw [hr2] at IH2
          exact IH2.error_of_sub hrun1 (hw1.mono (Nat.le_refl _) (by omega)) (by omega) (by omega)
            (by omega)
        | ok b =>
          rw [evalExpr_strict_ok _ _ _ _ _ _ hop _ _ hr1 hr2]
          rw [hr2] at IH2
          obtain ⟨tr2, rg2, hrun2, hsp2, hw2, hl2⟩ := IH2
          have hB := binop_sim (rec := rec) hop hent hE ht st a rg1 b rg2 hsp1 hsp2
          cases hb : binop eenv op a b with
          | ok v =>
            rw [hb] at hB
            obtain ⟨rg, hrunB, hspB⟩ := hB
            exact .ok_intro (tr1 ++ tr2 ++ [_]) rg ((hrun1.trans hrun2).trans hrunB) (by omega) hspB
              (((hw1.mono (Nat.le_refl _) (by omega)).append (hw2.mono (by omega) (by omega))).append
                (Within.single (by omega) (by omega)))
              (by simp only [List.length_append, List.length_singleton]; omega)
          | error err =>
            rw [hb] at hB
            obtain ⟨re, hf, hm⟩ := hB
            exact .error_intro (tr1 ++ tr2 ++ [_]) re ((hrun1.trans hrun2).fails hf) hm
              (((hw1.mono (Nat.le_refl _) (by omega)).append (hw2.mono (by omega) (by omega))).append
                (Within.single (by omega) (by omega)))
              (by simp only [List.length_append, List.length_singleton]; omega)
    | @and l r hl hr =>
      intro base loop st hcode
      rw [exprCode_and] at hcode ⊢
      rw [CodeAt.append, CodeAt.append] at hcode
      obtain ⟨⟨hc1, hc2⟩, hc3⟩ := hcode
      have hent := CodeAt.single.mp hc2
      simp only [List.length_append, List.length_singleton, ← Nat.add_assoc] at hc3 ⊢
      have IH1 := ih l hl base loop st hc1
      simp only [evalExpr]
      cases hr1 : evalExpr fuel eenv st.scope l with
      | error err =>
        rw [hr1] at IH1
        exact IH1.error_of_sub (Run.nil _ _) Within.nil (Nat.le_refl _) (by omega) (by simp only [List.length_nil]; omega)
      | ok a =>
        rw [hr1] at IH1
        obtain ⟨tr1, rg1, hrun1, hsp1, hw1, hl1⟩ := IH1
        simp only
        cases hta : a.isTruthy with
        | false =>
          simp only [Bool.not_false, if_true]
          exact .ok_intro (tr1 ++ [_]) rg1
            (hrun1.trans (run_jumpIfFalseOrPop_false hent st a rg1 hta)) (by omega) hsp1
            ((hw1.mono (Nat.le_refl _) (by omega)).append (Within.single (by omega) (by omega)))
            (by simp only [List.length_append, List.length_singleton]; omega)
        | true =>
          simp only [Bool.not_true, Bool.false_eq_true, if_false]
          have IH2 := ih r hr _ loop st hc3
          exact IH2.tail (tr2 := []) (hrun1.trans (run_jumpIfFalseOrPop_true hent st a rg1 hta))
            ((hw1.mono (Nat.le_refl _) (by omega)).append (Within.single (by omega) (by omega)))
            (fun st' => (Run.nil _ st').cast (by omega)) Within.nil (by omega) (by omega)
            (by simp only [List.length_append, List.length_singleton, List.length_nil]; omega)
    | @or l r hl hr =>
      intro base loop st hcode
      rw [exprCode_or] at hcode ⊢
      rw [CodeAt.append, CodeAt.append] at hcode
      obtain ⟨⟨hc1, hc2⟩, hc3⟩ := hcode
      have hent := CodeAt.single.mp hc2
      simp only [List.length_append, List.length_singleton, ← Nat.add_assoc] at hc3 ⊢
      have IH1 := ih l hl base loop st hc1
      simp only [evalExpr]
      cases hr1 : evalExpr fuel eenv st.scope l with
      | error err =>
        rw [hr1] at IH1
        exact IH1.error_of_sub (Run.nil _ _) Within.nil (Nat.le_refl _) (by omega) (by simp only [List.length_nil]; omega)
      | ok a =>
        rw [hr1] at IH1
        obtain ⟨tr1, rg1, hrun1, hsp1, hw1, hl1⟩ := IH1
        simp only
        cases hta : a.isTruthy with
        | true =>
          simp only [if_true]
          exact .ok_intro (tr1 ++ [_]) rg1
            (hrun1.trans (run_jumpIfTrueOrPop_true hent st a rg1 hta)) (by omega) hsp1
            ((hw1.mono (Nat.le_refl _) (by omega)).append (Within.single (by omega) (by omega)))
            (by simp only [List.length_append, List.length_singleton]; omega)
        | false =>
          simp only [Bool.false_eq_true, if_false]
          have IH2 := ih r hr _ loop st hc3
          exact IH2.tail (tr2 := []) (hrun1.trans (run_jumpIfTrueOrPop_false hent st a rg1 hta))
            ((hw1.mono (Nat.le_refl _) (by omega)).append (Within.single (by omega) (by omega)))
            (fun st' => (Run.nil _ st').cast (by omega)) Within.nil (by omega) (by omega)
            (by simp only [List.length_append, List.length_singleton, List.length_nil]; omega)
    | @ternary cnd t f hcnd htr hfa =>
      intro base loop st hcode
      simp only [exprCode] at hcode ⊢
      rw [CodeAt.append, CodeAt.append, CodeAt.append, CodeAt.append] at hcode
      obtain ⟨⟨⟨⟨hc1, hc2⟩, hc3⟩, hc4⟩, hc5⟩ := hcode
      have hent2 := CodeAt.single.mp hc2
      have hent4 := CodeAt.single.mp hc4
      simp only [List.length_append, List.length_singleton, ← Nat.add_assoc] at hc3 hent4 hc5 ⊢
      have IH1 := ih cnd hcnd base loop st hc1
      simp only [evalExpr]
      cases hr1 : evalExpr fuel eenv st.scope cnd with
      | error err =>
        rw [hr1] at IH1
        exact IH1.error_of_sub (Run.nil _ _) Within.nil (Nat.le_refl _) (by omega) (by simp only [List.length_nil]; omega)
      | ok a =>
        rw [hr1] at IH1
        obtain ⟨tr1, rg1, hrun1, hsp1, hw1, hl1⟩ := IH1
        have hP := run_popJumpIfFalse (rec := rec) (venv := venv) (vm := vm) hent2 st a rg1
        simp only
        cases hta : a.isTruthy with
        | true =>
          simp only [hta, if_true] at hP ⊢
          have IH2 := ih t htr _ loop st hc3
          exact IH2.tail (hrun1.trans hP)
            ((hw1.mono (Nat.le_refl _) (by omega)).append (Within.single (by omega) (by omega)))
            (fun st' => (run_jump hent4 st').cast (by omega))
            (Within.single (by omega) (by omega)) (by omega) (by omega)
            (by simp only [List.length_append, List.length_singleton]; omega)
        | false =>
          simp only [hta, Bool.false_eq_true, if_false] at hP ⊢
          have IH3 := ih f hfa _ loop st hc5
          exact IH3.tail (tr2 := []) (hrun1.trans hP)
            ((hw1.mono (Nat.le_refl _) (by omega)).append (Within.single (by omega) (by omega)))
            (fun st' => (Run.nil _ st').cast (by omega)) Within.nil (by omega) (by omega)
            (by simp only [List.length_append, List.length_singleton, List.length_nil]; omega)

    | @getItem e1 s1 opt h1 h2 =>
      intro base loop st hcode
      simp only [exprCode] at hcode ⊢
      rw [CodeAt.append, CodeAt.append] at hcode
      obtain ⟨⟨hc1, hc2⟩, hc3⟩ := hcode
      have hent := CodeAt.single.mp hc3
      simp only [List.length_append, List.length_singleton, ← Nat.add_assoc] at hent ⊢
      have IH1 := ih e1 h1 base loop st hc1
      cases hr1 : evalExpr fuel eenv st.scope e1 with
      | error err =>
        have hval : evalExpr (fuel + 1) eenv st.scope (.getItem e1 s1 opt) = .error err := by
          simp only [evalExpr, hr1]
        rw [hval]
        rw [hr1] at IH1
        exact IH1.error_of_sub (Run.nil _ _) Within.nil (Nat.le_refl _) (by omega) (by simp only [List.length_nil]; omega)
      | ok a =>
        rw [hr1] at IH1
        obtain ⟨tr1, rg1, hrun1, hsp1, hw1, hl1⟩ := IH1
        have IH2 : ExprOutcome rec venv vm c (evalExpr fuel eenv st.scope s1) _ _ (st.push a rg1) :=
          ih s1 h2 _ loop (st.push a rg1) hc2
        cases hr2 : evalExpr fuel eenv st.scope s1 with
        | error err =>
          have hval : evalExpr (fuel + 1) eenv st.scope (.getItem e1 s1 opt) = .error err := by
            simp only [evalExpr, hr1, hr2]
          rw [hval]
          rw [hr2] at IH2
          exact IH2.error_of_sub hrun1 (hw1.mono (Nat.le_refl _) (by omega)) (by omega) (by omega)
            (by omega)
        | ok b =>
          rw [evalExpr_getItem_ok _ _ _ _ _ _ _ _ hr1 hr2]
          rw [hr2] at IH2
          obtain ⟨tr2, rg2, hrun2, hsp2, hw2, hl2⟩ := IH2
          have hB := subscript_sim (rec := rec) hent ht st a rg1 b rg2 hsp1 hsp2
          cases hb : itemTail opt a b with
          | ok v =>
            rw [hb] at hB
            obtain ⟨rg, hrunB, hspB⟩ := hB
            exact .ok_intro (tr1 ++ tr2 ++ [_]) rg ((hrun1.trans hrun2).trans hrunB) (by omega) hspB
              (((hw1.mono (Nat.le_refl _) (by omega)).append (hw2.mono (by omega) (by omega))).append
                (Within.single (by omega) (by omega)))
              (by simp only [List.length_append, List.length_singleton]; omega)
          | error err =>
            rw [hb] at hB
            obtain ⟨re, hf, hm⟩ := hB
            exact .error_intro (tr1 ++ tr2 ++ [_]) re ((hrun1.trans hrun2).fails hf) hm
              (((hw1.mono (Nat.le_refl _) (by omega)).append (hw2.mono (by omega) (by omega))).append
                (Within.single (by omega) (by omega)))
              (by simp only [List.length_append, List.length_singleton]; omega)
    | @slice e0 start stop step opt h0 hstart hstop hstep =>
      intro base loop st hcode
      simp only [exprCode] at hcode ⊢
      rw [CodeAt.append, CodeAt.append, CodeAt.append, CodeAt.append] at hcode
      obtain ⟨⟨⟨⟨hc0, hc1⟩, hc2⟩, hc3⟩, hc4⟩ := hcode
      have hent := CodeAt.single.mp hc4
      simp only [List.length_append, List.length_singleton, ← Nat.add_assoc] at hc2 hc3 hent ⊢
      have IH0 := ih e0 h0 base loop st hc0
      cases hr0 : evalExpr fuel eenv st.scope e0 with
      | error err =>
        have hval : evalExpr (fuel + 1) eenv st.scope (.slice e0 start stop step opt) = .error err := by
          simp only [evalExpr, hr0]
        rw [hval]
        rw [hr0] at IH0
        exact IH0.error_of_sub (Run.nil _ _) Within.nil (Nat.le_refl _) (by omega) (by simp only [List.length_nil]; omega)
      | ok a =>
        rw [hr0] at IH0
        obtain ⟨tr0, rg0, hrun0, hsp0, hw0, hl0⟩ := IH0
        have IH1 : OptOutcome rec venv vm c (evalOpt fuel eenv st.scope start .none) _ _ (st.push a rg0) :=
          H.opt start hstart _ loop .none .none (st.push a rg0) hc1 ⟨none, rfl, rfl⟩
        cases hr1 : evalOpt fuel eenv st.scope start .none with
        | error err =>
          have hval : evalExpr (fuel + 1) eenv st.scope (.slice e0 start stop step opt) = .error err := by
            simp only [evalExpr, hr0, hr1]
          rw [hval]
          rw [hr1] at IH1
          exact IH1.error_to_expr.error_of_sub hrun0 (hw0.mono (Nat.le_refl _) (by omega)) (by omega)
            (by omega) (by omega)
        | ok v1 =>
          rw [hr1] at IH1
          obtain ⟨tr1, w1, rg1, hrun1, hb1, hw1, hl1⟩ := IH1
          have IH2 : OptOutcome rec venv vm c (evalOpt fuel eenv st.scope stop .none) _ _
              ((st.push a rg0).push w1 rg1) :=
            H.opt stop hstop _ loop .none .none ((st.push a rg0).push w1 rg1) hc2 ⟨none, rfl, rfl⟩
          cases hr2 : evalOpt fuel eenv st.scope stop .none with
          | error err =>
            have hval : evalExpr (fuel + 1) eenv st.scope (.slice e0 start stop step opt) = .error err := by
              simp only [evalExpr, hr0, hr1, hr2]
            rw [hval]
            rw [hr2] at IH2
            exact IH2.error_to_expr.error_of_sub (hrun0.trans hrun1)
              ((hw0.mono (Nat.le_refl _) (by omega)).append (hw1.mono (by omega) (by omega)))
              (by omega) (by omega) (by simp only [List.length_append]; omega)
          | ok v2 =>
            rw [hr2] at IH2
            obtain ⟨tr2, w2, rg2, hrun2, hb2, hw2, hl2⟩ := IH2
            have IH3 : OptOutcome rec venv vm c (evalOpt fuel eenv st.scope step (.u64 1)) _ _
                (((st.push a rg0).push w1 rg1).push w2 rg2) :=
              H.opt step hstep _ loop (.i64 1) (.u64 1) (((st.push a rg0).push w1 rg1).push w2 rg2) hc3
                ⟨some 1, rfl, rfl⟩
            cases hr3 : evalOpt fuel eenv st.scope step (.u64 1) with
            | error err =>
              have hval : evalExpr (fuel + 1) eenv st.scope (.slice e0 start stop step opt) = .error err := by
                simp only [evalExpr, hr0, hr1, hr2, hr3]
              rw [hval]
              rw [hr3] at IH3
              exact IH3.error_to_expr.error_of_sub ((hrun0.trans hrun1).trans hrun2)
                (((hw0.mono (Nat.le_refl _) (by omega)).append (hw1.mono (by omega) (by omega))).append
                  (hw2.mono (by omega) (by omega)))
                (by omega) (by omega) (by simp only [List.length_append]; omega)
            | ok v3 =>
              rw [hr3] at IH3
              obtain ⟨tr3, w3, rg3, hrun3, hb3, hw3, hl3⟩ := IH3
              rw [evalExpr_slice_ok _ _ _ _ _ _ _ _ _ _ _ _ hr0 hr1 hr2 hr3]
              have hS := slice_sim (rec := rec) hent ht st a rg0 v1 w1 rg1 v2 w2 rg2 v3 w3 rg3 hsp0 hb1 hb2 hb3
              cases hb : sliceTail opt a v1 v2 v3 with
              | ok v =>
                rw [hb] at hS
                obtain ⟨rg, hrunS, hspS⟩ := hS
                exact .ok_intro (tr0 ++ tr1 ++ tr2 ++ tr3 ++ [_]) rg
                  ((((hrun0.trans hrun1).trans hrun2).trans hrun3).trans hrunS) (by omega) hspS
                  (((((hw0.mono (Nat.le_refl _) (by omega)).append (hw1.mono (by omega) (by omega))).append
                    (hw2.mono (by omega) (by omega))).append (hw3.mono (by omega) (by omega))).append
                    (Within.single (by omega) (by omega)))
                  (by simp only [List.length_append, List.length_singleton]; omega)
              | error err =>
                rw [hb] at hS
                obtain ⟨re, hf, hm⟩ := hS
                exact .error_intro (tr0 ++ tr1 ++ tr2 ++ tr3 ++ [_]) re
                  ((((hrun0.trans hrun1).trans hrun2).trans hrun3).fails hf) hm
                  (((((hw0.mono (Nat.le_refl _) (by omega)).append (hw1.mono (by omega) (by omega))).append
                    (hw2.mono (by omega) (by omega))).append (hw3.mono (by omega) (by omega))).append
                    (Within.single (by omega) (by omega)))
                  (by simp only [List.length_append, List.length_singleton]; omega)

theorem opt_step (fuel : Nat) (H : SimAt rec venv vm c eenv fuel) :
    ∀ (oe : Option Expr), (∀ x, oe = some x → InCore x) →
    ∀ (base : Nat) (loop : Option Nat) (w dv : Value) (st : State),
    CodeAt c base (optExprCode base loop (.loadConst w) oe) →
    (∃ b, Tera.sliceBound dv = .ok b ∧ Vm.sliceBound w = .val b) →
    OptOutcome rec venv vm c (evalOpt (fuel + 1) eenv st.scope oe dv) base
      (optExprCode base loop (.loadConst w) oe).length st := by
  intro oe hoe base loop w dv st hcode hb
  cases oe with
  | none =>
    simp only [optExprCode, CodeAt] at hcode
    simp only [evalOpt, optExprCode, List.length_singleton]
    exact ⟨[base], w, (base, base), run_loadConst hcode.1 st, .inr hb,
      Within.single (Nat.le_refl _) (by omega), by simp⟩
  | some e =>
    simp only [optExprCode] at hcode ⊢
    simp only [evalOpt]
    have h := H.expr e (hoe e rfl) base loop st hcode
    cases hr : evalExpr fuel eenv st.scope e with
    | error err => rw [hr] at h; exact h
    | ok v =>
      rw [hr] at h
      obtain ⟨tr, rg, hrun, hsp, hw, hl⟩ := h
      exact ⟨tr, v, rg, hrun, .inl ⟨rfl, hsp⟩, hw, hl⟩

theorem simAt (hE : EnvRel venv eenv) (ht : reportTargetOk venv vm c = true) :
    ∀ fuel, SimAt rec venv vm c eenv fuel := by
  intro fuel
  induction fuel with
  | zero =>
    refine ⟨?_, ?_⟩
    · intro e _ base loop st _
      simp only [evalExpr]
      intro h; simp [reportable] at h
    · intro oe _ base loop w dv st _ _
      simp only [evalOpt]
      intro h; simp [reportable] at h
  | succ fuel ih => exact ⟨expr_step hE ht fuel ih, opt_step fuel ih⟩

/-- the simulation theorem for expressions -/
theorem expr_sim (hE : EnvRel venv eenv) (ht : reportTargetOk venv vm c = true) :
    ∀ (fuel : Nat) (e : Expr), InCore e → ∀ (base : Nat) (loop : Option Nat) (st : State),
      CodeAt c base (exprCode base loop e) →
      ExprOutcome rec venv vm c (evalExpr fuel eenv st.scope e) base (exprCode base loop e).length st :=
  fun fuel => (simAt hE ht fuel).expr

end
end Tera.Refine
