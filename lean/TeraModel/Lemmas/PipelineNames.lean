/-
What the adapter `Pipeline.buildEnv` puts into the VM environment, chunk by chunk (towards
`engine_never_panics_T` of Props/Pipeline.lean, which needs NO run of the checker):

* every chunk `interpret` can be entered with — main chunks, lineage chunks, components of the
  instance-wide table — is `storeChunk td.name (nodesCode 0 none ns)` for a template `td` of the
  batch that is REGISTERED (the last of its name) and a SCOPED node list `ns` (`Provenance`);
* its name is a registered template (`report_target` finds it);
* every filter / test / function / component an instruction of it names is registered
  (`namesOk`): the instruction comes from the compiled chunk (`storeChunk_instrs`), whose names
  are in the template's call tables (`C07Compile.refs_complete`), which an accepting
  `finalize_templates` has checked against the registries and the component table
  (`Reg.derive_refs_valid`).
-/
import TeraModel.Lemmas.PipelineBuild
import TeraModel.Lemmas.PipelineEnv
import TeraModel.Lemmas.PipelineScoped
import TeraModel.Lemmas.FinalizeRefs2
namespace Tera.Pipeline
open Tera Tera.Reg Tera.Compiler

/-! ### what `storeChunk` keeps of the compiled chunk -/

/-- an instruction whose arm indexes no registry -/
def Plain (v : Vm.VInstr) : Prop := ∀ env, Vm.namesOk env v = true

theorem decodeAll_mem (code : Code) : ∀ (r : List Entry) (vs : List Vm.VEntry),
    decodeAll code r = some vs → ∀ e ∈ vs, ∃ x ∈ r, decodeInstr code x.1 = some e.1 := by
  intro r
  induction r with
  | nil => intro vs h; simp only [decodeAll, Option.some.injEq] at h; subst h; intro e he; cases he
  | cons x rest ih =>
    intro vs h
    simp only [decodeAll, decodeEntry] at h
    cases h1 : decodeInstr code x.1 with
    | none => simp [h1] at h
    | some v =>
      cases h2 : decodeAll code rest with
      | none => simp [h1, h2] at h
      | some vs' =>
        simp only [h1, h2, Option.map_some, Option.some.injEq] at h
        subst h
        intro e he
        rcases List.mem_cons.mp he with rfl | he
        · exact ⟨x, List.mem_cons_self, h1⟩
        · obtain ⟨y, hy, hd⟩ := ih vs' h2 e he
          exact ⟨y, List.mem_cons_of_mem _ hy, hd⟩

theorem decodeInstr_origin (code : Code) (x : Instr) (v : Vm.VInstr) (h : decodeInstr code x = some v) :
    Plain v ∨ ∃ y ∈ code, vinstr y.1 = some v := by
  cases x with
  | other k arg =>
    right
    simp only [decodeInstr] at h
    cases hd : WellFormed.decNat arg.toList with
    | none => simp [hd] at h
    | some i =>
      simp only [hd] at h
      cases hc : code[i]? with
      | none => simp [hc] at h
      | some e =>
        simp only [hc] at h
        exact ⟨e, List.mem_of_getElem? hc, h⟩
  | _ =>
    left
    simp only [decodeInstr, Option.some.injEq] at h
    subst h
    intro env; rfl

/-- the name of a stored chunk, and where its instructions come from -/
theorem storeChunk_instrs (name : String) (code : Code) (ch : Vm.Chunk)
    (h : storeChunk name code = .ok ch) :
    ch.name = name ∧ ∀ e ∈ ch.code, Plain e.1 ∨ ∃ y ∈ code, vinstr y.1 = some e.1 := by
  unfold storeChunk at h
  cases hopt : Optimize.optimize (encode code) with
  | panic s => simp [hopt] at h
  | ok r =>
    simp only [hopt] at h
    cases hdec : decodeAll code r with
    | none => simp [hdec] at h
    | some vs =>
      simp only [hdec, Stored.ok.injEq] at h
      subst h
      refine ⟨rfl, ?_⟩
      intro e he
      obtain ⟨x, _, hx⟩ := decodeAll_mem code r vs hdec e he
      exact decodeInstr_origin code x.1 e.1 hx

/-! ### provenance of the chunks of a stored template -/

/-- the name instruction `i` refers to is in the call tables of the summary -/
def RefS (s : TplR) (i : CInstr) : Prop :=
  match i with
  | .applyFilter n => n ∈ s.filterCalls
  | .runTest n => n ∈ s.testCalls
  | .callFunction n => n ∈ s.functionCalls
  | .renderInlineComponent n => n ∈ s.base.compCalls
  | .renderBodyComponent n => n ∈ s.base.compCalls
  | _ => True

/-- `ch` is the stored form of a scoped compiled node list of `td`, whose names are in `td`'s
call tables -/
def ChunkOf (td : TemplateData) (ch : Vm.Chunk) : Prop :=
  ∃ ns, nodesScoped false ns = true ∧ storeChunk td.name (nodesCode 0 none ns) = .ok ch ∧
    ∀ y ∈ nodesCode 0 none ns, RefS td.summary y.1

structure TDX (td : TemplateData) : Prop where
  main : ChunkOf td td.main
  blocks : ∀ p ∈ td.blocks, ChunkOf td p.2
  comps : ∀ p ∈ td.components, ChunkOf td p.2.2

theorem front_ok_parse (d : Delims) (src : Bytes) (t : Template) (h : front d src = .ok t) :
    ∃ toks s, TParser.parse Gen.MAX_RECURSION_DEPTH toks = .ok t s := by
  unfold front at h
  simp only at h
  split at h
  · split at h
    · rename_i t' s heq; cases h; exact ⟨_, s, heq⟩
    · cases h
    · cases h
    · cases h
  · split at h
    · rename_i t' s heq; cases h; exact ⟨_, s, heq⟩
    · cases h
    · cases h
    · cases h
  · cases h
  · cases h

theorem storeNamed_mem (name : String) : ∀ (l : List (String × Code)) (chs : List (String × Vm.Chunk)),
    storeNamed name l = .ok chs → ∀ p ∈ chs, ∃ code, (p.1, code) ∈ l ∧ storeChunk name code = .ok p.2 := by
  intro l
  induction l with
  | nil => intro chs h; simp only [storeNamed] at h; cases h; intro p hp; cases hp
  | cons q rest ih =>
    intro chs h
    obtain ⟨n, c⟩ := q
    unfold storeNamed at h
    cases h1 : storeChunk name c with
    | ok ch =>
      cases h2 : storeNamed name rest with
      | ok chs' =>
        simp only [h1, h2] at h
        cases h
        intro p hp
        rcases List.mem_cons.mp hp with rfl | hp
        · exact ⟨c, List.mem_cons_self, h1⟩
        · obtain ⟨code, hm, hs⟩ := ih chs' h2 p hp
          exact ⟨code, List.mem_cons_of_mem _ hm, hs⟩
      | panic s => simp [h1, h2] at h
      | internal w => simp [h1, h2] at h
    | panic s => simp [h1] at h
    | internal w => simp [h1] at h

theorem zipDefs_mem (defs : List ComponentDefinition) (chunks : List (String × Vm.Chunk)) :
    ∀ p ∈ zipDefs defs chunks, (p.1, p.2.2) ∈ chunks := by
  intro p hp
  simp only [zipDefs, List.mem_map] at hp
  obtain ⟨⟨d, n, ch⟩, hz, rfl⟩ := hp
  exact (List.of_mem_zip hz).2

theorem newTemplate_tdx (d : Delims) (name : String) (src : Bytes) (td : TemplateData)
    (h : newTemplate d name src = .ok td) : TDX td := by
  unfold newTemplate at h
  cases hf : front d src with
  | «syntax» => simp [hf] at h
  | panic s => simp [hf] at h
  | outOfFuel => simp [hf] at h
  | ok t =>
    simp only [hf] at h
    obtain ⟨toks, s, hparse⟩ := front_ok_parse d src t hf
    obtain ⟨hs1, hs2⟩ := TParser.parse_scoped _ toks t s hparse
    cases hc : compileTemplate t with
    | error site => simp [hc] at h
    | ok c =>
      simp only [hc] at h
      cases h1 : storeChunk name c.main with
      | panic s => simp [h1] at h
      | internal w => simp [h1] at h
      | ok main =>
        cases h2 : storeNamed name c.blocks with
        | panic s => simp [h1, h2] at h
        | internal w => simp [h1, h2] at h
        | ok blocks =>
          cases h3 : storeNamed name c.components with
          | panic s => simp [h1, h2, h3] at h
          | internal w => simp [h1, h2, h3] at h
          | ok comps =>
            simp only [h1, h2, h3, NewRes.ok.injEq] at h
            subst h
            have hscoped := chunks_scoped_nodes t hs1 hs2 c hc
            have hrefs := C07Compile.refs_complete t c hc
            -- a chunk of `c`, stored, is a `ChunkOf`
            have key : ∀ code ∈ c.chunks, ∀ ch, storeChunk name code = .ok ch →
                ChunkOf { name := name, main := main, blocks := blocks,
                          components := zipDefs t.componentDefinitions comps,
                          summary := summaryOf name src.length t c } ch := by
              intro code hcode ch hst
              obtain ⟨ns, rfl, hsc⟩ := hscoped code hcode
              refine ⟨ns, hsc, hst, ?_⟩
              intro y hy
              have := hrefs _ hcode y hy
              cases hy1 : y.1 <;> simp only [hy1, C07Compile.RefOK, RefS, summaryOf] at this ⊢ <;>
                first | exact this | trivial
            refine ⟨key c.main (by simp [Compiled.chunks]) main h1, ?_, ?_⟩
            · intro p hp
              obtain ⟨code, hm, hs⟩ := storeNamed_mem name _ _ h2 p hp
              exact key code (by
                simp only [Compiled.chunks, List.mem_cons, List.mem_append, List.mem_map]
                exact Or.inr (Or.inl ⟨(p.1, code), hm, rfl⟩)) p.2 hs
            · intro p hp
              have hm := zipDefs_mem _ _ p hp
              obtain ⟨code, hm2, hs⟩ := storeNamed_mem name _ _ h3 (p.1, p.2.2) hm
              exact key code (by
                simp only [Compiled.chunks, List.mem_cons, List.mem_append, List.mem_map]
                exact Or.inr (Or.inr ⟨(p.1, code), hm2, rfl⟩)) p.2.2 hs

theorem newAll_tdx (d : Delims) : ∀ (sources : List (String × Bytes)) (tds : List TemplateData),
    newAll d sources = .ok tds → ∀ td ∈ tds, TDX td := by
  intro sources
  induction sources with
  | nil => intro tds h; simp only [newAll] at h; cases h; intro td htd; cases htd
  | cons p rest ih =>
    intro tds h
    obtain ⟨name, src⟩ := p
    unfold newAll at h
    cases hn : newTemplate d name src with
    | «syntax» => simp [hn] at h
    | panic s => simp [hn] at h
    | outOfFuel => simp [hn] at h
    | internal w => simp [hn] at h
    | ok t =>
      simp only [hn] at h
      cases hr : newAll d rest with
      | error e => simp [hr] at h
      | ok ts =>
        simp only [hr] at h
        cases h
        intro td htd
        rcases List.mem_cons.mp htd with rfl | htd
        · exact newTemplate_tdx d name src _ hn
        · exact ih ts hr td htd

/-! ### what `register` established -/

theorem lookupLast_named_mem (o : String) : ∀ (l : List TemplateData) (td : TemplateData),
    lookupLast o (namedOf l) = some td → td ∈ l ∧ td.name = o := by
  intro l
  induction l with
  | nil => intro td h; simp [namedOf, lookupLast] at h
  | cons x xs ih =>
    intro td h
    simp only [namedOf, List.map_cons, lookupLast] at h
    cases hx : lookupLast o (xs.map fun td => (td.name, td)) with
    | some y =>
      rw [hx] at h
      simp only [Option.some.injEq] at h
      subst h
      exact ⟨List.mem_cons_of_mem _ (ih y hx).1, (ih y hx).2⟩
    | none =>
      rw [hx] at h
      simp only at h
      split at h
      · rename_i hname
        simp only [Option.some.injEq] at h; subst h; exact ⟨List.mem_cons_self, hname⟩
      · cases h

/-- the facts about a successful `register` that the adapters rely on -/
structure RegFacts (cfg : Config) (tds : List TemplateData) (st : Reg.State) : Prop where
  ex : ∃ (d : Derived) (ts0 : List Reg.Entry),
    derive cfg.prefixes (ts0.map (·.tpl)) (ts0.map (·.tpl.name)) (ts0.map (·.tpl.name)) = .ok d ∧
    commitAll d cfg.suffixes ts0 = .ok st.templates ∧
    st.comps = d.comps ∧
    (∀ o t, get (ts0.map (·.tpl)) o = some t →
      ∃ td, lookupLast o (namedOf tds) = some td ∧ t = td.summary.toTpl cfg.reg ∧ td ∈ tds ∧ td.name = o)

theorem register_facts (cfg : Config) (tds : List TemplateData) (st : Reg.State)
    (hok : ∀ td ∈ tds, TDOK cfg.reg td) (hr : register cfg tds = .ok st) : RegFacts cfg tds st := by
  have hadd : Reg.addBatch (initState cfg) (tds.map fun td => Item.good (td.summary.toTpl cfg.reg)) id id
      = (st, none) := by
    unfold register at hr
    have hmap : (tds.map fun td => Reg.ItemR.good td.summary).map (Reg.ItemR.toItem cfg.reg)
        = tds.map fun td => Item.good (td.summary.toTpl cfg.reg) := by
      simp [Reg.ItemR.toItem]
    unfold Reg.addBatchR at hr
    rw [hmap] at hr
    rcases hab : Reg.addBatch (initState cfg) (tds.map fun td => Item.good (td.summary.toTpl cfg.reg)) id id
      with ⟨st', oe⟩
    rw [hab] at hr
    cases oe with
    | none => simp only [Except.ok.injEq] at hr; rw [hab, hr]
    | some e => cases e <;> simp at hr
  have hfin := C10.add_success_finalize _ _ _ _ _ hadd
  obtain ⟨d, ts, hd, hc, hst⟩ := finalize_ok_parts hfin
  simp only [id] at hd hc
  have hpre : (initState cfg).prefixes = cfg.prefixes := rfl
  have hsuf : (initState cfg).suffixes = cfg.suffixes := rfl
  rw [hpre] at hd
  rw [hsuf] at hc
  refine ⟨d, (insertBatch (initState cfg).templates [] (tds.map fun td => Item.good (td.summary.toTpl cfg.reg))).1,
    hd, ?_, by rw [hst], ?_⟩
  · rw [hst]; exact hc
  · intro o t hg
    rw [get_map_tpl] at hg
    have := insertBatch_lookup cfg.reg tds (initState cfg).templates [] hok o
    rw [hg] at this
    cases hl : lookupLast o (namedOf tds) with
    | none =>
      rw [hl] at this
      simp [initState, State.init, eget] at this
    | some td =>
      rw [hl] at this
      simp only [Option.some.injEq] at this
      obtain ⟨hm, hname⟩ := lookupLast_named_mem o tds td hl
      exact ⟨td, rfl, this, hm, hname⟩

/-! ### what the adapter functions return -/

theorem lookupLast_mem {α : Type} (k : String) : ∀ (l : List (String × α)) (x : α),
    lookupLast k l = some x → (k, x) ∈ l := by
  intro l
  induction l with
  | nil => intro x h; simp [lookupLast] at h
  | cons p rest ih =>
    intro x h
    obtain ⟨n, y⟩ := p
    simp only [lookupLast] at h
    cases hr : lookupLast k rest with
    | some z =>
      rw [hr] at h; simp only [Option.some.injEq] at h; subst h
      exact List.mem_cons_of_mem _ (ih z hr)
    | none =>
      rw [hr] at h
      simp only at h
      split at h
      · rename_i hn
        simp only [Option.some.injEq] at h; subst h; subst hn
        exact List.mem_cons_self
      · cases h

theorem assoc_isSome_of_mem {α : Type} (k : String) : ∀ (l : List (String × α)),
    k ∈ l.map (·.1) → (Vm.assoc k l).isSome = true := by
  intro l
  induction l with
  | nil => intro h; simp at h
  | cons p rest ih =>
    intro h
    obtain ⟨n, y⟩ := p
    simp only [Vm.assoc]
    split
    · rfl
    · rename_i hn
      simp only [List.map_cons, List.mem_cons] at h
      rcases h with h | h
      · exact absurd h.symm hn
      · exact ih h

theorem lineageChunks_spec (named : List (String × TemplateData)) (b : String) :
    ∀ (owners : List String) (l : List Vm.Chunk), lineageChunks named b owners = some l →
      ∀ ch ∈ l, ∃ o ∈ owners, ∃ td, lookupLast o named = some td ∧ lookupLast b td.blocks = some ch := by
  intro owners
  induction owners with
  | nil => intro l h; simp only [lineageChunks, Option.some.injEq] at h; subst h; intro ch hch; cases hch
  | cons o rest ih =>
    intro l h
    simp only [lineageChunks] at h
    cases h1 : lookupLast o named with
    | none => simp [h1] at h
    | some td =>
      simp only [h1] at h
      cases h2 : lookupLast b td.blocks with
      | none => simp [h2] at h
      | some c =>
        cases h3 : lineageChunks named b rest with
        | none => simp [h2, h3] at h
        | some cs =>
          simp only [h2, h3, Option.some.injEq] at h
          subst h
          intro ch hch
          rcases List.mem_cons.mp hch with rfl | hch
          · exact ⟨o, List.mem_cons_self, td, h1, h2⟩
          · obtain ⟨o', ho', td', h1', h2'⟩ := ih cs h3 ch hch
            exact ⟨o', List.mem_cons_of_mem _ ho', td', h1', h2'⟩

theorem lineagesOf_spec (named : List (String × TemplateData)) :
    ∀ (m : BlockMap) (lins : List (String × List Vm.Chunk)), lineagesOf named m = some lins →
      ∀ q ∈ lins, ∃ owners, (q.1, owners) ∈ m ∧ lineageChunks named q.1 owners = some q.2 := by
  intro m
  induction m with
  | nil => intro lins h; simp only [lineagesOf, Option.some.injEq] at h; subst h; intro q hq; cases hq
  | cons p rest ih =>
    intro lins h
    obtain ⟨b, owners⟩ := p
    simp only [lineagesOf] at h
    cases h1 : lineageChunks named b owners with
    | none => simp [h1] at h
    | some l =>
      cases h2 : lineagesOf named rest with
      | none => simp [h1, h2] at h
      | some ls =>
        simp only [h1, h2, Option.some.injEq] at h
        subst h
        intro q hq
        rcases List.mem_cons.mp hq with rfl | hq
        · exact ⟨owners, List.mem_cons_self, h1⟩
        · obtain ⟨ow, hm, hl⟩ := ih ls h2 q hq
          exact ⟨ow, List.mem_cons_of_mem _ hm, hl⟩

/-- one entry of the VM's template table -/
theorem infoOf_spec (named : List (String × TemplateData)) (e : Reg.Entry) (p : String × Vm.TemplateInfo)
    (h : infoOf named e = some p) :
    p.1 = e.tpl.name ∧ ∃ td lin, lookupLast e.tpl.name named = some td ∧
      lineagesOf named e.lineage = some lin ∧ p.2.chunk = td.main ∧ p.2.blockLineage = lin := by
  unfold infoOf at h
  cases h1 : lookupLast e.tpl.name named with
  | none => simp [h1] at h
  | some td =>
    simp only [h1] at h
    cases h2 : lineagesOf named e.lineage with
    | none => simp [h2] at h
    | some lin =>
      simp only [h2, Option.some.injEq] at h
      subst h
      exact ⟨rfl, td, lin, rfl, rfl, rfl, rfl⟩

theorem infosOf_spec (named : List (String × TemplateData)) :
    ∀ (es : List Reg.Entry) (tpls : List (String × Vm.TemplateInfo)), infosOf named es = some tpls →
      tpls.map (·.1) = es.map (·.tpl.name) ∧ ∀ p ∈ tpls, ∃ e ∈ es, infoOf named e = some p := by
  intro es
  induction es with
  | nil => intro tpls h; simp only [infosOf, Option.some.injEq] at h; subst h; exact ⟨rfl, by simp⟩
  | cons e rest ih =>
    intro tpls h
    simp only [infosOf] at h
    cases h1 : infoOf named e with
    | none => simp [h1] at h
    | some i =>
      cases h2 : infosOf named rest with
      | none => simp [h1, h2] at h
      | some is =>
        simp only [h1, h2, Option.some.injEq] at h
        subst h
        obtain ⟨hk, hm⟩ := ih is h2
        refine ⟨?_, ?_⟩
        · simp only [List.map_cons, hk, (infoOf_spec named e i h1).1]
        · intro p hp
          rcases List.mem_cons.mp hp with rfl | hp
          · exact ⟨e, List.mem_cons_self, h1⟩
          · obtain ⟨e', he', hi⟩ := hm p hp
            exact ⟨e', List.mem_cons_of_mem _ he', hi⟩

theorem globalComponents_spec (named : List (String × TemplateData)) :
    ∀ (cs : List (String × String)) (comps : List (String × (Component.Def × Vm.Chunk))),
      globalComponents named cs = some comps →
      comps.map (·.1) = cs.map (·.1) ∧
      ∀ p ∈ comps, ∃ owner, (p.1, owner) ∈ cs ∧ ∃ td, lookupLast owner named = some td ∧
        lookupLast p.1 td.components = some p.2 := by
  intro cs
  induction cs with
  | nil => intro comps h; simp only [globalComponents, Option.some.injEq] at h; subst h; exact ⟨rfl, by simp⟩
  | cons q rest ih =>
    intro comps h
    obtain ⟨c, owner⟩ := q
    simp only [globalComponents] at h
    cases h1 : lookupLast owner named with
    | none => simp [h1] at h
    | some td =>
      simp only [h1] at h
      cases h2 : lookupLast c td.components with
      | none => simp [h2] at h
      | some dc =>
        cases h3 : globalComponents named rest with
        | none => simp [h2, h3] at h
        | some r =>
          simp only [h2, h3, Option.some.injEq] at h
          subst h
          obtain ⟨hk, hm⟩ := ih r h3
          refine ⟨by simp [hk], ?_⟩
          intro p hp
          rcases List.mem_cons.mp hp with rfl | hp
          · exact ⟨owner, List.mem_cons_self, td, h1, h2⟩
          · obtain ⟨ow, hmem, hx⟩ := hm p hp
            exact ⟨ow, List.mem_cons_of_mem _ hmem, hx⟩

theorem includeAliases_mem (prefixes : List String) (S : List Tpl) (tpls : List (String × Vm.TemplateInfo)) :
    ∀ (l : List String) (p : String × Vm.TemplateInfo), p ∈ includeAliases prefixes S tpls l →
      ∃ r, Vm.assoc r tpls = some p.2 := by
  intro l
  induction l with
  | nil => intro p hp; cases hp
  | cons n rest ih =>
    intro p hp
    simp only [includeAliases] at hp
    split at hp
    · exact ih p hp
    · split at hp
      · exact ih p hp
      · split at hp
        · rename_i info hinfo
          rcases List.mem_cons.mp hp with rfl | hp
          · exact ⟨_, hinfo⟩
          · exact ih p hp
        · exact ih p hp

/-! ### every chunk of the environment has a registered, validated origin -/

/-- what an accepting `finalize_templates` has checked for the tables of `td` -/
def RefsChecked (cfg : Config) (env : Vm.Env) (td : TemplateData) : Prop :=
  (∀ n ∈ td.summary.filterCalls, n ∈ cfg.reg.filters) ∧
  (∀ n ∈ td.summary.testCalls, n ∈ cfg.reg.tests) ∧
  (∀ n ∈ td.summary.functionCalls, n = "super" ∨ n ∈ cfg.reg.functions) ∧
  (∀ c ∈ td.summary.base.compCalls, (Vm.assoc c env.components).isSome = true)

/-- the chunk is the stored form of a scoped compiled node list of a registered template whose
references were validated -/
def Prov (cfg : Config) (env : Vm.Env) (ch : Vm.Chunk) : Prop :=
  ∃ td, ChunkOf td ch ∧ RefsChecked cfg env td ∧ (env.template td.name).isSome = true

theorem compOwner_mem {cs : List (String × String)} {c o : String} (h : compOwner cs c = some o) :
    c ∈ cs.map (·.1) := by
  unfold compOwner at h
  cases hf : cs.find? (fun e => e.1 == c) with
  | none => simp [hf] at h
  | some e =>
    have hm := List.mem_of_find?_eq_some hf
    have hk := List.find?_some hf
    simp only [beq_iff_eq] at hk
    exact List.mem_map.mpr ⟨e, hm, hk⟩

theorem buildEnv_prov (cfg : Config) (sources : List (String × Bytes)) (tds : List TemplateData)
    (st : Reg.State) (env : Env) (hn : newAll cfg.delims sources = .ok tds)
    (hr : register cfg tds = .ok st) (hb : buildEnv cfg tds st = some env) :
    (∀ n tpl, env.template n = some tpl →
      Prov cfg env tpl.chunk ∧
      ∀ b lin, Vm.assoc b tpl.blockLineage = some lin → ∀ ch ∈ lin, Prov cfg env ch) ∧
    (∀ n d ch, Vm.assoc n env.components = some (d, ch) → Prov cfg env ch) := by
  have hok := newAll_tdok cfg.reg cfg.delims sources tds hn
  have hx := newAll_tdx cfg.delims sources tds hn
  obtain ⟨d, ts0, hd, hc, hcomps, hS⟩ := (register_facts cfg tds st hok hr).ex
  have hlin := pl_derive_linOK hd
  have hcm := pl_derive_compsMem hd
  unfold buildEnv at hb
  cases hi : infosOf (namedOf tds) st.templates with
  | none => simp [hi] at hb
  | some tpls =>
    cases hg : globalComponents (namedOf tds) st.comps with
    | none => simp [hi, hg] at hb
    | some comps =>
      simp only [hi, hg, Option.some.injEq] at hb
      subst hb
      obtain ⟨hkeys, hinfos⟩ := infosOf_spec _ _ _ hi
      obtain ⟨hckeys, hcspec⟩ := globalComponents_spec _ _ _ hg
      -- registered names are keys of the template table
      have hreg : ∀ o, has (ts0.map (·.tpl)) o = true →
          (Vm.assoc o (tpls ++ includeAliases cfg.prefixes (st.templates.map (·.tpl)) tpls
            ((st.templates.map (·.tpl)).flatMap (·.includeCalls)))).isSome = true := by
        intro o ho
        apply assoc_isSome_of_mem
        rw [List.map_append]
        apply List.mem_append_left
        rw [hkeys]
        rw [eget_isSome_has] at ho
        have := commitAll_eget ts0 st.templates hc o
        obtain ⟨e0, he0⟩ := Option.isSome_iff_exists.mp ho
        rw [he0] at this
        obtain ⟨e', _, he'⟩ := this
        exact eget_mem_names (by simp [he'])
      -- a registered name whose template data is `td`: validated
      have hchecked : ∀ o td, has (ts0.map (·.tpl)) o = true → lookupLast o (namedOf tds) = some td →
          td ∈ tds ∧ RefsChecked cfg (mkEnv cfg (tpls ++ includeAliases cfg.prefixes (st.templates.map (·.tpl)) tpls
            ((st.templates.map (·.tpl)).flatMap (·.includeCalls))) comps) td ∧
          ((mkEnv cfg (tpls ++ includeAliases cfg.prefixes (st.templates.map (·.tpl)) tpls
            ((st.templates.map (·.tpl)).flatMap (·.includeCalls))) comps).template td.name).isSome = true := by
        intro o td ho hl
        obtain ⟨t, hgt⟩ := has_iff_get.mp ho
        obtain ⟨td', hl', ht, hmem, hname⟩ := hS o t hgt
        rw [hl] at hl'
        simp only [Option.some.injEq] at hl'
        subst hl'
        have hT : get (ts0.map (·.tpl)) (td.summary.toTpl cfg.reg).name = some (td.summary.toTpl cfg.reg) := by
          rw [(hok td hmem).name, hname, hgt, ht]
        have hall : ∀ k, has (ts0.map (·.tpl)) k = true → k ∈ ts0.map (·.tpl.name) := by
          intro k hk
          have := has_mem_keys hk
          simpa [keys] using this
        obtain ⟨r1, r2, _, _⟩ := derive_refs_valid cfg.prefixes _ _ _ d hd hall hall _ hT
        have hub : unknownBuiltin cfg.reg td.summary = false := r1
        obtain ⟨f1, f2, f3⟩ := (unknownBuiltin_false_iff cfg.reg td.summary).mp hub
        refine ⟨hmem, ⟨f1, f2, f3, ?_⟩, ?_⟩
        · intro c hc'
          obtain ⟨owner, _, hown, _, _⟩ := r2 c hc'
          apply assoc_isSome_of_mem
          show c ∈ comps.map (·.1)
          rw [hckeys, hcomps]
          exact compOwner_mem hown
        · rw [hname]; exact hreg o ho
      refine ⟨?_, ?_⟩
      · intro n tpl htpl
        -- the entry is one of `tpls`
        have hin : ∃ k, (k, tpl) ∈ tpls := by
          obtain ⟨n', hm⟩ := assoc_mem htpl
          rcases List.mem_append.mp hm with hm | hm
          · exact ⟨n', hm⟩
          · obtain ⟨r, hr'⟩ := includeAliases_mem _ _ _ _ _ hm
            obtain ⟨k, hk⟩ := assoc_mem hr'
            exact ⟨k, hk⟩
        obtain ⟨k, hk⟩ := hin
        obtain ⟨e, he, hie⟩ := hinfos (k, tpl) hk
        obtain ⟨_, td, lin, hl, hlo, hchunk, hbl⟩ := infoOf_spec _ e (k, tpl) hie
        simp only at hchunk hbl
        obtain ⟨e0, he0, hce⟩ := commitAll_mem _ _ hc e he
        obtain ⟨htpl0, _, _, hlineage, _⟩ := commitEntry_tpl hce
        have hhas : has (ts0.map (·.tpl)) e.tpl.name = true := by
          rw [htpl0, eget_isSome_has]
          exact mem_names_eget (List.mem_map.mpr ⟨e0, he0, rfl⟩)
        obtain ⟨hmem, hrc, hregd⟩ := hchecked e.tpl.name td hhas hl
        refine ⟨⟨td, by rw [hchunk]; exact (hx td hmem).main, hrc, hregd⟩, ?_⟩
        intro b l hbl' ch hch
        rw [hbl] at hbl'
        obtain ⟨b', hbm⟩ := assoc_mem hbl'
        obtain ⟨owners, hown, hlc⟩ := lineagesOf_spec _ _ _ hlo (b', l) hbm
        obtain ⟨o, ho, td', hl', hblk⟩ := lineageChunks_spec _ _ _ _ hlc ch hch
        -- the owner is registered: it defines the block
        obtain ⟨q, hq, hq2⟩ := pl_tbLookup_mem hlineage
        have hdef := hlin q hq (b', owners) (by rw [hq2]; exact hown) o ho
        obtain ⟨tow, hto, _⟩ := hdef
        have hhas' : has (ts0.map (·.tpl)) o = true := has_iff_get.mpr ⟨tow, hto⟩
        obtain ⟨hmem', hrc', hregd'⟩ := hchecked o td' hhas' hl'
        exact ⟨td', (hx td' hmem').blocks (b', ch) (lookupLast_mem _ _ _ hblk), hrc', hregd'⟩
      · intro n dfn ch hcomp
        obtain ⟨n', hm⟩ := assoc_mem hcomp
        obtain ⟨owner, hown, td, hl, hlc⟩ := hcspec (n', (dfn, ch)) hm
        rw [hcomps] at hown
        obtain ⟨tow, hto, _⟩ := hcm (n', owner) hown
        have hhas : has (ts0.map (·.tpl)) owner = true := has_iff_get.mpr ⟨tow, hto⟩
        obtain ⟨hmem, hrc, hregd⟩ := hchecked owner td hhas hl
        exact ⟨td, (hx td hmem).comps (n', (dfn, ch)) (lookupLast_mem _ _ _ hlc), hrc, hregd⟩

/-- a chunk with such an origin belongs to a registered template and names only registered
filters / tests / functions / components -/
theorem prov_names (cfg : Config) (env : Vm.Env) (ch : Vm.Chunk)
    (hf : env.hasFilter = cfg.reg.filters.contains) (ht : env.hasTest = cfg.reg.tests.contains)
    (hfn : env.hasFunction = cfg.reg.functions.contains) (h : Prov cfg env ch) :
    (env.template ch.name).isSome = true ∧ ∀ e ∈ ch.code, Vm.namesOk env e.1 = true := by
  obtain ⟨td, ⟨ns, _, hst, hrefs⟩, ⟨f1, f2, f3, f4⟩, hreg⟩ := h
  obtain ⟨hname, hin⟩ := storeChunk_instrs _ _ _ hst
  refine ⟨by rw [hname]; exact hreg, ?_⟩
  intro e he
  obtain ⟨v, sp⟩ := e
  rcases hin (v, sp) he with hp | ⟨y, hy, hv⟩
  · exact hp env
  · have hr := hrefs y hy
    obtain ⟨ci, b⟩ := y
    simp only at hv hr
    cases ci
    case applyFilter n =>
      simp only [vinstr, Option.some.injEq, RefS] at hv hr
      subst hv
      simp only [Vm.namesOk, hf]
      simp [List.contains_iff_mem, f1 n hr]
    case runTest n =>
      simp only [vinstr, Option.some.injEq, RefS] at hv hr
      subst hv
      simp only [Vm.namesOk, ht]
      simp [List.contains_iff_mem, f2 n hr]
    case callFunction n =>
      simp only [vinstr, Option.some.injEq, RefS] at hv hr
      subst hv
      simp only [Vm.namesOk, hfn]
      rcases f3 n hr with h | h
      · simp [h]
      · simp [List.contains_iff_mem, h]
    case renderInlineComponent n =>
      simp only [vinstr, Option.some.injEq, RefS] at hv hr
      subst hv
      simp only [Vm.namesOk]
      exact f4 n hr
    case renderBodyComponent n =>
      simp only [vinstr, Option.some.injEq, RefS] at hv hr
      subst hv
      simp only [Vm.namesOk]
      exact f4 n hr
    case binop op =>
      cases op <;> simp only [vinstr, Option.some.injEq] at hv <;> first
        | (subst hv; rfl)
        | cases hv
    all_goals
      simp only [vinstr, Option.some.injEq] at hv
      subst hv
      rfl

end Tera.Pipeline
