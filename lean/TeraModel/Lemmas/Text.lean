/-
Helper lemmas for C17 string filters (Model/Builtins.lean): prefix stripping, repeated trimming,
`dropWhile`, `flatMap`.
-/
import TeraModel.Lemmas.Builtins
namespace Tera.Builtins
open Tera Tera.Args

/-! ### text lemmas -/

theorem stripPrefix?_some (pat s rest : List Char) : stripPrefix? pat s = some rest ↔ s = pat ++ rest := by
  induction pat generalizing s with
  | nil => simp [stripPrefix?, eq_comm]
  | cons p ps ih =>
    cases s with
    | nil => simp [stripPrefix?]
    | cons c cs =>
      simp only [stripPrefix?]
      by_cases h : p = c
      · subst h; simp [ih]
      · simp only [h, if_false]
        constructor
        · intro hc; cases hc
        · intro hc; simp only [List.cons_append, List.cons.injEq] at hc; exact absurd hc.1.symm h

theorem stripPrefix?_none (pat s : List Char) : stripPrefix? pat s = none ↔ ¬ pat <+: s := by
  constructor
  · intro h ⟨t, ht⟩
    have := (stripPrefix?_some pat s t).2 ht.symm
    rw [h] at this; cases this
  · intro h
    cases hs : stripPrefix? pat s with
    | none => rfl
    | some rest => exact absurd ⟨rest, ((stripPrefix?_some pat s rest).1 hs).symm⟩ h

/-- `pat` repeated `k` times -/
def rep (pat : List Char) (k : Nat) : List Char := (List.replicate k pat).flatten

theorem trimStartMatchesAux_spec (pat : List Char) (hp : pat ≠ []) :
    ∀ (fuel : Nat) (s : List Char), s.length ≤ fuel →
      (∃ k, s = rep pat k ++ trimStartMatchesAux pat fuel s) ∧ ¬ pat <+: trimStartMatchesAux pat fuel s := by
  intro fuel
  induction fuel with
  | zero =>
    intro s hs
    have : s = [] := by cases s <;> simp_all
    subst this
    refine ⟨⟨0, by simp [rep, trimStartMatchesAux]⟩, ?_⟩
    simp only [trimStartMatchesAux]
    rintro ⟨t, ht⟩
    cases pat <;> simp_all
  | succ fuel ih =>
    intro s hs
    simp only [trimStartMatchesAux]
    cases h : stripPrefix? pat s with
    | none =>
      simp only
      exact ⟨⟨0, by simp [rep]⟩, (stripPrefix?_none pat s).1 h⟩
    | some rest =>
      simp only
      have hsr := (stripPrefix?_some pat s rest).1 h
      have hl : rest.length ≤ fuel := by
        have : 0 < pat.length := by cases pat <;> simp_all
        rw [hsr] at hs; simp at hs; omega
      obtain ⟨⟨k, hk⟩, hn⟩ := ih rest hl
      refine ⟨⟨k + 1, ?_⟩, hn⟩
      rw [hsr]
      conv => lhs; rw [hk]
      simp [rep, List.replicate_succ, List.append_assoc]

theorem trimStartMatches_spec (pat s : List Char) :
    (∃ k, s = rep pat k ++ trimStartMatches pat s) ∧ (pat ≠ [] → ¬ pat <+: trimStartMatches pat s) ∧
    (pat = [] → trimStartMatches pat s = s) := by
  unfold trimStartMatches
  by_cases hp : pat = []
  · simp [hp, rep]
  · simp only [hp, if_false]
    obtain ⟨h1, h2⟩ := trimStartMatchesAux_spec pat hp s.length s (Nat.le_refl _)
    exact ⟨h1, fun _ => h2, fun h => absurd h (by simp [hp])⟩

theorem rep_reverse (pat : List Char) (k : Nat) : (rep pat.reverse k).reverse = rep pat k := by
  induction k with
  | zero => simp [rep]
  | succ k ih =>
    have h1 : rep pat.reverse (k + 1) = pat.reverse ++ rep pat.reverse k := by
      simp [rep, List.replicate_succ]
    have h2 : rep pat (k + 1) = rep pat k ++ pat := by
      simp only [rep]
      rw [List.replicate_succ']
      simp
    rw [h1, h2, List.reverse_append, ih, List.reverse_reverse]

theorem trimEndMatches_spec (pat s : List Char) :
    (∃ k, s = trimEndMatches pat s ++ rep pat k) ∧ (pat ≠ [] → ¬ pat <:+ trimEndMatches pat s) ∧
    (pat = [] → trimEndMatches pat s = s) := by
  unfold trimEndMatches
  obtain ⟨⟨k, hk⟩, h2, h3⟩ := trimStartMatches_spec pat.reverse s.reverse
  refine ⟨⟨k, ?_⟩, ?_, ?_⟩
  · have := congrArg List.reverse hk
    rw [List.reverse_reverse, List.reverse_append, rep_reverse] at this
    exact this
  · intro hp hsuf
    apply h2 (by simpa using hp)
    rw [← List.reverse_suffix]
    simpa using hsuf
  · intro hp
    have := h3 (by simp [hp])
    rw [this, List.reverse_reverse]

theorem dropWhile_spec (p : Char → Bool) (s : List Char) :
    (∃ pre, s = pre ++ s.dropWhile p ∧ ∀ c ∈ pre, p c = true) ∧
    (∀ c, (s.dropWhile p).head? = some c → p c = false) := by
  induction s with
  | nil => exact ⟨⟨[], by simp⟩, by simp⟩
  | cons c cs ih =>
    by_cases h : p c = true
    · obtain ⟨⟨pre, h1, h2⟩, h3⟩ := ih
      simp only [List.dropWhile_cons_of_pos h]
      refine ⟨⟨c :: pre, by simp [← h1], ?_⟩, h3⟩
      intro x hx
      rcases List.mem_cons.1 hx with rfl | hx
      · exact h
      · exact h2 x hx
    · simp only [List.dropWhile_cons_of_neg h]
      refine ⟨⟨[], by simp⟩, ?_⟩
      intro x hx
      simp at hx
      subst hx
      simpa using h

theorem flatMap_mem_not {f : Char → List Char} {bad : Char → Prop} (s : List Char)
    (h : ∀ c, ∀ x ∈ f c, ¬ bad x) : ∀ x ∈ s.flatMap f, ¬ bad x := by
  intro x hx
  obtain ⟨c, _, hc⟩ := List.mem_flatMap.1 hx
  exact h c x hc

theorem flatMap_id_of {f : Char → List Char} (s : List Char) (h : ∀ c ∈ s, f c = [c]) : s.flatMap f = s := by
  induction s with
  | nil => rfl
  | cons c cs ih =>
    simp only [List.flatMap_cons, h c (List.mem_cons_self ..)]
    rw [ih (fun x hx => h x (List.mem_cons_of_mem _ hx))]
    rfl


theorem replaceAux_fuel (frm to : List Char) (hf : frm ≠ []) :
    ∀ (f1 f2 : Nat) (s : List Char), s.length ≤ f1 → s.length ≤ f2 →
      replaceAux frm to f1 s = replaceAux frm to f2 s := by
  intro f1
  induction f1 with
  | zero =>
    intro f2 s h1 _
    have : s = [] := by cases s <;> simp_all
    subst this
    cases f2 <;> simp [replaceAux]
  | succ f1 ih =>
    intro f2 s h1 h2
    cases s with
    | nil => cases f2 <;> simp [replaceAux]
    | cons c cs =>
      cases f2 with
      | zero => simp at h2
      | succ f2 =>
        simp only [replaceAux]
        cases hs : stripPrefix? frm (c :: cs) with
        | none =>
          simp only
          rw [ih f2 cs (by simp at h1; omega) (by simp at h2; omega)]
        | some rest =>
          simp only
          have hr := (stripPrefix?_some frm (c :: cs) rest).1 hs
          have hl : rest.length < (c :: cs).length := by
            rw [hr]
            have : 0 < frm.length := by cases frm <;> simp_all
            simp; omega
          rw [ih f2 rest (by simp at h1 hl; omega) (by simp at h2 hl; omega)]

/-- The defining equations of leftmost, non-overlapping replacement of a non-empty pattern. -/
theorem replace_equations (frm to : List Char) (hf : frm ≠ []) :
    replace frm to [] = [] ∧
    (∀ rest, replace frm to (frm ++ rest) = to ++ replace frm to rest) ∧
    (∀ c cs, ¬ frm <+: c :: cs → replace frm to (c :: cs) = c :: replace frm to cs) := by
  refine ⟨by simp [replace, hf, replaceAux], ?_, ?_⟩
  · intro rest
    have hne : frm ++ rest ≠ [] := by cases frm <;> simp_all
    cases hfr : frm ++ rest with
    | nil => exact absurd hfr hne
    | cons c cs =>
      simp only [replace, hf, if_false, List.length_cons, replaceAux]
      have hs : stripPrefix? frm (c :: cs) = some rest := (stripPrefix?_some _ _ _).2 hfr.symm
      rw [hs]
      simp only
      congr 1
      apply replaceAux_fuel frm to hf
      · have : rest.length ≤ (c :: cs).length := by rw [← hfr]; simp
        simp at this; omega
      · omega
  · intro c cs hn
    simp only [replace, hf, if_false, List.length_cons, replaceAux]
    rw [(stripPrefix?_none _ _).2 hn]

theorem replace_no_match (frm to : List Char) (hf : frm ≠ []) :
    ∀ s : List Char, (∀ t, t <:+ s → ¬ frm <+: t) → replace frm to s = s := by
  intro s
  induction s with
  | nil => intro _; exact (replace_equations frm to hf).1
  | cons c cs ih =>
    intro h
    rw [(replace_equations frm to hf).2.2 c cs (h _ (List.suffix_refl _))]
    rw [ih (fun t ht => h t (List.IsSuffix.trans ht (List.suffix_cons c cs)))]

/-- `wordcount` counts the maximal runs of non-whitespace characters: it is 0 exactly for
whitespace-only text, splitting at a whitespace character adds the counts, and a run of
non-whitespace counts once. -/
theorem wordcountAux_false_append_ws (a : List Char) (w : Char) (b : List Char) (hw : isWhitespace w = true)
    (inw : Bool) : wordcountAux inw (a ++ w :: b) = wordcountAux inw a + wordcountAux false b := by
  induction a generalizing inw with
  | nil => simp [wordcountAux, hw]
  | cons c cs ih =>
    simp only [List.cons_append, wordcountAux]
    split
    · exact ih false
    · rw [ih true]; omega

theorem wordcount_run (s : List Char) (hs : s ≠ []) (h : ∀ c ∈ s, isWhitespace c = false) :
    wordcount s = 1 := by
  have aux : ∀ t : List Char, (∀ c ∈ t, isWhitespace c = false) → wordcountAux true t = 0 := by
    intro t
    induction t with
    | nil => intro _; rfl
    | cons c cs ih =>
      intro ht
      simp only [wordcountAux, ht c (List.mem_cons_self ..), Bool.false_eq_true, if_false, if_true]
      rw [ih (fun x hx => ht x (List.mem_cons_of_mem _ hx))]
  cases s with
  | nil => exact absurd rfl hs
  | cons c cs =>
    simp only [wordcount, wordcountAux, h c (List.mem_cons_self ..), Bool.false_eq_true, if_false]
    rw [aux cs (fun x hx => h x (List.mem_cons_of_mem _ hx))]



/-- What the documentation says `newlines_to_br` does, in one pass: `\r\n`, a lone `\n` and a lone
`\r` each become `<br>`; every other character is kept. -/
def brSpec : List Char → List Char
  | [] => []
  | '\r' :: '\n' :: rest => br ++ brSpec rest
  | c :: rest => (if c = '\n' ∨ c = '\r' then br else [c]) ++ brSpec rest

theorem newlinesToBr_eq_spec (s : List Char) : newlinesToBr s = brSpec s := by
  have hf : (['\r', '\n'] : List Char) ≠ [] := by simp
  obtain ⟨e1, e2, e3⟩ := replace_equations ['\r', '\n'] br hf
  have hbr : br.flatMap (fun c => if c = '\n' ∨ c = '\r' then br else [c]) = br := by decide
  unfold newlinesToBr
  fun_induction brSpec s with
  | case1 => rw [e1]; rfl
  | case2 rest ih =>
    have := e2 rest
    simp only [List.cons_append, List.nil_append] at this
    rw [this, List.flatMap_append, hbr, ih]
  | case3 c rest hne ih =>
    have hn : ¬ (['\r', '\n'] : List Char) <+: c :: rest := by
      rintro ⟨t, ht⟩
      simp only [List.cons_append, List.nil_append, List.cons.injEq] at ht
      obtain ⟨h1, h2⟩ := ht
      cases rest with
      | nil => simp at h2
      | cons d ds =>
        simp only [List.cons.injEq] at h2
        exact hne ds h1.symm (by rw [← h2.1])
    rw [e3 c rest hn, List.flatMap_cons, ih]



/-- indentation put in front of the line that starts the text `rest` (the text after a `\n`) -/
def lineStartInd (ind : List Char) (blank : Bool) : List Char → List Char
  | [] => []
  | c :: _ => if c = '\n' then (if blank then ind else []) else ind

/-- What the documentation says `indent` does, as one pass over the characters: after every line
break that is followed by more text, insert the prefix unless the line it starts is empty (and
`blank` is off); nothing else changes. -/
def indentGo (ind : List Char) (blank : Bool) : List Char → List Char
  | [] => []
  | c :: rest =>
    if c = '\n' then '\n' :: (lineStartInd ind blank rest ++ indentGo ind blank rest)
    else c :: indentGo ind blank rest

def indentSpec (ind : List Char) (first blank : Bool) (s : List Char) : List Char :=
  (if first ∧ s ≠ [] then ind else []) ++ indentGo ind blank s

theorem linesAux_noNl (l t cur : List Char) (h : '\n' ∉ l) :
    linesAux (l ++ t) cur = linesAux t (l.reverse ++ cur) := by
  induction l generalizing cur with
  | nil => rfl
  | cons c cs ih =>
    have hc : c ≠ '\n' := fun e => h (e ▸ List.mem_cons_self ..)
    simp only [List.cons_append, linesAux, hc, if_false]
    rw [ih (c :: cur) (fun hm => h (List.mem_cons_of_mem _ hm))]
    simp

theorem lines_split (l rest : List Char) (h : '\n' ∉ l) (hr : '\r' ∉ l) :
    lines (l ++ '\n' :: rest) = l :: lines rest := by
  unfold lines
  rw [linesAux_noNl l _ [] h]
  simp only [List.append_nil, linesAux, if_true]
  congr 1
  cases hl : l.reverse with
  | nil => simp_all
  | cons c cs =>
    have : c ≠ '\r' := by
      intro e
      apply hr
      have : c ∈ l.reverse := by rw [hl]; exact List.mem_cons_self ..
      rw [e] at this
      simpa using this
    split
    · rename_i heq; simp only [List.cons.injEq] at heq; exact absurd heq.1.symm (by simpa using this.symm)
    · rw [← hl]; simp

theorem lines_noNl (l : List Char) (h : '\n' ∉ l) : lines l = if l = [] then [] else [l] := by
  unfold lines
  have := linesAux_noNl l [] [] h
  simp only [List.append_nil] at this
  rw [this]
  simp only [linesAux]
  by_cases hl : l = [] <;> simp [hl]

theorem split_first_nl (s : List Char) :
    '\n' ∉ s ∨ ∃ l rest, s = l ++ '\n' :: rest ∧ '\n' ∉ l := by
  induction s with
  | nil => left; simp
  | cons c cs ih =>
    by_cases hc : c = '\n'
    · right; exact ⟨[], cs, by simp [hc], by simp⟩
    · rcases ih with h | ⟨l, rest, h1, h2⟩
      · left; simp [hc, h]; exact fun e => hc e.symm
      · right
        refine ⟨c :: l, rest, by simp [h1], ?_⟩
        simp only [List.mem_cons, not_or]
        exact ⟨fun e => hc e.symm, h2⟩

theorem indentGo_noNl (ind : List Char) (blank : Bool) (l t : List Char) (h : '\n' ∉ l) :
    indentGo ind blank (l ++ t) = l ++ indentGo ind blank t := by
  induction l with
  | nil => rfl
  | cons c cs ih =>
    have hc : c ≠ '\n' := fun e => h (e ▸ List.mem_cons_self ..)
    simp only [List.cons_append, indentGo, hc, if_false]
    rw [ih (fun hm => h (List.mem_cons_of_mem _ hm))]

/-- body of `indent` without the first-line prefix -/
def indentBody (ind : List Char) (blank : Bool) (s : List Char) : List Char :=
  (match lines s with
    | [] => []
    | l :: rest => l ++ indentLines ind blank rest) ++ (if s.getLast? = some '\n' then ['\n'] else [])

theorem indentBody_eq_go (ind : List Char) (blank : Bool) :
    ∀ (n : Nat) (s : List Char), s.length ≤ n → '\r' ∉ s → indentBody ind blank s = indentGo ind blank s := by
  intro n
  induction n with
  | zero =>
    intro s hs _
    have : s = [] := by cases s <;> simp_all
    subst this
    simp [indentBody, lines, linesAux, indentGo]
  | succ n ih =>
    intro s hs hcr
    rcases split_first_nl s with h | ⟨l, rest, h1, h2⟩
    · -- a single line
      have hg := indentGo_noNl ind blank s [] h
      simp only [List.append_nil] at hg
      rw [hg]
      simp only [indentBody, lines_noNl s h]
      have hlast : s.getLast? ≠ some '\n' := by
        intro e
        exact h (List.mem_of_getLast? e)
      by_cases hs0 : s = []
      · simp [hs0, indentLines, indentGo]
      · simp [hs0, hlast, indentLines, indentGo]
    · subst h1
      have hcl : '\r' ∉ l := fun hm => hcr (List.mem_append_left _ hm)
      have hcrest : '\r' ∉ rest := fun hm => hcr (List.mem_append_right _ (List.mem_cons_of_mem _ hm))
      have hlen : rest.length ≤ n := by simp at hs; omega
      have ihr := ih rest hlen hcrest
      rw [indentGo_noNl ind blank l _ h2]
      simp only [indentGo, if_true]
      simp only [indentBody, lines_split l rest h2 hcl]
      cases rest with
      | nil =>
        simp [lines, linesAux, indentLines, lineStartInd, indentGo]
      | cons c cs =>
        have hlast : (l ++ '\n' :: c :: cs).getLast? = (c :: cs).getLast? := by
          simp only [List.getLast?_append, List.getLast?_cons_cons]
          cases hq : (c :: cs).getLast? with
          | none => simp at hq
          | some x => rfl
        rw [hlast]
        -- the lines of the rest start with its first line
        simp only [indentBody] at ihr
        cases hl : lines (c :: cs) with
        | nil =>
          -- impossible: a non-empty text has a line
          exfalso
          rcases split_first_nl (c :: cs) with h | ⟨l', r', e1, e2⟩
          · rw [lines_noNl _ h] at hl; simp at hl
          · rw [e1, lines_split l' r' e2 (fun hm => hcrest (by rw [e1]; exact List.mem_append_left _ hm))] at hl
            cases hl
        | cons l' ls =>
          rw [hl] at ihr
          simp only [indentLines]
          -- the first line of the rest is empty iff the rest starts with a line break
          have hfirst : (l' = [] ↔ c = '\n') := by
            rcases split_first_nl (c :: cs) with h | ⟨l2, r2, e1, e2⟩
            · rw [lines_noNl _ h] at hl
              simp at hl
              obtain ⟨hl1, _⟩ := hl
              constructor
              · intro e; rw [e] at hl1; cases hl1
              · intro e; exact absurd (e ▸ List.mem_cons_self ..) h
            · rw [e1, lines_split l2 r2 e2 (fun hm => hcrest (by rw [e1]; exact List.mem_append_left _ hm))] at hl
              simp only [List.cons.injEq] at hl
              obtain ⟨hl1, _⟩ := hl
              subst hl1
              constructor
              · intro e; subst e; simp at e1; exact e1.1
              · intro e
                subst e
                cases l2 with
                | nil => rfl
                | cons d ds =>
                  simp only [List.cons_append, List.cons.injEq] at e1
                  exact absurd (e1.1 ▸ List.mem_cons_self ..) e2
          have hind : (if l' ≠ [] ∨ blank = true then ind else []) = lineStartInd ind blank (c :: cs) := by
            simp only [lineStartInd]
            by_cases hc : c = '\n'
            · have := hfirst.2 hc
              simp [hc, this]
            · have : l' ≠ [] := fun e => hc (hfirst.1 e)
              simp [hc, this]
          rw [hind, ← ihr]
          simp [List.append_assoc]

theorem lines_eq_nil_iff (s : List Char) (hcr : '\r' ∉ s) : lines s = [] ↔ s = [] := by
  constructor
  · intro hl
    rcases split_first_nl s with h | ⟨l', r', e1, e2⟩
    · rw [lines_noNl _ h] at hl
      by_cases hs : s = []
      · exact hs
      · simp [hs] at hl
    · rw [e1, lines_split l' r' e2 (fun hm => hcr (by rw [e1]; exact List.mem_append_left _ hm))] at hl
      cases hl
  · intro hs; subst hs; rfl

/-- `indent` (filters.rs, built on `str::lines`) equals the one-pass specification on every text
without `\r` (with `\r\n` line ends `str::lines` drops the `\r`: observation, see the harness). -/
theorem indent_eq_spec (width : Nat) (first blank : Bool) (s : List Char) (hcr : '\r' ∉ s) :
    indent width first blank s = indentSpec (List.replicate (min width 1000) ' ') first blank s := by
  have hb := indentBody_eq_go (List.replicate (min width 1000) ' ') blank s.length s (Nat.le_refl _) hcr
  unfold indentSpec
  rw [← hb]
  unfold indent indentBody
  simp only
  have hnil := lines_eq_nil_iff s hcr
  cases hl : lines s with
  | nil =>
    have : s = [] := hnil.1 hl
    subst this
    simp
  | cons l rest =>
    have hs : s ≠ [] := fun e => by rw [hnil.2 e] at hl; cases hl
    cases first <;> simp [hs, List.append_assoc]


end Tera.Builtins
