/-
Helper lemmas for C17 string filters (Model/Builtins.lean): prefix stripping, repeated trimming,
`dropWhile`, `flatMap`.
-/
import TeraModel.Lemmas.Builtins
namespace Tera.Builtins
open Tera Tera.Args

/-! ### text lemmas -/

theorem stripPrefix?_some (pat s rest : List Char) : stripPrefix? pat s = some rest ↔ s = pat ++ rest := by
  induction pat generalizing s with
  | nil => simp [stripPrefix?, eq_comm]
  | cons p ps ih =>
    cases s with
    | nil => simp [stripPrefix?]
    | cons c cs =>
      simp only [stripPrefix?]
      by_cases h : p = c
      · subst h; simp [ih]
      · simp only [h, if_false]
        constructor
        · intro hc; cases hc
        · intro hc; simp only [List.cons_append, List.cons.injEq] at hc; exact absurd hc.1.symm h

theorem stripPrefix?_none (pat s : List Char) : stripPrefix? pat s = none ↔ ¬ pat <+: s := by
  constructor
  · intro h ⟨t, ht⟩
    have := (stripPrefix?_some pat s t).2 ht.symm
    rw [h] at this; cases this
  · intro h
    cases hs : stripPrefix? pat s with
    | none => rfl
    | some rest => exact absurd ⟨rest, ((stripPrefix?_some pat s rest).1 hs).symm⟩ h

/-- `pat` repeated `k` times -/
def rep (pat : List Char) (k : Nat) : List Char := (List.replicate k pat).flatten

theorem trimStartMatchesAux_spec (pat : List Char) (hp : pat ≠ []) :
    ∀ (fuel : Nat) (s : List Char), s.length ≤ fuel →
      (∃ k, s = rep pat k ++ trimStartMatchesAux pat fuel s) ∧ ¬ pat <+: trimStartMatchesAux pat fuel s := by
  intro fuel
  induction fuel with
  | zero =>
    intro s hs
    have : s = [] := by cases s <;> simp_all
    subst this
    refine ⟨⟨0, by simp [rep, trimStartMatchesAux]⟩, ?_⟩
    simp only [trimStartMatchesAux]
    rintro ⟨t, ht⟩
    cases pat <;> simp_all
  | succ fuel ih =>
    intro s hs
    simp only [trimStartMatchesAux]
    cases h : stripPrefix? pat s with
    | none =>
      simp only
      exact ⟨⟨0, by simp [rep]⟩, (stripPrefix?_none pat s).1 h⟩
    | some rest =>
      simp only
      have hsr := (stripPrefix?_some pat s rest).1 h
      have hl : rest.length ≤ fuel := by
        have : 0 < pat.length := by cases pat <;> simp_all
        rw [hsr] at hs; simp at hs; omega
      obtain ⟨⟨k, hk⟩, hn⟩ := ih rest hl
      refine ⟨⟨k + 1, ?_⟩, hn⟩
      rw [hsr]
      conv => lhs; rw [hk]
      simp [rep, List.replicate_succ, List.append_assoc]

theorem trimStartMatches_spec (pat s : List Char) :
    (∃ k, s = rep pat k ++ trimStartMatches pat s) ∧ (pat ≠ [] → ¬ pat <+: trimStartMatches pat s) ∧
    (pat = [] → trimStartMatches pat s = s) := by
  unfold trimStartMatches
  by_cases hp : pat = []
  · simp [hp, rep]
  · simp only [hp, if_false]
    obtain ⟨h1, h2⟩ := trimStartMatchesAux_spec pat hp s.length s (Nat.le_refl _)
    exact ⟨h1, fun _ => h2, fun h => absurd h (by simp [hp])⟩

theorem rep_reverse (pat : List Char) (k : Nat) : (rep pat.reverse k).reverse = rep pat k := by
  induction k with
  | zero => simp [rep]
  | succ k ih =>
    have h1 : rep pat.reverse (k + 1) = pat.reverse ++ rep pat.reverse k := by
      simp [rep, List.replicate_succ]
    have h2 : rep pat (k + 1) = rep pat k ++ pat := by
      simp only [rep]
      rw [List.replicate_succ']
      simp
    rw [h1, h2, List.reverse_append, ih, List.reverse_reverse]

theorem trimEndMatches_spec (pat s : List Char) :
    (∃ k, s = trimEndMatches pat s ++ rep pat k) ∧ (pat ≠ [] → ¬ pat <:+ trimEndMatches pat s) ∧
    (pat = [] → trimEndMatches pat s = s) := by
  unfold trimEndMatches
  obtain ⟨⟨k, hk⟩, h2, h3⟩ := trimStartMatches_spec pat.reverse s.reverse
  refine ⟨⟨k, ?_⟩, ?_, ?_⟩
  · have := congrArg List.reverse hk
    rw [List.reverse_reverse, List.reverse_append, rep_reverse] at this
    exact this
  · intro hp hsuf
    apply h2 (by simpa using hp)
    rw [← List.reverse_suffix]
    simpa using hsuf
  · intro hp
    have := h3 (by simp [hp])
    rw [this, List.reverse_reverse]

theorem dropWhile_spec (p : Char → Bool) (s : List Char) :
    (∃ pre, s = pre ++ s.dropWhile p ∧ ∀ c ∈ pre, p c = true) ∧
    (∀ c, (s.dropWhile p).head? = some c → p c = false) := by
  induction s with
  | nil => exact ⟨⟨[], by simp⟩, by simp⟩
  | cons c cs ih =>
    by_cases h : p c = true
    · obtain ⟨⟨pre, h1, h2⟩, h3⟩ := ih
      simp only [List.dropWhile_cons_of_pos h]
      refine ⟨⟨c :: pre, by simp [← h1], ?_⟩, h3⟩
      intro x hx
      rcases List.mem_cons.1 hx with rfl | hx
      · exact h
      · exact h2 x hx
    · simp only [List.dropWhile_cons_of_neg h]
      refine ⟨⟨[], by simp⟩, ?_⟩
      intro x hx
      simp at hx
      subst hx
      simpa using h

theorem flatMap_mem_not {f : Char → List Char} {bad : Char → Prop} (s : List Char)
    (h : ∀ c, ∀ x ∈ f c, ¬ bad x) : ∀ x ∈ s.flatMap f, ¬ bad x := by
  intro x hx
  obtain ⟨c, _, hc⟩ := List.mem_flatMap.1 hx
  exact h c x hc

theorem flatMap_id_of {f : Char → List Char} (s : List Char) (h : ∀ c ∈ s, f c = [c]) : s.flatMap f = s := by
  induction s with
  | nil => rfl
  | cons c cs ih =>
    simp only [List.flatMap_cons, h c (List.mem_cons_self ..)]
    rw [ih (fun x hx => h x (List.mem_cons_of_mem _ hx))]
    rfl


theorem replaceAux_fuel (frm to : List Char) (hf : frm ≠ []) :
    ∀ (f1 f2 : Nat) (s : List Char), s.length ≤ f1 → s.length ≤ f2 →
      replaceAux frm to f1 s = replaceAux frm to f2 s := by
  intro f1
  induction f1 with
  | zero =>
    intro f2 s h1 _
    have : s = [] := by cases s <;> simp_all
    subst this
    cases f2 <;> simp [replaceAux]
  | succ f1 ih =>
    intro f2 s h1 h2
    cases s with
    | nil => cases f2 <;> simp [replaceAux]
    | cons c cs =>
      cases f2 with
      | zero => simp at h2
      | succ f2 =>
        simp only [replaceAux]
        cases hs : stripPrefix? frm (c :: cs) with
        | none =>
          simp only
          rw [ih f2 cs (by simp at h1; omega) (by simp at h2; omega)]
        | some rest =>
          simp only
          have hr := (stripPrefix?_some frm (c :: cs) rest).1 hs
          have hl : rest.length < (c :: cs).length := by
            rw [hr]
            have : 0 < frm.length := by cases frm <;> simp_all
            simp; omega
          rw [ih f2 rest (by simp at h1 hl; omega) (by simp at h2 hl; omega)]

/-- The defining equations of leftmost, non-overlapping replacement of a non-empty pattern. -/
theorem replace_equations (frm to : List Char) (hf : frm ≠ []) :
    replace frm to [] = [] ∧
    (∀ rest, replace frm to (frm ++ rest) = to ++ replace frm to rest) ∧
    (∀ c cs, ¬ frm <+: c :: cs → replace frm to (c :: cs) = c :: replace frm to cs) := by
  refine ⟨by simp [replace, hf, replaceAux], ?_, ?_⟩
  · intro rest
    have hne : frm ++ rest ≠ [] := by cases frm <;> simp_all
    cases hfr : frm ++ rest with
    | nil => exact absurd hfr hne
    | cons c cs =>
      simp only [replace, hf, if_false, List.length_cons, replaceAux]
      have hs : stripPrefix? frm (c :: cs) = some rest := (stripPrefix?_some _ _ _).2 hfr.symm
      rw [hs]
      simp only
      congr 1
      apply replaceAux_fuel frm to hf
      · have : rest.length ≤ (c :: cs).length := by rw [← hfr]; simp
        simp at this; omega
      · omega
  · intro c cs hn
    simp only [replace, hf, if_false, List.length_cons, replaceAux]
    rw [(stripPrefix?_none _ _).2 hn]

theorem replace_no_match (frm to : List Char) (hf : frm ≠ []) :
    ∀ s : List Char, (∀ t, t <:+ s → ¬ frm <+: t) → replace frm to s = s := by
  intro s
  induction s with
  | nil => intro _; exact (replace_equations frm to hf).1
  | cons c cs ih =>
    intro h
    rw [(replace_equations frm to hf).2.2 c cs (h _ (List.suffix_refl _))]
    rw [ih (fun t ht => h t (List.IsSuffix.trans ht (List.suffix_cons c cs)))]

/-- `wordcount` counts the maximal runs of non-whitespace characters: it is 0 exactly for
whitespace-only text, splitting at a whitespace character adds the counts, and a run of
non-whitespace counts once. -/
theorem wordcountAux_false_append_ws (a : List Char) (w : Char) (b : List Char) (hw : isWhitespace w = true)
    (inw : Bool) : wordcountAux inw (a ++ w :: b) = wordcountAux inw a + wordcountAux false b := by
  induction a generalizing inw with
  | nil => simp [wordcountAux, hw]
  | cons c cs ih =>
    simp only [List.cons_append, wordcountAux]
    split
    · exact ih false
    · rw [ih true]; omega

theorem wordcount_run (s : List Char) (hs : s ≠ []) (h : ∀ c ∈ s, isWhitespace c = false) :
    wordcount s = 1 := by
  have aux : ∀ t : List Char, (∀ c ∈ t, isWhitespace c = false) → wordcountAux true t = 0 := by
    intro t
    induction t with
    | nil => intro _; rfl
    | cons c cs ih =>
      intro ht
      simp only [wordcountAux, ht c (List.mem_cons_self ..), Bool.false_eq_true, if_false, if_true]
      rw [ih (fun x hx => ht x (List.mem_cons_of_mem _ hx))]
  cases s with
  | nil => exact absurd rfl hs
  | cons c cs =>
    simp only [wordcount, wordcountAux, h c (List.mem_cons_self ..), Bool.false_eq_true, if_false]
    rw [aux cs (fun x hx => h x (List.mem_cons_of_mem _ hx))]


end Tera.Builtins
