/-
C01 on the value-level VM, part 4: from one turn to whole runs.

* `step_ok`: every turn of the REAL `step` keeps `StateOk P K` (by cases on the instruction, one
  lemma per arm in Lemmas/VmEscapeInv.lean).
* `tInterp_ok` / `tInterp_chunks_ok`: induction on both fuels along the guarded traced run
  (`tInterp bodyGuard`, the thin wrapper of Lemmas/VmWriterTrace.lean): the state a run ends in is
  `StateOk`, and every chunk it appended to the output — also on runs that end in an error — is made
  of `P` characters.
* `guarded_done`: a guarded run that succeeds IS the run of Model/Vm.lean.
-/
import TeraModel.Lemmas.VmEscapeInv
namespace Tera.Vm
open Tera
set_option linter.unusedSimpArgs false

variable {P : Char → Prop} {K : Policy} {rec : VmCtx → Chunk → State → RunRes} {env : Env} {vm : VmCtx} {c : Chunk}
  {pc pc' : Nat} {st st' : State}

/-- One turn keeps the invariant. -/
theorem step_ok (hE : EnvClean P K env) (hrec : RecOk P K rec) (hvm : VmOk P K vm) (hc : ChunkClean P K c)
    (e : VEntry) (he : e ∈ c.code) (hg : bodyGuard e.1 st = false ∨ ¬ K.body) (hst : StateOk P K st)
    (h : step rec env vm c e pc st = .next pc' st') : StateOk P K st' := by
  have hce := hc.2 e he
  obtain ⟨i, spans⟩ := e
  unfold step at h
  cases i <;> simp only at h hce hg
  case loadConst v =>
    simp only [StepRes.next.injEq] at h; rcases h with ⟨_, h2⟩; subst h2
    exact hst.push _ (hce.2.1 v rfl)
  case loadName n =>
    simp only [StepRes.next.injEq] at h; rcases h with ⟨_, h2⟩; subst h2
    exact hst.push _ (scopeOk_lookupName n hst.scope)
  case loadAttr a o => exact ok_loadAttr a o hst h
  case binarySubscript o => exact ok_subscript o hst h
  case slice o => exact ok_slice o hst h
  case writeText t =>
    simp only [StepRes.next.injEq] at h; rcases h with ⟨_, h2⟩; subst h2
    exact hst.write (hce.1 t rfl)
  case writeTop => exact ok_writeTop hE hvm hst h
  case set n g => exact ok_set n g hst h
  case include_ n => exact ok_include hE hrec hvm n hst h
  case buildMap n => exact ok_buildMap n hst h
  case buildList n => exact ok_buildList n hst h
  case buildMapWithSpreads f => exact ok_buildMapWithSpreads f hst h
  case buildListWithSpreads f => exact ok_buildListWithSpreads f hst h
  case callFunction n => exact ok_callFunction hE hrec hvm n (hce.2.2.2.2 n rfl) hst h
  case renderComponent n b =>
    have hg' : bodyGuard (.renderComponent n b) st = false := by
      cases b with
      | false => rfl
      | true =>
        rcases hg with hg | hnb
        · exact hg
        · exact absurd (hce.2.2.1 n rfl) hnb
    exact ok_component hE hrec hvm n b hg' hst h
  case applyFilter n => exact ok_filterOrTest hE false n (fun _ => hce.2.2.2.1 n rfl) hst h
  case runTest n => exact ok_filterOrTest hE true n (fun h0 => nomatch h0) hst h
  case renderBlock n => exact ok_renderBlock hrec hvm n hst h
  case jump t => simp only [StepRes.next.injEq] at h; rcases h with ⟨_, h2⟩; subst h2; exact hst
  case popJumpIfFalse t => exact ok_popJumpIfFalse t hst h
  case jumpIfFalseOrPop t => exact ok_jumpOrPop false t hst h
  case jumpIfTrueOrPop t => exact ok_jumpOrPop true t hst h
  case capture =>
    simp only [StepRes.next.injEq] at h; rcases h with ⟨_, h2⟩; subst h2
    refine ⟨hst.stack, hst.scope, ?_, hst.out, hst.bbuf, hst.blocks⟩
    intro b hb
    rcases List.mem_cons.1 hb with rfl | hb
    · exact AllP.nil
    · exact hst.caps b hb
  case endCapture => exact ok_endCapture hst h
  case startIterate kv co => exact ok_startIterate kv co hst h
  case iterate t => exact ok_iterate t hst h
  case storeLocal n => exact ok_storeLocal n hst h
  case storeDidNotIterate => exact ok_storeDidNotIterate hst h
  case break_ => exact ok_break hst h
  case popLoop =>
    simp only [StepRes.next.injEq] at h; rcases h with ⟨_, h2⟩; subst h2
    exact hst.withScope (scopeOk_popLoop _ hst.scope)
  case appendToList => exact ok_appendToList hst h
  case math op => exact ok_math op hst h
  case plus => exact ok_plus hst h
  case cmp op => exact ok_cmp op hst h
  case equal ng => exact ok_equal ng hst h
  case strConcat => exact ok_strConcat hst h
  case in_ => exact ok_in hst h
  case not_ => exact ok_not hst h
  case negative => exact ok_negative hst h
  case loadPath p => exact ok_loadPath p hst h
  case writePath p => exact ok_writePath hE hvm p hst h

/-! ### the guarded traced run -/

/-- the chunks nested calls report are clean -/
def RecTOk (P : Char → Prop) (K : Policy) (recT : VmCtx → Chunk → State → Trace) : Prop :=
  ∀ vm c st, VmOk P K vm → ChunkClean P K c → StateOk P K st → ∀ ch ∈ recT vm c st, AllP P ch.2

variable {recT : VmCtx → Chunk → State → Trace}

theorem AllP.drop {s : List Char} (h : AllP P s) (n : Nat) : AllP P (s.drop n) :=
  fun x hx => h x (List.mem_of_mem_drop hx)

/-- the chunks of one turn are clean (whether or not the turn continues) -/
theorem stepChunks_ok (hE : EnvClean P K env) (hrec : RecOk P K rec) (hrecT : RecTOk P K recT)
    (hvm : VmOk P K vm) (hc : ChunkClean P K c) (e : VEntry) (he : e ∈ c.code)
    (hg : bodyGuard e.1 st = false ∨ ¬ K.body) (hst : StateOk P K st) :
    ∀ ch ∈ stepChunks rec recT env vm c e pc st, AllP P ch.2 := by
  unfold stepChunks
  cases hn : nestedChunks recT env vm e.1 st with
  | none =>
    simp only
    cases hs : step rec env vm c e pc st with
    | next pc1 st1 =>
      simp only [List.mem_cons, List.not_mem_nil, or_false]
      rintro ch rfl
      exact (step_ok hE hrec hvm hc e he hg hst hs).out.drop _
    | _ => intro ch hch; cases hch
  | some tr =>
    simp only
    obtain ⟨i, spans⟩ := e
    cases i <;> simp only [nestedChunks] at hn <;> try cases hn
    case include_ n =>
      cases ht : env.template n with
      | none => rw [ht] at hn; simp only [Option.some.injEq] at hn; subst hn; intro ch hch; cases hch
      | some tpl =>
        rw [ht] at hn; simp only [Option.some.injEq] at hn; subst hn
        split
        · obtain ⟨hvm', hch⟩ := vmOk_include hE hvm ht
          exact hrecT _ _ _ hvm' hch (StateOk.fresh (scopeOk_included _ hst.scope))
        · intro ch hch; cases hch
    case renderBlock n =>
      split at hn
      · rename_i first more hl
        simp only [Option.some.injEq] at hn; subst hn
        split
        · intro ch hch; cases hch
        · have hlin := hvm.tpl.lineage _ (assoc_mem hl)
          exact hrecT _ _ _ hvm (hlin first (by simp)) (ok_enterBlock hvm hl hst)
      · simp only [Option.some.injEq] at hn; subst hn; intro ch hch; cases hch

/-- a guard that is enough for the policy: it flags what `bodyGuard` flags, unless the policy
excludes `RenderBodyComponent` altogether -/
def GuardFor (K : Policy) (g : Guard) : Prop :=
  ∀ i st, g i st = false → bodyGuard i st = false ∨ ¬ K.body

theorem guardFor_body (K : Policy) : GuardFor K bodyGuard := fun _ _ h => Or.inl h

theorem guardFor_none {K : Policy} (h : ¬ K.body) : GuardFor K noGuard := fun _ _ _ => Or.inr h

variable {g : Guard}

/-- A loop invariant of the interpreter loop (entered at `ip = 0` of a chunk the policy knows,
kept by every turn of the REAL `step`, whatever the nested calls do) under which the guard `g` is
enough: where it does not fire, `bodyGuard` does not either — or the policy excludes
`RenderBodyComponent`. -/
structure LoopInv (K : Policy) (g : Guard) (env : Env) where
  J : Chunk → Nat → State → Prop
  entry : ∀ c st, K.chunk c → J c 0 st
  step : ∀ (rec : VmCtx → Chunk → State → RunRes) vm c e pc st pc' st', K.chunk c → J c pc st →
    c.code[pc]? = some e → Vm.step rec env vm c e pc st = .next pc' st' → J c pc' st'
  guard : ∀ c e pc st, K.chunk c → J c pc st → c.code[pc]? = some e → g e.1 st = false →
    bodyGuard e.1 st = false ∨ ¬ K.body

/-- no invariant needed when the guard itself is enough -/
def LoopInv.ofGuard {K : Policy} {g : Guard} (env : Env) (h : GuardFor K g) : LoopInv K g env :=
  { J := fun _ _ _ => True, entry := fun _ _ _ => trivial,
    step := fun _ _ _ _ _ _ _ _ _ _ _ _ => trivial,
    guard := fun _ e _ st _ _ _ hg => h e.1 st hg }

theorem tLoop_ok (L : LoopInv K g env) (hE : EnvClean P K env) (hrec : RecOk P K rec)
    (hrecT : RecTOk P K recT) (hvm : VmOk P K vm) (hc : ChunkClean P K c) :
    ∀ (fuel pc : Nat) (st : State), L.J c pc st → StateOk P K st →
      (∀ st', (tLoop g rec recT env vm c fuel pc st).1 = .done st' → StateOk P K st') ∧
      (∀ ch ∈ (tLoop g rec recT env vm c fuel pc st).2, AllP P ch.2) := by
  intro fuel
  induction fuel with
  | zero =>
    intro pc st _ hst
    cases hcode : c.code[pc]? with
    | none =>
      simp only [tLoop, hcode]
      exact ⟨fun st' h => (by simp only [RunRes.done.injEq] at h; subst h; exact hst),
        fun ch hch => (by cases hch)⟩
    | some e =>
      simp only [tLoop, hcode]
      exact ⟨fun st' h => (by cases h), fun ch hch => (by cases hch)⟩
  | succ fuel ih =>
    intro pc st hJ hst
    cases hcode : c.code[pc]? with
    | none =>
      simp only [tLoop, hcode]
      exact ⟨fun st' h => (by simp only [RunRes.done.injEq] at h; subst h; exact hst),
        fun ch hch => (by cases hch)⟩
    | some e =>
      have he : e ∈ c.code := List.mem_of_getElem? hcode
      simp only [tLoop, hcode]
      cases hg0 : g e.1 st with
      | true =>
        simp only [↓reduceIte]
        exact ⟨fun st' h => (by cases h), fun ch hch => (by cases hch)⟩
      | false =>
        simp only [Bool.false_eq_true, ↓reduceIte]
        have hg := L.guard c e pc st hc.1 hJ hcode hg0
        have hchunks := stepChunks_ok (pc := pc) hE hrec hrecT hvm hc e he hg hst
        cases hs : step rec env vm c e pc st with
        | next pc1 st1 =>
          simp only
          obtain ⟨ih1, ih2⟩ := ih pc1 st1 (L.step rec vm c e pc st pc1 st1 hc.1 hJ hcode hs)
            (step_ok hE hrec hvm hc e he hg hst hs)
          refine ⟨ih1, ?_⟩
          intro ch hch
          rcases List.mem_append.1 hch with hch | hch
          · exact hchunks ch hch
          · exact ih2 ch hch
        | err x => simp only; exact ⟨fun st' h => (by cases h), hchunks⟩
        | panic x => simp only; exact ⟨fun st' h => (by cases h), hchunks⟩
        | unmodelled x => simp only; exact ⟨fun st' h => (by cases h), hchunks⟩
        | outOfFuel => simp only; exact ⟨fun st' h => (by cases h), hchunks⟩

/-- The invariant along a whole guarded run, nested calls included. -/
theorem tInterp_ok (L : LoopInv K g env) (hE : EnvClean P K env) (steps : Nat) :
    ∀ depth, RecOk P K (fun vm c st => (tInterp g env steps depth vm c st).1) ∧
      RecTOk P K (fun vm c st => (tInterp g env steps depth vm c st).2) := by
  intro depth
  induction depth with
  | zero =>
    exact ⟨fun vm c st st' _ _ _ h => by simp [tInterp] at h,
      fun vm c st _ _ _ ch hch => by simp [tInterp] at hch⟩
  | succ d ih =>
    constructor
    · intro vm c st st' hvm hc hst h
      simp only [tInterp] at h
      exact (tLoop_ok L hE ih.1 ih.2 hvm hc steps 0 st (L.entry c st hc.1) hst).1 st' h
    · intro vm c st hvm hc hst
      simp only [tInterp]
      exact (tLoop_ok L hE ih.1 ih.2 hvm hc steps 0 st (L.entry c st hc.1) hst).2

/-! ### a guarded run that succeeds is the run -/

/-- `rec2` agrees with `rec1` wherever `rec1` returns normally -/
def DoneLe (rec1 rec2 : VmCtx → Chunk → State → RunRes) : Prop :=
  ∀ vm c st s, rec1 vm c st = .done s → rec2 vm c st = .done s

variable {rec1 rec2 : VmCtx → Chunk → State → RunRes}

theorem stepSuper_mono (h12 : DoneLe rec1 rec2) (h : stepSuper rec1 env vm c pc st = .next pc' st') :
    stepSuper rec2 env vm c pc st = .next pc' st' := by
  unfold stepSuper at h ⊢
  repeat' split at h
  all_goals first
    | (exfalso; simp at h; done)
    | skip
  rename_i _ cur hcur _ pos hpos _ nm lineage level hent _ blockChunk hbc _ blocks1 hb1 _ st2 hr _ blocks3 hb3
  simp only [hcur, hpos, hent, hbc, hb1, h12 _ _ _ _ hr, hb3]
  exact h

theorem step_mono (h12 : DoneLe rec1 rec2) (e : VEntry)
    (h : step rec1 env vm c e pc st = .next pc' st') : step rec2 env vm c e pc st = .next pc' st' := by
  obtain ⟨i, spans⟩ := e
  unfold step at h ⊢
  cases i <;> simp only at h ⊢ <;> try exact h
  case include_ n =>
    unfold stepInclude at h ⊢
    cases ht : env.template n with
    | none => simp [ht] at h
    | some tpl =>
      simp only [ht] at h ⊢
      cases hr : rec1 { vm with template := tpl } tpl.chunk (includeState st) with
      | done s => rw [hr] at h; rw [h12 _ _ _ _ hr]; exact h
      | _ => rw [hr] at h; simp at h
  case callFunction n =>
    unfold stepCallFunction at h ⊢
    cases hs : st.stack with
    | nil => simp [hs] at h
    | cons top rest =>
      obtain ⟨kw, ks⟩ := top
      simp only [hs] at h ⊢
      by_cases hn : n = "super"
      · simp only [hn, ↓reduceIte] at h ⊢
        exact stepSuper_mono h12 h
      · simp only [hn, ↓reduceIte] at h ⊢
        exact h
  case renderComponent n hasBody =>
    unfold stepComponent at h ⊢
    repeat' split at h
    all_goals first
      | (exfalso; simp at h; done)
      | skip
    rename_i _ aSpan rest v es hs0 _ cdef cchunk hfc _ body rest' hpb _ bound hbc hdepth _ stn hr
    simp only [hs0, hfc, hpb, hbc, hdepth, ↓reduceIte, h12 _ _ _ _ hr]
    exact h
  case renderBlock n =>
    unfold stepRenderBlock at h ⊢
    repeat' split at h
    all_goals first
      | (exfalso; simp at h; done)
      | skip
    rename_i _ first more hl _ st2 hr
    simp only [hl, h12 _ _ _ _ hr]
    exact h

theorem tLoop_guard_done (guard : Guard) (h12 : DoneLe rec1 rec2) :
    ∀ (fuel pc : Nat) (st st' : State), (tLoop guard rec1 recT env vm c fuel pc st).1 = .done st' →
      runLoop rec2 env vm c fuel pc st = .done st' := by
  intro fuel
  induction fuel with
  | zero =>
    intro pc st st' h
    cases hcode : c.code[pc]? <;> simp only [tLoop, runLoop, hcode] at h ⊢
    · exact h
    · cases h
  | succ fuel ih =>
    intro pc st st' h
    cases hcode : c.code[pc]? with
    | none => simp only [tLoop, runLoop, hcode] at h ⊢; exact h
    | some e =>
      simp only [tLoop, runLoop, hcode] at h ⊢
      split at h
      · cases h
      · cases hs : step rec1 env vm c e pc st with
        | next pc1 st1 =>
          rw [hs] at h
          simp only at h
          rw [step_mono h12 e hs]
          exact ih _ _ _ h
        | _ => rw [hs] at h; cases h

/-- A guarded run that ends normally is the run of Model/Vm.lean, with the same final state. -/
theorem tInterp_guard_done (guard : Guard) (env : Env) (steps : Nat) :
    ∀ depth, DoneLe (fun vm c st => (tInterp guard env steps depth vm c st).1) (interp env steps depth) := by
  intro depth
  induction depth with
  | zero => intro vm c st s h; simp [tInterp] at h
  | succ d ih =>
    intro vm c st s h
    simp only [tInterp] at h
    unfold interp
    exact tLoop_guard_done guard ih _ _ _ _ h

end Tera.Vm
