/-
Round trip of the serde bridge model: for every type of the family and every well-typed value,
`ser` succeeds and `de` at the same type gives the value back (`roundtrip_main`).
-/
import TeraModel.Model.Serde
namespace Tera.Serde

/-! ## integers -/

theorem deInt_serInt (t : IntTy) (n : Int) (h : t.inRange n) :
    deInt t (serInt t n) = .ok (.int t n) := by
  cases t <;>
    simp only [IntTy.inRange, IntTy.min, IntTy.max] at h <;>
    simp only [deInt, serInt, intVisit] <;>
    (try rw [Int.toNat_of_nonneg (by omega)]) <;>
    rw [if_pos (by simp only [IntTy.inRange, IntTy.min, IntTy.max]; omega)]

theorem keyToValue_serKeyInt (t : IntTy) (n : Int) :
    Wire.keyToValue (serKeyInt t n) = serInt t n := by
  cases t <;> rfl

theorem keyEq_serKeyInt (t : IntTy) (n m : Int) (hn : t.inRange n) (hm : t.inRange m)
    (h : keyEq (serKeyInt t n) (serKeyInt t m) = true) : n = m := by
  cases t <;>
    simp only [IntTy.inRange, IntTy.min, IntTy.max] at hn hm <;>
    simp only [keyEq, serKeyInt, keyNum, beq_iff_eq] at h <;>
    omega

/-! ## keys -/

theorem key_facts (fc : FloatCasts) (kt : STy) (k : SVal) (hg : goodKeyTy kt = true)
    (ht : HasTy fc kt k) :
    ∃ key, serKey k = .ok key ∧ de fc kt (Wire.keyToValue key) = .ok k := by
  cases kt <;> simp [goodKeyTy] at hg <;> cases k <;> simp [HasTy] at ht
  · exact ⟨_, rfl, by simp [Wire.keyToValue, de]⟩
  · obtain ⟨rfl, hr⟩ := ht
    exact ⟨_, rfl, by rw [keyToValue_serKeyInt, de, deInt_serInt _ _ hr]⟩
  · exact ⟨_, rfl, by simp [Wire.keyToValue, de]⟩
  · exact ⟨_, rfl, by simp [Wire.keyToValue, de]⟩

theorem key_inj (fc : FloatCasts) (kt : STy) (k k' : SVal) (hg : goodKeyTy kt = true)
    (ht : HasTy fc kt k) (ht' : HasTy fc kt k') (a b : Key)
    (ha : serKey k = .ok a) (hb : serKey k' = .ok b) (h : keyEq a b = true) : k = k' := by
  cases kt <;> simp [goodKeyTy] at hg <;> cases k <;> simp [HasTy] at ht <;>
    cases k' <;> simp [HasTy] at ht' <;> simp [serKey] at ha hb <;> subst ha hb
  · simpa [keyEq] using h
  · obtain ⟨rfl, hr⟩ := ht
    obtain ⟨rfl, hr'⟩ := ht'
    rw [keyEq_serKeyInt _ _ _ hr hr' h]
  · simpa [keyEq] using h
  · simpa [keyEq] using h

/-! ## maps -/

theorem mapInsert_append (k : Key) (v : Value) (acc : List (Key × Value))
    (h : ∀ a ∈ acc, keyEq a.1 k = false) : mapInsert k v acc = acc ++ [(k, v)] := by
  induction acc with
  | nil => rfl
  | cons a acc ih =>
    obtain ⟨k', v'⟩ := a
    have h1 : keyEq k' k = false := h (k', v') (by simp)
    simp only [mapInsert, h1, Bool.false_eq_true, if_false, List.cons_append]
    rw [ih (fun a ha => h a (by simp [ha]))]

/-- the entry-wise deserialiser of `de (.map kt vt)` -/
def deEntry (fc : FloatCasts) (kt vt : STy) (e : Key × Value) : Except DeErr (SVal × SVal) :=
  match de fc kt (Wire.keyToValue e.1) with
  | .error err => Except.error err
  | .ok k => match de fc vt e.2 with | .ok x => .ok (k, x) | .error err => .error err

theorem serEntries_rt (fc : FloatCasts) (kt vt : STy) (hg : goodKeyTy kt = true)
    (ih : ∀ v, HasTy fc vt v → ∃ x, ser v = .ok x ∧ de fc vt x = .ok v)
    (es : List (SVal × SVal)) :
    (∀ e ∈ es, HasTy fc kt e.1 ∧ HasTy fc vt e.2) → (es.map (·.1)).Nodup →
    ∀ acc : List (Key × Value),
      (∀ a ∈ acc, ∀ e ∈ es, ∀ key, serKey e.1 = .ok key → keyEq a.1 key = false) →
      ∃ m, serEntries es acc = .ok (acc ++ m) ∧ mapE (deEntry fc kt vt) m = .ok es := by
  induction es with
  | nil => intro _ _ acc _; exact ⟨[], by simp [serEntries], rfl⟩
  | cons e es ihes =>
    intro hty hnd acc hacc
    obtain ⟨k, v⟩ := e
    have hk := (hty (k, v) (by simp)).1
    have hv := (hty (k, v) (by simp)).2
    obtain ⟨key, hkey, hdek⟩ := key_facts fc kt k hg hk
    obtain ⟨x, hx, hdex⟩ := ih v hv
    simp only [List.map_cons, List.nodup_cons] at hnd
    have hins : mapInsert key x acc = acc ++ [(key, x)] :=
      mapInsert_append key x acc (fun a ha => hacc a ha (k, v) (by simp) key hkey)
    obtain ⟨m, hm, hde⟩ := ihes (fun e he => hty e (by simp [he])) hnd.2 (acc ++ [(key, x)]) (by
      intro a ha e he key' hkey'
      rcases List.mem_append.1 ha with ha | ha
      · exact hacc a ha e (by simp [he]) key' hkey'
      · simp only [List.mem_singleton] at ha
        subst ha
        cases hkk : keyEq key key' with
        | false => rfl
        | true =>
          exfalso
          have := key_inj fc kt k e.1 hg hk (hty e (by simp [he])).1 key key' hkey hkey' hkk
          exact hnd.1 (List.mem_map.2 ⟨e, he, this.symm⟩))
    refine ⟨(key, x) :: m, ?_, ?_⟩
    · simp only [serEntries, hkey, hx, hins, hm, List.append_assoc, List.singleton_append]
    · simp only [mapE, deEntry, hdek, hdex, hde]

/-! ## sequences -/

theorem serList_rt (f : Value → Except DeErr SVal) (xs : List SVal)
    (h : ∀ x ∈ xs, ∃ y, ser x = .ok y ∧ f y = .ok x) :
    ∃ ys, serList xs = .ok ys ∧ mapE f ys = .ok xs := by
  induction xs with
  | nil => exact ⟨[], by simp [serList], rfl⟩
  | cons x xs ih =>
    obtain ⟨y, hy, hf⟩ := h x (by simp)
    obtain ⟨ys, hys, hfs⟩ := ih (fun x hx => h x (by simp [hx]))
    exact ⟨y :: ys, by simp [serList, hy, hys], by simp [mapE, hf, hfs]⟩

/-! ## `Option`: a value of a type that is not none-like never serialises to none / undefined -/

theorem ser_not_none (fc : FloatCasts) : ∀ (t : STy) (v : SVal) (x : Value),
    noneLike t = false → HasTy fc t v → ser v = .ok x → x ≠ .none ∧ x ≠ .undef
  | .bool, v, x, _, ht, hs => by
    cases v <;> simp [HasTy] at ht; simp [ser] at hs; subst hs; simp
  | .int _, v, x, _, ht, hs => by
    cases v <;> simp [HasTy] at ht; simp [ser] at hs; subst hs
    rename_i t n; cases t <;> simp [serInt]
  | .f32, v, x, _, ht, hs => by
    cases v <;> simp [HasTy] at ht; simp [ser] at hs; subst hs; simp
  | .f64, v, x, _, ht, hs => by
    cases v <;> simp [HasTy] at ht; simp [ser] at hs; subst hs; simp
  | .char, v, x, _, ht, hs => by
    cases v <;> simp [HasTy] at ht; simp [ser] at hs; subst hs; simp
  | .string, v, x, _, ht, hs => by
    cases v <;> simp [HasTy] at ht; simp [ser] at hs; subst hs; simp
  | .cstring, v, x, _, ht, hs => by
    cases v <;> simp [HasTy] at ht; simp [ser] at hs; subst hs; simp
  | .unit, _, _, hn, _, _ => by simp [noneLike] at hn
  | .unitStruct, _, _, hn, _, _ => by simp [noneLike] at hn
  | .option _, _, _, hn, _, _ => by simp [noneLike] at hn
  | .seq _, v, x, _, ht, hs => by
    cases v <;> simp [HasTy] at ht; simp only [ser] at hs; split at hs <;> simp at hs; subst hs; simp
  | .tuple _, v, x, _, ht, hs => by
    cases v <;> simp [HasTy] at ht; simp only [ser] at hs; split at hs <;> simp at hs; subst hs; simp
  | .map _ _, v, x, _, ht, hs => by
    cases v <;> simp [HasTy] at ht; simp only [ser] at hs; split at hs <;> simp at hs; subst hs; simp
  | .struct _, v, x, _, ht, hs => by
    cases v <;> simp [HasTy] at ht; simp only [ser] at hs; split at hs <;> simp at hs; subst hs; simp
  | .newtype t, v, x, hn, ht, hs => by
    cases v <;> simp [HasTy] at ht
    simp only [ser] at hs
    exact ser_not_none fc t _ x (by simpa [noneLike] using hn) ht hs
  | .enum _, v, x, _, ht, hs => by
    cases v <;> simp [HasTy] at ht
    rename_i n k p
    cases k <;> simp only [ser] at hs
    · simp at hs; subst hs; simp
    all_goals (split at hs <;> simp at hs; subst hs; simp)

/-! ## structs -/

/-- field-wise round trip: `ys` are the serialised field values -/
def FieldsRT (fc : FloatCasts) : List (Name × STy) → List (Name × SVal) → List Value → Prop
  | [], [], [] => True
  | (n, t) :: fs, (m, x) :: xs, y :: ys =>
    n = m ∧ ser x = .ok y ∧ de fc t y = .ok x ∧ FieldsRT fc fs xs ys
  | _, _, _ => False

/-- the entries `serFields` builds -/
def mkEntries : List (Name × STy) → List Value → List (Key × Value)
  | (n, _) :: fs, y :: ys => (.str n, y) :: mkEntries fs ys
  | _, _ => []

theorem keyEq_str (a b : Name) : keyEq (.str a) (.str b) = (a == b) := rfl

theorem serFields_rt (fc : FloatCasts) : ∀ (fs : List (Name × STy)) (xs : List (Name × SVal))
    (ys : List Value) (acc : List (Key × Value)),
    FieldsRT fc fs xs ys → (fs.map (·.1)).Nodup →
    (∀ a ∈ acc, ∀ n ∈ fs.map (·.1), keyEq a.1 (.str n) = false) →
    serFields xs acc = .ok (acc ++ mkEntries fs ys)
  | [], [], [], acc, _, _, _ => by simp [serFields, mkEntries]
  | (n, t) :: fs, (m, x) :: xs, y :: ys, acc, h, hnd, hacc => by
    obtain ⟨rfl, hy, _, hrest⟩ := h
    simp only [List.map_cons, List.nodup_cons] at hnd
    have hins : mapInsert (.str n) y acc = acc ++ [(.str n, y)] :=
      mapInsert_append _ _ _ (fun a ha => hacc a ha n (by simp))
    have := serFields_rt fc fs xs ys (acc ++ [(.str n, y)]) hrest hnd.2 (by
      intro a ha n' hn'
      rcases List.mem_append.1 ha with ha | ha
      · exact hacc a ha n' (by simp [hn'])
      · simp only [List.mem_singleton] at ha
        subst ha
        rw [keyEq_str]
        have : n ≠ n' := fun e => hnd.1 (e ▸ hn')
        simpa using this)
    simp only [serFields, hy, hins, this, mkEntries, List.append_assoc, List.singleton_append]
  | [], [], _ :: _, _, h, _, _ => by simp [FieldsRT] at h
  | [], _ :: _, _, _, h, _, _ => by simp [FieldsRT] at h
  | _ :: _, [], _, _, h, _, _ => by simp [FieldsRT] at h
  | _ :: _, _ :: _, [], _, h, _, _ => by simp [FieldsRT] at h

theorem identOf_str (names : List Name) (k : Name) :
    identOf names (Wire.keyToValue (.str k)) =
      .ok (if names.idxOf k < names.length then some (names.idxOf k) else Option.none) := rfl

theorem idxOf_eq_imp (names : List Name) (a b : Name) (hb : b ∈ names)
    (h : names.idxOf a = names.idxOf b) : a = b := by
  have hb' : names.idxOf b < names.length := List.idxOf_lt_length_of_mem hb
  have ha' : names.idxOf a < names.length := h ▸ hb'
  have h1 : names[names.idxOf a] = a := List.getElem_idxOf ha'
  have h2 : names[names.idxOf b] = b := List.getElem_idxOf hb'
  rw [← h1, ← h2]; simp [h]

theorem cand_nil (names : List Name) (n : Name) (hn : n ∈ names) :
    ∀ es : List (Key × Value), (∀ e ∈ es, ∃ m, e.1 = .str m ∧ m ≠ n) →
    fieldCandidates names (names.idxOf n) es = .ok [] := by
  intro es
  induction es with
  | nil => intro _; rfl
  | cons e es ih =>
    intro h
    obtain ⟨k, v⟩ := e
    obtain ⟨m, hk, hm⟩ := h (k, v) (by simp)
    simp only at hk
    subst hk
    rw [fieldCandidates, identOf_str, ih (fun e he => h e (by simp [he]))]
    simp only
    split
    · rename_i hlt
      have : names.idxOf m ≠ names.idxOf n := fun e => hm (idxOf_eq_imp names m n hn e)
      simp [this]
    · simp

theorem cand_one (names : List Name) (n : Name) (y : Value) (hn : n ∈ names) :
    ∀ es : List (Key × Value), (∀ e ∈ es, ∃ m, e.1 = .str m) → (es.map (·.1)).Nodup →
    (Key.str n, y) ∈ es → fieldCandidates names (names.idxOf n) es = .ok [y] := by
  intro es
  induction es with
  | nil => intro _ _ h; simp at h
  | cons e es ih =>
    intro h hnd hmem
    obtain ⟨k, v⟩ := e
    obtain ⟨m, hk⟩ := h (k, v) (by simp)
    simp only at hk
    subst hk
    simp only [List.map_cons, List.nodup_cons] at hnd
    by_cases hmn : m = n
    · subst hmn
      have hv : v = y := by
        rcases List.mem_cons.1 hmem with h1 | h1
        · simpa using h1.symm
        · exact absurd (List.mem_map.2 ⟨_, h1, rfl⟩) hnd.1
      subst hv
      have hrest : fieldCandidates names (names.idxOf m) es = .ok [] := by
        apply cand_nil names m hn
        intro e he
        obtain ⟨m', hm'⟩ := h e (by simp [he])
        refine ⟨m', hm', ?_⟩
        rintro rfl
        exact hnd.1 (List.mem_map.2 ⟨e, he, hm'⟩)
      rw [fieldCandidates, identOf_str, hrest]
      simp [List.idxOf_lt_length_of_mem hn]
    · have hmem' : (Key.str n, y) ∈ es := by
        rcases List.mem_cons.1 hmem with h1 | h1
        · simp at h1; exact absurd h1.1.symm hmn
        · exact h1
      rw [fieldCandidates, identOf_str, ih (fun e he => h e (by simp [he])) hnd.2 hmem']
      simp only
      split
      · have : names.idxOf m ≠ names.idxOf n := fun e => hmn (idxOf_eq_imp names m n hn e)
        simp [this]
      · simp

theorem idxOf_mid (pre : List Name) (n : Name) (post : List Name) (h : (pre ++ n :: post).Nodup) :
    (pre ++ n :: post).idxOf n = pre.length := by
  have hn : n ∉ pre := by
    intro hp
    have := List.nodup_append.1 h
    exact this.2.2 n hp n (by simp) rfl
  rw [List.idxOf_append]
  simp [hn]

theorem deFields_rt (fc : FloatCasts) (names : List Name) (es : List (Key × Value))
    (hkeys : ∀ e ∈ es, ∃ m, e.1 = .str m) (hnd_es : (es.map (·.1)).Nodup) (hnd : names.Nodup) :
    ∀ (fs : List (Name × STy)) (xs : List (Name × SVal)) (ys : List Value) (pre : List Name),
    names = pre ++ fs.map (·.1) → FieldsRT fc fs xs ys → (∀ e ∈ mkEntries fs ys, e ∈ es) →
    deFields fc names pre.length fs es = .ok xs
  | [], [], [], _, _, _, _ => by simp [deFields]
  | (n, t) :: fs, (m, x) :: xs, y :: ys, pre, hnames, h, hsub => by
    obtain ⟨rfl, _, hde, hrest⟩ := h
    have hidx : names.idxOf n = pre.length := by
      subst hnames; exact idxOf_mid pre n _ hnd
    have hn : n ∈ names := by subst hnames; simp
    have hc := cand_one names n y hn es hkeys hnd_es (hsub _ (by simp [mkEntries]))
    rw [hidx] at hc
    have hr := deFields_rt fc names es hkeys hnd_es hnd fs xs ys (pre ++ [n])
      (by simp [hnames]) hrest (fun e he => hsub e (by simp [mkEntries, he]))
    simp only [List.length_append, List.length_singleton] at hr
    rw [deFields, hc]
    simp only [hde, hr]
  | [], [], _ :: _, _, _, h, _ => by simp [FieldsRT] at h
  | [], _ :: _, _, _, _, h, _ => by simp [FieldsRT] at h
  | _ :: _, [], _, _, _, h, _ => by simp [FieldsRT] at h
  | _ :: _, _ :: _, [], _, _, h, _ => by simp [FieldsRT] at h

theorem mkEntries_mem : ∀ (fs : List (Name × STy)) (ys : List Value) (e : Key × Value),
    e ∈ mkEntries fs ys → ∃ n ∈ fs.map (·.1), e.1 = .str n
  | [], _, e, h => by simp [mkEntries] at h
  | _ :: _, [], e, h => by simp [mkEntries] at h
  | (n, t) :: fs, y :: ys, e, h => by
    simp only [mkEntries, List.mem_cons] at h
    rcases h with rfl | h
    · exact ⟨n, by simp, rfl⟩
    · obtain ⟨n', hn', he⟩ := mkEntries_mem fs ys e h
      exact ⟨n', by simp [List.mem_map.1 hn'], he⟩

theorem mkEntries_nodup : ∀ (fs : List (Name × STy)) (ys : List Value),
    (fs.map (·.1)).Nodup → ((mkEntries fs ys).map (·.1)).Nodup
  | [], _, _ => by simp [mkEntries]
  | _ :: _, [], _ => by simp [mkEntries]
  | (n, t) :: fs, y :: ys, h => by
    simp only [List.map_cons, List.nodup_cons] at h
    simp only [mkEntries, List.map_cons, List.nodup_cons]
    refine ⟨?_, mkEntries_nodup fs ys h.2⟩
    intro hmem
    obtain ⟨e, he, hk⟩ := List.mem_map.1 hmem
    obtain ⟨n', hn', he'⟩ := mkEntries_mem fs ys e he
    rw [he'] at hk
    cases hk
    exact h.1 hn'

theorem struct_rt (fc : FloatCasts) (fs : List (Name × STy)) (xs : List (Name × SVal))
    (ys : List Value) (h : FieldsRT fc fs xs ys) (hnd : (fs.map (·.1)).Nodup) :
    ser (.struct xs) = .ok (.map (mkEntries fs ys)) ∧
      de fc (.struct fs) (.map (mkEntries fs ys)) = .ok (.struct xs) := by
  have hs := serFields_rt fc fs xs ys [] h hnd (by simp)
  have hd := deFields_rt fc (fs.map (·.1)) (mkEntries fs ys)
    (fun e he => by obtain ⟨n, _, hn⟩ := mkEntries_mem fs ys e he; exact ⟨n, hn⟩)
    (mkEntries_nodup fs ys hnd) hnd fs xs ys [] (by simp) h (fun e he => he)
  simp only [List.nil_append] at hs
  simp only [List.length_nil] at hd
  constructor
  · simp only [ser, hs]
  · simp only [de, hd]

/-! ## enums -/

/-- what `deVariant` does once it has found the variant -/
def readPayload (fc : FloatCasts) (n : Name) (kind : VKind) (t : STy) (payload : Option Value) :
    Except DeErr SVal :=
  match kind, payload with
  | .unit, Option.none => .ok (.variant n .unit .unit)
  | .unit, some p =>
    match p with
    | .none | .undef => .ok (.variant n .unit .unit)
    | _ => .error .invalidType
  | .newtype, some p => match de fc t p with | .ok x => .ok (.variant n .newtype x) | .error e => .error e
  | .tuple, some (.arr xs) =>
    match de fc t (.arr xs) with | .ok x => .ok (.variant n .tuple x) | .error e => .error e
  | .struct, some (.map es) =>
    match de fc t (.map es) with | .ok x => .ok (.variant n .struct x) | .error e => .error e
  | _, _ => .error .invalidType

theorem deVariant_cons (fc : FloatCasts) (names : List Name) (i : Nat) (n : Name) (kind : VKind)
    (t : STy) (vs : List (Name × VKind × STy)) (ident : Value) (payload : Option Value) :
    deVariant fc names i ((n, kind, t) :: vs) ident payload =
      match identOf names ident with
      | .error e => .error e
      | .ok id =>
        if id = some i then readPayload fc n kind t payload
        else deVariant fc names (i + 1) vs ident payload := by
  conv => lhs; unfold deVariant
  rfl

theorem identOf_name (names : List Name) (n : Name) (hn : n ∈ names) :
    identOf names (.str false n) = .ok (some (names.idxOf n)) := by
  simp [identOf, List.idxOf_lt_length_of_mem hn]

theorem deVariant_walk (fc : FloatCasts) (names : List Name) (hnd : names.Nodup) (n : Name)
    (k : VKind) (t : STy) (payload : Option Value) :
    ∀ (vs : List (Name × VKind × STy)) (pre : List Name), names = pre ++ vs.map (·.1) →
      (n, k, t) ∈ vs →
      deVariant fc names pre.length vs (.str false n) payload = readPayload fc n k t payload := by
  intro vs
  induction vs with
  | nil => intro _ _ h; simp at h
  | cons v vs ih =>
    intro pre hnames hmem
    obtain ⟨n', k', t'⟩ := v
    have hn : n ∈ names := by
      subst hnames
      exact List.mem_append_right _ (List.mem_map.2 ⟨_, hmem, rfl⟩)
    have hidx' : names.idxOf n' = pre.length := by
      subst hnames; exact idxOf_mid pre n' _ hnd
    have hn' : n' ∈ names := by subst hnames; simp
    rw [deVariant_cons, identOf_name names n hn]
    simp only
    rcases List.mem_cons.1 hmem with heq | hmem'
    · cases heq
      rw [if_pos (by rw [hidx'])]
    · have hne : n ≠ n' := by
        rintro rfl
        subst hnames
        have h1 := (List.nodup_append.1 hnd).2.1
        simp only [List.map_cons, List.nodup_cons] at h1
        exact h1.1 (List.mem_map.2 ⟨_, hmem', rfl⟩)
      have hidx : names.idxOf n ≠ pre.length := by
        intro e
        exact hne (idxOf_eq_imp names n n' hn' (e.trans hidx'.symm))
      rw [if_neg (by simpa using hidx)]
      have := ih (pre ++ [n']) (by simp [hnames]) hmem'
      simpa using this

/-- a variant's payload type has the shape its kind says -/
def KindOK : VKind → STy → Prop
  | .unit, .unit => True
  | .newtype, _ => True
  | .tuple, .tuple _ => True
  | .struct, .struct _ => True
  | _, _ => False

theorem enum_rt (fc : FloatCasts) (vs : List (Name × VKind × STy)) (n : Name) (k : VKind) (t : STy)
    (p : SVal) (hnd : (vs.map (·.1)).Nodup) (hmem : (n, k, t) ∈ vs) (hk : KindOK k t)
    (h : if k = .unit then p = .unit else
      HasTy fc t p ∧ ∃ x, ser p = .ok x ∧ de fc t x = .ok p) :
    ∃ x, ser (.variant n k p) = .ok x ∧ de fc (.enum vs) x = .ok (.variant n k p) := by
  have hw := fun payload => deVariant_walk fc (vs.map (·.1)) hnd n k t payload vs [] (by simp) hmem
  simp only [List.length_nil] at hw
  cases k
  · simp only [if_true] at h
    subst h
    refine ⟨.str false n, by simp [ser], ?_⟩
    simp only [de, hw, readPayload]
  · simp only [reduceCtorEq, if_false] at h
    obtain ⟨_, x, hx, hd⟩ := h
    refine ⟨.map [(.str n, x)], by simp [ser, hx], ?_⟩
    simp only [de, Wire.keyToValue, hw, readPayload, hd]
  · simp only [reduceCtorEq, if_false] at h
    obtain ⟨ht, x, hx, hd⟩ := h
    cases t <;> simp only [KindOK] at hk
    cases p <;> simp only [HasTy] at ht
    simp only [ser] at hx
    split at hx <;> simp at hx
    subst hx
    rename_i xs vs' hvs'
    refine ⟨.map [(.str n, .arr vs')], by simp [ser, hvs'], ?_⟩
    simp only [de, Wire.keyToValue, hw, readPayload]
    simp only [de] at hd
    simp only [hd]
  · simp only [reduceCtorEq, if_false] at h
    obtain ⟨ht, x, hx, hd⟩ := h
    cases t <;> simp only [KindOK] at hk
    cases p <;> simp only [HasTy] at ht
    simp only [ser] at hx
    split at hx <;> simp at hx
    subst hx
    rename_i xs m hm
    refine ⟨.map [(.str n, .map m)], by simp [ser, hm], ?_⟩
    simp only [de, Wire.keyToValue, hw, readPayload]
    simp only [de] at hd
    simp only [hd]

/-! ## the main induction -/

theorem famVariant_head (n : Name) (k : VKind) (t : STy) (vs : List (Name × VKind × STy))
    (h : InFamilyVariants ((n, k, t) :: vs)) : KindOK k t ∧ InFamily t ∧ InFamilyVariants vs := by
  rw [InFamilyVariants.eq_def] at h
  obtain ⟨h1, h2⟩ := h
  refine ⟨?_, ?_, h2⟩
  · cases k <;> cases t <;> simp_all [KindOK]
  · cases k <;> cases t <;> simp_all [InFamily]

theorem de_map (fc : FloatCasts) (kt vt : STy) (m : List (Key × Value)) :
    de fc (.map kt vt) (.map m) =
      match mapE (deEntry fc kt vt) m with
      | .ok ys => .ok (.map ys)
      | .error e => .error e := by
  conv => lhs; unfold de
  rfl

mutual
theorem rt_ty (fc : FloatCasts) : (t : STy) → (v : SVal) → InFamily t → HasTy fc t v →
    ∃ x, ser v = .ok x ∧ de fc t x = .ok v
  | .bool, v, _, ht => by
    cases v <;> simp only [HasTy] at ht
    exact ⟨_, rfl, by simp [de]⟩
  | .int t, v, _, ht => by
    cases v <;> simp only [HasTy] at ht
    obtain ⟨rfl, hr⟩ := ht
    exact ⟨_, rfl, by rw [de, deInt_serInt _ _ hr]⟩
  | .f32, v, _, ht => by
    cases v <;> simp only [HasTy] at ht
    exact ⟨_, rfl, by simp [de, ht]⟩
  | .f64, v, _, ht => by
    cases v <;> simp only [HasTy] at ht
    exact ⟨_, rfl, by simp [de]⟩
  | .char, v, _, ht => by
    cases v <;> simp only [HasTy] at ht
    exact ⟨_, rfl, by simp [de]⟩
  | .string, v, _, ht => by
    cases v <;> simp only [HasTy] at ht
    exact ⟨_, rfl, by simp [de]⟩
  | .unit, v, _, ht => by
    cases v <;> simp only [HasTy] at ht
    exact ⟨_, rfl, by simp [de]⟩
  | .cstring, v, _, ht => by
    cases v <;> simp only [HasTy] at ht
    exact ⟨_, rfl, by simp [de, ht.2]⟩
  | .unitStruct, v, _, ht => by
    cases v <;> simp only [HasTy] at ht
    exact ⟨_, rfl, by simp [de]⟩
  | .option t, v, hf, ht => by
    simp only [InFamily] at hf
    cases v <;> simp only [HasTy] at ht
    · exact ⟨.none, rfl, by simp [de]⟩
    · rename_i v
      obtain ⟨x, hx, hd⟩ := rt_ty fc t v hf.2 ht
      have hne := ser_not_none fc t v x hf.1 ht hx
      refine ⟨x, by simp only [ser, hx], ?_⟩
      cases x <;> simp_all [de]
  | .seq t, v, hf, ht => by
    simp only [InFamily] at hf
    cases v <;> simp only [HasTy] at ht
    rename_i xs
    obtain ⟨ys, hys, hd⟩ := serList_rt (de fc t) xs (fun x hx => rt_ty fc t x hf (ht x hx))
    exact ⟨.arr ys, by simp only [ser, hys], by simp only [de, hd]⟩
  | .tuple ts, v, hf, ht => by
    simp only [InFamily] at hf
    cases v <;> simp only [HasTy] at ht
    rename_i xs
    obtain ⟨ys, hys, hd⟩ := rt_tys fc ts xs hf ht
    exact ⟨.arr ys, by simp only [ser, hys], by simp only [de, hd]⟩
  | .map kt vt, v, hf, ht => by
    simp only [InFamily] at hf
    cases v <;> simp only [HasTy] at ht
    rename_i es
    obtain ⟨m, hm, hd⟩ := serEntries_rt fc kt vt hf.1 (fun v hv => rt_ty fc vt v hf.2 hv) es
      ht.1 ht.2 [] (by simp)
    simp only [List.nil_append] at hm
    refine ⟨.map m, by simp only [ser, hm], ?_⟩
    rw [de_map, hd]
  | .struct fs, v, hf, ht => by
    simp only [InFamily] at hf
    cases v <;> simp only [HasTy] at ht
    rename_i xs
    obtain ⟨ys, hys⟩ := rt_fields fc fs xs hf.2 ht
    exact ⟨_, struct_rt fc fs xs ys hys hf.1⟩
  | .newtype t, v, hf, ht => by
    simp only [InFamily] at hf
    cases v <;> simp only [HasTy] at ht
    rename_i v
    obtain ⟨x, hx, hd⟩ := rt_ty fc t v hf ht
    exact ⟨x, by simp only [ser, hx], by simp only [de, hd]⟩
  | .enum vs, v, hf, ht => by
    simp only [InFamily] at hf
    cases v <;> simp only [HasTy] at ht
    rename_i n k p
    obtain ⟨t, hmem, hk, h⟩ := rt_variants fc vs n k p hf.2 ht
    exact enum_rt fc vs n k t p hf.1 hmem hk h

theorem rt_tys (fc : FloatCasts) : (ts : List STy) → (xs : List SVal) → InFamilyList ts →
    HasTys fc ts xs → ∃ ys, serList xs = .ok ys ∧ deTuple fc ts ys = .ok xs
  | [], [], _, _ => ⟨[], by simp [serList], by simp [deTuple]⟩
  | [], _ :: _, _, ht => by simp [HasTys] at ht
  | _ :: _, [], _, ht => by simp [HasTys] at ht
  | t :: ts, x :: xs, hf, ht => by
    simp only [InFamilyList] at hf
    simp only [HasTys] at ht
    obtain ⟨y, hy, hd⟩ := rt_ty fc t x hf.1 ht.1
    obtain ⟨ys, hys, hds⟩ := rt_tys fc ts xs hf.2 ht.2
    exact ⟨y :: ys, by simp [serList, hy, hys], by simp [deTuple, hd, hds]⟩

theorem rt_fields (fc : FloatCasts) : (fs : List (Name × STy)) → (xs : List (Name × SVal)) →
    InFamilyFields fs → HasFields fc fs xs → ∃ ys, FieldsRT fc fs xs ys
  | [], [], _, _ => ⟨[], by simp [FieldsRT]⟩
  | [], _ :: _, _, ht => by simp [HasFields] at ht
  | _ :: _, [], _, ht => by simp [HasFields] at ht
  | (n, t) :: fs, (m, x) :: xs, hf, ht => by
    simp only [InFamilyFields] at hf
    simp only [HasFields] at ht
    obtain ⟨y, hy, hd⟩ := rt_ty fc t x hf.1 ht.2.1
    obtain ⟨ys, hys⟩ := rt_fields fc fs xs hf.2 ht.2.2
    exact ⟨y :: ys, by simp only [FieldsRT]; exact ⟨ht.1, hy, hd, hys⟩⟩

theorem rt_variants (fc : FloatCasts) : (vs : List (Name × VKind × STy)) → (n : Name) →
    (k : VKind) → (p : SVal) → InFamilyVariants vs → HasVariant fc vs n k p →
    ∃ t, (n, k, t) ∈ vs ∧ KindOK k t ∧
      (if k = .unit then p = .unit else HasTy fc t p ∧ ∃ x, ser p = .ok x ∧ de fc t x = .ok p)
  | [], _, _, _, _, ht => by simp [HasVariant] at ht
  | (n', k', t') :: vs, n, k, p, hf, ht => by
    obtain ⟨hk, hft, hfvs⟩ := famVariant_head n' k' t' vs hf
    simp only [HasVariant] at ht
    rcases ht with ⟨rfl, rfl, hp⟩ | ht
    · refine ⟨t', by simp, hk, ?_⟩
      by_cases hu : k' = .unit
      · simpa [hu] using hp
      · simp only [hu, if_false] at hp ⊢
        exact ⟨hp, rt_ty fc t' p hft hp⟩
    · obtain ⟨t, hmem, h⟩ := rt_variants fc vs n k p hfvs ht
      exact ⟨t, by simp [hmem], h⟩
end

theorem roundtrip_main (fc : FloatCasts) (t : STy) (v : SVal)
    (hfam : InFamily t) (hty : HasTy fc t v) :
    ∃ x, ser v = .ok x ∧ de fc t x = .ok v :=
  rt_ty fc t v hfam hty

end Tera.Serde
