/-
`add_raw_templates`: the undo loop restores the template map (Model/Registry.lean).
-/
import TeraModel.Model.Registry
namespace Tera.Reg

theorem eget_name {ts : List Entry} {k : String} {e : Entry} (h : eget ts k = some e) :
    e.tpl.name = k := by
  unfold eget at h
  have := List.find?_some h
  simpa using this

theorem eget_mem {ts : List Entry} {k : String} {e : Entry} (h : eget ts k = some e) : e ∈ ts := by
  unfold eget at h
  exact List.mem_of_find?_eq_some h

theorem eget_filter_ne (ts : List Entry) (n k : String) :
    eget (ts.filter (fun x => !(x.tpl.name == n))) k = if n = k then none else eget ts k := by
  induction ts with
  | nil => simp [eget]
  | cons e ts ih =>
    unfold eget at ih ⊢
    by_cases hn : e.tpl.name = n
    · have : (e.tpl.name == n) = true := by simpa using hn
      simp only [List.filter, this, Bool.not_true]
      rw [ih]
      by_cases hk : n = k
      · simp [hk]
      · have : (e.tpl.name == k) = false := by
          have : ¬ e.tpl.name = k := fun h => hk (hn ▸ h)
          simpa using this
        simp [hk, List.find?, this]
    · have : (e.tpl.name == n) = false := by simpa using hn
      simp only [List.filter, this, Bool.not_false]
      by_cases hk : e.tpl.name = k
      · have h1 : (e.tpl.name == k) = true := by simpa using hk
        have h2 : ¬ n = k := fun h => hn (hk.trans h.symm)
        simp [List.find?, h1, h2]
      · have h1 : (e.tpl.name == k) = false := by simpa using hk
        simp only [List.find?, h1]
        exact ih

/-- `HashMap::insert` -/
theorem eget_einsert (ts : List Entry) (e : Entry) (k : String) :
    eget (einsert ts e) k = if e.tpl.name = k then some e else eget ts k := by
  unfold einsert
  by_cases h : e.tpl.name = k
  · have : (e.tpl.name == k) = true := by simpa using h
    simp [eget, List.find?, h]
  · have h1 : (e.tpl.name == k) = false := by simpa using h
    have := eget_filter_ne ts e.tpl.name k
    simp only [h, if_false] at this ⊢
    rw [← this]
    simp [eget, List.find?, h1]

/-- `HashMap::remove` -/
theorem eget_eremove (ts : List Entry) (n k : String) :
    eget (eremove ts n) k = if n = k then none else eget ts k :=
  eget_filter_ne ts n k

/-- one undo step only depends on the map, not on the list representing it -/
theorem eget_undoOne (X ts : List Entry) (t : Tpl)
    (hX : ∀ k, eget X k = eget (einsert ts (Entry.fresh t)) k) (k : String) :
    eget (undoOne X (t.name, eget ts t.name)) k = eget ts k := by
  cases ho : eget ts t.name with
  | some old =>
    simp only [undoOne]
    rw [eget_einsert, eget_name ho]
    by_cases h : t.name = k
    · subst h; simp [ho]
    · simp only [h, if_false]
      rw [hX k, eget_einsert]
      simp [Entry.fresh, h]
  | none =>
    simp only [undoOne]
    rw [eget_eremove]
    by_cases h : t.name = k
    · subst h; simp [ho]
    · simp only [h, if_false]
      rw [hX k, eget_einsert]
      simp [Entry.fresh, h]

theorem undo_cons (ts : List Entry) (e : String × Option Entry) (log : UndoLog) :
    undo ts (e :: log) = undoOne (undo ts log) e := by
  simp [undo, List.foldl_append]

/-- The insert loop followed by the undo loop, for every prior map, every prior log and every batch
(duplicate names inside the batch included): the entries added to the log undo exactly the inserts. -/
theorem insertBatch_undo :
    ∀ (items : List Item) (ts : List Entry) (log : UndoLog),
      ∃ added, (insertBatch ts log items).2.1 = log ++ added ∧
        ∀ k, eget (undo (insertBatch ts log items).1 added) k = eget ts k := by
  intro items
  induction items with
  | nil => intro ts log; exact ⟨[], by simp [insertBatch], fun k => by simp [insertBatch, undo]⟩
  | cons it rest ih =>
    intro ts log
    cases it with
    | bad n => exact ⟨[], by simp [insertBatch], fun k => by simp [insertBatch, undo]⟩
    | good t =>
      obtain ⟨added, h1, h2⟩ := ih (einsert ts (Entry.fresh t)) (log ++ [(t.name, eget ts t.name)])
      refine ⟨(t.name, eget ts t.name) :: added, ?_, ?_⟩
      · simp only [insertBatch]
        rw [h1]; simp
      · intro k
        simp only [insertBatch]
        rw [undo_cons]
        exact eget_undoOne _ ts t h2 k

end Tera.Reg
