/-
Generic theory of three-way comparisons restricted to a domain: what "total order up to an
equivalence" means (`OrdLaws`), its consequences, and its stability under the constructions the
Rust code uses (lexicographic slices, tuples, kind rank fallback, pull-back along a function).
No nested induction happens here; Lemmas/ValueOrder.lean instantiates these by size induction.
-/
import TeraModel.Model.KeyModel
import Mathlib.Tactic.Linarith
set_option linter.unusedVariables false
namespace Tera

/-- A comparison that is a total preorder on the domain `D`: swapping the operands reverses the
answer, and `≤` is transitive.  Everything else (reflexivity, transitivity of `<` and of
`Equal`, congruence of `Equal`) follows. -/
structure OrdLaws {α : Type} (D : α → Prop) (cmp : α → α → Ordering) : Prop where
  rev : ∀ a b, D a → D b → cmp b a = (cmp a b).swap
  le_trans : ∀ a b c, D a → D b → D c → cmp a b ≠ .gt → cmp b c ≠ .gt → cmp a c ≠ .gt

namespace OrdLaws
variable {α : Type} {D : α → Prop} {cmp : α → α → Ordering}

theorem refl (h : OrdLaws D cmp) {a : α} (da : D a) : cmp a a = .eq := by
  have := h.rev a a da da
  cases hc : cmp a a <;> simp_all [Ordering.swap]

theorem eq_symm (h : OrdLaws D cmp) {a b : α} (da : D a) (db : D b) (e : cmp a b = .eq) :
    cmp b a = .eq := by
  rw [h.rev a b da db, e]; rfl

theorem gt_of_lt (h : OrdLaws D cmp) {a b : α} (da : D a) (db : D b) (e : cmp a b = .lt) :
    cmp b a = .gt := by
  rw [h.rev a b da db, e]; rfl

theorem lt_of_gt (h : OrdLaws D cmp) {a b : α} (da : D a) (db : D b) (e : cmp a b = .gt) :
    cmp b a = .lt := by
  rw [h.rev a b da db, e]; rfl

theorem eq_trans (h : OrdLaws D cmp) {a b c : α} (da : D a) (db : D b) (dc : D c)
    (e1 : cmp a b = .eq) (e2 : cmp b c = .eq) : cmp a c = .eq := by
  have h1 := h.le_trans a b c da db dc (by simp [e1]) (by simp [e2])
  have h2 := h.le_trans c b a dc db da (by simp [h.eq_symm db dc e2]) (by simp [h.eq_symm da db e1])
  have h3 := h.rev a c da dc
  cases hc : cmp a c <;> simp_all [Ordering.swap]

theorem congr_left (h : OrdLaws D cmp) {a b c : α} (da : D a) (db : D b) (dc : D c)
    (e : cmp a b = .eq) : cmp a c = cmp b c := by
  have eba := h.eq_symm da db e
  cases hbc : cmp b c with
  | eq => exact h.eq_trans da db dc e hbc
  | lt =>
    have h1 := h.le_trans a b c da db dc (by simp [e]) (by simp [hbc])
    cases hac : cmp a c with
    | lt => rfl
    | gt => exact absurd hac h1
    | eq =>
      have hca := h.eq_symm da dc hac
      have := h.le_trans c a b dc da db (by simp [hca]) (by simp [e])
      rw [h.gt_of_lt db dc hbc] at this
      exact absurd rfl this
  | gt =>
    have hcb := h.lt_of_gt db dc hbc
    have h1 := h.le_trans c b a dc db da (by simp [hcb]) (by simp [eba])
    cases hac : cmp a c with
    | gt => rfl
    | lt => rw [h.gt_of_lt da dc hac] at h1; exact absurd rfl h1
    | eq =>
      have := h.le_trans b a c db da dc (by simp [eba]) (by simp [hac])
      exact absurd hbc this

theorem congr_right (h : OrdLaws D cmp) {a b c : α} (da : D a) (db : D b) (dc : D c)
    (e : cmp b c = .eq) : cmp a b = cmp a c := by
  rw [h.rev b a db da, h.rev c a dc da, h.congr_left db dc da e]

theorem lt_trans (h : OrdLaws D cmp) {a b c : α} (da : D a) (db : D b) (dc : D c)
    (e1 : cmp a b = .lt) (e2 : cmp b c = .lt) : cmp a c = .lt := by
  have h1 := h.le_trans a b c da db dc (by simp [e1]) (by simp [e2])
  cases hac : cmp a c with
  | lt => rfl
  | gt => exact absurd hac h1
  | eq =>
    have := h.congr_left da dc db hac
    rw [e1, h.gt_of_lt db dc e2] at this
    exact absurd this (by decide)

/-- Restricting the domain keeps the laws. -/
theorem mono (h : OrdLaws D cmp) {D' : α → Prop} (sub : ∀ a, D' a → D a) : OrdLaws D' cmp :=
  ⟨fun a b da db => h.rev a b (sub a da) (sub b db),
   fun a b c da db dc => h.le_trans a b c (sub a da) (sub b db) (sub c dc)⟩

/-- Pull-back along a function (`sort_by_key`, comparing decorated pairs by their key, …). -/
theorem comap (h : OrdLaws D cmp) {β : Type} (f : β → α) :
    OrdLaws (fun b => D (f b)) (fun x y => cmp (f x) (f y)) :=
  ⟨fun a b da db => h.rev _ _ da db, fun a b c da db dc => h.le_trans _ _ _ da db dc⟩

end OrdLaws

/-! ### basic comparisons -/

theorem cmpNat_lt {a b : Nat} : cmpNat a b = .lt ↔ a < b := by
  unfold cmpNat; split
  · simp_all
  · split <;> simp_all
theorem cmpNat_eq {a b : Nat} : cmpNat a b = .eq ↔ a = b := by
  unfold cmpNat; split
  · simp; omega
  · split <;> simp_all
theorem cmpNat_gt {a b : Nat} : cmpNat a b = .gt ↔ b < a := by
  unfold cmpNat; split
  · simp; omega
  · split
    · simp; omega
    · simp; omega

theorem cmpNat_laws : OrdLaws (fun _ => True) cmpNat where
  rev a b _ _ := by
    rcases Nat.lt_trichotomy a b with h | h | h
    · rw [cmpNat_lt.2 h, cmpNat_gt.2 h]; rfl
    · subst h; rw [cmpNat_eq.2 rfl]; rfl
    · rw [cmpNat_gt.2 h, cmpNat_lt.2 h]; rfl
  le_trans a b c _ _ _ h1 h2 := by
    have : ¬ b < a := fun h => h1 (cmpNat_gt.2 h)
    have : ¬ c < b := fun h => h2 (cmpNat_gt.2 h)
    intro h; have := cmpNat_gt.1 h; omega

theorem cmpInt_lt' {a b : Int} : cmpInt a b = .lt ↔ a < b := by
  unfold cmpInt; split
  · simp_all
  · split <;> simp_all
theorem cmpInt_eq' {a b : Int} : cmpInt a b = .eq ↔ a = b := by
  unfold cmpInt; split
  · simp; omega
  · split <;> simp_all
theorem cmpInt_gt' {a b : Int} : cmpInt a b = .gt ↔ b < a := by
  unfold cmpInt; split
  · simp; omega
  · split
    · simp; omega
    · simp; omega

theorem cmpInt_laws : OrdLaws (fun _ => True) cmpInt where
  rev a b _ _ := by
    rcases lt_trichotomy a b with h | h | h
    · rw [cmpInt_lt'.2 h, cmpInt_gt'.2 h]; rfl
    · subst h; rw [cmpInt_eq'.2 rfl]; rfl
    · rw [cmpInt_gt'.2 h, cmpInt_lt'.2 h]; rfl
  le_trans a b c _ _ _ h1 h2 := by
    have : ¬ b < a := fun h => h1 (cmpInt_gt'.2 h)
    have : ¬ c < b := fun h => h2 (cmpInt_gt'.2 h)
    intro h; have := cmpInt_gt'.1 h; omega

theorem cmpBool_laws : OrdLaws (fun _ => True) cmpBool where
  rev a b _ _ := by cases a <;> cases b <;> rfl
  le_trans a b c _ _ _ := by cases a <;> cases b <;> cases c <;> simp [cmpBool]

theorem cmpBool_eq {a b : Bool} : cmpBool a b = .eq ↔ a = b := by
  cases a <;> cases b <;> simp [cmpBool]

/-! ### lexicographic comparison of slices -/

theorem lexCmp_laws {α : Type} {D : α → Prop} {f : α → α → Ordering} (h : OrdLaws D f) :
    OrdLaws (fun l : List α => ∀ x ∈ l, D x) (lexCmp f) where
  rev a := by
    induction a with
    | nil => intro b _ _; cases b <;> rfl
    | cons x xs ih =>
      intro b da db
      cases b with
      | nil => rfl
      | cons y ys =>
        have dx := da x (by simp)
        have dy := db y (by simp)
        have r := h.rev x y dx dy
        have ih' := ih ys (fun z hz => da z (by simp [hz])) (fun z hz => db z (by simp [hz]))
        simp only [lexCmp]
        cases hxy : f x y <;> simp_all [Ordering.swap]
  le_trans a := by
    induction a with
    | nil =>
      intro b c _ _ _ _ _
      cases c <;> simp [lexCmp]
    | cons x xs ih =>
      intro b c da db dc h1 h2
      cases b with
      | nil => simp [lexCmp] at h1
      | cons y ys =>
        cases c with
        | nil => simp [lexCmp] at h2
        | cons z zs =>
          have dx := da x (by simp)
          have dy := db y (by simp)
          have dz := dc z (by simp)
          have ih' := ih ys zs (fun w hw => da w (by simp [hw])) (fun w hw => db w (by simp [hw]))
            (fun w hw => dc w (by simp [hw]))
          simp only [lexCmp] at h1 h2 ⊢
          cases hxy : f x y with
          | gt => simp [hxy] at h1
          | lt =>
            cases hyz : f y z with
            | gt => simp [hyz] at h2
            | lt => simp [h.lt_trans dx dy dz hxy hyz]
            | eq => rw [← h.congr_right dx dy dz hyz, hxy]; simp
          | eq =>
            rw [h.congr_left dx dy dz hxy]
            cases hyz : f y z with
            | gt => simp [hyz] at h2
            | lt => simp
            | eq =>
              simp only [hxy, hyz] at h1 h2 ⊢
              exact ih' h1 h2

/-- `lexCmp` answers `Equal` exactly for lists of the same length that are element-wise `Equal`. -/
theorem lexCmp_eq_iff {α β : Type} (f : α → β → Ordering) (a : List α) (b : List β) :
    lexCmp f a b = .eq ↔ List.Forall₂ (fun x y => f x y = .eq) a b := by
  induction a generalizing b with
  | nil =>
    cases b with
    | nil => simp [lexCmp]
    | cons y ys => simp only [lexCmp]; constructor <;> intro h <;> cases h
  | cons x xs ih =>
    cases b with
    | nil => simp only [lexCmp]; constructor <;> intro h <;> cases h
    | cons y ys =>
      simp only [lexCmp, List.forall₂_cons]
      cases hxy : f x y <;> simp [ih]

/-! ### tuples -/

/-- `(a1, b1).cmp(&(a2, b2))`. -/
def pairCmp {α β : Type} (f : α → α → Ordering) (g : β → β → Ordering) (x y : α × β) : Ordering :=
  match f x.1 y.1 with
  | .eq => g x.2 y.2
  | o => o

theorem pairCmp_laws {α β : Type} {D : α → Prop} {E : β → Prop} {f : α → α → Ordering}
    {g : β → β → Ordering} (hf : OrdLaws D f) (hg : OrdLaws E g) :
    OrdLaws (fun p : α × β => D p.1 ∧ E p.2) (pairCmp f g) where
  rev a b da db := by
    have r1 := hf.rev a.1 b.1 da.1 db.1
    have r2 := hg.rev a.2 b.2 da.2 db.2
    simp only [pairCmp]
    cases h : f a.1 b.1 <;> simp_all [Ordering.swap]
  le_trans a b c da db dc h1 h2 := by
    simp only [pairCmp] at h1 h2 ⊢
    cases hxy : f a.1 b.1 with
    | gt => simp [hxy] at h1
    | lt =>
      cases hyz : f b.1 c.1 with
      | gt => simp [hyz] at h2
      | lt => simp [hf.lt_trans da.1 db.1 dc.1 hxy hyz]
      | eq => rw [← hf.congr_right da.1 db.1 dc.1 hyz, hxy]; simp
    | eq =>
      rw [hf.congr_left da.1 db.1 dc.1 hxy]
      cases hyz : f b.1 c.1 with
      | gt => simp [hyz] at h2
      | lt => simp
      | eq =>
        simp only [hxy, hyz] at h1 h2 ⊢
        exact hg.le_trans _ _ _ da.2 db.2 dc.2 h1 h2

/-! ### kinds ordered by rank, each kind by its own comparison -/

/-- If values of different rank compare by rank and values of the same rank obey the laws, the
whole comparison obeys them. -/
theorem rank_laws {α : Type} {D : α → Prop} {cmp : α → α → Ordering} (rank : α → Nat)
    (cross : ∀ a b, D a → D b → rank a ≠ rank b → cmp a b = cmpNat (rank a) (rank b))
    (same : ∀ r, OrdLaws (fun a => D a ∧ rank a = r) cmp) : OrdLaws D cmp where
  rev a b da db := by
    by_cases hr : rank a = rank b
    · exact (same (rank a)).rev a b ⟨da, rfl⟩ ⟨db, hr.symm⟩
    · rw [cross a b da db hr, cross b a db da (Ne.symm hr)]
      exact cmpNat_laws.rev _ _ trivial trivial
  le_trans a b c da db dc h1 h2 := by
    by_cases hab : rank a = rank b
    · by_cases hbc : rank b = rank c
      · exact (same (rank a)).le_trans a b c ⟨da, rfl⟩ ⟨db, hab.symm⟩ ⟨dc, by omega⟩ h1 h2
      · rw [cross b c db dc hbc] at h2
        rw [cross a c da dc (by omega)]
        have : ¬ rank c < rank b := fun h => h2 (cmpNat_gt.2 h)
        intro h; have := cmpNat_gt.1 h; omega
    · rw [cross a b da db hab] at h1
      have hlt : ¬ rank b < rank a := fun h => h1 (cmpNat_gt.2 h)
      by_cases hbc : rank b = rank c
      · rw [cross a c da dc (by omega)]
        intro h; have := cmpNat_gt.1 h; omega
      · rw [cross b c db dc hbc] at h2
        have : ¬ rank c < rank b := fun h => h2 (cmpNat_gt.2 h)
        rw [cross a c da dc (by omega)]
        intro h; have := cmpNat_gt.1 h; omega

/-- Laws proved for a comparison transfer to one that agrees with it on the domain. -/
theorem OrdLaws.of_eq {α : Type} {D : α → Prop} {f g : α → α → Ordering} (h : OrdLaws D f)
    (e : ∀ a b, D a → D b → g a b = f a b) : OrdLaws D g where
  rev a b da db := by rw [e b a db da, e a b da db]; exact h.rev a b da db
  le_trans a b c da db dc := by
    rw [e a b da db, e b c db dc, e a c da dc]; exact h.le_trans a b c da db dc

end Tera
