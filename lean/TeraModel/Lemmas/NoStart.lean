/-
A source without any start delimiter is one `Content` token (helper lemmas for C08
`no_start_delim_identity`).
-/
import TeraModel.Lemmas.LexLoop
import TeraModel.Lemmas.WsFilterLemmas
namespace Tera.Lexer
open Tera Utf8 WsFilter

/-- `needle` occurs in `s` as a contiguous byte sequence -/
def Occurs (needle s : Bytes) : Prop := ∃ pre post, s = pre ++ needle ++ post

theorem Occurs.cons {needle s : Bytes} (a : Nat) (h : Occurs needle s) : Occurs needle (a :: s) := by
  obtain ⟨pre, post, rfl⟩ := h
  exact ⟨a :: pre, post, by simp⟩

/-- no start delimiter occurs in `s` -/
def NoStart (d : Delims) (s : Bytes) : Prop :=
  ¬ Occurs d.variableStart s ∧ ¬ Occurs d.blockStart s ∧ ¬ Occurs d.commentStart s

theorem findStartMarkerGo_none (d : Delims) : ∀ (s : Bytes) (i : Nat), NoStart d s →
    findStartMarkerGo d s i = none := by
  intro s
  induction s with
  | nil => intro i _; simp [findStartMarkerGo]
  | cons a t ih =>
    intro i h
    cases t with
    | nil => simp [findStartMarkerGo]
    | cons b t' =>
      unfold findStartMarkerGo
      split
      · rename_i hm
        exfalso
        rcases hm with hm | hm | hm
        · exact h.1 ⟨[], t', by rw [← hm]; simp⟩
        · exact h.2.1 ⟨[], t', by rw [← hm]; simp⟩
        · exact h.2.2 ⟨[], t', by rw [← hm]; simp⟩
      · apply ih
        exact ⟨fun o => h.1 (o.cons a), fun o => h.2.1 (o.cons a), fun o => h.2.2 (o.cons a)⟩

theorem getRange_occurs {s x : Bytes} {b : Nat} (h : getRange s 0 b = some x) : Occurs x s := by
  unfold getRange at h
  split at h
  · simp only [List.drop_zero, Nat.sub_zero, Option.some.injEq] at h
    exact ⟨[], s.drop b, by rw [← h]; simp⟩
  · cases h

theorem contentLen_noStart {d : Delims} {s : Bytes} (h : NoStart d s) : contentLen d s = s.length := by
  unfold contentLen findStartMarker
  rw [findStartMarkerGo_none d s 0 h]

/-- in a source without start delimiter the first pass emits the whole source as one `Content` -/
theorem stepTemplate_noStart {d : Delims} {src : Bytes} (h : NoStart d src) (st : List State) :
    ∃ sp p', stepTemplate d (startPos src) st = .emit (.content src) sp p' st ∧ p'.rest = [] := by
  obtain ⟨p', hp'⟩ := advance_of_boundary (p := startPos src) (n := src.length) (isBoundary_length _)
  have hadv := (advance_ok hp').1
  refine ⟨mkSpan (startPos src) p', p', ?_, ?_⟩
  · unfold stepTemplate
    simp only
    have h1 : getRange (startPos src).rest 0 2 ≠ some d.variableStart := fun e => h.1 (getRange_occurs e)
    have h2 : getRange (startPos src).rest 0 2 ≠ some d.blockStart := fun e => h.2.1 (getRange_occurs e)
    have h3 : getRange (startPos src).rest 0 2 ≠ some d.commentStart := fun e => h.2.2 (getRange_occurs e)
    simp only [h1, h2, h3, if_false]
    have : contentLen d (startPos src).rest = src.length := contentLen_noStart h
    rw [this, hp']
    simp [startPos]
  · rw [hadv.2.1]; simp [startPos]

theorem basicTokenize_noStart {d : Delims} {src : Bytes} (h : NoStart d src) (hne : src ≠ []) :
    ∃ sp, basicTokenize d src = ⟨[(.content src, sp)], .eof⟩ := by
  obtain ⟨sp, p', hstep, hrest⟩ := stepTemplate_noStart h [.template]
  refine ⟨sp, ?_⟩
  unfold basicTokenize
  have hl : src.length + 1 = (src.length - 1 + 1) + 1 := by
    have : 0 < src.length := List.length_pos_iff.mpr hne
    omega
  rw [hl]
  rw [lexLoop]
  have : (startPos src).rest ≠ [] := by simpa [startPos] using hne
  simp only [this, if_false, step, hstep]
  rw [lexLoop]
  simp [hrest]

theorem basicTokenize_nil (d : Delims) : basicTokenize d [] = ⟨[], .eof⟩ := by
  simp [basicTokenize, lexLoop, startPos]

theorem skeleton_noStart {d : Delims} {src : Bytes} (h : NoStart d src) :
    (tokenize d src).ending = .eof ∧ skeleton (tokenize d src).tokens = .ok src := by
  by_cases hne : src = []
  · subst hne
    simp [tokenize, whitespaceFilter, basicTokenize_nil, filterGo, skeleton, skeletonGo]
  · obtain ⟨sp, hb⟩ := basicTokenize_noStart h hne
    simp only [tokenize, whitespaceFilter, hb, filterGo, handleContent, peekTrimsEnd, skeleton, skeletonGo]
    cases src with
    | nil => exact absurd rfl hne
    | cons a t => simp [Skel.map]

end Tera.Lexer
