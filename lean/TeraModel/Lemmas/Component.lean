/-
Helper lemmas for C05: `bindParams` in closed form, the component-table invariant, `popN`.
-/
import TeraModel.Spec.Components
import TeraModel.Model.SafeFlow
namespace Tera.Component

theorem boundValue_some {p : Param} {kwargs : List (Key × Value)} {v : Value}
    (h : supplied kwargs p.name = some v) : boundValue p kwargs = some v := by
  simp [boundValue, h]

theorem boundValue_none {p : Param} {kwargs : List (Key × Value)}
    (h : supplied kwargs p.name = none) : boundValue p kwargs = p.dflt := by
  simp [boundValue, h]

/-- what "no error applies to the parameters `ps`" means -/
def ParamsFine (ps : List Param) (kwargs : List (Key × Value)) : Prop :=
  ∀ p ∈ ps, ¬(supplied kwargs p.name = none ∧ p.dflt = none) ∧
            ∀ v, supplied kwargs p.name = some v → p.typeMatches v = true

def boundList (ps : List Param) (kwargs : List (Key × Value)) : List (String × Value) :=
  ps.filterMap (fun p => (boundValue p kwargs).map (fun v => (p.name, v)))

theorem bindParams_ok (ps : List Param) (kwargs : List (Key × Value)) (r : List (String × Value))
    (h : bindParams ps (strEntries kwargs) = .ok r) :
    ParamsFine ps kwargs ∧ r = boundList ps kwargs := by
  induction ps generalizing r with
  | nil =>
    simp only [bindParams, Except.ok.injEq] at h
    subst h
    exact ⟨fun _ h => (by cases h), rfl⟩
  | cons p ps ih =>
    unfold bindParams at h
    split at h
    · rename_i v hs
      have hsup : supplied kwargs p.name = some v := hs
      split at h
      · rename_i hm
        split at h
        · rename_i r' hb
          cases h
          obtain ⟨h1, h2⟩ := ih r' hb
          refine ⟨?_, ?_⟩
          · intro q hq
            cases List.mem_cons.1 hq with
            | inl h =>
              subst h
              refine ⟨fun ⟨a, _⟩ => (by rw [hsup] at a; cases a), fun v' hv' => ?_⟩
              rw [hsup] at hv'
              cases hv'
              exact hm
            | inr h => exact h1 q h
          · simp only [boundList, List.filterMap_cons, boundValue_some hsup, Option.map_some]
            rw [h2]; rfl
        · cases h
      · cases h
    · rename_i hs
      have hsup : supplied kwargs p.name = none := hs
      split at h
      · rename_i dv hd
        split at h
        · rename_i r' hb
          cases h
          obtain ⟨h1, h2⟩ := ih r' hb
          refine ⟨?_, ?_⟩
          · intro q hq
            cases List.mem_cons.1 hq with
            | inl h =>
              subst h
              refine ⟨fun ⟨_, b⟩ => (by rw [hd] at b; cases b), fun v' hv' => ?_⟩
              rw [hsup] at hv'
              cases hv'
            | inr h => exact h1 q h
          · simp only [boundList, List.filterMap_cons, boundValue_none hsup, hd, Option.map_some]
            rw [h2]; rfl
        · cases h
      · cases h

theorem bindParams_of_fine (ps : List Param) (kwargs : List (Key × Value))
    (h : ParamsFine ps kwargs) : bindParams ps (strEntries kwargs) = .ok (boundList ps kwargs) := by
  induction ps with
  | nil => rfl
  | cons p ps ih =>
    have hp := h p (by simp)
    have ih' := ih (fun q hq => h q (List.mem_cons_of_mem _ hq))
    unfold bindParams
    cases hs : lookupStr p.name (strEntries kwargs) with
    | some v =>
      have hsup : supplied kwargs p.name = some v := hs
      simp only [hp.2 v hsup, if_true, ih']
      simp only [boundList, List.filterMap_cons, boundValue_some hsup, Option.map_some]
    | none =>
      have hsup : supplied kwargs p.name = none := hs
      cases hd : p.dflt with
      | none => exact absurd ⟨hsup, hd⟩ hp.1
      | some dv =>
        simp only [ih']
        simp only [boundList, List.filterMap_cons, boundValue_none hsup, hd, Option.map_some]

/-- the class of error `bindParams` reports is one that applies -/
theorem bindParams_error (ps : List Param) (kwargs : List (Key × Value)) (e : BindErr)
    (h : bindParams ps (strEntries kwargs) = .error e) :
    (e = .missing ∧ ∃ p ∈ ps, supplied kwargs p.name = none ∧ p.dflt = none) ∨
    (e = .mismatch ∧ ∃ p ∈ ps, ∃ v, supplied kwargs p.name = some v ∧ p.typeMatches v = false) := by
  induction ps with
  | nil => simp [bindParams] at h
  | cons p ps ih =>
    unfold bindParams at h
    split at h
    · rename_i v hs
      split at h
      · split at h
        · cases h
        · rename_i e' hb
          cases h
          exact (ih hb).imp (fun ⟨a, p', hp', b⟩ => ⟨a, p', List.mem_cons_of_mem _ hp', b⟩)
            (fun ⟨a, p', hp', b⟩ => ⟨a, p', List.mem_cons_of_mem _ hp', b⟩)
      · rename_i hm
        cases h
        exact Or.inr ⟨rfl, p, by simp, v, hs, by simpa using hm⟩
    · rename_i hs
      split at h
      · split at h
        · cases h
        · rename_i e' hb
          cases h
          exact (ih hb).imp (fun ⟨a, p', hp', b⟩ => ⟨a, p', List.mem_cons_of_mem _ hp', b⟩)
            (fun ⟨a, p', hp', b⟩ => ⟨a, p', List.mem_cons_of_mem _ hp', b⟩)
      · rename_i hd
        cases h
        exact Or.inl ⟨rfl, p, by simp, hs, hd⟩

theorem strEntries_filter (kwargs : List (Key × Value)) :
    strEntries (kwargs.filter (fun e => isStrKey e.1)) = strEntries kwargs := by
  induction kwargs with
  | nil => rfl
  | cons e rest ih =>
    obtain ⟨k, v⟩ := e
    cases k with
    | str s => simp only [List.filter, isStrKey, strEntries]; exact congrArg _ ih
    | _ => simp only [List.filter, isStrKey, strEntries]; exact ih


/-! ### component table -/

theorem lookupStr_set_same (t : List (String × (String × Nat))) (c : String) (v : String × Nat) :
    lookupStr c (Table.set t c v) = some v := by
  induction t with
  | nil => simp [Table.set, lookupStr]
  | cons e t ih =>
    obtain ⟨c', v'⟩ := e
    unfold Table.set
    split
    · simp [lookupStr]
    · rename_i hne
      simp only [lookupStr, hne]
      exact ih

theorem lookupStr_set_other (t : List (String × (String × Nat))) (c c0 : String) (v : String × Nat)
    (h : c0 ≠ c) : lookupStr c0 (Table.set t c v) = lookupStr c0 t := by
  induction t with
  | nil =>
    have : (c == c0) = false := by simp [Ne.symm h]
    simp [Table.set, lookupStr, this]
  | cons e t ih =>
    obtain ⟨c', v'⟩ := e
    unfold Table.set
    split
    · rename_i heq
      have heq' : c' = c := by simpa using heq
      subst heq'
      have h1 : (c' == c0) = false := by simp [Ne.symm h]
      simp [lookupStr, h1]
    · simp only [lookupStr]
      split
      · rfl
      · exact ih

/-- The table, after the definitions `done` have been met. -/
structure TableInv (prio : String → Nat) (T : Table) (done : List (String × String)) : Prop where
  covers : ∀ c tpl, (c, tpl) ∈ done →
    ∃ s p, lookupStr c T = some (s, p) ∧ p ≤ prio tpl ∧ (prio tpl = p → tpl = s)
  sound : ∀ c s p, lookupStr c T = some (s, p) → (c, s) ∈ done ∧ p = prio s

theorem addDef_inv {prio : String → Nat} {T T' : Table} {done : List (String × String)}
    {c tpl : String} (inv : TableInv prio T done) (h : addDef prio T c tpl = some T') :
    TableInv prio T' ((c, tpl) :: done) := by
  unfold addDef at h
  split at h
  · -- first definition of c
    rename_i hnone
    cases h
    constructor
    · intro c0 t0 hm
      by_cases hc : c0 = c
      · subst hc
        cases List.mem_cons.1 hm with
        | inl he =>
          cases he
          exact ⟨tpl, prio tpl, lookupStr_set_same T c0 _, Nat.le_refl _, fun _ => rfl⟩
        | inr hd =>
          obtain ⟨s, p, hl, _⟩ := inv.covers c0 t0 hd
          rw [hnone] at hl
          cases hl
      · have hd : (c0, t0) ∈ done := by
          cases List.mem_cons.1 hm with
          | inl he => cases he; exact absurd rfl hc
          | inr hd => exact hd
        rw [lookupStr_set_other T c c0 _ hc]
        exact inv.covers c0 t0 hd
    · intro c0 s p hl
      by_cases hc : c0 = c
      · subst hc
        rw [lookupStr_set_same] at hl
        cases hl
        exact ⟨by simp, rfl⟩
      · rw [lookupStr_set_other T c c0 _ hc] at hl
        obtain ⟨a, b⟩ := inv.sound c0 s p hl
        exact ⟨List.mem_cons_of_mem _ a, b⟩
  · rename_i s0 p0 hsome
    split at h
    · -- strictly better: override
      rename_i hlt
      cases h
      constructor
      · intro c0 t0 hm
        by_cases hc : c0 = c
        · subst hc
          refine ⟨tpl, prio tpl, lookupStr_set_same T c0 _, ?_, ?_⟩
          · cases List.mem_cons.1 hm with
            | inl he => cases he; exact Nat.le_refl _
            | inr hd =>
              obtain ⟨s, p, hl, hle, _⟩ := inv.covers c0 t0 hd
              rw [hsome] at hl
              cases hl
              omega
          · cases List.mem_cons.1 hm with
            | inl he => cases he; exact fun _ => rfl
            | inr hd =>
              obtain ⟨s, p, hl, hle, _⟩ := inv.covers c0 t0 hd
              rw [hsome] at hl
              cases hl
              intro heq
              omega
        · have hd : (c0, t0) ∈ done := by
            cases List.mem_cons.1 hm with
            | inl he => cases he; exact absurd rfl hc
            | inr hd => exact hd
          rw [lookupStr_set_other T c c0 _ hc]
          exact inv.covers c0 t0 hd
      · intro c0 s p hl
        by_cases hc : c0 = c
        · subst hc
          rw [lookupStr_set_same] at hl
          cases hl
          exact ⟨by simp, rfl⟩
        · rw [lookupStr_set_other T c c0 _ hc] at hl
          obtain ⟨a, b⟩ := inv.sound c0 s p hl
          exact ⟨List.mem_cons_of_mem _ a, b⟩
    · rename_i hnlt
      split at h
      · -- strictly worse: keep
        rename_i hgt
        cases h
        constructor
        · intro c0 t0 hm
          cases List.mem_cons.1 hm with
          | inl he =>
            cases he
            exact ⟨s0, p0, hsome, by omega, fun heq => by omega⟩
          | inr hd => exact inv.covers c0 t0 hd
        · intro c0 s p hl
          obtain ⟨a, b⟩ := inv.sound c0 s p hl
          exact ⟨List.mem_cons_of_mem _ a, b⟩
      · cases h

theorem buildTable_inv {prio : String → Nat} (defs : List (String × String)) :
    ∀ (T T' : Table) (done : List (String × String)), TableInv prio T done →
      buildTable prio T defs = some T' → TableInv prio T' (defs.reverse ++ done) := by
  induction defs with
  | nil =>
    intro T T' done inv h
    simp only [buildTable, Option.some.injEq] at h
    subst h
    simpa using inv
  | cons d defs ih =>
    intro T T' done inv h
    obtain ⟨c, tpl⟩ := d
    unfold buildTable at h
    split at h
    · rename_i T1 h1
      have := ih T1 T' _ (addDef_inv inv h1) h
      simpa using this
    · cases h

theorem tableInv_empty (prio : String → Nat) : TableInv prio [] [] :=
  ⟨fun _ _ h => (by cases h), fun _ _ _ h => (by simp [lookupStr] at h)⟩

/-! ### call-site kwargs -/

theorem strEntries_append (a b : List (Key × Value)) :
    strEntries (a ++ b) = strEntries a ++ strEntries b := by
  induction a with
  | nil => rfl
  | cons e a ih =>
    obtain ⟨k, v⟩ := e
    cases k <;> simp [strEntries, ih]

theorem lookupStr_append {α : Type} (k : String) (a b : List (String × α)) :
    lookupStr k (a ++ b) = (lookupStr k a).or (lookupStr k b) := by
  induction a with
  | nil => simp [lookupStr]
  | cons e a ih =>
    obtain ⟨k', v⟩ := e
    simp only [List.cons_append, lookupStr]
    split
    · simp
    · exact ih

theorem supplied_of_any (m : List (Key × Value)) (s : List Char)
    (h : m.any (fun e => e.1 == Key.str s) = true) :
    ∃ v, supplied m (String.ofList s) = some v := by
  induction m with
  | nil => simp at h
  | cons e m ih =>
    obtain ⟨k, v⟩ := e
    simp only [List.any_cons, Bool.or_eq_true, beq_iff_eq] at h
    cases k with
    | str s' =>
      by_cases hs : s' = s
      · subst hs
        exact ⟨v, by simp [supplied, strEntries, lookupStr]⟩
      · have hm : m.any (fun e => e.1 == Key.str s) = true := by
          cases h with
          | inl h => simp only [Key.str.injEq] at h; exact absurd h hs
          | inr h => exact h
        obtain ⟨w, hw⟩ := ih hm
        have hne : (String.ofList s' == String.ofList s) = false := by
          simp only [beq_eq_false_iff_ne, ne_eq]
          intro heq
          apply hs
          have := congrArg String.toList heq
          simpa using this
        exact ⟨w, by simp only [supplied, strEntries, lookupStr, hne]; exact hw⟩
    | _ =>
      have hm : m.any (fun e => e.1 == Key.str s) = true := by
        cases h with
        | inl h => cases h
        | inr h => exact h
      obtain ⟨w, hw⟩ := ih hm
      exact ⟨w, by simp only [supplied, strEntries]; exact hw⟩

/-- what a single entry says about the string key `k` -/
def entryMention (k : String) (k' : Key) (v : Value) : Option Value :=
  match k' with
  | .str s => if String.ofList s == k then some v else none
  | _ => none

theorem supplied_insertIfAbsent (m : List (Key × Value)) (k' : Key) (v : Value) (k : String) :
    supplied (insertIfAbsent m k' v) k = (supplied m k).or (entryMention k k' v) := by
  unfold insertIfAbsent
  split
  · rename_i hany
    cases hs : supplied m k with
    | some x => simp
    | none =>
      simp only [Option.none_or]
      cases k' with
      | str s =>
        simp only [entryMention]
        split
        · rename_i heq
          have heq' : String.ofList s = k := by simpa using heq
          obtain ⟨w, hw⟩ := supplied_of_any m s hany
          rw [heq', hs] at hw
          cases hw
        · rfl
      | _ => rfl
  · simp only [supplied, strEntries_append, lookupStr_append]
    congr 1
    cases k' with
    | str s =>
      simp only [strEntries, lookupStr, entryMention]
    | _ => simp [strEntries, lookupStr, entryMention]

theorem supplied_spread (es m : List (Key × Value)) (k : String) :
    supplied (es.foldl (fun m e => insertIfAbsent m e.1 e.2) m) k
      = (supplied m k).or (lookupStr k (strEntries es)) := by
  induction es generalizing m with
  | nil => simp [strEntries, lookupStr]
  | cons e es ih =>
    obtain ⟨k', v⟩ := e
    simp only [List.foldl_cons]
    rw [ih, supplied_insertIfAbsent, Option.or_assoc]
    congr 1
    cases k' with
    | str s =>
      simp only [entryMention, strEntries, lookupStr]
      split <;> simp
    | _ => simp [entryMention, strEntries]

theorem supplied_addAttr (m : List (Key × Value)) (a : Attr) (k : String) :
    supplied (addAttr m a) k = (supplied m k).or (a.mention k) := by
  cases a with
  | kv k' v =>
    simp only [addAttr, supplied_insertIfAbsent, entryMention, Attr.mention, String.ofList_toList]
  | spread es => simp only [addAttr, supplied_spread, Attr.mention]

theorem supplied_foldl (attrs : List Attr) (m : List (Key × Value)) (k : String) :
    supplied (attrs.foldl addAttr m) k = (supplied m k).or (attrs.findSome? (Attr.mention k)) := by
  induction attrs generalizing m with
  | nil => simp
  | cons a attrs ih =>
    simp only [List.foldl_cons, List.findSome?_cons]
    rw [ih, supplied_addAttr, Option.or_assoc]
    congr 1
    cases a.mention k <;> simp

/-! ### popN -/

theorem popN_append (l s : List Tera.SafeFlow.TVal) :
    Tera.SafeFlow.popN l.length (l ++ s) = some (l.reverse, s) := by
  induction l with
  | nil => rfl
  | cons v l ih => simp [Tera.SafeFlow.popN, ih]

end Tera.Component
