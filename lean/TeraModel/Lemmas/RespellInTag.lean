/-
Respelling (C08): simulation of the in-tag state under two clean delimiter sets.
-/
import TeraModel.Lemmas.RespellTC
namespace Tera.Lexer
open Tera Utf8 Generated

/-- an emission consumed `n` bytes with `0 < n < |rest|`: the last byte (the space) is still unread -/
def NoSpaceEaten (p : Pos) : Step → Prop
  | .emit _ _ p' _ => ∃ n, 0 < n ∧ n < p.rest.length ∧ p'.rest = p.rest.drop n
  | _ => True

theorem emitAfter_nospace {p : Pos} {n : Nat} (h0 : 0 < n) (h : n < p.rest.length) (tok : Token) (st : List State) :
    NoSpaceEaten p (emitAfter p n tok st) := by
  unfold emitAfter
  cases hadv : advance p n with
  | panic s => simp [NoSpaceEaten]
  | ok r =>
    obtain ⟨sk, p'⟩ := r
    exact ⟨n, h0, h, (advance_ok hadv).1.2.1⟩

theorem lexExprToken_nospace (p : Pos) (E : Bytes) (hr : p.rest = E ++ [0x20]) (hne : E ≠ [])
    (hq : ∀ q ∈ stringQuotes, q ∉ E) (st : List State) : NoSpaceEaten p (lexExprToken p st) := by
  obtain ⟨e0, E', rfl⟩ : ∃ e0 E', E = e0 :: E' := by
    cases E with
    | nil => exact absurd rfl hne
    | cons a t => exact ⟨a, t, rfl⟩
  have hlen : p.rest.length = E'.length + 2 := by rw [hr]; simp
  unfold lexExprToken
  simp only
  by_cases hs : p.rest.take spreadBytes.length = spreadBytes
  · simp only [hs, if_true]
    have h3 : spreadBytes.length < p.rest.length := by
      rw [hr] at hs ⊢
      match E', hs with
      | [], hs => simp [spreadBytes] at hs
      | [a], hs => simp [spreadBytes] at hs
      | a :: b :: t, _ => simp [spreadBytes]
    exact emitAfter_nospace (by decide) h3 _ _
  · simp only [hs, if_false]
    cases ho : lookupOp2 p.rest with
    | some o =>
      simp only
      have h2 : 2 < p.rest.length := by
        unfold lookupOp2 at ho
        rw [hr] at ho ⊢
        match E', ho with
        | [], ho =>
          have := ops2_no_space _ (lookup_mem ho)
          simp at this
        | a :: t, _ => simp
      exact emitAfter_nospace (by decide) h2 _ _
    | none =>
      simp only
      have hc : p.rest.head? = some e0 := by rw [hr]; rfl
      simp only [hc]
      cases ho1 : ops1.lookup e0 with
      | some o => simp only; exact emitAfter_nospace (by decide) (by omega) _ _
      | none =>
        simp only
        have hnq : stringQuotes.contains e0 = false := by
          cases hqc : stringQuotes.contains e0 with
          | false => rfl
          | true =>
            exfalso
            have : e0 ∈ stringQuotes := by simpa using hqc
            exact hq e0 this (by simp)
        simp only [hnq, Bool.false_eq_true, if_false]
        by_cases hd : isAsciiDigit e0 = true
        · simp only [hd, if_true]
          unfold lexNumber
          have hle := numLen_le (e0 :: E') false
          rw [← hr] at hle
          have hpos : 0 < (numLen false p.rest).1 := by rw [hr]; exact numLen_pos hd false
          generalize numLen false p.rest = r at *
          obtain ⟨n, f⟩ := r
          simp only at hle hpos ⊢
          cases hadv : advance p n with
          | panic s => simp [NoSpaceEaten]
          | ok r =>
            obtain ⟨num, p'⟩ := r
            have hrest := (advance_ok hadv).1.2.1
            simp only
            split
            · exact ⟨n, hpos, by rw [hlen]; simp at hle; omega, hrest⟩
            · split
              · exact ⟨n, hpos, by rw [hlen]; simp at hle; omega, hrest⟩
              · trivial
        · have hd' : isAsciiDigit e0 = false := by simpa using hd
          simp only [hd', Bool.false_eq_true, if_false]
          have hile := identLen_le (e0 :: E') 0
          rw [← hr] at hile
          by_cases hpos : identLen 0 p.rest > 0
          · simp only [hpos, if_true]
            cases hadv : advance p (identLen 0 p.rest) with
            | panic s => simp [NoSpaceEaten]
            | ok r =>
              obtain ⟨ident, p'⟩ := r
              have hrest := (advance_ok hadv).1.2.1
              simp only
              split
              · exact ⟨_, hpos, by rw [hlen]; simp at hile; omega, hrest⟩
              · exact ⟨_, hpos, by rw [hlen]; simp at hile; omega, hrest⟩
          · simp only [hpos, if_false]
            trivial

end Tera.Lexer

namespace Tera.Lexer
open Tera Utf8 Generated

theorem lex_skip {d : Delims} (hd : d.accepted = true) {p : Pos} {st : List State} (hst : StackOk st)
    (hv : valid p.rest = true) (hne : p.rest ≠ []) {p' : Pos} (h : step d p st = .skip p') :
    lex d p st = lex d p' st := by
  obtain ⟨hl, hv'⟩ := (step_shortens hd hst hv hne).2 _ h
  unfold lex
  rw [lexLoop]
  simp only [hne, if_false, h]
  rw [lexLoop_fuel_irrel hd p.rest.length (p'.rest.length + 1) p' st hst hv' hl (by omega)]

theorem lex_error {d : Delims} {p : Pos} {st : List State} (hne : p.rest ≠ []) {e : ErrClass} {sp : Span}
    (h : step d p st = .error e sp) : lex d p st = ⟨[], .error e sp⟩ := by
  unfold lex; rw [lexLoop]; simp only [hne, if_false, h]

theorem lex_panic {d : Delims} {p : Pos} {st : List State} (hne : p.rest ≠ []) {s : String}
    (h : step d p st = .panic s) : lex d p st = ⟨[], .panic s⟩ := by
  unfold lex; rw [lexLoop]; simp only [hne, if_false, h]

theorem lex_fuel {d : Delims} {p : Pos} {st : List State} (hne : p.rest ≠ [])
    (h : step d p st = .fuel) : lex d p st = ⟨[], .outOfFuel⟩ := by
  unfold lex; rw [lexLoop]; simp only [hne, if_false, h]

theorem wsLen_append {T : Bytes} (hT : wsLen T = 0) : ∀ A : Bytes, wsLen (A ++ T) = wsLen A := by
  intro A
  induction A with
  | nil => simpa [wsLen] using hT
  | cons a t ih =>
    simp only [List.cons_append, wsLen]
    split
    · rw [ih]
    · rfl

/-- the end delimiter / end token of an in-tag state -/
def endOf (d : Delims) : State → Bytes
  | .tag => d.blockEnd
  | _ => d.variableEnd

def mkOf : State → Bool → Token
  | .tag => .tagEnd
  | _ => .variableEnd

theorem stepInTag_skip (d : Delims) {p p' : Pos} {sk : Bytes} (top : State) (below : List State)
    (hw : wsLen p.rest ≠ 0) (ha : advance p (wsLen p.rest) = .ok (sk, p')) :
    stepInTag d p top below = .skip p' := by
  unfold stepInTag
  simp only [hw, ne_eq, not_false_eq_true, if_true, ha]

theorem stepInTag_tok (d : Delims) {p : Pos} {top : State} (ht : top ≠ .template) (below : List State)
    (hw : wsLen p.rest = 0) (he : endCheck p below (endOf d top) (mkOf top) = none) :
    stepInTag d p top below = lexExprToken p (top :: below) := by
  unfold stepInTag
  cases top
  · exact absurd rfl ht
  · simp only [endOf, mkOf] at he; simp [hw, he]
  · simp only [endOf, mkOf] at he; simp [hw, he]

theorem stepInTag_end (d : Delims) {p : Pos} {top : State} (ht : top ≠ .template) (below : List State)
    (hw : wsLen p.rest = 0) {s : Step} (he : endCheck p below (endOf d top) (mkOf top) = some s) :
    stepInTag d p top below = s := by
  unfold stepInTag
  cases top
  · exact absurd rfl ht
  · simp only [endOf, mkOf] at he; simp [hw, he]
  · simp only [endOf, mkOf] at he; simp [hw, he]

theorem endOf_facts {d : Delims} (hd : d.accepted = true) (top : State) :
    (endOf d top).length = 2 ∧ valid (endOf d top) = true ∧ ∀ b ∈ endOf d top, b ∈ C08.delimBytes d := by
  obtain ⟨hw, _, h2, _, h4, _, _⟩ := accepted_facts hd
  simp only [Delims.wellFormed, Bool.and_eq_true] at hw
  obtain ⟨⟨⟨⟨⟨_, v2⟩, _⟩, v4⟩, _⟩, _⟩ := hw
  cases top <;> simp only [endOf]
  · exact ⟨h4, v4, fun b hb => by simp [C08.delimBytes, hb]⟩
  · exact ⟨h4, v4, fun b hb => by simp [C08.delimBytes, hb]⟩
  · exact ⟨h2, v2, fun b hb => by simp [C08.delimBytes, hb]⟩

/-- inside the payload the end-delimiter test fails: the first two unread bytes are no delimiter bytes -/
theorem endCheck_none {d : Delims} {p : Pos} {a b : Nat} {X : Bytes} (hr : p.rest = a :: b :: X)
    (ha : a ∉ C08.delimBytes d) (hb : b ∉ C08.delimBytes d) (below : List State) {e : Bytes} (hel : e.length = 2)
    (hem : ∀ x ∈ e, x ∈ C08.delimBytes d) (mk : Bool → Token) : endCheck p below e mk = none := by
  match e, hel with
  | [e0, e1], _ =>
    unfold endCheck
    have h1 : ¬ (getRange p.rest 0 1 = some [0x2D] ∧ getRange p.rest 1 3 = some [e0, e1]) := by
      rintro ⟨_, h2⟩
      have := (getRange_eq h2).1
      rw [hr] at this
      simp at this
      cases X with
      | nil => simp at this
      | cons x X' =>
        simp at this
        exact hb (this.1 ▸ hem e0 (by simp))
    have h2 : ¬ (getRange p.rest 0 2 = some [e0, e1]) := by
      intro h2
      have := (getRange_eq h2).1
      rw [hr] at this
      simp at this
      exact ha (this.1 ▸ hem e0 (by simp))
    simp only [h1, h2, if_false]

end Tera.Lexer

namespace Tera.Lexer
open Tera Utf8 Generated

theorem step_inTag (d : Delims) (p : Pos) {top : State} (ht : top ≠ .template) (below : List State) :
    step d p (top :: below) = stepInTag d p top below := by
  cases top
  · exact absurd rfl ht
  · rfl
  · rfl

/-- at `[-] end_delimiter` the in-tag state emits the end marker and pops -/
theorem end_phase {d : Delims} (hd : d.accepted = true) {p : Pos} {top : State} (ht : top ≠ .template)
    (r : Bool) (R : Bytes) (hr : p.rest = C08.dash r ++ endOf d top ++ R) (hv : valid p.rest = true)
    (hdash : 0x2D ∉ C08.delimBytes d) (hnows : ∀ b ∈ C08.delimBytes d, isAsciiWs b = false)
    (below : List State) :
    ∃ sp p', step d p (top :: below) = .emit (mkOf top r) sp p' below ∧ p'.rest = R := by
  obtain ⟨hel, hev, hem⟩ := endOf_facts hd top
  obtain ⟨e0, e1, he⟩ : ∃ e0 e1, endOf d top = [e0, e1] := by
    match h : endOf d top, hel with
    | [a, b], _ => exact ⟨a, b, rfl⟩
  have he0 : e0 ∈ C08.delimBytes d := hem e0 (by rw [he]; simp)
  rw [step_inTag d p ht]
  cases r with
  | true =>
    have hr' : p.rest = 0x2D :: e0 :: e1 :: R := by rw [hr, he]; simp [C08.dash]
    have hw : wsLen p.rest = 0 := by rw [hr']; simp [wsLen, isAsciiWs]
    have hb1 : isBoundary p.rest 1 = true :=
      isBoundary_succ_ascii hv (j := 0) (by rw [hr']; simp) (by simp [hr'])
    have hpre : (endOf d top).isPrefixOf (p.rest.drop 1) = true := by
      rw [hr', he]; simp [List.isPrefixOf]
    have hne : endOf d top ≠ [] := by rw [he]; simp
    obtain ⟨_, hb3, hle⟩ := isBoundary_match hv hev hne hpre
    rw [hel] at hb3 hle
    have g1 : getRange p.rest 0 1 = some [0x2D] := by
      unfold getRange; simp [hb1, isBoundary_zero]; rw [hr']; simp
    have g2 : getRange p.rest 1 3 = some (endOf d top) := by
      unfold getRange
      have : (3:Nat) ≤ p.rest.length := by omega
      simp [hb1, hb3, this]; rw [hr', he]; simp
    have hend : endCheck p below (endOf d top) (mkOf top) = some (emitAfter p 3 (mkOf top true) below) := by
      unfold endCheck; simp [g1, g2]
    rw [stepInTag_end d ht below hw hend]
    obtain ⟨p', hp'⟩ := advance_of_boundary (p := p) hb3
    refine ⟨mkSpan p p', p', by simp [emitAfter, hp'], ?_⟩
    rw [(advance_ok hp').1.2.1, hr']; simp
  | false =>
    have hr' : p.rest = e0 :: e1 :: R := by rw [hr, he]; simp [C08.dash]
    have hw : wsLen p.rest = 0 := by rw [hr']; simp [wsLen, hnows e0 he0]
    have g2 : getRange p.rest 0 2 = some (endOf d top) := by
      rw [hr']; exact getRange_two_of_head (by rw [← hr']; exact hv) hev he.symm
    have g1 : ¬ (getRange p.rest 0 1 = some [0x2D] ∧ getRange p.rest 1 3 = some (endOf d top)) := by
      rintro ⟨h1, _⟩
      have := (getRange_eq h1).1
      rw [hr'] at this
      simp at this
      exact hdash (this ▸ he0)
    have hend : endCheck p below (endOf d top) (mkOf top) = some (emitAfter p 2 (mkOf top false) below) := by
      unfold endCheck; simp only [g1, if_false, g2, if_true]
    rw [stepInTag_end d ht below hw hend]
    obtain ⟨p', hp'⟩ := advance_of_boundary (p := p) (getRange_boundary g2).1
    refine ⟨mkSpan p p', p', by simp [emitAfter, hp'], ?_⟩
    rw [(advance_ok hp').1.2.1, hr']; simp

end Tera.Lexer

namespace Tera.Lexer
open Tera Utf8 Generated

abbrev toks (r : LexResult) : List Token := r.tokens.map (·.1)

theorem lexExprToken_no_skip (p : Pos) (st : List State) : ∀ p', lexExprToken p st ≠ .skip p' := by
  intro p'
  unfold lexExprToken lexNumber lexString emitAfter
  simp only
  repeat' split
  all_goals simp

theorem wsLen_T {d : Delims} (hd : d.accepted = true) (top : State) (r : Bool) (R : Bytes)
    (hnows : ∀ b ∈ C08.delimBytes d, isAsciiWs b = false) :
    wsLen (C08.dash r ++ endOf d top ++ R) = 0 ∧ C08.dash r ++ endOf d top ++ R ≠ [] := by
  obtain ⟨hel, _, hem⟩ := endOf_facts hd top
  obtain ⟨e0, e1, he⟩ : ∃ e0 e1, endOf d top = [e0, e1] := by
    match h : endOf d top, hel with
    | [a, b], _ => exact ⟨a, b, rfl⟩
  have he0 : e0 ∈ C08.delimBytes d := hem e0 (by rw [he]; simp)
  cases r
  · simp [C08.dash, he, wsLen, hnows e0 he0]
  · simp [C08.dash, he, wsLen, isAsciiWs]

theorem stackOk_inTag {top : State} (ht : top ≠ .template) : StackOk [top, .template] := by
  cases top
  · exact absurd rfl ht
  · exact Or.inr (Or.inl rfl)
  · exact Or.inr (Or.inr rfl)

/-- In-tag simulation: under two clean delimiter sets the tokens lexed from `payload ␠ [-] end …`
are the same, provided the tokens lexed after the end marker are. -/
theorem inTag_sim {d1 d2 : Delims} (hd1 : d1.accepted = true) (hd2 : d2.accepted = true) {top : State}
    (ht : top ≠ .template) (r : Bool) (R1 R2 : Bytes)
    (s1 : 0x20 ∉ C08.delimBytes d1) (m1 : 0x2D ∉ C08.delimBytes d1) (w1 : ∀ b ∈ C08.delimBytes d1, isAsciiWs b = false)
    (s2 : 0x20 ∉ C08.delimBytes d2) (m2 : 0x2D ∉ C08.delimBytes d2) (w2 : ∀ b ∈ C08.delimBytes d2, isAsciiWs b = false)
    (hcont : ∀ q1 q2 : Pos, q1.rest = R1 → q2.rest = R2 → valid q1.rest = true → valid q2.rest = true →
      toks (lex d1 q1 [.template]) = toks (lex d2 q2 [.template])) :
    ∀ (n : Nat) (E : Bytes), E.length = n → (∀ b ∈ E, b ∉ C08.delimBytes d1) → (∀ b ∈ E, b ∉ C08.delimBytes d2) →
      (∀ q ∈ stringQuotes, q ∉ E) →
      ∀ p1 p2 : Pos, p1.rest = E ++ [0x20] ++ (C08.dash r ++ endOf d1 top ++ R1) →
        p2.rest = E ++ [0x20] ++ (C08.dash r ++ endOf d2 top ++ R2) →
        valid p1.rest = true → valid p2.rest = true →
        toks (lex d1 p1 [top, .template]) = toks (lex d2 p2 [top, .template]) := by
  intro n
  induction n using Nat.strongRecOn with
  | _ n ih =>
    intro E hEn hE1 hE2 hq p1 p2 h1 h2 hv1 hv2
    have hst := stackOk_inTag ht
    obtain ⟨hT1, hT1ne⟩ := wsLen_T hd1 top r R1 w1
    obtain ⟨hT2, hT2ne⟩ := wsLen_T hd2 top r R2 w2
    have hk1 : wsLen p1.rest = wsLen (E ++ [0x20]) := by rw [h1, wsLen_append hT1]
    have hk2 : wsLen p2.rest = wsLen (E ++ [0x20]) := by rw [h2, wsLen_append hT2]
    have hne1 : p1.rest ≠ [] := by rw [h1]; simp
    have hne2 : p2.rest ≠ [] := by rw [h2]; simp
    by_cases hk : wsLen (E ++ [0x20]) = 0
    · -- an expression token
      obtain ⟨e0, E', rfl⟩ : ∃ e0 E', E = e0 :: E' := by
        cases E with
        | nil => simp [wsLen, isAsciiWs] at hk
        | cons a t => exact ⟨a, t, rfl⟩
      have hend1 : endCheck p1 [.template] (endOf d1 top) (mkOf top) = none := by
        obtain ⟨hel, _, hem⟩ := endOf_facts hd1 top
        cases E' with
        | nil => exact endCheck_none (a := e0) (b := 0x20) (X := C08.dash r ++ endOf d1 top ++ R1) (by rw [h1]; simp) (hE1 e0 (by simp)) s1 _ hel hem _
        | cons e1 E'' =>
          exact endCheck_none (a := e0) (b := e1) (X := E'' ++ [0x20] ++ (C08.dash r ++ endOf d1 top ++ R1)) (by rw [h1]; simp) (hE1 e0 (by simp)) (hE1 e1 (by simp)) _ hel hem _
      have hend2 : endCheck p2 [.template] (endOf d2 top) (mkOf top) = none := by
        obtain ⟨hel, _, hem⟩ := endOf_facts hd2 top
        cases E' with
        | nil => exact endCheck_none (a := e0) (b := 0x20) (X := C08.dash r ++ endOf d2 top ++ R2) (by rw [h2]; simp) (hE2 e0 (by simp)) s2 _ hel hem _
        | cons e1 E'' =>
          exact endCheck_none (a := e0) (b := e1) (X := E'' ++ [0x20] ++ (C08.dash r ++ endOf d2 top ++ R2)) (by rw [h2]; simp) (hE2 e0 (by simp)) (hE2 e1 (by simp)) _ hel hem _
      have hstep1 : step d1 p1 [top, .template] = lexExprToken p1 [top, .template] := by
        rw [step_inTag d1 p1 ht]; exact stepInTag_tok d1 ht _ (by rw [hk1]; exact hk) hend1
      have hstep2 : step d2 p2 [top, .template] = lexExprToken p2 [top, .template] := by
        rw [step_inTag d2 p2 ht]; exact stepInTag_tok d2 ht _ (by rw [hk2]; exact hk) hend2
      -- view both positions as extensions of positions that stop at the space
      let A : Bytes := (e0 :: E') ++ [0x20]
      let pA1 : Pos := { p1 with rest := A }
      let pA2 : Pos := { p2 with rest := A }
      have hp1 : p1 = pA1.ext (C08.dash r ++ endOf d1 top ++ R1) := by
        cases p1; simp only [Pos.ext, pA1, A] at *; simp [h1]
      have hp2 : p2 = pA2.ext (C08.dash r ++ endOf d2 top ++ R2) := by
        cases p2; simp only [Pos.ext, pA2, A] at *; simp [h2]
      have hx1 := lexExprToken_ext pA1 (e0 :: E') (C08.dash r ++ endOf d1 top ++ R1) rfl (by simp) hq [top, .template]
      have hx2 := lexExprToken_ext pA2 (e0 :: E') (C08.dash r ++ endOf d2 top ++ R2) rfl (by simp) hq [top, .template]
      rw [← hp1] at hx1
      rw [← hp2] at hx2
      have hsame := lexExprToken_rest (p := pA1) (q := pA2) rfl [top, .template]
      have hns1 := lexExprToken_nospace pA1 (e0 :: E') rfl (by simp) hq [top, .template]
      have hstk1 := lexExprToken_stack pA1 [top, .template] [[top, .template]] (by simp)
      have hstk2 := lexExprToken_stack pA2 [top, .template] [[top, .template]] (by simp)
      cases hy1 : lexExprToken pA1 [top, .template] with
      | emit tok sp q1 st1 =>
        cases hy2 : lexExprToken pA2 [top, .template] with
        | emit tok' sp' q2 st2 =>
          rw [hy1, hy2] at hsame
          obtain ⟨rfl, _, hqq⟩ := hsame
          rw [hy1] at hns1 hstk1
          rw [hy2] at hstk2
          simp only [StepStack, List.mem_singleton] at hstk1 hstk2
          subst hstk1; subst hstk2
          obtain ⟨m, hm0, hmlt, hq1⟩ := hns1
          have hAlen : A.length = E'.length + 2 := by simp [A]
          have hmE : m ≤ (e0 :: E').length := by simp only [pA1] at hmlt; simp at hmlt ⊢; omega
          have hq1' : q1.rest = (e0 :: E').drop m ++ [0x20] := by
            rw [hq1]; simp only [pA1, A]; rw [List.drop_append_of_le_length hmE]
          have e1 : step d1 p1 [top, .template] = .emit tok sp (q1.ext (C08.dash r ++ endOf d1 top ++ R1)) [top, .template] := by
            rw [hstep1, hx1, hy1]; rfl
          have e2 : step d2 p2 [top, .template] = .emit tok sp' (q2.ext (C08.dash r ++ endOf d2 top ++ R2)) [top, .template] := by
            rw [hstep2, hx2, hy2]; rfl
          have hv1' := ((step_shortens hd1 hst hv1 hne1).1 _ _ _ _ e1).2.1
          have hv2' := ((step_shortens hd2 hst hv2 hne2).1 _ _ _ _ e2).2.1
          rw [lex_emit hd1 hst hv1 hne1 e1, lex_emit hd2 hst hv2 hne2 e2]
          simp only [toks, List.map_cons]
          congr 1
          have hlen' : ((e0 :: E').drop m).length < n := by
            rw [← hEn]; simp only [List.length_drop]; simp; omega
          exact ih _ hlen' ((e0 :: E').drop m) rfl
            (fun b hb => hE1 b (List.mem_of_mem_drop hb)) (fun b hb => hE2 b (List.mem_of_mem_drop hb))
            (fun q hqq' hb => hq q hqq' (List.mem_of_mem_drop hb))
            (q1.ext (C08.dash r ++ endOf d1 top ++ R1)) (q2.ext (C08.dash r ++ endOf d2 top ++ R2)) (by simp [Pos.ext, hq1']) (by simp [Pos.ext, ← hqq, hq1']) hv1' hv2'
        | skip _ => rw [hy1, hy2] at hsame; exact absurd hsame (by simp [SameTok])
        | error _ _ => rw [hy1, hy2] at hsame; exact absurd hsame (by simp [SameTok])
        | panic _ => rw [hy1, hy2] at hsame; exact absurd hsame (by simp [SameTok])
        | fuel => rw [hy1, hy2] at hsame; exact absurd hsame (by simp [SameTok])
      | skip q => exact absurd hy1 (lexExprToken_no_skip _ _ _)
      | error e sp =>
        cases hy2 : lexExprToken pA2 [top, .template] with
        | error e' sp' =>
          have e1 : step d1 p1 [top, .template] = .error e sp := by rw [hstep1, hx1, hy1]; rfl
          have e2 : step d2 p2 [top, .template] = .error e' sp' := by rw [hstep2, hx2, hy2]; rfl
          rw [lex_error hne1 e1, lex_error hne2 e2]
        | emit _ _ _ _ => rw [hy1, hy2] at hsame; exact absurd hsame (by simp [SameTok])
        | skip _ => rw [hy1, hy2] at hsame; exact absurd hsame (by simp [SameTok])
        | panic _ => rw [hy1, hy2] at hsame; exact absurd hsame (by simp [SameTok])
        | fuel => rw [hy1, hy2] at hsame; exact absurd hsame (by simp [SameTok])
      | panic s =>
        cases hy2 : lexExprToken pA2 [top, .template] with
        | panic s' =>
          have e1 : step d1 p1 [top, .template] = .panic s := by rw [hstep1, hx1, hy1]; rfl
          have e2 : step d2 p2 [top, .template] = .panic s' := by rw [hstep2, hx2, hy2]; rfl
          rw [lex_panic hne1 e1, lex_panic hne2 e2]
        | emit _ _ _ _ => rw [hy1, hy2] at hsame; exact absurd hsame (by simp [SameTok])
        | skip _ => rw [hy1, hy2] at hsame; exact absurd hsame (by simp [SameTok])
        | error _ _ => rw [hy1, hy2] at hsame; exact absurd hsame (by simp [SameTok])
        | fuel => rw [hy1, hy2] at hsame; exact absurd hsame (by simp [SameTok])
      | fuel =>
        cases hy2 : lexExprToken pA2 [top, .template] with
        | fuel =>
          have e1 : step d1 p1 [top, .template] = .fuel := by rw [hstep1, hx1, hy1]; rfl
          have e2 : step d2 p2 [top, .template] = .fuel := by rw [hstep2, hx2, hy2]; rfl
          rw [lex_fuel hne1 e1, lex_fuel hne2 e2]
        | emit _ _ _ _ => rw [hy1, hy2] at hsame; exact absurd hsame (by simp [SameTok])
        | skip _ => rw [hy1, hy2] at hsame; exact absurd hsame (by simp [SameTok])
        | error _ _ => rw [hy1, hy2] at hsame; exact absurd hsame (by simp [SameTok])
        | panic _ => rw [hy1, hy2] at hsame; exact absurd hsame (by simp [SameTok])
    · -- whitespace is skipped
      have hb1 : isBoundary p1.rest (wsLen (E ++ [0x20])) = true := by rw [← hk1]; exact wsLen_boundary hv1
      have hb2 : isBoundary p2.rest (wsLen (E ++ [0x20])) = true := by rw [← hk2]; exact wsLen_boundary hv2
      obtain ⟨q1, ha1⟩ := advance_of_boundary hb1
      obtain ⟨q2, ha2⟩ := advance_of_boundary hb2
      have hq1 := (advance_ok ha1).1.2.1
      have hq2 := (advance_ok ha2).1.2.1
      have e1 : step d1 p1 [top, .template] = .skip q1 := by
        rw [step_inTag d1 p1 ht]
        exact stepInTag_skip d1 top _ (by rw [hk1]; exact hk) (by rw [hk1]; exact ha1)
      have e2 : step d2 p2 [top, .template] = .skip q2 := by
        rw [step_inTag d2 p2 ht]
        exact stepInTag_skip d2 top _ (by rw [hk2]; exact hk) (by rw [hk2]; exact ha2)
      have hv1' := ((step_shortens hd1 hst hv1 hne1).2 _ e1).2
      have hv2' := ((step_shortens hd2 hst hv2 hne2).2 _ e2).2
      rw [lex_skip hd1 hst hv1 hne1 e1, lex_skip hd2 hst hv2 hne2 e2]
      have hkle := wsLen_le (E ++ [0x20])
      simp only [List.length_append, List.length_singleton] at hkle
      by_cases hkE : wsLen (E ++ [0x20]) ≤ E.length
      · have hd : ∀ T : Bytes, (E ++ [0x20] ++ T).drop (wsLen (E ++ [0x20])) = E.drop (wsLen (E ++ [0x20])) ++ [0x20] ++ T := by
          intro T
          rw [List.append_assoc, List.drop_append_of_le_length hkE, List.append_assoc]
        have hlen' : (E.drop (wsLen (E ++ [0x20]))).length < n := by
          rw [← hEn]; simp only [List.length_drop]; omega
        exact ih _ hlen' (E.drop (wsLen (E ++ [0x20]))) rfl
          (fun b hb => hE1 b (List.mem_of_mem_drop hb)) (fun b hb => hE2 b (List.mem_of_mem_drop hb))
          (fun q hqq' hb => hq q hqq' (List.mem_of_mem_drop hb))
          q1 q2 (by rw [hq1, h1, hd]) (by rw [hq2, h2, hd]) hv1' hv2'
      · -- the whole payload was whitespace: the end marker follows
        have hkeq : wsLen (E ++ [0x20]) = (E ++ [0x20]).length := by simp; omega
        have hr1 : q1.rest = C08.dash r ++ endOf d1 top ++ R1 := by
          rw [hq1, h1, hkeq, List.drop_left' rfl]
        have hr2 : q2.rest = C08.dash r ++ endOf d2 top ++ R2 := by
          rw [hq2, h2, hkeq, List.drop_left' rfl]
        obtain ⟨sp1, z1, f1, g1⟩ := end_phase hd1 ht r R1 hr1 hv1' m1 w1 [.template]
        obtain ⟨sp2, z2, f2, g2⟩ := end_phase hd2 ht r R2 hr2 hv2' m2 w2 [.template]
        have hqne1 : q1.rest ≠ [] := by rw [hr1]; exact hT1ne
        have hqne2 : q2.rest ≠ [] := by rw [hr2]; exact hT2ne
        have hvz1 := ((step_shortens hd1 hst hv1' hqne1).1 _ _ _ _ f1).2.1
        have hvz2 := ((step_shortens hd2 hst hv2' hqne2).1 _ _ _ _ f2).2.1
        rw [lex_emit hd1 hst hv1' hqne1 f1, lex_emit hd2 hst hv2' hqne2 f2]
        simp only [toks, List.map_cons]
        congr 1
        exact hcont z1 z2 g1 g2 hvz1 hvz2

end Tera.Lexer
