/-
`finalize_templates` as a function of the template map and the configuration only
(Model/Registry.lean): two accepted finalizations of the same map give equivalent states,
whatever lists represent the maps and whatever the `HashMap` iteration orders were.
-/
import TeraModel.Lemmas.RegCongr
import TeraModel.Lemmas.SortNames
import TeraModel.Lemmas.RegistryUndo
namespace Tera.Reg

theorem SameMap.mem_keys {S S' : List Tpl} (h : SameMap S S') (x : String) :
    x ∈ keys S ↔ x ∈ keys S' :=
  ⟨fun hx => has_mem_keys (by rw [← h.has]; exact mem_keys_has hx),
   fun hx => has_mem_keys (by rw [h.has]; exact mem_keys_has hx)⟩

theorem SameMap.sumSrcLen {S S' : List Tpl} (h : SameMap S S') (l : List String) :
    sumSrcLen S l = sumSrcLen S' l := by
  induction l with
  | nil => rfl
  | cons p ps ih => simp [Tera.Reg.sumSrcLen, h p, ih]

theorem loop1Step_ok' {ps : List String} {S : List Tpl} {acc acc' : Loop1} {n : String}
    (h : loop1Step ps S acc n = .ok acc') :
    ∃ t p comps sz, get S n = some t ∧ findParents ps S t = .ok p ∧
      compLoop t.name (priority ps t.name) acc.comps (t.comps.map (·.name)) = .ok comps ∧
      sumSrcLen S p = some sz ∧
      acc' = { parents := acc.parents ++ [(n, p)], sizes := acc.sizes ++ [(n, t.srcLen + sz)], comps := comps } := by
  unfold loop1Step at h
  cases hg : get S n with
  | none => simp [hg] at h
  | some t =>
    simp only [hg] at h
    cases hf : findParents ps S t with
    | ok p =>
      simp only [hf] at h
      cases hc : checkIncludeCycles ps S t with
      | ok v =>
        simp only [hc] at h
        cases hl : compLoop t.name (priority ps t.name) acc.comps (t.comps.map (·.name)) with
        | error e => simp [hl] at h
        | ok comps =>
          simp only [hl] at h
          cases hs : sumSrcLen S p with
          | none => simp [hs] at h
          | some sz =>
            simp only [hs] at h
            cases h
            exact ⟨t, p, comps, sz, rfl, hf, hl, hs, rfl⟩
      | cycle ch => simp [hc] at h
      | outOfFuel => simp [hc] at h
      | panic => simp [hc] at h
    | missingParent a b => simp [hf] at h
    | circular ch => simp [hf] at h
    | outOfFuel => simp [hf] at h
    | panic => simp [hf] at h

theorem loop1_congr {ps : List String} {S S' : List Tpl} (hsame : SameMap S S') :
    ∀ (names : List String) (acc l1 l1' : Loop1),
      loop1 ps S acc names = .ok l1 → loop1 ps S' acc names = .ok l1' → l1 = l1' := by
  intro names
  induction names with
  | nil =>
    intro acc l1 l1' h h'
    simp only [loop1] at h h'
    cases h; cases h'; rfl
  | cons n ns ih =>
    intro acc l1 l1' h h'
    unfold loop1 at h h'
    cases hs : loop1Step ps S acc n with
    | error e => simp [hs] at h
    | ok a =>
      cases hs' : loop1Step ps S' acc n with
      | error e => simp [hs'] at h'
      | ok a' =>
        simp only [hs] at h
        simp only [hs'] at h'
        obtain ⟨t, p, comps, sz, hg, hf, hl, hz, ha⟩ := loop1Step_ok' hs
        obtain ⟨t', p', comps', sz', hg', hf', hl', hz', ha'⟩ := loop1Step_ok' hs'
        have ht : t' = t := by
          rw [← hsame n, hg] at hg'; cases hg'; rfl
        subst ht
        have hn := get_name hg
        have := hsame.findParents_ok ps t' (hn ▸ hg) hf
        rw [this] at hf'
        cases hf'
        rw [hl] at hl'
        cases hl'
        rw [← hsame.sumSrcLen, hz] at hz'
        cases hz'
        have : a = a' := by rw [ha, ha']
        subst this
        exact ih a l1 l1' h h'

/-- Everything `finalize_templates` derives depends only on the map (and the prefixes). -/
theorem derive_congr (ps : List String) (S S' : List Tpl) (hsame : SameMap S S')
    (o2 o3 o2' o3' : List String) (d d' : Derived)
    (h : derive ps S o2 o3 = .ok d) (h' : derive ps S' o2' o3' = .ok d')
    (ho2 : ∀ k, has S k = true → k ∈ o2) (ho3 : ∀ k, has S k = true → k ∈ o3)
    (ho2' : ∀ k, has S' k = true → k ∈ o2') (ho3' : ∀ k, has S' k = true → k ∈ o3') :
    d.parents = d'.parents ∧ d.sizes = d'.sizes ∧ d.comps = d'.comps ∧
      ∀ T b, has S T = true → LB d.lineage T b = LB d'.lineage T b := by
  obtain ⟨l1, tb, tb1, h1, _, _, e1, _, e3, e4⟩ := derive_parts h
  obtain ⟨l1', tb', tb1', h1', _, _, e1', _, e3', e4'⟩ := derive_parts h'
  rw [sortDedup_congr (keys S') (keys S) (fun x => (hsame.mem_keys x).symm)] at h1'
  have := loop1_congr hsame _ _ _ _ h1 h1'
  subst this
  refine ⟨by rw [e1, e1'], by rw [e3, e3'], by rw [e4, e4'], ?_⟩
  intro T b hT
  exact (lineage_order_independent ps S S' hsame o2 o3 o2' o3' d d' h h' ho2 ho3 ho2' ho3' T hT b).1

/-! ### states -/

theorem get_map_tpl (ts : List Entry) (k : String) :
    get (ts.map (·.tpl)) k = (eget ts k).map (·.tpl) := by
  induction ts with
  | nil => rfl
  | cons e ts ih =>
    unfold get eget at ih ⊢
    by_cases h : e.tpl.name = k
    · have : (e.tpl.name == k) = true := by simpa using h
      simp [List.find?, this]
    · have : (e.tpl.name == k) = false := by simpa using h
      simp only [List.map, List.find?, this]
      exact ih

theorem commitEntry_tpl {d : Derived} {sfx : List String} {e e' : Entry}
    (h : commitEntry d sfx e = .ok e') :
    e'.tpl = e.tpl ∧ lookupParents d.parents e.tpl.name = some e'.parents ∧
      lookupNat d.sizes e.tpl.name = some e'.size ∧ tbLookup d.lineage e.tpl.name = some e'.lineage ∧
      e'.autoescape = autoescapeFlag sfx e.tpl.name := by
  unfold commitEntry at h
  cases h1 : lookupNat d.sizes e.tpl.name with
  | none => simp [h1] at h
  | some sz =>
    cases h2 : lookupParents d.parents e.tpl.name with
    | none => simp [h1, h2] at h
    | some ps =>
      cases h3 : tbLookup d.lineage e.tpl.name with
      | none => simp [h1, h2, h3] at h
      | some lin =>
        simp only [h1, h2, h3] at h
        cases h
        exact ⟨rfl, rfl, rfl, rfl, rfl⟩

/-- after the commit, the entry stored under a name is the committed version of the entry that was
stored under it before -/
theorem commitAll_eget {d : Derived} {sfx : List String} :
    ∀ (ts ts' : List Entry), commitAll d sfx ts = .ok ts' →
      ∀ k, match eget ts k with
        | some e => ∃ e', commitEntry d sfx e = .ok e' ∧ eget ts' k = some e'
        | none => eget ts' k = none := by
  intro ts
  induction ts with
  | nil =>
    intro ts' h k
    simp only [commitAll] at h
    cases h
    simp [eget]
  | cons e ts ih =>
    intro ts' h k
    unfold commitAll at h
    cases hc : commitEntry d sfx e with
    | error x => simp [hc] at h
    | ok e' =>
      cases hr : commitAll d sfx ts with
      | error x => simp [hc, hr] at h
      | ok es' =>
        simp only [hc, hr] at h
        cases h
        have hn : e'.tpl.name = e.tpl.name := by rw [(commitEntry_tpl hc).1]
        have ih' := ih es' hr k
        unfold eget at ih' ⊢
        by_cases hk : e.tpl.name = k
        · have h1 : (e.tpl.name == k) = true := by simpa using hk
          have h2 : (e'.tpl.name == k) = true := by rw [hn]; exact h1
          simp only [List.find?, h1, h2]
          exact ⟨e', hc, rfl⟩
        · have h1 : (e.tpl.name == k) = false := by simpa using hk
          have h2 : (e'.tpl.name == k) = false := by rw [hn]; exact h1
          simp only [List.find?, h1, h2]
          exact ih'

/-- two stored templates agree on everything observable (the lineage map is compared by lookup:
it is a `HashMap` in the Rust) -/
def EntryEquiv (e e' : Entry) : Prop :=
  e.tpl = e'.tpl ∧ e.parents = e'.parents ∧ e.size = e'.size ∧ e.autoescape = e'.autoescape ∧
    ∀ b, blockLookup e.lineage b = blockLookup e'.lineage b

/-- the template maps agree entry by entry -/
def MapEquiv (ts ts' : List Entry) : Prop :=
  ∀ k, match eget ts k, eget ts' k with
    | some e, some e' => EntryEquiv e e'
    | none, none => True
    | _, _ => False

def StateEquiv (s s' : State) : Prop :=
  s.prefixes = s'.prefixes ∧ s.suffixes = s'.suffixes ∧ s.comps = s'.comps ∧
    MapEquiv s.templates s'.templates

/-- the two maps hold the same sources under the same names -/
def SameSources (ts ts' : List Entry) : Prop :=
  ∀ k, (eget ts k).map (·.tpl) = (eget ts' k).map (·.tpl)

theorem finalize_congr (st st' r r' : State) (o2 o3 o2' o3' : List String)
    (hp : st.prefixes = st'.prefixes) (hs : st.suffixes = st'.suffixes)
    (hsrc : SameSources st.templates st'.templates)
    (h : finalize st o2 o3 = .ok r) (h' : finalize st' o2' o3' = .ok r')
    (ho2 : ∀ k, (eget st.templates k).isSome = true → k ∈ o2)
    (ho3 : ∀ k, (eget st.templates k).isSome = true → k ∈ o3)
    (ho2' : ∀ k, (eget st'.templates k).isSome = true → k ∈ o2')
    (ho3' : ∀ k, (eget st'.templates k).isSome = true → k ∈ o3') :
    StateEquiv r r' := by
  have hsame : SameMap (st.templates.map (·.tpl)) (st'.templates.map (·.tpl)) := by
    intro k; rw [get_map_tpl, get_map_tpl]; exact hsrc k
  have hhas : ∀ (ts : List Entry) k, has (ts.map (·.tpl)) k = (eget ts k).isSome := by
    intro ts k; simp [Tera.Reg.has, get_map_tpl]
  unfold finalize at h h'
  cases hd : derive st.prefixes (st.templates.map (·.tpl)) o2 o3 with
  | error e => simp [hd] at h
  | ok d =>
    cases hd' : derive st'.prefixes (st'.templates.map (·.tpl)) o2' o3' with
    | error e => simp [hd'] at h'
    | ok d' =>
      simp only [hd] at h
      simp only [hd'] at h'
      cases hc : commitAll d st.suffixes st.templates with
      | error e => simp [hc] at h
      | ok ts =>
        cases hc' : commitAll d' st'.suffixes st'.templates with
        | error e => simp [hc'] at h'
        | ok ts' =>
          simp only [hc] at h
          simp only [hc'] at h'
          cases h; cases h'
          rw [← hp] at hd'
          obtain ⟨c1, c2, c3, c4⟩ := derive_congr st.prefixes _ _ hsame o2 o3 o2' o3' d d' hd hd'
            (fun k hk => ho2 k (by rw [← hhas]; exact hk)) (fun k hk => ho3 k (by rw [← hhas]; exact hk))
            (fun k hk => ho2' k (by rw [← hhas]; exact hk)) (fun k hk => ho3' k (by rw [← hhas]; exact hk))
          refine ⟨hp, hs, c3, ?_⟩
          intro k
          have a := commitAll_eget _ _ hc k
          have a' := commitAll_eget _ _ hc' k
          have hk := hsrc k
          cases he : eget st.templates k with
          | none =>
            cases he' : eget st'.templates k with
            | none => simp only [he] at a; simp only [he'] at a'; simp [a, a']
            | some e' => simp [he, he'] at hk
          | some e =>
            cases he' : eget st'.templates k with
            | none => simp [he, he'] at hk
            | some e' =>
              simp only [he] at a
              simp only [he'] at a'
              obtain ⟨f, hf, hf2⟩ := a
              obtain ⟨f', hf', hf2'⟩ := a'
              simp only [hf2, hf2']
              have htpl : e.tpl = e'.tpl := by simpa [he, he'] using hk
              obtain ⟨t1, t2, t3, t4, t5⟩ := commitEntry_tpl hf
              obtain ⟨u1, u2, u3, u4, u5⟩ := commitEntry_tpl hf'
              have hname := eget_name he
              refine ⟨by rw [t1, u1, htpl], ?_, ?_, ?_, ?_⟩
              · rw [← htpl, ← c1, t2] at u2; exact Option.some.inj u2
              · rw [← htpl, ← c2, t3] at u3; exact Option.some.inj u3
              · rw [t5, u5, htpl, hs]
              · intro b
                have hT : has (st.templates.map (·.tpl)) e.tpl.name = true := by
                  rw [hhas, hname, he]; rfl
                have := c4 e.tpl.name b hT
                simp only [LB, t4] at this
                rw [htpl, u4] at this
                exact this

end Tera.Reg

namespace Tera.Reg

theorem finalize_ok_parts {st r : State} {o2 o3 : List String} (h : finalize st o2 o3 = .ok r) :
    ∃ d ts, derive st.prefixes (st.templates.map (·.tpl)) o2 o3 = .ok d ∧
      commitAll d st.suffixes st.templates = .ok ts ∧
      r = { st with templates := ts, comps := d.comps } := by
  unfold finalize at h
  cases hd : derive st.prefixes (st.templates.map (·.tpl)) o2 o3 with
  | error e => simp [hd] at h
  | ok d =>
    simp only [hd] at h
    cases hc : commitAll d st.suffixes st.templates with
    | error e => simp [hc] at h
    | ok ts =>
      simp only [hc] at h
      cases h
      exact ⟨d, ts, rfl, hc, rfl⟩

end Tera.Reg
