/-
Bridge optimiser ↔ VM checker (the last piece of P3): if the TYPED form of a compiled chunk has a
table accepted by the value-level checker `Vm.verify`, so has the chunk `Pipeline.storeChunk`
stores.  bC_opt's `C09WF.optimize_preserves_vverify` (optimize preserves the checker's acceptance,
for an arbitrary decoder) instantiated with the positional decoder `decodeInstr code`.
-/
import TeraModel.Props.C09WFVm
import TeraModel.Lemmas.PipelineStore
namespace Tera.Pipeline
open Tera Tera.Compiler Tera.Optimize Tera.OptimizeVWF

/-- the typed form of a compiled chunk: what the VM would run without the optimisation pass -/
def typedCode (code : Code) : Option (List Vm.VEntry) :=
  code.mapM fun e => (vinstr e.1).map (·, spansOf e.2)

theorem decOK_decodeInstr (code : Code) : DecOK (decodeInstr code) :=
  ⟨fun _ => rfl, fun _ => rfl, rfl, fun _ => rfl, fun _ => rfl, fun _ => rfl, fun _ => rfl,
   fun _ => rfl, fun _ => rfl, fun _ => rfl⟩

/-- decoding the encoding of the instruction at position `k` gives its typed form -/
theorem decode_encodeInstr (code : Code) (k : Nat) (e : CEntry) (hk : code[k]? = some e) :
    decodeInstr code (encodeInstr k e.1) = vinstr e.1 := by
  obtain ⟨ci, b⟩ := e
  have hdec : WellFormed.decNat (idxArg k).toList = some k := by simp [idxArg, decNat_natDec]
  cases ci <;> first
    | rfl
    | (simp only [encodeInstr, decodeInstr, hdec, hk])

theorem mapM_encodeFrom (code : Code) : ∀ (rest : Code) (i : Nat),
    (∀ k e, rest[k]? = some e → code[i + k]? = some e) →
    (encodeFrom i rest).mapM (fun e => (decodeInstr code e.1).map (·, e.2)) =
      rest.mapM fun e => (vinstr e.1).map (·, spansOf e.2) := by
  intro rest
  induction rest with
  | nil => intro i _; rfl
  | cons e tl ih =>
    intro i h
    simp only [encodeFrom, List.mapM_cons]
    rw [decode_encodeInstr code i e (by simpa using h 0 e rfl)]
    rw [ih (i + 1) (fun k e' hk => by
      have := h (k + 1) e' (by simpa using hk)
      rwa [Nat.add_assoc, Nat.add_comm 1 k])]

theorem mapM_encode (code : Code) :
    (encode code).mapM (fun e => (decodeInstr code e.1).map (·, e.2)) = typedCode code :=
  mapM_encodeFrom code code 0 (fun k e h => by simpa using h)

theorem decodeAll_eq_mapM (code : Code) : ∀ (r : List Entry),
    decodeAll code r = r.mapM fun e => (decodeInstr code e.1).map (·, e.2) := by
  intro r
  induction r with
  | nil => rfl
  | cons x rest ih =>
    simp only [decodeAll, decodeEntry, List.mapM_cons, ← ih]
    cases decodeInstr code x.1 with
    | none => rfl
    | some v =>
      cases decodeAll code rest with
      | none => rfl
      | some vs => rfl

theorem pathSpans_encode (ns : List Node) : PathVm.PathSpans (encode (nodesCode 0 none ns)) := by
  intro e he hk
  obtain ⟨k, y, hy, rfl⟩ := mem_encode he
  have hsp := pspan_nodes ns 0 none y (List.mem_of_getElem? hy)
  have : y.2 = true := by
    apply hsp
    obtain ⟨i, b⟩ := y
    rcases hk with ⟨n, hn⟩ | ⟨a, ha⟩
    · left; cases i <;> simp [encodeInstr] at hn ⊢
    · right; cases i <;> simp [encodeInstr] at ha ⊢
  simp [spansOf, this]

theorem otherNoTarget_encode (code : Code) : OtherNoTarget (decodeInstr code) (encode code) := by
  intro e he k a vi hoth hdec
  obtain ⟨i, y, hy, rfl⟩ := mem_encode he
  simp only at hoth hdec
  rw [decode_encodeInstr code i y hy] at hdec
  obtain ⟨ci, b⟩ := y
  cases ci <;> simp only [encodeInstr] at hoth <;> try (cases hoth)
  all_goals
    simp only [vinstr, Option.some.injEq] at hdec
    first
      | (subst hdec; rfl)
      | (rename_i op; cases op <;> simp only [Option.some.injEq] at hdec <;> first | (subst hdec; rfl) | cases hdec)

/-- **a `Vm.verify` table of the typed compiled chunk gives one for the stored chunk** -/
theorem storeChunk_vverify (name : String) (ns : List Node) (tcode : List Vm.VEntry)
    (table : List (Option Vm.ASt)) (ht : typedCode (nodesCode 0 none ns) = some tcode)
    (hv : Vm.verify tcode table = true) (ch : Vm.Chunk)
    (hst : storeChunk name (nodesCode 0 none ns) = .ok ch) :
    ∃ table', Vm.verify ch.code table' = true := by
  obtain ⟨c', code', hopt, hdec', hv'⟩ :=
    C09WF.optimize_preserves_vverify (decodeInstr (nodesCode 0 none ns)) (decOK_decodeInstr _)
      (encode (nodesCode 0 none ns)) tcode table (encode_targetsInRange ns) (pathSpans_encode ns)
      (otherNoTarget_encode _) (by rw [mapM_encode]; exact ht) hv
  unfold storeChunk at hst
  rw [hopt] at hst
  simp only at hst
  rw [decodeAll_eq_mapM, hdec'] at hst
  simp only [Stored.ok.injEq] at hst
  subst hst
  exact ⟨_, hv'⟩

end Tera.Pipeline
