/-
Render skeleton (Model/RenderSkel.lean): if the render-time call graph is acyclic (ranked), the
nesting depth of `interpret` is bounded by the rank of the starting node.
-/
import TeraModel.Model.RenderSkel
import TeraModel.Lemmas.RegResolve
namespace Tera.Reg

/-- a chunk being interpreted, with the part of the VM state that decides what it calls -/
inductive Node where
  /-- the main chunk of template `of`, interpreted for `view` (`self.template`) -/
  | body (view : String) (of : String)
  /-- level `level` of the lineage of block `b` of template `view` -/
  | block (view : String) (b : String) (level : Nat)
  /-- the body of component `c`, interpreted for `view` -/
  | comp (view : String) (c : String)
  deriving Repr, DecidableEq

def Node.view : Node → String
  | .body v _ => v
  | .block v _ _ => v
  | .comp v _ => v

/-- the chunk of a node -/
def nodeItems (env : REnv) : Node → Option (List RItem)
  | .body _ o => (get env.S o).map bodyOfTpl
  | .block v b lvl =>
    match lineageOf env v b with
    | some L => (match L[lvl]? with | some o => blockBody env o b | none => none)
    | none => none
  | .comp _ c => compBody env c

/-- the node an instruction of node `n` starts interpreting -/
def callee (env : REnv) (n : Node) : RItem → Option Node
  | .text _ => none
  | .inc target => (resolve env.ps env.S target).map (fun r => .body r r)
  | .blk b => some (.block n.view b 0)
  | .sup => (match n with | .block v b lvl => some (.block v b (lvl + 1)) | _ => none)
  | .comp c => some (.comp n.view c)

/-- the render-time call graph: extends → root body, block → most derived definition (through the
lineage), `super()` → next level, block → nested block, any chunk → included template's own body,
any chunk → component body -/
def Calls (env : REnv) (a b : Node) : Prop :=
  ∃ items it, nodeItems env a = some items ∧ it ∈ items ∧ callee env a it = some b

/-- The call graph is acyclic: it admits a rank that strictly decreases along every call.
(On a finite graph this is equivalent to the absence of cycles; the engine checks only the
`extends` and `include` sub-graphs — see `render_terminates_full_is_false`.) -/
def CallGraphAcyclic (env : REnv) : Prop :=
  ∃ rank : Node → Nat, ∀ a b, Calls env a b → rank b < rank a

/-- the VM state fits the node being interpreted -/
def CtxFor (env : REnv) (ctx : RCtx) : Node → Prop
  | .body v _ => ctx.view = v
  | .block v b lvl => ctx.view = v ∧ ctx.cur = some b ∧
      ∃ L, lineageOf env v b = some L ∧ topEntry ctx.blocks b = some (L, lvl)
  | .comp v _ => ctx.view = v

theorem andThen_ne_fuel {a : Except RErr String} {b : Unit → Except RErr String}
    (ha : a ≠ .error .outOfFuel) (hb : b () ≠ .error .outOfFuel) :
    andThen a b ≠ .error .outOfFuel := by
  unfold andThen
  cases a with
  | error e => simpa using ha
  | ok out =>
    cases hk : b () with
    | error e => rw [hk] at hb; simpa using hb
    | ok r => simp

theorem topEntry_setTopLevel (bs : List BlockEntry) (name : String) (L : List String) (i j : Nat)
    (h : topEntry bs name = some (L, i)) : topEntry (setTopLevel bs name j) name = some (L, j) := by
  induction bs with
  | nil => simp [topEntry] at h
  | cons e rest ih =>
    unfold topEntry at h
    unfold setTopLevel
    by_cases he : e.1 = name
    · simp only [he, if_true] at h ⊢
      simp only [topEntry, if_true]
      obtain ⟨n, l, k⟩ := e
      simp at h
      simp [h.1]
    · simp only [he, if_false] at h ⊢
      simp only [topEntry, he, if_false]
      exact ih h

theorem sup_not_mem_bodyOfTpl (t : Tpl) : RItem.sup ∉ bodyOfTpl t := by
  simp [bodyOfTpl]

theorem sup_not_mem_bodyOfComp (o : Tpl) (c : CompDef) : RItem.sup ∉ bodyOfComp o c := by
  simp [bodyOfComp]

theorem sup_not_mem_compBody {env : REnv} {c : String} {body : List RItem}
    (h : compBody env c = some body) : RItem.sup ∉ body := by
  unfold compBody at h
  cases h1 : (env.comps.find? (fun e => e.1 == c)).map (·.2) with
  | none => simp [h1] at h
  | some owner =>
    simp only [h1] at h
    cases h2 : get env.S owner with
    | none => simp [h2] at h
    | some ot =>
      simp only [h2] at h
      cases h3 : ot.comps.find? (fun d => d.name == c) with
      | none => simp [h3] at h
      | some cd =>
        simp only [h3, Option.map_some, Option.some.injEq] at h
        rw [← h]
        exact sup_not_mem_bodyOfComp ot cd

/-- one `interpret` level: if every nested call stays within its fuel, so does this one -/
theorem runItems_ne_fuel (env : REnv) (rank : Node → Nat)
    (hrank : ∀ a b, Calls env a b → rank b < rank a)
    (rec : RCtx → List RItem → Except RErr String) (f : Nat)
    (hrec : ∀ node ctx body, nodeItems env node = some body → CtxFor env ctx node → rank node < f →
      rec ctx body ≠ .error .outOfFuel)
    (node : Node) (body : List RItem) (hbody : nodeItems env node = some body) (hf : rank node < f + 1) :
    ∀ (items : List RItem) (ctx : RCtx), (∀ it ∈ items, it ∈ body) → CtxFor env ctx node →
      runItems env rec ctx items ≠ .error .outOfFuel := by
  intro items
  induction items with
  | nil => intro ctx _ _; simp [runItems]
  | cons it rest ih =>
    intro ctx hsub hctx
    have hrest := ih ctx (fun x hx => hsub x (by simp [hx])) hctx
    have hit : it ∈ body := hsub it (by simp)
    have hview : ctx.view = node.view := by
      cases node with
      | body v o => exact hctx
      | block v b l => exact hctx.1
      | comp v c => exact hctx
    have hcall : ∀ n', callee env node it = some n' → rank n' < f := by
      intro n' hc
      have := hrank node n' ⟨body, it, hbody, hit, hc⟩
      omega
    cases it with
    | text s =>
      simp only [runItems]
      exact andThen_ne_fuel (by simp) hrest
    | inc n =>
      simp only [runItems]
      cases hr : resolve env.ps env.S n with
      | none => simp
      | some r =>
        simp only
        cases hg : get env.S r with
        | none => simp
        | some t =>
          simp only
          have hn := get_name hg
          apply andThen_ne_fuel _ hrest
          apply hrec (.body r r) _ (bodyOfTpl t)
          · simp [nodeItems, hg]
          · simp [CtxFor, hn]
          · exact hcall _ (by simp [callee, hr])
    | blk b =>
      simp only [runItems]
      cases hl : lineageOf env ctx.view b with
      | none => simp
      | some L =>
        cases L with
        | nil => simp
        | cons o l =>
          simp only
          cases hb : blockBody env o b with
          | none => simp
          | some body' =>
            simp only
            apply andThen_ne_fuel _ hrest
            apply hrec (.block node.view b 0) _ body'
            · rw [← hview]; simp [nodeItems, hl, hb]
            · refine ⟨hview, rfl, o :: l, by rw [← hview]; exact hl, by simp [topEntry]⟩
            · exact hcall _ (by simp [callee])
    | sup =>
      simp only [runItems]
      cases hc : ctx.cur with
      | none => simp
      | some cb =>
        simp only
        cases ht : topEntry ctx.blocks cb with
        | none => simp
        | some e =>
          obtain ⟨L, lvl⟩ := e
          simp only
          cases ho : L[lvl + 1]? with
          | none => simp
          | some o =>
            simp only
            cases hb : blockBody env o cb with
            | none => simp
            | some body' =>
              simp only
              apply andThen_ne_fuel _ hrest
              cases node with
              | body v o' =>
                exfalso
                simp only [nodeItems] at hbody
                cases hg : get env.S o' with
                | none => simp [hg] at hbody
                | some t =>
                  simp only [hg, Option.map_some, Option.some.injEq] at hbody
                  rw [← hbody] at hit
                  exact sup_not_mem_bodyOfTpl t hit
              | comp v c =>
                exfalso
                exact sup_not_mem_compBody hbody hit
              | block v b' lvl' =>
                obtain ⟨hv, hcur, L', hL', htop⟩ := hctx
                rw [hc] at hcur
                cases hcur
                rw [ht] at htop
                cases htop
                apply hrec (.block v cb (lvl + 1)) _ body'
                · simp [nodeItems, hL', ho, hb]
                · exact ⟨hv, rfl, L, hL', topEntry_setTopLevel _ _ _ _ _ ht⟩
                · exact hcall _ (by simp [callee])
    | comp c =>
      simp only [runItems]
      by_cases hd : ctx.compDepth + 1 > MAX_COMPONENT_RECURSION_DEPTH
      · simp [hd]
      · simp only [hd, if_false]
        cases hb : compBody env c with
        | none => simp
        | some body' =>
          simp only
          apply andThen_ne_fuel _ hrest
          apply hrec (.comp node.view c) _ body'
          · simp [nodeItems, hb]
          · simp [CtxFor, hview]
          · exact hcall _ (by simp [callee])

/-- with fuel above the rank of the node, interpreting its chunk never runs out of fuel -/
theorem run_ne_fuel (env : REnv) (rank : Node → Nat) (hrank : ∀ a b, Calls env a b → rank b < rank a) :
    ∀ (f : Nat) (node : Node) (ctx : RCtx) (body : List RItem), nodeItems env node = some body →
      CtxFor env ctx node → rank node < f → run env f ctx body ≠ .error .outOfFuel := by
  intro f
  induction f with
  | zero => intro node ctx body _ _ h; omega
  | succ f ih =>
    intro node ctx body hbody hctx hf
    unfold run
    exact runItems_ne_fuel env rank hrank (run env f) f (fun n c b hb hc hr => ih n c b hb hc hr)
      node body hbody hf body ctx (fun _ h => h) hctx

end Tera.Reg
