/-
Bridge registry ↔ VM (P5 of Props/Pipeline.lean): every environment `Pipeline.addTemplates`
returns satisfies `Vm.EnvOK` (Lemmas/VmSim.lean) — every chunk `interpret` can be entered with
passed `Vm.checkChunk` — provided the built-in parameters do not panic.  The check is made by
`addTemplates` itself (`firstUnchecked`: translation validation of every stored chunk).
-/
import TeraModel.Lemmas.VmSim
import TeraModel.Model.Pipeline
namespace Tera.Pipeline
open Tera Tera.Vm

theorem assoc_mem {α : Type} {k : String} {l : List (String × α)} {v : α}
    (h : Vm.assoc k l = some v) : ∃ k', (k', v) ∈ l := by
  induction l with
  | nil => simp [Vm.assoc] at h
  | cons hd tl ih =>
    obtain ⟨k', v'⟩ := hd
    simp only [Vm.assoc] at h
    split at h
    · cases h; exact ⟨k', List.mem_cons_self⟩
    · obtain ⟨k'', hm⟩ := ih h
      exact ⟨k'', List.mem_cons_of_mem _ hm⟩

/-- `firstUnchecked env = none`: every listed chunk passed the checker -/
theorem all_checked {env : Vm.Env} (h : firstUnchecked env = none) :
    ∀ p ∈ allChunks env, checkChunk env p.2 = true := by
  intro p hp
  unfold firstUnchecked at h
  simp only [Option.map_eq_none_iff, List.find?_eq_none] at h
  have := h p hp
  simpa using this

theorem main_in_all {env : Vm.Env} {n : String} {t : TemplateInfo} (h : (n, t) ∈ env.templates) :
    ("main:" ++ n, t.chunk) ∈ allChunks env := by
  unfold allChunks
  apply List.mem_append_left
  apply List.mem_flatMap.mpr
  exact ⟨(n, t), h, by simp⟩

theorem lineage_in_all {env : Vm.Env} {n : String} {t : TemplateInfo} (h : (n, t) ∈ env.templates)
    {b : String} {lin : List Chunk} (hb : (b, lin) ∈ t.blockLineage) {ch : Chunk} (hc : ch ∈ lin) :
    ("block:" ++ n ++ ":" ++ b, ch) ∈ allChunks env := by
  unfold allChunks
  apply List.mem_append_left
  apply List.mem_flatMap.mpr
  refine ⟨(n, t), h, ?_⟩
  simp only [List.mem_append, List.mem_cons, List.not_mem_nil, or_false, List.mem_flatMap, List.mem_map]
  right
  exact ⟨(b, lin), hb, ch, hc, rfl⟩

theorem comp_in_all {env : Vm.Env} {n : String} {d : Component.Def} {ch : Chunk}
    (h : (n, (d, ch)) ∈ env.components) : ("comp:" ++ n, ch) ∈ allChunks env := by
  unfold allChunks
  apply List.mem_append_right
  exact List.mem_map.mpr ⟨(n, (d, ch)), h, rfl⟩

/-- an environment whose chunks all passed the checker and whose built-ins do not panic is `EnvOK` -/
theorem envOK_of_checked (env : Vm.Env) (h : firstUnchecked env = none) (hb : BuiltinsTotal env) :
    EnvOK env := by
  have hall := all_checked h
  refine ⟨?_, ?_, hb⟩
  · intro n tpl htpl
    obtain ⟨n', hmem⟩ := assoc_mem htpl
    refine ⟨hall _ (main_in_all hmem), ?_⟩
    intro b lin hlin ch hch
    obtain ⟨b', hbm⟩ := assoc_mem hlin
    exact hall _ (lineage_in_all hmem hbm hch)
  · intro n d ch hcomp
    obtain ⟨n', hmem⟩ := assoc_mem hcomp
    exact hall _ (comp_in_all hmem)

/-- the built-in parameters of a configuration do not panic -/
def BuiltinsNoPanic (b : Builtins) : Prop :=
  (∀ n v kw, (b.callFilter n v kw).isPanic = false) ∧
  (∀ n v kw, (b.callTest n v kw).isPanic = false) ∧
  (∀ n kw, (b.callFunction n kw).isPanic = false)

/-- what `addTemplates` returns is built by `mkEnv` and passed `firstUnchecked` -/
theorem addTemplates_ok_inv (cfg : Config) (sources : List (String × Bytes)) (env : Env)
    (h : addTemplates cfg sources = .ok env) :
    firstUnchecked env = none ∧ ∃ tpls comps, env = mkEnv cfg tpls comps := by
  unfold addTemplates at h
  cases hn : newAll cfg.delims sources with
  | error e => rw [hn] at h; cases h
  | ok tds =>
    rw [hn] at h
    simp only at h
    cases hr : register cfg tds with
    | error e => rw [hr] at h; cases h
    | ok st =>
      rw [hr] at h
      simp only at h
      cases hb : buildEnv cfg tds st with
      | none => rw [hb] at h; cases h
      | some env' =>
        rw [hb] at h
        simp only [validate] at h
        unfold buildEnv at hb
        split at hb
        · cases hb
          split at h
          · cases h
          · rename_i hnone
            cases h
            exact ⟨hnone, _, _, rfl⟩
        · cases hb

/-- **every environment `addTemplates` returns is `EnvOK`** (given built-ins that do not panic) -/
theorem addTemplates_envOK (cfg : Config) (hb : BuiltinsNoPanic cfg.builtins)
    (sources : List (String × Bytes)) (env : Env) (h : addTemplates cfg sources = .ok env) :
    EnvOK env := by
  obtain ⟨hnone, tpls, comps, rfl⟩ := addTemplates_ok_inv cfg sources env h
  exact envOK_of_checked _ hnone hb

end Tera.Pipeline
