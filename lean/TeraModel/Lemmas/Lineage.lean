/-
Block lineage: the two passes of `finalize_templates` (Model/Finalize.lean) against
`lineageSpec` (Spec/Inherit.lean).  Part 1: the specification's recursion, pass 1 (`walkUp`,
`ownBlocks`), association-list facts.
-/
import TeraModel.Spec.Inherit
import TeraModel.Lemmas.FindParents
namespace Tera.Reg

/-! ### `lineageSpec` by recursion on the chain -/

theorem lineageSpec_nil (S : List Tpl) (b : String) : lineageSpec S [] b = none := rfl

theorem lineageSpec_cons_def {S : List Tpl} {n b : String} {s : Bool} (cs : List String)
    (h : definesBlock S n b = some s) :
    lineageSpec S (n :: cs) b = some (cutAfterNoSuper ((n, s) :: definers S b cs)) := by
  simp [lineageSpec, definers, h]

theorem lineageSpec_cons_nodef {S : List Tpl} {n b : String} (cs : List String)
    (h : definesBlock S n b = none) :
    lineageSpec S (n :: cs) b = lineageSpec S cs b := by
  simp [lineageSpec, definers, h]

theorem lineageSpec_skip {S : List Tpl} {b : String} (pre l : List String)
    (h : ∀ n ∈ pre, definesBlock S n b = none) :
    lineageSpec S (pre ++ l) b = lineageSpec S l b := by
  induction pre with
  | nil => rfl
  | cons n pre ih =>
    rw [List.cons_append, lineageSpec_cons_nodef _ (h n (by simp))]
    exact ih (fun m hm => h m (by simp [hm]))

theorem lineageSpec_none_of_nodef {S : List Tpl} {b : String} (l : List String)
    (h : ∀ n ∈ l, definesBlock S n b = none) : lineageSpec S l b = none := by
  have := lineageSpec_skip (S := S) (b := b) l [] h
  rw [List.append_nil] at this
  rw [this]; rfl

/-! ### association lists -/

theorem blockLookup_cons (k : String) (l : List String) (m : BlockMap) (b : String) :
    blockLookup ((k, l) :: m) b = if k = b then some l else blockLookup m b := by
  unfold blockLookup
  by_cases h : k = b
  · simp [List.find?, h]
  · have : (k == b) = false := by simpa using h
    simp [List.find?, this, h]

theorem blockLookup_append (m : BlockMap) (k : String) (l : List String) (b : String) :
    blockLookup (m ++ [(k, l)]) b =
      match blockLookup m b with
      | some x => some x
      | none => if k = b then some l else none := by
  induction m with
  | nil =>
    rw [List.nil_append, blockLookup_cons]
    simp [blockLookup]
  | cons e m ih =>
    obtain ⟨k', l'⟩ := e
    rw [List.cons_append, blockLookup_cons, blockLookup_cons]
    by_cases h : k' = b
    · simp [h]
    · simp only [h, if_false]; exact ih

theorem orInsertAll_lookup (pb child : BlockMap) (b : String) :
    blockLookup (orInsertAll child pb) b =
      match blockLookup child b with
      | some x => some x
      | none => blockLookup pb b := by
  induction pb generalizing child with
  | nil => unfold orInsertAll; cases blockLookup child b <;> simp [blockLookup]
  | cons e pb ih =>
    obtain ⟨k, l⟩ := e
    unfold orInsertAll
    cases hk : blockLookup child k with
    | some x =>
      simp only
      rw [ih, blockLookup_cons]
      by_cases h : k = b
      · subst h; simp [hk]
      · simp [h]
    | none =>
      simp only
      rw [ih, blockLookup_append, blockLookup_cons]
      cases hb : blockLookup child b with
      | some x => simp
      | none =>
        by_cases h : k = b
        · simp [h]
        · simp [h]

theorem tbLookup_cons (k : String) (m : BlockMap) (tb : TplBlocks) (T : String) :
    tbLookup ((k, m) :: tb) T = if k = T then some m else tbLookup tb T := by
  unfold tbLookup
  by_cases h : k = T
  · simp [List.find?, h]
  · have : (k == T) = false := by simpa using h
    simp [List.find?, this, h]

theorem tbLookup_tbSet (tb : TplBlocks) (T : String) (m : BlockMap) (T' : String) :
    tbLookup (tbSet tb T m) T' =
      if T' = T then (tbLookup tb T').map (fun _ => m) else tbLookup tb T' := by
  induction tb with
  | nil => simp [tbSet, tbLookup]
  | cons e tb ih =>
    obtain ⟨k, m'⟩ := e
    have hset : tbSet ((k, m') :: tb) T m = (if k = T then (k, m) else (k, m')) :: tbSet tb T m := by
      simp [tbSet]
    rw [hset]
    by_cases hk : k = T
    · simp only [hk, if_true]
      rw [tbLookup_cons, tbLookup_cons]
      by_cases h : T = T'
      · subst h; simp
      · have h' : ¬ T' = T := fun e => h e.symm
        simp only [h, if_false, h']
        rw [ih]; simp [h']
    · simp only [hk, if_false]
      rw [tbLookup_cons, tbLookup_cons]
      by_cases h : k = T'
      · subst h; simp [hk]
      · simp only [h, if_false]; exact ih

/-! ### pass 1 -/

theorem resolve_registered_self {ps : List String} {S : List Tpl} {c : String} (h : has S c = true) :
    resolve ps S c = some c := by simp [resolve, h]

/-- The parent walk for one block yields the definers of the chain, cut after the first one
that does not call `super()`. -/
theorem walkUp_eq (ps : List String) (S : List Tpl) (b : String) (cs : List String)
    (hreg : ∀ c ∈ cs, has S c = true) :
    walkUp ps S b cs = .ok (cutAfterNoSuper (definers S b cs)) := by
  induction cs with
  | nil => rfl
  | cons c rest ih =>
    have hc := hreg c (by simp)
    obtain ⟨pt, hpt⟩ := has_iff_get.mp hc
    have hname := get_name hpt
    have ih' := ih (fun x hx => hreg x (by simp [hx]))
    unfold walkUp
    rw [resolve_registered_self hc]
    simp only [hpt]
    cases hb : pt.findBlock b with
    | none =>
      have : definesBlock S c b = none := by simp [definesBlock, hpt, hb]
      simp only [definers, this]
      exact ih'
    | some pb =>
      have hd : definesBlock S c b = some pb.callsSuper := by simp [definesBlock, hpt, hb]
      simp only [definers, hd]
      by_cases hs : pb.callsSuper = true
      · simp only [hs, if_true, ih', cutAfterNoSuper, hname]
      · have hs' : pb.callsSuper = false := by simpa using hs
        simp [hs', cutAfterNoSuper, hname]

end Tera.Reg

namespace Tera.Reg

theorem ownLineage_eq (ps : List String) (S : List Tpl) (parents : List String) (t : Tpl) (d : BlockDef)
    (hreg : ∀ c ∈ parents, has S c = true) :
    ownLineage ps S parents t d =
      .ok (cutAfterNoSuper ((t.name, d.callsSuper) :: definers S d.name parents.reverse)) := by
  unfold ownLineage
  by_cases hs : d.callsSuper = true
  · simp only [hs, if_true]
    rw [walkUp_eq ps S d.name parents.reverse (fun c hc => hreg c (List.mem_reverse.mp hc))]
    simp [cutAfterNoSuper]
  · have hs' : d.callsSuper = false := by simpa using hs
    simp [hs', cutAfterNoSuper]

/-- lineage pass 1 for one template: every block it defines gets the specified lineage -/
theorem ownBlocks_ok (ps : List String) (S : List Tpl) (parents : List String) (t : Tpl)
    (hreg : ∀ c ∈ parents, has S c = true) (bs : List BlockDef) :
    ∃ m, ownBlocks ps S parents t bs = .ok m ∧
      ∀ b, blockLookup m b = (bs.find? (fun d => d.name == b)).map
        (fun d => cutAfterNoSuper ((t.name, d.callsSuper) :: definers S b parents.reverse)) := by
  induction bs with
  | nil => exact ⟨[], rfl, fun b => by simp [blockLookup]⟩
  | cons d bs ih =>
    obtain ⟨m, hm, hl⟩ := ih
    refine ⟨(d.name, cutAfterNoSuper ((t.name, d.callsSuper) :: definers S d.name parents.reverse)) :: m, ?_, ?_⟩
    · unfold ownBlocks
      rw [ownLineage_eq ps S parents t d hreg, hm]
    · intro b
      rw [blockLookup_cons]
      by_cases h : d.name = b
      · subst h; simp [List.find?]
      · have : (d.name == b) = false := by simpa using h
        simp only [h, if_false, List.find?, this]
        exact hl b

/-! ### first loop: the parents table -/

theorem mem_insertSorted (x y : String) (l : List String) :
    y ∈ insertSorted x l ↔ y = x ∨ y ∈ l := by
  induction l with
  | nil => simp [insertSorted]
  | cons z zs ih =>
    unfold insertSorted
    by_cases h1 : x < z
    · simp [h1]
    · by_cases h2 : x = z
      · subst h2; simp [h1]
      · simp only [h1, h2, if_false, List.mem_cons, ih]
        constructor
        · rintro (h | h | h)
          · exact .inr (.inl h)
          · exact .inl h
          · exact .inr (.inr h)
        · rintro (h | h | h)
          · exact .inr (.inl h)
          · exact .inl h
          · exact .inr (.inr h)

theorem mem_sortDedup (x : String) (l : List String) : x ∈ sortDedup l ↔ x ∈ l := by
  induction l with
  | nil => simp [sortDedup]
  | cons y ys ih =>
    have : sortDedup (y :: ys) = insertSorted y (sortDedup ys) := rfl
    rw [this, mem_insertSorted, ih]; simp

/-- what the first loop records for a registered template -/
def parentsOf (ps : List String) (S : List Tpl) (k : String) : Option (List String) :=
  match get S k with
  | some t => (match findParents ps S t with | .ok p => some p | _ => none)
  | none => none

theorem loop1Step_ok {ps : List String} {S : List Tpl} {acc acc' : Loop1} {n : String}
    (h : loop1Step ps S acc n = .ok acc') :
    ∃ t p, get S n = some t ∧ findParents ps S t = .ok p ∧ acc'.parents = acc.parents ++ [(n, p)] := by
  unfold loop1Step at h
  cases hg : get S n with
  | none => simp [hg] at h
  | some t =>
    simp only [hg] at h
    cases hf : findParents ps S t with
    | ok p =>
      simp only [hf] at h
      cases hc : checkIncludeCycles ps S t with
      | ok v =>
        simp only [hc] at h
        cases hl : compLoop t.name (priority ps t.name) acc.comps (t.comps.map (·.name)) with
        | error e => simp [hl] at h
        | ok comps =>
          simp only [hl] at h
          cases hs : sumSrcLen S p with
          | none => simp [hs] at h
          | some sz =>
            simp only [hs] at h
            cases h
            exact ⟨t, p, rfl, hf, rfl⟩
      | cycle ch => simp [hc] at h
      | outOfFuel => simp [hc] at h
      | panic => simp [hc] at h
    | missingParent a b => simp [hf] at h
    | circular ch => simp [hf] at h
    | outOfFuel => simp [hf] at h
    | panic => simp [hf] at h

theorem lookupParents_append (l : List (String × List String)) (n : String) (p : List String) (k : String) :
    lookupParents (l ++ [(n, p)]) k =
      match lookupParents l k with
      | some x => some x
      | none => if n = k then some p else none :=
  blockLookup_append l n p k

theorem loop1_parents (ps : List String) (S : List Tpl) :
    ∀ (names : List String) (acc l1 : Loop1), loop1 ps S acc names = .ok l1 →
      (∀ k, lookupParents l1.parents k =
        match lookupParents acc.parents k with
        | some x => some x
        | none => if k ∈ names then parentsOf ps S k else none) ∧
      (∀ k ∈ names, (parentsOf ps S k).isSome = true) := by
  intro names
  induction names with
  | nil =>
    intro acc l1 h
    simp only [loop1] at h
    cases h
    exact ⟨fun k => by cases lookupParents acc.parents k <;> simp, by simp⟩
  | cons n ns ih =>
    intro acc l1 h
    unfold loop1 at h
    cases hs : loop1Step ps S acc n with
    | error e => simp [hs] at h
    | ok acc' =>
      simp only [hs] at h
      obtain ⟨t, p, hg, hf, hp⟩ := loop1Step_ok hs
      obtain ⟨ih1, ih2⟩ := ih acc' l1 h
      have hpo : parentsOf ps S n = some p := by simp [parentsOf, hg, hf]
      constructor
      · intro k
        rw [ih1 k, hp, lookupParents_append]
        cases lookupParents acc.parents k with
        | some x => simp
        | none =>
          by_cases hnk : n = k
          · subst hnk; simp [hpo]
          · have : ¬ k = n := fun e => hnk e.symm
            simp [hnk, this]
      · intro k hk
        rcases List.mem_cons.mp hk with h1 | h1
        · rw [h1, hpo]; rfl
        · exact ih2 k h1

/-! ### second loop: the own-blocks table -/

theorem loop2_ok (ps : List String) (S : List Tpl) (l1 : Loop1) :
    ∀ (o2 : List String) (tb : TplBlocks) (bad : Bool), loop2 ps S l1 o2 = .ok (tb, bad) →
      (∀ T, T ∈ o2 → ∃ tpl parents m, get S T = some tpl ∧ lookupParents l1.parents T = some parents ∧
          ownBlocks ps S parents tpl tpl.blocks = .ok m ∧ tbLookup tb T = some m) ∧
      (∀ T, T ∉ o2 → tbLookup tb T = none) := by
  intro o2
  induction o2 with
  | nil =>
    intro tb bad h
    simp only [loop2] at h
    cases h
    exact ⟨by simp, fun T _ => by simp [tbLookup]⟩
  | cons name rest ih =>
    intro tb bad h
    unfold loop2 at h
    cases hg : get S name with
    | none => simp [hg] at h
    | some tpl =>
      cases hp : lookupParents l1.parents name with
      | none => simp [hg, hp] at h
      | some parents =>
        simp only [hg, hp] at h
        cases ho : ownBlocks ps S parents tpl tpl.blocks with
        | error e => simp [ho] at h
        | ok m =>
          simp only [ho] at h
          cases hr : loop2 ps S l1 rest with
          | error e => simp [hr] at h
          | ok r =>
            obtain ⟨tb', bad'⟩ := r
            simp only [hr] at h
            cases h
            obtain ⟨ih1, ih2⟩ := ih tb' bad' hr
            constructor
            · intro T hT
              rw [tbLookup_cons]
              by_cases hn : name = T
              · subst hn
                exact ⟨tpl, parents, m, hg, hp, ho, by simp⟩
              · have hT' : T ∈ rest := by
                  rcases List.mem_cons.mp hT with h1 | h1
                  · exact absurd h1.symm hn
                  · exact h1
                obtain ⟨tpl', parents', m', a, b, c, d⟩ := ih1 T hT'
                exact ⟨tpl', parents', m', a, b, c, by simp [hn, d]⟩
            · intro T hT
              rw [tbLookup_cons]
              have hn : ¬ name = T := fun e => hT (by simp [e])
              simp only [hn, if_false]
              exact ih2 T (fun e => hT (by simp [e]))

end Tera.Reg
