/-
C18 on the value-level VM, part 3 (W2): a run of the REAL VM model under an arbitrary writer.

`runW` / `renderToW` feed the chunks of the ghost trace (Lemmas/VmWriterTrace.lean), in order, as
`write_all` calls to an arbitrary abstract writer of Model/Writer.lean (any state machine: failing
at its k-th call, after n bytes with a partial write, answering `Ok(0)`, …) and stop with the I/O
error at the first refusal.  The VM never reads from its output (`impl Write` offers no way to),
so what it does before the refusal does not depend on the writer: the run is the run of
Model/Vm.lean.

`Split` = how the engine cuts the text of one instruction into `write_all` calls (`Value::format`
and `escape_html` issue several per instruction); the theorems hold for every such cut.
-/
import TeraModel.Lemmas.VmWriterTrace
import TeraModel.Lemmas.Writer
import TeraModel.Model.Wire
namespace Tera.Vm
open Tera Tera.W

/-- the UTF-8 bytes of a text, as the byte type of Model/Writer.lean -/
def toBytes (t : List Char) : Bytes := (Wire.utf8Encode t).map (fun n => UInt8.ofNat n)

@[simp] theorem toBytes_nil : toBytes [] = [] := rfl

theorem toBytes_append (a b : List Char) : toBytes (a ++ b) = toBytes a ++ toBytes b := by
  simp [toBytes, Wire.utf8Encode]

/-- A way of cutting the bytes of one chunk into `write_all` calls. -/
structure Split where
  cut : Bytes → List Bytes
  ok : ∀ b, (cut b).flatten = b

/-- one `write_all` per chunk -/
def wholeSplit : Split := ⟨fun b => [b], by simp⟩

/-- one `write_all` per byte -/
def byteSplit : Split := ⟨fun b => b.map ([·]), by intro b; induction b <;> simp_all⟩

/-- the `write_all` calls of a trace -/
def callsOf (sp : Split) (tr : Trace) : List Bytes := tr.flatMap fun ch => sp.cut (toBytes ch.2)

theorem callsOf_flatten (sp : Split) (tr : Trace) : (callsOf sp tr).flatten = toBytes tr.text := by
  induction tr with
  | nil => rfl
  | cons ch tr ih =>
    simp only [callsOf, List.flatMap_cons, List.flatten_append, sp.ok] at ih ⊢
    rw [ih]
    simp [Trace.text, toBytes_append]

/-- Result of `interpret` under a writer. -/
inductive WRes where
  /-- `ErrorKind::Io` -/
  | io
  /-- what the run itself ends in -/
  | fin (r : RunRes)

/-- Result of `render_to` under a writer. -/
inductive WOutcome where
  | io
  | fin (o : Outcome)

/-- Feed `write_all` calls to the writer until one is refused. -/
def feed {σ α : Type} (W : Writer σ) (s0 : σ) (calls : List Bytes) (io : α) (fin : α) : α × Sink σ :=
  match (userDev W).writeChunks (Sink.fresh s0) calls with
  | (s, true) => (fin, s)
  | (s, false) => (io, s)

/-- `VirtualMachine::interpret(state, output)` with `output` an arbitrary writer. -/
def runW {σ : Type} (W : Writer σ) (sp : Split) (fuel : Fuel) (env : Env) (vm : VmCtx) (c : Chunk)
    (st : State) (s0 : σ) : WRes × Sink σ :=
  let r := traceRun noGuard fuel env vm c st
  feed W s0 (callsOf sp r.2) .io (.fin r.1)

/-- The `write_all` calls of `render_to`: the chunks of the run; for `render_block`, the run goes to
`io::sink()` and the block buffer is written afterwards in one call. -/
def renderCalls (sp : Split) (block : Option String) (r : RunRes × Trace) : List Bytes :=
  match block with
  | none => callsOf sp r.2
  | some _ =>
    match r.1 with
    | .done st => [toBytes st.blockBuffer]
    | _ => []

/-- `Tera::render_to` / `render_block_to` with an arbitrary writer (cf. `render`, Model/Vm.lean). -/
def renderToW {σ : Type} (W : Writer σ) (sp : Split) (fuel : Fuel) (env : Env) (name : String)
    (block : Option String) (ctx globalCtx : Ctx) (s0 : σ) : WOutcome × Sink σ :=
  match env.template name with
  | none => (.fin (.err .templateNotFound), Sink.fresh s0)
  | some tpl =>
    if lineageMissing tpl block then (.fin (.err .blockNotFound), Sink.fresh s0)
    else
      match entryChunk env tpl with
      | none => (.fin (.err .templateNotFound), Sink.fresh s0)
      | some chunk =>
        let r := traceRun noGuard fuel env { template := tpl, autoescapeOverride := none, depth := 0 } chunk
          (entryState block ctx globalCtx)
        feed W s0 (renderCalls sp block r) .io (.fin (outcomeOf block r.1))

/-- Every byte `render_to` hands to its writer when nothing is refused. -/
def renderBytes (fuel : Fuel) (env : Env) (name : String) (block : Option String)
    (ctx globalCtx : Ctx) : Bytes :=
  match env.template name with
  | none => []
  | some tpl =>
    if lineageMissing tpl block then []
    else
      match entryChunk env tpl with
      | none => []
      | some chunk =>
        (renderCalls wholeSplit block
          (traceRun noGuard fuel env { template := tpl, autoescapeOverride := none, depth := 0 } chunk
            (entryState block ctx globalCtx))).flatten

theorem renderCalls_flatten (sp : Split) (block : Option String) (r : RunRes × Trace) :
    (renderCalls sp block r).flatten = (renderCalls wholeSplit block r).flatten := by
  cases block with
  | none => simp only [renderCalls, callsOf_flatten]
  | some b => rfl

/-! ### the writer sees a prefix; `Io` iff it refused -/

theorem feed_spec {σ α : Type} (W : Writer σ) (s0 : σ) (calls : List Bytes) (io fin : α) :
    ((feed W s0 calls io fin).2.failed = false ∧ (feed W s0 calls io fin).1 = fin ∧
      (feed W s0 calls io fin).2.accepted = calls.flatten) ∨
    ((feed W s0 calls io fin).2.failed = true ∧ (feed W s0 calls io fin).1 = io ∧
      (feed W s0 calls io fin).2.accepted <+: calls.flatten) := by
  unfold feed
  rcases user_writeChunks_spec W calls (Sink.fresh s0) with ⟨h1, h2, h3⟩ | ⟨h1, h2, d, h3, h4⟩
  · generalize (userDev W).writeChunks (Sink.fresh s0) calls = res at h1 h2 h3
    obtain ⟨s, ok⟩ := res
    simp only at h1 h2 h3
    subst h1
    left
    exact ⟨by simpa [Sink.fresh] using h3, rfl, by simpa [Sink.fresh] using h2⟩
  · generalize (userDev W).writeChunks (Sink.fresh s0) calls = res at h1 h2 h3
    obtain ⟨s, ok⟩ := res
    simp only at h1 h2 h3
    subst h1
    right
    refine ⟨h2, rfl, ?_⟩
    simp only [Sink.fresh, List.nil_append] at h3
    simp only [h3]
    exact h4

theorem feed_neverFails {σ α : Type} (W : Writer σ) (hW : NeverFails W) (s0 : σ) (calls : List Bytes)
    (io fin : α) :
    (feed W s0 calls io fin).2.failed = false ∧ (feed W s0 calls io fin).1 = fin ∧
      (feed W s0 calls io fin).2.accepted = calls.flatten := by
  have hok : ∀ (o : Sink σ) (x : Bytes),
      ((userDev W).writeAll o x).2 = true ∧ ((userDev W).writeAll o x).1.failed = o.failed :=
    fun o x => writeAllAux_neverFails W hW x.length o x (Nat.le_refl _)
  have hnf := writeChunks_nofail (userDev W) (fun a b => b.failed = a.failed) (fun _ => rfl)
    (fun _ _ _ h1 h2 => h2.trans h1) hok calls (Sink.fresh s0)
  rcases feed_spec W s0 calls io fin with h | ⟨h1, _, _⟩
  · exact h
  · exfalso
    unfold feed at h1
    generalize (userDev W).writeChunks (Sink.fresh s0) calls = res at h1 hnf
    obtain ⟨s, ok⟩ := res
    simp only at hnf
    obtain ⟨hn1, hn2⟩ := hnf
    subst hn1
    simp only at h1
    rw [hn2] at h1
    simp [Sink.fresh] at h1

end Tera.Vm
