/-
C01 on the value-level VM, part 2: the provenance predicate on contexts, loops, scopes and states
(`StateOk`), and its behaviour under name lookup, assignments and the loop operations.
-/
import TeraModel.Lemmas.VmEscapeClean
namespace Tera.Vm
open Tera

variable {P : Char → Prop}

def ctxOk (P : Char → Prop) (c : Ctx) : Prop := ∀ kv ∈ c, safeOk P kv.2

def itemOk (P : Char → Prop) (it : LoopItem) : Prop := (∀ k, it.1 = some k → safeOk P k) ∧ safeOk P it.2

structure loopClean (P : Char → Prop) (l : ForLoop) : Prop where
  remaining : ∀ it ∈ l.remaining, itemOk P it
  current : itemOk P l.current
  context : ctxOk P l.context

def scopeOk (P : Char → Prop) : Scope → Prop
  | .mk loops setVars none context globalCtx =>
    (∀ l ∈ loops, loopClean P l) ∧ ctxOk P setVars ∧ ctxOk P context ∧ (∀ g, globalCtx = some g → ctxOk P g)
  | .mk loops setVars (some p) context globalCtx =>
    (∀ l ∈ loops, loopClean P l) ∧ ctxOk P setVars ∧ ctxOk P context ∧
      (∀ g, globalCtx = some g → ctxOk P g) ∧ scopeOk P p

theorem scopeOk_mk (loops : List ForLoop) (setVars : Ctx) (parent : Option Scope) (context : Ctx)
    (globalCtx : Option Ctx) :
    scopeOk P (.mk loops setVars parent context globalCtx) ↔
      ((∀ l ∈ loops, loopClean P l) ∧ ctxOk P setVars ∧
      (match parent with
       | some p => scopeOk P p
       | none => True) ∧
      ctxOk P context ∧ (∀ g, globalCtx = some g → ctxOk P g)) := by
  cases parent with
  | none => rw [scopeOk]; simp
  | some p =>
    rw [scopeOk]; simp only
    constructor
    · rintro ⟨a, b, c, d, e⟩; exact ⟨a, b, e, c, d⟩
    · rintro ⟨a, b, e, c, d⟩; exact ⟨a, b, c, d, e⟩

theorem ctxOk_nil : ctxOk P [] := fun _ h => by cases h

theorem ctxOk_insert {c : Ctx} (n : String) {v : Value} (hc : ctxOk P c) (hv : safeOk P v) :
    ctxOk P (c.insert n v) := by
  intro kv h
  unfold Ctx.insert at h
  rcases List.mem_cons.1 h with rfl | h
  · exact hv
  · exact hc kv (List.mem_filter.1 h).1

theorem lookupCtx_mem {c : List (String × Value)} {n : String} {v : Value}
    (h : ForLoop.lookupCtx c n = some v) : ∃ k, (k, v) ∈ c := by
  induction c with
  | nil => simp [ForLoop.lookupCtx] at h
  | cons kv c ih =>
    obtain ⟨k, x⟩ := kv
    simp only [ForLoop.lookupCtx] at h
    split at h
    · simp only [Option.some.injEq] at h; subst h; exact ⟨k, by simp⟩
    · obtain ⟨k2, hk⟩ := ih h; exact ⟨k2, by simp [hk]⟩

theorem ctxOk_get {c : Ctx} {n : String} {v : Value} (hc : ctxOk P c) (h : c.get n = some v) :
    safeOk P v := by
  obtain ⟨k, hk⟩ := lookupCtx_mem h
  exact hc _ hk

/-! ### loops -/

theorem loopClean_get {l : ForLoop} {n : String} {v : Value} (hl : loopClean P l) (h : l.get n = some v) :
    safeOk P v := by
  unfold ForLoop.get at h
  repeat' split at h
  all_goals first
    | (cases h; done)
    | (simp only [Option.some.injEq] at h; subst h; simp; done)
    | skip
  · rename_i x hx
    simp only [Option.some.injEq] at h; subst h
    obtain ⟨k, hk⟩ := lookupCtx_mem hx
    exact hl.context _ hk
  · simp only [Option.some.injEq] at h; subst h; exact hl.current.2
  · simp only [Option.some.injEq] at h; subst h
    cases hk : l.current.1 with
    | none => simp
    | some k => exact hl.current.1 k hk

theorem loopsGet_ok {loops : List ForLoop} {n : String} {v : Value} (hl : ∀ l ∈ loops, loopClean P l)
    (h : Scope.loopsGet loops n = some v) : safeOk P v := by
  induction loops with
  | nil => simp [Scope.loopsGet] at h
  | cons l rest ih =>
    simp only [Scope.loopsGet] at h
    split at h
    · rename_i x hx
      simp only [Option.some.injEq] at h; subst h
      exact loopClean_get (hl l (by simp)) hx
    · exact ih (fun l' h' => hl l' (by simp [h'])) h

theorem loopClean_new {items : List LoopItem} (compr : Bool) (h : ∀ it ∈ items, itemOk P it) :
    loopClean P (ForLoop.new items compr) :=
  ⟨h, ⟨fun _ hk => (nomatch hk), safeOk_undef⟩, ctxOk_nil⟩

theorem loopClean_storeLocalName {l : ForLoop} (n : String) (h : loopClean P l) : loopClean P (l.storeLocalName n) := by
  unfold ForLoop.storeLocalName
  split <;> exact ⟨h.remaining, h.current, h.context⟩

theorem loopClean_store {l : ForLoop} (n : String) {v : Value} (h : loopClean P l) (hv : safeOk P v) :
    loopClean P (l.store n v) := by
  refine ⟨h.remaining, h.current, ?_⟩
  intro kv hkv
  simp only [ForLoop.store] at hkv
  rcases List.mem_cons.1 hkv with rfl | hk
  · exact hv
  · exact h.context kv (List.mem_filter.1 hk).1

theorem loopClean_advance {l : ForLoop} (h : loopClean P l) : loopClean P l.advance := by
  unfold ForLoop.advance
  split
  · exact h
  · rename_i item rest hr
    have hitem : itemOk P item := h.remaining item (by rw [hr]; simp)
    have hrest : ∀ it ∈ rest, itemOk P it := fun it hi => h.remaining it (by rw [hr]; simp [hi])
    simp only
    split
    · exact ⟨hrest, hitem, ctxOk_nil⟩
    · exact ⟨hrest, hitem, h.context⟩

theorem loopClean_iterate {l l' : ForLoop} {t : Nat} (h : loopClean P l) (hi : l.iterate t = some l') :
    loopClean P l' := by
  unfold ForLoop.iterate at hi
  split at hi
  · cases hi
  · simp only [Option.some.injEq] at hi; subst hi
    have := loopClean_advance h
    exact ⟨this.remaining, this.current, this.context⟩

/-! ### what a container yields -/

theorem insertByKey_mem {α : Type} (e : Key × α) (l : List (Key × α)) :
    ∀ x ∈ insertByKey e l, x = e ∨ x ∈ l := by
  induction l with
  | nil => intro x h; simp [insertByKey] at h; exact Or.inl h
  | cons y ys ih =>
    intro x h
    simp only [insertByKey] at h
    split at h
    · rcases List.mem_cons.1 h with rfl | h
      · exact Or.inr (by simp)
      · rcases ih x h with h | h
        · exact Or.inl h
        · exact Or.inr (by simp [h])
    · rcases List.mem_cons.1 h with rfl | h
      · exact Or.inl rfl
      · exact Or.inr h

theorem sortByKey_mem {α : Type} (l : List (Key × α)) : ∀ x ∈ sortByKey l, x ∈ l := by
  induction l with
  | nil => intro x h; simp [sortByKey] at h
  | cons y ys ih =>
    intro x h
    simp only [sortByKey] at h
    rcases insertByKey_mem y _ x h with rfl | h
    · simp
    · simp [ih x h]

theorem iterItems_ok {v : Value} {items : List LoopItem} (hv : safeOk P v) (h : iterItems v = some items) :
    ∀ it ∈ items, itemOk P it := by
  unfold iterItems at h
  split at h
  · rename_i xs
    simp only [Option.some.injEq] at h; subst h
    intro it hi
    obtain ⟨x, hx, rfl⟩ := List.mem_map.1 hi
    exact ⟨fun _ hk => (nomatch hk), (safeOk_arr xs).1 hv x hx⟩
  · rename_i es
    simp only [Option.some.injEq] at h; subst h
    intro it hi
    obtain ⟨kv, hkv, rfl⟩ := List.mem_map.1 hi
    refine ⟨fun k hk => ?_, ?_⟩
    · simp only [Option.some.injEq] at hk; subst hk; exact safeOk_keyToValue _
    · exact (safeOk_map es).1 hv kv (sortByKey_mem es kv hkv)
  · simp only [Option.some.injEq] at h; subst h
    intro it hi
    obtain ⟨x, _, rfl⟩ := List.mem_map.1 hi
    exact ⟨fun _ hk => (nomatch hk), by simp⟩
  · simp only [Option.some.injEq] at h; subst h
    intro it hi
    obtain ⟨x, _, rfl⟩ := List.mem_map.1 hi
    exact ⟨fun _ hk => (nomatch hk), by simp⟩
  · cases h

/-! ### scopes -/

theorem resolve_ok {loops : List ForLoop} {setVars context : Ctx} {globalCtx : Option Ctx}
    {fromParent : Value} (n : String) (hl : ∀ l ∈ loops, loopClean P l) (hs : ctxOk P setVars)
    (hpar : safeOk P fromParent) (hc : ctxOk P context) (hg : ∀ g, globalCtx = some g → ctxOk P g) :
    safeOk P (Scope.resolve loops setVars fromParent context globalCtx n) := by
  unfold Scope.resolve
  split
  · rename_i v hv; exact loopsGet_ok hl hv
  · split
    · rename_i v hv; exact ctxOk_get hs hv
    · split
      · exact hpar
      · split
        · rename_i v hv; exact ctxOk_get hc hv
        · split
          · rename_i g
            cases hgv : g.get n with
            | none => simp
            | some v => exact ctxOk_get (hg g rfl) hgv
          · simp

theorem scopeOk_getValue : ∀ (sc : Scope) (n : String), scopeOk P sc → safeOk P (sc.getValue n)
  | .mk loops setVars none context globalCtx, n, h => by
    rw [scopeOk_mk] at h
    obtain ⟨hl, hs, _, hc, hg⟩ := h
    unfold Scope.getValue
    exact resolve_ok n hl hs (by simp) hc hg
  | .mk loops setVars (some p) context globalCtx, n, h => by
    rw [scopeOk_mk] at h
    obtain ⟨hl, hs, hp, hc, hg⟩ := h
    unfold Scope.getValue
    exact resolve_ok n hl hs (scopeOk_getValue p n hp) hc hg

theorem ctxInto_ok {acc : Entries} {c : Ctx} (ha : safeOk P (.map acc)) (hc : ctxOk P c) :
    safeOk P (.map (ctxInto acc c)) := by
  unfold ctxInto
  have : ∀ (l : List (String × Value)) (a : Entries), (∀ kv ∈ l, safeOk P kv.2) → safeOk P (.map a) →
      safeOk P (.map (l.foldl (fun a kv => mapInsert a (.str kv.1.toList) kv.2) a)) := by
    intro l
    induction l with
    | nil => intro a _ h; exact h
    | cons kv l ih =>
      intro a hl h
      simp only [List.foldl_cons]
      exact ih _ (fun x hx => hl x (by simp [hx])) (safeOk_mapInsert _ h (hl kv (by simp)))
  exact this _ _ (fun kv h => hc kv (List.mem_reverse.1 h)) ha

theorem scopeOk_dumpContext : ∀ (sc : Scope), scopeOk P sc → safeOk P (dumpContext sc)
  | .mk loops setVars parent context globalCtx, h => by
    rw [scopeOk_mk] at h
    obtain ⟨hl, hs, _, hc, hg⟩ := h
    unfold dumpContext
    simp only [Scope.globalContext, Scope.context, Scope.setVariables, Scope.forLoops]
    have h0 : ∀ (gc : Option Ctx), (∀ g, gc = some g → ctxOk P g) → safeOk P (.map (match gc with
        | some g => ctxInto [] g
        | none => [])) := by
      intro gc hgc
      cases gc with
      | none => simp
      | some g => exact ctxInto_ok (by simp) (hgc g rfl)
    have h1 := ctxInto_ok (ctxInto_ok (h0 globalCtx hg) hc) hs
    have : ∀ (l : List ForLoop) (a : Entries), (∀ x ∈ l, loopClean P x) → safeOk P (.map a) →
        safeOk P (.map (l.foldl (fun a l => ctxInto a l.context) a)) := by
      intro l
      induction l with
      | nil => intro a _ h; exact h
      | cons x l ih =>
        intro a hl h
        simp only [List.foldl_cons]
        exact ih _ (fun y hy => hl y (by simp [hy])) (ctxInto_ok h (hl x (by simp)).context)
    exact this _ _ (fun x hx => hl x (List.mem_reverse.1 hx)) h1

theorem scopeOk_lookupName {sc : Scope} (n : String) (h : scopeOk P sc) : safeOk P (lookupName sc n) := by
  unfold lookupName
  split
  · exact scopeOk_dumpContext sc h
  · exact scopeOk_getValue sc n h

theorem scopeOk_storeGlobal : ∀ (sc : Scope) (n : String) (v : Value), scopeOk P sc → safeOk P v →
    scopeOk P (sc.storeGlobal n v)
  | .mk loops setVars parent context globalCtx, n, v, h, hv => by
    rw [scopeOk_mk] at h
    obtain ⟨hl, hs, hp, hc, hg⟩ := h
    simp only [Scope.storeGlobal]
    rw [scopeOk_mk]
    exact ⟨hl, ctxOk_insert n hs hv, hp, hc, hg⟩

theorem scopeOk_storeLocal : ∀ (sc : Scope) (n : String) (v : Value), scopeOk P sc → safeOk P v →
    scopeOk P (sc.storeLocal n v)
  | .mk [] setVars parent context globalCtx, n, v, h, hv => scopeOk_storeGlobal _ n v h hv
  | .mk (l :: rest) setVars parent context globalCtx, n, v, h, hv => by
    rw [scopeOk_mk] at h
    obtain ⟨hl, hs, hp, hc, hg⟩ := h
    simp only [Scope.storeLocal]
    rw [scopeOk_mk]
    refine ⟨?_, hs, hp, hc, hg⟩
    intro x hx
    rcases List.mem_cons.1 hx with rfl | hx
    · exact loopClean_store n (hl l (by simp)) hv
    · exact hl x (by simp [hx])

theorem scopeOk_pushLoop : ∀ (sc : Scope) (l : ForLoop), scopeOk P sc → loopClean P l → scopeOk P (sc.pushLoop l)
  | .mk loops setVars parent context globalCtx, l, h, hl' => by
    rw [scopeOk_mk] at h
    obtain ⟨hl, hs, hp, hc, hg⟩ := h
    simp only [Scope.pushLoop]
    rw [scopeOk_mk]
    refine ⟨?_, hs, hp, hc, hg⟩
    intro x hx
    rcases List.mem_cons.1 hx with rfl | hx
    · exact hl'
    · exact hl x hx

theorem scopeOk_popLoop : ∀ (sc : Scope), scopeOk P sc → scopeOk P sc.popLoop
  | .mk loops setVars parent context globalCtx, h => by
    rw [scopeOk_mk] at h
    obtain ⟨hl, hs, hp, hc, hg⟩ := h
    simp only [Scope.popLoop]
    rw [scopeOk_mk]
    exact ⟨fun x hx => hl x (List.mem_of_mem_tail hx), hs, hp, hc, hg⟩

theorem scopeOk_setTopLoop : ∀ (sc : Scope) (l : ForLoop), scopeOk P sc → loopClean P l →
    scopeOk P (sc.setTopLoop l)
  | .mk [] setVars parent context globalCtx, l, h, _ => h
  | .mk (l0 :: rest) setVars parent context globalCtx, l, h, hl' => by
    rw [scopeOk_mk] at h
    obtain ⟨hl, hs, hp, hc, hg⟩ := h
    simp only [Scope.setTopLoop]
    rw [scopeOk_mk]
    refine ⟨?_, hs, hp, hc, hg⟩
    intro x hx
    rcases List.mem_cons.1 hx with rfl | hx
    · exact hl'
    · exact hl x (by simp [hx])

theorem scopeOk_forLoops : ∀ (sc : Scope), scopeOk P sc → ∀ l ∈ sc.forLoops, loopClean P l
  | .mk _ _ _ _ _, h => ((scopeOk_mk ..).1 h).1

theorem scopeOk_included : ∀ (sc : Scope), scopeOk P sc → scopeOk P (Scope.included sc)
  | .mk loops setVars parent context globalCtx, h => by
    simp only [Scope.included, Scope.context]
    rw [scopeOk_mk]
    exact ⟨fun _ hx => (nomatch hx), ctxOk_nil, h, ((scopeOk_mk ..).1 h).2.2.2.1, fun _ hg => (nomatch hg)⟩

theorem scopeOk_root {ctx g : Ctx} (hc : ctxOk P ctx) (hg : ctxOk P g) : scopeOk P (Scope.root ctx g) := by
  unfold Scope.root
  rw [scopeOk_mk]
  exact ⟨fun _ hx => (nomatch hx), ctxOk_nil, trivial, hc, fun g' h => by cases h; exact hg⟩

end Tera.Vm
