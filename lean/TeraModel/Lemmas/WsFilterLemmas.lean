import TeraModel.Spec.WsSpec
namespace Tera.WsSpec
open Tera Utf8 WsFilter

theorem peekTrimsEnd_eq (rest : List Item) :
    peekTrimsEnd rest = ((rest.head?.map (·.1)).map trimsBefore).getD false := by
  cases rest with
  | nil => rfl
  | cons hd tl =>
    obtain ⟨t, sp⟩ := hd
    cases t with
    | variableStart w => cases w <;> rfl
    | tagStart w => cases w <;> rfl
    | comment a b => cases a <;> rfl
    | rawContent a s b => cases a <;> rfl
    | _ => rfl

theorem filterGo_eq_spec (ts : List Item) : ∀ (flag : Bool) (prev : Option Token),
    flag = (prev.map trimsAfter).getD false → filterGo flag ts = specFilter prev ts := by
  induction ts with
  | nil => intro flag prev _; simp [filterGo, specFilter]
  | cons hd tl ih =>
    intro flag prev hflag
    obtain ⟨tok, sp⟩ := hd
    cases tok <;>
      simp only [filterGo, specFilter, specItem, handleContent, trimBy, peekTrimsEnd_eq, ← hflag]
    all_goals first
      | (congr 1
         · cases flag <;> simp
         · apply ih; cases flag <;> simp [trimsAfter])
      | (rename_i w; cases w <;> simp <;> apply ih <;> simp [trimsAfter])
      | (congr 1; apply ih; simp [trimsAfter])


end Tera.WsSpec
