/-
C08 end to end, the flattening over chunks: for a node list as the parser builds it (`nodesSC`: a
component call with a body only as a whole `{% <name ..> %} … {% </name> %}` node, never inside an
expression — `TParser.parse_sc`), ALL the literal texts of the tree (`Node.allTextsList`,
Lemmas/TemplateParserTextsT.lean: the fully deep walk, through block bodies wherever the block
sits) are, as a multiset, the texts the compiler puts into the current chunk (`nodesTexts`) plus
the texts of the chunks of all the blocks it records (`blockDefs` of the compile events — every
`{% block %}` of the tree, nested ones included).  Order is kept inside each chunk
(`Pipeline.texts_nodes`); across chunks there is no order to keep (a block's chunk is a separate
unit, run when the block is rendered).
-/
import TeraModel.Lemmas.PipelineC08
import TeraModel.Lemmas.TemplateParserTextsT
import TeraModel.Lemmas.TemplateParserSC
import Mathlib.Algebra.Order.Group.Multiset
import Mathlib.Tactic.Abel
namespace Tera.Pipeline
open Tera Tera.Compiler Tera.TParser

/-- the literal texts of the chunks of the blocks recorded by a list of compile events -/
def blockEvTexts (evs : List Event) : List String :=
  (blockDefs evs).flatMap fun p => ctexts p.2

@[simp] theorem blockEvTexts_nil : blockEvTexts [] = [] := rfl
@[simp] theorem blockEvTexts_append (a b : List Event) :
    blockEvTexts (a ++ b) = blockEvTexts a ++ blockEvTexts b := by
  simp [blockEvTexts, blockDefs, List.filterMap_append]
theorem blockEvTexts_cons (e : Event) (b : List Event) :
    blockEvTexts (e :: b) = blockEvTexts [e] ++ blockEvTexts b := by
  rw [← List.singleton_append, blockEvTexts_append]
@[simp] theorem blockEvTexts_blockDef (n : String) (c : Code) (t : Bool) :
    blockEvTexts [.blockDef n c t] = ctexts c := by
  simp [blockEvTexts, blockDefs]
@[simp] theorem blockEvTexts_filterCall (n : String) : blockEvTexts [.filterCall n] = [] := rfl
@[simp] theorem blockEvTexts_testCall (n : String) : blockEvTexts [.testCall n] = [] := rfl
@[simp] theorem blockEvTexts_functionCall (n : String) : blockEvTexts [.functionCall n] = [] := rfl
@[simp] theorem blockEvTexts_includeCall (n : String) : blockEvTexts [.includeCall n] = [] := rfl
@[simp] theorem blockEvTexts_componentCall (n : String) : blockEvTexts [.componentCall n] = [] := rfl
@[simp] theorem blockEvTexts_panic (n : String) : blockEvTexts [.panic n] = [] := rfl
@[simp] theorem blockEvTexts_cons_filterCall (n : String) (r : List Event) :
    blockEvTexts (.filterCall n :: r) = blockEvTexts r := by rw [blockEvTexts_cons]; simp
@[simp] theorem blockEvTexts_cons_componentCall (n : String) (r : List Event) :
    blockEvTexts (.componentCall n :: r) = blockEvTexts r := by rw [blockEvTexts_cons]; simp

/-- an expression without a component-call body anywhere carries no text and records no block -/
def Quiet (texts : List String) (evs : List Event) : Prop := texts = [] ∧ blockEvTexts evs = []

theorem Quiet.nil : Quiet [] [] := ⟨rfl, rfl⟩
theorem Quiet.append {a b : List String} {x y : List Event} (h1 : Quiet a x) (h2 : Quiet b y) :
    Quiet (a ++ b) (x ++ y) := by
  obtain ⟨h1a, h1b⟩ := h1
  obtain ⟨h2a, h2b⟩ := h2
  exact ⟨by simp [h1a, h2a], by simp [h1b, h2b]⟩

set_option maxHeartbeats 1600000 in
theorem sc_quiet_aux :
    (∀ il d e, exprSC e = true → Quiet (exprTexts e) (exprEvents il d e)) ∧
    (∀ (_il : Bool) (_d : Nat) (_ns : List Node), True) ∧
    (∀ (_il : Bool) (_d : Nat) (_n : Node), True) ∧
    (∀ il d k, kwargsSC k = true → Quiet (kwargsTexts k) (kwargsEvents il d k)) ∧
    (∀ il d f, exprListSC f = true → Quiet (filtersTexts f) (filtersEvents il d f)) ∧
    (∀ il d o, optExprSC o = true → Quiet (optTexts o) (optExprEvents il d o)) ∧
    (∀ il d a, arrayItemsSC a = true → Quiet (arrayTexts a) (arrayItemsEvents il d a)) ∧
    (∀ il d m, mapItemsSC m = true → Quiet (mapTexts m) (mapItemsEvents il d m)) := by
  apply exprEvents.mutual_induct
    (motive_1 := fun il d e => exprSC e = true → Quiet (exprTexts e) (exprEvents il d e))
    (motive_2 := fun _ _ _ => True)
    (motive_3 := fun _ _ _ => True)
    (motive_4 := fun il d k => kwargsSC k = true → Quiet (kwargsTexts k) (kwargsEvents il d k))
    (motive_5 := fun il d f => exprListSC f = true → Quiet (filtersTexts f) (filtersEvents il d f))
    (motive_6 := fun il d o => optExprSC o = true → Quiet (optTexts o) (optExprEvents il d o))
    (motive_7 := fun il d a => arrayItemsSC a = true → Quiet (arrayTexts a) (arrayItemsEvents il d a))
    (motive_8 := fun il d m => mapItemsSC m = true → Quiet (mapTexts m) (mapItemsEvents il d m))
  all_goals intros
  all_goals (try trivial)
  all_goals simp only [exprEvents, kwargsEvents, filtersEvents, optExprEvents, arrayItemsEvents,
    mapItemsEvents, exprTexts, kwargsTexts, filtersTexts, optTexts, arrayTexts, mapTexts,
    exprSC, kwargsSC, exprListSC, optExprSC, arrayItemsSC, mapItemsSC, Bool.and_eq_true] at *
  all_goals simp_all [Quiet]

/-- texts as a multiset -/
abbrev ms (l : List String) : Multiset String := (l : Multiset String)

theorem ms_append (a b : List String) : ms (a ++ b) = ms a + ms b := (Multiset.coe_add a b).symm
theorem ms_nil : ms [] = 0 := rfl

/-- the statement for a node list: all texts = own texts + texts of the recorded block chunks -/
def DeepOK (il : Bool) (d : Nat) (ns : List Node) : Prop :=
  ms (Node.allTextsList ns) = ms (nodesTexts ns) + ms (blockEvTexts (nodesEvents il d ns))

set_option maxHeartbeats 1600000 in
theorem deep_texts_aux :
    (∀ il d e, ∀ n kw body, e = Expr.componentCall n kw body false → nodesSC body = true → DeepOK il d body) ∧
    (∀ il d ns, nodesSC ns = true → DeepOK il d ns) ∧
    (∀ il d n, nodeSC n = true →
      ms (Node.allTexts n) = ms (nodeTexts n) + ms (blockEvTexts (nodeEvents il d n))) ∧
    (∀ (_il : Bool) (_d : Nat) (_k : List (String × Expr)), True) ∧
    (∀ (_il : Bool) (_d : Nat) (_f : List Expr), True) ∧
    (∀ (_il : Bool) (_d : Nat) (_o : Option Expr), True) ∧
    (∀ (_il : Bool) (_d : Nat) (_a : List ArrayEntry), True) ∧
    (∀ (_il : Bool) (_d : Nat) (_m : List MapEntry), True) := by
  apply exprEvents.mutual_induct
    (motive_1 := fun il d e => ∀ n kw body, e = Expr.componentCall n kw body false →
      nodesSC body = true → DeepOK il d body)
    (motive_2 := fun il d ns => nodesSC ns = true → DeepOK il d ns)
    (motive_3 := fun il d n => nodeSC n = true →
      ms (Node.allTexts n) = ms (nodeTexts n) + ms (blockEvTexts (nodeEvents il d n)))
    (motive_4 := fun _ _ _ => True)
    (motive_5 := fun _ _ _ => True)
    (motive_6 := fun _ _ _ => True)
    (motive_7 := fun _ _ _ => True)
    (motive_8 := fun _ _ _ => True)
  all_goals intros
  all_goals (try trivial)
  case case12 =>
    rename_i ih2 _ _ _ _ heq hb
    cases heq
    exact ih2 hb
  case case19 =>
    -- an expression node: a component call with a body, or an expression without any body inside
    rename_i il d e ih1 hsc
    by_cases ho : ∃ n kw body, e = Expr.componentCall n kw body false
    · obtain ⟨n, kw, body, rfl⟩ := ho
      simp only [nodeSC, Bool.and_eq_true] at hsc
      have hq := sc_quiet_aux.2.2.2.2.2.2.2 il d kw hsc.1
      have hb := ih1 n kw body rfl hsc.2
      unfold DeepOK at hb
      simp only [Node.allTexts, nodeTexts, nodeEvents, exprTexts, exprEvents, Bool.false_eq_true,
        if_false, blockEvTexts_append, ms_append, hq.1, hq.2, ms_nil, add_zero, hb,
        List.singleton_append, blockEvTexts_cons_componentCall]
    · have hsc' : exprSC e = true := by
        cases e with
        | componentCall n kw body sc =>
          cases sc with
          | false => exact absurd ⟨n, kw, body, rfl⟩ ho
          | true => simpa [nodeSC] using hsc
        | _ => simpa [nodeSC] using hsc
      have hq := sc_quiet_aux.1 il d e hsc'
      have hop : e.openBody = [] := by
        cases e with
        | componentCall n kw body sc =>
          cases sc with
          | false => exact absurd ⟨n, kw, body, rfl⟩ ho
          | true => rfl
        | _ => rfl
      rw [Node.allTexts_expression e hop]
      simp only [nodeTexts, nodeEvents, hq.1, hq.2, ms_nil, add_zero]
  case case20 =>
    rename_i il d _ v _ _ hsc
    simp only [nodeSC] at hsc
    have hq := sc_quiet_aux.1 il d v hsc
    simp only [Node.allTexts, nodeTexts, nodeEvents, hq.1, hq.2, ms_nil, add_zero]
  case case21 =>
    rename_i il d _ fs body _ ih2 _ hsc
    simp only [nodeSC, Bool.and_eq_true] at hsc
    have hq := sc_quiet_aux.2.2.2.2.1 il d fs hsc.1
    have hb := ih2 hsc.2
    unfold DeepOK at hb
    simp only [Node.allTexts, nodeTexts, nodeEvents, blockEvTexts_append, ms_append, hq.1, hq.2,
      ms_nil, add_zero, hb]
  case case23 =>
    rename_i il d _ body ih1 hsc
    simp only [nodeSC] at hsc
    have hb := ih1 hsc
    unfold DeepOK at hb
    simp only [Node.allTexts, nodeTexts, nodeEvents, blockEvTexts_append, ms_append,
      blockEvTexts_blockDef, texts_nodes, ms_nil, zero_add, hb]
    abel
  case case24 =>
    rename_i il d _ _ tg body els _ ih2 ih1 hsc
    simp only [nodeSC, Bool.and_eq_true] at hsc
    have hq := sc_quiet_aux.1 il d tg hsc.1.1
    have hb := ih2 hsc.1.2
    have he := ih1 hsc.2
    unfold DeepOK at hb he
    simp only [Node.allTexts, nodeTexts, nodeEvents, blockEvTexts_append, ms_append, hq.1, hq.2,
      List.nil_append, hb, he]
    abel
  case case27 =>
    rename_i il d hnl _
    simp [Node.allTexts, nodeTexts, nodeEvents, hnl]
  case case28 =>
    rename_i il d c body els _ ih2 ih1 hsc
    simp only [nodeSC, Bool.and_eq_true] at hsc
    have hq := sc_quiet_aux.1 il d c hsc.1.1
    have hb := ih2 hsc.1.2
    have he := ih1 hsc.2
    unfold DeepOK at hb he
    simp only [Node.allTexts, nodeTexts, nodeEvents, blockEvTexts_append, ms_append, hq.1, hq.2,
      List.nil_append, hb, he]
    abel
  case case29 =>
    rename_i il d _ kw body ih2 _ hsc
    simp only [nodeSC, Bool.and_eq_true] at hsc
    have hq := sc_quiet_aux.2.2.2.1 il d kw hsc.1
    have hb := ih2 hsc.2
    unfold DeepOK at hb
    simp only [Node.allTexts, nodeTexts, nodeEvents, blockEvTexts_append, ms_append, hq.1, hq.2,
      ms_nil, add_zero, hb, blockEvTexts_filterCall]
  case case41 =>
    rename_i il d n rest ih2 ih1 hsc
    simp only [nodesSC, Bool.and_eq_true] at hsc
    have hn := ih2 hsc.1
    have hr := ih1 hsc.2
    unfold DeepOK at hr ⊢
    simp only [Node.allTextsList, nodesTexts, nodesEvents, blockEvTexts_append, ms_append, hn, hr]
    abel

/-- **all the texts of a parsed node list = the texts of its own chunk + the texts of the chunks
of all its blocks**, as multisets (`List.Perm`) -/
theorem deep_texts (il : Bool) (d : Nat) (ns : List Node) (h : nodesSC ns = true) :
    (Node.allTextsList ns).Perm (nodesTexts ns ++ blockEvTexts (nodesEvents il d ns)) := by
  have := deep_texts_aux.2.1 il d ns h
  unfold DeepOK at this
  rw [← ms_append] at this
  exact Multiset.coe_eq_coe.mp this

end Tera.Pipeline
