/-
Helper lemmas for C09Vm: the optimisation pass on the FULL value-level VM (Model/Vm.lean).

The run of the optimised chunk is the run of the original chunk under a RENAMING of instruction
indices: the VM keeps instruction indices in `ip`, in `ForLoop.end_ip` and in the span range of
every value-stack slot (`SpanRange` = indices of the instructions whose spans an error would
show).  `mapState f` applies `f` (= `index_map`) to the two endpoints of every slot's range and to
the `end_ip` of every loop of the running scope; everything else is equal.
-/
import TeraModel.Model.Vm
import TeraModel.Lemmas.OptimizeVWF
namespace Tera
namespace OptimizeSimVm
open Tera.Vm

/-! ## Renaming instruction indices in a state -/

def mapSpan (f : Nat → Nat) (r : SpanRange) : SpanRange := (f r.1, f r.2)

def mapSlot (f : Nat → Nat) (s : Slot) : Slot := (s.1, mapSpan f s.2)

def mapLoop (f : Nat → Nat) (l : ForLoop) : ForLoop := { l with endIp := f l.endIp }

def mapScope (f : Nat → Nat) : Scope → Scope
  | .mk loops sv p ctx g => .mk (loops.map (mapLoop f)) sv p ctx g

def mapState (f : Nat → Nat) (st : State) : State :=
  { st with stack := st.stack.map (mapSlot f), scope := mapScope f st.scope }

/-- a map on the scopes of the include parent chain that keeps every value (`end_ip`s there are
never read) -/
structure PMap where
  fn : Scope → Scope
  val : ∀ sc n, (fn sc).getValue n = sc.getValue n

def idP : PMap := ⟨id, fun _ _ => rfl⟩

/-- `mapScope` with the include parent (only read for values) mapped by `π` -/
def mapScopeP (f : Nat → Nat) (π : PMap) : Scope → Scope
  | .mk loops sv p ctx g => .mk (loops.map (mapLoop f)) sv (p.map π.fn) ctx g

def mapStateP (f : Nat → Nat) (π : PMap) (st : State) : State :=
  { st with stack := st.stack.map (mapSlot f), scope := mapScopeP f π st.scope }

theorem mapScopeP_id (f : Nat → Nat) (sc : Scope) : mapScopeP f idP sc = mapScope f sc := by
  cases sc with
  | mk loops sv p ctx g => cases p <;> rfl

theorem mapStateP_id (f : Nat → Nat) (st : State) : mapStateP f idP st = mapState f st := by
  simp only [mapStateP, mapState, mapScopeP_id]

section scope
variable (f : Nat → Nat) (π : PMap)

@[simp] theorem mapLoop_get (l : ForLoop) (n : String) : (mapLoop f l).get n = l.get n := rfl
@[simp] theorem mapLoop_context (l : ForLoop) : (mapLoop f l).context = l.context := rfl
@[simp] theorem mapLoop_iterated (l : ForLoop) : (mapLoop f l).iterated = l.iterated := rfl
@[simp] theorem mapLoop_endIp (l : ForLoop) : (mapLoop f l).endIp = f l.endIp := rfl
@[simp] theorem mapLoop_isOver (l : ForLoop) : (mapLoop f l).isOver = l.isOver := rfl
@[simp] theorem mapLoop_store (l : ForLoop) (n : String) (v : Value) :
    (mapLoop f l).store n v = mapLoop f (l.store n v) := rfl
@[simp] theorem mapLoop_storeLocalName (l : ForLoop) (n : String) :
    (mapLoop f l).storeLocalName n = mapLoop f (l.storeLocalName n) := by
  unfold ForLoop.storeLocalName mapLoop
  split <;> rfl

theorem loopsGet_map (loops : List ForLoop) (n : String) :
    Scope.loopsGet (loops.map (mapLoop f)) n = Scope.loopsGet loops n := by
  induction loops with
  | nil => rfl
  | cons l rest ih => simp [Scope.loopsGet, ih]

@[simp] theorem mapScope_forLoops (sc : Scope) : (mapScopeP f π sc).forLoops = sc.forLoops.map (mapLoop f) := by
  cases sc; rfl
@[simp] theorem mapScope_setVariables (sc : Scope) : (mapScopeP f π sc).setVariables = sc.setVariables := by
  cases sc; rfl
@[simp] theorem mapScope_context (sc : Scope) : (mapScopeP f π sc).context = sc.context := by
  cases sc; rfl
@[simp] theorem mapScope_globalContext (sc : Scope) : (mapScopeP f π sc).globalContext = sc.globalContext := by
  cases sc; rfl

@[simp] theorem mapScope_getValue (sc : Scope) (n : String) : (mapScopeP f π sc).getValue n = sc.getValue n := by
  cases sc with
  | mk loops sv p ctx g =>
    simp only [mapScopeP]
    rw [Scope.getValue.eq_def, Scope.getValue.eq_def]
    cases p with
    | none => simp only [Option.map_none, Scope.resolve, loopsGet_map]
    | some q => simp only [Option.map_some, π.val, Scope.resolve, loopsGet_map]

theorem foldl_ctx_map (loops : List ForLoop) (acc : Entries) :
    (loops.map (mapLoop f)).foldl (fun a l => ctxInto a l.context) acc
      = loops.foldl (fun a l => ctxInto a l.context) acc := by
  induction loops generalizing acc with
  | nil => rfl
  | cons l rest ih => simp [ih]

@[simp] theorem mapScope_dumpContext (sc : Scope) : dumpContext (mapScopeP f π sc) = dumpContext sc := by
  simp only [dumpContext, mapScope_globalContext, mapScope_context, mapScope_setVariables,
    mapScope_forLoops, ← List.map_reverse, foldl_ctx_map]

@[simp] theorem mapScope_lookupName (sc : Scope) (n : String) : lookupName (mapScopeP f π sc) n = lookupName sc n := by
  simp [lookupName]

@[simp] theorem mapScope_storeGlobal (sc : Scope) (n : String) (v : Value) :
    (mapScopeP f π sc).storeGlobal n v = mapScopeP f π (sc.storeGlobal n v) := by
  cases sc; rfl

@[simp] theorem mapScope_storeLocal (sc : Scope) (n : String) (v : Value) :
    (mapScopeP f π sc).storeLocal n v = mapScopeP f π (sc.storeLocal n v) := by
  cases sc with
  | mk loops sv p ctx g =>
    cases loops with
    | nil => rfl
    | cons l rest => rfl

@[simp] theorem mapScope_popLoop (sc : Scope) : (mapScopeP f π sc).popLoop = mapScopeP f π sc.popLoop := by
  cases sc with
  | mk loops sv p ctx g => simp [mapScopeP, Scope.popLoop, List.map_tail]

theorem mapScope_pushLoop (sc : Scope) (l : ForLoop) :
    (mapScopeP f π sc).pushLoop (mapLoop f l) = mapScopeP f π (sc.pushLoop l) := by
  cases sc; rfl

theorem mapScope_setTopLoop (sc : Scope) (l : ForLoop) :
    (mapScopeP f π sc).setTopLoop (mapLoop f l) = mapScopeP f π (sc.setTopLoop l) := by
  cases sc with
  | mk loops sv p ctx g =>
    cases loops with
    | nil => rfl
    | cons l0 rest => rfl

end scope

/-! ## State operations -/

section state
variable (f : Nat → Nat) (π : PMap)

@[simp] theorem mapState_stack (st : State) : (mapStateP f π st).stack = st.stack.map (mapSlot f) := rfl
@[simp] theorem mapState_scope (st : State) : (mapStateP f π st).scope = mapScopeP f π st.scope := rfl
@[simp] theorem mapState_captures (st : State) : (mapStateP f π st).captures = st.captures := rfl
@[simp] theorem mapState_out (st : State) : (mapStateP f π st).out = st.out := rfl
@[simp] theorem mapState_blocks (st : State) : (mapStateP f π st).blocks = st.blocks := rfl
@[simp] theorem mapState_currentBlockName (st : State) : (mapStateP f π st).currentBlockName = st.currentBlockName := rfl
@[simp] theorem mapState_captureBlock (st : State) : (mapStateP f π st).captureBlock = st.captureBlock := rfl
@[simp] theorem mapState_blockBuffer (st : State) : (mapStateP f π st).blockBuffer = st.blockBuffer := rfl

theorem mapState_write (st : State) (t : List Char) : (mapStateP f π st).write t = mapStateP f π (st.write t) := by
  unfold State.write
  simp only [mapState_captures]
  cases st.captures <;> rfl

theorem mapState_emit (env : Env) (vm : VmCtx) (v : Value) (st : State) :
    emitValue env vm v (mapStateP f π st) = mapStateP f π (emitValue env vm v st) := by
  simp [emitValue, mapState_write]

end state

/-! ## Two chunks related by a renaming -/

/-- index `i` of the old chunk is an instruction (only needed where `f` is monotone on the
instructions only: when `f` is monotone everywhere, as the identity is, any index will do), and the
new chunk has a span at `f i` exactly when the old one has one at `i` -/
def Good (c c' : Chunk) (f : Nat → Nat) (i : Nat) : Prop :=
  (i < c.code.length ∨ ∀ a b, a ≤ b → f a ≤ f b) ∧ c'.hasSpan (f i) = c.hasSpan i

def GoodSlot (c c' : Chunk) (f : Nat → Nat) (s : Slot) : Prop := Good c c' f s.2.1 ∧ Good c c' f s.2.2

def GoodStack (c c' : Chunk) (f : Nat → Nat) (stk : List Slot) : Prop := ∀ s ∈ stk, GoodSlot c c' f s

/-- what the per-instruction lemmas need of the pair of chunks -/
structure Ren (c c' : Chunk) (f : Nat → Nat) : Prop where
  name : c'.name = c.name
  mono : ∀ i j, i ≤ j → j < c.code.length → f i ≤ f j

section ren
variable {c c' : Chunk} {f : Nat → Nat}

theorem expandSpan_map (r : SpanRange) (h : GoodSlot c c' f (v, r)) :
    c'.expandSpan (mapSpan f r) = c.expandSpan r := by
  obtain ⟨⟨_, h1⟩, ⟨_, h2⟩⟩ := h
  simp only [Chunk.expandSpan, mapSpan] at h1 h2 ⊢
  rw [h1, h2]
  by_cases he : r.1 = r.2
  · simp [he]
  · have e1 : (r.1 == r.2) = false := beq_false_of_ne he
    by_cases hf : f r.1 = f r.2
    · rw [hf] at h1
      have : c.hasSpan r.1 = c.hasSpan r.2 := by rw [← h1, h2]
      rw [e1, hf, this]
      cases c.hasSpan r.2 <;> simp
    · have e2 : (f r.1 == f r.2) = false := beq_false_of_ne hf
      rw [e1, e2]

theorem reportTargetOk_ren (hR : Ren c c' f) (env : Env) (vm : VmCtx) :
    reportTargetOk env vm c' = reportTargetOk env vm c := by
  simp [reportTargetOk, hR.name]

theorem raise_ren (hR : Ren c c' f) (env : Env) (vm : VmCtx) (e : RErr) :
    raise env vm c' e = raise env vm c e := by
  simp [raise, reportTargetOk_ren hR]

theorem renderingError_map (hR : Ren c c' f) (env : Env) (vm : VmCtx) (v : Value) (r : SpanRange) (e : RErr)
    (h : GoodSlot c c' f (v, r)) :
    renderingError env vm c' (mapSpan f r) e = renderingError env vm c r e := by
  simp [renderingError, expandSpan_map r h, raise_ren hR]

theorem good_min {i j : Nat} (hi : Good c c' f i) (hj : Good c c' f j) : Good c c' f (min i j) := by
  by_cases h : i ≤ j
  · rw [Nat.min_eq_left h]; exact hi
  · rw [Nat.min_eq_right (by omega)]; exact hj

theorem good_max {i j : Nat} (hi : Good c c' f i) (hj : Good c c' f j) : Good c c' f (max i j) := by
  by_cases h : i ≤ j
  · rw [Nat.max_eq_right h]; exact hj
  · rw [Nat.max_eq_left (by omega)]; exact hi

theorem Ren.le (hR : Ren c c' f) {i j : Nat} (h : i ≤ j) (hj : Good c c' f j) : f i ≤ f j :=
  hj.1.elim (hR.mono i j h) (fun m => m i j h)

theorem map_min (hR : Ren c c' f) {i j : Nat} (hi : Good c c' f i) (hj : Good c c' f j) :
    min (f i) (f j) = f (min i j) := by
  by_cases h : i ≤ j
  · rw [Nat.min_eq_left h, Nat.min_eq_left (hR.le h hj)]
  · have h' : j ≤ i := by omega
    rw [Nat.min_eq_right h', Nat.min_eq_right (hR.le h' hi)]

theorem map_max (hR : Ren c c' f) {i j : Nat} (hi : Good c c' f i) (hj : Good c c' f j) :
    max (f i) (f j) = f (max i j) := by
  by_cases h : i ≤ j
  · rw [Nat.max_eq_right h, Nat.max_eq_right (hR.le h hj)]
  · have h' : j ≤ i := by omega
    rw [Nat.max_eq_left h', Nat.max_eq_left (hR.le h' hi)]

theorem combine_map (hR : Ren c c' f) (va vb : Value) (a b : SpanRange)
    (ha : GoodSlot c c' f (va, a)) (hb : GoodSlot c c' f (vb, b)) :
    combineSpans (mapSpan f a) (mapSpan f b) = mapSpan f (combineSpans a b) := by
  simp only [combineSpans, mapSpan, map_min hR ha.1 hb.1, map_max hR ha.2 hb.2]

theorem combine_good (va vb v : Value) (a b : SpanRange)
    (ha : GoodSlot c c' f (va, a)) (hb : GoodSlot c c' f (vb, b)) :
    GoodSlot c c' f (v, combineSpans a b) :=
  ⟨good_min ha.1 hb.1, good_max ha.2 hb.2⟩

end ren

end OptimizeSimVm
end Tera
