/-
Helper lemmas for C01: the SafeFlow machine preserves every invariant of the shape
"all selected strings / all written bytes satisfy P, all scalars satisfy Q" (`St.all`), under
one of two regimes:
  * regime A — P need not hold of `raw` bytes, but only Safe strings are selected, autoescape is
    on in every VM and the program never mints a safe string from arbitrary data (`Prog.clean`);
  * regime B — P holds of every `raw` byte and every string is selected.
-/
import TeraModel.Spec.Escaping
namespace Tera.SafeFlow
open Tera.Escape

variable {sel : Bool → Bool} {P : TB → Bool} {Q : List Nat → Bool}

/-! ### values -/

theorem allList_iff (xs : List TVal) :
    allList sel P Q xs = true ↔ ∀ x ∈ xs, TVal.all sel P Q x = true := by
  induction xs with
  | nil => simp [allList]
  | cons x xs ih => simp [allList, ih]

theorem allEntries_iff (es : List (List Nat × TVal)) :
    allEntries sel P Q es = true ↔ ∀ e ∈ es, TVal.all sel P Q e.2 = true := by
  induction es with
  | nil => simp [allEntries]
  | cons e es ih =>
    obtain ⟨k, v⟩ := e
    simp [allEntries, ih]

theorem all_arr (xs : List TVal) :
    TVal.all sel P Q (.arr xs) = true ↔ ∀ x ∈ xs, TVal.all sel P Q x = true := by
  rw [TVal.all]; exact allList_iff xs

theorem all_map (es : List (List Nat × TVal)) :
    TVal.all sel P Q (.map es) = true ↔ ∀ e ∈ es, TVal.all sel P Q e.2 = true := by
  rw [TVal.all]; exact allEntries_iff es

theorem all_undef : TVal.all sel P Q .undef = true := by simp [TVal.all]
theorem all_none : TVal.all sel P Q .none = true := by simp [TVal.all]

/-! ### lists -/

theorem pyIndex_mem {α : Type} (xs : List α) (i : Int) (x : α) (h : pyIndex xs i = some x) :
    x ∈ xs := by
  unfold pyIndex at h
  generalize (if i < 0 then i + (xs.length : Int) else i) = n at h
  simp only at h
  split at h
  · exact List.mem_of_getElem? h
  · cases h

theorem sliceLoop_mem {α : Type} (xs : List α) (step e : Int) (fuel : Nat) (i : Int) :
    ∀ x ∈ sliceLoop xs step e fuel i, x ∈ xs := by
  induction fuel generalizing i with
  | zero => simp [sliceLoop]
  | succ n ih =>
    intro x hx
    unfold sliceLoop at hx
    split at hx
    · split at hx
      · rename_i y hy
        simp only [List.mem_cons] at hx
        cases hx with
        | inl h => subst h; exact List.mem_of_getElem? hy
        | inr h => exact ih _ x h
      · exact ih _ x hx
    · simp at hx

theorem sliceItems_mem {α : Type} (xs : List α) (a b : Option Int) (st : Int) :
    ∀ x ∈ sliceItems xs a b st, x ∈ xs := by
  unfold sliceItems
  exact sliceLoop_mem xs _ _ _ _

theorem lookup_mem (n : String) (l : List (String × TVal)) (v : TVal) (h : lookup n l = some v) :
    ∃ e ∈ l, e.2 = v := by
  induction l with
  | nil => simp [lookup] at h
  | cons e l ih =>
    obtain ⟨k, w⟩ := e
    unfold lookup at h
    split at h
    · simp only [Option.some.injEq] at h
      exact ⟨(k, w), by simp, h⟩
    · obtain ⟨e', he', hv⟩ := ih h
      exact ⟨e', by simp [he'], hv⟩

theorem lookupKey_mem (k : List Nat) (l : List (List Nat × TVal)) (v : TVal)
    (h : lookupKey k l = some v) : ∃ e ∈ l, e.2 = v := by
  induction l with
  | nil => simp [lookupKey] at h
  | cons e l ih =>
    obtain ⟨k', w⟩ := e
    unfold lookupKey at h
    split at h
    · simp only [Option.some.injEq] at h
      exact ⟨(k', w), by simp, h⟩
    · obtain ⟨e', he', hv⟩ := ih h
      exact ⟨e', by simp [he'], hv⟩

theorem popN_mem (n : Nat) (s : List TVal) (vs r : List TVal) (h : popN n s = some (vs, r)) :
    (∀ x ∈ vs, x ∈ s) ∧ (∀ x ∈ r, x ∈ s) := by
  induction n generalizing s vs r with
  | zero =>
    simp only [popN, Option.some.injEq, Prod.mk.injEq] at h
    obtain ⟨h1, h2⟩ := h
    subst h1; subst h2
    simp
  | succ n ih =>
    cases s with
    | nil => simp [popN] at h
    | cons v s =>
      simp only [popN, Option.map_eq_some_iff] at h
      obtain ⟨⟨vs', r'⟩, hp, heq⟩ := h
      simp only [Prod.mk.injEq] at heq
      obtain ⟨h1, h2⟩ := heq
      subst h1; subst h2
      obtain ⟨i1, i2⟩ := ih s vs' r' hp
      constructor
      · intro x hx
        simp only [List.mem_append, List.mem_singleton] at hx
        cases hx with
        | inl h => exact List.mem_cons_of_mem _ (i1 x h)
        | inr h => subst h; simp
      · intro x hx
        exact List.mem_cons_of_mem _ (i2 x hx)

/-- Characters only regroup the bytes of the string. -/
theorem splitChars_flatten (bs : TStr) : (splitChars bs).flatten = bs := by
  induction bs with
  | nil => simp [splitChars]
  | cons tb rest ih =>
    unfold splitChars
    split
    · rename_i b1 t1 r1 g gs hr hs
      split
      · rw [hs] at ih
        simp only [List.flatten_cons] at ih ⊢
        simp only [List.cons_append, ih]
      · rw [hs] at ih
        simp only [List.flatten_cons, List.singleton_append] at ih ⊢
        rw [ih]
    · simp only [List.flatten_cons, List.singleton_append, ih]

theorem splitChars_mem (bs : TStr) (c : TStr) (hc : c ∈ splitChars bs) : ∀ tb ∈ c, tb ∈ bs := by
  intro tb htb
  have : tb ∈ (splitChars bs).flatten := List.mem_flatten.2 ⟨c, hc, htb⟩
  rwa [splitChars_flatten] at this

theorem all_tagAll (t : Tag) (bs : List Nat) (h : ∀ b ∈ bs, P (b, t) = true) :
    (tagAll t bs).all P = true := by
  simp only [tagAll, List.all_eq_true, List.mem_map]
  rintro tb ⟨b, hb, rfl⟩
  exact h b hb


/-! ### states -/

theorem St.all_iff (st : St) :
    St.all sel P Q st = true ↔
      (∀ v ∈ st.stack, TVal.all sel P Q v = true) ∧ (∀ e ∈ st.vars, TVal.all sel P Q e.2 = true) ∧
      (∀ e ∈ st.parent, TVal.all sel P Q e.2 = true) ∧ (∀ c ∈ st.caps, ∀ tb ∈ c, P tb = true) ∧
      (∀ tb ∈ st.out, P tb = true) := by
  simp only [St.all, Bool.and_eq_true, List.all_eq_true]
  constructor
  · rintro ⟨⟨⟨⟨a, b⟩, c⟩, d⟩, e⟩; exact ⟨a, b, c, d, e⟩
  · rintro ⟨a, b, c, d, e⟩; exact ⟨⟨⟨⟨a, b⟩, c⟩, d⟩, e⟩

/-- What the machine is parametrised by, and what it needs of `P`, `Q`. -/
structure Hyp (env : Env) (sel : Bool → Bool) (P : TB → Bool) (Q : List Nat → Bool) : Prop where
  selTrue : sel true = true
  lit : ∀ b, P (b, Tag.lit) = true
  esc : ∀ xs, ∀ b ∈ env.escape xs, P (b, Tag.esc) = true
  scalar : ∀ f, Q f = true → ∀ b ∈ f, P (b, Tag.scalar) = true

/-- regime B: raw bytes are fine, every string is looked at -/
def RegimeB (sel : Bool → Bool) (P : TB → Bool) : Prop := (∀ b, P (b, Tag.raw) = true) ∧ sel false = true

theorem all_rawStr (hr : RegimeB sel P ∨ sel false = false) (bs : List Nat) :
    TVal.all sel P Q (.str false (tagAll .raw bs)) = true := by
  simp only [TVal.all, Bool.or_eq_true, Bool.not_eq_true']
  cases hr with
  | inl h => exact Or.inr (all_tagAll _ _ (fun b _ => h.1 b))
  | inr h => exact Or.inl h

theorem fmtT_all {env : Env} (hy : Hyp env sel P Q) (hb : RegimeB sel P) (v : TVal)
    (hv : TVal.all sel P Q v = true) : ∀ tb ∈ fmtT v, P tb = true := by
  have raw : ∀ bs : List Nat, ∀ tb ∈ tagAll .raw bs, P tb = true := by
    intro bs tb htb
    simp only [tagAll, List.mem_map] at htb
    obtain ⟨b, _, rfl⟩ := htb
    exact hb.1 b
  cases v with
  | str s bs =>
    simp only [fmtT]
    simp only [TVal.all, Bool.or_eq_true, Bool.not_eq_true', List.all_eq_true] at hv
    have hs : sel s = true := by cases s; exact hb.2; exact hy.selTrue
    cases hv with
    | inl h => rw [hs] at h; cases h
    | inr h => exact h
  | scalar f =>
    simp only [fmtT, tagAll, List.mem_map]
    rintro tb ⟨b, hb', rfl⟩
    exact hy.scalar f (by simpa [TVal.all] using hv) b hb'
  | undef => exact raw _
  | none => exact raw _
  | bytes f => exact raw _
  | arr xs => exact raw _
  | map es => exact raw _

theorem sink_all {env : Env} (hy : Hyp env sel P Q) (ae : Bool) (hr : RegimeB sel P ∨ ae = true)
    (v : TVal) (hv : TVal.all sel P Q v = true) : ∀ tb ∈ sinkBytes env ae v, P tb = true := by
  unfold sinkBytes
  split
  · rename_i hc
    cases hr with
    | inl hb => exact fmtT_all hy hb v hv
    | inr hae =>
      subst hae
      simp only [Bool.not_true, Bool.false_or] at hc
      cases v with
      | str s bs =>
        simp only [isSafe] at hc
        subst hc
        simp only [fmtT]
        simp only [TVal.all, hy.selTrue, Bool.not_true, Bool.false_or, List.all_eq_true] at hv
        exact hv
      | scalar f =>
        simp only [fmtT, tagAll, List.mem_map]
        rintro tb ⟨b, hb', rfl⟩
        exact hy.scalar f (by simpa [TVal.all] using hv) b hb'
      | undef => simp [fmtT, fmt, tagAll]
      | none => simp [fmtT, fmt, tagAll]
      | bytes f => simp [isSafe] at hc
      | arr xs => simp [isSafe] at hc
      | map es => simp [isSafe] at hc
  · intro tb htb
    simp only [tagAll, List.mem_map] at htb
    obtain ⟨b, hb', rfl⟩ := htb
    exact hy.esc _ b hb'

theorem all_emit (st : St) (bs : TStr) (hs : St.all sel P Q st = true) (hb : ∀ tb ∈ bs, P tb = true) :
    St.all sel P Q (emit st bs) = true := by
  rw [St.all_iff] at hs ⊢
  obtain ⟨h1, h2, h3, h4, h5⟩ := hs
  unfold emit
  split
  · rename_i c cs hc
    refine ⟨h1, h2, h3, ?_, h5⟩
    intro c' hc' tb htb
    simp only [List.mem_cons] at hc'
    cases hc' with
    | inl h =>
      subst h
      simp only [List.mem_append] at htb
      cases htb with
      | inl h => exact h4 c (by rw [hc]; simp) tb h
      | inr h => exact hb tb h
    | inr h => exact h4 c' (by rw [hc]; simp [h]) tb htb
  · refine ⟨h1, h2, h3, h4, ?_⟩
    intro tb htb
    simp only [List.mem_append] at htb
    cases htb with
    | inl h => exact h5 tb h
    | inr h => exact hb tb h


theorem all_withStack (st : St) (stk : List TVal) (hs : St.all sel P Q st = true)
    (h : ∀ v ∈ stk, TVal.all sel P Q v = true) : St.all sel P Q { st with stack := stk } = true := by
  rw [St.all_iff] at hs ⊢
  exact ⟨h, hs.2⟩

theorem stack_all (st : St) (hs : St.all sel P Q st = true) :
    ∀ v ∈ st.stack, TVal.all sel P Q v = true := ((St.all_iff st).1 hs).1

/-- new top of stack `v'` replacing a popped prefix: `st.stack = pre ++ s` becomes `v' :: s` -/
theorem all_replaceTop (st : St) (s : List TVal) (v' : TVal) (hs : St.all sel P Q st = true)
    (hsub : ∀ v ∈ s, v ∈ st.stack) (hv : TVal.all sel P Q v' = true) :
    St.all sel P Q { st with stack := v' :: s } = true := by
  apply all_withStack st _ hs
  intro v hvm
  simp only [List.mem_cons] at hvm
  cases hvm with
  | inl h => subst h; exact hv
  | inr h => exact stack_all st hs v (hsub v h)

theorem step_preserves {env : Env} {ae : Bool} {i : Instr} {st st' : St}
    (hy : Hyp env sel P Q)
    (hr : RegimeB sel P ∨ (sel false = false ∧ ae = true ∧ i.noSafe = true))
    (hl : i.litsOk Q = true) (hs : St.all sel P Q st = true)
    (h : step env ae i st = .ok st') : St.all sel P Q st' = true := by
  have hraw : RegimeB sel P ∨ sel false = false := hr.imp id (fun x => x.1)
  have hstk := stack_all st hs
  unfold step at h
  split at h
  case h_1 n =>   -- load
    cases h
    unfold push
    refine all_replaceTop st _ _ hs (fun v hv => hv) ?_
    cases hlk : lookup n (st.vars ++ st.parent) with
    | none => exact all_undef
    | some v =>
      obtain ⟨e, he, hev⟩ := lookup_mem _ _ _ hlk
      have hall := (St.all_iff st).1 hs
      simp only [Option.getD_some]
      rw [← hev]
      simp only [List.mem_append] at he
      cases he with
      | inl h => exact hall.2.1 e h
      | inr h => exact hall.2.2.1 e h
  case h_2 bs =>  -- strLit
    cases h
    exact all_replaceTop st _ _ hs (fun v hv => hv) (all_rawStr hraw bs)
  case h_3 f =>   -- scalarLit
    cases h
    refine all_replaceTop st _ _ hs (fun v hv => hv) ?_
    simpa [TVal.all, Instr.litsOk] using hl
  case h_4 b a s heq =>  -- concat
    cases h
    exact all_replaceTop st _ _ hs (fun v hv => by rw [heq]; simp [hv]) (all_rawStr hraw _)
  case h_5 ix v s heq =>  -- index
    have hv : TVal.all sel P Q v = true := hstk v (by rw [heq]; simp)
    have hsub : ∀ x ∈ s, x ∈ st.stack := fun x hx => by rw [heq]; simp [hx]
    split at h
    · cases h
    · rename_i xs
      cases h
      refine all_replaceTop st _ _ hs hsub ?_
      cases hp : pyIndex xs ix with
      | none => exact all_undef
      | some x => exact (all_arr xs).1 hv x (pyIndex_mem _ _ _ hp)
    · rename_i sf bs
      cases h
      refine all_replaceTop st _ _ hs hsub ?_
      cases hp : pyIndex (splitChars bs) ix with
      | none => exact all_undef
      | some c =>
        have hm := splitChars_mem bs c (pyIndex_mem _ _ _ hp)
        simp only [TVal.all, Bool.or_eq_true, Bool.not_eq_true', List.all_eq_true] at hv ⊢
        exact hv.imp id (fun h tb htb => h tb (hm tb htb))
    · cases h
      exact all_replaceTop st _ _ hs hsub all_undef
  case h_6 k v s heq =>  -- attr
    have hv : TVal.all sel P Q v = true := hstk v (by rw [heq]; simp)
    have hsub : ∀ x ∈ s, x ∈ st.stack := fun x hx => by rw [heq]; simp [hx]
    split at h
    · cases h
    · rename_i es
      cases h
      refine all_replaceTop st _ _ hs hsub ?_
      cases hp : lookupKey k es with
      | none => exact all_undef
      | some x =>
        obtain ⟨e, he, hev⟩ := lookupKey_mem _ _ _ hp
        simp only [Option.getD_some]
        rw [← hev]
        exact (all_map es).1 hv e he
    · cases h
      exact all_replaceTop st _ _ hs hsub all_undef
  case h_7 a b c v s heq =>  -- slice
    have hv : TVal.all sel P Q v = true := hstk v (by rw [heq]; simp)
    have hsub : ∀ x ∈ s, x ∈ st.stack := fun x hx => by rw [heq]; simp [hx]
    split at h
    · cases h
    · split at h
      · cases h
      · rename_i xs
        cases h
        refine all_replaceTop st _ _ hs hsub ?_
        rw [all_arr]
        intro x hx
        exact (all_arr xs).1 hv x (sliceItems_mem _ _ _ _ x hx)
      · rename_i sf bs
        cases h
        refine all_replaceTop st _ _ hs hsub ?_
        simp only [TVal.all, Bool.or_eq_true, Bool.not_eq_true', List.all_eq_true] at hv ⊢
        refine hv.imp id (fun h tb htb => h tb ?_)
        obtain ⟨c', hc', htb'⟩ := List.mem_flatten.1 htb
        exact splitChars_mem bs c' (sliceItems_mem _ _ _ _ c' hc') tb htb'
      · cases h
  case h_8 d v s heq =>  -- default
    have hv : TVal.all sel P Q v = true := hstk v (by rw [heq]; simp)
    have hsub : ∀ x ∈ s, x ∈ st.stack := fun x hx => by rw [heq]; simp [hx]
    split at h
    · cases h
      exact all_replaceTop st _ _ hs hsub (all_rawStr hraw d)
    · cases h
      exact all_replaceTop st _ _ hs hsub hv
  case h_9 v s heq =>  -- first
    have hv : TVal.all sel P Q v = true := hstk v (by rw [heq]; simp)
    have hsub : ∀ x ∈ s, x ∈ st.stack := fun x hx => by rw [heq]; simp [hx]
    split at h
    · rename_i xs
      cases h
      refine all_replaceTop st _ _ hs hsub ?_
      cases hh : xs.head? with
      | none => exact all_none
      | some x => exact (all_arr xs).1 hv x (List.mem_of_head? hh)
    · cases h
  case h_10 v s heq =>  -- last
    have hv : TVal.all sel P Q v = true := hstk v (by rw [heq]; simp)
    have hsub : ∀ x ∈ s, x ∈ st.stack := fun x hx => by rw [heq]; simp [hx]
    split at h
    · rename_i xs
      cases h
      refine all_replaceTop st _ _ hs hsub ?_
      cases hh : xs.getLast? with
      | none => exact all_none
      | some x => exact (all_arr xs).1 hv x (List.mem_of_getLast? hh)
    · cases h
  case h_11 n v s heq =>  -- nth
    have hv : TVal.all sel P Q v = true := hstk v (by rw [heq]; simp)
    have hsub : ∀ x ∈ s, x ∈ st.stack := fun x hx => by rw [heq]; simp [hx]
    split at h
    · rename_i xs
      cases h
      refine all_replaceTop st _ _ hs hsub ?_
      cases hh : xs[n]? with
      | none => exact all_none
      | some x => exact (all_arr xs).1 hv x (List.mem_of_getElem? hh)
    · cases h
  case h_12 k v s heq =>  -- getKey
    have hv : TVal.all sel P Q v = true := hstk v (by rw [heq]; simp)
    have hsub : ∀ x ∈ s, x ∈ st.stack := fun x hx => by rw [heq]; simp [hx]
    split at h
    · rename_i es
      split at h
      · rename_i x hp
        cases h
        refine all_replaceTop st _ _ hs hsub ?_
        obtain ⟨e, he, hev⟩ := lookupKey_mem _ _ _ hp
        rw [← hev]
        exact (all_map es).1 hv e he
      · cases h
    · cases h
  case h_13 v s heq =>  -- reverse
    have hv : TVal.all sel P Q v = true := hstk v (by rw [heq]; simp)
    have hsub : ∀ x ∈ s, x ∈ st.stack := fun x hx => by rw [heq]; simp [hx]
    split at h
    · rename_i xs
      cases h
      refine all_replaceTop st _ _ hs hsub ?_
      rw [all_arr]
      intro x hx
      exact (all_arr xs).1 hv x (List.mem_reverse.1 hx)
    · cases h
      exact all_replaceTop st _ _ hs hsub (all_rawStr hraw _)
    · cases h
  case h_14 sep v s heq =>  -- join
    have hsub : ∀ x ∈ s, x ∈ st.stack := fun x hx => by rw [heq]; simp [hx]
    split at h
    · cases h
      exact all_replaceTop st _ _ hs hsub (all_rawStr hraw _)
    · cases h
  case h_15 f v s heq =>  -- strFn
    have hsub : ∀ x ∈ s, x ∈ st.stack := fun x hx => by rw [heq]; simp [hx]
    split at h
    · cases h
      exact all_replaceTop st _ _ hs hsub (all_rawStr hraw _)
    · cases h
  case h_16 v s heq =>  -- markSafe
    have hv : TVal.all sel P Q v = true := hstk v (by rw [heq]; simp)
    have hsub : ∀ x ∈ s, x ∈ st.stack := fun x hx => by rw [heq]; simp [hx]
    cases h
    refine all_replaceTop st _ _ hs hsub ?_
    cases hr with
    | inl hb =>
      simp only [TVal.all, hy.selTrue, Bool.not_true, Bool.false_or, List.all_eq_true]
      exact fmtT_all hy hb v hv
    | inr ha => simp [Instr.noSafe] at ha
  case h_17 n stk =>  -- buildArr
    split at h
    · rename_i vs s hp
      cases h
      obtain ⟨m1, m2⟩ := popN_mem _ _ _ _ hp
      refine all_replaceTop st _ _ hs m2 ?_
      rw [all_arr]
      intro x hx
      exact hstk x (m1 x hx)
    · cases h
  case h_18 ks stk =>  -- buildMap
    split at h
    · rename_i vs s hp
      cases h
      obtain ⟨m1, m2⟩ := popN_mem _ _ _ _ hp
      refine all_replaceTop st _ _ hs m2 ?_
      rw [all_map]
      intro e he
      exact hstk e.2 (m1 e.2 (List.of_mem_zip he).2)
    · cases h
  case h_19 n v s heq =>  -- set
    have hv : TVal.all sel P Q v = true := hstk v (by rw [heq]; simp)
    cases h
    rw [St.all_iff] at hs ⊢
    refine ⟨fun x hx => hs.1 x (by rw [heq]; simp [hx]), ?_, hs.2.2⟩
    intro e he
    simp only [List.mem_cons] at he
    cases he with
    | inl h => subst h; exact hv
    | inr h => exact hs.2.1 e h
  case h_20 =>  -- capture
    cases h
    rw [St.all_iff] at hs ⊢
    refine ⟨hs.1, hs.2.1, hs.2.2.1, ?_, hs.2.2.2.2⟩
    intro c hc
    simp only [List.mem_cons] at hc
    cases hc with
    | inl h => subst h; simp
    | inr h => exact hs.2.2.2.1 c h
  case h_21 =>  -- endCapture
    split at h
    · rename_i c cs hc
      cases h
      rw [St.all_iff] at hs ⊢
      refine ⟨?_, hs.2.1, hs.2.2.1, fun c' hc' => hs.2.2.2.1 c' (by rw [hc]; simp [hc']), hs.2.2.2.2⟩
      intro v hv
      simp only [List.mem_cons] at hv
      cases hv with
      | inl h =>
        subst h
        simp only [TVal.all, hy.selTrue, Bool.not_true, Bool.false_or, List.all_eq_true]
        exact hs.2.2.2.1 c (by rw [hc]; simp)
      | inr h => exact hs.1 v h
    · cases h
  case h_22 bs =>  -- writeText
    cases h
    refine all_emit st _ hs ?_
    intro tb htb
    simp only [tagAll, List.mem_map] at htb
    obtain ⟨b, _, rfl⟩ := htb
    exact hy.lit b
  case h_23 v s heq =>  -- write
    have hv : TVal.all sel P Q v = true := hstk v (by rw [heq]; simp)
    have hsub : ∀ x ∈ s, x ∈ st.stack := fun x hx => by rw [heq]; simp [hx]
    split at h
    · cases h
    · cases h
      refine all_emit _ _ (all_withStack st s hs (fun x hx => hstk x (hsub x hx))) ?_
      exact sink_all hy ae (hr.imp id (fun x => x.2.1)) v hv
  case h_24 => cases h


theorem iterElems_all (hraw : RegimeB sel P ∨ sel false = false) (v : TVal) (xs : List TVal)
    (hv : TVal.all sel P Q v = true) (h : iterElems v = some xs) :
    ∀ x ∈ xs, TVal.all sel P Q x = true := by
  cases v with
  | arr ys =>
    simp only [iterElems, Option.some.injEq] at h
    subst h
    exact (all_arr ys).1 hv
  | map es =>
    simp only [iterElems, Option.some.injEq] at h
    subst h
    intro x hx
    simp only [List.mem_map] at hx
    obtain ⟨e, he, rfl⟩ := hx
    exact (all_map es).1 hv e he
  | str s bs =>
    simp only [iterElems, Option.some.injEq] at h
    subst h
    intro x hx
    simp only [List.mem_map] at hx
    obtain ⟨c, _, rfl⟩ := hx
    exact all_rawStr hraw _
  | undef => simp [iterElems] at h
  | none => simp [iterElems] at h
  | scalar f => simp [iterElems] at h
  | bytes f => simp [iterElems] at h

theorem loopElems_preserves (f : St → Except Err St)
    (hf : ∀ st st', St.all sel P Q st = true → f st = .ok st' → St.all sel P Q st' = true)
    (var : String) (xs : List TVal) (hx : ∀ x ∈ xs, TVal.all sel P Q x = true) :
    ∀ st st', St.all sel P Q st = true → loopElems f var xs st = .ok st' →
      St.all sel P Q st' = true := by
  induction xs with
  | nil =>
    intro st st' hs h
    simp only [loopElems, Except.ok.injEq] at h
    subst h; exact hs
  | cons x xs ih =>
    intro st st' hs h
    unfold loopElems at h
    split at h
    · rename_i st1 h1
      have hs0 := (St.all_iff st).1 hs
      have hin : St.all sel P Q { st with vars := (var, x) :: st.vars } = true := by
        rw [St.all_iff]
        refine ⟨hs0.1, ?_, hs0.2.2⟩
        intro e he
        simp only [List.mem_cons] at he
        cases he with
        | inl h => subst h; exact hx x (by simp)
        | inr h => exact hs0.2.1 e h
      have h1' := (St.all_iff st1).1 (hf _ _ hin h1)
      refine ih (fun y hy => hx y (by simp [hy])) _ _ ?_ h
      rw [St.all_iff]
      exact ⟨h1'.1, hs0.2.1, h1'.2.2⟩
    · cases h

/-- The regime a program runs under (see the header). -/
def Regime (sel : Bool → Bool) (P : TB → Bool) (ov : Option Bool) (ae : Bool) (p : Prog) : Prop :=
  RegimeB sel P ∨ (sel false = false ∧ ae = true ∧ p.clean ov = true)

theorem all_fresh (ctx : List (String × TVal)) (h : ∀ e ∈ ctx, TVal.all sel P Q e.2 = true) :
    St.all sel P Q { vars := ctx } = true := by
  rw [St.all_iff]
  exact ⟨by simp, h, by simp, by simp, by simp⟩

theorem all_freshParent (ctx : List (String × TVal)) (h : ∀ e ∈ ctx, TVal.all sel P Q e.2 = true) :
    St.all sel P Q { parent := ctx } = true := by
  rw [St.all_iff]
  exact ⟨by simp, by simp, h, by simp, by simp⟩

theorem compCall_preserves (runArgs runDefn runK : St → Except Err St)
    (hA : ∀ st st', St.all sel P Q st = true → runArgs st = .ok st' → St.all sel P Q st' = true)
    (hD : ∀ st st', St.all sel P Q st = true → runDefn st = .ok st' → St.all sel P Q st' = true)
    (hK : ∀ st st', St.all sel P Q st = true → runK st = .ok st' → St.all sel P Q st' = true)
    (hsel : sel true = true)
    (params : List String) (st1 st' : St) (bodyVal : Option TVal)
    (hs : St.all sel P Q st1 = true) (hb : ∀ b, bodyVal = some b → TVal.all sel P Q b = true)
    (h : compCall runArgs runDefn runK params st1 bodyVal = .ok st') :
    St.all sel P Q st' = true := by
  unfold compCall at h
  split at h
  · cases h
  · rename_i st2 h2
    have hs2 := hA _ _ hs h2
    split at h
    · cases h
    · rename_i vals s hp
      obtain ⟨m1, m2⟩ := popN_mem _ _ _ _ hp
      split at h
      · cases h
      · rename_i st3 h3
        have hctx : St.all sel P Q { vars := params.zip vals ++ bodyCtx bodyVal } = true := by
          apply all_fresh
          intro e he
          simp only [List.mem_append] at he
          cases he with
          | inl h => exact stack_all st2 hs2 e.2 (m1 e.2 (List.of_mem_zip h).2)
          | inr h =>
            cases bodyVal with
            | none => simp [bodyCtx] at h
            | some b =>
              simp only [bodyCtx, List.mem_singleton] at h
              subst h
              exact hb b rfl
        have hs3 := (St.all_iff st3).1 (hD _ _ hctx h3)
        refine hK _ _ ?_ h
        refine all_replaceTop st2 s _ hs2 m2 ?_
        simp only [TVal.all, hsel, Bool.not_true, Bool.false_or, List.all_eq_true]
        exact hs3.2.2.2.2

theorem run_preserves {env : Env} (hy : Hyp env sel P Q) (p : Prog) :
    ∀ (ae : Bool) (st st' : St), Regime sel P env.override ae p → p.litsOk Q = true →
      St.all sel P Q st = true → run env ae p st = .ok st' → St.all sel P Q st' = true := by
  induction p with
  | done =>
    intro ae st st' _ _ hs h
    simp only [run, Except.ok.injEq] at h
    subst h; exact hs
  | op i k ih =>
    intro ae st st' hr hl hs h
    simp only [Prog.litsOk, Bool.and_eq_true] at hl
    rw [run] at h
    split at h
    · rename_i st1 h1
      have hr1 : RegimeB sel P ∨ (sel false = false ∧ ae = true ∧ i.noSafe = true) := by
        refine hr.imp id (fun x => ⟨x.1, x.2.1, ?_⟩)
        have := x.2.2
        simp only [Prog.clean, Bool.and_eq_true] at this
        exact this.1
      have hr2 : Regime sel P env.override ae k := by
        refine hr.imp id (fun x => ⟨x.1, x.2.1, ?_⟩)
        have := x.2.2
        simp only [Prog.clean, Bool.and_eq_true] at this
        exact this.2
      exact ih ae st1 st' hr2 hl.2 (step_preserves hy hr1 hl.1 hs h1) h
    · cases h
  | forEach var body k ihb ihk =>
    intro ae st st' hr hl hs h
    simp only [Prog.litsOk, Bool.and_eq_true] at hl
    have hrb : Regime sel P env.override ae body := by
      refine hr.imp id (fun x => ⟨x.1, x.2.1, ?_⟩)
      have := x.2.2
      simp only [Prog.clean, Bool.and_eq_true] at this
      exact this.1
    have hrk : Regime sel P env.override ae k := by
      refine hr.imp id (fun x => ⟨x.1, x.2.1, ?_⟩)
      have := x.2.2
      simp only [Prog.clean, Bool.and_eq_true] at this
      exact this.2
    have hraw : RegimeB sel P ∨ sel false = false := hr.imp id (fun x => x.1)
    rw [run] at h
    split at h
    · rename_i v s heq
      split at h
      · rename_i xs hit
        split at h
        · rename_i st1 h1
          have hv : TVal.all sel P Q v = true := stack_all st hs v (by rw [heq]; simp)
          have hs1 : St.all sel P Q { st with stack := s } = true :=
            all_withStack st s hs (fun x hx => stack_all st hs x (by rw [heq]; simp [hx]))
          have := loopElems_preserves (run env ae body) (fun a b ha hb => ihb ae a b hrb hl.1 ha hb)
            var xs (iterElems_all hraw v xs hv hit) _ _ hs1 h1
          exact ihk ae st1 st' hrk hl.2 this h
        · cases h
      · cases h
    · cases h
  | comp hasBody body args params defn k ihbody ihargs ihdefn ihk =>
    intro ae st st' hr hl hs h
    simp only [Prog.litsOk, Bool.and_eq_true] at hl
    have hcl : ∀ x : sel false = false ∧ ae = true ∧ (Prog.comp hasBody body args params defn k).clean env.override = true,
        body.clean env.override = true ∧ args.clean env.override = true ∧
        defn.clean env.override = true ∧ k.clean env.override = true := by
      intro x
      have := x.2.2
      simp only [Prog.clean, Bool.and_eq_true] at this
      exact ⟨this.1.1.1, this.1.1.2, this.1.2, this.2⟩
    have hrb : Regime sel P env.override ae body := hr.imp id (fun x => ⟨x.1, x.2.1, (hcl x).1⟩)
    have hra : Regime sel P env.override ae args := hr.imp id (fun x => ⟨x.1, x.2.1, (hcl x).2.1⟩)
    have hrd : Regime sel P env.override ae defn := hr.imp id (fun x => ⟨x.1, x.2.1, (hcl x).2.2.1⟩)
    have hrk : Regime sel P env.override ae k := hr.imp id (fun x => ⟨x.1, x.2.1, (hcl x).2.2.2⟩)
    have tail := compCall_preserves (sel := sel) (P := P) (Q := Q)
      (run env ae args) (run env ae defn) (run env ae k)
      (fun a b ha hb => ihargs ae a b hra hl.1.1.2 ha hb)
      (fun a b ha hb => ihdefn ae a b hrd hl.1.2 ha hb)
      (fun a b ha hb => ihk ae a b hrk hl.2 ha hb) hy.selTrue params
    unfold run at h
    split at h
    · exact tail st st' Option.none hs (fun b hb => by cases hb) h
    · split at h
      · rename_i st1 h1
        have hs0 := (St.all_iff st).1 hs
        have hin : St.all sel P Q { st with caps := [] :: st.caps } = true := by
          rw [St.all_iff]
          refine ⟨hs0.1, hs0.2.1, hs0.2.2.1, ?_, hs0.2.2.2.2⟩
          intro c hc
          simp only [List.mem_cons] at hc
          cases hc with
          | inl h => subst h; simp
          | inr h => exact hs0.2.2.2.1 c h
        have hs1 := (St.all_iff st1).1 (ihbody ae _ st1 hrb hl.1.1.1 hin h1)
        split at h
        · rename_i c cs hc
          refine tail _ st' _ ?_ ?_ h
          · rw [St.all_iff]
            exact ⟨hs1.1, hs1.2.1, hs1.2.2.1, fun c' hc' => hs1.2.2.2.1 c' (by rw [hc]; simp [hc']), hs1.2.2.2.2⟩
          · intro b hb
            simp only [Option.some.injEq] at hb
            subst hb
            simp only [TVal.all, hy.selTrue, Bool.not_true, Bool.false_or, List.all_eq_true]
            exact hs1.2.2.2.1 c (by rw [hc]; simp)
        · cases h
      · cases h
  | incl tplAe tpl k iht ihk =>
    intro ae st st' hr hl hs h
    simp only [Prog.litsOk, Bool.and_eq_true] at hl
    have hrt : Regime sel P env.override (env.override.getD tplAe) tpl := by
      refine hr.imp id (fun x => ?_)
      have := x.2.2
      simp only [Prog.clean, Bool.and_eq_true] at this
      exact ⟨x.1, this.1.1, this.1.2⟩
    have hrk : Regime sel P env.override ae k := by
      refine hr.imp id (fun x => ⟨x.1, x.2.1, ?_⟩)
      have := x.2.2
      simp only [Prog.clean, Bool.and_eq_true] at this
      exact this.2
    rw [run] at h
    split at h
    · cases h
    · rename_i r h1
      have hs0 := (St.all_iff st).1 hs
      have hsub : St.all sel P Q { parent := st.vars ++ st.parent } = true := by
        apply all_freshParent
        intro e he
        simp only [List.mem_append] at he
        cases he with
        | inl h => exact hs0.2.1 e h
        | inr h => exact hs0.2.2.1 e h
      have hr1 := (St.all_iff r).1 (iht _ _ r hrt hl.1 hsub h1)
      exact ihk ae _ st' hrk hl.2 (all_emit st r.out hs hr1.2.2.2.2) h
  | super parent k ihp ihk =>
    intro ae st st' hr hl hs h
    simp only [Prog.litsOk, Bool.and_eq_true] at hl
    have hrp : Regime sel P env.override ae parent := by
      refine hr.imp id (fun x => ⟨x.1, x.2.1, ?_⟩)
      have := x.2.2
      simp only [Prog.clean, Bool.and_eq_true] at this
      exact this.1
    have hrk : Regime sel P env.override ae k := by
      refine hr.imp id (fun x => ⟨x.1, x.2.1, ?_⟩)
      have := x.2.2
      simp only [Prog.clean, Bool.and_eq_true] at this
      exact this.2
    rw [run] at h
    split at h
    · cases h
    · rename_i r h1
      have hs0 := (St.all_iff st).1 hs
      have hin : St.all sel P Q { st with caps := [], out := [] } = true := by
        rw [St.all_iff]
        exact ⟨hs0.1, hs0.2.1, hs0.2.2.1, by simp, by simp⟩
      have hr1 := (St.all_iff r).1 (ihp ae _ r hrp hl.1 hin h1)
      refine ihk ae _ st' hrk hl.2 ?_ h
      rw [St.all_iff]
      refine ⟨?_, hr1.2.1, hr1.2.2.1, hs0.2.2.2.1, hs0.2.2.2.2⟩
      intro v hv
      simp only [List.mem_cons] at hv
      cases hv with
      | inl h =>
        subst h
        simp only [TVal.all, hy.selTrue, Bool.not_true, Bool.false_or, List.all_eq_true]
        exact hr1.2.2.2.2
      | inr h => exact hr1.1 v h
  | block body k ihb ihk =>
    intro ae st st' hr hl hs h
    simp only [Prog.litsOk, Bool.and_eq_true] at hl
    have hrb : Regime sel P env.override ae body := by
      refine hr.imp id (fun x => ⟨x.1, x.2.1, ?_⟩)
      have := x.2.2
      simp only [Prog.clean, Bool.and_eq_true] at this
      exact this.1
    have hrk : Regime sel P env.override ae k := by
      refine hr.imp id (fun x => ⟨x.1, x.2.1, ?_⟩)
      have := x.2.2
      simp only [Prog.clean, Bool.and_eq_true] at this
      exact this.2
    rw [run] at h
    split at h
    · cases h
    · rename_i st1 h1
      exact ihk ae st1 st' hrk hl.2 (ihb ae st st1 hrb hl.1 hs h1) h


/-! ### monotonicity, and initial states -/

section mono
variable {P' : TB → Bool} {Q' : List Nat → Bool}

mutual
theorem all_mono (h1 : ∀ tb, P tb = true → P' tb = true) (h2 : ∀ f, Q f = true → Q' f = true) :
    ∀ v, TVal.all sel P Q v = true → TVal.all sel P' Q' v = true
  | .undef, _ => by simp [TVal.all]
  | .none, _ => by simp [TVal.all]
  | .bytes _, _ => by simp [TVal.all]
  | .scalar f, h => by
    simp only [TVal.all] at h ⊢
    exact h2 f h
  | .str s bs, h => by
    simp only [TVal.all, Bool.or_eq_true, Bool.not_eq_true', List.all_eq_true] at h ⊢
    exact h.imp id (fun h tb htb => h1 tb (h tb htb))
  | .arr xs, h => by
    rw [TVal.all] at h ⊢
    exact allList_mono h1 h2 xs h
  | .map es, h => by
    rw [TVal.all] at h ⊢
    exact allEntries_mono h1 h2 es h
theorem allList_mono (h1 : ∀ tb, P tb = true → P' tb = true) (h2 : ∀ f, Q f = true → Q' f = true) :
    ∀ xs, allList sel P Q xs = true → allList sel P' Q' xs = true
  | [], _ => by simp [allList]
  | x :: xs, h => by
    simp only [allList, Bool.and_eq_true] at h ⊢
    exact ⟨all_mono h1 h2 x h.1, allList_mono h1 h2 xs h.2⟩
theorem allEntries_mono (h1 : ∀ tb, P tb = true → P' tb = true) (h2 : ∀ f, Q f = true → Q' f = true) :
    ∀ es, allEntries sel P Q es = true → allEntries sel P' Q' es = true
  | [], _ => by simp [allEntries]
  | (_, v) :: es, h => by
    simp only [allEntries, Bool.and_eq_true] at h ⊢
    exact ⟨all_mono h1 h2 v h.1, allEntries_mono h1 h2 es h.2⟩
end
end mono

theorem litsOk_any (p : Prog) : p.litsOk anyScalar = true := by
  induction p with
  | done => rfl
  | op i k ih =>
    simp only [Prog.litsOk, Bool.and_eq_true]
    refine ⟨?_, ih⟩
    cases i <;> simp [Instr.litsOk, anyScalar]
  | forEach v b k ihb ihk => simp [Prog.litsOk, ihb, ihk]
  | comp hb b a ps d k ihb iha ihd ihk => simp [Prog.litsOk, ihb, iha, ihd, ihk]
  | incl ae t k iht ihk => simp [Prog.litsOk, iht, ihk]
  | super p k ihp ihk => simp [Prog.litsOk, ihp, ihk]
  | block b k ihb ihk => simp [Prog.litsOk, ihb, ihk]

/-! ### sequencing -/

/-- what "then run `f`" means for an outcome -/
def thenRun (r : Except Err St) (f : St → Except Err St) : Except Err St :=
  match r with
  | .ok st => f st
  | .error e => .error e

theorem compCall_then (A D K Q : St → Except Err St) (params : List String) (st1 : St)
    (bv : Option TVal) :
    compCall A D (fun s => thenRun (K s) Q) params st1 bv = thenRun (compCall A D K params st1 bv) Q := by
  unfold compCall
  cases A st1 with
  | error e => rfl
  | ok st2 =>
    simp only
    cases popN params.length st2.stack with
    | none => rfl
    | some pr =>
      obtain ⟨vals, s⟩ := pr
      simp only
      cases D { vars := params.zip vals ++ bodyCtx bv } with
      | error e => rfl
      | ok st3 => rfl

theorem run_append (env : Env) (p q : Prog) :
    ∀ (ae : Bool) (st : St), run env ae (p.append q) st = thenRun (run env ae p st) (run env ae q) := by
  induction p with
  | done => intro ae st; simp [Prog.append, run, thenRun]
  | op i k ih =>
    intro ae st
    simp only [Prog.append, run]
    cases step env ae i st with
    | error e => rfl
    | ok st' => exact ih ae st'
  | forEach v b k _ ihk =>
    intro ae st
    simp only [Prog.append, run]
    cases st.stack with
    | nil => rfl
    | cons x s =>
      simp only
      cases iterElems x with
      | none => rfl
      | some xs =>
        simp only
        cases loopElems (run env ae b) v xs { st with stack := s } with
        | error e => rfl
        | ok st' => exact ihk ae st'
  | comp hb b a ps d k _ _ _ ihk =>
    intro ae st
    have hk : run env ae (k.append q) = fun s => thenRun (run env ae k s) (run env ae q) :=
      funext (ihk ae)
    simp only [Prog.append]
    unfold run
    rw [hk]
    cases hb with
    | false => exact compCall_then _ _ _ _ _ _ _
    | true =>
      simp only
      cases run env ae b { st with caps := [] :: st.caps } with
      | error e => rfl
      | ok st1 =>
        simp only
        cases st1.caps with
        | nil => rfl
        | cons c cs => exact compCall_then _ _ _ _ _ _ _
  | incl tae t k _ ihk =>
    intro ae st
    simp only [Prog.append, run]
    cases run env (env.override.getD tae) t { parent := st.vars ++ st.parent } with
    | error e => rfl
    | ok r => exact ihk ae _
  | super par k _ ihk =>
    intro ae st
    simp only [Prog.append, run]
    cases run env ae par { st with caps := [], out := [] } with
    | error e => rfl
    | ok r => exact ihk ae _
  | block b k _ ihk =>
    intro ae st
    simp only [Prog.append, run]
    cases run env ae b st with
    | error e => rfl
    | ok st' => exact ihk ae st'

theorem clean_append (ov : Option Bool) (p q : Prog) :
    (p.append q).clean ov = (p.clean ov && q.clean ov) := by
  induction p with
  | done => simp [Prog.append, Prog.clean]
  | op i k ih => simp [Prog.append, Prog.clean, ih, Bool.and_assoc]
  | forEach v b k _ ih => simp [Prog.append, Prog.clean, ih, Bool.and_assoc]
  | comp hb b a ps d k _ _ _ ih => simp [Prog.append, Prog.clean, ih, Bool.and_assoc]
  | incl ae t k _ ih => simp [Prog.append, Prog.clean, ih, Bool.and_assoc]
  | super par k _ ih => simp [Prog.append, Prog.clean, ih, Bool.and_assoc]
  | block b k _ ih => simp [Prog.append, Prog.clean, ih, Bool.and_assoc]

/-! ### the API override vs template flags -/

theorem step_override (e : List Nat → List Nat) (o1 o2 : Option Bool) (ae : Bool) (i : Instr) (st : St) :
    step { escape := e, override := o1 } ae i st = step { escape := e, override := o2 } ae i st := rfl

/-- With the override `some f` in force, or with no override but every included template flagged
`f`, a VM in mode `f` does the same. -/
theorem run_override (e : List Nat → List Nat) (f : Bool) (p : Prog) (h : p.inclAll f = true) :
    ∀ st, run { escape := e, override := some f } f p st = run { escape := e, override := Option.none } f p st := by
  induction p with
  | done => intro st; rfl
  | op i k ih =>
    intro st
    simp only [Prog.inclAll] at h
    simp only [run, step_override e (some f) Option.none]
    cases step { escape := e, override := Option.none } f i st with
    | error _ => rfl
    | ok st' => exact ih h st'
  | forEach v b k ihb ihk =>
    intro st
    simp only [Prog.inclAll, Bool.and_eq_true] at h
    simp only [run, funext (ihb h.1)]
    cases st.stack with
    | nil => rfl
    | cons x s =>
      simp only
      cases iterElems x with
      | none => rfl
      | some xs =>
        simp only
        cases loopElems (run { escape := e, override := Option.none } f b) v xs { st with stack := s } with
        | error _ => rfl
        | ok st' => exact ihk h.2 st'
  | comp hb b a ps d k ihb iha ihd ihk =>
    intro st
    simp only [Prog.inclAll, Bool.and_eq_true] at h
    unfold run
    rw [funext (iha h.1.1.2), funext (ihd h.1.2), funext (ihk h.2), ihb h.1.1.1]
  | incl tae t k iht ihk =>
    intro st
    simp only [Prog.inclAll, Bool.and_eq_true, beq_iff_eq] at h
    obtain ⟨⟨hf, ht⟩, hk⟩ := h
    subst hf
    simp only [run, Option.getD_some, Option.getD_none, iht ht]
    cases run { escape := e, override := Option.none } tae t { parent := st.vars ++ st.parent } with
    | error _ => rfl
    | ok r => exact ihk hk _
  | super par k ihp ihk =>
    intro st
    simp only [Prog.inclAll, Bool.and_eq_true] at h
    simp only [run, ihp h.1]
    cases run { escape := e, override := Option.none } f par { st with caps := [], out := [] } with
    | error _ => rfl
    | ok r => exact ihk h.2 _
  | block b k ihb ihk =>
    intro st
    simp only [Prog.inclAll, Bool.and_eq_true] at h
    simp only [run, ihb h.1]
    cases run { escape := e, override := Option.none } f b st with
    | error _ => rfl
    | ok st' => exact ihk h.2 st'

theorem erase_tagAll (t : Tag) (bs : List Nat) : erase (tagAll t bs) = bs := by
  induction bs with
  | nil => rfl
  | cons b bs ih =>
    simp only [erase, tagAll, List.map_cons, List.map_map] at ih ⊢
    rw [ih]

theorem erase_fmtT (v : TVal) : erase (fmtT v) = fmt v := by
  cases v <;> simp [fmtT, fmt, erase_tagAll]

end Tera.SafeFlow
