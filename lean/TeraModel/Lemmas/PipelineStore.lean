/-
Bridge compiler ↔ optimiser ↔ VM chunk (part of P3 / P4 of Props/Pipeline.lean): for every chunk
the compiler model emits, `Pipeline.storeChunk` — encode for the optimiser model, run
`Optimize.optimize`, read the typed instructions back — answers `ok`: the pass does not hit its
`index_map[target]` panic (jump operands of compiled code are in range: `targets_nodes`,
Lemmas/CompilerOptHyps.lean + `C09.optimize_no_panic`) and every instruction of the optimised
chunk decodes (the pass only fuses variable paths and re-targets jumps:
`C09.optimize_merges_only_paths`, so every opaque instruction is one of the input, whose payload is
its position in the compiled chunk).
-/
import TeraModel.Props.C07Compile
import TeraModel.Model.Pipeline
namespace Tera.Pipeline
open Tera Tera.Compiler Tera.Optimize

/-! ### every compiled instruction has a typed form -/

/-- the instruction is one the VM model has (`vinstr` is defined) -/
def VI (y : CEntry) : Prop := (vinstr y.1).isSome = true

@[simp] theorem allC_VI_keyStore (k : Option String) : AllC VI (keyStore k) := by
  cases k <;> simp [keyStore, VI, ns, vinstr]

@[simp] theorem VI_unary (op : UnaryOperator) (b : Bool) : VI (unaryInstr op, b) := by
  cases op <;> simp [VI, unaryInstr, vinstr]

@[simp] theorem VI_mapBuild (b : Bool) (m : List MapEntry) : VI (mapBuild m, b) := by
  unfold mapBuild VI; split <;> simp [vinstr]

@[simp] theorem VI_arrayBuild (b : Bool) (m : List ArrayEntry) : VI (arrayBuild m, b) := by
  unfold arrayBuild VI; split <;> simp [vinstr]

@[simp] theorem VI_setInstr (b : Bool) (n : String) (g : Bool) : VI (setInstr n g, b) := by
  unfold setInstr VI; split <;> simp [vinstr]

def ViM1 (e : Expr) : Prop := ∀ base loop, AllC VI (exprCode base loop e)
def ViM2 (ns : List Node) : Prop := ∀ base loop, AllC VI (nodesCode base loop ns)
def ViM3 (n : Node) : Prop := ∀ base loop, AllC VI (nodeCode base loop n)
def ViM4 (k : List (String × Expr)) : Prop := ∀ base loop, AllC VI (kwargsCode base loop k)
def ViM5 (f : List Expr) : Prop := ∀ base loop, AllC VI (filtersCode base loop f)
def ViM6 (o : Option Expr) : Prop := ∀ base loop, AllC VI (condCode base loop o)
def ViM7 (o : Option Expr) : Prop :=
  ∀ base loop dflt, VI (Compiler.ns dflt) → AllC VI (optExprCode base loop dflt o)
def ViM8 (a : List ArrayEntry) : Prop := ∀ base loop, AllC VI (arrayItemsCode base loop a)
def ViM9 (m : List MapEntry) : Prop := ∀ base loop, AllC VI (mapItemsCode base loop m)

theorem VI_binop (op : BinaryOperator) (b : Bool) (h1 : op ≠ .And) (h2 : op ≠ .Or) (h3 : op ≠ .Is)
    (h4 : op ≠ .Pipe) : VI (CInstr.binop op, b) := by
  cases op <;> simp_all [VI, vinstr]

set_option maxHeartbeats 1600000 in
theorem vi_aux :
    (∀ (_ : Nat) (_ : Option Nat) e, ViM1 e) ∧
    (∀ (_ : Nat) (_ : Option Nat) ns, ViM2 ns) ∧
    (∀ (_ : Nat) (_ : Option Nat) n, ViM3 n) ∧
    (∀ (_ : Nat) (_ : Option Nat) k, ViM4 k) ∧
    (∀ (_ : Nat) (_ : Option Nat) f, ViM5 f) ∧
    (∀ (_ : Nat) (_ : Option Nat) o, ViM6 o) ∧
    (∀ (_ : Nat) (_ : Option Nat) (_ : CInstr) o, ViM7 o) ∧
    (∀ (_ : Nat) (_ : Option Nat) a, ViM8 a) ∧
    (∀ (_ : Nat) (_ : Option Nat) m, ViM9 m) := by
  apply exprCode.mutual_induct
    (motive_1 := fun _ _ e => ViM1 e)
    (motive_2 := fun _ _ ns => ViM2 ns)
    (motive_3 := fun _ _ n => ViM3 n)
    (motive_4 := fun _ _ k => ViM4 k)
    (motive_5 := fun _ _ f => ViM5 f)
    (motive_6 := fun _ _ o => ViM6 o)
    (motive_7 := fun _ _ _ o => ViM7 o)
    (motive_8 := fun _ _ a => ViM8 a)
    (motive_9 := fun _ _ m => ViM9 m)
  all_goals intros
  all_goals simp only [ViM1, ViM2, ViM3, ViM4, ViM5, ViM6, ViM7, ViM8, ViM9] at *
  all_goals intros
  all_goals simp only [exprCode, nodesCode, nodeCode, kwargsCode, filtersCode, condCode, optExprCode,
    arrayItemsCode, mapItemsCode] at *
  all_goals (try split)
  all_goals (try simp_all (config := { zetaDelta := true }) only [allC_append, allC_cons, allC_nil,
    and_true, true_and, and_self, allC_VI_keyStore, VI_unary, sp, ns, VI_mapBuild, VI_arrayBuild,
    VI_setInstr])
  all_goals (try (simp [VI, vinstr]; done))
  all_goals (try (split <;> simp [VI, vinstr]; done))
  all_goals (try (apply VI_binop <;> (intro h; simp_all); done))
  all_goals (try grind [VI, vinstr, VI_binop])

theorem vi_nodes (ns : List Node) (base : Nat) (loop : Option Nat) :
    AllC VI (nodesCode base loop ns) := vi_aux.2.1 0 none ns base loop

/-! ### the encoding -/

theorem encodeFrom_length (i : Nat) (c : Code) : (encodeFrom i c).length = c.length := by
  induction c generalizing i with
  | nil => rfl
  | cons e rest ih => simp [encodeFrom, ih]

theorem encode_length (c : Code) : (encode c).length = c.length := encodeFrom_length 0 c

theorem mem_encodeFrom {i : Nat} {c : Code} {x : Entry} (h : x ∈ encodeFrom i c) :
    ∃ k e, c[k]? = some e ∧ x = (encodeInstr (i + k) e.1, spansOf e.2) := by
  induction c generalizing i with
  | nil => simp [encodeFrom] at h
  | cons e rest ih =>
    simp only [encodeFrom, List.mem_cons] at h
    rcases h with rfl | h
    · exact ⟨0, e, rfl, rfl⟩
    · obtain ⟨k, e', hk, rfl⟩ := ih h
      exact ⟨k + 1, e', by simpa using hk, by rw [Nat.add_assoc, Nat.add_comm 1 k]⟩

theorem mem_encode {c : Code} {x : Entry} (h : x ∈ encode c) :
    ∃ k e, c[k]? = some e ∧ x = (encodeInstr k e.1, spansOf e.2) := by
  obtain ⟨k, e, hk, rfl⟩ := mem_encodeFrom h
  exact ⟨k, e, hk, by rw [Nat.zero_add]⟩

theorem target_encodeInstr (i : Nat) (ci : CInstr) : (encodeInstr i ci).target? = ci.target? := by
  cases ci <;> rfl

theorem isFused_encodeInstr (i : Nat) (ci : CInstr) : (encodeInstr i ci).isFused = false := by
  cases ci <;> rfl

/-- jump operands of an encoded compiled chunk are instruction indices or the end index -/
theorem encode_targetsInRange (ns : List Node) :
    C09.TargetsInRange (encode (nodesCode 0 none ns)) := by
  intro e he t ht
  obtain ⟨k, y, hk, rfl⟩ := mem_encode he
  simp only [target_encodeInstr] at ht
  have hy : y ∈ nodesCode 0 none ns := List.mem_of_getElem? hk
  rcases targets_nodes ns y hy t ht with h | h
  · rw [encode_length]; exact h.2
  · cases h

/-! ### decoding the optimised chunk -/

theorem decodeAll_isSome (c : Code) (r : List Entry) (h : ∀ x ∈ r, (decodeInstr c x.1).isSome = true) :
    (decodeAll c r).isSome = true := by
  induction r with
  | nil => rfl
  | cons x rest ih =>
    have hx := h x List.mem_cons_self
    have hr := ih (fun y hy => h y (List.mem_cons_of_mem _ hy))
    simp only [decodeAll, decodeEntry]
    cases h1 : decodeInstr c x.1 with
    | none => rw [h1] at hx; cases hx
    | some v =>
      cases h2 : decodeAll c rest with
      | none => rw [h2] at hr; cases hr
      | some vs => simp

/-- an encoded instruction decodes, also after its jump operand was rewritten -/
theorem decode_encoded (c : Code) (k : Nat) (e : CEntry) (hk : c[k]? = some e) (hv : VI e)
    (f : Nat → Nat) : (decodeInstr c ((encodeInstr k e.1).mapTarget f)).isSome = true := by
  obtain ⟨ci, b⟩ := e
  have hdec : WellFormed.decNat (idxArg k).toList = some k := by
    simp [idxArg, decNat_natDec]
  have hother : (decodeInstr c (.other "#" (idxArg k))).isSome = true := by
    simp only [decodeInstr, hdec, hk]
    exact hv
  cases ci <;> first
    | (simp only [encodeInstr, Instr.mapTarget, decodeInstr]; rfl)
    | (simp only [encodeInstr, Instr.mapTarget]; exact hother)

/-- every instruction of the optimised chunk decodes -/
theorem optimized_decodes (c : Code) (hvi : AllC VI c) (r : List Entry)
    (h : optimize (encode c) = .ok r) : ∀ x ∈ r, (decodeInstr c x.1).isSome = true := by
  rw [C09.optimize_ok _ _ h]
  intro x hx
  simp only [List.mem_map] at hx
  obtain ⟨_, ⟨g, hg, rfl⟩, rfl⟩ := hx
  have hp := C09.groups_parsed (encode c)
  have hshape := hp.shapes g hg
  cases hshape with
  | keep e =>
    have he : e ∈ encode c := by
      rw [← hp.concat]
      exact List.mem_flatMap.mpr ⟨_, hg, by simp⟩
    obtain ⟨k, y, hk, rfl⟩ := mem_encode he
    exact decode_encoded c k y hk (hvi y (List.mem_of_getElem? hk)) _
  | path n s taken _ _ => simp [remapTotal, Instr.mapTarget, decodeInstr]
  | write n s w taken _ => simp [remapTotal, Instr.mapTarget, decodeInstr]

/-- **`storeChunk` answers `ok` on every compiled node list** -/
theorem storeChunk_nodes (name : String) (ns : List Node) :
    ∃ ch, storeChunk name (nodesCode 0 none ns) = .ok ch := by
  unfold storeChunk
  have hopt := C09.optimize_no_panic _ (encode_targetsInRange ns)
  rw [hopt]
  simp only
  have hdec := decodeAll_isSome (nodesCode 0 none ns) _
    (optimized_decodes _ (vi_nodes ns 0 none) _ hopt)
  cases hd : decodeAll (nodesCode 0 none ns) _ with
  | none => rw [hd] at hdec; cases hdec
  | some code => exact ⟨_, rfl⟩

/-! ### every chunk of a compiled template is a compiled node list -/

theorem chunks_are_nodes (t : Template) (c : Compiled) (hc : compileTemplate t = .ok c) :
    c.main = nodesCode 0 none t.nodes ∧
    (∀ p ∈ c.blocks, ∃ body, p.2 = nodesCode 0 none body) ∧
    (∀ p ∈ c.components, ∃ body, p.2 = nodesCode 0 none body) := by
  unfold compileTemplate at hc
  split at hc
  · cases hc
  · cases hc
    refine ⟨rfl, ?_, ?_⟩
    · intro p hmem
      have hb := blockChunks_are_nodes t.nodes
      simp only [blockDefs, bodyEvents, List.mem_filterMap] at hmem
      obtain ⟨ev, hev, hsome⟩ := hmem
      have := hb ev hev
      cases ev <;> simp at hsome
      obtain ⟨body, hbody⟩ := this
      exact ⟨body, by rw [← hsome]; exact hbody⟩
    · intro p hmem
      simp only [List.mem_map] at hmem
      obtain ⟨cd, _, rfl⟩ := hmem
      exact ⟨cd.body, rfl⟩

theorem storeNamed_ok (name : String) (l : List (String × Code))
    (h : ∀ p ∈ l, ∃ body, p.2 = nodesCode 0 none body) : ∃ chs, storeNamed name l = .ok chs := by
  induction l with
  | nil => exact ⟨[], rfl⟩
  | cons p rest ih =>
    obtain ⟨n, code⟩ := p
    obtain ⟨body, hb⟩ := h (n, code) List.mem_cons_self
    simp only at hb
    subst hb
    obtain ⟨ch, hch⟩ := storeChunk_nodes name body
    obtain ⟨chs, hchs⟩ := ih (fun q hq => h q (List.mem_cons_of_mem _ hq))
    exact ⟨(n, ch) :: chs, by simp [storeNamed, hch, hchs]⟩

end Tera.Pipeline
