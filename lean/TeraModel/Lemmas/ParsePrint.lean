/-
The Pratt-parser induction: the model parser maps the token sequence of a surface expression that
is parenthesised well enough (`WP`, stated with the parser's own binding powers) back to the AST
it denotes.  Generalised over the minimum binding power, the remaining tokens and the parser
state, as the loop needs.  Lemmas/ParseDoc.lean relates `WP` to the documented levels.
-/
import TeraModel.Lemmas.ParseSteps
namespace Tera.Parser
open Tera Tera.Spec
set_option linter.unusedSimpArgs false

/-- the token `t` that follows the spelling of `s` is not captured by a construct inside `s` -/
def follow (C : Cfg) : S → Option Tok → Prop
  | .var _, t => ¬ chainTok t
  | .binary op _ r, t => stopsTok C (C.bp.binary op).2 t ∧ follow C r t
  | .notIn _ r, t => stopsTok C (C.bp.binary .In).2 t ∧ follow C r t
  | .unary u e, t => stopsTok C (C.bp.unary u) t ∧ follow C e t
  | .ternary _ _ f, t => stopsTok C 0 t ∧ follow C f t
  | .filter _ _, t => t ≠ some .leftParen
  | .test _ _ _, t => t ≠ some .leftParen
  | .attr _ _ _, t => ¬ chainTok t
  | .sub _ _ _, t => ¬ chainTok t
  | .subSlice _ _ _ _ _, t => ¬ chainTok t
  | _, _ => True

/-- the operators on the left spine of `s` are accepted by a loop running at minimum power `m` -/
def fitsLeft (C : Cfg) : S → Nat → Prop
  | .binary op l _, m => ¬ (C.bp.binary op).1 < m ∧ fitsLeft C l m
  | .notIn l _, m => ¬ (C.bp.binary .In).1 < m ∧ fitsLeft C l m
  | .ternary _ t _, m => ¬ C.bp.ternary < m ∧ fitsLeft C t m
  | .filter e _, m => ¬ (C.bp.binary .Pipe).1 < m ∧ fitsLeft C e m
  | .test e _ _, m => ¬ (C.bp.binary .Is).1 < m ∧ fitsLeft C e m
  | .index e _, m => fitsLeft C e m
  | .slice e _ _ _, m => fitsLeft C e m
  | .filterA e _ _, m => ¬ (C.bp.binary .Pipe).1 < m ∧ fitsLeft C e m
  | .testA e _ _ _, m => ¬ (C.bp.binary .Is).1 < m ∧ fitsLeft C e m
  | _, _ => True

mutual
/-- parenthesised well enough for the parser with powers `C.bp` -/
def WP (C : Cfg) : S → Prop
  | .int _ | .float _ | .str _ | .bool _ => True
  | .noneLit kw => kw = "none" ∨ kw = "None" ∨ kw = "null"
  | .var name => name ≠ "none" ∧ name ≠ "None" ∧ name ≠ "null" ∧ name ≠ "not"
  | .paren e => WP C e ∧ follow C e (some .rightParen)
  | .unary u e => WP C e ∧ fitsLeft C e (C.bp.unary u)
      ∧ e.toks.head? ≠ some .minus ∧ e.toks.head? ≠ some (.ident "not")
  | .binary op l r => op ≠ .Is ∧ op ≠ .Pipe ∧ WP C l ∧ WP C r ∧ follow C l (some (opTok op))
      ∧ fitsLeft C r (C.bp.binary op).2 ∧ ¬ (op = .StrConcat ∧ isUnary r.erase = true)
  | .notIn l r => WP C l ∧ WP C r ∧ follow C l (some (.ident "not"))
      ∧ fitsLeft C r (C.bp.binary .In).2
  | .ternary c t f => WP C c ∧ WP C t ∧ WP C f ∧ follow C t (some (.ident "if"))
      ∧ follow C c (some (.ident "else"))
  | .filter e _ => WP C e ∧ follow C e (some .pipe)
  | .test e name neg => WP C e ∧ follow C e (some (.ident "is")) ∧ (neg = false → name ≠ "not")
  | .index e i => WP C e ∧ WP C i ∧ follow C e (some .leftBracket)
      ∧ follow C i (some .rightBracket)
  | .attr e _ _ => e.isChain = true ∧ WP C e ∧ e.chainRoot ≠ "loop"
  | .sub e i _ => e.isChain = true ∧ WP C e ∧ WP C i ∧ follow C i (some .rightBracket)
  | .call name args =>
    (name ≠ "none" ∧ name ≠ "None" ∧ name ≠ "null" ∧ name ≠ "not") ∧ WPArgs C args
      ∧ args.isEnd = false
  | .filterA e _ args => WP C e ∧ follow C e (some .pipe) ∧ WPArgs C args ∧ args.isEnd = false
  | .testA e name neg args => WP C e ∧ follow C e (some (.ident "is"))
      ∧ (neg = false → name ≠ "not") ∧ WPArgs C args ∧ args.isEnd = false
  | .arr items => WPItems C items ∧ items.isEnd = false
  | .mapLit es => WPEntries C es ∧ es.isEnd = false
  | .argEnd => False
  | .itemEnd => False
  | .entryEnd => False
  | .comp e key value target cond =>
    WP C e ∧ value ∉ Gen.RESERVED_NAMES ∧ (∀ k, key = some k → k ∉ Gen.RESERVED_NAMES)
      ∧ WP C target ∧ fitsLeft C target (C.bp.ternary + 1)
      ∧ follow C target (some (if cond.isAbsent then Tok.rightBracket else Tok.ident "if"))
      ∧ (if cond.isAbsent then True else WP C cond ∧ fitsLeft C cond (C.bp.ternary + 1))
  | .slice e a b c => WP C e ∧ follow C e (some .leftBracket)
      ∧ (if a.isAbsent then True else WP C a) ∧ (if b.isAbsent then True else WP C b)
      ∧ (if c.isAbsent then True else WP C c)
  | .subSlice e a b c _ => e.isChain = true ∧ WP C e
      ∧ (if a.isAbsent then True else WP C a) ∧ (if b.isAbsent then True else WP C b)
      ∧ (if c.isAbsent then True else WP C c)
  | .absent => False
  | .entryNil => False
  | .entryKV .. => False
  | .entrySpread .. => False
  | .argNil => False
  | .argCons .. => False
  | .itemNil => False
  | .itemCons .. => False
/-- the same for an argument list -/
def WPArgs (C : Cfg) : S → Prop
  | .argNil => True
  | .argEnd => True
  | .argCons k v rest => WP C v ∧ k ∉ S.argNames rest ∧ WPArgs C rest
  | _ => False
/-- the same for a list of array entries -/
def WPItems (C : Cfg) : S → Prop
  | .itemNil => True
  | .itemEnd => True
  | .itemCons _ x rest => WP C x ∧ WPItems C rest
  | _ => False
/-- the same for a list of map entries -/
def WPEntries (C : Cfg) : S → Prop
  | .entryNil => True
  | .entryEnd => True
  | .entryKV _ v rest => WP C v ∧ WPEntries C rest
  | .entrySpread x rest => WP C x ∧ WPEntries C rest
  | _ => False
end

theorem need_pos (s : S) : 1 ≤ s.need := by
  induction s <;> simp only [S.need, Nat.le_refl] <;> omega

theorem toks_ne_nil (C : Cfg) (s : S) (h : WP C s) : s.toks ≠ [] := by
  cases s <;> simp_all [S.toks, WP]

theorem head_toks_append (s : S) (rest : List Tok) (h : s.toks ≠ []) :
    (s.toks ++ rest).head? = s.toks.head? := by
  cases h' : s.toks with
  | nil => exact absurd h' h
  | cons t ts => simp

theorem head_append_ne (xs ys : List Tok) (t : Tok) (h1 : xs.head? ≠ some t)
    (h2 : ys.head? ≠ some t) : (xs ++ ys).head? ≠ some t := by
  cases xs <;> simp_all

theorem head_toks_ne_colon (s : S) : s.toks.head? ≠ some .colon := by
  induction s with
  | unary op e ih => cases op <;> simp [S.toks, unaryTok]
  | binary op l r ihl ihr =>
    simp only [S.toks]; exact head_append_ne _ _ _ ihl (by cases op <;> simp [opTok])
  | notIn l r ihl ihr => simp only [S.toks]; exact head_append_ne _ _ _ ihl (by simp)
  | ternary c t f ihc iht ihf => simp only [S.toks]; exact head_append_ne _ _ _ iht (by simp)
  | filter e n ih => simp only [S.toks]; exact head_append_ne _ _ _ ih (by simp)
  | test e n g ih => simp only [S.toks]; exact head_append_ne _ _ _ ih (by simp)
  | index e i ihe ihi => simp only [S.toks]; exact head_append_ne _ _ _ ihe (by simp)
  | attr e n o ih => simp only [S.toks]; exact head_append_ne _ _ _ ih (by cases o <;> simp)
  | sub e i o ihe ihi => simp only [S.toks]; exact head_append_ne _ _ _ ihe (by cases o <;> simp)
  | filterA e n a ihe iha => simp only [S.toks]; exact head_append_ne _ _ _ ihe (by simp)
  | testA e n g a ihe iha => simp only [S.toks]; exact head_append_ne _ _ _ ihe (by simp)
  | itemCons sp x r ihx ihr =>
    simp only [S.toks]
    refine head_append_ne _ _ _ (by cases sp <;> simp) (head_append_ne _ _ _ ihx
      (head_append_ne _ _ _ (by cases r <;> simp [S.sepToks]) ihr))
  | entryKV k v r ihv ihr => cases k <;> simp [S.toks, SKey.tok]
  | slice e a b c ihe _ _ _ => simp only [S.toks]; exact head_append_ne _ _ _ ihe (by simp)
  | subSlice e a b c o ihe _ _ _ =>
    simp only [S.toks]; exact head_append_ne _ _ _ ihe (by cases o <;> simp)
  | _ => simp [S.toks]

/-- an expression never starts with a closing bracket, a spread or a separator -/
theorem head_toks_expr (C : Cfg) (s : S) (h : WP C s) (t : Tok)
    (ht : t = .rightBracket ∨ t = .spread ∨ t = .rightBrace ∨ t = .comma ∨ t = .rightParen) :
    s.toks.head? ≠ some t := by
  induction s with
  | unary op e ih => cases op <;> rcases ht with rfl | rfl | rfl | rfl | rfl <;> simp [S.toks, unaryTok]
  | binary op l r ihl ihr =>
    simp only [S.toks]; rw [head_toks_append _ _ (toks_ne_nil C l h.2.2.1)]; exact ihl h.2.2.1
  | notIn l r ihl ihr =>
    simp only [S.toks]; rw [head_toks_append _ _ (toks_ne_nil C l h.1)]; exact ihl h.1
  | ternary c t' f ihc iht ihf =>
    simp only [S.toks]; rw [head_toks_append _ _ (toks_ne_nil C t' h.2.1)]; exact iht h.2.1
  | filter e n ih =>
    simp only [S.toks]; rw [head_toks_append _ _ (toks_ne_nil C e h.1)]; exact ih h.1
  | test e n g ih =>
    simp only [S.toks]; rw [head_toks_append _ _ (toks_ne_nil C e h.1)]; exact ih h.1
  | index e i ihe ihi =>
    simp only [S.toks]; rw [head_toks_append _ _ (toks_ne_nil C e h.1)]; exact ihe h.1
  | attr e n o ih =>
    simp only [S.toks]; rw [head_toks_append _ _ (toks_ne_nil C e h.2.1)]; exact ih h.2.1
  | sub e i o ihe ihi =>
    simp only [S.toks]; rw [head_toks_append _ _ (toks_ne_nil C e h.2.1)]; exact ihe h.2.1
  | filterA e n a ihe iha =>
    simp only [S.toks]; rw [head_toks_append _ _ (toks_ne_nil C e h.1)]; exact ihe h.1
  | testA e n g a ihe iha =>
    simp only [S.toks]; rw [head_toks_append _ _ (toks_ne_nil C e h.1)]; exact ihe h.1
  | argNil => simp [WP] at h
  | argCons => simp [WP] at h
  | itemNil => simp [WP] at h
  | itemCons => simp [WP] at h
  | entryNil => simp [WP] at h
  | entryKV => simp [WP] at h
  | entrySpread => simp [WP] at h
  | absent => simp [WP] at h
  | argEnd => simp [WP] at h
  | itemEnd => simp [WP] at h
  | entryEnd => simp [WP] at h
  | slice e a b c ihe _ _ _ =>
    simp only [S.toks]; rw [head_toks_append _ _ (toks_ne_nil C e h.1)]; exact ihe h.1
  | subSlice e a b c o ihe _ _ _ =>
    simp only [S.toks]; rw [head_toks_append _ _ (toks_ne_nil C e h.2.1)]; exact ihe h.2.1
  | _ => rcases ht with rfl | rfl | rfl | rfl | rfl <;> simp [S.toks]

theorem fitsLeft_zero (C : Cfg) (s : S) : fitsLeft C s 0 := by
  induction s <;> simp_all [fitsLeft]

theorem stopsTok_zero_mono (C : Cfg) (m : Nat) (t : Option Tok) (h : stopsTok C 0 t) :
    stopsTok C m t := by
  cases t with
  | none => trivial
  | some t =>
    simp only [stopsTok] at h ⊢
    cases hc : classify t <;> simp_all

theorem complete {C : Cfg} {rec : Nat → P Expr} {m k : Nat} {e : Expr} {rest : List Tok}
    {a b : Nat} {X : Res Expr}
    (h : ∃ n, k + 1 ≤ n ∧ X = prattLoop C rec m n e false ⟨rest, a, b⟩)
    (hs : stopsTok C m rest.head?) : X = .ok e ⟨rest, a, b⟩ := by
  obtain ⟨n, hn, hX⟩ := h
  obtain ⟨n', rfl⟩ : ∃ n', n = n' + 1 := ⟨n - 1, by omega⟩
  rw [hX, prattLoop_stop _ _ _ _ _ _ _ _ _ hs]

theorem inner_succ (C : Cfg) (b m : Nat) :
    innerParseExpression C (b + 1) m = parseExprBp C (innerParseExpression C b) m := rfl

/-- what the Pratt-parser induction establishes for one surface expression: the parse of its
tokens is the loop continuing with its AST as left-hand side on the remaining tokens -/
def LoopProp (C : Cfg) (s : S) : Prop :=
  ∀ (b m : Nat) (rest : List Tok) (ad br : Nat),
    WP C s → fitsLeft C s m → follow C s rest.head? → s.need ≤ b →
    (br + s.bneed ≤ C.maxBrackets ∧ ad + s.adneed ≤ C.maxArray) →
    ∃ n, rest.length + 1 ≤ n ∧
      innerParseExpression C b m ⟨s.toks ++ rest, ad, br⟩
        = prattLoop C (innerParseExpression C (b - 1)) m n s.erase false ⟨rest, ad, br⟩

/-- ... and for an identifier chain: the prefix parse of its tokens is the chain loop of
`parse_ident` continuing with its AST on the remaining tokens -/
def ChainProp (C : Cfg) (s : S) : Prop :=
  s.isChain = true → ∀ (b : Nat) (rest : List Tok) (ad br : Nat),
    WP C s → rest.head? ≠ some .leftParen → s.need ≤ b + 1 →
    (br + s.bneed ≤ C.maxBrackets ∧ ad + s.adneed ≤ C.maxArray) →
    ∃ n, rest.length + 1 ≤ n ∧
      parsePrefix C (innerParseExpression C b) ⟨s.toks ++ rest, ad, br⟩
        = identChain C (innerParseExpression C b) s.chainRoot n s.erase ⟨rest, ad, br⟩

theorem loop_of_chain {C : Cfg} {s : S} (hq : ChainProp C s) (hc : s.isChain = true)
    (hfl : ∀ t, follow C s t ↔ ¬ chainTok t) : LoopProp C s := by
  intro b m rest ad br hwp _ hfol hneed hbr
  obtain ⟨b', rfl⟩ : ∃ b', b = b' + 1 := ⟨b - 1, by have := need_pos s; omega⟩
  have hnc : ¬ chainTok rest.head? := (hfl _).mp hfol
  obtain ⟨n, hn, h⟩ := hq hc b' rest ad br hwp (by intro h; exact hnc (Or.inl h)) hneed hbr
  obtain ⟨n', rfl⟩ : ∃ n', n = n' + 1 := ⟨n - 1, by omega⟩
  rw [chain_stop _ _ _ _ _ _ _ _ hnc] at h
  exact ⟨rest.length + 1, Nat.le_refl _, parseExprBp_of_prefix _ _ _ _ _ _ _ _ h⟩

/-- insert the arguments of a list, in source order, into a name-sorted accumulator -/
def insertAll (acc : List (String × Expr)) (l : List (String × Expr)) : List (String × Expr) :=
  l.foldl (fun acc (n, e) => Expr.insertKwarg n e acc) acc

theorem sortKwargs_eq (l : List (String × Expr)) : Expr.sortKwargs l = insertAll [] l := rfl

theorem insertKwarg_isEmpty (k : String) (v : Expr) (acc : List (String × Expr)) :
    (Expr.insertKwarg k v acc).isEmpty = false := by
  cases acc with
  | nil => simp [Expr.insertKwarg]
  | cons p rest =>
    obtain ⟨n, x⟩ := p
    simp only [Expr.insertKwarg]
    split
    · simp
    · split <;> simp

theorem any_insertKwarg (k k' : String) (v : Expr) (acc : List (String × Expr)) (hne : k ≠ k')
    (h : acc.any (fun p => p.1 == k') = false) :
    (Expr.insertKwarg k v acc).any (fun p => p.1 == k') = false := by
  induction acc with
  | nil => simp [Expr.insertKwarg, hne]
  | cons p rest ih =>
    obtain ⟨n, x⟩ := p
    simp only [List.any_cons, Bool.or_eq_false_iff] at h
    simp only [Expr.insertKwarg]
    split
    · simp [hne, h.1, h.2]
    · split
      · simp [hne, h.2]
      · simp [h.1, ih h.2]

theorem argCount_le (s : S) : (S.argNames s).length ≤ s.toks.length := by
  induction s <;> simp_all [S.argNames, S.toks] <;> omega

/-- ... and for an argument list: the loop of `parse_kwargs` consumes it and inserts its
arguments into the accumulator -/
def ArgsProp (C : Cfg) (s : S) : Prop :=
  ∀ (b : Nat) (acc : List (String × Expr)) (n : Nat) (rest : List Tok) (ad br : Nat),
    WPArgs C s → (s.isEnd = true → acc.isEmpty = false) →
    (∀ k ∈ S.argNames s, acc.any (fun p => p.1 == k) = false) →
    (S.argNames s).length + 1 ≤ n → s.need ≤ b + 1 → (br + s.bneed ≤ C.maxBrackets ∧ ad + s.adneed ≤ C.maxArray) →
    kwargsLoop (innerParseExpression C b) n acc
        ⟨(if acc.isEmpty then [] else S.sepToks s) ++ (s.toks ++ .rightParen :: rest), ad, br⟩
      = .ok (insertAll acc (S.eraseArgs s)) ⟨.rightParen :: rest, ad, br⟩

/-- closing tokens (and anything else the loop does not know) are never captured -/
theorem follow_closer {C : Cfg} (t : Tok) (hcl : classify t = .other) (hc : ¬ chainTok (some t))
    (hp : t ≠ .leftParen) (s : S) : follow C s (some t) := by
  have hs : ∀ m, stopsTok C m (some t) := by intro m; simp [stopsTok, hcl]
  induction s with
  | var n => exact hc
  | binary op l r ihl ihr => exact ⟨hs _, ihr⟩
  | notIn l r ihl ihr => exact ⟨hs _, ihr⟩
  | unary u e ih => exact ⟨hs _, ih⟩
  | ternary c t' f ihc iht ihf => exact ⟨hs _, ihf⟩
  | filter e n ih => simpa [follow] using hp
  | test e n g ih => simpa [follow] using hp
  | attr e n o ih => exact hc
  | sub e i o ihe ihi => exact hc
  | _ => trivial

theorem classify_comma : classify .comma = .other := by decide

/-- what follows a value inside an argument list is `,` or `)` -/
theorem args_tail_head {C : Cfg} (r : S) (h : WPArgs C r) (rest : List Tok) :
    ∃ t ts, S.sepToks r ++ (r.toks ++ Tok.rightParen :: rest) = t :: ts
      ∧ (t = .comma ∨ t = .rightParen) := by
  cases r <;> simp_all [WPArgs, S.sepToks, S.toks]

/-- a complete argument list between its parentheses -/
theorem kwargs_of_args {C : Cfg} {args : S} (h : ArgsProp C args) (b : Nat) (rest : List Tok)
    (ad br : Nat) (hw : WPArgs C args) (hend : args.isEnd = false) (hneed : args.need ≤ b + 1)
    (hbr : br + args.bneed ≤ C.maxBrackets ∧ ad + args.adneed ≤ C.maxArray) :
    parseKwargs (innerParseExpression C b) ⟨.leftParen :: (args.toks ++ .rightParen :: rest), ad, br⟩
      = .ok (Expr.sortKwargs (S.eraseArgs args)) ⟨rest, ad, br⟩ := by
  apply parseKwargs_of_loop
  have := h b [] ((args.toks ++ Tok.rightParen :: rest).length + 1) rest ad br hw
    (by intro h'; rw [hend] at h'; cases h') (by simp)
    (by have := argCount_le args; simp; omega) hneed hbr
  simpa [sortKwargs_eq] using this

def itemCount : S → Nat
  | .itemCons _ _ r => 1 + itemCount r
  | _ => 0

theorem itemCount_le {C : Cfg} (s : S) (h : WPItems C s) : itemCount s ≤ s.toks.length := by
  induction s <;> simp_all [itemCount, S.toks, WPItems]
  rename_i sp x r ihx ihr
  have := toks_ne_nil C x h.1
  have : 1 ≤ x.toks.length := by
    cases hx : x.toks with
    | nil => exact absurd hx this
    | cons _ _ => simp
  omega

/-- ... and for a list of array entries: the loop of `parse_array` consumes it, appends its
entries to the accumulator and keeps track of `literal_only` -/
def ItemsProp (C : Cfg) (s : S) : Prop :=
  ∀ (b : Nat) (acc : List ArrayEntry) (lit : Bool) (n : Nat) (rest : List Tok) (ad br : Nat),
    WPItems C s → (s.isEnd = true → acc.isEmpty = false) → itemCount s + 1 ≤ n → s.need ≤ b + 1 →
    (br + s.bneed ≤ C.maxBrackets ∧ ad + s.adneed ≤ C.maxArray) →
    arrayLoop C (innerParseExpression C b) n acc lit
        ⟨(if acc.isEmpty then [] else S.sepToks s) ++ (s.toks ++ .rightBracket :: rest), ad, br⟩
      = .ok (.items (acc ++ S.eraseItems s) (lit && litOf (S.eraseItems s)))
          ⟨.rightBracket :: rest, ad, br⟩

/-- what follows an entry inside an array literal is `,` or `]` -/
theorem items_tail_head {C : Cfg} (r : S) (h : WPItems C r) (rest : List Tok) :
    ∃ t ts, S.sepToks r ++ (r.toks ++ Tok.rightBracket :: rest) = t :: ts
      ∧ (t = .comma ∨ t = .rightBracket) := by
  cases r <;> simp_all [WPItems, S.sepToks, S.toks]

def entryCount : S → Nat
  | .entryKV _ _ r => 1 + entryCount r
  | .entrySpread _ r => 1 + entryCount r
  | _ => 0

theorem entryCount_le (s : S) : entryCount s ≤ s.toks.length := by
  induction s <;> simp_all [entryCount, S.toks] <;> omega

/-- ... and for a list of map entries: the loop of `parse_map` -/
def EntriesProp (C : Cfg) (s : S) : Prop :=
  ∀ (b : Nat) (acc : List MapEntry) (lit : Bool) (n : Nat) (rest : List Tok) (ad br : Nat),
    WPEntries C s → (s.isEnd = true → acc.isEmpty = false) → entryCount s + 1 ≤ n →
    s.need ≤ b + 1 →
    (br + s.bneed ≤ C.maxBrackets ∧ ad + s.adneed ≤ C.maxArray) →
    mapLoop (innerParseExpression C b) n acc lit
        ⟨(if acc.isEmpty then [] else S.sepToks s) ++ (s.toks ++ .rightBrace :: rest), ad, br⟩
      = .ok (acc ++ S.eraseEntries s, lit && S.mapLitOf (S.eraseEntries s))
          ⟨.rightBrace :: rest, ad, br⟩

/-- what follows an entry inside a map literal is `,` or `}` -/
theorem entries_tail_head {C : Cfg} (r : S) (h : WPEntries C r) (rest : List Tok) :
    ∃ t ts, S.sepToks r ++ (r.toks ++ Tok.rightBrace :: rest) = t :: ts
      ∧ (t = .comma ∨ t = .rightBrace) := by
  cases r <;> simp_all [WPEntries, S.sepToks, S.toks]

theorem classify_rightBrace : classify .rightBrace = .other := by decide

theorem classify_colon : classify .colon = .other := by decide

theorem absent_of_isAbsent (p : S) (h : p.isAbsent = true) : p = .absent := by
  cases p <;> simp_all [S.isAbsent]

/-- the bracketed part of a slice, for parts that satisfy the induction statement -/
theorem slice_parsed {C : Cfg} (E : Expr) (a b c : S) (o : Bool) (b' : Nat) (rest : List Tok)
    (ad br : Nat) (iha : LoopProp C a) (ihb : LoopProp C b) (ihc : LoopProp C c)
    (hwa : if a.isAbsent then True else WP C a) (hwb : if b.isAbsent then True else WP C b)
    (hwc : if c.isAbsent then True else WP C c)
    (hna : a.isAbsent = false → a.need ≤ b') (hnb : b.isAbsent = false → b.need ≤ b')
    (hnc : c.isAbsent = false → c.need ≤ b')
    (hbr : br + 1 + max a.bneed (max b.bneed c.bneed) ≤ C.maxBrackets)
    (had : ad + max a.adneed (max b.adneed c.adneed) ≤ C.maxArray) :
    parseSubscript C (innerParseExpression C b') E
        ⟨(if o then Tok.questionMarkLeftBracket else Tok.leftBracket) :: (a.toks ++ .colon
          :: (b.toks ++ ((if c.isAbsent then [] else [Tok.colon]) ++ (c.toks ++ .rightBracket :: rest)))),
          ad, br⟩
      = .ok (.slice E (if a.isAbsent then none else some a.erase)
          (if b.isAbsent then none else some b.erase) (if c.isAbsent then none else some c.erase) o)
          ⟨rest, ad, br⟩ := by
  have hcol : ∀ s : S, follow C s (some .colon) :=
    follow_closer _ classify_colon (by simp [chainTok]) (by simp)
  have hrb : ∀ s : S, follow C s (some .rightBracket) :=
    follow_closer _ classify_rightBracket (by simp [chainTok]) (by simp)
  have key := subscript_slice C (innerParseExpression C b') E o
    (if a.isAbsent then none else some a.erase) (if b.isAbsent then none else some b.erase)
    (if c.isAbsent then none else some c.erase)
    (a.toks ++ .colon :: (b.toks ++ ((if c.isAbsent then [] else [Tok.colon])
      ++ (c.toks ++ .rightBracket :: rest))))
    (b.toks ++ ((if c.isAbsent then [] else [Tok.colon]) ++ (c.toks ++ .rightBracket :: rest)))
    ((if c.isAbsent then [] else [Tok.colon]) ++ (c.toks ++ .rightBracket :: rest))
    rest ad br ad (br + 1) ad (br + 1) ad (br + 1) (by omega)
  simp only [Nat.add_sub_cancel] at key
  apply key
  · -- start
    cases hca : a.isAbsent
    · simp only [hca, Bool.false_eq_true, if_false] at hwa ⊢
      refine ⟨?_, complete (iha b' 0 _ ad (br + 1) hwa (fitsLeft_zero C a) (by simpa using hcol a)
        (hna hca) (by omega)) (by simp [stopsTok, classify_colon])⟩
      rw [head_toks_append _ _ (toks_ne_nil C a hwa)]
      exact head_toks_ne_colon a
    · have := absent_of_isAbsent a hca
      subst this
      simp [S.toks]
  · -- stop
    have hhead : ((if c.isAbsent then [] else [Tok.colon]) ++ (c.toks ++ Tok.rightBracket :: rest)).head?
        = some (if c.isAbsent then Tok.rightBracket else Tok.colon) := by
      cases hcc : c.isAbsent
      · simp
      · have := absent_of_isAbsent c hcc
        subst this
        simp [S.toks]
    cases hcb : b.isAbsent
    · simp only [hcb, Bool.false_eq_true, if_false] at hwb ⊢
      refine ⟨?_, ?_, complete (ihb b' 0 _ ad (br + 1) hwb (fitsLeft_zero C b)
        (by rw [hhead]; cases c.isAbsent
            · simpa using hcol b
            · simpa using hrb b)
        (hnb hcb) (by omega))
        (by rw [hhead]; cases c.isAbsent <;> simp [stopsTok, classify_colon, classify_rightBracket])⟩
      · rw [head_toks_append _ _ (toks_ne_nil C b hwb)]
        exact head_toks_ne_colon b
      · rw [head_toks_append _ _ (toks_ne_nil C b hwb)]
        exact head_toks_expr C b hwb _ (Or.inl rfl)
    · have := absent_of_isAbsent b hcb
      subst this
      simp only [S.toks, List.nil_append, if_true]
      rw [hhead]
      cases c.isAbsent <;> simp
  · -- step
    cases hcc : c.isAbsent
    · simp only [hcc, Bool.false_eq_true, if_false] at hwc ⊢
      exact ⟨c.toks ++ .rightBracket :: rest, by simp,
        complete (ihc b' 0 _ ad (br + 1) hwc (fitsLeft_zero C c) (by simpa using hrb c) (hnc hcc)
          (by omega)) (by simp [stopsTok, classify_rightBracket])⟩
    · have := absent_of_isAbsent c hcc
      subst this
      simp [S.toks]

/-- the list-shaped properties hold vacuously for what is not a list -/
macro "vac_lists" : tactic =>
  `(tactic| exact ⟨by intro _ _ _ _ _ _ h; simp [WPArgs] at h,
      by intro _ _ _ _ _ _ _ h; simp [WPItems] at h,
      by intro _ _ _ _ _ _ _ h; simp [WPEntries] at h⟩)

/-- The Pratt-parser induction. -/
theorem parse_both (C : Cfg) (s : S) :
    LoopProp C s ∧ ChainProp C s ∧ ArgsProp C s ∧ ItemsProp C s ∧ EntriesProp C s := by
  induction s with
  | int v =>
    refine ⟨?_, by intro h; simp [S.isChain] at h, by vac_lists⟩
    intro b m rest ad br _ _ _ hneed _
    obtain ⟨b', rfl⟩ : ∃ b', b = b' + 1 := ⟨b - 1, by simp [S.need] at hneed; omega⟩
    exact ⟨rest.length + 1, Nat.le_refl _, parseExprBp_of_prefix _ _ _ _ _ _ _ _ (prefix_int ..)⟩
  | float v =>
    refine ⟨?_, by intro h; simp [S.isChain] at h, by vac_lists⟩
    intro b m rest ad br _ _ _ hneed _
    obtain ⟨b', rfl⟩ : ∃ b', b = b' + 1 := ⟨b - 1, by simp [S.need] at hneed; omega⟩
    exact ⟨rest.length + 1, Nat.le_refl _, parseExprBp_of_prefix _ _ _ _ _ _ _ _ (prefix_float ..)⟩
  | str v =>
    refine ⟨?_, by intro h; simp [S.isChain] at h, by vac_lists⟩
    intro b m rest ad br _ _ _ hneed _
    obtain ⟨b', rfl⟩ : ∃ b', b = b' + 1 := ⟨b - 1, by simp [S.need] at hneed; omega⟩
    exact ⟨rest.length + 1, Nat.le_refl _, parseExprBp_of_prefix _ _ _ _ _ _ _ _ (prefix_str ..)⟩
  | bool v =>
    refine ⟨?_, by intro h; simp [S.isChain] at h, by vac_lists⟩
    intro b m rest ad br _ _ _ hneed _
    obtain ⟨b', rfl⟩ : ∃ b', b = b' + 1 := ⟨b - 1, by simp [S.need] at hneed; omega⟩
    exact ⟨rest.length + 1, Nat.le_refl _, parseExprBp_of_prefix _ _ _ _ _ _ _ _ (prefix_bool ..)⟩
  | noneLit kw =>
    refine ⟨?_, by intro h; simp [S.isChain] at h, by vac_lists⟩
    intro b m rest ad br hwp _ _ hneed _
    obtain ⟨b', rfl⟩ : ∃ b', b = b' + 1 := ⟨b - 1, by simp [S.need] at hneed; omega⟩
    exact ⟨rest.length + 1, Nat.le_refl _,
      parseExprBp_of_prefix _ _ _ _ _ _ _ _ (prefix_none _ _ _ _ _ _ hwp)⟩
  | var name =>
    have hq : ChainProp C (.var name) := by
      intro _ b rest ad br hwp hp _ _
      exact ⟨rest.length + 1, Nat.le_refl _, prefix_ident_chain _ _ _ _ _ _ hwp hp⟩
    exact ⟨loop_of_chain hq rfl (fun _ => Iff.rfl), hq, by vac_lists⟩
  | paren e ih =>
    refine ⟨?_, by intro h; simp [S.isChain] at h, by vac_lists⟩
    have ih : LoopProp C _ := ih.1
    intro b m rest ad br hwp _ _ hneed hbr
    obtain ⟨b', rfl⟩ : ∃ b', b = b' + 1 := ⟨b - 1, by have := need_pos e; simp [S.need] at hneed; omega⟩
    obtain ⟨hwe, hfe⟩ := hwp
    simp only [S.need] at hneed
    simp only [S.bneed, S.adneed] at hbr
    have h1 := ih b' 0 (.rightParen :: rest) ad br hwe (fitsLeft_zero C e) hfe (by omega) hbr
    have h2 := complete h1 (by simp [stopsTok, classify_rightParen])
    refine ⟨rest.length + 1, Nat.le_refl _, ?_⟩
    have : (S.paren e).toks ++ rest = .leftParen :: (e.toks ++ .rightParen :: rest) := by
      simp [S.toks]
    rw [this, inner_succ]
    exact parseExprBp_of_prefix _ _ _ _ _ _ _ _ (prefix_paren _ _ _ _ _ _ _ _ _ h2)
  | unary op e ih =>
    refine ⟨?_, by intro h; simp [S.isChain] at h, by vac_lists⟩
    have ih : LoopProp C _ := ih.1
    intro b m rest ad br hwp _ hfol hneed hbr
    obtain ⟨b', rfl⟩ : ∃ b', b = b' + 1 := ⟨b - 1, by have := need_pos e; simp [S.need] at hneed; omega⟩
    obtain ⟨hwe, hfit, hh1, hh2⟩ := hwp
    obtain ⟨hstop, hfe⟩ := hfol
    simp only [S.need] at hneed
    simp only [S.bneed, S.adneed] at hbr
    have h1 := ih b' (C.bp.unary op) rest ad br hwe hfit hfe (by omega) hbr
    have h2 := complete h1 hstop
    refine ⟨rest.length + 1, Nat.le_refl _, ?_⟩
    have : (S.unary op e).toks ++ rest = unaryTok op :: (e.toks ++ rest) := by simp [S.toks]
    rw [this, inner_succ]
    exact parseExprBp_of_prefix _ _ _ _ _ _ _ _
      (prefix_unary _ _ _ _ _ _ _ _ (by rw [head_toks_append _ _ (toks_ne_nil C e hwe)]; exact hh1)
        (by rw [head_toks_append _ _ (toks_ne_nil C e hwe)]; exact hh2) h2)
  | binary op l r ihl ihr =>
    refine ⟨?_, by intro h; simp [S.isChain] at h, by vac_lists⟩
    have ihl : LoopProp C _ := ihl.1
    have ihr : LoopProp C _ := ihr.1
    intro b m rest ad br hwp hfit hfol hneed hbr
    obtain ⟨b', rfl⟩ : ∃ b', b = b' + 1 := ⟨b - 1, by have := need_pos l; simp [S.need] at hneed; omega⟩
    obtain ⟨hIs, hPipe, hwl, hwr, hfl, hfr, hcc⟩ := hwp
    obtain ⟨hm, hfitl⟩ := hfit
    obtain ⟨hstop, hfolr⟩ := hfol
    simp only [S.need] at hneed
    simp only [S.bneed, S.adneed] at hbr
    have e1 : (S.binary op l r).toks ++ rest = l.toks ++ (opTok op :: (r.toks ++ rest)) := by
      simp [S.toks]
    obtain ⟨n1, hn1, hl⟩ := ihl (b' + 1) m (opTok op :: (r.toks ++ rest)) ad br hwl hfitl hfl
      (by omega) (by omega)
    have hr := complete (ihr b' (C.bp.binary op).2 rest ad br hwr hfr hfolr (by omega) (by omega)) hstop
    obtain ⟨n1', rfl⟩ : ∃ n', n1 = n' + 1 := ⟨n1 - 1, by simp at hn1; omega⟩
    refine ⟨n1', by simp at hn1; omega, ?_⟩
    rw [e1, hl]
    simp only [Nat.add_sub_cancel]
    exact loop_binop C _ m n1' _ _ op _ ad br _ hIs hPipe hm hr hcc
  | notIn l r ihl ihr =>
    refine ⟨?_, by intro h; simp [S.isChain] at h, by vac_lists⟩
    have ihl : LoopProp C _ := ihl.1
    have ihr : LoopProp C _ := ihr.1
    intro b m rest ad br hwp hfit hfol hneed hbr
    obtain ⟨b', rfl⟩ : ∃ b', b = b' + 1 := ⟨b - 1, by have := need_pos l; simp [S.need] at hneed; omega⟩
    obtain ⟨hwl, hwr, hfl, hfr⟩ := hwp
    obtain ⟨hm, hfitl⟩ := hfit
    obtain ⟨hstop, hfolr⟩ := hfol
    simp only [S.need] at hneed
    simp only [S.bneed, S.adneed] at hbr
    have e1 : (S.notIn l r).toks ++ rest
        = l.toks ++ (.ident "not" :: .ident "in" :: (r.toks ++ rest)) := by simp [S.toks]
    obtain ⟨n1, hn1, hl⟩ := ihl (b' + 1) m (.ident "not" :: .ident "in" :: (r.toks ++ rest)) ad br
      hwl hfitl hfl (by omega) (by omega)
    have hr := complete (ihr b' (C.bp.binary .In).2 rest ad br hwr hfr hfolr (by omega) (by omega)) hstop
    obtain ⟨n1', rfl⟩ : ∃ n', n1 = n' + 2 := ⟨n1 - 2, by simp at hn1; omega⟩
    refine ⟨n1', by simp at hn1; omega, ?_⟩
    rw [e1, hl]
    simp only [Nat.add_sub_cancel]
    exact loop_notIn C _ m n1' _ _ _ ad br _ hm hr
  | ternary c t f ihc iht ihf =>
    refine ⟨?_, by intro h; simp [S.isChain] at h, by vac_lists⟩
    have ihc : LoopProp C _ := ihc.1
    have iht : LoopProp C _ := iht.1
    have ihf : LoopProp C _ := ihf.1
    intro b m rest ad br hwp hfit hfol hneed hbr
    obtain ⟨b', rfl⟩ : ∃ b', b = b' + 1 := ⟨b - 1, by have := need_pos t; simp [S.need] at hneed; omega⟩
    obtain ⟨hwc, hwt, hwf, hft, hfc⟩ := hwp
    obtain ⟨hm, hfitt⟩ := hfit
    obtain ⟨hstop, hfolf⟩ := hfol
    simp only [S.need] at hneed
    simp only [S.bneed, S.adneed] at hbr
    have e1 : (S.ternary c t f).toks ++ rest
        = t.toks ++ (.ident "if" :: (c.toks ++ (.ident "else" :: (f.toks ++ rest)))) := by
      simp [S.toks]
    obtain ⟨n1, hn1, hl⟩ := iht (b' + 1) m (.ident "if" :: (c.toks ++ (.ident "else" :: (f.toks ++ rest))))
      ad br hwt hfitt hft (by omega) (by omega)
    have hc := complete (ihc b' 0 (.ident "else" :: (f.toks ++ rest)) ad br hwc (fitsLeft_zero C c) hfc
      (by omega) (by omega)) (by simp [stopsTok, classify_else])
    have hf := complete (ihf b' 0 rest ad br hwf (fitsLeft_zero C f) hfolf (by omega) (by omega)) hstop
    obtain ⟨n1', rfl⟩ : ∃ n', n1 = n' + 1 := ⟨n1 - 1, by simp at hn1; omega⟩
    refine ⟨rest.length + 1, Nat.le_refl _, ?_⟩
    rw [e1, hl]
    simp only [Nat.add_sub_cancel]
    rw [loop_ternary C _ m n1' _ _ _ false _ _ ad br ad br _ hm hc hf]
    rw [prattLoop_stop _ _ _ _ _ _ _ _ _ (stopsTok_zero_mono C m _ hstop)]
    rfl
  | filter e name ih =>
    refine ⟨?_, by intro h; simp [S.isChain] at h, by vac_lists⟩
    have ih : LoopProp C _ := ih.1
    intro b m rest ad br hwp hfit hfol hneed hbr
    obtain ⟨hwe, hfe⟩ := hwp
    obtain ⟨hm, hfite⟩ := hfit
    simp only [S.need] at hneed
    simp only [S.bneed, S.adneed] at hbr
    have e1 : (S.filter e name).toks ++ rest = e.toks ++ (.pipe :: .ident name :: rest) := by
      simp [S.toks]
    obtain ⟨n1, hn1, hl⟩ := ih b m (.pipe :: .ident name :: rest) ad br hwe hfite hfe hneed hbr
    obtain ⟨n1', rfl⟩ : ∃ n', n1 = n' + 1 := ⟨n1 - 1, by simp at hn1; omega⟩
    refine ⟨n1', by simp at hn1; omega, ?_⟩
    rw [e1, hl]
    exact loop_filter C _ m n1' _ name rest ad br hm hfol
  | test e name neg ih =>
    refine ⟨?_, by intro h; simp [S.isChain] at h, by vac_lists⟩
    have ih : LoopProp C _ := ih.1
    intro b m rest ad br hwp hfit hfol hneed hbr
    obtain ⟨hwe, hfe, hname⟩ := hwp
    obtain ⟨hm, hfite⟩ := hfit
    simp only [S.need] at hneed
    simp only [S.bneed, S.adneed] at hbr
    cases neg with
    | false =>
      have e1 : (S.test e name false).toks ++ rest = e.toks ++ (.ident "is" :: .ident name :: rest) := by
        simp [S.toks]
      obtain ⟨n1, hn1, hl⟩ := ih b m (.ident "is" :: .ident name :: rest) ad br hwe hfite hfe hneed hbr
      obtain ⟨n1', rfl⟩ : ∃ n', n1 = n' + 1 := ⟨n1 - 1, by simp at hn1; omega⟩
      refine ⟨n1', by simp at hn1; omega, ?_⟩
      rw [e1, hl]
      simpa [S.erase] using loop_test C _ m n1' _ name rest ad br hm hfol (hname rfl)
    | true =>
      have e1 : (S.test e name true).toks ++ rest
          = e.toks ++ (.ident "is" :: .ident "not" :: .ident name :: rest) := by simp [S.toks]
      obtain ⟨n1, hn1, hl⟩ := ih b m (.ident "is" :: .ident "not" :: .ident name :: rest) ad br hwe hfite hfe hneed hbr
      obtain ⟨n1', rfl⟩ : ∃ n', n1 = n' + 1 := ⟨n1 - 1, by simp at hn1; omega⟩
      refine ⟨n1', by simp at hn1; omega, ?_⟩
      rw [e1, hl]
      simpa [S.erase] using loop_test_not C _ m n1' _ name rest ad br hm hfol
  | index e i ihe ihi =>
    refine ⟨?_, by intro h; simp [S.isChain] at h, by vac_lists⟩
    have ihe : LoopProp C _ := ihe.1
    have ihi : LoopProp C _ := ihi.1
    intro b m rest ad br hwp hfit hfol hneed hbr
    obtain ⟨b', rfl⟩ : ∃ b', b = b' + 1 := ⟨b - 1, by have := need_pos e; simp [S.need] at hneed; omega⟩
    obtain ⟨hwe, hwi, hfe, hfi⟩ := hwp
    simp only [S.need] at hneed
    simp only [S.bneed, S.adneed] at hbr
    simp only [fitsLeft] at hfit
    have e1 : (S.index e i).toks ++ rest
        = e.toks ++ (.leftBracket :: (i.toks ++ (.rightBracket :: rest))) := by simp [S.toks]
    obtain ⟨n1, hn1, hl⟩ := ihe (b' + 1) m (.leftBracket :: (i.toks ++ (.rightBracket :: rest))) ad br
      hwe hfit hfe (by omega) (by omega)
    have hi := complete (ihi b' 0 (.rightBracket :: rest) ad (br + 1) hwi (fitsLeft_zero C i) hfi
      (by omega) (by omega)) (by simp [stopsTok, classify_rightBracket])
    obtain ⟨n1', rfl⟩ : ∃ n', n1 = n' + 1 := ⟨n1 - 1, by simp at hn1; omega⟩
    refine ⟨n1', by simp at hn1; omega, ?_⟩
    rw [e1, hl]
    simp only [Nat.add_sub_cancel]
    have := loop_index C (innerParseExpression C b') m n1' e.erase i.erase false
      (i.toks ++ (.rightBracket :: rest)) rest ad br ad (br + 1) (by omega)
      (head_append_ne _ _ _ (head_toks_ne_colon i) (by simp)) hi
    simpa [S.erase] using this

  | attr e nm o ih =>
    have hq : ChainProp C (.attr e nm o) := by
      intro _ b rest ad br hwp hp hneed hbr
      obtain ⟨hce, hwe, hroot⟩ := hwp
      simp only [S.need] at hneed
      simp only [S.bneed, S.adneed] at hbr
      have e1 : (S.attr e nm o).toks ++ rest
          = e.toks ++ ((if o then Tok.questionMarkDot else Tok.dot) :: .ident nm :: rest) := by
        simp [S.toks]
      obtain ⟨n1, hn1, hl⟩ := ih.2.1 hce b
        ((if o then Tok.questionMarkDot else Tok.dot) :: .ident nm :: rest) ad br hwe
        (by cases o <;> simp) hneed hbr
      obtain ⟨n1', rfl⟩ : ∃ n', n1 = n' + 1 := ⟨n1 - 1, by simp at hn1; omega⟩
      refine ⟨n1', by simp at hn1; omega, ?_⟩
      rw [e1, hl]
      simpa [S.erase, S.chainRoot] using chain_attr C _ e.chainRoot nm n1' e.erase o rest ad br hroot
    refine ⟨?_, hq, by vac_lists⟩
    intro b m rest ad br hwp hfit hfol hneed hbr
    exact loop_of_chain hq (by simpa [S.isChain] using hwp.1) (fun _ => Iff.rfl)
      b m rest ad br hwp hfit hfol hneed hbr
  | sub e i o ihe ihi =>
    have hq : ChainProp C (.sub e i o) := by
      intro _ b rest ad br hwp hp hneed hbr
      obtain ⟨hce, hwe, hwi, hfi⟩ := hwp
      simp only [S.need] at hneed
      simp only [S.bneed, S.adneed] at hbr
      have e1 : (S.sub e i o).toks ++ rest
          = e.toks ++ ((if o then Tok.questionMarkLeftBracket else Tok.leftBracket)
              :: (i.toks ++ (.rightBracket :: rest))) := by
        simp [S.toks]
      obtain ⟨n1, hn1, hl⟩ := ihe.2.1 hce b
        ((if o then Tok.questionMarkLeftBracket else Tok.leftBracket)
              :: (i.toks ++ (.rightBracket :: rest))) ad br hwe
        (by cases o <;> simp) (by omega) (by omega)
      have hi := complete (ihi.1 b 0 (.rightBracket :: rest) ad (br + 1) hwi (fitsLeft_zero C i) hfi
        (by omega) (by omega)) (by simp [stopsTok, classify_rightBracket])
      obtain ⟨n1', rfl⟩ : ∃ n', n1 = n' + 1 := ⟨n1 - 1, by simp at hn1; omega⟩
      refine ⟨n1', by simp at hn1; omega, ?_⟩
      rw [e1, hl]
      have := chain_sub C (innerParseExpression C b) e.chainRoot n1' e.erase i.erase o
        (i.toks ++ (.rightBracket :: rest)) rest ad br ad (br + 1) (by omega)
        (head_append_ne _ _ _ (head_toks_ne_colon i) (by simp)) hi
      simpa [S.erase, S.chainRoot] using this
    refine ⟨?_, hq, by vac_lists⟩
    intro b m rest ad br hwp hfit hfol hneed hbr
    exact loop_of_chain hq (by simpa [S.isChain] using hwp.1) (fun _ => Iff.rfl)
      b m rest ad br hwp hfit hfol hneed hbr

  | argNil =>
    refine ⟨by intro _ _ _ _ _ h; simp [WP] at h, by intro h; simp [S.isChain] at h, ?_,
      by intro _ _ _ _ _ _ _ h; simp [WPItems] at h,
      by intro _ _ _ _ _ _ _ h; simp [WPEntries] at h⟩
    intro b acc n rest ad br _ _ _ hn _ _
    obtain ⟨n', rfl⟩ : ∃ n', n = n' + 1 := ⟨n - 1, by omega⟩
    have : (if acc.isEmpty then [] else S.sepToks S.argNil) ++ (S.argNil.toks ++ Tok.rightParen :: rest)
        = Tok.rightParen :: rest := by simp [S.sepToks, S.toks]
    rw [this, kwargs_stop]
    simp [insertAll, S.eraseArgs]
  | argCons k v r ihv ihr =>
    refine ⟨by intro _ _ _ _ _ h; simp [WP] at h, by intro h; simp [S.isChain] at h, ?_,
      by intro _ _ _ _ _ _ _ h; simp [WPItems] at h,
      by intro _ _ _ _ _ _ _ h; simp [WPEntries] at h⟩
    intro b acc n rest ad br hwp _ hfresh hn hneed hbr
    obtain ⟨hwv, hk, hwr⟩ := hwp
    simp only [S.need] at hneed
    simp only [S.bneed, S.adneed] at hbr
    simp only [S.argNames, List.length_cons] at hn
    obtain ⟨n', rfl⟩ : ∃ n', n = n' + 1 := ⟨n - 1, by omega⟩
    obtain ⟨t, ts, htail, ht⟩ := args_tail_head r hwr rest
    have hcloser : follow C v (some t) ∧ stopsTok C 0 (some t) := by
      rcases ht with rfl | rfl
      · exact ⟨follow_closer _ classify_comma (by simp [chainTok]) (by simp) v,
          by simp [stopsTok, classify_comma]⟩
      · exact ⟨follow_closer _ classify_rightParen (by simp [chainTok]) (by simp) v,
          by simp [stopsTok, classify_rightParen]⟩
    have hv := complete (ihv.1 b 0 (t :: ts) ad br hwv (fitsLeft_zero C v) hcloser.1 (by omega) (by omega))
      hcloser.2
    have e1 : (if acc.isEmpty then [] else S.sepToks (S.argCons k v r))
          ++ ((S.argCons k v r).toks ++ Tok.rightParen :: rest)
        = (if acc.isEmpty then [] else [Tok.comma]) ++ .ident k :: .assign :: (v.toks ++ (t :: ts)) := by
      rw [← htail]; simp [S.sepToks, S.toks]
    rw [e1, kwargs_step _ n' acc k _ _ ad br _ (hfresh k (by simp [S.argNames])) hv, ← htail]
    have := ihr.2.2.1 b (Expr.insertKwarg k v.erase acc) n' rest ad br hwr
      (fun _ => insertKwarg_isEmpty _ _ _)
      (by
        intro k' hk'
        exact any_insertKwarg k k' _ acc (by intro h; subst h; exact hk hk')
          (hfresh k' (by simp [S.argNames, hk'])))
      (by omega) (by omega) (by omega)
    rw [insertKwarg_isEmpty] at this
    simpa [insertAll, S.eraseArgs] using this
  | call name args ih =>
    refine ⟨?_, by intro h; simp [S.isChain] at h, by vac_lists⟩
    intro b m rest ad br hwp _ _ hneed hbr
    obtain ⟨b', rfl⟩ : ∃ b', b = b' + 1 := ⟨b - 1, by have := need_pos args; simp [S.need] at hneed; omega⟩
    obtain ⟨hname, hwa, hend⟩ := hwp
    simp only [S.need] at hneed
    simp only [S.bneed, S.adneed] at hbr
    refine ⟨rest.length + 1, Nat.le_refl _, ?_⟩
    have : (S.call name args).toks ++ rest
        = .ident name :: .leftParen :: (args.toks ++ .rightParen :: rest) := by simp [S.toks]
    rw [this, inner_succ]
    exact parseExprBp_of_prefix _ _ _ _ _ _ _ _
      (prefix_call _ _ _ _ _ _ _ _ hname (kwargs_of_args ih.2.2.1 b' rest ad br hwa hend hneed hbr))
  | filterA e name args ihe iha =>
    refine ⟨?_, by intro h; simp [S.isChain] at h, by vac_lists⟩
    have ihe : LoopProp C _ := ihe.1
    intro b m rest ad br hwp hfit _ hneed hbr
    obtain ⟨b', rfl⟩ : ∃ b', b = b' + 1 := ⟨b - 1, by have := need_pos e; simp [S.need] at hneed; omega⟩
    obtain ⟨hwe, hfe, hwa, hend⟩ := hwp
    obtain ⟨hm, hfite⟩ := hfit
    simp only [S.need] at hneed
    simp only [S.bneed, S.adneed] at hbr
    have e1 : (S.filterA e name args).toks ++ rest = e.toks ++ (.pipe :: .ident name :: .leftParen
        :: (args.toks ++ .rightParen :: rest)) := by simp [S.toks]
    obtain ⟨n1, hn1, hl⟩ := ihe (b' + 1) m (.pipe :: .ident name :: .leftParen
        :: (args.toks ++ .rightParen :: rest)) ad br hwe hfite hfe (by omega) (by omega)
    have hk := kwargs_of_args iha.2.2.1 b' rest ad br hwa hend (by omega) (by omega)
    obtain ⟨n1', rfl⟩ : ∃ n', n1 = n' + 1 := ⟨n1 - 1, by simp at hn1; omega⟩
    refine ⟨n1', by simp at hn1; omega, ?_⟩
    rw [e1, hl]
    simp only [Nat.add_sub_cancel]
    exact loop_filterA C _ m n1' _ name _ _ ad br _ hm hk
  | testA e name neg args ihe iha =>
    refine ⟨?_, by intro h; simp [S.isChain] at h, by vac_lists⟩
    have ihe : LoopProp C _ := ihe.1
    intro b m rest ad br hwp hfit _ hneed hbr
    obtain ⟨b', rfl⟩ : ∃ b', b = b' + 1 := ⟨b - 1, by have := need_pos e; simp [S.need] at hneed; omega⟩
    obtain ⟨hwe, hfe, hname, hwa, hend⟩ := hwp
    obtain ⟨hm, hfite⟩ := hfit
    simp only [S.need] at hneed
    simp only [S.bneed, S.adneed] at hbr
    have hk := kwargs_of_args iha.2.2.1 b' rest ad br hwa hend (by omega) (by omega)
    cases neg with
    | false =>
      have e1 : (S.testA e name false args).toks ++ rest = e.toks ++ (.ident "is" :: .ident name
          :: .leftParen :: (args.toks ++ .rightParen :: rest)) := by simp [S.toks]
      obtain ⟨n1, hn1, hl⟩ := ihe (b' + 1) m (.ident "is" :: .ident name
          :: .leftParen :: (args.toks ++ .rightParen :: rest)) ad br hwe hfite hfe
          (by omega) (by omega)
      obtain ⟨n1', rfl⟩ : ∃ n', n1 = n' + 1 := ⟨n1 - 1, by simp at hn1; omega⟩
      refine ⟨n1', by simp at hn1; omega, ?_⟩
      rw [e1, hl]
      simp only [Nat.add_sub_cancel]
      simpa [S.erase] using loop_testA C _ m n1' _ name _ _ ad br _ hm (hname rfl) hk
    | true =>
      have e1 : (S.testA e name true args).toks ++ rest = e.toks ++ (.ident "is" :: .ident "not"
          :: .ident name :: .leftParen :: (args.toks ++ .rightParen :: rest)) := by
        simp [S.toks]
      obtain ⟨n1, hn1, hl⟩ := ihe (b' + 1) m (.ident "is" :: .ident "not" :: .ident name
          :: .leftParen :: (args.toks ++ .rightParen :: rest)) ad br hwe hfite hfe
          (by omega) (by omega)
      obtain ⟨n1', rfl⟩ : ∃ n', n1 = n' + 1 := ⟨n1 - 1, by simp at hn1; omega⟩
      refine ⟨n1', by simp at hn1; omega, ?_⟩
      rw [e1, hl]
      simp only [Nat.add_sub_cancel]
      simpa [S.erase] using loop_testA_not C _ m n1' _ name _ _ ad br _ hm hk

  | itemNil =>
    refine ⟨by intro _ _ _ _ _ h; simp [WP] at h, by intro h; simp [S.isChain] at h,
      by intro _ _ _ _ _ _ h; simp [WPArgs] at h, ?_,
      by intro _ _ _ _ _ _ _ h; simp [WPEntries] at h⟩
    intro b acc lit n rest ad br _ _ hn _ _
    obtain ⟨n', rfl⟩ : ∃ n', n = n' + 1 := ⟨n - 1, by omega⟩
    have : (if acc.isEmpty then [] else S.sepToks S.itemNil) ++ (S.itemNil.toks ++ Tok.rightBracket :: rest)
        = Tok.rightBracket :: rest := by simp [S.sepToks, S.toks]
    rw [this, array_stop]
    simp [S.eraseItems, litOf]
  | itemCons sp x r ihx ihr =>
    refine ⟨by intro _ _ _ _ _ h; simp [WP] at h, by intro h; simp [S.isChain] at h,
      by intro _ _ _ _ _ _ h; simp [WPArgs] at h, ?_,
      by intro _ _ _ _ _ _ _ h; simp [WPEntries] at h⟩
    intro b acc lit n rest ad br hwp _ hn hneed hbr
    obtain ⟨hwx, hwr⟩ := hwp
    simp only [S.need] at hneed
    simp only [S.bneed, S.adneed] at hbr
    simp only [itemCount] at hn
    obtain ⟨n', rfl⟩ : ∃ n', n = n' + 1 := ⟨n - 1, by omega⟩
    obtain ⟨t, ts, htail, ht⟩ := items_tail_head r hwr rest
    have hcloser : follow C x (some t) ∧ stopsTok C 0 (some t) ∧ (t :: ts).head? ≠ some (.ident "for") := by
      rcases ht with rfl | rfl
      · exact ⟨follow_closer _ classify_comma (by simp [chainTok]) (by simp) x,
          by simp [stopsTok, classify_comma], by simp⟩
      · exact ⟨follow_closer _ classify_rightBracket (by simp [chainTok]) (by simp) x,
          by simp [stopsTok, classify_rightBracket], by simp⟩
    have hx := complete (ihx.1 b 0 (t :: ts) ad br hwx (fitsLeft_zero C x) hcloser.1 (by omega) (by omega))
      hcloser.2.1
    have hrec := ihr.2.2.2.1 b
    cases sp with
    | false =>
      have e1 : (if acc.isEmpty then [] else S.sepToks (S.itemCons false x r))
            ++ ((S.itemCons false x r).toks ++ Tok.rightBracket :: rest)
          = (if acc.isEmpty then [] else [Tok.comma]) ++ (x.toks ++ (t :: ts)) := by
        rw [← htail]; simp [S.sepToks, S.toks]
      rw [e1, array_step_item C _ n' acc lit _ _ _ ad br ad br
        (by rw [head_toks_append _ _ (toks_ne_nil C x hwx)]
            exact head_toks_expr C x hwx _ (Or.inl rfl))
        (by rw [head_toks_append _ _ (toks_ne_nil C x hwx)]
            exact head_toks_expr C x hwx _ (Or.inr (Or.inl rfl)))
        hx hcloser.2.2, ← htail]
      have := hrec (acc ++ [.item x.erase]) (lit && x.erase.isLiteral) n' rest ad br hwr
        (fun _ => by cases acc <;> simp) (by omega) (by omega) (by omega)
      have hne : ∀ (y : ArrayEntry), (acc ++ [y]).isEmpty = false := by intro y; cases acc <;> simp
      simp only [hne, Bool.false_eq_true, if_false] at this
      rw [this]
      simp [S.eraseItems, litOf_cons, Bool.and_assoc]
    | true =>
      have e1 : (if acc.isEmpty then [] else S.sepToks (S.itemCons true x r))
            ++ ((S.itemCons true x r).toks ++ Tok.rightBracket :: rest)
          = (if acc.isEmpty then [] else [Tok.comma]) ++ .spread :: (x.toks ++ (t :: ts)) := by
        rw [← htail]; simp [S.sepToks, S.toks]
      rw [e1, array_step_spread C _ n' acc lit _ _ ad br _ hx, ← htail]
      have := hrec (acc ++ [.spread x.erase]) false n' rest ad br hwr
        (fun _ => by cases acc <;> simp) (by omega) (by omega) (by omega)
      have hne : ∀ (y : ArrayEntry), (acc ++ [y]).isEmpty = false := by intro y; cases acc <;> simp
      simp only [hne, Bool.false_eq_true, if_false] at this
      rw [this]
      simp [S.eraseItems, litOf_cons]
  | arr items ih =>
    refine ⟨?_, by intro h; simp [S.isChain] at h, by vac_lists⟩
    intro b m rest ad br hwp _ _ hneed hbr
    obtain ⟨b', rfl⟩ : ∃ b', b = b' + 1 := ⟨b - 1, by have := need_pos items; simp [S.need] at hneed; omega⟩
    simp only [S.need] at hneed
    simp only [S.bneed, S.adneed] at hbr
    have hw : WPItems C items := hwp.1
    have hend : items.isEnd = false := hwp.2
    refine ⟨rest.length + 1, Nat.le_refl _, ?_⟩
    have e1 : (S.arr items).toks ++ rest
        = .leftBracket :: (items.toks ++ .rightBracket :: rest) := by simp [S.toks]
    have hloop := ih.2.2.2.1 b' [] true ((items.toks ++ Tok.rightBracket :: rest).length + 1) rest
      (ad + 1) br hw (by intro h'; rw [hend] at h'; cases h')
      (by have := itemCount_le items hw; simp; omega) hneed (by omega)
    simp only [List.isEmpty_nil, if_true, List.nil_append, Bool.true_and] at hloop
    rw [e1, inner_succ]
    have hp := prefix_array C (innerParseExpression C b') _ _ _ _ ad br (ad + 1) br (by omega) hloop
    rw [finish_array] at hp
    simpa [S.erase] using parseExprBp_of_prefix _ _ m _ _ _ _ _ hp

  | entryNil =>
    refine ⟨by intro _ _ _ _ _ h; simp [WP] at h, by intro h; simp [S.isChain] at h,
      by intro _ _ _ _ _ _ h; simp [WPArgs] at h,
      by intro _ _ _ _ _ _ _ h; simp [WPItems] at h, ?_⟩
    intro b acc lit n rest ad br _ _ hn _ _
    obtain ⟨n', rfl⟩ : ∃ n', n = n' + 1 := ⟨n - 1, by omega⟩
    have : (if acc.isEmpty then [] else S.sepToks S.entryNil) ++ (S.entryNil.toks ++ Tok.rightBrace :: rest)
        = Tok.rightBrace :: rest := by simp [S.sepToks, S.toks]
    rw [this, map_stop]
    simp [S.eraseEntries, S.mapLitOf]
  | entryKV k v r ihv ihr =>
    refine ⟨by intro _ _ _ _ _ h; simp [WP] at h, by intro h; simp [S.isChain] at h,
      by intro _ _ _ _ _ _ h; simp [WPArgs] at h,
      by intro _ _ _ _ _ _ _ h; simp [WPItems] at h, ?_⟩
    intro b acc lit n rest ad br hwp _ hn hneed hbr
    obtain ⟨hwv, hwr⟩ := hwp
    simp only [S.need] at hneed
    simp only [S.bneed, S.adneed] at hbr
    simp only [entryCount] at hn
    obtain ⟨n', rfl⟩ : ∃ n', n = n' + 1 := ⟨n - 1, by omega⟩
    obtain ⟨t, ts, htail, ht⟩ := entries_tail_head r hwr rest
    have hcloser : follow C v (some t) ∧ stopsTok C 0 (some t) := by
      rcases ht with rfl | rfl
      · exact ⟨follow_closer _ classify_comma (by simp [chainTok]) (by simp) v,
          by simp [stopsTok, classify_comma]⟩
      · exact ⟨follow_closer _ classify_rightBrace (by simp [chainTok]) (by simp) v,
          by simp [stopsTok, classify_rightBrace]⟩
    have hv := complete (ihv.1 b 0 (t :: ts) ad br hwv (fitsLeft_zero C v) hcloser.1 (by omega) (by omega))
      hcloser.2
    have e1 : (if acc.isEmpty then [] else S.sepToks (S.entryKV k v r))
          ++ ((S.entryKV k v r).toks ++ Tok.rightBrace :: rest)
        = (if acc.isEmpty then [] else [Tok.comma]) ++ k.tok :: .colon :: (v.toks ++ (t :: ts)) := by
      rw [← htail]; simp [S.sepToks, S.toks]
    rw [e1, map_step_kv _ n' acc lit k _ _ ad br _ hv, ← htail]
    have := ihr.2.2.2.2 b (acc ++ [.keyValue k.key v.erase]) (lit && v.erase.isLiteral) n' rest ad br
      hwr (fun _ => by cases acc <;> simp) (by omega) (by omega) (by omega)
    have hne : ∀ (y : MapEntry), (acc ++ [y]).isEmpty = false := by intro y; cases acc <;> simp
    simp only [hne, Bool.false_eq_true, if_false] at this
    rw [this]
    simp [S.eraseEntries, mapLitOf_cons, S.entryLit, Bool.and_assoc]
  | entrySpread x r ihx ihr =>
    refine ⟨by intro _ _ _ _ _ h; simp [WP] at h, by intro h; simp [S.isChain] at h,
      by intro _ _ _ _ _ _ h; simp [WPArgs] at h,
      by intro _ _ _ _ _ _ _ h; simp [WPItems] at h, ?_⟩
    intro b acc lit n rest ad br hwp _ hn hneed hbr
    obtain ⟨hwx, hwr⟩ := hwp
    simp only [S.need] at hneed
    simp only [S.bneed, S.adneed] at hbr
    simp only [entryCount] at hn
    obtain ⟨n', rfl⟩ : ∃ n', n = n' + 1 := ⟨n - 1, by omega⟩
    obtain ⟨t, ts, htail, ht⟩ := entries_tail_head r hwr rest
    have hcloser : follow C x (some t) ∧ stopsTok C 0 (some t) := by
      rcases ht with rfl | rfl
      · exact ⟨follow_closer _ classify_comma (by simp [chainTok]) (by simp) x,
          by simp [stopsTok, classify_comma]⟩
      · exact ⟨follow_closer _ classify_rightBrace (by simp [chainTok]) (by simp) x,
          by simp [stopsTok, classify_rightBrace]⟩
    have hx := complete (ihx.1 b 0 (t :: ts) ad br hwx (fitsLeft_zero C x) hcloser.1 (by omega) (by omega))
      hcloser.2
    have e1 : (if acc.isEmpty then [] else S.sepToks (S.entrySpread x r))
          ++ ((S.entrySpread x r).toks ++ Tok.rightBrace :: rest)
        = (if acc.isEmpty then [] else [Tok.comma]) ++ .spread :: (x.toks ++ (t :: ts)) := by
      rw [← htail]; simp [S.sepToks, S.toks]
    rw [e1, map_step_spread _ n' acc lit _ _ ad br _ hx, ← htail]
    have := ihr.2.2.2.2 b (acc ++ [.spread x.erase]) false n' rest ad br
      hwr (fun _ => by cases acc <;> simp) (by omega) (by omega) (by omega)
    have hne : ∀ (y : MapEntry), (acc ++ [y]).isEmpty = false := by intro y; cases acc <;> simp
    simp only [hne, Bool.false_eq_true, if_false] at this
    rw [this]
    simp [S.eraseEntries, mapLitOf_cons, S.entryLit]
  | mapLit es ih =>
    refine ⟨?_, by intro h; simp [S.isChain] at h, by vac_lists⟩
    intro b m rest ad br hwp _ _ hneed hbr
    obtain ⟨b', rfl⟩ : ∃ b', b = b' + 1 := ⟨b - 1, by have := need_pos es; simp [S.need] at hneed; omega⟩
    simp only [S.need] at hneed
    simp only [S.bneed, S.adneed] at hbr
    have hw : WPEntries C es := hwp.1
    have hend : es.isEnd = false := hwp.2
    refine ⟨rest.length + 1, Nat.le_refl _, ?_⟩
    have e1 : (S.mapLit es).toks ++ rest
        = .leftBrace :: (es.toks ++ .rightBrace :: rest) := by simp [S.toks]
    have hloop := ih.2.2.2.2 b' [] true ((es.toks ++ Tok.rightBrace :: rest).length + 1) rest
      ad br hw (by intro h'; rw [hend] at h'; cases h')
      (by have := entryCount_le es; simp; omega) hneed hbr
    simp only [List.isEmpty_nil, if_true, List.nil_append, Bool.true_and] at hloop
    rw [e1, inner_succ]
    have hp := prefix_map C (innerParseExpression C b') _ _ _ _ ad br ad br hloop
    simpa [S.erase, S.foldMap] using parseExprBp_of_prefix _ _ m _ _ _ _ _ hp

  | absent =>
    exact ⟨by intro _ _ _ _ _ h; simp [WP] at h, by intro h; simp [S.isChain] at h, by vac_lists⟩
  | comp e key value target cond ihe iht ihc =>
    refine ⟨?_, by intro h; simp [S.isChain] at h, by vac_lists⟩
    intro b m rest ad br hwp _ _ hneed hbr
    obtain ⟨b', rfl⟩ : ∃ b', b = b' + 1 := ⟨b - 1, by have := need_pos e; simp [S.need] at hneed; omega⟩
    obtain ⟨hwe, hval, hkey, hwt, hfitt, hfolt, hcond⟩ := hwp
    simp only [S.need] at hneed
    simp only [S.bneed, S.adneed] at hbr
    refine ⟨rest.length + 1, Nat.le_refl _, ?_⟩
    have hfor : classify (.ident "for") = .other := by decide
    -- what follows the target
    let R : List Tok := (if cond.isAbsent then [] else [Tok.ident "if"]) ++ (cond.toks ++ .rightBracket :: rest)
    have e1 : (S.comp e key value target cond).toks ++ rest
        = .leftBracket :: (e.toks ++ (.ident "for" ::
            (S.keyToks key ++ [.ident value, .ident "in"] ++ (target.toks ++ R)))) := by
      simp [S.toks, R]
    have hx := complete (ihe.1 b' 0 (.ident "for" ::
            (S.keyToks key ++ [.ident value, .ident "in"] ++ (target.toks ++ R))) (ad + 1) br hwe
        (fitsLeft_zero C e) (follow_closer _ hfor (by simp [chainTok]) (by simp) e)
        (by omega) (by omega)) (by simp [stopsTok, hfor])
    have hRhead : R.head? = some (if cond.isAbsent then Tok.rightBracket else Tok.ident "if") := by
      cases hca : cond.isAbsent
      · simp [R, hca]
      · have : cond = .absent := by cases cond <;> simp_all [S.isAbsent]
        subst this
        simp [R, S.isAbsent, S.toks]
    have ht := complete (iht.1 b' (C.bp.ternary + 1) R ad br hwt hfitt (by rw [hRhead]; exact hfolt)
        (by omega) (by omega))
      (by
        rw [hRhead]
        cases cond.isAbsent
        · simp [stopsTok, classify_if]
        · simp [stopsTok, classify_rightBracket])
    have hl : parseListComprehension C (innerParseExpression C b') e.erase
          ⟨compHead key value ++ (target.toks ++ R), ad, br⟩
        = .ok (.listComprehension e.erase key value target.erase
            (if cond.isAbsent then none else some cond.erase)) ⟨rest, ad, br⟩ := by
      apply listComp_step C _ _ _ key value _ R ad br ad br _ _ hval hkey ht
      cases hca : cond.isAbsent
      · -- a condition is present
        simp only [hca, Bool.false_eq_true, if_false] at hcond ⊢
        have hc := complete (ihc.1 b' (C.bp.ternary + 1) (.rightBracket :: rest) ad br hcond.1 hcond.2
            (follow_closer _ classify_rightBracket (by simp [chainTok]) (by simp) cond)
            (by omega) (by omega)) (by simp [stopsTok, classify_rightBracket])
        exact ⟨cond.toks ++ .rightBracket :: rest, rest, ad, br, by simp [R, hca], hc, rfl⟩
      · have : cond = .absent := by cases cond <;> simp_all [S.isAbsent]
        subst this
        simp only [S.isAbsent, if_true]
        exact ⟨rest, by simp [R, S.isAbsent, S.toks], rfl⟩
    rw [e1, inner_succ]
    have hp := prefix_comp C (innerParseExpression C b') e.erase _ _ _ ad br (ad + 1) br _ (by omega)
      (by rw [head_toks_append _ _ (toks_ne_nil C e hwe)]
          exact head_toks_expr C e hwe _ (Or.inl rfl))
      (by rw [head_toks_append _ _ (toks_ne_nil C e hwe)]
          exact head_toks_expr C e hwe _ (Or.inr (Or.inl rfl)))
      hx (by simpa [compHead] using hl)
    simpa [S.erase] using parseExprBp_of_prefix _ _ m _ _ _ _ _ hp

  | slice e a b c ihe iha ihb ihc =>
    refine ⟨?_, by intro h; simp [S.isChain] at h, by vac_lists⟩
    intro b0 m rest ad br hwp hfit _ hneed hbr
    obtain ⟨b', rfl⟩ : ∃ b', b0 = b' + 1 := ⟨b0 - 1, by have := need_pos e; simp [S.need] at hneed; omega⟩
    obtain ⟨hwe, hfe, hwa, hwb, hwc⟩ := hwp
    simp only [S.need] at hneed
    simp only [S.bneed, S.adneed] at hbr
    simp only [fitsLeft] at hfit
    have e1 : (S.slice e a b c).toks ++ rest
        = e.toks ++ (.leftBracket :: (a.toks ++ .colon :: (b.toks
            ++ ((if c.isAbsent then [] else [Tok.colon]) ++ (c.toks ++ .rightBracket :: rest))))) := by
      simp [S.toks]
    obtain ⟨n1, hn1, hl⟩ := ihe.1 (b' + 1) m (.leftBracket :: (a.toks ++ .colon :: (b.toks
            ++ ((if c.isAbsent then [] else [Tok.colon]) ++ (c.toks ++ .rightBracket :: rest))))) ad br
      hwe hfit hfe (by omega) (by omega)
    have hs := slice_parsed (C := C) e.erase a b c false b' rest ad br iha.1 ihb.1 ihc.1 hwa hwb hwc
      (by intro _; omega) (by intro _; omega) (by intro _; omega) (by omega) (by omega)
    simp only [Bool.false_eq_true, if_false] at hs
    obtain ⟨n1', rfl⟩ : ∃ n', n1 = n' + 1 := ⟨n1 - 1, by simp at hn1; omega⟩
    refine ⟨n1', by simp at hn1; omega, ?_⟩
    rw [e1, hl]
    simp only [Nat.add_sub_cancel]
    simpa [S.erase] using loop_subscript C _ m n1' _ _ false _ ad br _ hs
  | subSlice e a b c o ihe iha ihb ihc =>
    have hq : ChainProp C (.subSlice e a b c o) := by
      intro _ b0 rest ad br hwp hp hneed hbr
      obtain ⟨hce, hwe, hwa, hwb, hwc⟩ := hwp
      simp only [S.need] at hneed
      simp only [S.bneed, S.adneed] at hbr
      have h3 : a.need ≤ b0 ∧ b.need ≤ b0 ∧ c.need ≤ b0 ∧ e.need ≤ b0 + 1 := by
        clear hwa hwb hwc hwe hce hp hbr ihe iha ihb ihc
        omega
      have h4 : br + 1 + max a.bneed (max b.bneed c.bneed) ≤ C.maxBrackets
          ∧ ad + max a.adneed (max b.adneed c.adneed) ≤ C.maxArray
          ∧ br + e.bneed ≤ C.maxBrackets ∧ ad + e.adneed ≤ C.maxArray := by
        clear hwa hwb hwc hwe hce hp hneed h3 ihe iha ihb ihc
        omega
      have hs := slice_parsed (C := C) e.erase a b c o b0 rest ad br iha.1 ihb.1 ihc.1 hwa hwb hwc
        (fun _ => h3.1) (fun _ => h3.2.1) (fun _ => h3.2.2.1) h4.1 h4.2.1
      have hne : e.need ≤ b0 + 1 := h3.2.2.2
      have hbe : br + e.bneed ≤ C.maxBrackets ∧ ad + e.adneed ≤ C.maxArray := h4.2.2
      clear hneed hbr
      have e1 : (S.subSlice e a b c o).toks ++ rest
          = e.toks ++ ((if o then Tok.questionMarkLeftBracket else Tok.leftBracket)
              :: (a.toks ++ .colon :: (b.toks
            ++ ((if c.isAbsent then [] else [Tok.colon]) ++ (c.toks ++ .rightBracket :: rest))))) := by
        simp [S.toks]
      obtain ⟨n1, hn1, hl⟩ := ihe.2.1 hce b0
        ((if o then Tok.questionMarkLeftBracket else Tok.leftBracket)
              :: (a.toks ++ .colon :: (b.toks
            ++ ((if c.isAbsent then [] else [Tok.colon]) ++ (c.toks ++ .rightBracket :: rest))))) ad br hwe
        (by cases o <;> simp) hne hbe
      obtain ⟨n1', rfl⟩ : ∃ n', n1 = n' + 1 := ⟨n1 - 1, by simp at hn1; omega⟩
      refine ⟨n1', by simp at hn1; omega, ?_⟩
      rw [e1, hl]
      have hstep := chain_subscript C (innerParseExpression C b0) e.chainRoot n1' e.erase _ o _ ad br _ hs
      rw [hstep]
      rfl
    refine ⟨?_, hq, by vac_lists⟩
    intro b0 m rest ad br hwp hfit hfol hneed hbr
    exact loop_of_chain hq (by simpa [S.isChain] using hwp.1) (fun _ => Iff.rfl)
      b0 m rest ad br hwp hfit hfol hneed hbr

  | argEnd =>
    refine ⟨by intro _ _ _ _ _ h; simp [WP] at h, by intro h; simp [S.isChain] at h, ?_,
      by intro _ _ _ _ _ _ _ h; simp [WPItems] at h,
      by intro _ _ _ _ _ _ _ h; simp [WPEntries] at h⟩
    intro b acc n rest ad br _ hend _ hn _ _
    obtain ⟨n', rfl⟩ : ∃ n', n = n' + 1 := ⟨n - 1, by omega⟩
    have hacc := hend rfl
    have : (if acc.isEmpty then [] else S.sepToks S.argEnd) ++ (S.argEnd.toks ++ Tok.rightParen :: rest)
        = Tok.comma :: Tok.rightParen :: rest := by simp [S.sepToks, S.toks]
    rw [this, kwargs_trailing _ _ _ _ _ _ hacc]
    simp [insertAll, S.eraseArgs]
  | itemEnd =>
    refine ⟨by intro _ _ _ _ _ h; simp [WP] at h, by intro h; simp [S.isChain] at h,
      by intro _ _ _ _ _ _ h; simp [WPArgs] at h, ?_,
      by intro _ _ _ _ _ _ _ h; simp [WPEntries] at h⟩
    intro b acc lit n rest ad br _ hend hn _ _
    obtain ⟨n', rfl⟩ : ∃ n', n = n' + 1 := ⟨n - 1, by omega⟩
    have hacc := hend rfl
    have : (if acc.isEmpty then [] else S.sepToks S.itemEnd) ++ (S.itemEnd.toks ++ Tok.rightBracket :: rest)
        = Tok.comma :: Tok.rightBracket :: rest := by simp [S.sepToks, S.toks]
    rw [this, array_trailing _ _ _ _ _ _ _ _ hacc]
    simp [S.eraseItems, litOf]
  | entryEnd =>
    refine ⟨by intro _ _ _ _ _ h; simp [WP] at h, by intro h; simp [S.isChain] at h,
      by intro _ _ _ _ _ _ h; simp [WPArgs] at h,
      by intro _ _ _ _ _ _ _ h; simp [WPItems] at h, ?_⟩
    intro b acc lit n rest ad br _ hend hn _ _
    obtain ⟨n', rfl⟩ : ∃ n', n = n' + 1 := ⟨n - 1, by omega⟩
    have hacc := hend rfl
    have : (if acc.isEmpty then [] else S.sepToks S.entryEnd) ++ (S.entryEnd.toks ++ Tok.rightBrace :: rest)
        = Tok.comma :: Tok.rightBrace :: rest := by simp [S.sepToks, S.toks]
    rw [this, map_trailing _ _ _ _ _ _ _ hacc]
    simp [S.eraseEntries, S.mapLitOf]

/-- The Pratt-parser induction (the statement used by the property theorems). -/
theorem parse_loop (C : Cfg) (s : S) : LoopProp C s := (parse_both C s).1

end Tera.Parser
