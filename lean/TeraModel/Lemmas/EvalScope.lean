/-
Helper lemmas about the scoping model (Model/Scope.lean), the for-loop model
(Model/ForLoopModel.lean) and the key sort (Model/EvalPrims.lean).
-/
import TeraModel.Model.Scope
namespace Tera

/-! ### sorting by key is a permutation -/

theorem insertByKey_perm {α : Type} (e : Key × α) (xs : List (Key × α)) :
    (insertByKey e xs).Perm (e :: xs) := by
  induction xs with
  | nil => exact List.Perm.refl _
  | cons x xs ih =>
    unfold insertByKey
    split
    · exact ((List.Perm.cons x ih).trans (List.Perm.swap e x xs))
    · exact List.Perm.refl _

theorem sortByKey_perm {α : Type} (xs : List (Key × α)) : (sortByKey xs).Perm xs := by
  induction xs with
  | nil => exact List.Perm.refl _
  | cons x xs ih =>
    unfold sortByKey
    exact (insertByKey_perm x (sortByKey xs)).trans (List.Perm.cons x ih)

theorem sortByKey_length {α : Type} (xs : List (Key × α)) : (sortByKey xs).length = xs.length :=
  (sortByKey_perm xs).length_eq

/-! ### name resolution -/

/-- What the includer (if any) answers. -/
def Scope.parentValue (parent : Option Scope) (name : String) : Value :=
  match parent with
  | some p => p.getValue name
  | none => Value.undef

theorem Scope.getValue_mk (loops : List ForLoop) (sv : Ctx) (p : Option Scope) (c : Ctx)
    (g : Option Ctx) (name : String) :
    (Scope.mk loops sv p c g).getValue name
      = Scope.resolve loops sv (Scope.parentValue p name) c g name := by
  rw [Scope.getValue.eq_def]
  rfl

/-! ### the loop stack -/

namespace ForLoop

theorem lookupCtx_insert_same (c : List (String × Value)) (n : String) (v : Value) :
    lookupCtx ((n, v) :: c.filter (fun p => p.1 != n)) n = some v := by
  simp [lookupCtx]

theorem lookupCtx_filter_ne (c : List (String × Value)) (n m : String) (h : m ≠ n) :
    lookupCtx (c.filter (fun p => p.1 != n)) m = lookupCtx c m := by
  induction c with
  | nil => rfl
  | cons p c ih =>
    obtain ⟨a, b⟩ := p
    by_cases ha : a = n
    · subst ha
      have hm : (a == m) = false := by simpa using fun e => h e.symm
      simp [List.filter, lookupCtx, ih, hm]
    · have : (a != n) = true := by simpa using ha
      simp only [List.filter, this, lookupCtx, ih]

theorem lookupCtx_insert_other (c : List (String × Value)) (n m : String) (v : Value) (h : m ≠ n) :
    lookupCtx ((n, v) :: c.filter (fun p => p.1 != n)) m = lookupCtx c m := by
  have hm : (n == m) = false := by simpa using fun e => h e.symm
  simp only [lookupCtx, hm]
  exact lookupCtx_filter_ne c n m h

/-- The five names `loop.index` etc. are rewritten to by the parser. -/
def isMagic (name : String) : Bool :=
  name == "__tera_loop_index" || name == "__tera_loop_index0" || name == "__tera_loop_first"
    || name == "__tera_loop_last" || name == "__tera_loop_length"

theorem get_of_not_magic (l : ForLoop) (name : String) (h : isMagic name = false) :
    l.get name =
      match lookupCtx l.context name with
      | some v => some v
      | Option.none =>
        if l.valueName == name then some l.current.2
        else if l.keyName == some name then some (l.current.1.getD Value.none)
        else Option.none := by
  simp only [isMagic, Bool.or_eq_false_iff] at h
  obtain ⟨⟨⟨⟨h1, h2⟩, h3⟩, h4⟩, h5⟩ := h
  unfold get
  simp only [h1, h2, h3, h4, h5, Bool.false_and, Bool.false_eq_true, ↓reduceIte]
  cases lookupCtx l.context name <;> rfl

/-- `store_local` (naming the loop variables) touches the two names only. -/
theorem storeLocalName_fields (l : ForLoop) (n : String) :
    (l.storeLocalName n).remaining = l.remaining ∧ (l.storeLocalName n).index0 = l.index0
    ∧ (l.storeLocalName n).first = l.first ∧ (l.storeLocalName n).last = l.last
    ∧ (l.storeLocalName n).length = l.length ∧ (l.storeLocalName n).endIp = l.endIp
    ∧ (l.storeLocalName n).context = l.context ∧ (l.storeLocalName n).iterated = l.iterated := by
  unfold storeLocalName
  split <;> simp

/-- The first `Iterate` of a loop (`end_ip` still 0): the counters do not move. -/
theorem iterate_first (l : ForLoop) (e : Nat) (it : LoopItem) (rest : List LoopItem)
    (h0 : l.endIp = 0) (hr : l.remaining = it :: rest) :
    ∃ l', l.iterate e = some l' ∧ l'.index0 = l.index0 ∧ l'.first = l.first ∧ l'.last = l.last
      ∧ l'.length = l.length ∧ l'.current = it ∧ l'.context = l.context ∧ l'.remaining = rest
      ∧ l'.iterated = true ∧ l'.endIp = e ∧ l'.valueName = l.valueName ∧ l'.keyName = l.keyName
      ∧ l'.isComprehension = l.isComprehension := by
  refine ⟨{ l.advance with endIp := e }, ?_, ?_⟩
  · simp [iterate, isOver, hr]
  · simp [advance, hr, h0]

/-- Every later `Iterate` (`end_ip` non-zero): counters advance, the iteration's assignments are
dropped. -/
theorem iterate_next (l : ForLoop) (e : Nat) (it : LoopItem) (rest : List LoopItem)
    (h0 : l.endIp ≠ 0) (hr : l.remaining = it :: rest) :
    ∃ l', l.iterate e = some l' ∧ l'.index0 = l.index0 + 1 ∧ l'.first = false
      ∧ l'.last = (l.index0 + 1 + 1 == l.length)
      ∧ l'.length = l.length ∧ l'.current = it ∧ l'.context = [] ∧ l'.remaining = rest
      ∧ l'.iterated = true ∧ l'.endIp = e ∧ l'.valueName = l.valueName ∧ l'.keyName = l.keyName
      ∧ l'.isComprehension = l.isComprehension := by
  refine ⟨{ l.advance with endIp := e }, ?_, ?_⟩
  · simp [iterate, isOver, hr]
  · simp [advance, hr, h0]

/-- `iterate_next` after the body replaced the iteration's assignments by anything. -/
theorem iterate_next_ctx (l : ForLoop) (c : List (String × Value)) (e : Nat) (it : LoopItem)
    (rest : List LoopItem) (h0 : l.endIp ≠ 0) (hr : l.remaining = it :: rest) :
    ∃ l', ({ l with context := c } : ForLoop).iterate e = some l' ∧ l'.index0 = l.index0 + 1
      ∧ l'.first = false ∧ l'.last = (l.index0 + 1 + 1 == l.length)
      ∧ l'.length = l.length ∧ l'.current = it ∧ l'.context = [] ∧ l'.remaining = rest
      ∧ l'.iterated = true ∧ l'.endIp = e :=  by
  obtain ⟨l', hl', f1, f2, f3, f4, f5, f6, f7, f8, f9, _⟩ :=
    iterate_next { l with context := c } e it rest h0 hr
  exact ⟨l', hl', f1, f2, f3, f4, f5, f6, f7, f8, f9⟩

theorem iterate_over (l : ForLoop) (e : Nat) (hr : l.remaining = []) : l.iterate e = none := by
  simp [iterate, isOver, hr]

end ForLoop
end Tera
