/-
Lemmas about the base64 reference model (Model/Contrib.lean): the symbol tables are mutually
inverse, the encoder's output is never empty for non-empty input, decode ∘ encode = id.
-/
import TeraModel.Model.Contrib
namespace Tera.Contrib

theorem decSym_encSym : ∀ u : Bool, ∀ i, i < 64 → decSym u (encSym u i) = some i := by decide

theorem encSym_ne_pad : ∀ u : Bool, ∀ i, i < 64 → encSym u i ≠ PAD := by decide

/-- a decoded symbol is a sextet and is the index of that character in the alphabet -/
theorem decSym_sound : ∀ u : Bool, ∀ c, c < 256 → ∀ i, decSym u c = some i → i < 64 ∧ encSym u i = c := by
  decide +kernel

end Tera.Contrib

namespace Tera.Contrib

theorem Bytes.cons {b : Nat} {bs : List Nat} (h : Bytes (b :: bs)) : b < 256 ∧ Bytes bs :=
  ⟨h b (by simp), fun x hx => h x (by simp [hx])⟩

theorem b64Encode_ne_nil (u p : Bool) : ∀ bs, bs ≠ [] → b64Encode u p bs ≠ []
  | [], h => absurd rfl h
  | [_], _ => by simp [b64Encode]
  | [_, _], _ => by simp [b64Encode]
  | _ :: _ :: _ :: _, _ => by simp [b64Encode]

/-- the decoder on one full quad followed by more input -/
theorem b64DecodeBytes_quad (u : Bool) (s0 s1 s2 s3 : Nat) (h0 : s0 < 64) (h1 : s1 < 64)
    (h2 : s2 < 64) (h3 : s3 < 64) (tl : List Nat) (htl : tl ≠ []) :
    b64DecodeBytes u (encSym u s0 :: encSym u s1 :: encSym u s2 :: encSym u s3 :: tl) =
      match b64DecodeBytes u tl with
      | .ok out => .ok ((s0 * 4 + s1 / 16) :: ((s1 % 16) * 16 + s2 / 4) :: ((s2 % 4) * 64 + s3) :: out)
      | .error e => .error e := by
  cases tl with
  | nil => exact absurd rfl htl
  | cons e rest =>
    rw [b64DecodeBytes]
    simp only [decSym_encSym u _ h0, decSym_encSym u _ h1, decSym_encSym u _ h2, decSym_encSym u _ h3]
    cases b64DecodeBytes u (e :: rest) <;> rfl

theorem suffix4 (u : Bool) (s0 s1 s2 s3 : Nat) (h0 : s0 < 64) (h1 : s1 < 64) (h2 : s2 < 64)
    (h3 : s3 < 64) :
    b64DecodeBytes u [encSym u s0, encSym u s1, encSym u s2, encSym u s3] =
      .ok [s0 * 4 + s1 / 16, (s1 % 16) * 16 + s2 / 4, (s2 % 4) * 64 + s3] := by
  simp [b64DecodeBytes, decodeSuffix, suffixMorsels, encSym_ne_pad u _ h0, encSym_ne_pad u _ h1,
    encSym_ne_pad u _ h2, encSym_ne_pad u _ h3, decSym_encSym u _ h0, decSym_encSym u _ h1,
    decSym_encSym u _ h2, decSym_encSym u _ h3]

theorem suffix3 (u p : Bool) (s0 s1 s2 : Nat) (h0 : s0 < 64) (h1 : s1 < 64) (h2 : s2 < 64)
    (hz : s2 % 4 = 0) :
    b64DecodeBytes u ([encSym u s0, encSym u s1, encSym u s2] ++ (if p then [PAD] else [])) =
      .ok [s0 * 4 + s1 / 16, (s1 % 16) * 16 + s2 / 4] := by
  cases p <;>
  simp [b64DecodeBytes, decodeSuffix, suffixMorsels, encSym_ne_pad u _ h0, encSym_ne_pad u _ h1,
    encSym_ne_pad u _ h2, decSym_encSym u _ h0, decSym_encSym u _ h1,
    decSym_encSym u _ h2, hz]

theorem suffix2 (u p : Bool) (s0 s1 : Nat) (h0 : s0 < 64) (h1 : s1 < 64) (hz : s1 % 16 = 0) :
    b64DecodeBytes u ([encSym u s0, encSym u s1] ++ (if p then [PAD, PAD] else [])) =
      .ok [s0 * 4 + s1 / 16] := by
  cases p <;>
  simp [b64DecodeBytes, decodeSuffix, suffixMorsels, encSym_ne_pad u _ h0, encSym_ne_pad u _ h1,
    decSym_encSym u _ h0, decSym_encSym u _ h1, hz]

/-- decode ∘ encode = id on byte strings, for each of the four option pairs -/
theorem b64_roundtrip_bytes (u p : Bool) : ∀ bs, Bytes bs → b64DecodeBytes u (b64Encode u p bs) = .ok bs
  | [], _ => by simp [b64Encode, b64DecodeBytes]
  | [a], h => by
    have ha := (Bytes.cons h).1
    rw [b64Encode, suffix2 u p _ _ (by omega) (by omega) (by omega)]
    congr 2; omega
  | [a, b], h => by
    have ha := (Bytes.cons h).1
    have hb := (Bytes.cons (Bytes.cons h).2).1
    rw [b64Encode, suffix3 u p _ _ _ (by omega) (by omega) (by omega) (by omega)]
    congr 2
    · omega
    · congr 1; omega
  | a :: b :: c :: rest, h => by
    have ha := (Bytes.cons h).1
    have hb := (Bytes.cons (Bytes.cons h).2).1
    have hc := (Bytes.cons (Bytes.cons (Bytes.cons h).2).2).1
    have hr := (Bytes.cons (Bytes.cons (Bytes.cons h).2).2).2
    rw [b64Encode]
    by_cases hrest : rest = []
    · subst hrest
      rw [show b64Encode u p [] = [] by simp [b64Encode],
        suffix4 u _ _ _ _ (by omega) (by omega) (by omega) (by omega)]
      congr 2
      · omega
      · congr 1
        · omega
        · congr 1; omega
    · rw [b64DecodeBytes_quad u _ _ _ _ (by omega) (by omega) (by omega) (by omega) _
        (b64Encode_ne_nil u p rest hrest), b64_roundtrip_bytes u p rest hr]
      simp only
      congr 2
      · omega
      · congr 1
        · omega
        · congr 1; omega

end Tera.Contrib

namespace Tera.Contrib

theorem encSym_mem : ∀ u : Bool, ∀ i, i < 64 → encSym u i ∈ alphabet u := by decide

theorem enc_of_sextets3 (u : Bool) (s0 s1 s2 s3 : Nat) (h1 : s1 < 64) (h2 : s2 < 64) (h3 : s3 < 64)
    (rest : List Nat) :
    b64Encode u false ((s0 * 4 + s1 / 16) :: ((s1 % 16) * 16 + s2 / 4) :: ((s2 % 4) * 64 + s3) :: rest)
      = encSym u s0 :: encSym u s1 :: encSym u s2 :: encSym u s3 :: b64Encode u false rest := by
  rw [b64Encode]
  have e0 : (s0 * 4 + s1 / 16) / 4 = s0 := by omega
  have e1 : (s0 * 4 + s1 / 16) % 4 * 16 + (s1 % 16 * 16 + s2 / 4) / 16 = s1 := by omega
  have e2 : (s1 % 16 * 16 + s2 / 4) % 16 * 4 + (s2 % 4 * 64 + s3) / 64 = s2 := by omega
  have e3 : (s2 % 4 * 64 + s3) % 64 = s3 := by omega
  rw [e0, e1, e2, e3]

theorem enc_of_sextets2 (u : Bool) (s0 s1 s2 : Nat) (h1 : s1 < 64) (h2 : s2 < 64) (hz : s2 % 4 = 0) :
    b64Encode u false [s0 * 4 + s1 / 16, (s1 % 16) * 16 + s2 / 4]
      = [encSym u s0, encSym u s1, encSym u s2] := by
  rw [b64Encode]
  have e0 : (s0 * 4 + s1 / 16) / 4 = s0 := by omega
  have e1 : (s0 * 4 + s1 / 16) % 4 * 16 + (s1 % 16 * 16 + s2 / 4) / 16 = s1 := by omega
  have e2 : (s1 % 16 * 16 + s2 / 4) % 16 * 4 = s2 := by omega
  rw [e0, e1, e2]; simp

theorem enc_of_sextets1 (u : Bool) (s0 s1 : Nat) (h1 : s1 < 64) (hz : s1 % 16 = 0) :
    b64Encode u false [s0 * 4 + s1 / 16] = [encSym u s0, encSym u s1] := by
  rw [b64Encode]
  have e0 : (s0 * 4 + s1 / 16) / 4 = s0 := by omega
  have e1 : (s0 * 4 + s1 / 16) % 4 * 16 = s1 := by omega
  rw [e0, e1]; simp

theorem bytes_of_sextets {s0 s1 s2 s3 : Nat} (h0 : s0 < 64) (h1 : s1 < 64) (h2 : s2 < 64) (h3 : s3 < 64) :
    s0 * 4 + s1 / 16 < 256 ∧ (s1 % 16) * 16 + s2 / 4 < 256 ∧ (s2 % 4) * 64 + s3 < 256 := by omega

theorem suffixMorsels_sound (u : Bool) : ∀ (inp : List Nat) (i : Nat) (seen : Bool) (ms : List Nat),
    Bytes inp → suffixMorsels u i seen inp = .ok ms →
    ∃ k, inp = ms.map (encSym u) ++ List.replicate k PAD ∧ (∀ m ∈ ms, m < 64) ∧ (seen = true → ms = [])
  | [], i, seen, ms, _, h => by
    simp [suffixMorsels] at h; subst h; exact ⟨0, by simp⟩
  | b :: rest, i, seen, ms, hb, h => by
    have hb' : b < 256 := hb b (by simp)
    have hr : Bytes rest := fun x hx => hb x (by simp [hx])
    rw [suffixMorsels] at h
    by_cases hp : b = PAD
    · simp only [hp, if_true] at h
      by_cases hi : i < 2
      · simp [hi] at h
      · simp only [hi, if_false] at h
        obtain ⟨k, e, hm, hs⟩ := suffixMorsels_sound u rest (i + 1) true ms hr h
        have : ms = [] := hs rfl
        subst this
        refine ⟨k + 1, ?_, by simp, fun _ => rfl⟩
        simp at e
        simp [hp, e, List.replicate_succ]
    · simp only [hp, if_false] at h
      cases seen with
      | true => simp at h
      | false =>
        simp only [Bool.false_eq_true, if_false] at h
        cases hd : decSym u b with
        | none => simp [hd] at h
        | some m =>
          simp only [hd] at h
          cases hrec : suffixMorsels u (i + 1) false rest with
          | error e => simp [hrec] at h
          | ok ms' =>
            simp only [hrec] at h
            injection h with h
            subst h
            obtain ⟨k, e, hm, _⟩ := suffixMorsels_sound u rest (i + 1) false ms' hr hrec
            obtain ⟨h0, hb0⟩ := decSym_sound u b hb' m hd
            refine ⟨k, ?_, ?_, by simp⟩
            · simp [hb0, e]
            · intro x hx
              simp only [List.mem_cons] at hx
              rcases hx with rfl | hx
              · exact h0
              · exact hm x hx

/-- what `decode_suffix` accepts is a canonical unpadded encoding followed by at most two `=` -/
theorem decodeSuffix_sound (u : Bool) (inp : List Nat) (hlen : inp.length ≤ 4) (hb : Bytes inp)
    (bs : List Nat) (h : decodeSuffix u inp = .ok bs) :
    ∃ k, k ≤ 2 ∧ inp = b64Encode u false bs ++ List.replicate k PAD ∧ Bytes bs := by
  unfold decodeSuffix at h
  cases hs : suffixMorsels u 0 false inp with
  | error e => simp [hs] at h
  | ok ms =>
    simp only [hs] at h
    obtain ⟨k, e, hm, _⟩ := suffixMorsels_sound u inp 0 false ms hb hs
    have hl : ms.length + k ≤ 4 := by
      have := congrArg List.length e
      simp at this; omega
    match ms, h, hm, e, hl with
    | [], h, _, _, _ => simp at h
    | [_], h, _, _, _ => simp at h
    | [s0, s1], h, hm, e, hl =>
      have h0 := hm s0 (by simp)
      have h1 := hm s1 (by simp)
      by_cases hz : s1 % 16 = 0
      all_goals simp [hz] at h
      subst h
      refine ⟨k, by simp at hl; omega, ?_, ?_⟩
      · rw [enc_of_sextets1 u s0 s1 h1 hz]; simpa using e
      · intro x hx; simp at hx; subst hx; omega
    | [s0, s1, s2], h, hm, e, hl =>
      have h0 := hm s0 (by simp)
      have h1 := hm s1 (by simp)
      have h2 := hm s2 (by simp)
      by_cases hz : s2 % 4 = 0
      all_goals simp [hz] at h
      subst h
      refine ⟨k, by simp at hl; omega, ?_, ?_⟩
      · rw [enc_of_sextets2 u s0 s1 s2 h1 h2 hz]; simpa using e
      · intro x hx; simp at hx; rcases hx with rfl | rfl <;> omega
    | s0 :: s1 :: s2 :: s3 :: tl, h, hm, e, hl =>
      have h0 := hm s0 (by simp)
      have h1 := hm s1 (by simp)
      have h2 := hm s2 (by simp)
      have h3 := hm s3 (by simp)
      have htl : tl = [] := by
        simp at hl; cases tl with
        | nil => rfl
        | cons _ _ => simp at hl; omega
      subst htl
      have hk : k = 0 := by simp at hl; omega
      subst hk
      simp at h
      subst h
      refine ⟨0, by omega, ?_, ?_⟩
      · rw [enc_of_sextets3 u s0 s1 s2 s3 h1 h2 h3 []]; simpa [b64Encode] using e
      · intro x hx; simp at hx; rcases hx with rfl | rfl | rfl <;> omega

/-- Everything the decoder accepts is the canonical unpadded encoding of its result followed by at
most two `=`: nothing else decodes. -/
theorem b64_decode_sound (u : Bool) : ∀ (inp bs : List Nat), Bytes inp → b64DecodeBytes u inp = .ok bs →
    ∃ k, k ≤ 2 ∧ inp = b64Encode u false bs ++ List.replicate k PAD ∧ Bytes bs
  | [], bs, _, h => by
    simp [b64DecodeBytes] at h; subst h; exact ⟨0, by omega, by simp [b64Encode], by simp [Bytes]⟩
  | [a], bs, hb, h => by
    exact decodeSuffix_sound u _ (by simp) hb bs (by simpa [b64DecodeBytes] using h)
  | [a, b], bs, hb, h => by
    exact decodeSuffix_sound u _ (by simp) hb bs (by simpa [b64DecodeBytes] using h)
  | [a, b, c], bs, hb, h => by
    exact decodeSuffix_sound u _ (by simp) hb bs (by simpa [b64DecodeBytes] using h)
  | [a, b, c, d], bs, hb, h => by
    exact decodeSuffix_sound u _ (by simp) hb bs (by simpa [b64DecodeBytes] using h)
  | a :: b :: c :: d :: e :: rest, bs, hb, h => by
    rw [b64DecodeBytes] at h
    have ha := hb a (by simp)
    have hb2 := hb b (by simp)
    have hc := hb c (by simp)
    have hd := hb d (by simp)
    have hr : Bytes (e :: rest) := fun x hx => hb x (by
      simp only [List.mem_cons] at hx ⊢
      rcases hx with h | h <;> simp [h])
    cases h0 : decSym u a with
    | none => simp [h0] at h
    | some s0 =>
    cases h1 : decSym u b with
    | none => simp [h0, h1] at h
    | some s1 =>
    cases h2 : decSym u c with
    | none => simp [h0, h1, h2] at h
    | some s2 =>
    cases h3 : decSym u d with
    | none => simp [h0, h1, h2, h3] at h
    | some s3 =>
    simp only [h0, h1, h2, h3] at h
    cases hrec : b64DecodeBytes u (e :: rest) with
    | error err => simp [hrec] at h
    | ok out =>
      simp only [hrec] at h
      injection h with h
      subst h
      obtain ⟨k, hk, e', hbo⟩ := b64_decode_sound u (e :: rest) out hr hrec
      obtain ⟨l0, rfl⟩ := decSym_sound u a ha s0 h0
      obtain ⟨l1, rfl⟩ := decSym_sound u b hb2 s1 h1
      obtain ⟨l2, rfl⟩ := decSym_sound u c hc s2 h2
      obtain ⟨l3, rfl⟩ := decSym_sound u d hd s3 h3
      refine ⟨k, hk, ?_, ?_⟩
      · rw [enc_of_sextets3 u s0 s1 s2 s3 l1 l2 l3 out, e']; simp
      · intro x hx
        simp only [List.mem_cons] at hx
        rcases hx with rfl | rfl | rfl | hx
        · omega
        · omega
        · omega
        · exact hbo x hx

end Tera.Contrib
