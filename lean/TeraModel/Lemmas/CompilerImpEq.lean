/-
The mutable-pass model of the compiler (Model/CompilerImp.lean) agrees with the functional model
(Model/Compiler.lean): started in any `Compiler` state, `compile_expr(e)` / `compile_node(n)` append
exactly `exprCode chunk.len() get_current_loop() e` to the chunk (placeholders patched), record
exactly `exprEvents …`, and leave `processing_bodies` and `block_depth` as they were — provided no
panic site is among the recorded events (which is the case for a scoped AST); in particular none of
the `unreachable!()` sites of compiler.rs is reached.
-/
import TeraModel.Model.CompilerImp
import TeraModel.Lemmas.CompilerKwOrder
import Mathlib.Tactic.CasesM
namespace Tera.Compiler.Imp
open Tera Tera.Compiler

/-- the state after appending `code` and recording `evs` -/
def Res (c : Comp) (code : Code) (evs : List Event) : Comp :=
  { c with chunk := c.chunk ++ code, events := c.events ++ evs }

def NoPanicEv (ev : Event) : Prop := ev.isPanic = none

@[simp] theorem add_chunk (c i s) : (add c i s).chunk = c.chunk ++ [(i, s)] := rfl
@[simp] theorem add_bodies (c i s) : (add c i s).bodies = c.bodies := rfl
@[simp] theorem add_events (c i s) : (add c i s).events = c.events := rfl
@[simp] theorem add_depth (c i s) : (add c i s).depth = c.depth := rfl
@[simp] theorem record_chunk (c ev) : (record c ev).chunk = c.chunk := rfl
@[simp] theorem record_bodies (c ev) : (record c ev).bodies = c.bodies := rfl
@[simp] theorem record_events (c ev) : (record c ev).events = c.events ++ [ev] := rfl
@[simp] theorem record_depth (c ev) : (record c ev).depth = c.depth := rfl
@[simp] theorem res_chunk (c code evs) : (Res c code evs).chunk = c.chunk ++ code := rfl
@[simp] theorem res_bodies (c code evs) : (Res c code evs).bodies = c.bodies := rfl
@[simp] theorem res_events (c code evs) : (Res c code evs).events = c.events ++ evs := rfl
@[simp] theorem res_depth (c code evs) : (Res c code evs).depth = c.depth := rfl

@[simp] theorem currentLoop_nil : currentLoop [] = none := rfl
@[simp] theorem currentLoop_loop (i b) : currentLoop (.loop i :: b) = some i := rfl
@[simp] theorem currentLoop_branch (i b) : currentLoop (.branch i :: b) = currentLoop b := rfl
@[simp] theorem currentLoop_short (l b) : currentLoop (.shortCircuit l :: b) = currentLoop b := rfl

theorem patchPopJump_ok (code : Code) (idx target : Nat) (site : String) (t0 : Nat) (s : Bool)
    (h : code[idx]? = some (.popJumpIfFalse t0, s)) :
    patchPopJump code idx target site = .ok (code.set idx (.popJumpIfFalse target, s)) := by
  simp [patchPopJump, h]

theorem patchIterate_ok (code : Code) (idx target : Nat) (site : String) (t0 : Nat) (s : Bool)
    (h : code[idx]? = some (.iterate t0, s)) :
    patchIterate code idx target site = .ok (code.set idx (.iterate target, s)) := by
  simp [patchIterate, h]

theorem condCode_of_none (b : Nat) (l : Option Nat) (o : Option Expr) (h : ¬ o.isSome = true) :
    condCode b l o = [] := by
  cases o <;> simp_all [condCode]

theorem compileFilters_cons (x : Expr) (xs : List Expr) (c : Comp) :
    compileFilters (x :: xs) c = bnd (compileFilters [x] c) fun c => compileFilters xs c := by
  cases x <;> simp [compileFilters]
  rename_i e n k
  cases compileKwargs k c <;> simp [bnd]

theorem filtersCode_cons (x : Expr) (xs : List Expr) (b : Nat) (l : Option Nat) :
    filtersCode b l (x :: xs)
      = filtersCode b l [x] ++ filtersCode (b + (filtersCode b l [x]).length) l xs := by
  cases x <;> simp [filtersCode]

theorem set_at {α : Type} (a : List α) (x y : α) (r : List α) (i : Nat) (h : i = a.length) :
    (a ++ x :: r).set i y = a ++ y :: r := by subst h; simp

theorem idx_pjif (P cc E R : Code) (x : CEntry) :
    (((P ++ (cc ++ [x])) ++ E) ++ R)[P.length + cc.length]? = some x := by grind

theorem idx_iter (P0 M E R S : Code) (it v : CEntry) (i : Nat) (hi : P0.length < i) :
    ((((((P0 ++ [it]) ++ M) ++ E) ++ R).set i v) ++ S)[P0.length]? = some it := by grind

theorem idx_iter' (P0 M E R S : Code) (it : CEntry) :
    ((((((P0 ++ [it]) ++ M) ++ E) ++ R)) ++ S)[P0.length]? = some it := by grind

theorem comp_final (P0 cc E : Code) (it it' x x' app j pl : CEntry) (i : Nat)
    (hi : i = (P0 ++ [it]).length + cc.length) :
    ((((((P0 ++ [it]) ++ (cc ++ [x])) ++ E) ++ [app]).set i x') ++ [j]).set P0.length it' ++ [pl]
      = P0 ++ ([it'] ++ (cc ++ ([x'] ++ (E ++ [app, j, pl])))) := by
  subst hi; grind

theorem idx_iter2 (P0 E R S : Code) (it : CEntry) :
    ((((P0 ++ [it]) ++ E) ++ R) ++ S)[P0.length]? = some it := by grind

theorem comp_final2 (P0 E : Code) (it it' app j pl : CEntry) :
    ((((((P0 ++ [it]) ++ []) ++ E) ++ [app]) ++ [j]).set P0.length it') ++ [pl]
      = P0 ++ ([it'] ++ (E ++ [app, j, pl])) := by
  have : (((((P0 ++ [it]) ++ []) ++ E) ++ [app]) ++ [j]) = P0 ++ it :: (E ++ [app, j]) := by simp
  rw [this, set_at P0 it it' _ _ rfl]
  simp

theorem comp_ext (a b : Comp) (h1 : a.chunk = b.chunk) (h2 : a.bodies = b.bodies)
    (h3 : a.events = b.events) (h4 : a.depth = b.depth) : a = b := by
  cases a; cases b; simp_all

/-- what the theorem says of `f x c`: it returns, having appended `code` and recorded `evs` -/
def Agrees (r : M Comp) (c : Comp) (code : Code) (evs : List Event) : Prop := r = .ok (Res c code evs)

def ImM1 (e : Expr) : Prop :=
  (∀ c, AllE NoPanicEv (exprEvents (currentLoop c.bodies).isSome c.depth e) →
    compileExpr e c = .ok (Res c (exprCode c.chunk.length (currentLoop c.bodies) e)
      (exprEvents (currentLoop c.bodies).isSome c.depth e))) ∧
  (∀ c, AllE NoPanicEv (filtersEvents (currentLoop c.bodies).isSome c.depth [e]) →
    compileFilters [e] c = .ok (Res c (filtersCode c.chunk.length (currentLoop c.bodies) [e])
      (filtersEvents (currentLoop c.bodies).isSome c.depth [e])))
def ImM2 (ns : List Node) : Prop :=
  ∀ c, AllE NoPanicEv (nodesEvents (currentLoop c.bodies).isSome c.depth ns) →
    compileNodes ns c = .ok (Res c (nodesCode c.chunk.length (currentLoop c.bodies) ns)
      (nodesEvents (currentLoop c.bodies).isSome c.depth ns))
def ImM3 (n : Node) : Prop :=
  ∀ c, AllE NoPanicEv (nodeEvents (currentLoop c.bodies).isSome c.depth n) →
    compileNode n c = .ok (Res c (nodeCode c.chunk.length (currentLoop c.bodies) n)
      (nodeEvents (currentLoop c.bodies).isSome c.depth n))
def ImM4 (k : List (String × Expr)) : Prop :=
  ∀ c, AllE NoPanicEv (kwargsEvents (currentLoop c.bodies).isSome c.depth k) →
    compileKwargs k c = .ok (Res c (kwargsCode c.chunk.length (currentLoop c.bodies) k)
      (kwargsEvents (currentLoop c.bodies).isSome c.depth k))
def ImM5 (f : List Expr) : Prop :=
  ∀ c, AllE NoPanicEv (filtersEvents (currentLoop c.bodies).isSome c.depth f) →
    compileFilters f c = .ok (Res c (filtersCode c.chunk.length (currentLoop c.bodies) f)
      (filtersEvents (currentLoop c.bodies).isSome c.depth f))
def ImM6 (o : Option Expr) : Prop :=
  ∀ c, AllE NoPanicEv (optExprEvents (currentLoop c.bodies).isSome c.depth o) →
    compileCond o c = .ok
      (Res c (condCode c.chunk.length (currentLoop c.bodies) o
              ++ (if o.isSome then [ns (.popJumpIfFalse 0)] else []))
        (optExprEvents (currentLoop c.bodies).isSome c.depth o),
       if o.isSome then some (c.chunk.length + (condCode c.chunk.length (currentLoop c.bodies) o).length)
       else none)
def ImM7 (o : Option Expr) : Prop :=
  ∀ c dflt, AllE NoPanicEv (optExprEvents (currentLoop c.bodies).isSome c.depth o) →
    compileOpt dflt o c = .ok (Res c (optExprCode c.chunk.length (currentLoop c.bodies) dflt o)
      (optExprEvents (currentLoop c.bodies).isSome c.depth o))
def ImM8 (a : List ArrayEntry) : Prop :=
  ∀ c, AllE NoPanicEv (arrayItemsEvents (currentLoop c.bodies).isSome c.depth a) →
    compileArrayItems a c = .ok (Res c (arrayItemsCode c.chunk.length (currentLoop c.bodies) a)
      (arrayItemsEvents (currentLoop c.bodies).isSome c.depth a))
def ImM9 (m : List MapEntry) : Prop :=
  ∀ c, AllE NoPanicEv (mapItemsEvents (currentLoop c.bodies).isSome c.depth m) →
    compileMapItems m c = .ok (Res c (mapItemsCode c.chunk.length (currentLoop c.bodies) m)
      (mapItemsEvents (currentLoop c.bodies).isSome c.depth m))

macro "imp_simp" : tactic => `(tactic| simp (config := { zetaDelta := true }) [*, exprCode, nodesCode, nodeCode,
      kwargsCode, filtersCode, condCode, optExprCode, arrayItemsCode, mapItemsCode, Res, add, record,
      List.append_assoc, sp, ns, storeKey, keyStore, Nat.add_assoc, currentLoop_nil, currentLoop_loop, currentLoop_branch, currentLoop_short,
      endBranch, patchBranch, patchShort, patchIterate, patchPopJump] at *)

/-- everything of `imp_simp` except the hypotheses: evaluate the patches, normalise, compare -/
macro "imp_eval" : tactic => `(tactic| simp (config := { zetaDelta := true }) [exprCode, nodesCode, nodeCode,
      kwargsCode, filtersCode, condCode, optExprCode, arrayItemsCode, mapItemsCode, Res, add, record,
      List.append_assoc, sp, ns, storeKey, keyStore, Nat.add_assoc, currentLoop_nil, currentLoop_loop,
      currentLoop_branch, currentLoop_short, endBranch, patchBranch, patchShort, patchIterate, patchPopJump])

/-- the side condition of an induction hypothesis: no panic event in the sub-term, in the state the
sub-call starts in (same current loop, same depth) -/
macro "imp_side" : tactic => `(tactic| (
  try simp only [res_bodies, res_depth, add_bodies, add_depth, record_bodies, record_depth, currentLoop_nil,
    currentLoop_loop, currentLoop_branch, currentLoop_short, Option.isSome_some, Option.isSome_none]
  assumption))

/-- rewrite the recursive calls with the induction hypotheses and run the binds -/
macro "imp_calls" : tactic => `(tactic| simp (config := { zetaDelta := true }) (disch := imp_side) only
  [*, bnd_ok, bnd_error, res_bodies, res_chunk, res_events, res_depth, add_chunk, add_bodies, add_events,
   add_depth, record_chunk, record_bodies, record_events, record_depth])

macro "imp_unfold" : tactic => `(tactic| simp only [compileExpr, compileNodes, compileNode, compileKwargs,
    compileFilters, compileCond, compileOpt, compileArrayItems, compileMapItems, exprEvents, nodesEvents,
    nodeEvents, kwargsEvents, filtersEvents, optExprEvents, arrayItemsEvents, mapItemsEvents, allE_append,
    allE_cons, allE_nil, and_true, true_and] at *)

macro "imp_tail" : tactic => `(tactic| (
  (try imp_unfold)
  (try simp only [Bool.false_eq_true, ↓reduceIte, if_true, if_false, Bool.not_true, Bool.not_false,
    Option.isSome_some, Option.isSome_none, Bool.not_eq_true, *] at *)
  (try casesm* _ ∧ _)
  (repeat (first | imp_calls | imp_eval))
  (try grind)))

set_option maxHeartbeats 3200000 in
theorem imp_eq_aux :
    (∀ e, ImM1 e) ∧ (∀ ns, ImM2 ns) ∧ (∀ n, ImM3 n) ∧ (∀ k, ImM4 k) ∧ (∀ f, ImM5 f) ∧
    (∀ o, ImM6 o ∧ ImM7 o) ∧ (∀ a, ImM8 a) ∧ (∀ m, ImM9 m) := by
  apply reExpr.mutual_induct
    (motive_1 := fun e => ImM1 e)
    (motive_2 := fun ns => ImM2 ns)
    (motive_3 := fun n => ImM3 n)
    (motive_4 := fun k => ImM4 k)
    (motive_5 := fun f => ImM5 f)
    (motive_6 := fun o => ImM6 o ∧ ImM7 o)
    (motive_7 := fun a => ImM8 a)
    (motive_8 := fun m => ImM9 m)
  case case15 =>
    intro op l r ih1 ih2
    simp only [ImM1] at *
    refine ⟨?_, fun c _ => by simp [compileFilters, filtersCode, filtersEvents, Res]⟩
    intro c h
    cases op <;> (try imp_unfold) <;> (try (simp [NoPanicEv, Event.isPanic] at h; done)) <;>
      (try casesm* _ ∧ _) <;> (repeat (first | imp_calls | imp_eval)) <;> (try grind)
  case case24 =>
    simp only [ImM3]
    intro c h
    cases hl : currentLoop c.bodies <;>
      simp [compileNode, nodeEvents, nodeCode, hl, NoPanicEv, Event.isPanic, Res, add, ns] at h ⊢
  case case12 =>
    intro n k b sc ih1 ih2
    simp only [ImM1, ImM2, ImM9] at *
    refine ⟨?_, fun c _ => by simp [compileFilters, filtersCode, filtersEvents, Res]⟩
    intro c h
    cases sc <;> imp_tail
  case case25 =>
    intro cnd body els ih1 ih2 ih3
    simp only [ImM1, ImM2, ImM3] at *
    intro c h
    by_cases hE : els = []
    · subst hE; clear ih3; imp_tail
    · have hE' : els.isEmpty = false := by cases els <;> simp_all
      imp_tail
  case case22 =>
    intro k v t body els ih1 ih2 ih3
    simp only [ImM1, ImM2, ImM3] at *
    intro c h
    by_cases hE : els = []
    · subst hE; clear ih3; cases k <;> imp_tail
    · have hE' : els.isEmpty = false := by cases els <;> simp_all
      cases k <;> imp_tail
  case case11 =>
    intro e k v t cnd ih1 ih2 ih3
    simp only [ImM1, ImM6, ImM7] at *
    obtain ⟨ih1, -⟩ := ih1
    obtain ⟨ih2, -⟩ := ih2
    obtain ⟨ih3, -⟩ := ih3
    refine ⟨?_, fun c _ => by simp [compileFilters, filtersCode, filtersEvents, Res]⟩
    intro c h
    imp_unfold
    obtain ⟨⟨h1, h2⟩, h3⟩ := h
    by_cases hS : cnd.isSome = true
    · cases k <;>
      · simp only [storeKey]
        rw [ih2 _ (by imp_side)]
        simp only [bnd_ok, res_bodies, res_chunk, res_events, res_depth, add_chunk, add_bodies, add_events, add_depth]
        rw [ih3 _ (by imp_side)]
        simp only [bnd_ok, hS, ↓reduceIte, res_bodies, res_chunk, res_events, res_depth, add_chunk, add_bodies,
          add_events, add_depth]
        rw [ih1 _ (by imp_side)]
        simp only [bnd_ok, res_bodies, res_chunk, res_events, res_depth, add_chunk, add_bodies, add_events, add_depth]
        simp only [ns]
        rw [patchPopJump_ok _ _ _ _ 0 false (idx_pjif _ _ _ _ _)]
        simp only [bnd_ok, add_chunk, add_bodies, add_events, add_depth]
        rw [patchIterate_ok _ _ _ _ 0 false (idx_iter _ _ _ _ _ _ _ _ (by simp; omega))]
        simp only [bnd_ok, add_chunk, add_bodies, add_events, add_depth]
        refine congrArg Except.ok (comp_ext _ _ ?_ ?_ ?_ ?_)
        · simp only [add_chunk, res_chunk]
          rw [comp_final _ _ _ _ _ _ _ _ _ _ _ rfl]
          simp [exprCode, List.append_assoc, keyStore, sp, ns, hS, Nat.add_assoc]
          grind
        · simp
        · simp [List.append_assoc]
        · simp
    · have hc : ∀ b l, condCode b l cnd = [] := fun b l => condCode_of_none b l cnd hS
      cases k <;>
      · simp only [storeKey]
        rw [ih2 _ (by imp_side)]
        simp only [bnd_ok, res_bodies, res_chunk, res_events, res_depth, add_chunk, add_bodies, add_events, add_depth]
        rw [ih3 _ (by imp_side)]
        simp only [bnd_ok, hS, hc, Bool.false_eq_true, ↓reduceIte, List.append_nil, res_bodies, res_chunk,
          res_events, res_depth, add_chunk, add_bodies, add_events, add_depth]
        rw [ih1 _ (by imp_side)]
        simp only [bnd_ok, res_bodies, res_chunk, res_events, res_depth, add_chunk, add_bodies, add_events, add_depth]
        rw [patchIterate_ok _ _ _ _ 0 false (idx_iter' _ _ _ _ _ _)]
        simp only [bnd_ok, add_chunk, add_bodies, add_events, add_depth]
        refine congrArg Except.ok (comp_ext _ _ ?_ ?_ ?_ ?_)
        · simp only [add_chunk, res_chunk]
          rw [comp_final2]
          simp [exprCode, List.append_assoc, keyStore, sp, ns, hS, hc, Nat.add_assoc]
          grind
        · simp
        · simp [List.append_assoc]
        · simp
  case case40 =>
    intro e rest ih1 ih2
    simp only [ImM1, ImM5] at *
    obtain ⟨-, ih1⟩ := ih1
    intro c h
    rw [filtersEvents_cons] at h ⊢
    rw [allE_append] at h
    rw [compileFilters_cons, ih1 c h.1]
    simp only [bnd_ok]
    rw [ih2 _ (by simpa using h.2), filtersCode_cons e rest]
    simp [Res, List.append_assoc]
  all_goals intros
  all_goals (try simp only [ImM1, ImM2, ImM3, ImM4, ImM5, ImM6, ImM7, ImM8, ImM9] at *)
  all_goals (try (refine ⟨?_, ?_⟩))
  all_goals intros
  all_goals (try simp only [compileExpr, compileNodes, compileNode, compileKwargs, compileFilters, compileCond,
    compileOpt, compileArrayItems, compileMapItems, exprEvents, nodesEvents, nodeEvents, kwargsEvents,
    filtersEvents, optExprEvents, arrayItemsEvents, mapItemsEvents, allE_append, allE_cons, allE_nil,
    and_true, true_and] at *)
  all_goals (try (simp [NoPanicEv, Event.isPanic] at *; done))
  all_goals (try casesm* _ ∧ _)
  all_goals (try (
    (try split)
    all_goals (repeat (first | imp_calls | imp_eval))
    all_goals (try grind)
    done))

/-- `compile(nodes)` in any compiler state: appends `nodesCode`, records `nodesEvents`, leaves
`processing_bodies` and `block_depth` alone, reaches no `unreachable!()` / `unwrap()` site — provided
the recorded events contain no panic site -/
theorem imp_eq_nodes (ns : List Node) (c : Comp)
    (h : AllE NoPanicEv (nodesEvents (currentLoop c.bodies).isSome c.depth ns)) :
    compileNodes ns c = .ok (Res c (nodesCode c.chunk.length (currentLoop c.bodies) ns)
      (nodesEvents (currentLoop c.bodies).isSome c.depth ns)) :=
  imp_eq_aux.2.1 ns c h

/-- for a scoped node list, from a fresh `Compiler` -/
theorem imp_eq_scoped (ns : List Node) (h : nodesScoped false ns = true) :
    compileNodes ns Comp.new
      = .ok { chunk := nodesCode 0 none ns, bodies := [], events := nodesEvents false 0 ns, depth := 0 } := by
  have hg := scoped_good_aux.2.1 false 0 ns false h (fun x => x)
  have hn : AllE NoPanicEv (nodesEvents (currentLoop Comp.new.bodies).isSome Comp.new.depth ns) := by
    intro ev hev
    have := hg ev hev
    cases ev <;> simp_all [NoPanicEv, Event.isPanic, Good, Comp.new]
  rw [imp_eq_nodes ns Comp.new hn]
  simp [Res, Comp.new]

end Tera.Compiler.Imp
