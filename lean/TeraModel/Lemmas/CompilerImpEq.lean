/-
The mutable-pass model of the compiler (Model/CompilerImp.lean) agrees with the functional model
(Model/Compiler.lean): started in any `Compiler` state, `compile_expr(e)` / `compile_node(n)` append
exactly `exprCode chunk.len() get_current_loop() e` to the chunk (placeholders patched), record
exactly `exprEvents …`, and leave `processing_bodies` and `block_depth` as they were — provided no
panic site is among the recorded events (which is the case for a scoped AST); in particular none of
the `unreachable!()` sites of compiler.rs is reached.
-/
import TeraModel.Model.CompilerImp
import TeraModel.Lemmas.CompilerKwOrder
import Mathlib.Tactic.CasesM
namespace Tera.Compiler.Imp
open Tera Tera.Compiler

/-- the state after appending `code` and recording `evs` -/
def Res (c : Comp) (code : Code) (evs : List Event) : Comp :=
  { c with chunk := c.chunk ++ code, events := c.events ++ evs }

def NoPanicEv (ev : Event) : Prop := ev.isPanic = none

@[simp] theorem add_chunk (c i s) : (add c i s).chunk = c.chunk ++ [(i, s)] := rfl
@[simp] theorem add_bodies (c i s) : (add c i s).bodies = c.bodies := rfl
@[simp] theorem add_events (c i s) : (add c i s).events = c.events := rfl
@[simp] theorem add_depth (c i s) : (add c i s).depth = c.depth := rfl
@[simp] theorem record_chunk (c ev) : (record c ev).chunk = c.chunk := rfl
@[simp] theorem record_bodies (c ev) : (record c ev).bodies = c.bodies := rfl
@[simp] theorem record_events (c ev) : (record c ev).events = c.events ++ [ev] := rfl
@[simp] theorem record_depth (c ev) : (record c ev).depth = c.depth := rfl
@[simp] theorem res_chunk (c code evs) : (Res c code evs).chunk = c.chunk ++ code := rfl
@[simp] theorem res_bodies (c code evs) : (Res c code evs).bodies = c.bodies := rfl
@[simp] theorem res_events (c code evs) : (Res c code evs).events = c.events ++ evs := rfl
@[simp] theorem res_depth (c code evs) : (Res c code evs).depth = c.depth := rfl

@[simp] theorem currentLoop_nil : currentLoop [] = none := rfl
@[simp] theorem currentLoop_loop (i b) : currentLoop (.loop i :: b) = some i := rfl
@[simp] theorem currentLoop_branch (i b) : currentLoop (.branch i :: b) = currentLoop b := rfl
@[simp] theorem currentLoop_short (l b) : currentLoop (.shortCircuit l :: b) = currentLoop b := rfl

theorem comp_ext (a b : Comp) (h1 : a.chunk = b.chunk) (h2 : a.bodies = b.bodies)
    (h3 : a.events = b.events) (h4 : a.depth = b.depth) : a = b := by
  cases a; cases b; simp_all

/-- what the theorem says of `f x c`: it returns, having appended `code` and recorded `evs` -/
def Agrees (r : M Comp) (c : Comp) (code : Code) (evs : List Event) : Prop := r = .ok (Res c code evs)

def ImM1 (e : Expr) : Prop :=
  ∀ c, AllE NoPanicEv (exprEvents (currentLoop c.bodies).isSome c.depth e) →
    compileExpr e c = .ok (Res c (exprCode c.chunk.length (currentLoop c.bodies) e)
      (exprEvents (currentLoop c.bodies).isSome c.depth e))
def ImM2 (ns : List Node) : Prop :=
  ∀ c, AllE NoPanicEv (nodesEvents (currentLoop c.bodies).isSome c.depth ns) →
    compileNodes ns c = .ok (Res c (nodesCode c.chunk.length (currentLoop c.bodies) ns)
      (nodesEvents (currentLoop c.bodies).isSome c.depth ns))
def ImM3 (n : Node) : Prop :=
  ∀ c, AllE NoPanicEv (nodeEvents (currentLoop c.bodies).isSome c.depth n) →
    compileNode n c = .ok (Res c (nodeCode c.chunk.length (currentLoop c.bodies) n)
      (nodeEvents (currentLoop c.bodies).isSome c.depth n))
def ImM4 (k : List (String × Expr)) : Prop :=
  ∀ c, AllE NoPanicEv (kwargsEvents (currentLoop c.bodies).isSome c.depth k) →
    compileKwargs k c = .ok (Res c (kwargsCode c.chunk.length (currentLoop c.bodies) k)
      (kwargsEvents (currentLoop c.bodies).isSome c.depth k))
def ImM5 (f : List Expr) : Prop :=
  ∀ c, AllE NoPanicEv (filtersEvents (currentLoop c.bodies).isSome c.depth f) →
    compileFilters f c = .ok (Res c (filtersCode c.chunk.length (currentLoop c.bodies) f)
      (filtersEvents (currentLoop c.bodies).isSome c.depth f))
def ImM6 (o : Option Expr) : Prop :=
  ∀ c, AllE NoPanicEv (optExprEvents (currentLoop c.bodies).isSome c.depth o) →
    compileCond o c = .ok
      (Res c (condCode c.chunk.length (currentLoop c.bodies) o
              ++ (if o.isSome then [ns (.popJumpIfFalse 0)] else []))
        (optExprEvents (currentLoop c.bodies).isSome c.depth o),
       if o.isSome then some (c.chunk.length + (condCode c.chunk.length (currentLoop c.bodies) o).length)
       else none)
def ImM7 (o : Option Expr) : Prop :=
  ∀ c dflt, AllE NoPanicEv (optExprEvents (currentLoop c.bodies).isSome c.depth o) →
    compileOpt dflt o c = .ok (Res c (optExprCode c.chunk.length (currentLoop c.bodies) dflt o)
      (optExprEvents (currentLoop c.bodies).isSome c.depth o))
def ImM8 (a : List ArrayEntry) : Prop :=
  ∀ c, AllE NoPanicEv (arrayItemsEvents (currentLoop c.bodies).isSome c.depth a) →
    compileArrayItems a c = .ok (Res c (arrayItemsCode c.chunk.length (currentLoop c.bodies) a)
      (arrayItemsEvents (currentLoop c.bodies).isSome c.depth a))
def ImM9 (m : List MapEntry) : Prop :=
  ∀ c, AllE NoPanicEv (mapItemsEvents (currentLoop c.bodies).isSome c.depth m) →
    compileMapItems m c = .ok (Res c (mapItemsCode c.chunk.length (currentLoop c.bodies) m)
      (mapItemsEvents (currentLoop c.bodies).isSome c.depth m))

macro "imp_simp" : tactic => `(tactic| simp (config := { zetaDelta := true }) [*, exprCode, nodesCode, nodeCode,
      kwargsCode, filtersCode, condCode, optExprCode, arrayItemsCode, mapItemsCode, Res, add, record,
      List.append_assoc, sp, ns, storeKey, keyStore, Nat.add_assoc, currentLoop_nil, currentLoop_loop, currentLoop_branch, currentLoop_short,
      endBranch, patchBranch, patchShort, patchIterate, patchPopJump] at *)

/-- everything of `imp_simp` except the hypotheses: evaluate the patches, normalise, compare -/
macro "imp_eval" : tactic => `(tactic| simp (config := { zetaDelta := true }) [exprCode, nodesCode, nodeCode,
      kwargsCode, filtersCode, condCode, optExprCode, arrayItemsCode, mapItemsCode, Res, add, record,
      List.append_assoc, sp, ns, storeKey, keyStore, Nat.add_assoc, currentLoop_nil, currentLoop_loop,
      currentLoop_branch, currentLoop_short, endBranch, patchBranch, patchShort, patchIterate, patchPopJump])

/-- the side condition of an induction hypothesis: no panic event in the sub-term, in the state the
sub-call starts in (same current loop, same depth) -/
macro "imp_side" : tactic => `(tactic| (
  try simp only [res_bodies, res_depth, add_bodies, add_depth, record_bodies, record_depth, currentLoop_nil,
    currentLoop_loop, currentLoop_branch, currentLoop_short, Option.isSome_some, Option.isSome_none]
  assumption))

/-- rewrite the recursive calls with the induction hypotheses and run the binds -/
macro "imp_calls" : tactic => `(tactic| simp (config := { zetaDelta := true }) (disch := imp_side) only
  [*, bnd_ok, bnd_error, res_bodies, res_chunk, res_events, res_depth, add_chunk, add_bodies, add_events,
   add_depth, record_chunk, record_bodies, record_events, record_depth])

macro "imp_unfold" : tactic => `(tactic| simp only [compileExpr, compileNodes, compileNode, compileKwargs,
    compileFilters, compileCond, compileOpt, compileArrayItems, compileMapItems, exprEvents, nodesEvents,
    nodeEvents, kwargsEvents, filtersEvents, optExprEvents, arrayItemsEvents, mapItemsEvents, allE_append,
    allE_cons, allE_nil, and_true, true_and] at *)

set_option maxHeartbeats 1600000 in
theorem imp_eq_aux :
    (∀ e, ImM1 e) ∧ (∀ ns, ImM2 ns) ∧ (∀ n, ImM3 n) ∧ (∀ k, ImM4 k) ∧ (∀ f, ImM5 f) ∧
    (∀ o, ImM6 o ∧ ImM7 o) ∧ (∀ a, ImM8 a) ∧ (∀ m, ImM9 m) := by
  apply reExpr.mutual_induct
    (motive_1 := fun e => ImM1 e)
    (motive_2 := fun ns => ImM2 ns)
    (motive_3 := fun n => ImM3 n)
    (motive_4 := fun k => ImM4 k)
    (motive_5 := fun f => ImM5 f)
    (motive_6 := fun o => ImM6 o ∧ ImM7 o)
    (motive_7 := fun a => ImM8 a)
    (motive_8 := fun m => ImM9 m)
  case case15 =>
    intro op l r ih1 ih2
    simp only [ImM1] at *
    intro c h
    cases op <;> (try imp_unfold) <;> (try (simp [NoPanicEv, Event.isPanic] at h; done)) <;>
      (try casesm* _ ∧ _) <;> (try imp_calls) <;> (try imp_eval) <;> (try grind)
  all_goals intros
  all_goals (try simp only [ImM1, ImM2, ImM3, ImM4, ImM5, ImM6, ImM7, ImM8, ImM9] at *)
  all_goals (try (refine ⟨?_, ?_⟩))
  all_goals intros
  all_goals (try simp only [compileExpr, compileNodes, compileNode, compileKwargs, compileFilters, compileCond,
    compileOpt, compileArrayItems, compileMapItems, exprEvents, nodesEvents, nodeEvents, kwargsEvents,
    filtersEvents, optExprEvents, arrayItemsEvents, mapItemsEvents, allE_append, allE_cons, allE_nil,
    and_true, true_and] at *)
  all_goals (try (simp [NoPanicEv, Event.isPanic] at *; done))
  all_goals (try casesm* _ ∧ _)
  all_goals (try (
    (try split)
    all_goals (try imp_calls)
    all_goals (try imp_eval)
    all_goals (try grind)
    done))
  all_goals trace_state
  all_goals sorry

end Tera.Compiler.Imp
