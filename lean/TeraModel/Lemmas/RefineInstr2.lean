/-
Compiler correctness (Props/Refine.lean), part 2b: `BinarySubscript` and `Slice` against the
evaluator's `getItem` / `slice` arms.

The evaluator's arms, once the operands are evaluated, are the functions `itemTail` and
`sliceTail` below (`evalExpr_getItem_ok`, `evalExpr_slice_ok` in Lemmas/RefineExpr.lean).

`Slice` reads its three bounds with `Vm.sliceBound` (Model/Vm.lean), the evaluator with
`Tera.sliceBound` (Model/Eval.lean): two implementations of the same rule ("none = absent,
undefined = error, otherwise an `i128`"), related by `sliceBound_ok` / `sliceBound_error`.
An absent bound is a constant the compiler loads WITHOUT a span (`LoadConst(None)` /
`LoadConst(1i64)`; the evaluator's default step is `1u64`): such a slot is never reported on,
because it always is a good bound (`BoundRel`, second alternative).
-/
import TeraModel.Lemmas.RefineInstr
namespace Tera.Refine
open Tera Tera.Vm Tera.Compiler

/-! ### `BinarySubscript` -/

/-- the evaluator's `getItem` arm on the evaluated base `a` and index `s` -/
def itemTail (opt : Bool) (a s : Value) : Except Err Value :=
  if opt && (a.isUndef || a.isNone) then .ok .undef
  else if a.isUndef then .error .undefined
  else if s.isUndef then .error .undefined
  else match a.getItem s with
    | .ok v => .ok v
    | .error _ => .error .index

section
variable {venv : Vm.Env} {vm : VmCtx} {c : Chunk}

theorem subscript_sim {pc : Nat} {opt : Bool}
    (h : EntryAt c pc (sp (if opt then .binarySubscriptOpt else .binarySubscript)))
    (ht : reportTargetOk venv vm c = true) (st : State) (a : Value) (ra : SpanRange)
    (s : Value) (rs : SpanRange) (hra : SpanOk c ra) (hrs : SpanOk c rs) :
    match itemTail opt a s with
    | .ok v => ∃ rg, Run venv vm c pc ((st.push a ra).push s rs) [pc] (pc + 1) (st.push v rg) ∧ SpanOk c rg
    | .error err => ∃ re, Fails venv vm c pc ((st.push a ra).push s rs) [pc] re ∧ errMatch err re = true := by
  have hown : SpanOk c (pc, pc) := by cases opt <;> exact spanOk_own h
  obtain ⟨vi, sps, hv, hc, _⟩ := h
  have hv' : vi = .binarySubscript opt := by
    cases opt <;> simp only [sp, Pipeline.vinstr, Option.some.injEq, Bool.false_eq_true, if_false, if_true] at hv <;>
      exact hv.symm
  subst hv'
  unfold itemTail
  by_cases h1 : (opt && (a.isUndef || a.isNone)) = true
  · rw [if_pos h1]
    exact ⟨_, Run.one hc (by intro rec; simp only [step, stepSubscript, State.push, h1, if_true]), hown⟩
  · rw [if_neg h1]
    by_cases h2 : a.isUndef = true
    · rw [if_pos h2]
      refine ⟨.index, Fails.here hc ?_, rfl⟩
      intro rec
      simp only [step, stepSubscript, State.push]
      rw [if_neg h1, if_pos h2]
      exact renderingError_eq ht hra _
    · rw [if_neg h2]
      by_cases h3 : s.isUndef = true
      · rw [if_pos h3]
        refine ⟨.index, Fails.here hc ?_, rfl⟩
        intro rec
        simp only [step, stepSubscript, State.push]
        rw [if_neg h1, if_neg h2, if_pos h3]
        exact renderingError_eq ht hrs _
      · rw [if_neg h3]
        cases hg : a.getItem s with
        | ok v =>
          exact ⟨_, Run.one hc (by
            intro rec
            simp only [step, stepSubscript, State.push]
            rw [if_neg h1, if_neg h2, if_neg h3, hg]), hra.combine hrs⟩
        | error e =>
          refine ⟨.index, Fails.here hc ?_, rfl⟩
          intro rec
          simp only [step, stepSubscript, State.push]
          rw [if_neg h1, if_neg h2, if_neg h3, hg]
          exact renderingError_eq ht hrs _
end

/-! ### `Slice` -/

theorem sliceBound_ok {v : Value} {b : Option Int} (h : Tera.sliceBound v = .ok b) :
    Vm.sliceBound v = .val b := by
  unfold Tera.sliceBound at h
  unfold Vm.sliceBound
  cases v
  case none => simp only [Except.ok.injEq] at h; subst h; rfl
  case undef => cases h
  all_goals
    simp only [Value.isNone, Value.isUndef, Bool.false_eq_true, if_false]
    simp only at h
    split at h
    · rename_i n heq
      simp only [Except.ok.injEq] at h
      subst h
      simp only [heq]
    · cases h

theorem sliceBound_error {v : Value} {e : Err} (h : Tera.sliceBound v = .error e) :
    Vm.sliceBound v = .bad ∧ (e = .undefined ∨ e = .index) := by
  unfold Tera.sliceBound at h
  unfold Vm.sliceBound
  cases v
  case none => cases h
  case undef => simp only [Except.error.injEq] at h; subst h; exact ⟨rfl, .inl rfl⟩
  all_goals
    simp only [Value.isNone, Value.isUndef, Bool.false_eq_true, if_false]
    simp only at h
    split at h
    · cases h
    · rename_i heq
      simp only [Except.error.injEq] at h
      subst h
      simp [heq]

/-- the VM's slot `(w, rg)` stands for the evaluator's bound value `v`: the same value under a
reportable span, or a good bound either way (the span-less default constants) -/
def BoundRel (c : Chunk) (v w : Value) (rg : SpanRange) : Prop :=
  (w = v ∧ SpanOk c rg) ∨ (∃ b, Tera.sliceBound v = .ok b ∧ Vm.sliceBound w = .val b)

/-- the evaluator's `slice` arm on the evaluated base and bounds -/
def sliceTail (opt : Bool) (a s e st : Value) : Except Err Value :=
  if opt && (a.isUndef || a.isNone) then .ok .undef
  else if a.isUndef then .error .undefined
  else
    match Tera.sliceBound s with
    | .error x => .error x
    | .ok s' =>
      match Tera.sliceBound e with
      | .error x => .error x
      | .ok e' =>
        match Tera.sliceBound st with
        | .error x => .error x
        | .ok st' =>
          match a.slice s' e' st' with
          | .ok v => .ok v
          | .error _ => .error .index

/-- what the VM's bound reader gives on a slot standing for `v` -/
theorem BoundRel.read {c : Chunk} {v w : Value} {rg : SpanRange} (h : BoundRel c v w rg) :
    match Tera.sliceBound v with
    | .ok b => Vm.sliceBound w = .val b
    | .error e => Vm.sliceBound w = .bad ∧ SpanOk c rg ∧ (e = .undefined ∨ e = .index) := by
  rcases h with ⟨rfl, hsp⟩ | ⟨b, h1, h2⟩
  · cases hb : Tera.sliceBound w with
    | ok b => exact sliceBound_ok hb
    | error e => exact ⟨(sliceBound_error hb).1, hsp, (sliceBound_error hb).2⟩
  · rw [h1]; exact h2

section
variable {venv : Vm.Env} {vm : VmCtx} {c : Chunk}

theorem slice_sim {pc : Nat} {opt : Bool}
    (h : EntryAt c pc (sp (if opt then .sliceOpt else .slice)))
    (ht : reportTargetOk venv vm c = true) (st : State) (a : Value) (ra : SpanRange)
    (v1 w1 : Value) (r1 : SpanRange) (v2 w2 : Value) (r2 : SpanRange) (v3 w3 : Value)
    (r3 : SpanRange) (hra : SpanOk c ra) (h1 : BoundRel c v1 w1 r1) (h2 : BoundRel c v2 w2 r2)
    (h3 : BoundRel c v3 w3 r3) :
    match sliceTail opt a v1 v2 v3 with
    | .ok v => ∃ rg, Run venv vm c pc ((((st.push a ra).push w1 r1).push w2 r2).push w3 r3) [pc]
        (pc + 1) (st.push v rg) ∧ SpanOk c rg
    | .error err => ∃ re, Fails venv vm c pc ((((st.push a ra).push w1 r1).push w2 r2).push w3 r3)
        [pc] re ∧ errMatch err re = true := by
  have hown : SpanOk c (pc, pc) := by cases opt <;> exact spanOk_own h
  obtain ⟨vi, sps, hv, hc, _⟩ := h
  have hv' : vi = .slice opt := by
    cases opt <;> simp only [sp, Pipeline.vinstr, Option.some.injEq, Bool.false_eq_true, if_false, if_true] at hv <;>
      exact hv.symm
  subst hv'
  unfold sliceTail
  by_cases c1 : (opt && (a.isUndef || a.isNone)) = true
  · rw [if_pos c1]
    exact ⟨_, Run.one hc (by intro rec; simp only [step, stepSlice, State.push, c1, if_true]), hown⟩
  · rw [if_neg c1]
    by_cases c2 : a.isUndef = true
    · rw [if_pos c2]
      refine ⟨.slice, Fails.here hc ?_, rfl⟩
      intro rec
      simp only [step, stepSlice, State.push]
      rw [if_neg c1, if_pos c2]
      exact renderingError_eq ht hra _
    · rw [if_neg c2]
      have e1 := h1.read
      cases hb1 : Tera.sliceBound v1 with
      | error x =>
        rw [hb1] at e1
        obtain ⟨e1a, e1b, e1c⟩ := e1
        refine ⟨.slice, Fails.here hc ?_, by rcases e1c with rfl | rfl <;> rfl⟩
        intro rec
        simp only [step, stepSlice, State.push]
        rw [if_neg c1, if_neg c2]
        simp only [e1a]
        exact renderingError_eq ht e1b _
      | ok b1 =>
        rw [hb1] at e1
        have e2 := h2.read
        cases hb2 : Tera.sliceBound v2 with
        | error x =>
          rw [hb2] at e2
          obtain ⟨e2a, e2b, e2c⟩ := e2
          refine ⟨.slice, Fails.here hc ?_, by rcases e2c with rfl | rfl <;> rfl⟩
          intro rec
          simp only [step, stepSlice, State.push]
          rw [if_neg c1, if_neg c2]
          simp only [e1, e2a]
          exact renderingError_eq ht e2b _
        | ok b2 =>
          rw [hb2] at e2
          have e3 := h3.read
          cases hb3 : Tera.sliceBound v3 with
          | error x =>
            rw [hb3] at e3
            obtain ⟨e3a, e3b, e3c⟩ := e3
            refine ⟨.slice, Fails.here hc ?_, by rcases e3c with rfl | rfl <;> rfl⟩
            intro rec
            simp only [step, stepSlice, State.push]
            rw [if_neg c1, if_neg c2]
            simp only [e1, e2, e3a]
            exact renderingError_eq ht e3b _
          | ok b3 =>
            rw [hb3] at e3
            cases hs : a.slice b1 b2 b3 with
            | ok v =>
              simp only [hs]
              exact ⟨_, Run.one hc (by
                intro rec
                simp only [step, stepSlice, State.push]
                rw [if_neg c1, if_neg c2]
                simp only [e1, e2, e3, hs]), hra⟩
            | error x =>
              simp only [hs]
              refine ⟨.slice, Fails.here hc ?_, rfl⟩
              intro rec
              simp only [step, stepSlice, State.push]
              rw [if_neg c1, if_neg c2]
              simp only [e1, e2, e3, hs]
              exact renderingError_eq ht hra _
end

end Tera.Refine
