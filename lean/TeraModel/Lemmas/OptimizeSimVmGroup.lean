/-
Helper lemmas for C09Vm: a fused group on the value-level VM.  `walkVals` is what both the fused
instruction and the `LoadName; LoadAttr*` sequence compute; the fused turn (`stepLoadPath` /
`stepWritePath`) and the run of the sequence (`runLoop`, exact fuel) are both expressed with it.
-/
import TeraModel.Lemmas.OptimizeSimVmArms3
set_option linter.unusedSectionVars false
set_option linter.unusedSimpArgs false
namespace Tera
namespace OptimizeSimVm
open Tera.Vm

/-- the value at the end of a path walk; `none` = an undefined value was met before the end -/
def walkVals : Value → List String → Option Value
  | cur, [] => some cur
  | cur, a :: rest => if cur.isUndef then none else walkVals ((cur.getAttr a.toList).getD .undef) rest

theorem getAttr_undef (v : Value) (a : List Char) (h : v.isUndef = true) : v.getAttr a = none := by
  cases v <;> simp [Value.isUndef] at h <;> rfl

/-- the three "undefined" errors, the ones a fused `LoadPath` / `WritePath` can exchange for those
of the sequence it replaces (missing root / field / undefined rendered) -/
def isUndefErr : RErr → Bool
  | .undefinedVariable | .undefinedField | .undefinedRender => true
  | _ => false

/-- what the interpreter loop returns when a turn ends in `raise` -/
def raiseRun (env : Env) (vm : VmCtx) (c : Chunk) (e : RErr) : RunRes :=
  if reportTargetOk env vm c then .err e else .panic "interpreter.rs:934 tera.templates[chunk.name]"

section fused
variable (env : Env) (vm : VmCtx) (c' : Chunk) (k : Nat)

theorem walkLoad_vals : ∀ (attrs : List String) (cur : Value) (j : Nat),
    (∀ i, i ≤ j + attrs.length → c'.hasSpanAt k i = true) →
    (∀ v, walkVals cur attrs = some v → walkLoad env vm c' k cur j attrs = .val v) ∧
    (walkVals cur attrs = none → ∃ e, walkLoad env vm c' k cur j attrs = .stop (raise env vm c' e) ∧ isUndefErr e = true)
  | [], cur, j, _ => by simp [walkVals, walkLoad]
  | a :: rest, cur, j, hsp => by
    have h1 : c'.hasSpanAt k (j + 1) = true := hsp _ (by simp)
    by_cases hu : cur.isUndef = true
    · simp only [walkVals, walkLoad, hu, ↓reduceIte, reduceCtorEq, false_implies, implies_true, true_and,
        errorAt, h1]
      exact fun _ => ⟨_, rfl, rfl⟩
    · cases hg : cur.getAttr a.toList with
      | some next =>
        simp only [walkVals, walkLoad, hu, Bool.false_eq_true, ↓reduceIte, hg, Option.getD_some]
        exact walkLoad_vals rest next (j + 1) (by intro i hi; apply hsp; simp only [List.length_cons]; omega)
      | none =>
        simp only [walkVals, walkLoad, hu, Bool.false_eq_true, ↓reduceIte, hg, Option.getD_none]
        cases rest with
        | nil => simp [walkVals]
        | cons b r =>
          simp only [walkVals, Value.isUndef, ↓reduceIte, reduceCtorEq, false_implies, implies_true, true_and,
            ne_eq, not_false_eq_true, errorAt, h1]
          exact fun _ => ⟨_, rfl, rfl⟩

theorem fused_load (n : String) (attrs : List String) (hne : attrs ≠ [])
    (hsp : ∀ j, j ≤ attrs.length → c'.hasSpanAt k j = true) (S : State) :
    (∀ v, walkVals (S.scope.getValue n) attrs = some v →
      stepLoadPath env vm c' (n :: attrs) k S = .next (k + 1) (S.push v (k, k))) ∧
    (walkVals (S.scope.getValue n) attrs = none →
      ∃ e, stepLoadPath env vm c' (n :: attrs) k S = raise env vm c' e ∧ isUndefErr e = true) := by
  have hw := walkLoad_vals env vm c' k attrs (S.scope.getValue n) 0 (by intro i hi; apply hsp; omega)
  have h0 : c'.hasSpanAt k 0 = true := hsp 0 (Nat.zero_le _)
  simp only [stepLoadPath, hne, ↓reduceIte, ne_eq, not_false_eq_true]
  by_cases hu : (S.scope.getValue n).isUndef = true
  · cases attrs with
    | nil => exact absurd rfl hne
    | cons a r =>
      simp only [hu, ↓reduceIte, walkVals, reduceCtorEq, false_implies, implies_true, true_and, errorAt, h0]
      exact fun _ => ⟨_, rfl, rfl⟩
  · simp only [hu, Bool.false_eq_true, ↓reduceIte]
    constructor
    · intro v hv; rw [hw.1 v hv]
    · intro hv; obtain ⟨e, he, hu⟩ := hw.2 hv; rw [he]; exact ⟨e, rfl, hu⟩

theorem walkWrite_vals : ∀ (attrs : List String) (cur : Value) (j : Nat),
    (∀ i, i ≤ j + attrs.length → c'.hasSpanAt k i = true) →
    (∀ v, walkVals cur attrs = some v → v.isUndef = false → walkWrite env vm c' k cur j attrs = .val v) ∧
    ((walkVals cur attrs = none ∨ ∃ v, walkVals cur attrs = some v ∧ v.isUndef = true) →
      (∃ e, walkWrite env vm c' k cur j attrs = .stop (raise env vm c' e) ∧ isUndefErr e = true) ∨
      (∃ v, walkWrite env vm c' k cur j attrs = .val v ∧ v.isUndef = true))
  | [], cur, j, _ => by
    simp only [walkVals, walkWrite, Option.some.injEq, reduceCtorEq, false_or]
    refine ⟨fun v hv _ => by rw [hv], ?_⟩
    rintro ⟨v, rfl, hv⟩
    exact Or.inr ⟨_, rfl, hv⟩
  | a :: rest, cur, j, hsp => by
    have h1 : c'.hasSpanAt k (j + 1) = true := hsp _ (by simp)
    cases hg : cur.getAttr a.toList with
    | some next =>
      have hu : cur.isUndef = false := by
        cases hc : cur.isUndef with
        | false => rfl
        | true => rw [getAttr_undef cur _ hc] at hg; cases hg
      simp only [walkVals, walkWrite, hu, Bool.false_eq_true, ↓reduceIte, hg, Option.getD_some]
      exact walkWrite_vals rest next (j + 1) (by intro i hi; apply hsp; simp only [List.length_cons]; omega)
    | none =>
      simp only [walkWrite, hg, errorAt, h1, ↓reduceIte]
      refine ⟨?_, fun _ => Or.inl ⟨_, rfl, rfl⟩⟩
      intro v hv hvu
      exfalso
      simp only [walkVals, hg, Option.getD_none] at hv
      split at hv
      · cases hv
      · cases rest with
        | nil => simp only [walkVals, Option.some.injEq] at hv; subst hv; simp [Value.isUndef] at hvu
        | cons b r => simp [walkVals, Value.isUndef] at hv

theorem lookupName_of_ne (sc : Scope) (n : String) (hn : n ≠ MAGICAL_DUMP_VAR) :
    lookupName sc n = sc.getValue n := by simp [lookupName, hn]

theorem fused_write (n : String) (attrs : List String) (hn : n ≠ MAGICAL_DUMP_VAR)
    (hsp : ∀ j, j ≤ attrs.length → c'.hasSpanAt k j = true) (S : State) :
    (∀ v, walkVals (S.scope.getValue n) attrs = some v → v.isUndef = false →
      stepWritePath env vm c' (n :: attrs) k S = .next (k + 1) (emitValue env vm v S)) ∧
    ((walkVals (S.scope.getValue n) attrs = none ∨
        ∃ v, walkVals (S.scope.getValue n) attrs = some v ∧ v.isUndef = true) →
      ∃ e, stepWritePath env vm c' (n :: attrs) k S = raise env vm c' e ∧ isUndefErr e = true) := by
  have hw := walkWrite_vals env vm c' k attrs (S.scope.getValue n) 0 (by intro i hi; apply hsp; omega)
  have h0 : c'.hasSpanAt k 0 = true := hsp 0 (Nat.zero_le _)
  have hl : c'.hasSpanAt k attrs.length = true := hsp _ (Nat.le_refl _)
  simp only [stepWritePath, lookupName_of_ne _ n hn, ite_self]
  by_cases hu : (S.scope.getValue n).isUndef = true
  · simp only [hu, ↓reduceIte, errorAt, h0]
    refine ⟨?_, fun _ => ⟨_, rfl, rfl⟩⟩
    intro v hv hvu
    exfalso
    cases attrs with
    | nil => simp only [walkVals, Option.some.injEq] at hv; subst hv; rw [hu] at hvu; cases hvu
    | cons a r => simp [walkVals, hu] at hv
  · simp only [hu, Bool.false_eq_true, ↓reduceIte]
    constructor
    · intro v hv hvu
      rw [hw.1 v hv hvu]
      simp [hvu]
    · intro h
      rcases hw.2 h with ⟨e, he, hu⟩ | ⟨v, he, hvu⟩
      · rw [he]; exact ⟨e, rfl, hu⟩
      · rw [he]; simp only [hvu, ↓reduceIte, errorAt, hl]; exact ⟨_, rfl, rfl⟩

end fused


/-! ### the unfused sequence, run by the interpreter loop -/

section unfused
variable (rec : VmCtx → Chunk → State → RunRes) (env : Env) (vm : VmCtx) (c : Chunk)

theorem runLoop_zero_some {pc : Nat} {e : VEntry} (st : State) (h : c.code[pc]? = some e) :
    runLoop rec env vm c 0 pc st = .outOfFuel := by
  simp [runLoop, h]

theorem runLoop_succ_next {pc p : Nat} {e : VEntry} {st s : State} (n : Nat) (h : c.code[pc]? = some e)
    (hs : step rec env vm c e pc st = .next p s) :
    runLoop rec env vm c (n + 1) pc st = runLoop rec env vm c n p s := by
  simp [runLoop, h, hs]

theorem runLoop_succ_raise {pc : Nat} {e : VEntry} {st : State} {x : RErr} (n : Nat)
    (h : c.code[pc]? = some e) (hs : step rec env vm c e pc st = raise env vm c x) :
    runLoop rec env vm c (n + 1) pc st = raiseRun env vm c x := by
  simp only [runLoop, h, hs, raise, raiseRun]
  cases reportTargetOk env vm c <;> rfl

/-- a state whose top slot was pushed by the instruction at `i` -/
def topState (st : State) (v : Value) (i : Nat) (rest0 : List Slot) : State :=
  { st with stack := (v, (i, i)) :: rest0 }

theorem renderingError_own {i : Nat} (h : c.hasSpan i = true) (e : RErr) :
    renderingError env vm c (i, i) e = raise env vm c e := by
  simp [renderingError, Chunk.expandSpan, h]

theorem attrs_run (st : State) (rest0 : List Slot) :
    ∀ (taken : List (String × List Span)) (i0 : Nat) (cur : Value),
    (∀ j x, taken[j]? = some x → c.code[i0 + 1 + j]? = some (.loadAttr x.1 false, x.2)) →
    (∀ j, j ≤ taken.length → c.hasSpan (i0 + j) = true) →
    (∀ v, walkVals cur (taken.map (·.1)) = some v →
      (∀ n, n < taken.length →
        runLoop rec env vm c n (i0 + 1) (topState st cur i0 rest0) = .outOfFuel) ∧
      (∀ n, runLoop rec env vm c (n + taken.length) (i0 + 1) (topState st cur i0 rest0)
        = runLoop rec env vm c n (i0 + 1 + taken.length) (topState st v (i0 + taken.length) rest0))) ∧
    (walkVals cur (taken.map (·.1)) = none →
      (∀ n, runLoop rec env vm c n (i0 + 1) (topState st cur i0 rest0) = .outOfFuel ∨
        ∃ e, runLoop rec env vm c n (i0 + 1) (topState st cur i0 rest0) = raiseRun env vm c e ∧ isUndefErr e = true) ∧
      (∀ n, taken.length ≤ n →
        ∃ e, runLoop rec env vm c n (i0 + 1) (topState st cur i0 rest0) = raiseRun env vm c e ∧ isUndefErr e = true))
  | [], i0, cur, _, _ => by
    simp only [List.map_nil, walkVals, Option.some.injEq, List.length_nil, Nat.not_lt_zero, false_implies,
      implies_true, Nat.add_zero, true_and, reduceCtorEq]
    exact ⟨fun v hv n => by subst hv; rfl, trivial⟩
  | x :: rest, i0, cur, hcode, hsp => by
    have hc0 : c.code[i0 + 1]? = some (.loadAttr x.1 false, x.2) := by
      have := hcode 0 x (by simp); simpa using this
    have hs0 : c.hasSpan i0 = true := by have := hsp 0 (Nat.zero_le _); simpa using this
    have ih := attrs_run st rest0 rest (i0 + 1)
    have hcode' : ∀ j y, rest[j]? = some y → c.code[i0 + 1 + 1 + j]? = some (.loadAttr y.1 false, y.2) := by
      intro j y hy
      have := hcode (j + 1) y (by simpa using hy)
      have e : i0 + 1 + (j + 1) = i0 + 1 + 1 + j := by omega
      rw [e] at this; exact this
    have hsp' : ∀ j, j ≤ rest.length → c.hasSpan (i0 + 1 + j) = true := by
      intro j hj
      have := hsp (j + 1) (by simp only [List.length_cons]; omega)
      have e : i0 + (j + 1) = i0 + 1 + j := by omega
      rw [e] at this; exact this
    by_cases hu : cur.isUndef = true
    · -- the turn fails
      have hstep : step rec env vm c (.loadAttr x.1 false, x.2) (i0 + 1) (topState st cur i0 rest0)
          = raise env vm c .undefinedField := by
        simp only [step, stepLoadAttr, topState, Bool.false_and, Bool.false_eq_true, ↓reduceIte, hu]
        exact renderingError_own env vm c hs0 _
      simp only [List.map_cons, walkVals, hu, ↓reduceIte, reduceCtorEq, false_implies, implies_true, true_and]
      intro _
      constructor
      · intro n
        cases n with
        | zero => exact Or.inl (runLoop_zero_some rec env vm c _ hc0)
        | succ n => exact Or.inr ⟨_, runLoop_succ_raise rec env vm c n hc0 hstep, rfl⟩
      · intro n hn
        cases n with
        | zero => simp at hn
        | succ n => exact ⟨_, runLoop_succ_raise rec env vm c n hc0 hstep, rfl⟩
    · have hstep : step rec env vm c (.loadAttr x.1 false, x.2) (i0 + 1) (topState st cur i0 rest0)
          = .next (i0 + 1 + 1) (topState st ((cur.getAttr x.1.toList).getD .undef) (i0 + 1) rest0) := by
        simp only [step, stepLoadAttr, topState, Bool.false_and, Bool.false_eq_true, ↓reduceIte, hu]
      have ih' := ih ((cur.getAttr x.1.toList).getD .undef) hcode' hsp'
      simp only [List.map_cons, walkVals, hu, Bool.false_eq_true, ↓reduceIte, List.length_cons]
      constructor
      · intro v hv
        obtain ⟨ha, hb⟩ := ih'.1 v hv
        constructor
        · intro n hn
          cases n with
          | zero => exact runLoop_zero_some rec env vm c _ hc0
          | succ n =>
            rw [runLoop_succ_next rec env vm c n hc0 hstep]
            exact ha n (by omega)
        · intro n
          have e1 : n + (rest.length + 1) = (n + rest.length) + 1 := by omega
          rw [e1, runLoop_succ_next rec env vm c _ hc0 hstep, hb n]
          have e2 : i0 + 1 + 1 + rest.length = i0 + 1 + (rest.length + 1) := by omega
          have e3 : i0 + 1 + rest.length = i0 + (rest.length + 1) := by omega
          rw [e2, e3]
      · intro hv
        obtain ⟨ha, hb⟩ := ih'.2 hv
        constructor
        · intro n
          cases n with
          | zero => exact Or.inl (runLoop_zero_some rec env vm c _ hc0)
          | succ n => rw [runLoop_succ_next rec env vm c n hc0 hstep]; exact ha n
        · intro n hn
          cases n with
          | zero => simp at hn
          | succ n => rw [runLoop_succ_next rec env vm c n hc0 hstep]; exact hb n (by omega)


/-- `LoadName n; LoadAttr a₁; …; LoadAttr aₘ` from `pc`, run by the interpreter loop -/
theorem load_group_run (st : State) (pc : Nat) (n : String) (s : List Span)
    (taken : List (String × List Span)) (hn : n ≠ MAGICAL_DUMP_VAR)
    (hcode0 : c.code[pc]? = some (.loadName n, s))
    (hcode : ∀ j x, taken[j]? = some x → c.code[pc + 1 + j]? = some (.loadAttr x.1 false, x.2))
    (hsp : ∀ j, j ≤ taken.length → c.hasSpan (pc + j) = true) :
    (∀ v, walkVals (st.scope.getValue n) (taken.map (·.1)) = some v →
      (∀ m, m < taken.length + 1 → runLoop rec env vm c m pc st = .outOfFuel) ∧
      (∀ m, runLoop rec env vm c (m + (taken.length + 1)) pc st
        = runLoop rec env vm c m (pc + 1 + taken.length) (st.push v (pc + taken.length, pc + taken.length)))) ∧
    (walkVals (st.scope.getValue n) (taken.map (·.1)) = none →
      (∀ m, runLoop rec env vm c m pc st = .outOfFuel ∨
        ∃ e, runLoop rec env vm c m pc st = raiseRun env vm c e ∧ isUndefErr e = true) ∧
      (∀ m, taken.length + 1 ≤ m → ∃ e, runLoop rec env vm c m pc st = raiseRun env vm c e ∧ isUndefErr e = true)) := by
  have hstep : step rec env vm c (.loadName n, s) pc st
      = .next (pc + 1) (topState st (st.scope.getValue n) pc st.stack) := by
    simp only [step, lookupName_of_ne _ n hn]; rfl
  have h := attrs_run rec env vm c st st.stack taken pc (st.scope.getValue n) hcode hsp
  constructor
  · intro v hv
    obtain ⟨ha, hb⟩ := h.1 v hv
    constructor
    · intro m hm
      cases m with
      | zero => exact runLoop_zero_some rec env vm c _ hcode0
      | succ m => rw [runLoop_succ_next rec env vm c m hcode0 hstep]; exact ha m (by omega)
    · intro m
      have e1 : m + (taken.length + 1) = (m + taken.length) + 1 := by omega
      rw [e1, runLoop_succ_next rec env vm c _ hcode0 hstep, hb m]
      rfl
  · intro hv
    obtain ⟨ha, hb⟩ := h.2 hv
    constructor
    · intro m
      cases m with
      | zero => exact Or.inl (runLoop_zero_some rec env vm c _ hcode0)
      | succ m => rw [runLoop_succ_next rec env vm c m hcode0 hstep]; exact ha m
    · intro m hm
      cases m with
      | zero => simp at hm
      | succ m => rw [runLoop_succ_next rec env vm c m hcode0 hstep]; exact hb m (by omega)

/-- `LoadName n; LoadAttr a₁; …; LoadAttr aₘ; WriteTop` from `pc`, run by the interpreter loop -/
theorem write_group_run (st : State) (pc : Nat) (n : String) (s w : List Span)
    (taken : List (String × List Span)) (hn : n ≠ MAGICAL_DUMP_VAR)
    (hcode0 : c.code[pc]? = some (.loadName n, s))
    (hcode : ∀ j x, taken[j]? = some x → c.code[pc + 1 + j]? = some (.loadAttr x.1 false, x.2))
    (hcodew : c.code[pc + 1 + taken.length]? = some (.writeTop, w))
    (hsp : ∀ j, j ≤ taken.length → c.hasSpan (pc + j) = true) :
    (∀ v, walkVals (st.scope.getValue n) (taken.map (·.1)) = some v → v.isUndef = false →
      (∀ m, m < taken.length + 2 → runLoop rec env vm c m pc st = .outOfFuel) ∧
      (∀ m, runLoop rec env vm c (m + (taken.length + 2)) pc st
        = runLoop rec env vm c m (pc + 1 + taken.length + 1) (emitValue env vm v st))) ∧
    ((walkVals (st.scope.getValue n) (taken.map (·.1)) = none ∨
        ∃ v, walkVals (st.scope.getValue n) (taken.map (·.1)) = some v ∧ v.isUndef = true) →
      (∀ m, runLoop rec env vm c m pc st = .outOfFuel ∨
        ∃ e, runLoop rec env vm c m pc st = raiseRun env vm c e ∧ isUndefErr e = true) ∧
      (∀ m, taken.length + 2 ≤ m → ∃ e, runLoop rec env vm c m pc st = raiseRun env vm c e ∧ isUndefErr e = true)) := by
  have h := load_group_run rec env vm c st pc n s taken hn hcode0 hcode hsp
  have hlast : c.hasSpan (pc + taken.length) = true := hsp _ (Nat.le_refl _)
  constructor
  · intro v hv hvu
    obtain ⟨ha, hb⟩ := h.1 v hv
    have hstep : step rec env vm c (.writeTop, w) (pc + 1 + taken.length)
        (st.push v (pc + taken.length, pc + taken.length))
        = .next (pc + 1 + taken.length + 1) (emitValue env vm v st) := by
      simp only [step, stepWriteTop, State.push, hvu, Bool.false_eq_true, ↓reduceIte]
    constructor
    · intro m hm
      by_cases hm' : m < taken.length + 1
      · exact ha m hm'
      · have e : m = 0 + (taken.length + 1) := by omega
        rw [e, hb 0]
        exact runLoop_zero_some rec env vm c _ hcodew
    · intro m
      have e1 : m + (taken.length + 2) = (m + 1) + (taken.length + 1) := by omega
      rw [e1, hb (m + 1), runLoop_succ_next rec env vm c m hcodew hstep]
  · intro hv
    rcases hv with hv | ⟨v, hv, hvu⟩
    · obtain ⟨ha, hb⟩ := h.2 hv
      exact ⟨ha, fun m hm => hb m (by omega)⟩
    · obtain ⟨ha, hb⟩ := h.1 v hv
      have hstep : step rec env vm c (.writeTop, w) (pc + 1 + taken.length)
          (st.push v (pc + taken.length, pc + taken.length)) = raise env vm c .undefinedRender := by
        simp only [step, stepWriteTop, State.push, hvu, ↓reduceIte]
        exact renderingError_own env vm c hlast _
      constructor
      · intro m
        by_cases hm' : m < taken.length + 1
        · exact Or.inl (ha m hm')
        · by_cases hm2 : m = taken.length + 1
          · left
            have e : m = 0 + (taken.length + 1) := by omega
            rw [e, hb 0]
            exact runLoop_zero_some rec env vm c _ hcodew
          · right
            have e : m = (m - (taken.length + 2) + 1) + (taken.length + 1) := by omega
            rw [e, hb, runLoop_succ_raise rec env vm c _ hcodew hstep]
            exact ⟨_, rfl, rfl⟩
      · intro m hm
        have e : m = (m - (taken.length + 2) + 1) + (taken.length + 1) := by omega
        rw [e, hb, runLoop_succ_raise rec env vm c _ hcodew hstep]
        exact ⟨_, rfl, rfl⟩

end unfused

end OptimizeSimVm
end Tera
