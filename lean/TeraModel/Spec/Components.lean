/-
The binding rules of a component call, stated declaratively (C05): what the property text says,
independent of how `build_context` loops.
-/
import TeraModel.Model.Component
namespace Tera.Component

/-- The value the caller supplied under the string key `k` (the kwargs map has unique keys). -/
def supplied (kwargs : List (Key × Value)) (k : String) : Option Value :=
  lookupStr k (strEntries kwargs)

/-- An undeclared argument although the component declares no rest parameter. -/
def HasUnknown (d : Def) (kwargs : List (Key × Value)) : Prop :=
  d.rest = none ∧ ∃ e ∈ strEntries kwargs, declares d e.1 = false

/-- A required argument (no default) is not supplied. -/
def HasMissing (d : Def) (kwargs : List (Key × Value)) : Prop :=
  ∃ p ∈ d.params, supplied kwargs p.name = none ∧ p.dflt = none

/-- A supplied value does not match the declared, or else inferred, type of its parameter. -/
def HasMismatch (d : Def) (kwargs : List (Key × Value)) : Prop :=
  ∃ p ∈ d.params, ∃ v, supplied kwargs p.name = some v ∧ p.typeMatches v = false

/-- Caller-supplied value, else the declared default. -/
def boundValue (p : Param) (kwargs : List (Key × Value)) : Option Value :=
  match supplied kwargs p.name with
  | some v => some v
  | none => p.dflt

/-- The context the rules prescribe: every declared parameter bound (in name order), then the
rest map — exactly the supplied string-keyed arguments that are not declared — when a rest
parameter is declared, then `body` when the call has one.  Nothing else. -/
def prescribed (d : Def) (kwargs : List (Key × Value)) (body : Option Value) :
    List (String × Value) :=
  d.params.filterMap (fun p => (boundValue p kwargs).map (fun v => (p.name, v)))
    ++ restEntry d (strEntries kwargs) ++ bodyEntry body

/-- What one attribute says about the string key `k`. -/
def Attr.mention (k : String) : Attr → Option Value
  | .kv k' v => if k' == k then some v else none
  | .spread es => lookupStr k (strEntries es)

/-- The value of the right-most attribute that mentions `k`. -/
def rightmost (attrs : List Attr) (k : String) : Option Value :=
  attrs.reverse.findSome? (Attr.mention k)

/-- `k` is a string key (`Key::as_str` answers `Some`). -/
def isStrKey : Key → Bool
  | .str _ => true
  | _ => false

end Tera.Component
