/-
What the DOCUMENTATION says about grouping (docs/content/_index.md, "Operator precedence"),
independent of how parser.rs is written.

* `DocLevels`: the level of every operator = (index of its row in the documented table) + 1, the
  table being listed "from lowest to highest binding power"; level 0 is the ternary
  `a if c else b`, which the table omits (it is described in prose and is the loosest construct:
  both of its outer operands extend as far as possible).
* Associativity (the table does not state it; MIGRATION.md and the parser tests say "matches
  Jinja2"): every infix operator groups to the left except `**`, which groups to the right.
* `TableOK L T`: a binding-power table `T` (parser.rs) induces exactly the documented grouping `L`.
  Everything proved about the parser is proved for EVERY table with `TableOK`, so renumbering the
  powers is harmless and moving an operator to another row is not.
-/
import TeraModel.Model.ExprParser
import TeraModel.Generated.DocPrecedence
namespace Tera.Spec
open Tera Tera.Parser

/-- spelling of a binary operator in the documented table -/
def binSpelling (op : BinaryOperator) : String := op.symbol

/-- spelling of a unary operator in the documented table -/
def unarySpelling : UnaryOperator → String
  | .Not => "not"
  | .Minus => "- (unary)"

/-- index of the row that lists `s` -/
def rowOf : List (List String) → String → Option Nat
  | [], _ => none
  | r :: rest, s => if r.contains s then some 0 else (rowOf rest s).map (· + 1)

structure DocLevels where
  bin : BinaryOperator → Nat
  unary : UnaryOperator → Nat
  /-- `.`, `[]`, `()` -/
  post : Nat
  /-- the two-word spellings `not in`, `is not` -/
  notIn : Nat
  isNot : Nat

/-- level = row + 1 (`0`: not listed, never the case when `rowsComplete`) -/
def levelOf (rows : List (List String)) (s : String) : Nat :=
  match rowOf rows s with
  | some i => i + 1
  | none => 0

def docLevelsOf (rows : List (List String)) : DocLevels where
  bin op := levelOf rows (binSpelling op)
  unary op := levelOf rows (unarySpelling op)
  post := levelOf rows "[]"
  notIn := levelOf rows "not in"
  isNot := levelOf rows "is not"

/-- every operator of the language is listed in the table -/
def rowsComplete (rows : List (List String)) : Bool :=
  BinaryOperator.all.all (fun op => (rowOf rows (binSpelling op)).isSome)
    && (rowOf rows (unarySpelling .Not)).isSome && (rowOf rows (unarySpelling .Minus)).isSome
    && (rowOf rows "[]").isSome && (rowOf rows ".").isSome && (rowOf rows "()").isSome
    && (rowOf rows "not in").isSome && (rowOf rows "is not").isSome

/-- the documented levels, from the GENERATED copy of the table -/
def docLevels : DocLevels := docLevelsOf Gen.docPrecedenceRows

/-- only `**` groups to the right -/
def rightAssoc (op : BinaryOperator) : Bool := op = .Power

/-- `b` continues inside the right operand of `a` (as in `x a y b z` = `x a (y b z)`) -/
def docInside (L : DocLevels) (a b : BinaryOperator) : Bool :=
  L.bin a < L.bin b || (L.bin a = L.bin b && rightAssoc a)

/-- the operators whose right power the parser uses (`is` and `|` take a name, not an operand) -/
def takesOperand (a : BinaryOperator) : Bool := decide (a ≠ .Is ∧ a ≠ .Pipe)

/-- Boolean form of `TableOK` (decidable over the whole tables). -/
def tableOK (L : DocLevels) (T : BpTable) : Bool :=
  -- operators on one row have one associativity
  BinaryOperator.all.all (fun a => BinaryOperator.all.all (fun b =>
    decide (L.bin a = L.bin b → rightAssoc a = rightAssoc b)))
  -- an operator continues inside a right operand exactly when the documentation says so
  && BinaryOperator.all.all (fun a => BinaryOperator.all.all (fun b =>
    decide (takesOperand a = true →
      ((T.binary a).2 ≤ (T.binary b).1 ↔ docInside L a b = true))))
  -- a binary operator continues inside the operand of a unary operator exactly when it is on a
  -- higher row
  && [UnaryOperator.Not, .Minus].all (fun u => BinaryOperator.all.all (fun b =>
    decide (T.unary u ≤ (T.binary b).1 ↔ L.unary u < L.bin b)))
  -- the ternary is the loosest construct
  && BinaryOperator.all.all (fun a =>
    decide (T.ternary < (T.binary a).1)
      && decide (takesOperand a = true → T.ternary < (T.binary a).2))
  && decide (T.ternary < T.unary .Not) && decide (T.ternary < T.unary .Minus)
  -- the two-word spellings are on the rows of `in` and `is`
  && decide (L.notIn = L.bin .In) && decide (L.isNot = L.bin .Is)
  -- postfix forms are the tightest
  && BinaryOperator.all.all (fun a => decide (L.bin a < L.post))
  && decide (L.unary .Not < L.post) && decide (L.unary .Minus < L.post)
  -- every operator is listed (level 0 is reserved for the ternary)
  && BinaryOperator.all.all (fun a => decide (0 < L.bin a))
  && decide (0 < L.unary .Not) && decide (0 < L.unary .Minus)

/-- The strict weak order induced by the left binding powers is the order of the documented rows
(not needed for the grouping theorems: the right powers decide the grouping; kept as a separate
clause of `bp_table_matches_doc`). -/
def orderMatches (L : DocLevels) (T : BpTable) : Bool :=
  BinaryOperator.all.all (fun a => BinaryOperator.all.all (fun b =>
    decide ((T.binary a).1 < (T.binary b).1 ↔ L.bin a < L.bin b)))

/-- A binding-power table induces exactly the documented grouping. -/
def TableOK (L : DocLevels) (T : BpTable) : Prop := tableOK L T = true

instance (L : DocLevels) (T : BpTable) : Decidable (TableOK L T) := by
  unfold TableOK; infer_instance

theorem BinaryOperator.mem_all (op : BinaryOperator) : op ∈ BinaryOperator.all := by
  cases op <;> simp [BinaryOperator.all]

section extract
variable {L : DocLevels} {T : BpTable} (h : TableOK L T)
include h

/-- the clauses of `TableOK`, as propositions about all operators -/
theorem TableOK.unpack :
    (∀ a b, L.bin a = L.bin b → rightAssoc a = rightAssoc b)
    ∧ (∀ a b, takesOperand a = true →
        ((T.binary a).2 ≤ (T.binary b).1 ↔ docInside L a b = true))
    ∧ (∀ u b, T.unary u ≤ (T.binary b).1 ↔ L.unary u < L.bin b)
    ∧ (∀ a, T.ternary < (T.binary a).1 ∧ (takesOperand a = true → T.ternary < (T.binary a).2))
    ∧ (∀ u, T.ternary < T.unary u)
    ∧ L.notIn = L.bin .In ∧ L.isNot = L.bin .Is
    ∧ (∀ a, L.bin a < L.post) ∧ (∀ u, L.unary u < L.post)
    ∧ (∀ a, 0 < L.bin a) ∧ (∀ u, 0 < L.unary u) := by
  unfold TableOK tableOK at h
  simp only [Bool.and_eq_true, List.all_eq_true, decide_eq_true_eq] at h
  obtain ⟨⟨⟨⟨⟨⟨⟨⟨⟨⟨⟨⟨⟨c1, c2⟩, c3⟩, c4⟩, c5⟩, c6⟩, c7⟩, c8⟩, c9⟩, c10⟩, c11⟩, c12⟩, c13⟩, c14⟩ := h
  refine ⟨fun a b => c1 a (BinaryOperator.mem_all a) b (BinaryOperator.mem_all b),
    fun a b => c2 a (BinaryOperator.mem_all a) b (BinaryOperator.mem_all b),
    fun u b => c3 u (by cases u <;> simp) b (BinaryOperator.mem_all b),
    fun a => c4 a (BinaryOperator.mem_all a), ?_, c7, c8,
    fun a => c9 a (BinaryOperator.mem_all a), ?_,
    fun a => c12 a (BinaryOperator.mem_all a), ?_⟩
  · intro u; cases u
    · exact c5
    · exact c6
  · intro u; cases u
    · exact c10
    · exact c11
  · intro u; cases u
    · exact c13
    · exact c14

theorem TableOK.rowAssoc (a b : BinaryOperator) :
    L.bin a = L.bin b → rightAssoc a = rightAssoc b := (TableOK.unpack h).1 a b

theorem TableOK.inside (a b : BinaryOperator) (h1 : a ≠ .Is) (h2 : a ≠ .Pipe) :
    (T.binary a).2 ≤ (T.binary b).1 ↔ docInside L a b = true :=
  (TableOK.unpack h).2.1 a b (by simp [takesOperand, h1, h2])

theorem TableOK.unaryInside (u : UnaryOperator) (b : BinaryOperator) :
    T.unary u ≤ (T.binary b).1 ↔ L.unary u < L.bin b := (TableOK.unpack h).2.2.1 u b

theorem TableOK.ternaryLowest (a : BinaryOperator) : T.ternary < (T.binary a).1 :=
  ((TableOK.unpack h).2.2.2.1 a).1

theorem TableOK.ternaryLowestR (a : BinaryOperator) (h1 : a ≠ .Is) (h2 : a ≠ .Pipe) :
    T.ternary < (T.binary a).2 :=
  ((TableOK.unpack h).2.2.2.1 a).2 (by simp [takesOperand, h1, h2])

theorem TableOK.ternaryBelowUnary (u : UnaryOperator) : T.ternary < T.unary u :=
  (TableOK.unpack h).2.2.2.2.1 u

theorem TableOK.binBelowPost (a : BinaryOperator) : L.bin a < L.post :=
  (TableOK.unpack h).2.2.2.2.2.2.2.1 a

theorem TableOK.unaryBelowPost (u : UnaryOperator) : L.unary u < L.post :=
  (TableOK.unpack h).2.2.2.2.2.2.2.2.1 u

theorem TableOK.binPos (a : BinaryOperator) : 0 < L.bin a :=
  (TableOK.unpack h).2.2.2.2.2.2.2.2.2.1 a

theorem TableOK.unaryPos (u : UnaryOperator) : 0 < L.unary u :=
  (TableOK.unpack h).2.2.2.2.2.2.2.2.2.2 u

theorem TableOK.notInRow : L.notIn = L.bin .In := (TableOK.unpack h).2.2.2.2.2.1

theorem TableOK.isNotRow : L.isNot = L.bin .Is := (TableOK.unpack h).2.2.2.2.2.2.1

end extract


/-! ## Surface syntax: expressions with explicit parentheses, and the reference printer

`S` is the core of the expression language as it is WRITTEN: literals, variables, parentheses,
the 17 operand-taking infix operators, `not in`, `is [not] test`, `| filter` (the last two without
arguments, or with an argument list `name(k1=v1, k2=v2, …)`), unary `not` / `-`, the ternary,
`e[i]` on a non-identifier base, identifier chains `a.b?.c[i]?[j]`, function calls, and array
literals `[x, ...y, …]` and map literals `{k: v, ...m, …}` (with the parser's constant folding of
all-constant arrays and maps).  `S.toks` is
its token sequence, `S.erase` the AST the documentation assigns to it (parentheses disappear;
`a not in b` is `not (a in b)`, `a is not t` is `not (a is t)`). -/

/-- a key of a map literal as written: a string, an integer or a boolean -/
inductive SKey where
  | str (s : String)
  | int (i : Int)
  | bool (b : Bool)
  deriving Repr, Inhabited, DecidableEq

def SKey.tok : SKey → Tok
  | .str s => .str s
  | .int i => .integer i
  | .bool b => .bool b

/-- `Key` built by `parse_map` -/
def SKey.key : SKey → Key
  | .str s => .str s.toList
  | .int i => .i64 i
  | .bool b => .bool b

inductive S where
  | int (n : Int)
  | float (x : F64)
  | str (s : String)
  | bool (b : Bool)
  /-- `none`, `None` or `null` -/
  | noneLit (kw : String)
  | var (name : String)
  | paren (e : S)
  | unary (op : UnaryOperator) (e : S)
  | binary (op : BinaryOperator) (l r : S)
  | notIn (l r : S)
  | ternary (c t f : S)
  | filter (e : S) (name : String)
  | test (e : S) (name : String) (neg : Bool)
  | index (e : S) (i : S)
  /-- `e.name` / `e?.name` along an identifier chain -/
  | attr (e : S) (name : String) (opt : Bool)
  /-- `e[i]` / `e?[i]` along an identifier chain -/
  | sub (e : S) (i : S) (opt : Bool)
  /-- the empty argument list (NOT an expression: only inside `call` / `filterA` / `testA`) -/
  | argNil
  /-- the argument list `k=v, rest…` (not an expression) -/
  | argCons (k : String) (v : S) (rest : S)
  /-- `name(args)` -/
  | call (name : String) (args : S)
  /-- `e | name(args)` -/
  | filterA (e : S) (name : String) (args : S)
  /-- `e is [not] name(args)` -/
  | testA (e : S) (name : String) (neg : Bool) (args : S)
  /-- the empty list of array entries (not an expression: only inside `arr`) -/
  | itemNil
  /-- the array entries `x, rest…` / `...x, rest…` (not an expression) -/
  | itemCons (spread : Bool) (x : S) (rest : S)
  /-- the array literal `[items]` -/
  | arr (items : S)
  /-- the empty list of map entries (not an expression: only inside `mapLit`) -/
  | entryNil
  /-- the map entries `key: v, rest…` (not an expression) -/
  | entryKV (key : SKey) (v : S) (rest : S)
  /-- the map entries `...x, rest…` (not an expression) -/
  | entrySpread (x : S) (rest : S)
  /-- the map literal `{entries}` -/
  | mapLit (entries : S)
  /-- an omitted optional part (not an expression): the condition of a comprehension, a bound of
  a slice -/
  | absent
  /-- `[e for key, value in target if cond]` (`cond` may be `absent`) -/
  | comp (e : S) (key : Option String) (value : String) (target : S) (cond : S)
  /-- `e[a:b:c]` on a non-identifier base (each of `a`, `b`, `c` may be `absent`) -/
  | slice (e : S) (a b c : S)
  /-- `e[a:b:c]` / `e?[a:b:c]` along an identifier chain -/
  | subSlice (e : S) (a b c : S) (opt : Bool)
  /-- a trailing `,` ending a non-empty argument list / list of array entries / list of map
  entries (not expressions) -/
  | argEnd
  | itemEnd
  | entryEnd
  deriving Repr, Inhabited

/-- source token of an infix operator -/
def opTok : BinaryOperator → Tok
  | .Mul => .mul | .Div => .div | .Mod => .mod | .Plus => .plus | .Minus => .minus
  | .FloorDiv => .floorDiv | .Power => .power | .LessThan => .lessThan
  | .GreaterThan => .greaterThan | .LessThanOrEqual => .lessThanOrEqual
  | .GreaterThanOrEqual => .greaterThanOrEqual | .Equal => .equal | .NotEqual => .notEqual
  | .And => .ident "and" | .Or => .ident "or" | .StrConcat => .tilde | .In => .ident "in"
  | .Is => .ident "is" | .Pipe => .pipe

def unaryTok : UnaryOperator → Tok
  | .Not => .ident "not"
  | .Minus => .minus

namespace S

/-- `key,` of a comprehension over key and value -/
def keyToks : Option String → List Tok
  | some k => [.ident k, .comma]
  | none => []

/-- an omitted optional part -/
def isAbsent : S → Bool
  | absent => true
  | _ => false

/-- a trailing-comma end of a list -/
def isEnd : S → Bool
  | argEnd | itemEnd | entryEnd => true
  | _ => false

/-- the `,` between two arguments -/
def sepToks : S → List Tok
  | argCons .. => [.comma]
  | itemCons .. => [.comma]
  | entryKV .. => [.comma]
  | entrySpread .. => [.comma]
  | _ => []

/-- the token sequence of a surface expression -/
def toks : S → List Tok
  | int n => [.integer n]
  | float x => [.float x]
  | str s => [.str s]
  | bool b => [.bool b]
  | noneLit kw => [.ident kw]
  | var name => [.ident name]
  | paren e => .leftParen :: (toks e ++ [.rightParen])
  | unary op e => unaryTok op :: toks e
  | binary op l r => toks l ++ opTok op :: toks r
  | notIn l r => toks l ++ .ident "not" :: .ident "in" :: toks r
  | ternary c t f => toks t ++ .ident "if" :: (toks c ++ .ident "else" :: toks f)
  | filter e name => toks e ++ [.pipe, .ident name]
  | test e name neg =>
    toks e ++ .ident "is" :: ((if neg then [.ident "not"] else []) ++ [.ident name])
  | index e i => toks e ++ .leftBracket :: (toks i ++ [.rightBracket])
  | attr e name opt => toks e ++ [if opt then .questionMarkDot else .dot, .ident name]
  | sub e i opt =>
    toks e ++ (if opt then .questionMarkLeftBracket else .leftBracket) :: (toks i ++ [.rightBracket])
  | argNil => []
  | itemNil => []
  | itemCons sp x rest => (if sp then [.spread] else []) ++ (toks x ++ (sepToks rest ++ toks rest))
  | arr items => .leftBracket :: (toks items ++ [.rightBracket])
  | entryNil => []
  | entryKV k v rest => k.tok :: .colon :: (toks v ++ (sepToks rest ++ toks rest))
  | entrySpread x rest => .spread :: (toks x ++ (sepToks rest ++ toks rest))
  | mapLit es => .leftBrace :: (toks es ++ [.rightBrace])
  | absent => []
  | argEnd => [.comma]
  | itemEnd => [.comma]
  | entryEnd => [.comma]
  | slice e a b c =>
    toks e ++ .leftBracket :: (toks a ++ .colon :: (toks b
      ++ ((if c.isAbsent then [] else [.colon]) ++ (toks c ++ [.rightBracket]))))
  | subSlice e a b c opt =>
    toks e ++ (if opt then .questionMarkLeftBracket else .leftBracket) :: (toks a ++ .colon
      :: (toks b ++ ((if c.isAbsent then [] else [.colon]) ++ (toks c ++ [.rightBracket]))))
  | comp e key value target cond =>
    .leftBracket :: (toks e ++ .ident "for" :: (keyToks key
        ++ .ident value :: .ident "in" :: (toks target
          ++ ((if cond.isAbsent then [] else [.ident "if"]) ++ (toks cond ++ [.rightBracket])))))
  | argCons k v rest => .ident k :: .assign :: (toks v ++ (sepToks rest ++ toks rest))
  | call name args => .ident name :: .leftParen :: (toks args ++ [.rightParen])
  | filterA e name args => toks e ++ .pipe :: .ident name :: .leftParen :: (toks args ++ [.rightParen])
  | testA e name neg args =>
    toks e ++ .ident "is" :: ((if neg then [.ident "not"] else [])
      ++ .ident name :: .leftParen :: (toks args ++ [.rightParen]))

/-- the parser's constant folding of an array literal (`parse_array`, `Array::as_const`): an
array of constants is one constant -/
def foldArray (xs : List ArrayEntry) : Expr :=
  match Parser.arrayAsConst xs with
  | some vs => .const (.arr vs)
  | none => .array xs

/-- `literal_only` as the loop of `parse_map` computes it -/
def entryLit : MapEntry → Bool
  | .keyValue _ v => v.isLiteral
  | .spread _ => false

def mapLitOf (xs : List MapEntry) : Bool := xs.all entryLit

/-- the parser's constant folding of a map literal (`parse_map`): a map of constants is one
constant (a later duplicate key overrides an earlier one) -/
def foldMap (xs : List MapEntry) : Expr :=
  if mapLitOf xs then .const (.map (Parser.foldConstMap xs)) else .map xs

mutual
/-- the AST a surface expression denotes -/
def erase : S → Expr
  | int n => .const (.i64 n)
  | float x => .const (.f64 x)
  | str s => .const (.str false s.toList)
  | bool b => .const (.bool b)
  | noneLit _ => .const .none
  | var name => .var name
  | paren e => erase e
  | unary op e => .unary op (erase e)
  | binary op l r => .binary op (erase l) (erase r)
  | notIn l r => .unary .Not (.binary .In (erase l) (erase r))
  | ternary c t f => .ternary (erase c) (erase t) (erase f)
  | filter e name => .filter (erase e) name []
  | test e name neg =>
    if neg then .unary .Not (.test (erase e) name []) else .test (erase e) name []
  | index e i => .getItem (erase e) (erase i) false
  | attr e name opt => .getAttr (erase e) name opt
  | sub e i opt => .getItem (erase e) (erase i) opt
  | call name args => .functionCall name (Expr.sortKwargs (eraseArgs args))
  | filterA e name args => .filter (erase e) name (Expr.sortKwargs (eraseArgs args))
  | testA e name neg args =>
    if neg then .unary .Not (.test (erase e) name (Expr.sortKwargs (eraseArgs args)))
    else .test (erase e) name (Expr.sortKwargs (eraseArgs args))
  | arr items => foldArray (eraseItems items)
  | mapLit es => foldMap (eraseEntries es)
  | comp e key value target cond =>
    .listComprehension (erase e) key value (erase target)
      (if cond.isAbsent then none else some (erase cond))
  | slice e a b c =>
    .slice (erase e) (if a.isAbsent then none else some (erase a))
      (if b.isAbsent then none else some (erase b)) (if c.isAbsent then none else some (erase c))
      false
  | subSlice e a b c opt =>
    .slice (erase e) (if a.isAbsent then none else some (erase a))
      (if b.isAbsent then none else some (erase b)) (if c.isAbsent then none else some (erase c))
      opt
  | absent => .const .none
  | argEnd => .const .none
  | itemEnd => .const .none
  | entryEnd => .const .none
  | entryNil => .const .none
  | entryKV .. => .const .none
  | entrySpread .. => .const .none
  | argNil => .const .none
  | argCons .. => .const .none
  | itemNil => .const .none
  | itemCons .. => .const .none
/-- the arguments an argument list denotes, in source order -/
def eraseArgs : S → List (String × Expr)
  | argCons k v rest => (k, erase v) :: eraseArgs rest
  | _ => []
/-- the entries a list of array entries denotes -/
def eraseItems : S → List ArrayEntry
  | itemCons sp x rest => (if sp then .spread (erase x) else .item (erase x)) :: eraseItems rest
  | _ => []
/-- the entries a list of map entries denotes -/
def eraseEntries : S → List MapEntry
  | entryKV k v rest => .keyValue k.key (erase v) :: eraseEntries rest
  | entrySpread x rest => .spread (erase x) :: eraseEntries rest
  | _ => []
end

/-- parser recursion levels the spelling needs (`inner_parse_expression` nesting) -/
def need : S → Nat
  | paren e => 1 + need e
  | unary _ e => 1 + need e
  | binary _ l r => max (need l) (1 + need r)
  | notIn l r => max (need l) (1 + need r)
  | ternary c t f => max (need t) (max (1 + need c) (1 + need f))
  | filter e _ => need e
  | test e _ _ => need e
  | index e i => max (need e) (1 + need i)
  | attr e _ _ => need e
  | sub e i _ => max (need e) (1 + need i)
  | argCons _ v rest => max (1 + need v) (need rest)
  | itemCons _ x rest => max (1 + need x) (need rest)
  | arr items => need items
  | entryKV _ v rest => max (1 + need v) (need rest)
  | entrySpread x rest => max (1 + need x) (need rest)
  | mapLit es => need es
  | comp e _ _ target cond => max (1 + need e) (max (1 + need target) (1 + need cond))
  | slice e a b c => max (need e) (max (1 + need a) (max (1 + need b) (1 + need c)))
  | subSlice e a b c _ => max (need e) (max (1 + need a) (max (1 + need b) (1 + need c)))
  | call _ args => need args
  | filterA e _ args => max (need e) (need args)
  | testA e _ _ args => max (need e) (need args)
  | _ => 1

/-- nesting of subscripts (`num_left_brackets`) -/
def bneed : S → Nat
  | paren e => bneed e
  | unary _ e => bneed e
  | binary _ l r => max (bneed l) (bneed r)
  | notIn l r => max (bneed l) (bneed r)
  | ternary c t f => max (bneed t) (max (bneed c) (bneed f))
  | filter e _ => bneed e
  | test e _ _ => bneed e
  | index e i => max (bneed e) (1 + bneed i)
  | attr e _ _ => bneed e
  | sub e i _ => max (bneed e) (1 + bneed i)
  | argCons _ v rest => max (bneed v) (bneed rest)
  | itemCons _ x rest => max (bneed x) (bneed rest)
  | arr items => bneed items
  | entryKV _ v rest => max (bneed v) (bneed rest)
  | entrySpread x rest => max (bneed x) (bneed rest)
  | mapLit es => bneed es
  | comp e _ _ target cond => max (bneed e) (max (bneed target) (bneed cond))
  | slice e a b c => max (bneed e) (1 + max (bneed a) (max (bneed b) (bneed c)))
  | subSlice e a b c _ => max (bneed e) (1 + max (bneed a) (max (bneed b) (bneed c)))
  | call _ args => bneed args
  | filterA e _ args => max (bneed e) (bneed args)
  | testA e _ _ args => max (bneed e) (bneed args)
  | _ => 0

/-- nesting of array literals (`array_dimension`) -/
def adneed : S → Nat
  | paren e => adneed e
  | unary _ e => adneed e
  | binary _ l r => max (adneed l) (adneed r)
  | notIn l r => max (adneed l) (adneed r)
  | ternary c t f => max (adneed t) (max (adneed c) (adneed f))
  | filter e _ => adneed e
  | test e _ _ => adneed e
  | index e i => max (adneed e) (adneed i)
  | attr e _ _ => adneed e
  | sub e i _ => max (adneed e) (adneed i)
  | argCons _ v rest => max (adneed v) (adneed rest)
  | itemCons _ x rest => max (adneed x) (adneed rest)
  | arr items => 1 + adneed items
  | entryKV _ v rest => max (adneed v) (adneed rest)
  | entrySpread x rest => max (adneed x) (adneed rest)
  | mapLit es => adneed es
  | comp e _ _ target cond => max (1 + adneed e) (max (adneed target) (adneed cond))
  | slice e a b c => max (adneed e) (max (adneed a) (max (adneed b) (adneed c)))
  | subSlice e a b c _ => max (adneed e) (max (adneed a) (max (adneed b) (adneed c)))
  | call _ args => adneed args
  | filterA e _ args => max (adneed e) (adneed args)
  | testA e _ _ args => max (adneed e) (adneed args)
  | _ => 0

end S


namespace S

/-- the documented level of the outermost construct (0: ternary; `L.post`: anything atomic) -/
def lvl (L : DocLevels) : S → Nat
  | ternary .. => 0
  | binary op .. => L.bin op
  | notIn .. => L.notIn
  | test _ _ neg => if neg then L.isNot else L.bin .Is
  | filter .. => L.bin .Pipe
  | testA _ _ neg _ => if neg then L.isNot else L.bin .Is
  | filterA .. => L.bin .Pipe
  | unary u _ => L.unary u
  | _ => L.post

/-- an identifier chain: a variable followed by `.name`, `?.name`, `[i]`, `?[i]` links -/
def isChain : S → Bool
  | var _ => true
  | attr e _ _ => isChain e
  | sub e _ _ => isChain e
  | subSlice e _ _ _ _ => isChain e
  | _ => false

/-- the identifier a chain starts with -/
def chainRoot : S → String
  | var name => name
  | attr e _ _ => chainRoot e
  | sub e _ _ => chainRoot e
  | subSlice e _ _ _ _ => chainRoot e
  | _ => ""

/-- names of an argument list, in source order -/
def argNames : S → List String
  | argCons k _ rest => k :: argNames rest
  | _ => []

/-- what may be subscripted without parentheses outside an identifier chain: a literal, a
parenthesised expression, or another such subscript -/
def primary : S → Bool
  | int _ | float _ | str _ | bool _ | noneLit _ | paren _ | index .. | call .. | arr _
  | mapLit _ | comp .. | slice .. => true
  | _ => false

mutual
/-- `s` carries (at least) the parentheses the documented table requires — every operand sits at
a level its position admits — and respects the engine's extra restrictions (stated in
props.d/C02.json): reserved words are not variables, no two consecutive unary operators, no
unary-operator node right of `~`, argument names are not repeated.  Redundant parentheses are
allowed anywhere (`paren`). -/
def DocWP (L : DocLevels) : S → Prop
  | int _ | float _ | str _ | bool _ => True
  | noneLit kw => kw = "none" ∨ kw = "None" ∨ kw = "null"
  | var name => name ≠ "none" ∧ name ≠ "None" ∧ name ≠ "null" ∧ name ≠ "not"
  | paren e => DocWP L e
  | unary u e => DocWP L e ∧ L.unary u + 1 ≤ e.lvl L
      ∧ e.toks.head? ≠ some .minus ∧ e.toks.head? ≠ some (.ident "not")
  | binary op l r => op ≠ .Is ∧ op ≠ .Pipe ∧ DocWP L l ∧ DocWP L r
      ∧ (if rightAssoc op then L.bin op + 1 ≤ l.lvl L ∧ L.bin op ≤ r.lvl L
         else L.bin op ≤ l.lvl L ∧ L.bin op + 1 ≤ r.lvl L)
      ∧ ¬ (op = .StrConcat ∧ Parser.isUnary r.erase = true)
  | notIn l r => DocWP L l ∧ DocWP L r ∧ L.notIn ≤ l.lvl L ∧ L.notIn + 1 ≤ r.lvl L
  | ternary c t f => DocWP L c ∧ DocWP L t ∧ DocWP L f ∧ 1 ≤ t.lvl L
  | filter e _ => DocWP L e ∧ L.bin .Pipe ≤ e.lvl L
  | test e name neg => DocWP L e ∧ L.bin .Is ≤ e.lvl L ∧ (neg = false → name ≠ "not")
  | index e i => DocWP L e ∧ DocWP L i ∧ e.primary = true
  | attr e _ _ => e.isChain = true ∧ DocWP L e ∧ e.chainRoot ≠ "loop"
  | sub e i _ => e.isChain = true ∧ DocWP L e ∧ DocWP L i
  | call name args =>
    (name ≠ "none" ∧ name ≠ "None" ∧ name ≠ "null" ∧ name ≠ "not") ∧ DocWPArgs L args
      ∧ args.isEnd = false
  | filterA e _ args => DocWP L e ∧ L.bin .Pipe ≤ e.lvl L ∧ DocWPArgs L args ∧ args.isEnd = false
  | testA e name neg args =>
    DocWP L e ∧ L.bin .Is ≤ e.lvl L ∧ (neg = false → name ≠ "not") ∧ DocWPArgs L args
      ∧ args.isEnd = false
  | arr items => DocWPItems L items ∧ items.isEnd = false
  | mapLit es => DocWPEntries L es ∧ es.isEnd = false
  | comp e key value target cond =>
    DocWP L e ∧ value ∉ Gen.RESERVED_NAMES ∧ (∀ k, key = some k → k ∉ Gen.RESERVED_NAMES)
      ∧ DocWP L target ∧ 1 ≤ target.lvl L
      ∧ (if cond.isAbsent then True else DocWP L cond ∧ 1 ≤ cond.lvl L)
  | slice e a b c => DocWP L e ∧ e.primary = true
      ∧ (if a.isAbsent then True else DocWP L a) ∧ (if b.isAbsent then True else DocWP L b)
      ∧ (if c.isAbsent then True else DocWP L c)
  | subSlice e a b c _ => e.isChain = true ∧ DocWP L e
      ∧ (if a.isAbsent then True else DocWP L a) ∧ (if b.isAbsent then True else DocWP L b)
      ∧ (if c.isAbsent then True else DocWP L c)
  | absent => False
  | argEnd => False
  | itemEnd => False
  | entryEnd => False
  | entryNil => False
  | entryKV .. => False
  | entrySpread .. => False
  | argNil => False
  | argCons .. => False
  | itemNil => False
  | itemCons .. => False
/-- the same for an argument list: every value is well parenthesised, no name is repeated -/
def DocWPArgs (L : DocLevels) : S → Prop
  | argNil => True
  | argEnd => True
  | argCons k v rest => DocWP L v ∧ k ∉ argNames rest ∧ DocWPArgs L rest
  | _ => False
/-- the same for a list of array entries -/
def DocWPItems (L : DocLevels) : S → Prop
  | itemNil => True
  | itemEnd => True
  | itemCons _ x rest => DocWP L x ∧ DocWPItems L rest
  | _ => False
/-- the same for a list of map entries -/
def DocWPEntries (L : DocLevels) : S → Prop
  | entryNil => True
  | entryEnd => True
  | entryKV _ v rest => DocWP L v ∧ DocWPEntries L rest
  | entrySpread x rest => DocWP L x ∧ DocWPEntries L rest
  | _ => False
end

mutual
/-- `DocWP` is decidable (used for the spot checks) -/
def decDocWP (L : DocLevels) : (s : S) → Decidable (s.DocWP L)
  | int _ | float _ | str _ | bool _ => isTrue trivial
  | noneLit kw => inferInstanceAs (Decidable (kw = "none" ∨ kw = "None" ∨ kw = "null"))
  | var name =>
    inferInstanceAs (Decidable (name ≠ "none" ∧ name ≠ "None" ∧ name ≠ "null" ∧ name ≠ "not"))
  | paren e => decDocWP L e
  | unary u e =>
    have := decDocWP L e
    inferInstanceAs (Decidable (DocWP L e ∧ L.unary u + 1 ≤ e.lvl L
      ∧ e.toks.head? ≠ some .minus ∧ e.toks.head? ≠ some (.ident "not")))
  | binary op l r =>
    have := decDocWP L l
    have := decDocWP L r
    inferInstanceAs (Decidable (op ≠ .Is ∧ op ≠ .Pipe ∧ DocWP L l ∧ DocWP L r
      ∧ (if rightAssoc op then L.bin op + 1 ≤ l.lvl L ∧ L.bin op ≤ r.lvl L
         else L.bin op ≤ l.lvl L ∧ L.bin op + 1 ≤ r.lvl L)
      ∧ ¬ (op = .StrConcat ∧ Parser.isUnary r.erase = true)))
  | notIn l r =>
    have := decDocWP L l
    have := decDocWP L r
    inferInstanceAs (Decidable (DocWP L l ∧ DocWP L r ∧ L.notIn ≤ l.lvl L ∧ L.notIn + 1 ≤ r.lvl L))
  | ternary c t f =>
    have := decDocWP L c
    have := decDocWP L t
    have := decDocWP L f
    inferInstanceAs (Decidable (DocWP L c ∧ DocWP L t ∧ DocWP L f ∧ 1 ≤ t.lvl L))
  | filter e _ =>
    have := decDocWP L e
    inferInstanceAs (Decidable (DocWP L e ∧ L.bin .Pipe ≤ e.lvl L))
  | test e name neg =>
    have := decDocWP L e
    inferInstanceAs (Decidable (DocWP L e ∧ L.bin .Is ≤ e.lvl L ∧ (neg = false → name ≠ "not")))
  | index e i =>
    have := decDocWP L e
    have := decDocWP L i
    inferInstanceAs (Decidable (DocWP L e ∧ DocWP L i ∧ e.primary = true))
  | attr e _ _ =>
    have := decDocWP L e
    inferInstanceAs (Decidable (e.isChain = true ∧ DocWP L e ∧ e.chainRoot ≠ "loop"))
  | sub e i _ =>
    have := decDocWP L e
    have := decDocWP L i
    inferInstanceAs (Decidable (e.isChain = true ∧ DocWP L e ∧ DocWP L i))
  | call name args =>
    have := decDocWPArgs L args
    inferInstanceAs (Decidable ((name ≠ "none" ∧ name ≠ "None" ∧ name ≠ "null" ∧ name ≠ "not")
      ∧ DocWPArgs L args ∧ args.isEnd = false))
  | filterA e _ args =>
    have := decDocWP L e
    have := decDocWPArgs L args
    inferInstanceAs (Decidable (DocWP L e ∧ L.bin .Pipe ≤ e.lvl L ∧ DocWPArgs L args
      ∧ args.isEnd = false))
  | testA e name neg args =>
    have := decDocWP L e
    have := decDocWPArgs L args
    inferInstanceAs (Decidable (DocWP L e ∧ L.bin .Is ≤ e.lvl L ∧ (neg = false → name ≠ "not")
      ∧ DocWPArgs L args ∧ args.isEnd = false))
  | arr items =>
    have := decDocWPItems L items
    inferInstanceAs (Decidable (DocWPItems L items ∧ items.isEnd = false))
  | mapLit es =>
    have := decDocWPEntries L es
    inferInstanceAs (Decidable (DocWPEntries L es ∧ es.isEnd = false))
  | argEnd => isFalse (fun h => h)
  | itemEnd => isFalse (fun h => h)
  | entryEnd => isFalse (fun h => h)
  | comp e key value target cond =>
    have := decDocWP L e
    have := decDocWP L target
    have := decDocWP L cond
    have : Decidable (∀ k, key = some k → k ∉ Gen.RESERVED_NAMES) := by
      cases key with
      | none => exact isTrue (by intro k h; cases h)
      | some k0 =>
        exact decidable_of_iff (k0 ∉ Gen.RESERVED_NAMES)
          ⟨fun h k hk => by cases hk; exact h, fun h => h k0 rfl⟩
    inferInstanceAs (Decidable (DocWP L e ∧ value ∉ Gen.RESERVED_NAMES
      ∧ (∀ k, key = some k → k ∉ Gen.RESERVED_NAMES)
      ∧ DocWP L target ∧ 1 ≤ target.lvl L
      ∧ (if cond.isAbsent then True else DocWP L cond ∧ 1 ≤ cond.lvl L)))
  | slice e a b c =>
    have := decDocWP L e
    have := decDocWP L a
    have := decDocWP L b
    have := decDocWP L c
    inferInstanceAs (Decidable (DocWP L e ∧ e.primary = true
      ∧ (if a.isAbsent then True else DocWP L a) ∧ (if b.isAbsent then True else DocWP L b)
      ∧ (if c.isAbsent then True else DocWP L c)))
  | subSlice e a b c _ =>
    have := decDocWP L e
    have := decDocWP L a
    have := decDocWP L b
    have := decDocWP L c
    inferInstanceAs (Decidable (e.isChain = true ∧ DocWP L e
      ∧ (if a.isAbsent then True else DocWP L a) ∧ (if b.isAbsent then True else DocWP L b)
      ∧ (if c.isAbsent then True else DocWP L c)))
  | absent => isFalse (fun h => h)
  | entryNil => isFalse (fun h => h)
  | entryKV .. => isFalse (fun h => h)
  | entrySpread .. => isFalse (fun h => h)
  | argNil => isFalse (fun h => h)
  | argCons .. => isFalse (fun h => h)
  | itemNil => isFalse (fun h => h)
  | itemCons .. => isFalse (fun h => h)
def decDocWPArgs (L : DocLevels) : (s : S) → Decidable (s.DocWPArgs L)
  | argNil => isTrue trivial
  | argEnd => isTrue trivial
  | argCons k v rest =>
    have := decDocWP L v
    have := decDocWPArgs L rest
    inferInstanceAs (Decidable (DocWP L v ∧ k ∉ argNames rest ∧ DocWPArgs L rest))
  | int _ | float _ | str _ | bool _ | noneLit _ | var _ | paren _ | unary .. | binary ..
  | notIn .. | ternary .. | filter .. | test .. | index .. | attr .. | sub .. | call ..
  | filterA .. | testA .. | itemNil | itemCons .. | arr _ | entryNil | entryKV .. | entrySpread ..
  | mapLit _ | absent | comp .. | slice .. | subSlice .. | itemEnd | entryEnd => isFalse (fun h => h)
def decDocWPItems (L : DocLevels) : (s : S) → Decidable (s.DocWPItems L)
  | itemNil => isTrue trivial
  | itemEnd => isTrue trivial
  | itemCons _ x rest =>
    have := decDocWP L x
    have := decDocWPItems L rest
    inferInstanceAs (Decidable (DocWP L x ∧ DocWPItems L rest))
  | int _ | float _ | str _ | bool _ | noneLit _ | var _ | paren _ | unary .. | binary ..
  | notIn .. | ternary .. | filter .. | test .. | index .. | attr .. | sub .. | call ..
  | filterA .. | testA .. | argNil | argCons .. | arr _ | entryNil | entryKV .. | entrySpread ..
  | mapLit _ | absent | comp .. | slice .. | subSlice .. | argEnd | entryEnd => isFalse (fun h => h)
def decDocWPEntries (L : DocLevels) : (s : S) → Decidable (s.DocWPEntries L)
  | entryNil => isTrue trivial
  | entryEnd => isTrue trivial
  | entryKV _ v rest =>
    have := decDocWP L v
    have := decDocWPEntries L rest
    inferInstanceAs (Decidable (DocWP L v ∧ DocWPEntries L rest))
  | entrySpread x rest =>
    have := decDocWP L x
    have := decDocWPEntries L rest
    inferInstanceAs (Decidable (DocWP L x ∧ DocWPEntries L rest))
  | int _ | float _ | str _ | bool _ | noneLit _ | var _ | paren _ | unary .. | binary ..
  | notIn .. | ternary .. | filter .. | test .. | index .. | attr .. | sub .. | call ..
  | filterA .. | testA .. | argNil | argCons .. | arr _ | itemNil | itemCons ..
  | mapLit _ | absent | comp .. | slice .. | subSlice .. | argEnd | itemEnd => isFalse (fun h => h)
end

instance (L : DocLevels) (s : S) : Decidable (s.DocWP L) := decDocWP L s

/-! ### The reference printer

`canon L s` adds to `s` exactly the parentheses the documented levels `L` require (and the two the
engine's restrictions require: around an operand of a unary operator that would itself start with
`-` / `not`, and around a non-primary subscript base), keeping every parenthesis `s` already has.
`render L s` is its token sequence.  So `render` of a parenthesis-free `s` is the minimal
documented spelling, and every spelling with redundant parentheses is the `render` of `s` with
those parentheses written as `paren` nodes. -/

/-- parenthesise `s` when its level is below `k` -/
def atLeast (L : DocLevels) (k : Nat) (s : S) : S := if s.lvl L < k then .paren s else s

def startsUnary (s : S) : Bool :=
  s.toks.head? == some .minus || s.toks.head? == some (.ident "not")

def canon (L : DocLevels) : S → S
  | paren e => paren (canon L e)
  | unary u e =>
    let e' := atLeast L (L.unary u + 1) (canon L e)
    unary u (if startsUnary e' then paren e' else e')
  | binary op l r =>
    binary op
      (atLeast L (if rightAssoc op then L.bin op + 1 else L.bin op) (canon L l))
      (atLeast L (if rightAssoc op then L.bin op else L.bin op + 1) (canon L r))
  | notIn l r => notIn (atLeast L L.notIn (canon L l)) (atLeast L (L.notIn + 1) (canon L r))
  | ternary c t f => ternary (canon L c) (atLeast L 1 (canon L t)) (canon L f)
  | filter e n => filter (atLeast L (L.bin .Pipe) (canon L e)) n
  | test e n g => test (atLeast L (L.bin .Is) (canon L e)) n g
  | index e i => index (if (canon L e).primary then canon L e else paren (canon L e)) (canon L i)
  | attr e n o => attr (canon L e) n o
  | sub e i o => sub (canon L e) (canon L i) o
  | argCons k v rest => argCons k (canon L v) (canon L rest)
  | itemCons sp x rest => itemCons sp (canon L x) (canon L rest)
  | arr items => arr (canon L items)
  | entryKV k v rest => entryKV k (canon L v) (canon L rest)
  | entrySpread x rest => entrySpread (canon L x) (canon L rest)
  | mapLit es => mapLit (canon L es)
  | comp e key value target cond =>
    comp (canon L e) key value (atLeast L 1 (canon L target))
      (if cond.isAbsent then absent else atLeast L 1 (canon L cond))
  | slice e a b c =>
    slice (if (canon L e).primary then canon L e else paren (canon L e)) (canon L a) (canon L b)
      (canon L c)
  | subSlice e a b c o => subSlice (canon L e) (canon L a) (canon L b) (canon L c) o
  | call n args => call n (canon L args)
  | filterA e n args => filterA (atLeast L (L.bin .Pipe) (canon L e)) n (canon L args)
  | testA e n g args => testA (atLeast L (L.bin .Is) (canon L e)) n g (canon L args)
  | s => s

/-- the reference printer: tokens of the documented spelling -/
def render (L : DocLevels) (s : S) : List Tok := (canon L s).toks

mutual
/-- what the parser can produce at all (conditions on the AST, not on the spelling): reserved
words are not variable names, `is` / `|` are not operand-taking operators, no unary-operator node
right of `~`, a test is not called `not`, argument names are not repeated -/
def Valid : S → Prop
  | int _ | float _ | str _ | bool _ => True
  | noneLit kw => kw = "none" ∨ kw = "None" ∨ kw = "null"
  | var name => name ≠ "none" ∧ name ≠ "None" ∧ name ≠ "null" ∧ name ≠ "not"
  | paren e => Valid e
  | unary _ e => Valid e
  | binary op l r => op ≠ .Is ∧ op ≠ .Pipe ∧ Valid l ∧ Valid r
      ∧ ¬ (op = .StrConcat ∧ Parser.isUnary r.erase = true)
  | notIn l r => Valid l ∧ Valid r
  | ternary c t f => Valid c ∧ Valid t ∧ Valid f
  | filter e _ => Valid e
  | test e name neg => Valid e ∧ (neg = false → name ≠ "not")
  | index e i => Valid e ∧ Valid i
  | attr e _ _ => e.isChain = true ∧ Valid e ∧ e.chainRoot ≠ "loop"
  | sub e i _ => e.isChain = true ∧ Valid e ∧ Valid i
  | call name args =>
    (name ≠ "none" ∧ name ≠ "None" ∧ name ≠ "null" ∧ name ≠ "not") ∧ ValidArgs args
      ∧ args.isEnd = false
  | filterA e _ args => Valid e ∧ ValidArgs args ∧ args.isEnd = false
  | testA e name neg args => Valid e ∧ (neg = false → name ≠ "not") ∧ ValidArgs args
      ∧ args.isEnd = false
  | arr items => ValidItems items ∧ items.isEnd = false
  | mapLit es => ValidEntries es ∧ es.isEnd = false
  | argEnd => False
  | itemEnd => False
  | entryEnd => False
  | comp e key value target cond =>
    Valid e ∧ value ∉ Gen.RESERVED_NAMES ∧ (∀ k, key = some k → k ∉ Gen.RESERVED_NAMES)
      ∧ Valid target
      ∧ (if cond.isAbsent then True else Valid cond)
  | slice e a b c => Valid e
      ∧ (if a.isAbsent then True else Valid a) ∧ (if b.isAbsent then True else Valid b)
      ∧ (if c.isAbsent then True else Valid c)
  | subSlice e a b c _ => e.isChain = true ∧ Valid e
      ∧ (if a.isAbsent then True else Valid a) ∧ (if b.isAbsent then True else Valid b)
      ∧ (if c.isAbsent then True else Valid c)
  | absent => False
  | entryNil => False
  | entryKV .. => False
  | entrySpread .. => False
  | argNil => False
  | argCons .. => False
  | itemNil => False
  | itemCons .. => False
def ValidArgs : S → Prop
  | argNil => True
  | argEnd => True
  | argCons k v rest => Valid v ∧ k ∉ argNames rest ∧ ValidArgs rest
  | _ => False
def ValidItems : S → Prop
  | itemNil => True
  | itemEnd => True
  | itemCons _ x rest => Valid x ∧ ValidItems rest
  | _ => False
def ValidEntries : S → Prop
  | entryNil => True
  | entryEnd => True
  | entryKV _ v rest => Valid v ∧ ValidEntries rest
  | entrySpread x rest => Valid x ∧ ValidEntries rest
  | _ => False
end

end S

end Tera.Spec
