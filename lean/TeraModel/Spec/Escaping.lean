/-
Specification vocabulary for C01 over the SafeFlow machine: what it means for a tagged value, a
machine state and a program to be "clean", stated independently of how `run` is written.
-/
import TeraModel.Model.SafeFlow
namespace Tera.SafeFlow
open Tera.Escape

mutual
/-- Every byte of every string of `v` whose safe flag is selected by `sel` satisfies `P`, and
every scalar's text satisfies `Q` (looking inside arrays and maps). -/
def TVal.all (sel : Bool → Bool) (P : TB → Bool) (Q : List Nat → Bool) : TVal → Bool
  | .str s bs => !sel s || bs.all P
  | .scalar f => Q f
  | .arr xs => allList sel P Q xs
  | .map es => allEntries sel P Q es
  | _ => true
def allList (sel : Bool → Bool) (P : TB → Bool) (Q : List Nat → Bool) : List TVal → Bool
  | [] => true
  | x :: xs => TVal.all sel P Q x && allList sel P Q xs
def allEntries (sel : Bool → Bool) (P : TB → Bool) (Q : List Nat → Bool) :
    List (List Nat × TVal) → Bool
  | [] => true
  | (_, v) :: es => TVal.all sel P Q v && allEntries sel P Q es
end

/-- The invariant over a whole machine state: all values everywhere (value stack, loop and set
variables, include parents' scopes and context) and all bytes already written (capture buffers,
output). -/
def St.all (sel : Bool → Bool) (P : TB → Bool) (Q : List Nat → Bool) (st : St) : Bool :=
  st.stack.all (TVal.all sel P Q) && st.vars.all (fun e => TVal.all sel P Q e.2) &&
  st.parent.all (fun e => TVal.all sel P Q e.2) && st.caps.all (fun c => c.all P) && st.out.all P

/-- Tag is one of `lit`, `esc`, `scalar`. -/
def notRaw (tb : TB) : Bool := tb.2 != Tag.raw

/-- A byte that claims to be escaper output or scalar text is not one of `< > " '`. -/
def escClean (tb : TB) : Bool := (tb.2 != Tag.esc && tb.2 != Tag.scalar) || !isSpecial tb.1

/-- A byte that claims to be scalar text is drawn from the scalar alphabet. -/
def scalarTagOk (tb : TB) : Bool := tb.2 != Tag.scalar || isScalarByte tb.1

/-- The output bytes that would result if the bytes the sinks wrote by the scalar fast path were
sent through the escaper too (the escaper works byte by byte). -/
def escapeScalarBytes (out : TStr) : List Nat :=
  out.flatMap (fun tb => if tb.2 == Tag.scalar then escapeHtml [tb.1] else [tb.1])

/-- The `ValueKind`s a model value stands for (`scalar` stands for bool and the five number kinds). -/
def kindNames : TVal → List String
  | .undef => ["Undefined"]
  | .none => ["None"]
  | .scalar _ => ["Bool", "U64", "I64", "F64", "U128", "I128"]
  | .str .. => ["String"]
  | .bytes _ => ["Bytes"]
  | .arr _ => ["Array"]
  | .map _ => ["Map"]

def onlySafe (s : Bool) : Bool := s
def everyString (_ : Bool) : Bool := true
def anyScalar (_ : List Nat) : Bool := true
/-- scalar text is drawn from `[0-9A-Za-z.+-]` (what `Value::format` writes for bool / number) -/
def scalarText (f : List Nat) : Bool := f.all isScalarByte

/-- "Every Safe string carries only `lit | esc | scalar` tags." -/
def SafeInv (st : St) : Prop := St.all onlySafe notRaw anyScalar st = true

/-- No `safe` filter (nor any filter / function registered `is_safe`): the `markSafe` instruction
does not occur. -/
def Instr.noSafe : Instr → Bool
  | .markSafe => false
  | _ => true

/-- No `markSafe` anywhere, and autoescape is on in every included template (given the
override). -/
def Prog.clean (ov : Option Bool) : Prog → Bool
  | .done => true
  | .op i k => i.noSafe && k.clean ov
  | .forEach _ b k => b.clean ov && k.clean ov
  | .comp _ b args _ d k => b.clean ov && args.clean ov && d.clean ov && k.clean ov
  | .incl tplAe t k => ov.getD tplAe && t.clean ov && k.clean ov
  | .super p k => p.clean ov && k.clean ov
  | .block b k => b.clean ov && k.clean ov

/-- Every template included (directly or from nested chunks) has autoescape flag `f`. -/
def Prog.inclAll (f : Bool) : Prog → Bool
  | .done => true
  | .op _ k => k.inclAll f
  | .forEach _ b k => b.inclAll f && k.inclAll f
  | .comp _ b a _ d k => b.inclAll f && a.inclAll f && d.inclAll f && k.inclAll f
  | .incl tplAe t k => (tplAe == f) && t.inclAll f && k.inclAll f
  | .super p k => p.inclAll f && k.inclAll f
  | .block b k => b.inclAll f && k.inclAll f

/-- `p` followed by `q` (sequencing at top level). -/
def Prog.append : Prog → Prog → Prog
  | .done, q => q
  | .op i k, q => .op i (k.append q)
  | .forEach v b k, q => .forEach v b (k.append q)
  | .comp hb b a ps d k, q => .comp hb b a ps d (k.append q)
  | .incl ae t k, q => .incl ae t (k.append q)
  | .super p k, q => .super p (k.append q)
  | .block b k, q => .block b (k.append q)

/-- A context as it comes from outside the engine: every byte of every string is `raw`, no
(non-empty) string is pre-marked safe, and bool / number text is drawn from the scalar alphabet. -/
def ctxClean (ctx : List (String × TVal)) : Bool :=
  ctx.all (fun e => TVal.all onlySafe (fun _ => false) scalarText e.2 &&
                    TVal.all everyString (fun tb => tb.2 == Tag.raw) scalarText e.2)

/-- A context as it comes from outside (all string bytes `raw`) that holds no bool / number
anywhere, also not inside arrays and maps. -/
def ctxNoScalar (ctx : List (String × TVal)) : Bool :=
  ctx.all (fun e => TVal.all everyString (fun tb => tb.2 == Tag.raw) (fun _ => false) e.2)

/-- Every bool / number literal of the program has text satisfying `Q`. -/
def Instr.litsOk (Q : List Nat → Bool) : Instr → Bool
  | .scalarLit f => Q f
  | _ => true

def Prog.litsOk (Q : List Nat → Bool) : Prog → Bool
  | .done => true
  | .op i k => i.litsOk Q && k.litsOk Q
  | .forEach _ b k => b.litsOk Q && k.litsOk Q
  | .comp _ b args _ d k => b.litsOk Q && args.litsOk Q && d.litsOk Q && k.litsOk Q
  | .incl _ t k => t.litsOk Q && k.litsOk Q
  | .super p k => p.litsOk Q && k.litsOk Q
  | .block b k => b.litsOk Q && k.litsOk Q

end Tera.SafeFlow
