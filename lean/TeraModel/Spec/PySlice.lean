/-
What Python selects: an independent statement of CPython's list indexing and slicing.

Sources (CPython, Objects/sliceobject.c and Objects/listobject.c):
* `PySlice_AdjustIndices(length, &start, &stop, step)`: normalises start and stop in place and
  returns the number of selected elements;
* `PySlice_Unpack` / `slice.indices`: an absent start is the first element in walking direction,
  an absent stop is "past the last element in walking direction", an absent step is 1, a zero step
  raises `ValueError`;
* `list_subscript`: the result is `[src[start + k*step] for k in range(slicelength)]`;
* `list_item` via `list_subscript`: a negative index has the length added once; an index outside
  `0 <= i < len` raises `IndexError` (here: `none`).

Python integers are unbounded, so everything is stated on `Int` without any width.  This file
is import-free and does not mention the model.
-/
namespace Tera.PySlice

/-- `x[i]` for an integer `i`: `none` stands for `IndexError`. -/
def index {α : Type} (items : List α) (i : Int) : Option α :=
  let j := if i < 0 then i + (items.length : Int) else i
  if 0 ≤ j ∧ j < (items.length : Int) then items[j.toNat]? else none

/-- One bound as `PySlice_AdjustIndices` leaves it (`step ≠ 0`). -/
def adjustBound (length : Int) (step : Int) (v : Int) : Int :=
  if v < 0 then
    let v' := v + length
    if v' < 0 then (if step < 0 then -1 else 0) else v'
  else if v ≥ length then (if step < 0 then length - 1 else length)
  else v

/-- Start after unpacking and adjusting; absent start: the first element in walking direction
(`PySlice_Unpack` substitutes 0 or `PY_SSIZE_T_MAX`, which `AdjustIndices` turns into 0 or
`length - 1`). -/
def adjStart (length : Int) (step : Int) : Option Int → Int
  | none => if step < 0 then length - 1 else 0
  | some v => adjustBound length step v

/-- Stop after unpacking and adjusting; absent stop: `PY_SSIZE_T_MAX` resp. `PY_SSIZE_T_MIN`,
adjusted to `length` resp. `-1`. -/
def adjStop (length : Int) (step : Int) : Option Int → Int
  | none => if step < 0 then -1 else length
  | some v => adjustBound length step v

/-- The return value of `PySlice_AdjustIndices`: how many elements are selected. -/
def sliceLength (start stop step : Int) : Nat :=
  if step < 0 then
    if stop < start then ((start - stop - 1) / (-step) + 1).toNat else 0
  else
    if start < stop then ((stop - start - 1) / step + 1).toNat else 0

/-- The selected positions `start, start+step, …` (`slicelength` of them). -/
def indices (length : Nat) (start stop : Option Int) (step : Int) : List Int :=
  let s := adjStart length step start
  let e := adjStop length step stop
  (List.range (sliceLength s e step)).map fun (k : Nat) => s + (k : Int) * step

/-- `items[start:stop:step]`; `none` stands for `ValueError: slice step cannot be zero`. -/
def select {α : Type} (items : List α) (start stop step : Option Int) : Option (List α) :=
  let st := step.getD 1
  if st = 0 then none
  else some ((indices items.length start stop st).filterMap fun i =>
    if 0 ≤ i then items[i.toNat]? else none)

end Tera.PySlice
