/-
What the documentation says about `-` markers, written independently of the filter's structure
(no carried flag, no peeking): output token i is a function of input tokens i-1, i, i+1.
-/
import TeraModel.Model.WsFilter
namespace Tera.WsSpec
open Tera Utf8 WsFilter

/-- the token ends with a `-` marker facing the text that follows it -/
def trimsAfter : Token → Bool
  | .variableEnd true => true
  | .tagEnd true => true
  | .comment _ true => true
  | .rawContent _ _ true => true
  | _ => false

/-- the token starts with a `-` marker facing the text that precedes it -/
def trimsBefore : Token → Bool
  | .variableStart true => true
  | .tagStart true => true
  | .comment true _ => true
  | .rawContent true _ _ => true
  | _ => false

/-- trimming of a literal text given its two direct neighbours -/
def trimBy (prev next : Option Token) (s : Bytes) : Bytes :=
  let s1 := if (prev.map trimsAfter).getD false then trimStart s else s
  if (next.map trimsBefore).getD false then trimEnd s1 else s1

/-- output item for input item `cur` with direct neighbours `prev`, `next` -/
def specItem (prev : Option Token) (cur : Item) (next : Option Token) : Item :=
  match cur.1 with
  | .content s => (.content (trimBy prev next s), cur.2)
  | .rawContent _ s _ => (.content (trimBy prev next s), cur.2)
  | .comment _ _ => (.content [], cur.2)
  | _ => cur

def specFilter (prev : Option Token) : List Item → List Item
  | [] => []
  | cur :: rest => specItem prev cur (rest.head?.map (·.1)) :: specFilter (some cur.1) rest

end Tera.WsSpec
