/-
What C04 says about block inheritance, written without reference to how `finalize_templates`
computes it: the inheritance chain of a template, the templates of the chain that define a block,
and the lineage of a block (what `RenderBlock` and successive `super()` calls run).
-/
import TeraModel.Model.Finalize
namespace Tera.Reg

/-- The inheritance chain of `T`, most derived first: `T`, its parent, its grand-parent, …
(`parents` is the list `find_parents` returns, root first). -/
def chainOf (T : String) (parents : List String) : List String := T :: parents.reverse

/-- Does the template named `n` define block `b` (at any nesting depth), and if so does that
definition call `super()`? -/
def definesBlock (S : List Tpl) (n b : String) : Option Bool :=
  match get S n with
  | some t => (t.findBlock b).map (·.callsSuper)
  | none => none

/-- The templates of a chain that define `b`, in chain order, each with its `super()` flag. -/
def definers (S : List Tpl) (b : String) : List String → List (String × Bool)
  | [] => []
  | n :: rest =>
    match definesBlock S n b with
    | some s => (n, s) :: definers S b rest
    | none => definers S b rest

/-- Keep definers up to and including the first whose definition does not call `super()`:
nothing above it can ever be reached. -/
def cutAfterNoSuper : List (String × Bool) → List String
  | [] => []
  | (n, true) :: rest => n :: cutAfterNoSuper rest
  | (n, false) :: _ => [n]

/-- The lineage the property prescribes for block `b` along a chain: `none` when no template of
the chain defines `b`; otherwise the most derived definition first, then what each `super()`
reaches in turn. -/
def lineageSpec (S : List Tpl) (chain : List String) (b : String) : Option (List String) :=
  match definers S b chain with
  | [] => none
  | ds => some (cutAfterNoSuper ds)

end Tera.Reg
