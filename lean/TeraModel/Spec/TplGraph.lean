/-
What C11 says about template graphs, written without reference to how the engine walks them:
the resolved `extends` and `include` edges of a set of templates, walks along edges, cycles.
-/
import TeraModel.Model.Finalize
namespace Tera.Reg

/-- `a` extends `b`: `a`'s `{% extends %}` target resolves (exact name first, then the fallback
prefixes in order) to the registered template `b`. -/
def ExtEdge (ps : List String) (S : List Tpl) (a b : String) : Prop :=
  ∃ t p, get S a = some t ∧ t.parent = some p ∧ resolve ps S p = some b

/-- `a` is registered and has no `{% extends %}`. -/
def IsRoot (S : List Tpl) (a : String) : Prop := ∃ t, get S a = some t ∧ t.parent = none

/-- `a`'s `{% extends %}` target `p` resolves to nothing. -/
def Dangling (ps : List String) (S : List Tpl) (a p : String) : Prop :=
  ∃ t, get S a = some t ∧ t.parent = some p ∧ resolve ps S p = none

/-- `a` includes `b` (anywhere in its source: top level, in a block, in a component body) and the
target resolves to the registered template `b`. -/
def IncEdge (ps : List String) (S : List Tpl) (a b : String) : Prop :=
  ∃ t n, get S a = some t ∧ n ∈ t.includeCalls ∧ resolve ps S n = some b

/-- `Walk E a cs x`: following `E`-edges from `a` one visits `cs` (in order) and stands at `x`
(`x` is the last element of `a :: cs`). -/
inductive Walk (E : String → String → Prop) : String → List String → String → Prop where
  | nil (a : String) : Walk E a [] a
  | cons {a b x : String} {cs : List String} : E a b → Walk E b cs x → Walk E a (b :: cs) x

/-- reachable in zero or more steps -/
def Reach (E : String → String → Prop) (a b : String) : Prop := ∃ cs, Walk E a cs b

/-- `c` lies on a cycle: reachable from itself in one or more steps -/
def OnCycle (E : String → String → Prop) (c : String) : Prop := ∃ d, E c d ∧ Reach E d c

/-- some cycle of `E` can be reached from `a` -/
def CycleReachable (E : String → String → Prop) (a : String) : Prop :=
  ∃ c, Reach E a c ∧ OnCycle E c

end Tera.Reg
