/-
Mirror of `Tera::set_delimiters` (tera/src/tera.rs): refuse once templates exist, validate the new
set, store it.  The ORDER of validation and assignment is read from the Rust source on every run
(`Generated.setDelimsValidatesFirst`, `Generated.setDelimsRefusesAfterAdd`).
-/
import TeraModel.Generated.LexTables
namespace Tera

/-- `set_delimiters(&mut self, delimiters)`: (`Ok`?, the set installed afterwards) -/
def setDelimiters (hasTemplates : Bool) (cur new : Delims) : Bool × Delims :=
  if hasTemplates && Generated.setDelimsRefusesAfterAdd then (false, cur)
  else if Generated.setDelimsValidatesFirst then
    (if new.validate then (true, new) else (false, cur))
  else
    -- `self.delimiters = delimiters; self.delimiters.validate()`
    (new.validate, new)

/-- the delimiter set in force after a history of `set_delimiters` calls on a fresh instance -/
def delimsAfter (calls : List Delims) : Delims :=
  calls.foldl (fun cur new => (setDelimiters false cur new).2) Generated.defaultDelims

end Tera
