/-
`escape_html` (tera/src/utils.rs, the default `Tera::escape_fn`) over bytes, driven by the byte
table the translator extracts from the Rust source on every run
(`Generated/EscapeTable.lean`), plus the little UTF-8 machinery C01 needs.

Bytes are `Nat`s (a byte is a `Nat` below 256, as in `Model/Value.lean` and `Model/Wire.lean`);
nothing here assumes the bound: a number that is not a byte is copied through, exactly like a
byte without an arm in the Rust `match`.
-/
import TeraModel.Generated.EscapeTable
namespace Tera.Escape

/-- Row of a table for byte `b`; a byte without a row is copied (the `_ =>` arm). -/
def row (t : List (List Nat)) (b : Nat) : List Nat := t.getD b [b]

/-- The loop of `escape_html`: `for c in input.as_bytes() { match c { … } }`. -/
def escapeWith (t : List (List Nat)) (bs : List Nat) : List Nat := bs.flatMap (row t)

/-- `tera::utils::escape_html` with the table as it is in the source now. -/
def escapeHtml (bs : List Nat) : List Nat := escapeWith Generated.escapeTable bs

/-- `<`, `>`, `"`, `'`: the bytes that must not come out of an autoescaped sink. -/
def isSpecial (b : Nat) : Bool := b == 60 || b == 62 || b == 34 || b == 39

/-- What may follow a `&` that starts one of the five entities the escaper writes. -/
def entityTails : List (List Nat) :=
  [[97, 109, 112, 59],        -- amp;
   [108, 116, 59],            -- lt;
   [103, 116, 59],            -- gt;
   [113, 117, 111, 116, 59],  -- quot;
   [35, 51, 57, 59]]          -- #39;

/-- Every `&` in the list is the start of an entity. -/
def ampOk : List Nat → Bool
  | [] => true
  | b :: rest => (b != 38 || entityTails.any (fun t => t.isPrefixOf rest)) && ampOk rest

/-- Bytes `Value::format` can produce for a bool / integer / float / none / undefined
(`true`, `false`, decimal digits, `-`, and the `{:?}` of an f64: digits `.` `e` `-` `inf` `NaN`):
a subset of `[0-9A-Za-z.+-]`. -/
def isScalarByte (b : Nat) : Bool :=
  (48 ≤ b && b ≤ 57) || (65 ≤ b && b ≤ 90) || (97 ≤ b && b ≤ 122) || b == 46 || b == 43 || b == 45

/-! ### What a table has to satisfy (checked by `decide` over the whole generated table) -/

/-- All-in-one executable check of a table: 256 rows; no row contains a special byte; every `&`
in a row starts an entity *inside that row*; rows of ASCII bytes are ASCII; rows of bytes ≥ 128
are the identity; rows of scalar-alphabet bytes are the identity. -/
def goodRow (t : List (List Nat)) (i : Nat) : Bool :=
  let r := row t i
  r.all (fun b => !isSpecial b) && ampOk r &&
  (if i < 128 then r.all (· < 128) else r == [i]) &&
  (if isScalarByte i then r == [i] else true)

def goodTable (t : List (List Nat)) : Bool :=
  t.length == 256 && (List.range 256).all (goodRow t)

/-! ### UTF-8 (what `str` guarantees: RFC 3629, no overlong forms, no surrogates) -/

def inR (lo hi b : Nat) : Bool := lo ≤ b && b ≤ hi

/-- For a lead byte ≥ 0x80: number of continuation bytes and the range of the first one. -/
def seqInfo (b0 : Nat) : Option (Nat × Nat × Nat) :=
  if inR 0xC2 0xDF b0 then some (1, 0x80, 0xBF)
  else if b0 == 0xE0 then some (2, 0xA0, 0xBF)
  else if inR 0xE1 0xEC b0 then some (2, 0x80, 0xBF)
  else if b0 == 0xED then some (2, 0x80, 0x9F)
  else if inR 0xEE 0xEF b0 then some (2, 0x80, 0xBF)
  else if b0 == 0xF0 then some (3, 0x90, 0xBF)
  else if inR 0xF1 0xF3 b0 then some (3, 0x80, 0xBF)
  else if b0 == 0xF4 then some (3, 0x80, 0x8F)
  else none

/-- `std::str::from_utf8(bs).is_ok()`. -/
def utf8Valid : List Nat → Bool
  | [] => true
  | b0 :: rest =>
    if b0 < 0x80 then utf8Valid rest
    else
      match seqInfo b0, rest with
      | some (1, lo, hi), b1 :: r => inR lo hi b1 && utf8Valid r
      | some (2, lo, hi), b1 :: b2 :: r => inR lo hi b1 && inR 0x80 0xBF b2 && utf8Valid r
      | some (3, lo, hi), b1 :: b2 :: b3 :: r =>
        inR lo hi b1 && inR 0x80 0xBF b2 && inR 0x80 0xBF b3 && utf8Valid r
      | _, _ => false

/-- `write!(f, "{v}")` of an unsigned integer: decimal digits. -/
def fmtNat (n : Nat) : List Nat := (Nat.toDigits 10 n).map Char.toNat

/-- `Value::format` of an integer kind (`u64`, `i64`, `u128`, `i128`). -/
def fmtInt (n : Int) : List Nat := if n < 0 then 45 :: fmtNat n.natAbs else fmtNat n.natAbs

/-- `Value::format` of a bool. -/
def fmtBool (b : Bool) : List Nat := if b then [116, 114, 117, 101] else [102, 97, 108, 115, 101]

/-- Continuation byte (`10xxxxxx`). -/
def isCont (b : Nat) : Bool := inR 0x80 0xBF b

end Tera.Escape
