/-
Small value primitives the evaluator (Model/Eval.lean), the scoping model (Model/Scope.lean) and
the for-loop model (Model/ForLoopModel.lean) need.  Each mirrors one Rust function:

* `Key.num`, `Key.eqv`, `Key.cmp`      tera/src/value/key.rs `KeyNumber`, `PartialEq`, `Ord for Key`
* `sortEntries`                         the `pairs.sort_by(|a, b| a.0.cmp(&b.0))` of
                                        vm/for_loop.rs `create_for_loop_iterator` and of `format_map`
* `Value.isTruthy`                      value/mod.rs `is_truthy`
* `keyToValue` / `Value.asKey`          `From<Key> for Value` / `Value::as_key`
* `Value.getAttr`, `getItem`, `slice`, `contains`, `valueEq`, `partialCmp`
                                        value/mod.rs functions of the same name
-/
import TeraModel.Model.Number
namespace Tera

/-! ### Keys -/

namespace Key

/-- `KeyNumber::from_key`: the integer a numeric key denotes. -/
def num : Key → Option Int
  | .u64 n => some ((n : Int))
  | .i64 n => some n
  | .u128 n => some ((n : Int))
  | .i128 n => some n
  | _ => none

/-- `type_order` of key.rs. -/
def typeOrder : Key → Nat
  | .bool _ => 0
  | .str _ => 2
  | _ => 1

/-- `PartialEq for Key`: strings by content, bools, numbers by integer value. -/
def eqv (a b : Key) : Bool :=
  match a, b with
  | .str x, .str y => x == y
  | .bool x, .bool y => x == y
  | _, _ => match a.num, b.num with
    | some x, some y => x == y
    | _, _ => false

/-- Lexicographic order of strings by code point (Rust `str::cmp` is by UTF-8 bytes, which is the
same order). -/
def cmpChars : List Char → List Char → Ordering
  | [], [] => .eq
  | [], _ :: _ => .lt
  | _ :: _, [] => .gt
  | a :: as, b :: bs => if a.toNat < b.toNat then .lt else if a.toNat > b.toNat then .gt else cmpChars as bs

/-- `Ord for Key`. -/
def cmp (a b : Key) : Ordering :=
  match a, b with
  | .str x, .str y => cmpChars x y
  | .bool x, .bool y => if x == y then .eq else if x then .gt else .lt
  | _, _ => match a.num, b.num with
    | some x, some y => cmpInt x y
    | _, _ => if a.typeOrder < b.typeOrder then .lt else if a.typeOrder > b.typeOrder then .gt else .eq

def le (a b : Key) : Bool := cmp a b != .gt

end Key

/-- `From<Key<'static>> for Value` (string keys become normal strings). -/
def keyToValue : Key → Value
  | .bool b => .bool b
  | .u64 n => .u64 n
  | .i64 n => .i64 n
  | .u128 n => .u128 n
  | .i128 n => .i128 n
  | .str s => .str false s

/-- `Value::as_key` (`none` = "Not a valid key type"). -/
def Value.asKey : Value → Option Key
  | .bool b => some (.bool b)
  | .u64 n => some (.u64 n)
  | .i64 n => some (.i64 n)
  | .u128 n => some (.u128 n)
  | .i128 n => some (.i128 n)
  | .str _ s => some (.str s)
  | _ => Option.none

abbrev Entries := List (Key × Value)

/-- Insert an entry into a list sorted by key (stable: after the entries that are ≤). -/
def insertByKey {α : Type} (e : Key × α) : List (Key × α) → List (Key × α)
  | [] => [e]
  | x :: xs => if Key.le x.1 e.1 then x :: insertByKey e xs else e :: x :: xs

/-- Insertion sort by key: the order in which a map is visited and printed. -/
def sortByKey {α : Type} : List (Key × α) → List (Key × α)
  | [] => []
  | x :: xs => insertByKey x (sortByKey xs)

def sortEntries (es : Entries) : Entries := sortByKey es

/-- `HashMap::get`. -/
def mapGet (es : Entries) (k : Key) : Option Value :=
  match es with
  | [] => none
  | (k', v) :: rest => if Key.eqv k' k then some v else mapGet rest k

/-- `HashMap::insert`: replaces the value of an existing (equal) key, keeps the existing key. -/
def mapInsert (es : Entries) (k : Key) (v : Value) : Entries :=
  match es with
  | [] => [(k, v)]
  | (k', v') :: rest => if Key.eqv k' k then (k', v) :: rest else (k', v') :: mapInsert rest k v

/-- `map.entry(k).or_insert(v)`: only inserts when the key is absent. -/
def mapInsertIfAbsent (es : Entries) (k : Key) (v : Value) : Entries :=
  match mapGet es k with
  | some _ => es
  | none => es ++ [(k, v)]

namespace Value

/-- `Value::is_truthy`. -/
def isTruthy : Value → Bool
  | .undef => false
  | .none => false
  | .bool b => b
  | .u64 n => n != 0
  | .i64 n => n != 0
  | .u128 n => n != 0
  | .i128 n => n != 0
  | .f64 x => !(x.isZero) -- `*v != 0.0`: NaN and infinities are truthy, both zeros are not
  | .str _ s => !s.isEmpty
  | .arr xs => !xs.isEmpty
  | .map es => !es.isEmpty
  | .bytes bs => !bs.isEmpty

def isUndef : Value → Bool
  | .undef => true
  | _ => false

def isNone : Value → Bool
  | .none => true
  | _ => false

/-- `Value::can_be_iterated_on`. -/
def canBeIteratedOn : Value → Bool
  | .map _ | .arr _ | .bytes _ | .str .. => true
  | _ => false

def isMap : Value → Bool
  | .map _ => true
  | _ => false

/-- `Value::mark_safe`. -/
def markSafe : Value → Value
  | .str _ s => .str true s
  | v => v

/-- `Value::get_attr`: only maps have attributes; the key is compared as a string key. -/
def getAttr (v : Value) (attr : List Char) : Option Value :=
  match v with
  | .map es => mapGet es (.str attr)
  | _ => Option.none

end Value
end Tera

/-! ### Equality, ordering, indexing, slicing, membership (value/mod.rs) -/
namespace Tera

mutual
/-- `PartialEq for Value`: strings compare by content (the safe flag is ignored), numbers by exact
value across kinds, arrays element-wise, maps as `HashMap`s (same size, every key of the left
present in the right with an equal value). -/
def valueEq : Value → Value → Bool
  | .undef, .undef => true
  | .none, .none => true
  | .bool a, .bool b => a == b
  | .arr a, .arr b => listEq a b
  | .bytes a, .bytes b => a == b
  | .str _ a, .str _ b => a == b
  | .map a, .map b => a.length == b.length && entriesIn a b
  | .undef, _ => false
  | .none, _ => false
  | .bool _, _ => false
  | .arr _, _ => false
  | .bytes _, _ => false
  | .str .., _ => false
  | .map _, _ => false
  | a@(.u64 _), b => numEq a b
  | a@(.i64 _), b => numEq a b
  | a@(.u128 _), b => numEq a b
  | a@(.i128 _), b => numEq a b
  | a@(.f64 _), b => numEq a b

def listEq : List Value → List Value → Bool
  | [], [] => true
  | a :: as, b :: bs => valueEq a b && listEq as bs
  | [], _ :: _ => false
  | _ :: _, [] => false

def entriesIn : List (Key × Value) → List (Key × Value) → Bool
  | [], _ => true
  | (k, v) :: rest, other =>
    (match mapGet other k with
     | some v2 => valueEq v v2
     | none => false) && entriesIn rest other
end

def cmpNatList : List Nat → List Nat → Ordering
  | [], [] => .eq
  | [], _ :: _ => .lt
  | _ :: _, [] => .gt
  | a :: as, b :: bs => if a < b then .lt else if a > b then .gt else cmpNatList as bs

mutual
/-- `PartialOrd for Value`: only like kinds compare (numbers across numeric kinds); arrays
lexicographically, `None` as soon as a pair of elements is incomparable; maps never. -/
def partialCmp : Value → Value → Option Ordering
  | .undef, .undef => some .eq
  | .none, .none => some .eq
  | .bool a, .bool b => some (if a == b then .eq else if a then .gt else .lt)
  | .arr a, .arr b => listPartialCmp a b
  | .bytes a, .bytes b => some (cmpNatList a b)
  | .str _ a, .str _ b => some (Key.cmpChars a b)
  | .undef, _ => none
  | .none, _ => none
  | .bool _, _ => none
  | .arr _, _ => none
  | .bytes _, _ => none
  | .str .., _ => none
  | .map _, _ => none
  | a@(.u64 _), b => numPartialCmp a b
  | a@(.i64 _), b => numPartialCmp a b
  | a@(.u128 _), b => numPartialCmp a b
  | a@(.i128 _), b => numPartialCmp a b
  | a@(.f64 _), b => numPartialCmp a b

def listPartialCmp : List Value → List Value → Option Ordering
  | [], [] => some .eq
  | [], _ :: _ => some .lt
  | _ :: _, [] => some .gt
  | a :: as, b :: bs =>
    match partialCmp a b with
    | some .eq => listPartialCmp as bs
    | o => o
end

/-- `resolve_index`: `error ()` = "index must be an integer". -/
def resolveIndex (item : Value) (len : Nat) : Except Unit (Option Nat) :=
  match item.asI128 with
  | some idx =>
    let n : Int := if idx < 0 then idx + (len : Int) else idx
    if 0 ≤ n ∧ n < (len : Int) then .ok (some n.toNat) else .ok none
  | none =>
    match item with
    | .u128 _ => .ok none
    | _ => .error ()

/-- `Value::get_item`: `error ()` = bad key / index kind. -/
def Value.getItem (v item : Value) : Except Unit Value :=
  match v with
  | .map es =>
    match item.asKey with
    | some k => .ok ((mapGet es k).getD .undef)
    | Option.none => .error ()
  | .arr xs =>
    match resolveIndex item xs.length with
    | .ok (some i) => .ok (xs.getD i .undef)
    | .ok Option.none => .ok .undef
    | .error e => .error e
  | .str safe s =>
    match resolveIndex item s.length with
    | .ok (some i) => .ok (match s[i]? with | some c => .str safe [c] | Option.none => .undef)
    | .ok Option.none => .ok .undef
    | .error e => .error e
  | _ => .ok .undef

/-- The `while` loop of `slice_items`; at most `len + 1` rounds. -/
def sliceLoop {α : Type} (items : List α) : Nat → Int → Int → Int → List α
  | 0, _, _, _ => []
  | fuel + 1, i, e, step =>
    if (if step > 0 then i < e else i > e) then
      match items[i.toNat]? with
      | some x => x :: sliceLoop items fuel (i + step) e step
      | none => []
    else []

/-- `slice_items` (Python semantics; `step ≠ 0`). -/
def sliceItems {α : Type} (items : List α) (start stop : Option Int) (step : Int) : List α :=
  let len : Int := (items.length : Int)
  let lo : Int := if step > 0 then 0 else -1
  let hi : Int := if step > 0 then len else len - 1
  let resolve (p : Option Int) (dflt : Int) : Int :=
    match p with
    | none => dflt
    | some p =>
      let p := if p < 0 then p + len else p
      if p < lo then lo else if p > hi then hi else p
  let s := resolve start (if step > 0 then lo else hi)
  let e := resolve stop (if step > 0 then hi else lo)
  sliceLoop items (items.length + 1) s e step

/-- `Value::slice`: `error ()` = step 0 or not an array / string. -/
def Value.slice (v : Value) (start stop step : Option Int) : Except Unit Value :=
  let st := step.getD 1
  if st == 0 then .error ()
  else match v with
    | .arr xs => .ok (.arr (sliceItems xs start stop st))
    | .str safe s => .ok (.str safe (sliceItems s start stop st))
    | _ => .error ()

def isPrefixChars : List Char → List Char → Bool
  | [], _ => true
  | _ :: _, [] => false
  | a :: as, b :: bs => a == b && isPrefixChars as bs

/-- `str::contains(&str)`. -/
def isInfixChars (needle : List Char) : List Char → Bool
  | [] => needle.isEmpty
  | c :: cs => isPrefixChars needle (c :: cs) || isInfixChars needle cs

def anyEq (needle : Value) : List Value → Bool
  | [] => false
  | x :: xs => valueEq x needle || anyEq needle xs

/-- `Value::contains`: `error ()` = "`in` cannot be used on a container of type ..". -/
def Value.contains (container needle : Value) : Except Unit Bool :=
  match container with
  | .arr xs => .ok (anyEq needle xs)
  | .str _ s =>
    match needle with
    | .str _ n => .ok (isInfixChars n s)
    | _ => .ok false
  | .map es =>
    match needle.asKey with
    | some k => .ok (mapGet es k).isSome
    | Option.none => .ok false
  | _ => .error ()

/-- `escape_html` (tera/src/utils.rs, default features). -/
def escapeHtml (s : List Char) : List Char :=
  s.flatMap fun c =>
    if c == '&' then "&amp;".toList
    else if c == '<' then "&lt;".toList
    else if c == '>' then "&gt;".toList
    else if c == '"' then "&quot;".toList
    else if c == '\'' then "&#39;".toList
    else [c]

/-- `Value::is_safe`. -/
def Value.isSafe : Value → Bool
  | .str safe _ => safe
  | .arr _ | .map _ | .bytes _ => false
  | _ => true

end Tera
