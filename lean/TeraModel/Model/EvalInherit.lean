/-
Inheritance for the evaluator (Model/Eval.lean), as a pre-pass over the AST: `extends`, blocks and
`super()` are resolved into block-free statement lists which the evaluator then runs unchanged.

Mirrors (tera/src/tera.rs `finalize_templates`, tera/src/vm/interpreter.rs):
* the lineage of a block for a template: the nearest template of its chain (itself, parent,
  grand-parent, …) that defines the block, followed — as long as the definition reached calls
  `super()` somewhere in its own chunk — by the next definition further up;
* `RenderBlock b` runs `lineage[0]` in the current state; `super()` inside the block at level `k`
  runs `lineage[k+1]` with its output captured and yields it as a safe string.  Writing that safe
  string (`{{ super() }}`) is, by `output_routing` (Props/C03), the same as running the parent
  body in place; `{% set x = super() %}` is the set block `{% set x %}parent body{% endset %}`.
  Those are the two forms resolved here; `super()` anywhere else in an expression stays in the
  tree and is the evaluator's `unsupported` outcome;
* a render of `T` runs the top-level statements of the ROOT of `T`'s chain against `T`'s lineages;
  an `include` of `T` runs `T`'s own top-level statements against `T`'s lineages;
* `render_block(T, b)`: the full render with the text of block `b` diverted into a buffer: here
  the block is wrapped into a set block of a reserved name (which, by `capture_exact`, holds exactly
  the text the block writes) and the result is that variable.

`super()` with nothing further up, or outside a block, is a render error (class `call`).
Recursion is bounded by fuel; running out leaves an (unsupported) `block` node in the tree.
-/
import TeraModel.Model.Eval
namespace Tera

/-- A template as parsed: `ParserOutput` + the autoescape flag of its name. -/
structure RawTpl where
  nodes : List Node
  parent : Option String
  autoescape : Bool

abbrev RawSet := List (String × RawTpl)

def RawSet.get (S : RawSet) (name : String) : Option RawTpl :=
  (S.find? (fun p => p.1 == name)).map (·.2)

/-! ### does a chunk call `super()` -/

mutual
def Expr.callsSuper : Expr → Bool
  | .const _ => false
  | .array items => ArrayEntry.anyCallsSuper items
  | .map entries => MapEntry.anyCallsSuper entries
  | .var _ => false
  | .getAttr e _ _ => Expr.callsSuper e
  | .getItem e s _ => Expr.callsSuper e || Expr.callsSuper s
  | .slice e a b c _ => Expr.callsSuper e || Expr.optCallsSuper a || Expr.optCallsSuper b || Expr.optCallsSuper c
  | .filter e _ kw => Expr.callsSuper e || Expr.kwCallsSuper kw
  | .test e _ kw => Expr.callsSuper e || Expr.kwCallsSuper kw
  | .ternary c t f => Expr.callsSuper c || Expr.callsSuper t || Expr.callsSuper f
  | .listComprehension e _ _ t c => Expr.callsSuper e || Expr.callsSuper t || Expr.optCallsSuper c
  | .componentCall _ kw body _ => MapEntry.anyCallsSuper kw || Node.anyCallsSuper body
  | .functionCall name kw => name == "super" || Expr.kwCallsSuper kw
  | .unary _ e => Expr.callsSuper e
  | .binary _ l r => Expr.callsSuper l || Expr.callsSuper r
def Expr.optCallsSuper : Option Expr → Bool
  | none => false
  | some e => Expr.callsSuper e
def Expr.listCallsSuper : List Expr → Bool
  | [] => false
  | e :: rest => Expr.callsSuper e || Expr.listCallsSuper rest
def Expr.kwCallsSuper : List (String × Expr) → Bool
  | [] => false
  | (_, e) :: rest => Expr.callsSuper e || Expr.kwCallsSuper rest
def ArrayEntry.anyCallsSuper : List ArrayEntry → Bool
  | [] => false
  | .item e :: rest => Expr.callsSuper e || ArrayEntry.anyCallsSuper rest
  | .spread e :: rest => Expr.callsSuper e || ArrayEntry.anyCallsSuper rest
def MapEntry.anyCallsSuper : List MapEntry → Bool
  | [] => false
  | .keyValue _ e :: rest => Expr.callsSuper e || MapEntry.anyCallsSuper rest
  | .spread e :: rest => Expr.callsSuper e || MapEntry.anyCallsSuper rest
/-- `Chunk::is_calling_function("super")` of the chunk these statements compile into: nested
blocks are chunks of their own and do not count. -/
def Node.callsSuper : Node → Bool
  | .content _ => false
  | .expression e => Expr.callsSuper e
  | .set _ v _ => Expr.callsSuper v
  | .blockSet _ fs body _ => Expr.listCallsSuper fs || Node.anyCallsSuper body
  | .include _ => false
  | .block _ _ => false
  | .forLoop _ _ t body els => Expr.callsSuper t || Node.anyCallsSuper body || Node.anyCallsSuper els
  | .break => false
  | .continue => false
  | .if c body fb => Expr.callsSuper c || Node.anyCallsSuper body || Node.anyCallsSuper fb
  | .filterSection _ kw body => Expr.kwCallsSuper kw || Node.anyCallsSuper body
def Node.anyCallsSuper : List Node → Bool
  | [] => false
  | n :: rest => Node.callsSuper n || Node.anyCallsSuper rest
end

/-! ### block definitions of a template (at any nesting depth) -/

mutual
/-- The body of the definition of block `b` among these statements (`Template.blocks[b]`). -/
def Node.findBlock (b : String) : Node → Option (List Node)
  | .block name body => if name == b then some body else Node.findBlockIn b body
  | .blockSet _ _ body _ => Node.findBlockIn b body
  | .filterSection _ _ body => Node.findBlockIn b body
  | .if _ body fb => (Node.findBlockIn b body).orElse (fun _ => Node.findBlockIn b fb)
  | .forLoop _ _ _ body els => (Node.findBlockIn b body).orElse (fun _ => Node.findBlockIn b els)
  | _ => none
def Node.findBlockIn (b : String) : List Node → Option (List Node)
  | [] => none
  | n :: rest => (Node.findBlock b n).orElse (fun _ => Node.findBlockIn b rest)
end

/-- `T`, its parent, its grand-parent, … (`fuel` bounds a cyclic `extends`, which the engine
rejects at registration). -/
def chainOf (S : RawSet) : Nat → String → List String
  | 0, _ => []
  | fuel + 1, name =>
    match S.get name with
    | none => []
    | some t =>
      match t.parent with
      | none => [name]
      | some p => name :: chainOf S fuel p

/-- The definitions of `b` along a chain, nearest first, each with "calls `super()`". -/
def definers (S : RawSet) (b : String) : List String → List (List Node × Bool)
  | [] => []
  | n :: rest =>
    match (S.get n).bind (fun t => Node.findBlockIn b t.nodes) with
    | some body => (body, Node.anyCallsSuper body) :: definers S b rest
    | none => definers S b rest

/-- Keep definitions up to and including the first that does not call `super()`. -/
def cutAfterNoSuper : List (List Node × Bool) → List (List Node)
  | [] => []
  | (body, true) :: rest => body :: cutAfterNoSuper rest
  | (body, false) :: _ => [body]

/-- `Template.block_lineage[b]` of the template whose chain is `chain`: most derived first. -/
def lineage (S : RawSet) (chain : List String) (b : String) : List (List Node) :=
  cutAfterNoSuper (definers S b chain)

/-- the render error "super() called outside of a block" / "Tried to use super() in the top level
block" (error class `call`): a `throw()` without its message fails with that class -/
def superErrorNode : Node := .expression (.functionCall "throw" [])

/-- The reserved name `render_block` diverts the block's text to. -/
def BLOCK_BUFFER : String := "__tera_block_buffer"

mutual
/-- Resolve blocks and `super()` in one statement. `cur` = the block being rendered and the level
reached in its lineage; `target` = the block `render_block` asks for, if any. -/
def flattenNode (lin : String → List (List Node)) (target : Option String) :
    Nat → Option (String × Nat) → Node → List Node
  | 0, _, n => [.block "__tera_out_of_fuel" [n]]
  | fuel + 1, cur, n =>
    match n with
    | .block name body =>
      match lin name with
      | [] => [.block name body]
      | top :: _ =>
        let inner := flattenNodes lin target fuel (some (name, 0)) top
        if target == some name then [.blockSet BLOCK_BUFFER [] inner false] else inner
    | .expression (.functionCall "super" []) =>
      match cur with
      | none => [superErrorNode]
      | some (b, k) =>
        match (lin b)[k + 1]? with
        | some body => flattenNodes lin target fuel (some (b, k + 1)) body
        | none => [superErrorNode]
    | .set x (.functionCall "super" []) g =>
      match cur with
      | none => [superErrorNode]
      | some (b, k) =>
        match (lin b)[k + 1]? with
        | some body => [.blockSet x [] (flattenNodes lin target fuel (some (b, k + 1)) body) g]
        | none => [superErrorNode]
    | .blockSet x fs body g => [.blockSet x fs (flattenNodes lin target fuel cur body) g]
    | .filterSection f kw body => [.filterSection f kw (flattenNodes lin target fuel cur body)]
    | .if c body fb => [.if c (flattenNodes lin target fuel cur body) (flattenNodes lin target fuel cur fb)]
    | .forLoop k v t body els =>
      [.forLoop k v t (flattenNodes lin target fuel cur body) (flattenNodes lin target fuel cur els)]
    | other => [other]

def flattenNodes (lin : String → List (List Node)) (target : Option String) :
    Nat → Option (String × Nat) → List Node → List Node
  | 0, _, ns => [.block "__tera_out_of_fuel" ns]
  | _ + 1, _, [] => []
  | fuel + 1, cur, n :: rest => flattenNode lin target fuel cur n ++ flattenNodes lin target fuel cur rest
end

def FLATTEN_FUEL : Nat := 4000

/-- What an `include` of `name` runs: its own top-level statements against its own lineages. -/
def includeView (S : RawSet) (name : String) (t : RawTpl) : TemplateDef :=
  let chain := chainOf S (S.length + 1) name
  { nodes := flattenNodes (lineage S chain) none FLATTEN_FUEL none t.nodes, autoescape := t.autoescape }

/-- What a render of `name` runs: the ROOT template's top-level statements against `name`'s
lineages (`target` = the block `render_block` wants). -/
def renderView (S : RawSet) (name : String) (target : Option String) : Option (List Node) :=
  let chain := chainOf S (S.length + 1) name
  match chain.getLast? with
  | none => none
  | some root => (S.get root).map fun r => flattenNodes (lineage S chain) target FLATTEN_FUEL none r.nodes

def envOf (S : RawSet) (F : FloatOps) (fmtF64 : F64 → List Char) : Env :=
  { templates := S.map (fun p => (p.1, includeView S p.1 p.2)), F := F, fmtF64 := fmtF64 }

/-- `Tera::render(name, ctx)` with inheritance. -/
def renderInherit (fuel : Nat) (S : RawSet) (F : FloatOps) (fmtF64 : F64 → List Char) (name : String)
    (ctx globalCtx : Ctx) : Except Err (List Char) :=
  match S.get name, renderView S name none with
  | some t, some nodes =>
    match execNodes fuel (envOf S F fmtF64) t.autoescape ⟨Scope.root ctx globalCtx, [], []⟩ nodes with
    | .error e => .error e
    | .ok (st, .normal) => .ok st.out
    | .ok (_, _) => .error (.unsupported "break/continue leaving a template")
  | _, _ => .error .missingTemplate

/-- `Tera::render_block(name, block, ctx)`: the whole template is run, the text of the block is
what comes back (empty when the block is never reached). -/
def renderBlock (fuel : Nat) (S : RawSet) (F : FloatOps) (fmtF64 : F64 → List Char) (name block : String)
    (ctx globalCtx : Ctx) : Except Err (List Char) :=
  let chain := chainOf S (S.length + 1) name
  if (lineage S chain block).isEmpty then .error .call
  else
    match S.get name, renderView S name (some block) with
    | some t, some nodes =>
      match execNodes fuel (envOf S F fmtF64) t.autoescape ⟨Scope.root ctx globalCtx, [], []⟩ nodes with
      | .error e => .error e
      | .ok (st, .normal) =>
        match st.scope.getValue BLOCK_BUFFER with
        | .str _ s => .ok s
        | _ => .ok []
      | .ok (_, _) => .error (.unsupported "break/continue leaving a template")
    | _, _ => .error .missingTemplate

end Tera
