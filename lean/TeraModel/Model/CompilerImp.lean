/-
The bytecode compiler once more, this time as the mutable pass the Rust code is
(tera/src/parsing/compiler.rs): one `Compiler` state (`chunk`, the stack `processing_bodies`, the
recorded blocks / call sites, `block_depth`), instructions appended by `chunk.add`, forward jumps
emitted with operand 0 and patched later through `chunk.get_mut(idx)` (`end_branch`, the
`ShortCircuit` entry of `and` / `or`, the explicit patches of the two loops), every
`unreachable!()` / `unwrap()` of the file an explicit `.error "compiler.rs:<line>"` outcome.

Model/Compiler.lean (`exprCode` / `exprEvents` …) is the same compiler with the patched operands
written directly; Lemmas/CompilerImpEq.lean proves that the two agree and that on a scoped AST none
of the `unreachable!()` sites is reached.  Not modelled here either: spans other than their
presence, `top_level_variables` / `temp_variables` (and with them the two `scope.unwrap()` of
compiler.rs:479, 512, which act on a vector that is never empty), the `as u32` / `as usize` casts
of instruction indices (`Chunk::add` returns `u32`: a chunk is assumed shorter than 2^32).
-/
import TeraModel.Model.Compiler
namespace Tera.Compiler.Imp
open Tera Tera.Compiler

/-- `ProcessingBody` (compiler.rs:15) -/
inductive ProcessingBody where
  | branch (idx : Nat)
  | shortCircuit (idxs : List Nat)
  | loop (idx : Nat)

/-- the fields of `Compiler` that matter (`blocks`, `block_name_spans` and the five `*_calls` are
the event list, as in Model/Compiler.lean) -/
structure Comp where
  chunk : Code
  /-- `processing_bodies`; the head is the top of the Rust `Vec` -/
  bodies : List ProcessingBody
  events : List Event
  /-- `block_depth` -/
  depth : Nat

abbrev M := Except String

/-- `bind` of `M`, with its two computation rules as `simp` lemmas -/
def bnd {α β : Type} (x : M α) (f : α → M β) : M β :=
  match x with
  | .ok a => f a
  | .error e => .error e

@[simp] theorem bnd_ok {α β : Type} (a : α) (f : α → M β) : bnd (.ok a) f = f a := rfl
@[simp] theorem bnd_error {α β : Type} (e : String) (f : α → M β) :
    bnd (.error e : M α) f = .error e := rfl

/-- `self.chunk.add(instr, span)`: the state after it (the returned index is the old length) -/
def add (c : Comp) (i : CInstr) (hasSpan : Bool) : Comp :=
  { c with chunk := c.chunk ++ [(i, hasSpan)] }

def record (c : Comp) (ev : Event) : Comp := { c with events := c.events ++ [ev] }

/-- `if let Some((Jump(t) | PopJumpIfFalse(t), _)) = chunk.get_mut(idx) { *t = target }`
(`end_branch`; anything else at `idx` is left alone) -/
def patchBranch (code : Code) (idx target : Nat) : Code :=
  match code[idx]? with
  | some (.jump _, s) => code.set idx (.jump target, s)
  | some (.popJumpIfFalse _, s) => code.set idx (.popJumpIfFalse target, s)
  | _ => code

/-- the patch loop of `and` / `or` (compiler.rs:393-401) for one recorded index -/
def patchShort (code : Code) (target idx : Nat) : Code :=
  match code[idx]? with
  | some (.jumpIfFalseOrPop _, s) => code.set idx (.jumpIfFalseOrPop target, s)
  | some (.jumpIfTrueOrPop _, s) => code.set idx (.jumpIfTrueOrPop target, s)
  | _ => code

/-- `if let Some((PopJumpIfFalse(t), _)) = get_mut(idx) { *t = target } else { unreachable!() }` -/
def patchPopJump (code : Code) (idx target : Nat) (site : String) : M Code :=
  match code[idx]? with
  | some (.popJumpIfFalse _, s) => .ok (code.set idx (.popJumpIfFalse target, s))
  | _ => .error site

/-- `if let Some((Iterate(t), _)) = get_mut(idx) { *t = target } else { unreachable!() }` -/
def patchIterate (code : Code) (idx target : Nat) (site : String) : M Code :=
  match code[idx]? with
  | some (.iterate _, s) => .ok (code.set idx (.iterate target, s))
  | _ => .error site

/-- `Compiler::end_branch` -/
def endBranch (c : Comp) (target : Nat) : M Comp :=
  match c.bodies with
  | .branch instr :: rest =>
    .ok { c with chunk := patchBranch c.chunk instr target, bodies := rest }
  | _ => .error "compiler.rs:452"

/-- `Compiler::get_current_loop` -/
def currentLoop : List ProcessingBody → Option Nat
  | [] => none
  | .loop idx :: _ => some idx
  | _ :: rest => currentLoop rest

def storeKey (c : Comp) : Option String → Comp
  | some k => add c (.storeLocal k) false
  | none => c

mutual
/-- `Compiler::compile_expr` -/
def compileExpr : Expr → Comp → M Comp
  | .const v, c => .ok (add c (.loadConst v) true)
  | .map entries, c =>
    bnd (compileMapItems entries c) fun c => .ok (add c (mapBuild entries) true)
  | .array items, c =>
    bnd (compileArrayItems items c) fun c => .ok (add c (arrayBuild items) true)
  | .var n, c => .ok (add c (.loadName n) true)
  | .getAttr e n opt, c =>
    bnd (compileExpr e c) fun c => .ok (add c (if opt then .loadAttrOpt n else .loadAttr n) true)
  | .getItem e s opt, c =>
    bnd (compileExpr e c) fun c =>
    bnd (compileExpr s c) fun c =>
    .ok (add c (if opt then .binarySubscriptOpt else .binarySubscript) true)
  | .slice e start stop step opt, c =>
    bnd (compileExpr e c) fun c =>
    bnd (compileOpt (.loadConst .none) start c) fun c =>
    bnd (compileOpt (.loadConst .none) stop c) fun c =>
    bnd (compileOpt (.loadConst (.i64 1)) step c) fun c =>
    .ok (add c (if opt then .sliceOpt else .slice) true)
  | .filter e name kwargs, c =>
    bnd (compileExpr e c) fun c =>
    bnd (compileKwargs kwargs c) fun c =>
    .ok (add (record (add c (.buildMap kwargs.length) false) (.filterCall name)) (.applyFilter name) true)
  | .test e name kwargs, c =>
    bnd (compileExpr e c) fun c =>
    bnd (compileKwargs kwargs c) fun c =>
    .ok (add (record (add c (.buildMap kwargs.length) false) (.testCall name)) (.runTest name) true)
  | .ternary cond t f, c =>
    bnd (compileExpr cond c) fun c =>
    let idx := c.chunk.length
    let c := add c (.popJumpIfFalse 0) false
    let c := { c with bodies := .branch idx :: c.bodies }
    bnd (compileExpr t c) fun c =>
    let idx := c.chunk.length
    let c := add c (.jump 0) false
    bnd (endBranch c c.chunk.length) fun c =>
    let c := { c with bodies := .branch idx :: c.bodies }
    bnd (compileExpr f c) fun c =>
    endBranch c c.chunk.length
  | .listComprehension e key value target cond, c =>
    let c := add c (.buildList 0) true
    bnd (compileExpr target c) fun c =>
    let c := add c (.startIterateComprehension key.isSome) false
    let c := add c (.storeLocal value) false
    let c := storeKey c key
    let startIdx := c.chunk.length
    let c := add c (.iterate 0) false
    bnd (compileCond cond c) fun (c, condSkipIdx) =>
    bnd (compileExpr e c) fun c =>
    let c := add c .appendToList false
    bnd (match condSkipIdx with
         | some idx => bnd (patchPopJump c.chunk idx c.chunk.length "compiler.rs:289")
             fun ch => .ok { c with chunk := ch }
         | none => .ok c) fun c =>
    let c := add c (.jump startIdx) false
    bnd (patchIterate c.chunk startIdx c.chunk.length "compiler.rs:297") fun ch =>
    .ok (add { c with chunk := ch } .popLoop false)
  | .componentCall name kwargs body selfClosing, c =>
    let c := record c (.componentCall name)
    bnd (if selfClosing then .ok c else
          bnd (compileNodes body (add c .capture false)) fun c => .ok (add c .endCapture true))
      fun c =>
    bnd (compileMapItems kwargs c) fun c =>
    let c := add c (mapBuild kwargs) false
    .ok (add c (if selfClosing then .renderInlineComponent name else .renderBodyComponent name) true)
  | .functionCall name kwargs, c =>
    bnd (compileKwargs kwargs c) fun c =>
    .ok (add (record (add c (.buildMap kwargs.length) false) (.functionCall name)) (.callFunction name) true)
  | .unary op e, c =>
    bnd (compileExpr e c) fun c => .ok (add c (unaryInstr op) true)
  | .binary op l r, c =>
    match op with
    | .And | .Or =>
      let c := { c with bodies := .shortCircuit [] :: c.bodies }
      bnd (compileExpr l c) fun c =>
      match c.bodies with
      | .shortCircuit instr :: rest =>
        let idx := c.chunk.length
        let c := add c (if op = .And then .jumpIfFalseOrPop 0 else .jumpIfTrueOrPop 0) false
        let c := { c with bodies := .shortCircuit (instr ++ [idx]) :: rest }
        bnd (compileExpr r c) fun c =>
        let «end» := c.chunk.length
        match c.bodies with
        | .shortCircuit instr :: rest =>
          .ok { c with chunk := instr.foldl (fun ch i => patchShort ch «end» i) c.chunk, bodies := rest }
        | _ => .error "compiler.rs:403"
      | _ => .error "compiler.rs:386"
    | .Is | .Pipe => .error "compiler.rs:409"
    | _ =>
      bnd (compileExpr l c) fun c =>
      bnd (compileExpr r c) fun c =>
      .ok (add c (.binop op) true)

/-- the optional condition of a list comprehension: its code and the index of the
`PopJumpIfFalse(0)` after it -/
def compileCond : Option Expr → Comp → M (Comp × Option Nat)
  | some cnd, c =>
    bnd (compileExpr cnd c) fun c => .ok (add c (.popJumpIfFalse 0) false, some c.chunk.length)
  | none, c => .ok (c, none)

def compileOpt (dflt : CInstr) : Option Expr → Comp → M Comp
  | some e, c => compileExpr e c
  | none, c => .ok (add c dflt false)

/-- the loop of `compile_kwargs` (the caller adds `BuildMap(num_args)`) -/
def compileKwargs : List (String × Expr) → Comp → M Comp
  | [], c => .ok c
  | (k, v) :: rest, c =>
    bnd (compileExpr v (add c (.loadConst (nameValue k)) true)) fun c => compileKwargs rest c

def compileArrayItems : List ArrayEntry → Comp → M Comp
  | [], c => .ok c
  | .item e :: rest, c => bnd (compileExpr e c) fun c => compileArrayItems rest c
  | .spread e :: rest, c => bnd (compileExpr e c) fun c => compileArrayItems rest c

def compileMapItems : List MapEntry → Comp → M Comp
  | [], c => .ok c
  | .keyValue k v :: rest, c =>
    bnd (compileExpr v (add c (.loadConst (keyValue k)) true)) fun c => compileMapItems rest c
  | .spread e :: rest, c => bnd (compileExpr e c) fun c => compileMapItems rest c

def compileFilters : List Expr → Comp → M Comp
  | [], c => .ok c
  | .filter _ name kwargs :: rest, c =>
    bnd (compileKwargs kwargs c) fun c =>
    compileFilters rest
      (add (record (add c (.buildMap kwargs.length) false) (.filterCall name)) (.applyFilter name) true)
  | _ :: rest, c => compileFilters rest c

/-- `Compiler::compile_node` -/
def compileNode : Node → Comp → M Comp
  | .content text, c => .ok (add c (.writeText text) false)
  | .expression e, c => bnd (compileExpr e c) fun c => .ok (add c .writeTop false)
  | .set name value global, c =>
    bnd (compileExpr value c) fun c => .ok (add c (setInstr name global) false)
  | .blockSet name filters body global, c =>
    bnd (compileNodes body (add c .capture false)) fun c =>
    bnd (compileFilters filters (add c .endCapture (!filters.isEmpty))) fun c =>
    .ok (add c (setInstr name global) false)
  | .include name, c => .ok (add (record c (.includeCall name)) (.include name) true)
  -- `compile_block`
  | .block name body, c =>
    let isTopLevel := c.depth == 0
    let inner : Comp := { chunk := [], bodies := [], events := c.events, depth := c.depth + 1 }
    bnd (compileNodes body inner) fun inner =>
    let c := { c with events := inner.events ++ [.blockDef name inner.chunk isTopLevel] }
    .ok (add c (.renderBlock name) false)
  | .forLoop key value target body elseBody, c =>
    bnd (compileExpr target c) fun c =>
    let c := add c (.startIterate key.isSome) false
    let c := add c (.storeLocal value) false
    let c := storeKey c key
    let startIdx := c.chunk.length
    let c := add c (.iterate 0) false
    let c := { c with bodies := .loop startIdx :: c.bodies }
    bnd (compileNodes body c) fun c =>
    let hasElse := !elseBody.isEmpty
    match c.bodies with
    | .loop startIdx :: rest =>
      let c := { c with bodies := rest }
      let c := add c (.jump startIdx) false
      let loopEnd := c.chunk.length
      let c := if hasElse then add c .storeDidNotIterate false else c
      let c := add c .popLoop false
      bnd (patchIterate c.chunk startIdx loopEnd "compiler.rs:569") fun ch =>
      let c := { c with chunk := ch }
      if hasElse then
        let idx := c.chunk.length
        let c := add c (.popJumpIfFalse 0) false
        let c := { c with bodies := .branch idx :: c.bodies }
        bnd (compileNodes elseBody c) fun c =>
        endBranch c c.chunk.length
      else .ok c
    | _ => .error "compiler.rs:572"
  | .break, c => .ok (add c .break_ false)
  | .continue, c =>
    match currentLoop c.bodies with
    | some idx => .ok (add c (.jump idx) false)
    | none => .error "compiler.rs:591"
  | .if cond body falseBody, c =>
    bnd (compileExpr cond c) fun c =>
    let idx := c.chunk.length
    let c := add c (.popJumpIfFalse 0) false
    let c := { c with bodies := .branch idx :: c.bodies }
    bnd (compileNodes body c) fun c =>
    bnd (if falseBody.isEmpty then .ok c else
          let idx := c.chunk.length
          let c := add c (.jump 0) false
          bnd (endBranch c c.chunk.length) fun c =>
          let c := { c with bodies := .branch idx :: c.bodies }
          compileNodes falseBody c) fun c =>
    endBranch c c.chunk.length
  | .filterSection name kwargs body, c =>
    bnd (compileNodes body (add c .capture false)) fun c =>
    bnd (compileKwargs kwargs (add c .endCapture true)) fun c =>
    .ok (add (add (record (add c (.buildMap kwargs.length) false) (.filterCall name))
      (.applyFilter name) true) .writeTop false)

/-- `Compiler::compile` -/
def compileNodes : List Node → Comp → M Comp
  | [], c => .ok c
  | n :: rest, c => bnd (compileNode n c) fun c => compileNodes rest c
end

/-- `Compiler::new(name)` -/
def Comp.new : Comp := { chunk := [], bodies := [], events := [], depth := 0 }

end Tera.Compiler.Imp
