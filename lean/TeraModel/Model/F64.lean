/-
Exact model of an IEEE-754 binary64 value as used by `tera::Value::F64`.

A finite float is kept as an exact dyadic `(-1)^neg * m * 2^e` (not necessarily normalised), so
comparison, `floor`, `fract`, casts and int→float rounding are *exact* functions that theorems can
talk about.  Float arithmetic proper (`+ - * /` on two floats) is NOT defined here: no property
specifies its results beyond "done in floating point"; the driver executes those with the
hardware (`Float`) and compares bit patterns.

Mirrors: the float side of tera/src/value/mod.rs (`cmp_f64_to_i128`, `cmp_f64_to_u128`,
`PartialEq`/`PartialOrd` numeric arms) and tera/src/value/number.rs (`as_integer`, `is_zero`,
`into_float`).
-/
namespace Tera

/-- Three-way comparison of integers (what Rust's `Ord::cmp` on i128/u128 computes). -/
def cmpInt (a b : Int) : Ordering := if a < b then .lt else if a = b then .eq else .gt

inductive F64 where
  | nan
  | inf (neg : Bool)
  | fin (neg : Bool) (m : Nat) (e : Int)
  deriving Repr, DecidableEq, Inhabited

namespace F64

/-- Decode a bit pattern. -/
def ofBits (b : Nat) : F64 :=
  let sign := (b / 2^63) % 2 == 1
  let ex : Nat := (b / 2^52) % 2048
  let mant : Nat := b % 2^52
  if ex == 2047 then (if mant == 0 then .inf sign else .nan)
  else if ex == 0 then .fin sign mant (-1074)
  else .fin sign (2^52 + mant) ((ex : Int) - 1075)

/-- Numerator of the value over the denominator `den`: value = num / den, den > 0. -/
def num : F64 → Int
  | .fin neg m e => (if neg then -1 else 1) * (m : Int) * (2 : Int) ^ e.toNat
  | _ => 0

def den : F64 → Nat
  | .fin _ _ e => 2 ^ (-e).toNat
  | _ => 1

def isNan : F64 → Bool
  | .nan => true
  | _ => false

def isFinite : F64 → Bool
  | .fin .. => true
  | _ => false

/-- `x == 0.0` (true for both zeros). -/
def isZero : F64 → Bool
  | .fin _ m _ => m == 0
  | _ => false

/-- Exact three-way comparison of a non-NaN float with an integer (the *specification*). -/
def cmpIntSpec (x : F64) (n : Int) : Ordering :=
  match x with
  | .nan => .gt
  | .inf true => .lt
  | .inf false => .gt
  | .fin .. => cmpInt x.num (n * (x.den : Int))

/-- Exact comparison of two floats under IEEE `partial_cmp` (none if either is NaN). -/
def partialCmp (x y : F64) : Option Ordering :=
  match x, y with
  | .nan, _ => none
  | _, .nan => none
  | .inf a, .inf b => some (if a == b then .eq else if a then .lt else .gt)
  | .inf a, .fin .. => some (if a then .lt else .gt)
  | .fin .., .inf b => some (if b then .gt else .lt)
  | .fin .., .fin .. => some (cmpInt (x.num * (y.den : Int)) (y.num * (x.den : Int)))

/-- IEEE `<`. -/
def lt (x y : F64) : Bool := partialCmp x y == some .lt
/-- IEEE `>=`. -/
def ge (x y : F64) : Bool := partialCmp x y == some .gt || partialCmp x y == some .eq
/-- IEEE `>`. -/
def gt (x y : F64) : Bool := partialCmp x y == some .gt
/-- IEEE `==` (false on NaN). -/
def feq (x y : F64) : Bool := partialCmp x y == some .eq

/-- The float with exact integer value `n` **when representable**; used only for the constants
`i128::MIN as f64 = -2^127`, `i128::MAX as f64 = 2^127`, `u128::MAX as f64 = 2^128`, `0.0`. -/
def ofIntExact (n : Int) : F64 := .fin (n < 0) n.natAbs 0

/-- `f64::floor` as an exact integer (meaningful for finite `x`). -/
def floorInt (x : F64) : Int := x.num / (x.den : Int)

/-- `f64::floor` as a float. -/
def floor (x : F64) : F64 :=
  match x with
  | .fin .. => ofIntExact x.floorInt
  | o => o

/-- `f64::trunc` as an exact integer. -/
def truncInt (x : F64) : Int := Int.tdiv x.num (x.den : Int)

/-- `x.fract() == 0.0` for finite x. -/
def fractIsZero (x : F64) : Bool := x.num % (x.den : Int) == 0

/-- Rust `as i128` / `as u128` style saturating cast of an integral-valued float. -/
def satCast (lo hi : Int) (x : F64) : Int :=
  match x with
  | .nan => 0
  | .inf true => lo
  | .inf false => hi
  | .fin .. => let t := x.truncInt; if t < lo then lo else if t > hi then hi else t

/-! ### Rounding an integer to the nearest float (ties to even): Rust `i128 as f64`. -/

/-- Number of bits of `n` (0 for 0). -/
def bitLen (n : Nat) : Nat := if n = 0 then 0 else Nat.log2 n + 1

/-- Round a natural number to 53 significant bits, ties to even; result `(m, e)` with value
`m * 2^e`.  No overflow is possible for |n| < 2^128. -/
def roundNat (n : Nat) : Nat × Nat :=
  let bl := bitLen n
  if bl ≤ 53 then (n, 0)
  else
    let sh := bl - 53
    let q := n / 2^sh
    let r := n % 2^sh
    let half := 2^(sh-1)
    let q' := if r > half || (r == half && q % 2 == 1) then q + 1 else q
    (q', sh)

def ofIntRNE (n : Int) : F64 :=
  let (m, e) := roundNat n.natAbs
  .fin (n < 0) m (e : Int)

/-- Canonical bit pattern of a float whose magnitude is `m * 2^e` with normal range exponent.
Handles zero, normals and subnormals; the input dyadic must be exactly representable
(true for everything this model constructs). NaN is canonicalised to the quiet NaN 0x7ff8…. -/
def toBits (x : F64) : Nat :=
  match x with
  | .nan => 0x7ff8000000000000
  | .inf neg => (if neg then 2^63 else 0) + 0x7ff0000000000000
  | .fin neg m e =>
    let s := if neg then 2^63 else 0
    if m = 0 then s
    else
      -- normalise so that 2^52 ≤ m' < 2^53 when possible
      let bl := bitLen m
      -- value = m * 2^e = m' * 2^e' with m' having 53 bits
      let (m', e') : Nat × Int :=
        if bl ≤ 53 then (m * 2^(53 - bl), e - ((53 - bl : Nat) : Int))
        else (m / 2^(bl - 53), e + ((bl - 53 : Nat) : Int))
      -- biased exponent
      let be := e' + 1075
      if be ≥ 2047 then s + 0x7ff0000000000000
      else if be ≥ 1 then s + be.toNat * 2^52 + (m' - 2^52)
      else
        -- subnormal: shift right by (1 - be)
        s + m' / 2^((1 - be).toNat)

end F64
end Tera
