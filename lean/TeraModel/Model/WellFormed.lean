/-
C07: a bytecode checker for the chunks the compiler produces, and the abstract stack machine it
is checked against.

The abstract machine keeps, of the VM state (vm/state.rs `State`), only what the panicking sites
of vm/interpreter.rs depend on:
* the value stack (`Stack::pop/peek/peek_mut` panic on an empty stack, stack.rs:33-49) — one tag
  per slot: is the value known to be an array (`AppendToList` is `unreachable!` otherwise,
  interpreter.rs:690-694);
* the loop stack (`for_loops`) — per active loop the `end_ip` a `Break` would jump to, `none`
  while `Iterate` has not set it yet;
* the number of capture buffers (`capture_buffers.pop().unwrap()`, interpreter.rs:626).
Everything value dependent (which way a conditional jump goes, whether a loop is over) is
nondeterministic; an instruction that returns an error simply stops the run.

`step` gives the possible successor states of one instruction, or `none` when the instruction
would hit one of those panics (or rely on a loop that is not there).  `verify` checks a table of
per-instruction abstract states; `wellFormed` infers the table by one forward pass and verifies
it.  `wellFormed_sound` (Props/C07.lean) is about `verify`, so the inference is not trusted.
-/
import TeraModel.Model.Instr
namespace Tera
namespace WellFormed

/-- What the checker needs to know about an instruction. -/
inductive Op where
  /-- push one value (`isList`: it is an array built by `BuildList`) -/
  | push (isList : Bool)
  /-- pop `n` values, push one -/
  | popPush (n : Nat) (isList : Bool)
  /-- pop `n` values -/
  | pop (n : Nat)
  | nop
  | jump (t : Nat)
  | popJumpIfFalse (t : Nat)
  /-- `JumpIfFalseOrPop` / `JumpIfTrueOrPop`: peek; jump keeping the value, or pop it -/
  | jumpOrPop (t : Nat)
  | capture
  | endCapture
  | startIterate
  /-- `StoreLocal`: acts on the innermost loop -/
  | storeLocal
  | iterate (t : Nat)
  | storeDidNotIterate
  | break_
  | popLoop
  | appendToList
  deriving Repr, DecidableEq

/-- the decimal count printed by the dump hook (`usize` Display) -/
def decNat (cs : List Char) : Option Nat :=
  if cs.isEmpty then none
  else cs.foldl (fun acc ch => acc.bind fun n =>
    if '0' ≤ ch ∧ ch ≤ '9' then some (n * 10 + (ch.toNat - '0'.toNat)) else none) (some 0)

/-- number of values `BuildMapWithSpreads` pops: a spread is one value, a key/value pair two -/
def spreadPops (arg : String) : Nat :=
  arg.toList.foldl (fun n ch => n + (if ch = 't' then 1 else 2)) 0

/-- Classification of every instruction (`Instruction`, instructions.rs:9-129) by what its
interpreter arm does to the three stacks.  `none`: not an instruction the compiler can emit
(unknown kind or malformed payload). -/
def opOf : Instr → Option Op
  | .loadName _ => some (.push false)
  | .loadAttr _ => some (.popPush 1 false)
  | .writeTop => some (.pop 1)
  | .loadPath _ => some (.push false)
  | .writePath _ => some .nop
  | .jump t => some (.jump t)
  | .popJumpIfFalse t => some (.popJumpIfFalse t)
  | .jumpIfFalseOrPop t => some (.jumpOrPop t)
  | .jumpIfTrueOrPop t => some (.jumpOrPop t)
  | .iterate t => some (.iterate t)
  | .other kind arg =>
    match kind with
    | "LoadConst" => some (.push false)
    | "LoadAttrOpt" => some (.popPush 1 false)
    | "BinarySubscript" | "BinarySubscriptOpt" => some (.popPush 2 false)
    | "Slice" | "SliceOpt" => some (.popPush 4 false)
    | "WriteText" | "Include" | "RenderBlock" => some .nop
    | "Set" | "SetGlobal" => some (.pop 1)
    | "BuildMap" => (decNat arg.toList).map fun n => if n = 0 then .push false else .popPush (2 * n) false
    | "BuildList" => (decNat arg.toList).map fun n => .popPush n true
    | "BuildMapWithSpreads" => some (.popPush (spreadPops arg) false)
    | "BuildListWithSpreads" => some (.popPush arg.length true)
    | "CallFunction" => some (.popPush 1 false)
    | "RenderInlineComponent" => some (.popPush 1 false)
    | "RenderBodyComponent" => some (.popPush 2 false)
    | "ApplyFilter" | "RunTest" => some (.popPush 2 false)
    | "Capture" => some .capture
    | "EndCapture" => some .endCapture
    | "StartIterate" | "StartIterateComprehension" => some .startIterate
    | "StoreLocal" => some .storeLocal
    | "StoreDidNotIterate" => some .storeDidNotIterate
    | "Break" => some .break_
    | "PopLoop" => some .popLoop
    | "AppendToList" => some .appendToList
    | "Mul" | "Div" | "FloorDiv" | "Mod" | "Plus" | "Minus" | "Power" | "LessThan" | "GreaterThan"
    | "LessThanOrEqual" | "GreaterThanOrEqual" | "Equal" | "NotEqual" | "StrConcat" | "In" =>
      some (.popPush 2 false)
    | "Not" | "Negative" => some (.popPush 1 false)
    | _ => none

/-- State of the abstract machine (also used, with `none` read as "any", as the checker's
per-instruction description). -/
structure St where
  /-- one tag per value stack slot, top first: is it a known array -/
  stack : List Bool
  /-- one entry per active loop, innermost first: the `end_ip` set by `Iterate` -/
  loops : List (Option Nat)
  /-- number of capture buffers -/
  caps : Nat
  deriving Repr, DecidableEq

def St.empty : St := ⟨[], [], 0⟩

/-- One instruction at `pc`: the possible next (pc, state) pairs, or `none` if the instruction
can hit `Stack::pop/peek` on an empty stack, `capture_buffers.pop().unwrap()` on an empty vector,
`AppendToList` on a non-array, or acts on a loop that does not exist / whose end is not set. -/
def step (op : Op) (pc : Nat) (s : St) : Option (List (Nat × St)) :=
  match op with
  | .push b => some [(pc + 1, { s with stack := b :: s.stack })]
  | .popPush n b =>
    if n ≤ s.stack.length then some [(pc + 1, { s with stack := b :: s.stack.drop n })] else none
  | .pop n =>
    if n ≤ s.stack.length then some [(pc + 1, { s with stack := s.stack.drop n })] else none
  | .nop => some [(pc + 1, s)]
  | .jump t => some [(t, s)]
  | .popJumpIfFalse t =>
    match s.stack with
    | [] => none
    | _ :: rest => some [(t, { s with stack := rest }), (pc + 1, { s with stack := rest })]
  | .jumpOrPop t =>
    match s.stack with
    | [] => none
    | _ :: rest => some [(t, s), (pc + 1, { s with stack := rest })]
  | .capture => some [(pc + 1, { s with caps := s.caps + 1 })]
  | .endCapture =>
    if 0 < s.caps then some [(pc + 1, { s with caps := s.caps - 1, stack := false :: s.stack })]
    else none
  | .startIterate =>
    match s.stack with
    | [] => none
    | _ :: rest => some [(pc + 1, { s with stack := rest, loops := none :: s.loops })]
  | .storeLocal =>
    match s.loops with
    | [] => none
    | _ :: _ => some [(pc + 1, s)]
  | .iterate t =>
    match s.loops with
    | [] => none
    | _ :: outer =>
      -- over: jump to `t`, `end_ip` untouched; else advance and set `end_ip = t`
      some [(t, s), (pc + 1, { s with loops := some t :: outer })]
  | .storeDidNotIterate =>
    match s.loops with
    | [] => none
    | _ :: _ => some [(pc + 1, { s with stack := false :: s.stack })]
  | .break_ =>
    match s.loops with
    | some t :: _ => some [(t, s)]
    | _ => none
  | .popLoop =>
    match s.loops with
    | [] => none
    | _ :: outer => some [(pc + 1, { s with loops := outer })]
  | .appendToList =>
    match s.stack with
    | _ :: true :: rest => some [(pc + 1, { s with stack := true :: rest })]
    | _ => none

/-- `a ⊑ b`: `b` describes `a` (same stack heights; a slot `b` does not know to be an array may be
anything in `a`; a loop end `b` leaves open may be anything in `a`). -/
def leLoops : List (Option Nat) → List (Option Nat) → Bool
  | [], [] => true
  | x :: xs, y :: ys => (y == none || x == y) && leLoops xs ys
  | _, _ => false

/-- stack tags: "known array" is described by "known array" or by "anything" -/
def leStack : List Bool → List Bool → Bool
  | [], [] => true
  | x :: xs, y :: ys => (!y || x) && leStack xs ys
  | _, _ => false

def St.le (a b : St) : Bool := leStack a.stack b.stack && a.caps == b.caps && leLoops a.loops b.loops

/-- The successor `(pc', s')` is accounted for: inside the chunk it is described by the table;
one past the end (the run stops: `chunk.get(ip)` is `None`) all three stacks are empty. -/
def covered (table : List (Option St)) (len : Nat) (succ : Nat × St) : Bool :=
  if succ.1 < len then
    match table[succ.1]? with
    | some (some b) => succ.2.le b
    | _ => false
  else succ.1 == len && succ.2 == St.empty

/-- Check instruction `pc` against the table (an instruction without an entry is unreachable and
is not checked). -/
def verifyAt (c : List Entry) (table : List (Option St)) (pc : Nat) : Bool :=
  match table[pc]?, c[pc]? with
  | some (some a), some e =>
    match opOf e.1 with
    | none => false
    | some op =>
      match step op pc a with
      | none => false
      | some succs => succs.all (covered table c.length)
  | _, _ => true

/-- The whole table is a valid certificate for the chunk started with empty stacks. -/
def verify (c : List Entry) (table : List (Option St)) : Bool :=
  covered table c.length (0, St.empty) && (List.range c.length).all (verifyAt c table)

/-! ### Inference of the table (one forward pass; not trusted) -/

def joinLoops : List (Option Nat) → List (Option Nat) → Option (List (Option Nat))
  | [], [] => some []
  | x :: xs, y :: ys => (joinLoops xs ys).map fun r => (if x == y then x else none) :: r
  | _, _ => none

def joinStack : List Bool → List Bool → Option (List Bool)
  | [], [] => some []
  | x :: xs, y :: ys => (joinStack xs ys).map fun r => (x && y) :: r
  | _, _ => none

/-- merge a successor state into the table entry of its target -/
def merge (table : List (Option St)) (succ : Nat × St) : Option (List (Option St)) :=
  if succ.1 < table.length then
    match table[succ.1]? with
    | some (some b) =>
      if succ.2.caps == b.caps then
        match joinStack succ.2.stack b.stack, joinLoops succ.2.loops b.loops with
        | some st, some l => some (table.set succ.1 (some { b with stack := st, loops := l }))
        | _, _ => none
      else none
    | _ => some (table.set succ.1 (some succ.2))
  else some table

def inferGo (c : List Entry) : Nat → Nat → List (Option St) → Option (List (Option St))
  | 0, _, table => some table
  | fuel + 1, pc, table =>
    match c[pc]? with
    | none => some table
    | some e =>
      match table[pc]? with
      | some (some a) =>
        match opOf e.1 with
        | none => none
        | some op =>
          match step op pc a with
          | none => none
          | some succs =>
            match succs.foldlM merge table with
            | none => none
            | some table' => inferGo c fuel (pc + 1) table'
      | _ => inferGo c fuel (pc + 1) table

def infer (c : List Entry) : Option (List (Option St)) :=
  if c.isEmpty then some []
  else inferGo c c.length 0 ((List.replicate c.length none).set 0 (some St.empty))

/-- The checker: infer a table, then verify it. -/
def wellFormed (c : List Entry) : Bool :=
  match infer c with
  | none => false
  | some table => verify c table

end WellFormed
end Tera
