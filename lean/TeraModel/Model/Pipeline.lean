/-
The whole engine as ONE executable model: source bytes + context in, rendered text or error class
out.  Nothing is re-modelled here; this file only COMPOSES the stage models and supplies the
adapters between their types:

  bytes ──Lexer.basicTokenize, WsFilter.filterGo (Model/Lexer.lean, WsFilter.lean)──▶ Token × Span
        ──`tokOf` (adapter: lexer `Token` → parser `Tok`)──▶ Tok
        ──TParser.parse (Model/TemplateParser.lean, ExprParser.lean)──▶ Template (AST)
        ──Compiler.compileTemplate (Model/Compiler.lean)──▶ Code per chunk (main, blocks, components)
        ──`encode` (adapter: `CInstr` → `Instr`), Optimize.optimize (Model/Optimize.lean),
          `decodeEntry` (adapter: `Instr` → `VInstr`)──▶ Vm.Chunk
  all templates ──`summary` (adapter: what `Template::new` keeps → `Reg.TplR`),
                  Reg.addBatchR (Model/Registry.lean, Finalize.lean, FinalizeRefs.lean):
                  parents, include cycles, component table, reference validation, block lineage,
                  autoescape flags──▶ Reg.State
        ──`buildEnv` (adapter: lineage of template names → lineage of chunks)──▶ Vm.Env
        ──`Vm.checkChunk` on every chunk (Model/VmCheck.lean; translation validation, see below)
  Vm.Env + name + context ──Vm.render (Model/Vm.lean)──▶ Vm.Outcome

Mirrors `Tera::add_raw_templates` on a fresh instance (tera/src/tera.rs:764, `Template::new`
tera/src/template.rs:44, `finalize_templates` tera.rs:579) and `Tera::render` / `render_block`
(tera.rs:1033, 1310; vm/interpreter.rs `render_to`).

Adapters, and what each one assumes
* `tokOf`: text payloads of the lexer are UTF-8 bytes, the parser's are `String`s: `Wire.utf8Decode`
  (total; the lexer only slices a valid source on char boundaries — `C06.lexer_no_panic` — so the
  payloads are valid UTF-8).  `Token::Float` carries the lexeme on the lexer side and the value on
  the parser side: `floatOfLexeme` is `str::parse::<f64>` on `digits '.' digits*` (the only shape
  `lex_number!` produces), i.e. the correctly rounded value, computed with the exact rounding
  function of Model/SoftFloat.lean.  A lexer error ends the stream with the parser's `error` token.
* `encode` / `decodeEntry`: the optimiser model works on `Instr`, which keeps the payload of every
  instruction it does not look at as text.  The adapter writes the POSITION of the instruction in
  the compiled chunk there (`other "#" <index>`), and reads the typed instruction back from the
  compiled chunk after the pass.  The pass never looks inside `other`, copies it unchanged
  (`C09.optimize_merges_only_paths`), so this is the pass applied to the typed chunk.
* `summary`: `Reg.Tpl` wants, per block, the enclosing block and the includes written in it; the
  derivation only reads "is top level" (`block_name_spans` membership) and the union of all
  include targets, so `nestedIn` is `none` / `some ""` and every include target sits in
  `topIncludes`.
* `HashMap` iteration orders of `finalize_templates` (`ord2`, `ord3` of Model/Registry.lean) are
  fixed to the key order of the model's map; `C10.acceptance_is_a_function_of_the_set` /
  `C10.history_independent`: acceptance and derived data do not depend on them.
  `compile_kwargs` iterates a `HashMap` too: the model compiles kwargs in name order (the order of
  the parser model's AST).
* `includeAliases`: the VM model looks an include target up by its exact name, the engine through
  `resolve_template_name` (fallback prefixes): the model's template table gets one extra entry per
  include target that resolves to a template of another name.
* Built-in filters, tests and functions are parameters (`Builtins`), as in Model/VmState.lean.

Outcomes the model adds to the engine's `Ok` / `Err`: `panic site` (a Rust panic site reached in
some stage), `outOfFuel` (a stage ran out of its fuel), `internal` (an adapter found the stages'
outputs inconsistent: a lineage names a block its owner does not have) and `unchecked` (a stored
chunk did not pass `Vm.checkChunk`).  The theorems of Props/Pipeline.lean are about exactly these.
-/
import TeraModel.Model.WsFilter
import TeraModel.Model.TemplateParser
import TeraModel.Model.Compiler
import TeraModel.Model.Optimize
import TeraModel.Model.FinalizeRefs
import TeraModel.Model.VmCheck
import TeraModel.Model.SoftFloat
namespace Tera
namespace Pipeline
open Tera

/-! ## Adapter 1: lexer tokens → parser tokens -/

/-- a `&str` payload of the lexer as the parser's `String` -/
def strOf (b : Bytes) : String := String.ofList (Wire.utf8Decode b)

/-- `str::parse::<f64>` on the lexeme of `lex_number!` (`digits '.' digits*`): the binary64 value
nearest to the decimal (ties to even; std's `dec2flt` is correctly rounded). -/
def floatOfLexeme (lex : Bytes) : F64 :=
  let intPart := lex.takeWhile (· != 0x2E)
  let frac := (lex.dropWhile (· != 0x2E)).drop 1
  SoftFloat.roundDyadic false (Lexer.decVal (intPart ++ frac)) (10 ^ frac.length)

def tokOfOp : Op → Tok
  | .Mul => .mul | .Div => .div | .FloorDiv => .floorDiv | .Mod => .mod | .Plus => .plus
  | .Minus => .minus | .Power => .power
  | .LessThan => .lessThan | .ClosingTagStart => .closingTagStart | .GreaterThan => .greaterThan
  | .LessThanOrEqual => .lessThanOrEqual | .GreaterThanOrEqual => .greaterThanOrEqual
  | .Equal => .equal | .NotEqual => .notEqual
  | .Tilde => .tilde | .Pipe => .pipe | .Assign => .assign
  | .Dot => .dot | .QuestionMarkDot => .questionMarkDot
  | .QuestionMarkLeftBracket => .questionMarkLeftBracket | .Comma => .comma | .Colon => .colon
  | .Bang => .bang | .LeftBracket => .leftBracket | .RightBracket => .rightBracket
  | .LeftParen => .leftParen | .RightParen => .rightParen | .LeftBrace => .leftBrace
  | .RightBrace => .rightBrace | .Spread => .spread

/-- One token.  `RawContent` and `Comment` never come out of the whitespace filter
(`C06.filter_removes_raw_and_comment`); they are template-level tokens and are mapped to the
`Content` the filter would have made of them. -/
def tokOf : Token → Tok
  | .content s => .content (strOf s)
  | .rawContent _ s _ => .content (strOf s)
  | .comment _ _ => .content ""
  | .variableStart ws => .variableStart ws
  | .variableEnd ws => .variableEnd ws
  | .tagStart ws => .tagStart ws
  | .tagEnd ws => .tagEnd ws
  | .ident s => .ident (strOf s)
  | .string s => .str (strOf s)
  | .str s => .str (strOf s)
  | .integer v => .integer (v : Int)
  | .float lex => .float (floatOfLexeme lex)
  | .bool b => .bool b
  | .op o => tokOfOp o

/-- the items of the token iterator as the parser sees them: a lexer error is the last item -/
def toksOf (tokens : List (Token × Lexer.Span)) (errored : Bool) : List Tok :=
  tokens.map (fun it => tokOf it.1) ++ (if errored then [Tok.error] else [])

/-- what the front end (lexer, filter, parser) gives for one source -/
inductive Front where
  | ok (t : Template)
  /-- `Err(SyntaxError)` -/
  | syntax
  | panic (site : String)
  | outOfFuel

/-- `Parser::new(name, source, delimiters).parse()` -/
def front (d : Delims) (src : Bytes) : Front :=
  let r := WsFilter.tokenize d src
  let run (errored : Bool) : Front :=
    match TParser.parse Gen.MAX_RECURSION_DEPTH (toksOf r.tokens errored) with
    | .ok t _ => .ok t
    | .err => .syntax
    | .panic m => .panic m
    | .fuel => .outOfFuel
  match r.ending with
  | .eof => run false
  | .error _ _ => run true
  | .panic s => .panic s
  | .outOfFuel => .outOfFuel

/-! ## Adapter 2: compiled chunk → optimiser → stored chunk -/

open Compiler in
/-- the typed instruction of the VM model for a compiled instruction (`none`: not an instruction;
`binop` of the four operators the compiler never emits as an instruction) -/
def vinstr : CInstr → Option Vm.VInstr
  | .loadConst v => some (.loadConst v)
  | .loadName n => some (.loadName n)
  | .loadAttr n => some (.loadAttr n false)
  | .loadAttrOpt n => some (.loadAttr n true)
  | .binarySubscript => some (.binarySubscript false)
  | .binarySubscriptOpt => some (.binarySubscript true)
  | .slice => some (.slice false)
  | .sliceOpt => some (.slice true)
  | .writeText s => some (.writeText s.toList)
  | .writeTop => some .writeTop
  | .set n => some (.set n false)
  | .setGlobal n => some (.set n true)
  | .include n => some (.include_ n)
  | .buildMap n => some (.buildMap n)
  | .buildList n => some (.buildList n)
  | .buildMapWithSpreads l => some (.buildMapWithSpreads l)
  | .buildListWithSpreads l => some (.buildListWithSpreads l)
  | .callFunction n => some (.callFunction n)
  | .renderInlineComponent n => some (.renderComponent n false)
  | .renderBodyComponent n => some (.renderComponent n true)
  | .applyFilter n => some (.applyFilter n)
  | .runTest n => some (.runTest n)
  | .renderBlock n => some (.renderBlock n)
  | .jump t => some (.jump t)
  | .popJumpIfFalse t => some (.popJumpIfFalse t)
  | .jumpIfFalseOrPop t => some (.jumpIfFalseOrPop t)
  | .jumpIfTrueOrPop t => some (.jumpIfTrueOrPop t)
  | .capture => some .capture
  | .endCapture => some .endCapture
  | .startIterate kv => some (.startIterate kv false)
  | .startIterateComprehension kv => some (.startIterate kv true)
  | .iterate t => some (.iterate t)
  | .storeLocal n => some (.storeLocal n)
  | .storeDidNotIterate => some .storeDidNotIterate
  | .break_ => some .break_
  | .popLoop => some .popLoop
  | .appendToList => some .appendToList
  | .binop op =>
    match op with
    | .Mul => some (.math .mul) | .Div => some (.math .div) | .Mod => some (.math .mod)
    | .Minus => some (.math .minus) | .FloorDiv => some (.math .floorDiv)
    | .Power => some (.math .power) | .Plus => some .plus
    | .LessThan => some (.cmp .lt) | .GreaterThan => some (.cmp .gt)
    | .LessThanOrEqual => some (.cmp .le) | .GreaterThanOrEqual => some (.cmp .ge)
    | .Equal => some (.equal false) | .NotEqual => some (.equal true)
    | .StrConcat => some .strConcat | .In => some .in_
    | .And | .Or | .Is | .Pipe => none
  | .not => some .not_
  | .negative => some .negative

/-- payload of an instruction the optimiser does not look at: its position in the compiled chunk -/
def idxArg (i : Nat) : String := String.ofList (Compiler.natDec i)

open Compiler in
/-- instruction `i` of a compiled chunk, as the optimiser model sees it -/
def encodeInstr (i : Nat) : CInstr → Instr
  | .loadName n => .loadName n
  | .loadAttr n => .loadAttr n
  | .writeTop => .writeTop
  | .jump t => .jump t
  | .popJumpIfFalse t => .popJumpIfFalse t
  | .jumpIfFalseOrPop t => .jumpIfFalseOrPop t
  | .jumpIfTrueOrPop t => .jumpIfTrueOrPop t
  | .iterate t => .iterate t
  | _ => .other "#" (idxArg i)

/-- span presence as one opaque span (as `Compiler.toEntries` does) -/
def spansOf (hasSpan : Bool) : List Span := if hasSpan then ["s"] else []

def encodeFrom : Nat → Compiler.Code → List Entry
  | _, [] => []
  | i, e :: rest => (encodeInstr i e.1, spansOf e.2) :: encodeFrom (i + 1) rest

/-- a compiled chunk as the optimiser model's input -/
def encode (c : Compiler.Code) : List Entry := encodeFrom 0 c

/-- an instruction of the optimised chunk as a typed instruction; `c` is the compiled chunk the
positions refer to -/
def decodeInstr (c : Compiler.Code) : Instr → Option Vm.VInstr
  | .loadName n => some (.loadName n)
  | .loadAttr a => some (.loadAttr a false)
  | .writeTop => some .writeTop
  | .loadPath p => some (.loadPath p)
  | .writePath p => some (.writePath p)
  | .jump t => some (.jump t)
  | .popJumpIfFalse t => some (.popJumpIfFalse t)
  | .jumpIfFalseOrPop t => some (.jumpIfFalseOrPop t)
  | .jumpIfTrueOrPop t => some (.jumpIfTrueOrPop t)
  | .iterate t => some (.iterate t)
  | .other _ arg =>
    match WellFormed.decNat arg.toList with
    | none => none
    | some i =>
      match c[i]? with
      | none => none
      | some e => vinstr e.1

def decodeEntry (c : Compiler.Code) (e : Entry) : Option Vm.VEntry :=
  (decodeInstr c e.1).map fun i => (i, e.2)

def decodeAll (c : Compiler.Code) : List Entry → Option (List Vm.VEntry)
  | [] => some []
  | e :: rest =>
    match decodeEntry c e, decodeAll c rest with
    | some v, some vs => some (v :: vs)
    | _, _ => none

inductive Stored (α : Type) where
  | ok (a : α)
  | panic (site : String)
  /-- the optimised chunk contains something that is not an instruction (adapter) -/
  | internal (what : String)

/-- `chunk.optimize()` on a compiled chunk, giving the chunk the VM runs.  `name`: the template the
chunk was compiled from (`Compiler::new(tpl_name)`). -/
def storeChunk (name : String) (c : Compiler.Code) : Stored Vm.Chunk :=
  match Optimize.optimize (encode c) with
  | .panic s => .panic s
  | .ok r =>
    match decodeAll c r with
    | none => .internal "optimised chunk does not decode"
    | some code => .ok { name := name, code := code }

def storeNamed (name : String) : List (String × Compiler.Code) → Stored (List (String × Vm.Chunk))
  | [] => .ok []
  | (n, c) :: rest =>
    match storeChunk name c, storeNamed name rest with
    | .ok ch, .ok chs => .ok ((n, ch) :: chs)
    | .panic s, _ => .panic s
    | .internal w, _ => .internal w
    | _, .panic s => .panic s
    | _, .internal w => .internal w

/-! ## `Template::new` -/

/-- `Type` variant name (the vocabulary of Model/Component.lean) -/
def tyName : ArgType → Component.Ty
  | .String => "String" | .Bool => "Bool" | .Integer => "Integer" | .Float => "Float"
  | .Number => "Number" | .Array => "Array" | .Map => "Map" | .Bytes => "Bytes"

/-- a parsed component definition as the binder of Model/Component.lean reads it (`typ` is already
the declared-or-inferred type) -/
def defOf (c : ComponentDefinition) : Component.Def :=
  { params := c.kwargs.map fun (n, a) => { name := n, declared := a.typ.map tyName, dflt := a.default },
    rest := c.restParamName }

/-- `Chunk::is_calling_function("super")` -/
def callsSuper (c : Compiler.Code) : Bool :=
  c.any fun e => match e.1 with
    | .callFunction n => n == "super"
    | _ => false

/-- What `Template::new` returns: the stored chunks and the tables `finalize_templates` reads. -/
structure TemplateData where
  name : String
  /-- `chunk` -/
  main : Vm.Chunk
  /-- `blocks`, insertion order (a later entry of a name replaces an earlier one) -/
  blocks : List (String × Vm.Chunk)
  /-- `components`, definition order -/
  components : List (String × (Component.Def × Vm.Chunk))
  /-- the summary the registry model works on -/
  summary : Reg.TplR

/-- `HashMap::get` after inserts in list order -/
def lookupLast {α : Type} (k : String) : List (String × α) → Option α
  | [] => none
  | (n, x) :: rest =>
    match lookupLast k rest with
    | some y => some y
    | none => if n = k then some x else none

/-- keys of a `HashMap` filled in list order, each once, in order of last insertion -/
def dedupLast : List String → List String
  | [] => []
  | n :: rest => if rest.contains n then dedupLast rest else n :: dedupLast rest

/-- the registry model's summary of a compiled template -/
def summaryOf (name : String) (srcLen : Nat) (t : Template) (c : Compiler.Compiled) : Reg.TplR :=
  let blockNames := dedupLast (c.blocks.map (·.1))
  { base :=
      { name := name
        parent := t.parent
        blocks := blockNames.map fun b =>
          { name := b
            callsSuper := match Compiler.lookupLast b c.blocks with
              | some code => callsSuper code
              | none => false
            nestedIn := if c.blockNames.contains b then none else some ""
            includes := [] }
        topIncludes := c.includeCalls
        comps := (dedupLast (c.components.map (·.1))).map fun n => { name := n, includes := [] }
        compCalls := c.componentCalls
        badRefs := false
        srcLen := srcLen }
    filterCalls := c.filterCalls
    testCalls := c.testCalls
    functionCalls := c.functionCalls }

inductive NewRes where
  | ok (t : TemplateData)
  | syntax
  | panic (site : String)
  | outOfFuel
  | internal (what : String)

def zipDefs (defs : List ComponentDefinition) (chunks : List (String × Vm.Chunk)) :
    List (String × (Component.Def × Vm.Chunk)) :=
  (defs.zip chunks).map fun (d, (n, ch)) => (n, (defOf d, ch))

/-- `Template::new(name, source, None, delimiters)` (template.rs:44-141) -/
def newTemplate (d : Delims) (name : String) (src : Bytes) : NewRes :=
  match front d src with
  | .syntax => .syntax
  | .panic s => .panic s
  | .outOfFuel => .outOfFuel
  | .ok t =>
    match Compiler.compileTemplate t with
    | .error site => .panic site
    | .ok c =>
      match storeChunk name c.main, storeNamed name c.blocks, storeNamed name c.components with
      | .ok main, .ok blocks, .ok comps =>
        .ok { name := name, main := main, blocks := blocks,
              components := zipDefs t.componentDefinitions comps,
              summary := summaryOf name src.length t c }
      | .panic s, _, _ => .panic s
      | .internal w, _, _ => .internal w
      | _, .panic s, _ => .panic s
      | _, .internal w, _ => .internal w
      | _, _, .panic s => .panic s
      | _, _, .internal w => .internal w

/-! ## `add_raw_templates` on a fresh instance -/

/-- the registered built-ins (parameters, as in Model/VmState.lean `Env`) -/
structure Builtins where
  callFilter : String → Value → List (String × Value) → Vm.CallRes
  filterIsSafe : String → Bool
  callTest : String → Value → List (String × Value) → Vm.CallRes
  callFunction : String → List (String × Value) → Vm.CallRes
  functionIsSafe : String → Bool
  F : FloatOps
  fmtF64 : F64 → List Char

/-- the configuration of the `Tera` instance -/
structure Config where
  /-- `set_delimiters` -/
  delims : Delims
  /-- `set_fallback_prefixes` -/
  prefixes : List String
  /-- `autoescape_on` -/
  suffixes : List String
  /-- keys of `filters`, `tests`, `functions` -/
  reg : Reg.Registered
  builtins : Builtins

inductive AddErr where
  /-- `Template::new` failed on this template: `ErrorKind::SyntaxError` -/
  | syntax (template : String)
  /-- `finalize_templates` failed -/
  | registry (e : Reg.Err)
  | panic (site : String)
  | outOfFuel
  | internal (what : String)
  /-- a stored chunk does not pass `Vm.checkChunk` (model only: the real engine has no checker) -/
  | unchecked (what : String)

/-- the `for (name, content) in templates` loop: `Template::new` for each, stopping at the first
failure -/
def newAll (d : Delims) : List (String × Bytes) → Except AddErr (List TemplateData)
  | [] => .ok []
  | (name, src) :: rest =>
    match newTemplate d name src with
    | .syntax => .error (.syntax name)
    | .panic s => .error (.panic s)
    | .outOfFuel => .error .outOfFuel
    | .internal w => .error (.internal w)
    | .ok t =>
      match newAll d rest with
      | .ok ts => .ok (t :: ts)
      | .error e => .error e

/-- the chunks of the lineage of one block: `owners` are template names, most derived first -/
def lineageChunks (tds : List (String × TemplateData)) (block : String) :
    List String → Option (List Vm.Chunk)
  | [] => some []
  | o :: rest =>
    match lookupLast o tds with
    | none => none
    | some td =>
      match lookupLast block td.blocks, lineageChunks tds block rest with
      | some ch, some chs => some (ch :: chs)
      | _, _ => none

def lineagesOf (tds : List (String × TemplateData)) : Reg.BlockMap → Option (List (String × List Vm.Chunk))
  | [] => some []
  | (b, owners) :: rest =>
    match lineageChunks tds b owners, lineagesOf tds rest with
    | some l, some ls => some ((b, l) :: ls)
    | _, _ => none

/-- one entry of `tera.templates` for the VM -/
def infoOf (tds : List (String × TemplateData)) (e : Reg.Entry) : Option (String × Vm.TemplateInfo) :=
  match lookupLast e.tpl.name tds with
  | none => none
  | some td =>
    match lineagesOf tds e.lineage with
    | none => none
    | some lin =>
      some (e.tpl.name, { name := e.tpl.name, chunk := td.main, autoescape := e.autoescape,
                          parents := e.parents, blockLineage := lin,
                          components := td.components.reverse })

def infosOf (tds : List (String × TemplateData)) : List Reg.Entry → Option (List (String × Vm.TemplateInfo))
  | [] => some []
  | e :: rest =>
    match infoOf tds e, infosOf tds rest with
    | some i, some is => some (i :: is)
    | _, _ => none

/-- `must_get_template(name)` resolves fallback prefixes (`resolve_template_name`), the VM model
looks a name up as it is: every include target that resolves to a template of another name gets an
entry of its own (the resolved template) in the model's table.  `S`: the registered summaries. -/
def includeAliases (prefixes : List String) (S : List Reg.Tpl) (tpls : List (String × Vm.TemplateInfo)) :
    List String → List (String × Vm.TemplateInfo)
  | [] => []
  | n :: rest =>
    let more := includeAliases prefixes S tpls rest
    match Reg.resolve prefixes S n with
    | none => more
    | some r =>
      if r = n then more
      else
        match Vm.assoc r tpls with
        | some info => (n, info) :: more
        | none => more

/-- `tera.components`: the definition and chunk of every component of the instance-wide table -/
def globalComponents (tds : List (String × TemplateData)) :
    List (String × String) → Option (List (String × (Component.Def × Vm.Chunk)))
  | [] => some []
  | (c, owner) :: rest =>
    match lookupLast owner tds with
    | none => none
    | some td =>
      match lookupLast c td.components, globalComponents tds rest with
      | some dc, some r => some ((c, dc) :: r)
      | _, _ => none

def mkEnv (cfg : Config) (tpls : List (String × Vm.TemplateInfo))
    (comps : List (String × (Component.Def × Vm.Chunk))) : Vm.Env :=
  { templates := tpls, components := comps,
    hasFilter := cfg.reg.filters.contains, hasTest := cfg.reg.tests.contains,
    hasFunction := cfg.reg.functions.contains,
    callFilter := cfg.builtins.callFilter, filterIsSafe := cfg.builtins.filterIsSafe,
    callTest := cfg.builtins.callTest, callFunction := cfg.builtins.callFunction,
    functionIsSafe := cfg.builtins.functionIsSafe, F := cfg.builtins.F, fmtF64 := cfg.builtins.fmtF64 }

/-- every chunk `interpret` can be entered with, with a label for diagnostics -/
def allChunks (env : Vm.Env) : List (String × Vm.Chunk) :=
  env.templates.flatMap (fun (n, t) =>
    [("main:" ++ n, t.chunk)]
    ++ t.blockLineage.flatMap (fun (b, l) => l.map fun ch => ("block:" ++ n ++ ":" ++ b, ch)))
  ++ env.components.map (fun (cn, (_, ch)) => ("comp:" ++ cn, ch))

/-- the label of the first chunk `Vm.checkChunk` refuses -/
def firstUnchecked (env : Vm.Env) : Option String :=
  ((allChunks env).find? fun (_, ch) => !Vm.checkChunk env ch).map (·.1)

abbrev Env := Vm.Env

/-- the initial registry state of a fresh instance with the configuration applied -/
def initState (cfg : Config) : Reg.State :=
  { Reg.State.init cfg.prefixes with suffixes := cfg.suffixes }

/-- the templates by name, as `lookupLast` reads them -/
def namedOf (tds : List TemplateData) : List (String × TemplateData) := tds.map fun td => (td.name, td)

/-- `finalize_templates` on the summaries of the batch; a panic / fuel outcome of the registry
model is passed on as such -/
def register (cfg : Config) (tds : List TemplateData) : Except AddErr Reg.State :=
  match Reg.addBatchR cfg.reg (initState cfg) (tds.map fun td => Reg.ItemR.good td.summary) id id with
  | (st, none) => .ok st
  | (_, some .panic) => .error (.panic "finalize_templates")
  | (_, some .outOfFuel) => .error .outOfFuel
  | (_, some e) => .error (.registry e)

/-- the environment of the VM from the stored chunks and the derived data (adapter) -/
def buildEnv (cfg : Config) (tds : List TemplateData) (st : Reg.State) : Option Env :=
  match infosOf (namedOf tds) st.templates, globalComponents (namedOf tds) st.comps with
  | some tpls, some comps =>
    some (mkEnv cfg
      (tpls ++ includeAliases cfg.prefixes (st.templates.map (·.tpl)) tpls
        ((st.templates.map (·.tpl)).flatMap (·.includeCalls))) comps)
  | _, _ => none

/-- translation validation: every chunk of the environment passes `Vm.checkChunk` -/
def validate (env : Env) : Except AddErr Env :=
  match firstUnchecked env with
  | some what => .error (.unchecked what)
  | none => .ok env

/-- `Tera::default()` + configuration, then `add_raw_templates(sources)` — exactly the engine's
stages, WITHOUT the model's own run of the checker (`validate`).  `engine_never_panics_T`
(Props/Pipeline.lean) is about this function: every chunk of the environment it returns has a
`Vm.verify` certificate by theorem, not by check. -/
def addTemplatesT (cfg : Config) (sources : List (String × Bytes)) : Except AddErr Env :=
  match newAll cfg.delims sources with
  | .error e => .error e
  | .ok tds =>
    match register cfg tds with
    | .error e => .error e
    | .ok st =>
      match buildEnv cfg tds st with
      | none => .error (.internal "derived data names a chunk that does not exist")
      | some env => .ok env

/-- `addTemplatesT` followed by the translation validation of every stored chunk
(`Vm.checkChunk`; outcome `unchecked`).  Kept because `checkChunk` infers its own table: the
theorems P5 about this function do not depend on the compiler / optimiser bridges. -/
def addTemplates (cfg : Config) (sources : List (String × Bytes)) : Except AddErr Env :=
  match newAll cfg.delims sources with
  | .error e => .error e
  | .ok tds =>
    match register cfg tds with
    | .error e => .error e
    | .ok st =>
      match buildEnv cfg tds st with
      | none => .error (.internal "derived data names a chunk that does not exist")
      | some env => validate env

/-! ## `render` / `render_block` -/

abbrev Fuel := Vm.Fuel
abbrev Outcome := Vm.Outcome

/-- `Tera::render(name, context)` with the instance's global context -/
def render (fuel : Fuel) (env : Env) (name : String) (ctx : Ctx) (globalCtx : Ctx := []) : Outcome :=
  Vm.render fuel env name none ctx globalCtx

/-- `Tera::render_block(name, block, context)` -/
def renderBlock (fuel : Fuel) (env : Env) (name block : String) (ctx : Ctx) (globalCtx : Ctx := []) :
    Outcome :=
  Vm.render fuel env name (some block) ctx globalCtx

/-- source text in, text out, without the model's run of the checker -/
def renderSourcesT (cfg : Config) (sources : List (String × Bytes)) (fuel : Fuel) (name : String)
    (ctx : Ctx) : Except AddErr Outcome :=
  match addTemplatesT cfg sources with
  | .error e => .error e
  | .ok env => .ok (render fuel env name ctx)

/-- source text in, text out: the whole engine in one call -/
def renderSources (cfg : Config) (sources : List (String × Bytes)) (fuel : Fuel) (name : String)
    (ctx : Ctx) : Except AddErr Outcome :=
  match addTemplates cfg sources with
  | .error e => .error e
  | .ok env => .ok (render fuel env name ctx)

end Pipeline
end Tera
