/-
A bytecode checker for the one place where a LISTING can declare data safe (C01):
`RenderBodyComponent` does `body.mark_safe()` on whatever value is in its body slot
(tera/src/vm/interpreter.rs, `component!`).  The compiler always leaves the result of
`Capture … EndCapture` there (tera/src/parsing/compiler.rs, component calls with a body); this
checker accepts a chunk only if that is so on every path.

An abstract interpretation of a typed chunk (Model/VmState.lean `VInstr`) that keeps, per
value-stack slot counted from the top, one flag "this slot does not hold a Normal string" — set
for the results of `EndCapture`, `super()`, component calls and `AppendToList`, unknown below what
the chunk itself pushed.  `verifyF` checks a table of per-instruction flags, `inferF` builds one by
forward passes (not trusted), `bodyCheck` = infer + verify.  Soundness against the REAL `step`:
Lemmas/VmBodyCheck.lean (`covF_step`, `covF_guard`), used by Props/C01Vm.lean
(`C01Vm_render_no_special_checked`, `bodyCheck_sound`).

Next to the flags it keeps the `end_ip`s of the loops the chunk itself pushed and has not popped
(`ALoops`; `StartIterate` pushes 0, `Iterate(t)` records `t`, `PopLoop` pops), which is where a
`Break` continues.

Conservative where it does not matter for compiler output: `StoreDidNotIterate`, `RenderBlock` and
`super()` reset what is known (nothing is assumed of a nested `interpret` that runs on the caller's
stack and loops), so `super()` as an argument of a call with a body is refused; a `Break` outside
any loop of its own chunk may continue anywhere.
-/
import TeraModel.Model.Vm
namespace Tera.Vm
open Tera

/-- per slot from the top: `true` = known not to hold a Normal string -/
abbrev Flags := List Bool

/-- `a` claims no more than `b` -/
def fle : Flags → Flags → Bool
  | [], _ => true
  | x :: xs, [] => !x && fle xs []
  | x :: xs, y :: ys => (!x || y) && fle xs ys

/-! ### the abstract turn -/

def spreadCount (flags : List Bool) : Nat := (flags.map fun b => if b then 1 else 2).sum

/-- flags after the turn of instruction `i` at `pc` that continues at `pc'` -/
def bflags (i : VInstr) (pc pc' : Nat) (f : Flags) : Flags :=
  match i with
  | .loadConst _ | .loadName _ | .loadPath _ => false :: f
  | .loadAttr .. | .not_ | .negative => false :: f.drop 1
  | .binarySubscript _ | .math _ | .plus | .cmp _ | .equal _ | .strConcat | .in_
  | .applyFilter _ | .runTest _ => false :: f.drop 2
  | .slice _ => false :: f.drop 4
  | .writeText _ | .include_ _ | .capture | .jump _ | .iterate _ | .storeLocal _ | .break_
  | .popLoop | .writePath _ => f
  | .writeTop | .set .. | .popJumpIfFalse _ | .startIterate .. => f.drop 1
  | .buildMap n => false :: f.drop (2 * n)
  | .buildList n => false :: f.drop n
  | .buildMapWithSpreads flags => false :: f.drop (spreadCount flags)
  | .buildListWithSpreads flags => false :: f.drop flags.length
  | .callFunction n => if n = "super" then [true] else false :: f.drop 1
  | .renderComponent _ hasBody => true :: f.drop (if hasBody then 2 else 1)
  | .renderBlock _ | .storeDidNotIterate => []
  | .jumpIfFalseOrPop t | .jumpIfTrueOrPop t =>
    if t = pc + 1 then [] else if pc' = t then f else f.drop 1
  | .endCapture => true :: f
  | .appendToList => true :: f.drop 2

/-- the `end_ip`s of the loops the chunk pushed and has not popped, innermost first, each known
or not (below them: the caller's loops, unknown); `none` = nothing known, not even how many -/
abbrev ALoops := Option (List (Option Nat))

/-- own loops after the turn of instruction `i` at `pc` that continues at `pc'` -/
def bloops (i : VInstr) (pc pc' : Nat) (l : ALoops) : ALoops :=
  match i with
  | .startIterate .. => l.map (some 0 :: ·)
  | .iterate t =>
    match l with
    | some (x :: xs) =>
      if t = pc + 1 then some (none :: xs) else if pc' = t then some (x :: xs) else some (some t :: xs)
    | other => other
  | .popLoop => l.map List.tail
  | .renderBlock _ => none
  | .callFunction n => if n = "super" then none else l
  | _ => l

/-- where the turn may continue (`len` = length of the chunk; beyond it the run ends) -/
def bsuccs (i : VInstr) (pc len : Nat) (l : ALoops) : List Nat :=
  match i with
  | .jump t => [t]
  | .popJumpIfFalse t | .jumpIfFalseOrPop t | .jumpIfTrueOrPop t | .iterate t => [t, pc + 1]
  | .break_ =>
    match l with
    | some (some x :: _) => [x]
    | _ => List.range len ++ [pc + 1]
  | _ => [pc + 1]

/-- the body slot of `RenderBodyComponent` carries the flag -/
def bguardOk (i : VInstr) (f : Flags) : Bool :=
  match i with
  | .renderComponent _ true => f[1]? == some true
  | _ => true

/-! ### tables -/

structure AState where
  flags : Flags
  loops : ALoops
  deriving Repr, DecidableEq, Inhabited

abbrev FTable := List (Option AState)

/-- loop knowledge `t` claims no more than `a`: as many own loops, each unknown or the same -/
def lle : List (Option Nat) → List (Option Nat) → Bool
  | [], [] => true
  | x :: xs, y :: ys => (x.isNone || x == y) && lle xs ys
  | _, _ => false

/-- `t` claims no more than `a` -/
def AState.le (t a : AState) : Bool :=
  fle t.flags a.flags &&
    match t.loops, a.loops with
    | none, _ => true
    | some tl, some al => lle tl al
    | some _, none => false

def coveredF (table : FTable) (len : Nat) (p : Nat) (g : AState) : Bool :=
  decide (len ≤ p) ||
    match table[p]? with
    | some (some t) => t.le g
    | _ => false

def astepF (i : VInstr) (pc p : Nat) (a : AState) : AState := ⟨bflags i pc p a.flags, bloops i pc p a.loops⟩

def verifyAtF (code : List VEntry) (table : FTable) (pc : Nat) : Bool :=
  match table[pc]?, code[pc]? with
  | some (some a), some e =>
    bguardOk e.1 a.flags &&
      (bsuccs e.1 pc code.length a.loops).all fun p => coveredF table code.length p (astepF e.1 pc p a)
  | _, _ => true

/-- The table is a valid certificate for the chunk entered with nothing known of the stack. -/
def verifyF (code : List VEntry) (table : FTable) : Bool :=
  coveredF table code.length 0 ⟨[], some []⟩ && (List.range code.length).all (verifyAtF code table)

/-! ### inference (forward passes to a fixed point; not trusted) -/

def meetF : Flags → Flags → Flags
  | x :: xs, y :: ys => (x && y) :: meetF xs ys
  | _, _ => []

def meetL : List (Option Nat) → List (Option Nat) → Option (List (Option Nat))
  | [], [] => some []
  | x :: xs, y :: ys => (meetL xs ys).map ((if x == y then x else none) :: ·)
  | _, _ => none

def AState.meet (a b : AState) : AState :=
  ⟨meetF a.flags b.flags,
   match a.loops, b.loops with
   | some x, some y => meetL x y
   | _, _ => none⟩

def mergeF (len : Nat) (table : FTable) (p : Nat) (g : AState) : FTable :=
  if p < len then
    match table[p]? with
    | some (some t) => table.set p (some (t.meet g))
    | _ => table.set p (some g)
  else table

def inferPassF (code : List VEntry) : Nat → Nat → FTable → FTable
  | 0, _, table => table
  | fuel + 1, pc, table =>
    match code[pc]? with
    | none => table
    | some e =>
      match table[pc]? with
      | some (some a) =>
        inferPassF code fuel (pc + 1)
          ((bsuccs e.1 pc code.length a.loops).foldl
            (fun tb p => mergeF code.length tb p (astepF e.1 pc p a)) table)
      | _ => inferPassF code fuel (pc + 1) table

def inferFixF (code : List VEntry) : Nat → FTable → FTable
  | 0, table => table
  | n + 1, table =>
    let table' := inferPassF code code.length 0 table
    if table' == table then table else inferFixF code n table'

def inferF (code : List VEntry) : FTable :=
  if code.isEmpty then []
  else inferFixF code 8 ((List.replicate code.length none).set 0 (some ⟨[], some []⟩))

def isBodyComp : VInstr → Bool
  | .renderComponent _ true => true
  | _ => false

/-- The checker: a chunk without `RenderBodyComponent` has nothing to check. -/
def bodyCheck (c : Chunk) : Bool :=
  !c.code.any (fun e => isBodyComp e.1) || verifyF c.code (inferF c.code)

/-! ### the static hypotheses of C01 on an environment, as one computable check

What C01 assumes of the LISTINGS (not of the data, not of the built-ins' bodies): autoescape on for
every template; no constant of a listing and no default value of a component parameter carries the
Safe mark; no filter / function a listing applies is registered `is_safe` ("no use of `safe`");
every chunk passes `bodyCheck`.  Props/C01Vm.lean `C01Vm_static_check`: together with the two
parameter assumptions (the built-ins used mint no Safe string; `{:?}` of an f64) this gives the
hypotheses of the C01 theorems. -/

mutual
/-- no string inside the value carries the Safe mark -/
def noSafeB : Value → Bool
  | .str safe _ => !safe
  | .arr xs => noSafeListB xs
  | .map es => noSafeEntriesB es
  | .undef | .none | .bool _ | .u64 _ | .i64 _ | .u128 _ | .i128 _ | .f64 _ | .bytes _ => true

def noSafeListB : List Value → Bool
  | [] => true
  | v :: vs => noSafeB v && noSafeListB vs

def noSafeEntriesB : List (Key × Value) → Bool
  | [] => true
  | (_, v) :: es => noSafeB v && noSafeEntriesB es
end

def chunkStaticOk (env : Env) (c : Chunk) : Bool :=
  bodyCheck c && c.code.all fun e =>
    match e.1 with
    | .loadConst v => noSafeB v
    | .applyFilter n => !env.filterIsSafe n
    | .callFunction n => n == "super" || !env.functionIsSafe n
    | _ => true

def defStaticOk (d : Component.Def) : Bool :=
  d.params.all fun p =>
    match p.dflt with
    | some v => noSafeB v
    | none => true

/-- every chunk the environment holds -/
def envChunks (env : Env) : List Chunk :=
  env.templates.flatMap (fun x =>
    x.2.chunk :: (x.2.blockLineage.flatMap (·.2) ++ x.2.components.map (·.2.2)))
  ++ env.components.map (·.2.2)

def envDefs (env : Env) : List Component.Def :=
  env.templates.flatMap (fun x => x.2.components.map (·.2.1)) ++ env.components.map (·.2.1)

def c01StaticCheck (env : Env) : Bool :=
  env.templates.all (fun x => x.2.autoescape) && (envChunks env).all (chunkStaticOk env) &&
    (envDefs env).all defStaticOk

end Tera.Vm
