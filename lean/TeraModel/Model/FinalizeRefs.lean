/-
The "all references are checked when templates are added" part of `finalize_templates`
(tera/src/tera.rs `validate_template_references`) on top of Model/Finalize.lean.

`Template::new` keeps five call tables per template, merged from the template body, its blocks
AND its component bodies: `filter_calls`, `test_calls`, `function_calls`, `include_calls`,
`component_calls`.  The summary `Tpl` of Model/Finalize.lean already carries the last two
(`includeCalls`, `compCalls`) and abstracts the first three into one bit (`badRefs`); here the three
tables are explicit and that bit is *computed* from them and from the registered names
(`Tera.filters`, `Tera.tests`, `Tera.functions`: parameters; the built-in lists are extracted into
Generated/Builtins.lean by the translator).
Import-free apart from Model files: linked into the model drivers.
-/
import TeraModel.Model.Registry
namespace Tera.Reg

/-- the keys of `Tera.filters`, `Tera.tests`, `Tera.functions` -/
structure Registered where
  filters : List String
  tests : List String
  functions : List String
  deriving Repr, DecidableEq

/-- a template summary with its three name tables made explicit -/
structure TplR where
  /-- everything else (`badRefs` of this part is ignored) -/
  base : Tpl
  /-- `Template.filter_calls` keys -/
  filterCalls : List String
  /-- `Template.test_calls` keys -/
  testCalls : List String
  /-- `Template.function_calls` keys (contains `super` when a block calls it) -/
  functionCalls : List String
  deriving Repr, DecidableEq

/-- the first three loops of `validate_template_references` report something:
an unknown filter, an unknown test, or an unknown function other than `super` -/
def unknownBuiltin (reg : Registered) (t : TplR) : Bool :=
  t.filterCalls.any (fun n => !reg.filters.contains n)
  || t.testCalls.any (fun n => !reg.tests.contains n)
  || t.functionCalls.any (fun n => n != "super" && !reg.functions.contains n)

/-- the summary `finalize_templates` works on -/
def TplR.toTpl (reg : Registered) (t : TplR) : Tpl := { t.base with badRefs := unknownBuiltin reg t }

/-- `finalize_templates` with explicit call tables -/
def deriveR (reg : Registered) (prefixes : List String) (S : List TplR) (o2 o3 : List String) :
    Except Err Derived :=
  derive prefixes (S.map (TplR.toTpl reg)) o2 o3

/-- an element of a batch given to `add_raw_templates` -/
inductive ItemR where
  | bad (name : String)
  | good (t : TplR)
  deriving Repr, DecidableEq

def ItemR.toItem (reg : Registered) : ItemR → Item
  | .bad n => .bad n
  | .good t => .good (t.toTpl reg)

/-- `add_raw_templates` with explicit call tables (the registered names do not change along a
history: `register_filter` etc. are not part of the modelled API) -/
def addBatchR (reg : Registered) (st : State) (items : List ItemR) (ord2 ord3 : List String → List String) :
    State × Option Err :=
  addBatch st (items.map (ItemR.toItem reg)) ord2 ord3

inductive OpR where
  | add (items : List ItemR)
  | escape (suffixes : List String)
  deriving Repr, DecidableEq

def OpR.toOp (reg : Registered) : OpR → Op
  | .add items => .add (items.map (ItemR.toItem reg))
  | .escape s => .escape s

end Tera.Reg
