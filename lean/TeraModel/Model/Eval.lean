/-
Big-step evaluator over the AST (Model/Ast.lean): what a template renders to, written the way the
documentation reads and the way the engine observably behaves (tera/src/parsing/compiler.rs +
tera/src/vm/interpreter.rs collapsed: each AST node does what its compiled instructions do, in the
same order, raising the same class of error at the same point).

* `evalExpr fuel env scope e`      value of an expression (expressions never change the scope:
                                   a list comprehension pushes its hidden loop and pops it again)
* `execNodes fuel env ae st nodes` runs statements; `st` holds the scope, the output written so far
                                   and the capture stack (`Capture` / `EndCapture`); the result
                                   also carries the control signal (`break` / `continue`)
* `render fuel env name ctx glob`  `Tera::render`

Everything recurses on `fuel` only (one unit per nested construct, list element and loop
iteration); running out is the explicit error `Err.fuel`, never a default.  Constructs outside the
modelled fragment (blocks, components, `__tera_context`, filters other than the listed ones)
are the explicit outcome `Err.unsupported`, and so are AST shapes the parser never produces
(`break` across a capture, `break` outside a loop).

Errors are classes, not messages.  All the "undefined" messages of the VM ("Variable .. is not
defined", "Field .. is not defined", "Tried to render a variable that is not defined", "Cannot
index into an undefined value", ..) are one class: which of them is raised depends on whether the
optimiser fused the load, which the AST does not show.
-/
import TeraModel.Model.Ast
import TeraModel.Model.Scope
import TeraModel.Model.Format
namespace Tera

inductive Err where
  /-- an undefined value was printed, used as the base of `.`/`[`/slice, or as an index -/
  | undefined
  /-- "Cannot compare `a` with `b`" -/
  | notComparable
  /-- arithmetic: operand not a number, out of range, overflow, division by zero, exponent -/
  | num (e : NumErr)
  /-- "Iteration not possible on type" / "Key/value iteration is not possible" -/
  | iteration
  /-- "`in` cannot be used on a container of type" -/
  | inContainer
  /-- bad index / key / slice bound kind, slice of a non-sequence, step 0 -/
  | index
  /-- "Spread operator requires .." -/
  | spread
  /-- a filter, test or function rejected its input or arguments -/
  | call
  /-- `throw(message=..)` -/
  | thrown
  | missingTemplate
  | unsupported (what : String)
  | fuel
  deriving Repr

structure TemplateDef where
  nodes : List Node
  autoescape : Bool

structure Env where
  templates : List (String × TemplateDef)
  F : FloatOps
  fmtF64 : F64 → List Char

def Env.template (env : Env) (name : String) : Option TemplateDef :=
  (env.templates.find? (fun p => p.1 == name)).map (·.2)

/-! ### Built-in filters, tests and functions (the modelled subset) -/

def kwGet (kw : List (String × Value)) (n : String) : Option Value :=
  (kw.find? (fun p => p.1 == n)).map (·.2)

def asciiUpper (c : Char) : Char := if 'a' ≤ c ∧ c ≤ 'z' then Char.ofNat (c.toNat - 32) else c
def asciiLower (c : Char) : Char := if 'A' ≤ c ∧ c ≤ 'Z' then Char.ofNat (c.toNat + 32) else c
def isAsciiSpace (c : Char) : Bool := c == ' ' || c == '\n' || c == '\t' || c == '\r' || c.toNat == 11 || c.toNat == 12

def trimChars (s : List Char) : List Char :=
  ((s.dropWhile isAsciiSpace).reverse.dropWhile isAsciiSpace).reverse

def joinChars (sep : List Char) : List (List Char) → List Char
  | [] => []
  | [x] => x
  | x :: rest => x ++ sep ++ joinChars sep rest

/-- `format!("{value}")`. -/
def Env.display (env : Env) (v : Value) : List Char := v.format env.fmtF64

/-- tera/src/filters.rs: `safe`, `default`, `upper`, `lower`, `length`, `str`, `trim` (without
`pat`), `first`, `last`, `join`.  `upper`/`lower` map ASCII letters only and `trim` strips ASCII
white space only (the harness generates no other cased or white-space characters). -/
def applyFilter (env : Env) (name : String) (v : Value) (kw : List (String × Value)) : Except Err Value :=
  if name == "safe" then
    .ok (.str true (match v with | .str _ s => s | v => env.display v))
  else if name == "default" then
    match kwGet kw "value" with
    | none => .error .call
    | some d =>
      match kwGet kw "boolean" with
      | some (.bool true) => .ok (if v.isTruthy then v else d)
      | some (.bool false) => .ok (if v.isUndef then d else v)
      | some _ => .error .call
      | none => .ok (if v.isUndef then d else v)
  else if name == "upper" then
    match v with
    | .str _ s => .ok (.str false (s.map asciiUpper))
    | _ => .error .call
  else if name == "lower" then
    match v with
    | .str _ s => .ok (.str false (s.map asciiLower))
    | _ => .error .call
  else if name == "length" then
    match v with
    | .map es => .ok (.u64 es.length)
    | .arr xs => .ok (.u64 xs.length)
    | .bytes bs => .ok (.u64 bs.length)
    | .str _ s => .ok (.u64 s.length)
    | _ => .error .call
  else if name == "str" then .ok (.str false (env.display v))
  else if name == "trim" then
    match kwGet kw "pat" with
    | some _ => .error (.unsupported "trim(pat)")
    | none =>
      match v with
      | .str _ s => .ok (.str false (trimChars s))
      | _ => .error .call
  else if name == "first" then
    match v with
    | .arr xs => .ok (xs.head?.getD .none)
    | _ => .error .call
  else if name == "last" then
    match v with
    | .arr xs => .ok (xs.getLast?.getD .none)
    | _ => .error .call
  else if name == "join" then
    match v with
    | .arr xs =>
      match kwGet kw "sep" with
      | none => .ok (.str false (joinChars [] (xs.map env.display)))
      | some (.str _ sep) => .ok (.str false (joinChars sep (xs.map env.display)))
      | some _ => .error .call
    | _ => .error .call
  else .error (.unsupported ("filter " ++ name))

/-- tera/src/tests.rs: `defined undefined none string number integer float bool array map iterable
odd even`. -/
def applyTest (name : String) (v : Value) : Except Err Bool :=
  if name == "defined" then .ok (!v.isUndef)
  else if name == "undefined" then .ok v.isUndef
  else if name == "none" then .ok v.isNone
  else if name == "string" then .ok (match v with | .str .. => true | _ => false)
  else if name == "number" then .ok v.isNumber
  else if name == "integer" then .ok v.isInteger
  else if name == "float" then .ok (match v with | .f64 _ => true | _ => false)
  else if name == "bool" then .ok (match v with | .bool _ => true | _ => false)
  else if name == "array" then .ok (match v with | .arr _ => true | _ => false)
  else if name == "map" then .ok v.isMap
  else if name == "iterable" then .ok v.canBeIteratedOn
  else if name == "odd" then
    match v.asNumber with
    | some (.int i) => .ok (i % 2 != 0)
    | _ => .error .call
  else if name == "even" then
    match v.asNumber with
    | some (.int i) => .ok (i % 2 == 0)
    | _ => .error .call
  else .error (.unsupported ("test " ++ name))

/-- An `i128` argument: integer kinds that fit. -/
def argI128 (v : Option Value) (dflt : Option Int) : Except Err Int :=
  match v with
  | none => match dflt with
    | some d => .ok d
    | none => .error .call
  | some (.f64 _) => .error (.unsupported "float passed as integer argument")
  | some x => match x.asI128 with
    | some n => .ok n
    | none => .error .call

def MAX_RANGE_LEN : Int := 100000

/-- tera/src/functions.rs: `throw`, `range`. -/
def applyFunction (name : String) (kw : List (String × Value)) : Except Err Value :=
  if name == "throw" then
    match kwGet kw "message" with
    | some (.str ..) => .error .thrown
    | _ => .error .call
  else if name == "range" then
    match argI128 (kwGet kw "start") (some 0), argI128 (kwGet kw "end") none,
        argI128 (kwGet kw "step_by") (some 1) with
    | .error e, _, _ => .error e
    | _, .error e, _ => .error e
    | _, _, .error e => .error e
    | .ok start, .ok stop, .ok step =>
      if start > stop ∧ step > 0 then .error .call
      else if step == 0 then .error .call
      else
        let len : Option Int :=
          if step > 0 then
            match checkedI128 (stop - start) with
            | some span => (checkedI128 (span + (step - 1))).map (fun x => Int.tdiv x step)
            | none => none
          else if start ≤ stop then some 0
          else
            match checkedI128 (-step) with
            | some st =>
              match checkedI128 (start - stop) with
              | some span => (checkedI128 (span + (st - 1))).map (fun x => Int.tdiv x st)
              | none => none
            | none => none
        match len with
        | none => .error .call
        | some n =>
          if n > MAX_RANGE_LEN then .error .call
          else .ok (.arr ((List.range n.toNat).map fun (i : Nat) => Value.i128 (start + (i : Int) * step)))
  else .error (.unsupported ("function " ++ name))

/-! ### Operators (vm/interpreter.rs) -/

def liftNum (r : Except NumErr Value) : Except Err Value :=
  match r with
  | .ok v => .ok v
  | .error e => .error (.num e)

/-- `math_binop!`: both operands must be numbers (of any numeric kind), then number.rs. -/
def mathBinop (f : Value → Value → Except NumErr Value) (a b : Value) : Except Err Value :=
  if !a.isNumber then .error (.num .notNumber)
  else if !b.isNumber then .error (.num .notNumber)
  else liftNum (f a b)

/-- `ordering_binop!`. -/
def orderingBinop (test : Ordering → Bool) (a b : Value) : Except Err Value :=
  match partialCmp a b with
  | some o => .ok (.bool (test o))
  | none => .error .notComparable

/-- A binary operator other than `and` / `or`, on the two evaluated operands. -/
def binop (env : Env) (op : BinaryOperator) (a b : Value) : Except Err Value :=
  match op with
  | .Mul => mathBinop (mul env.F) a b
  | .Div => mathBinop (div env.F) a b
  | .FloorDiv => mathBinop (floorDiv env.F) a b
  | .Mod => mathBinop (rem env.F) a b
  | .Plus => if a.isNumber && b.isNumber then liftNum (add env.F a b) else .error (.num .notNumber)
  | .Minus => mathBinop (sub env.F) a b
  | .Power => mathBinop (pow env.F) a b
  | .LessThan => orderingBinop (· == .lt) a b
  | .GreaterThan => orderingBinop (· == .gt) a b
  | .LessThanOrEqual => orderingBinop (· != .gt) a b
  | .GreaterThanOrEqual => orderingBinop (· != .lt) a b
  | .Equal => .ok (.bool (valueEq a b))
  | .NotEqual => .ok (.bool (!valueEq a b))
  | .StrConcat =>
    match a, b with
    | .str _ x, .str _ y => .ok (.str false (x ++ y))
    | _, _ => .ok (.str false (env.display a ++ env.display b))
  | .In =>
    match Value.contains b a with
    | .ok r => .ok (.bool r)
    | .error _ => .error .inContainer
  | .And | .Or => .error (.unsupported "and/or are not strict operators")
  | .Is | .Pipe => .error (.unsupported "is / | are not binary operations in a parsed AST")

/-- A slice bound as the `Slice` instruction reads it: `none` value = absent, undefined = error,
otherwise it must be an integer that fits `i128`. -/
def sliceBound (v : Value) : Except Err (Option Int) :=
  match v with
  | .none => .ok none
  | .undef => .error .undefined
  | v => match v.asI128 with
    | some n => .ok (some n)
    | none => .error .index

/-- `BuildList` / `BuildListWithSpreads` on the evaluated entries (`true` = spread). -/
def buildList : List (Bool × Value) → Except Err (List Value)
  | [] => .ok []
  | (false, v) :: rest => (buildList rest).map (v :: ·)
  | (true, v) :: rest =>
    match v with
    | .arr xs => (buildList rest).map (xs ++ ·)
    | _ => .error .spread

/-- `BuildMapWithSpreads`: entries are taken from right to left, the first one seen for a key wins
(`entry(k).or_insert(v)`), `none` key = spread. -/
def buildMapRev : List (Option Key × Value) → Entries → Except Err Entries
  | [], acc => .ok acc
  | (some k, v) :: rest, acc => buildMapRev rest (mapInsertIfAbsent acc k v)
  | (none, v) :: rest, acc =>
    match v with
    | .map es => buildMapRev rest (es.foldl (fun a kv => mapInsertIfAbsent a kv.1 kv.2) acc)
    | _ => .error .spread

/-- `BuildMap` (no spreads: `collect()` into a `HashMap`, later entries replace earlier ones) and
`BuildMapWithSpreads`. -/
def buildMap (entries : List (Option Key × Value)) : Except Err Entries :=
  if entries.all (fun e => e.1.isSome) then
    .ok (entries.foldl (fun acc e => match e.1 with | some k => mapInsert acc k e.2 | none => acc) [])
  else buildMapRev entries.reverse []

/-! ### Execution state -/

inductive Sig where
  | normal | brk | cont
  deriving DecidableEq, Repr

/-- The part of the VM `State` statements act on, plus the output. `captures` is the stack of
`capture_buffers` with its top at the head. -/
structure St where
  scope : Scope
  out : List Char
  captures : List (List Char)

/-- `WriteText` / the tail of `WriteTop`: into the innermost capture buffer when there is one,
otherwise to the output. -/
def St.write (st : St) (t : List Char) : St :=
  match st.captures with
  | [] => { st with out := st.out ++ t }
  | b :: bs => { st with captures := (b ++ t) :: bs }

/-- `WriteTop`: printing undefined is an error; escaped when the template autoescapes and the
value is not safe. -/
def writeValue (env : Env) (ae : Bool) (st : St) (v : Value) : Except Err St :=
  if v.isUndef then .error .undefined
  else
    let text := env.display v
    .ok (st.write (if !ae || v.isSafe then text else escapeHtml text))

def St.store (st : St) (name : String) (v : Value) (global : Bool) : St :=
  { st with scope := if global then st.scope.storeGlobal name v else st.scope.storeLocal name v }

/-- The jump target every `Iterate` instruction carries is the index of an instruction that comes
after `StartIterate`, `StoreLocal`, `Iterate` and `Jump`, hence never 0; its value is otherwise
unobservable at the level of the AST. -/
def ITERATE_END_IP : Nat := 1

mutual

/-- Value of an expression. -/
def evalExpr : Nat → Env → Scope → Expr → Except Err Value
  | 0, _, _, _ => .error .fuel
  | fuel + 1, env, sc, e =>
    match e with
    | .const v => .ok v
    | .array items =>
      match evalArrayEntries fuel env sc items with
      | .error e => .error e
      | .ok parts => (buildList parts).map Value.arr
    | .map entries =>
      match evalMapEntries fuel env sc entries with
      | .error e => .error e
      | .ok parts => (buildMap parts).map Value.map
    | .var name =>
      if name == "__tera_context" then .error (.unsupported "__tera_context")
      else .ok (sc.getValue name)
    | .getAttr base name optional =>
      match evalExpr fuel env sc base with
      | .error e => .error e
      | .ok a =>
        if optional && (a.isUndef || a.isNone) then .ok .undef
        else if a.isUndef then .error .undefined
        else .ok ((a.getAttr name.toList).getD .undef)
    | .getItem base sub optional =>
      match evalExpr fuel env sc base with
      | .error e => .error e
      | .ok a =>
        match evalExpr fuel env sc sub with
        | .error e => .error e
        | .ok s =>
          if optional && (a.isUndef || a.isNone) then .ok .undef
          else if a.isUndef then .error .undefined
          else if s.isUndef then .error .undefined
          else match a.getItem s with
            | .ok v => .ok v
            | .error _ => .error .index
    | .slice base start stop step optional =>
      match evalExpr fuel env sc base with
      | .error e => .error e
      | .ok a =>
        match evalOpt fuel env sc start .none with
        | .error e => .error e
        | .ok s =>
          match evalOpt fuel env sc stop .none with
          | .error e => .error e
          | .ok e' =>
            match evalOpt fuel env sc step (.u64 1) with
            | .error e => .error e
            | .ok st =>
              if optional && (a.isUndef || a.isNone) then .ok .undef
              else if a.isUndef then .error .undefined
              else
                match sliceBound s with
                | .error e => .error e
                | .ok s' =>
                  match sliceBound e' with
                  | .error e => .error e
                  | .ok e'' =>
                    match sliceBound st with
                    | .error e => .error e
                    | .ok st' =>
                      match a.slice s' e'' st' with
                      | .ok v => .ok v
                      | .error _ => .error .index
    | .filter base name kwargs =>
      match evalExpr fuel env sc base with
      | .error e => .error e
      | .ok v =>
        match evalKwargs fuel env sc kwargs with
        | .error e => .error e
        | .ok kw => applyFilter env name v kw
    | .test base name kwargs =>
      match evalExpr fuel env sc base with
      | .error e => .error e
      | .ok v =>
        match evalKwargs fuel env sc kwargs with
        | .error e => .error e
        | .ok _ => (applyTest name v).map Value.bool
    | .functionCall name kwargs =>
      match evalKwargs fuel env sc kwargs with
      | .error e => .error e
      | .ok kw => applyFunction name kw
    | .ternary cond t f =>
      match evalExpr fuel env sc cond with
      | .error e => .error e
      | .ok c => if c.isTruthy then evalExpr fuel env sc t else evalExpr fuel env sc f
    | .listComprehension body key value target cond =>
      match evalExpr fuel env sc target with
      | .error e => .error e
      | .ok tv =>
        match iterItems tv with
        | none => .error .iteration
        | some items =>
          if key.isSome && !tv.isMap then .error .iteration
          else
            let l := match key with
              | none => (ForLoop.new items true).storeLocalName value
              | some k => ((ForLoop.new items true).storeLocalName value).storeLocalName k
            (evalCompr fuel env (sc.pushLoop l) body cond []).map Value.arr
    | .componentCall .. => .error (.unsupported "component call")
    | .unary .Not x =>
      match evalExpr fuel env sc x with
      | .error e => .error e
      | .ok v => .ok (.bool (!v.isTruthy))
    | .unary .Minus x =>
      match evalExpr fuel env sc x with
      | .error e => .error e
      | .ok v => liftNum (negate env.F v)
    | .binary .And l r =>
      match evalExpr fuel env sc l with
      | .error e => .error e
      | .ok a => if !a.isTruthy then .ok a else evalExpr fuel env sc r
    | .binary .Or l r =>
      match evalExpr fuel env sc l with
      | .error e => .error e
      | .ok a => if a.isTruthy then .ok a else evalExpr fuel env sc r
    | .binary op l r =>
      match evalExpr fuel env sc l with
      | .error e => .error e
      | .ok a =>
        match evalExpr fuel env sc r with
        | .error e => .error e
        | .ok b => binop env op a b

/-- An optional sub-expression (slice bounds): the compiler loads a constant when it is absent. -/
def evalOpt : Nat → Env → Scope → Option Expr → Value → Except Err Value
  | 0, _, _, _, _ => .error .fuel
  | fuel + 1, env, sc, oe, dflt =>
    match oe with
    | none => .ok dflt
    | some e => evalExpr fuel env sc e

def evalArrayEntries : Nat → Env → Scope → List ArrayEntry → Except Err (List (Bool × Value))
  | 0, _, _, _ => .error .fuel
  | _ + 1, _, _, [] => .ok []
  | fuel + 1, env, sc, entry :: rest =>
    let (isSpread, e) := match entry with
      | .item e => (false, e)
      | .spread e => (true, e)
    match evalExpr fuel env sc e with
    | .error e => .error e
    | .ok v => (evalArrayEntries fuel env sc rest).map ((isSpread, v) :: ·)

def evalMapEntries : Nat → Env → Scope → List MapEntry → Except Err (List (Option Key × Value))
  | 0, _, _, _ => .error .fuel
  | _ + 1, _, _, [] => .ok []
  | fuel + 1, env, sc, entry :: rest =>
    let (k, e) := match entry with
      | .keyValue k e => (some k, e)
      | .spread e => (none, e)
    match evalExpr fuel env sc e with
    | .error e => .error e
    | .ok v => (evalMapEntries fuel env sc rest).map ((k, v) :: ·)

/-- Keyword arguments, in name order (the engine evaluates them in `HashMap` order, which is not
specified; the harness only generates calls in which at most one argument can fail). -/
def evalKwargs : Nat → Env → Scope → List (String × Expr) → Except Err (List (String × Value))
  | 0, _, _, _ => .error .fuel
  | _ + 1, _, _, [] => .ok []
  | fuel + 1, env, sc, (n, e) :: rest =>
    match evalExpr fuel env sc e with
    | .error e => .error e
    | .ok v => (evalKwargs fuel env sc rest).map ((n, v) :: ·)

/-- The hidden loop of a list comprehension; the comprehension's `ForLoop` is the innermost loop
of `sc`. -/
def evalCompr : Nat → Env → Scope → Expr → Option Expr → List Value → Except Err (List Value)
  | 0, _, _, _, _, _ => .error .fuel
  | fuel + 1, env, sc, body, cond, acc =>
    match sc.forLoops with
    | [] => .error (.unsupported "empty loop stack")
    | l :: _ =>
      match l.iterate ITERATE_END_IP with
      | none => .ok acc
      | some l' =>
        let sc' := sc.setTopLoop l'
        match (match cond with
               | none => Except.ok true
               | some c => (evalExpr fuel env sc' c).map Value.isTruthy) with
        | .error e => .error e
        | .ok false => evalCompr fuel env sc' body cond acc
        | .ok true =>
          match evalExpr fuel env sc' body with
          | .error e => .error e
          | .ok x => evalCompr fuel env sc' body cond (acc ++ [x])

/-- The filters of a `{% set x | f | g %}` block applied to the captured text. -/
def applyFilters : Nat → Env → Scope → List Expr → Value → Except Err Value
  | 0, _, _, _, _ => .error .fuel
  | _ + 1, _, _, [], v => .ok v
  | fuel + 1, env, sc, f :: rest, v =>
    match f with
    | .filter _ name kwargs =>
      match evalKwargs fuel env sc kwargs with
      | .error e => .error e
      | .ok kw =>
        match applyFilter env name v kw with
        | .error e => .error e
        | .ok v' => applyFilters fuel env sc rest v'
    | _ => .error (.unsupported "set block filter that is not a filter")

/-- One statement. `ae` = the current template autoescapes. -/
def execNode : Nat → Env → Bool → St → Node → Except Err (St × Sig)
  | 0, _, _, _, _ => .error .fuel
  | fuel + 1, env, ae, st, node =>
    match node with
    | .content text => .ok (st.write text.toList, .normal)
    | .expression e =>
      match evalExpr fuel env st.scope e with
      | .error e => .error e
      | .ok v => (writeValue env ae st v).map (·, Sig.normal)
    | .set name value global =>
      match evalExpr fuel env st.scope value with
      | .error e => .error e
      | .ok v => .ok (st.store name v global, .normal)
    | .blockSet name filters body global =>
      match execNodes fuel env ae { st with captures := [] :: st.captures } body with
      | .error e => .error e
      | .ok (st1, .normal) =>
        match st1.captures with
        | [] => .error (.unsupported "capture stack underflow")
        | buf :: restCaps =>
          let st2 : St := { st1 with captures := restCaps }
          match applyFilters fuel env st2.scope filters (.str true buf) with
          | .error e => .error e
          | .ok v => .ok (st2.store name v global, .normal)
      | .ok (_, _) => .error (.unsupported "break/continue across a capture")
    | .include name =>
      match env.template name with
      | none => .error .missingTemplate
      | some t =>
        match execNodes fuel env t.autoescape
            { scope := Scope.included st.scope, out := [], captures := [] } t.nodes with
        | .error e => .error e
        | .ok (st', .normal) => .ok (st.write st'.out, .normal)
        | .ok (_, _) => .error (.unsupported "break/continue leaving a template")
    | .block .. => .error (.unsupported "block")
    | .forLoop key value target body elseBody =>
      match evalExpr fuel env st.scope target with
      | .error e => .error e
      | .ok tv =>
        match iterItems tv with
        | none => .error .iteration
        | some items =>
          if key.isSome && !tv.isMap then .error .iteration
          else
            let l := match key with
              | none => (ForLoop.new items).storeLocalName value
              | some k => ((ForLoop.new items).storeLocalName value).storeLocalName k
            match execFor fuel env ae { st with scope := st.scope.pushLoop l } body with
            | .error e => .error e
            | .ok st1 =>
              let didNotIterate := match st1.scope.forLoops with
                | l :: _ => !l.iterated
                | [] => false
              let st2 : St := { st1 with scope := st1.scope.popLoop }
              if !elseBody.isEmpty && didNotIterate then execNodes fuel env ae st2 elseBody
              else .ok (st2, .normal)
    | .break => .ok (st, .brk)
    | .continue => .ok (st, .cont)
    | .if cond body falseBody =>
      match evalExpr fuel env st.scope cond with
      | .error e => .error e
      | .ok c => if c.isTruthy then execNodes fuel env ae st body else execNodes fuel env ae st falseBody
    | .filterSection name kwargs body =>
      match execNodes fuel env ae { st with captures := [] :: st.captures } body with
      | .error e => .error e
      | .ok (st1, .normal) =>
        match st1.captures with
        | [] => .error (.unsupported "capture stack underflow")
        | buf :: restCaps =>
          let st2 : St := { st1 with captures := restCaps }
          match evalKwargs fuel env st2.scope kwargs with
          | .error e => .error e
          | .ok kw =>
            match applyFilter env name (.str true buf) kw with
            | .error e => .error e
            | .ok v => (writeValue env ae st2 v).map (·, Sig.normal)
      | .ok (_, _) => .error (.unsupported "break/continue across a capture")

/-- A statement list: stops at the first `break` / `continue` signal. -/
def execNodes : Nat → Env → Bool → St → List Node → Except Err (St × Sig)
  | 0, _, _, _, _ => .error .fuel
  | _ + 1, _, _, st, [] => .ok (st, .normal)
  | fuel + 1, env, ae, st, n :: rest =>
    match execNode fuel env ae st n with
    | .error e => .error e
    | .ok (st', .normal) => execNodes fuel env ae st' rest
    | .ok (st', sig) => .ok (st', sig)

/-- `Iterate` … body … `Jump` until the loop is over or the body breaks; the loop being run is the
innermost loop of `st.scope`. -/
def execFor : Nat → Env → Bool → St → List Node → Except Err St
  | 0, _, _, _, _ => .error .fuel
  | fuel + 1, env, ae, st, body =>
    match st.scope.forLoops with
    | [] => .error (.unsupported "empty loop stack")
    | l :: _ =>
      match l.iterate ITERATE_END_IP with
      | none => .ok st
      | some l' =>
        match execNodes fuel env ae { st with scope := st.scope.setTopLoop l' } body with
        | .error e => .error e
        | .ok (st', .brk) => .ok st'
        | .ok (st', _) => execFor fuel env ae st' body

end

/-- `Tera::render(name, context)` with the instance's global context. -/
def render (fuel : Nat) (env : Env) (name : String) (ctx globalCtx : Ctx) : Except Err (List Char) :=
  match env.template name with
  | none => .error .missingTemplate
  | some t =>
    match execNodes fuel env t.autoescape { scope := Scope.root ctx globalCtx, out := [], captures := [] } t.nodes with
    | .error e => .error e
    | .ok (st, .normal) => .ok st.out
    | .ok (_, _) => .error (.unsupported "break/continue leaving a template")

end Tera
