/-
Reference models of the tera-contrib codecs (tera-contrib/src/{base64,urlencode,slug,json}.rs).

The Rust files are thin wrappers; what is modelled here is
* which engine / set / option each wrapper selects (the code of tera-contrib itself), and
* a reference model of the third-party algorithm it calls (base64 0.22 `GeneralPurpose`,
  percent-encoding 2.3 `percent_encode` / `percent_decode`, slug 0.1.6 `_slugify`,
  serde_json's compact writer over `impl Serialize for tera::Value`).
The third-party crates are validated against these models by the correspondence run, not verified.

Bytes are `Nat`s below 256 (`Bytes bs`), text is `List Char` and meets bytes through UTF-8.
-/
import TeraModel.Model.Value
import TeraModel.Model.Wire
namespace Tera.Contrib

/-- every element is a byte -/
def Bytes (bs : List Nat) : Prop := ∀ b ∈ bs, b < 256

/-! ## UTF-8 (Rust `str::as_bytes` / `String::from_utf8`) -/

/-- `str::as_bytes` of a string given as its chars. -/
def utf8Encode (cs : List Char) : List Nat := Wire.utf8Encode cs

def isCont (b : Nat) : Bool := 0x80 ≤ b && b < 0xC0

/-- Scalar value check and construction. -/
def mkChar (n : Nat) : Option Char :=
  if h : n.isValidChar then some (Char.ofNatAux n h) else none

/-- `String::from_utf8`: strict decoding (no overlong forms, no surrogates, nothing above
U+10FFFF, no truncated sequence); `none` is the `FromUtf8Error`. -/
def utf8Decode : List Nat → Option (List Char)
  | [] => some []
  | b :: rest =>
    if b < 0x80 then
      match mkChar b, utf8Decode rest with
      | some c, some cs => some (c :: cs)
      | _, _ => none
    else if b < 0xC2 then none
    else if b < 0xE0 then
      match rest with
      | c1 :: r =>
        if isCont c1 then
          match mkChar ((b - 0xC0) * 64 + (c1 - 0x80)), utf8Decode r with
          | some c, some cs => some (c :: cs)
          | _, _ => none
        else none
      | _ => none
    else if b < 0xF0 then
      match rest with
      | c1 :: c2 :: r =>
        if isCont c1 && isCont c2 then
          let n := (b - 0xE0) * 4096 + (c1 - 0x80) * 64 + (c2 - 0x80)
          if n < 0x800 then none
          else
            match mkChar n, utf8Decode r with
            | some c, some cs => some (c :: cs)
            | _, _ => none
        else none
      | _ => none
    else if b < 0xF5 then
      match rest with
      | c1 :: c2 :: c3 :: r =>
        if isCont c1 && isCont c2 && isCont c3 then
          let n := (b - 0xF0) * 262144 + (c1 - 0x80) * 4096 + (c2 - 0x80) * 64 + (c3 - 0x80)
          if n < 0x10000 then none
          else
            match mkChar n, utf8Decode r with
            | some c, some cs => some (c :: cs)
            | _, _ => none
        else none
      | _ => none
    else none

/-! ## base64 (RFC 4648), tera-contrib/src/base64.rs -/

/-- `base64::alphabet::STANDARD` -/
def stdAlphabet : List Nat :=
  -- "ABCDEFGHIJKLMNOPQRSTUVWXYZabcdefghijklmnopqrstuvwxyz0123456789+/"
  [65, 66, 67, 68, 69, 70, 71, 72, 73, 74, 75, 76, 77, 78, 79, 80,
   81, 82, 83, 84, 85, 86, 87, 88, 89, 90, 97, 98, 99, 100, 101, 102,
   103, 104, 105, 106, 107, 108, 109, 110, 111, 112, 113, 114, 115, 116, 117, 118,
   119, 120, 121, 122, 48, 49, 50, 51, 52, 53, 54, 55, 56, 57, 43, 47]

/-- `base64::alphabet::URL_SAFE` -/
def urlAlphabet : List Nat :=
  -- "ABCDEFGHIJKLMNOPQRSTUVWXYZabcdefghijklmnopqrstuvwxyz0123456789-_"
  [65, 66, 67, 68, 69, 70, 71, 72, 73, 74, 75, 76, 77, 78, 79, 80,
   81, 82, 83, 84, 85, 86, 87, 88, 89, 90, 97, 98, 99, 100, 101, 102,
   103, 104, 105, 106, 107, 108, 109, 110, 111, 112, 113, 114, 115, 116, 117, 118,
   119, 120, 121, 122, 48, 49, 50, 51, 52, 53, 54, 55, 56, 57, 45, 95]

def alphabet (urlSafe : Bool) : List Nat := if urlSafe then urlAlphabet else stdAlphabet

/-- `PAD_BYTE` -/
def PAD : Nat := 61

/-- `encode_table[i]` -/
def encSym (urlSafe : Bool) (i : Nat) : Nat := (alphabet urlSafe).getD i 0

/-- `decode_table[c]` (`none` is `INVALID_VALUE`): the table is built as the inverse of the
alphabet. -/
def decSym (urlSafe : Bool) (c : Nat) : Option Nat :=
  let i := (alphabet urlSafe).idxOf c
  if i < 64 then some i else none

/-- `Engine::encode` for the four `general_purpose` engines `b64_encode` selects:
`(false,true) ↦ STANDARD`, `(false,false) ↦ STANDARD_NO_PAD`, `(true,true) ↦ URL_SAFE`,
`(true,false) ↦ URL_SAFE_NO_PAD`. -/
def b64Encode (urlSafe padded : Bool) : List Nat → List Nat
  | a :: b :: c :: rest =>
    encSym urlSafe (a / 4) :: encSym urlSafe ((a % 4) * 16 + b / 16)
      :: encSym urlSafe ((b % 16) * 4 + c / 64) :: encSym urlSafe (c % 64)
      :: b64Encode urlSafe padded rest
  | [a, b] =>
    [encSym urlSafe (a / 4), encSym urlSafe ((a % 4) * 16 + b / 16), encSym urlSafe ((b % 16) * 4)]
      ++ (if padded then [PAD] else [])
  | [a] =>
    [encSym urlSafe (a / 4), encSym urlSafe ((a % 4) * 16)] ++ (if padded then [PAD, PAD] else [])
  | [] => []

/-- `base64::DecodeError` classes (+ the `from_utf8` failure of the filter). -/
inductive B64Err where
  | invalidByte | invalidLength | invalidLastSymbol | invalidUtf8
  deriving Repr, DecidableEq

/-- Symbols of the trailing (possibly partial, possibly padded) quad: `decode_suffix`'s loop.
Returns the morsels before the padding. `i` is the offset in the quad. -/
def suffixMorsels (urlSafe : Bool) : (i : Nat) → (seenPad : Bool) → List Nat → Except B64Err (List Nat)
  | _, _, [] => .ok []
  | i, seenPad, b :: rest =>
    if b = PAD then
      if i < 2 then .error .invalidByte
      else suffixMorsels urlSafe (i + 1) true rest
    else if seenPad then .error .invalidByte
    else
      match decSym urlSafe b with
      | none => .error .invalidByte
      | some m =>
        match suffixMorsels urlSafe (i + 1) false rest with
        | .ok ms => .ok (m :: ms)
        | .error e => .error e

/-- `decode_suffix` with `DecodePaddingMode::Indifferent` and `decode_allow_trailing_bits = false`
(the configuration of `STANDARD_DECODE` / `URL_SAFE_DECODE` in base64.rs). The input has at most
four bytes and is non-empty. -/
def decodeSuffix (urlSafe : Bool) (inp : List Nat) : Except B64Err (List Nat) :=
  match suffixMorsels urlSafe 0 false inp with
  | .error e => .error e
  | .ok ms =>
    match ms with
    | [] | [_] => .error .invalidLength
    | [s0, s1] =>
      if s1 % 16 ≠ 0 then .error .invalidLastSymbol else .ok [s0 * 4 + s1 / 16]
    | [s0, s1, s2] =>
      if s2 % 4 ≠ 0 then .error .invalidLastSymbol
      else .ok [s0 * 4 + s1 / 16, (s1 % 16) * 16 + s2 / 4]
    | s0 :: s1 :: s2 :: s3 :: _ =>
      .ok [s0 * 4 + s1 / 16, (s1 % 16) * 16 + s2 / 4, (s2 % 4) * 64 + s3]

/-- `GeneralPurpose::decode` (`decode_helper`): every quad but the last is decoded by
`decode_chunk_4/8` (four valid symbols, `=` is not one), the last one to four bytes by
`decode_suffix`. Empty input decodes to nothing. -/
def b64DecodeBytes (urlSafe : Bool) : List Nat → Except B64Err (List Nat)
  | [] => .ok []
  | a :: b :: c :: d :: e :: rest =>
    match decSym urlSafe a, decSym urlSafe b, decSym urlSafe c, decSym urlSafe d with
    | some s0, some s1, some s2, some s3 =>
      match b64DecodeBytes urlSafe (e :: rest) with
      | .ok out => .ok ((s0 * 4 + s1 / 16) :: ((s1 % 16) * 16 + s2 / 4) :: ((s2 % 4) * 64 + s3) :: out)
      | .error err => .error err
    | _, _, _, _ => .error .invalidByte
  | inp => decodeSuffix urlSafe inp

/-- The filter `b64_encode(val, url_safe, padded)` on a string. -/
def b64EncodeFilter (urlSafe padded : Bool) (s : List Char) : List Nat :=
  b64Encode urlSafe padded (utf8Encode s)

/-- The filter `b64_decode(val, url_safe)`: decode, then `String::from_utf8`. -/
def b64DecodeFilter (urlSafe : Bool) (inp : List Nat) : Except B64Err (List Char) :=
  match b64DecodeBytes urlSafe inp with
  | .error e => .error e
  | .ok bs =>
    match utf8Decode bs with
    | some cs => .ok cs
    | none => .error .invalidUtf8

/-! ## percent-encoding, tera-contrib/src/urlencode.rs -/

/-- `AsciiSet::should_percent_encode`: non-ASCII bytes always, ASCII bytes by the table. -/
def shouldEncode (set : List Bool) (b : Nat) : Bool := 128 ≤ b || set.getD b true

/-- upper-case hex digit, as in `percent_encode_byte`'s table -/
def hexUpper (n : Nat) : Nat := if n < 10 then 48 + n else 55 + n

/-- `percent_encode(bytes, set).to_string()` as bytes. -/
def percentEncode (set : List Bool) : List Nat → List Nat
  | [] => []
  | b :: rest =>
    if shouldEncode set b then 37 :: hexUpper (b / 16) :: hexUpper (b % 16) :: percentEncode set rest
    else b :: percentEncode set rest

/-- `char::to_digit(16)` on a byte -/
def hexDigitVal (c : Nat) : Option Nat :=
  if 48 ≤ c ∧ c ≤ 57 then some (c - 48)
  else if 65 ≤ c ∧ c ≤ 70 then some (c - 55)
  else if 97 ≤ c ∧ c ≤ 102 then some (c - 87)
  else none

/-- `percent_decode(bytes)` collected: `%` followed by two hex digits is one byte, every other
byte (a lone `%` included) stands for itself. -/
def percentDecode : List Nat → List Nat
  | [] => []
  | [b] => [b]
  | [b, c] => [b, c]
  | b :: h :: l :: rest =>
    if b = 37 then
      match hexDigitVal h, hexDigitVal l with
      | some x, some y => (x * 16 + y) :: percentDecode rest
      | _, _ => b :: percentDecode (h :: l :: rest)
    else b :: percentDecode (h :: l :: rest)

/-- RFC 3986 unreserved: ALPHA / DIGIT / "-" / "." / "_" / "~" -/
def isAlnum (b : Nat) : Bool := (48 ≤ b && b ≤ 57) || (65 ≤ b && b ≤ 90) || (97 ≤ b && b ≤ 122)
def isUnreserved (b : Nat) : Bool := isAlnum b || b = 45 || b = 46 || b = 95 || b = 126

def isHexUpper (b : Nat) : Bool := (48 ≤ b && b ≤ 57) || (65 ≤ b && b ≤ 70)

/-- A text made only of characters allowed by `ok` and well-formed `%XX` escapes. -/
inductive EscapedText (ok : Nat → Bool) : List Nat → Prop
  | nil : EscapedText ok []
  | plain {b rest} : ok b = true → EscapedText ok rest → EscapedText ok (b :: rest)
  | esc {h l rest} : isHexUpper h = true → isHexUpper l = true → EscapedText ok rest →
      EscapedText ok (37 :: h :: l :: rest)

/-! ## slug, tera-contrib/src/slug.rs → slug::slugify -/

/-- `push_char` of `_slugify`: state is the output so far (reversed) and `prev_is_dash`. -/
def slugPush (st : List Nat × Bool) (x : Nat) : List Nat × Bool :=
  if (97 ≤ x ∧ x ≤ 122) ∨ (48 ≤ x ∧ x ≤ 57) then (x :: st.1, false)
  else if 65 ≤ x ∧ x ≤ 90 then ((x - 65 + 97) :: st.1, false)
  else if st.2 then st else (45 :: st.1, true)

/-- the bytes fed to `push_char` for one char: itself when ASCII, else `deunicode_char(c)`
(`translit`, a parameter) with `"-"` for `None`. -/
def slugCharBytes (translit : Char → Option (List Nat)) (c : Char) : List Nat :=
  if c.toNat < 128 then [c.toNat] else (translit c).getD [45]

/-- `if slug.ends_with('-') { slug.pop(); }` on the reversed output -/
def popDash : List Nat → List Nat
  | 45 :: tl => tl
  | out => out

/-- `slug::slugify` (output as bytes; all ASCII). -/
def slugify (translit : Char → Option (List Nat)) (s : List Char) : List Nat :=
  let st := (s.flatMap (slugCharBytes translit)).foldl slugPush ([], true)
  (popDash st.1).reverse

def isSlugChar (b : Nat) : Bool := (97 ≤ b && b ≤ 122) || (48 ≤ b && b ≤ 57) || b = 45

/-- no two adjacent hyphens -/
def NoDoubleDash : List Nat → Prop
  | a :: b :: rest => ¬ (a = 45 ∧ b = 45) ∧ NoDoubleDash (b :: rest)
  | _ => True

/-! ## JSON, tera-contrib/src/json.rs → serde_json::to_string over `impl Serialize for Value` -/

def lowerHex (n : Nat) : Char := if n < 10 then Char.ofNat (48 + n) else Char.ofNat (87 + n)

/-- serde_json `format_escaped_str_contents`: `"` `\` and the C0 controls are escaped, everything
else (DEL and non-ASCII included) is written as is. -/
def jsonEscapeChar (c : Char) : List Char :=
  let n := c.toNat
  if n = 34 then ['\\', '"']
  else if n = 92 then ['\\', '\\']
  else if n = 8 then ['\\', 'b']
  else if n = 12 then ['\\', 'f']
  else if n = 10 then ['\\', 'n']
  else if n = 13 then ['\\', 'r']
  else if n = 9 then ['\\', 't']
  else if n < 32 then ['\\', 'u', '0', '0', lowerHex (n / 16), lowerHex (n % 16)]
  else [c]

def jsonString (s : List Char) : List Char := '"' :: s.flatMap jsonEscapeChar ++ ['"']

def natDigits (n : Nat) : List Char := (Nat.toDigits 10 n)
def intDigits (n : Int) : List Char := if n < 0 then '-' :: natDigits n.natAbs else natDigits n.natAbs

/-- serde_json's `MapKeySerializer`: strings as they are, bools and integers as their decimal /
`true` / `false` text, always quoted. -/
def jsonKeyText : Key → List Char
  | .bool b => if b then "true".toList else "false".toList
  | .u64 n => natDigits n
  | .i64 n => intDigits n
  | .u128 n => natDigits n
  | .i128 n => intDigits n
  | .str s => s

def intercalate (sep : List Char) : List (List Char) → List Char
  | [] => []
  | [x] => x
  | x :: y :: rest => x ++ sep ++ intercalate sep (y :: rest)

mutual
/-- `serde_json::to_string(&value)`. `fmtF` is the float printer (ryu), a parameter; non-finite
floats are written as `null` (serde_json's behaviour, outside the property). -/
def jsonWrite (fmtF : F64 → List Char) : Value → List Char
  | .undef => "null".toList
  | .none => "null".toList
  | .bool b => if b then "true".toList else "false".toList
  | .u64 n => natDigits n
  | .i64 n => intDigits n
  | .u128 n => natDigits n
  | .i128 n => intDigits n
  | .f64 x => if x.isFinite then fmtF x else "null".toList
  | .str _ s => jsonString s
  | .bytes bs => '[' :: intercalate [','] (bs.map natDigits) ++ [']']
  | .arr xs => '[' :: intercalate [','] (jsonWriteList fmtF xs) ++ [']']
  | .map es => '{' :: intercalate [','] (jsonWriteEntries fmtF es) ++ ['}']

def jsonWriteList (fmtF : F64 → List Char) : List Value → List (List Char)
  | [] => []
  | v :: vs => jsonWrite fmtF v :: jsonWriteList fmtF vs

def jsonWriteEntries (fmtF : F64 → List Char) : List (Key × Value) → List (List Char)
  | [] => []
  | (k, v) :: es => (jsonString (jsonKeyText k) ++ ':' :: jsonWrite fmtF v) :: jsonWriteEntries fmtF es
end

/-- A parsed JSON document (what a reader sees): the image the property compares with. -/
inductive Json where
  | null
  | bool (b : Bool)
  | int (n : Int)
  | float (x : F64)
  | str (s : List Char)
  | arr (xs : List Json)
  | obj (es : List (List Char × Json))
  deriving Repr, Inhabited

mutual
/-- The JSON image of a value: keys stringified, bytes as an array of numbers, none and undefined
as null. -/
def canon : Value → Json
  | .undef => .null
  | .none => .null
  | .bool b => .bool b
  | .u64 n => .int (n : Int)
  | .i64 n => .int n
  | .u128 n => .int (n : Int)
  | .i128 n => .int n
  | .f64 x => if x.isFinite then .float x else .null
  | .str _ s => .str s
  | .bytes bs => .arr (bs.map fun (b : Nat) => Json.int (b : Int))
  | .arr xs => .arr (canonList xs)
  | .map es => .obj (canonEntries es)

def canonList : List Value → List Json
  | [] => []
  | v :: vs => canon v :: canonList vs

def canonEntries : List (Key × Value) → List (List Char × Json)
  | [] => []
  | (k, v) :: es => (jsonKeyText k, canon v) :: canonEntries es
end

end Tera.Contrib
