/-
Model of tera/src/value/number.rs (arithmetic on `Value`s) and of the numeric arms of
`PartialEq`/`PartialOrd for Value` (tera/src/value/mod.rs).

Integer arithmetic is exact (`Int`) with explicit i128 range checks standing for Rust's
`checked_*`; float arithmetic is a parameter (`FloatOps`) that the driver instantiates with the
hardware operations, so every theorem about the integer paths holds for all float semantics.
-/
import TeraModel.Model.Value
namespace Tera

inductive Number where
  | int (i : Int)
  | float (x : F64)
  deriving Repr

/-- Error classes of number.rs (messages are not modelled). -/
inductive NumErr where
  | notNumber      -- "Only numbers can be used in arithmetic" / "Only numbers can be negated"
  | operandRange   -- u128 operand above i128::MAX
  | overflow       -- "Unable to perform .." / "Cannot negate"
  | divZero        -- "Cannot divide by 0"
  | expRange       -- "Exponent .. is out of range"
  deriving Repr, DecidableEq

/-- IEEE operations the model does not define. -/
structure FloatOps where
  add : F64 → F64 → F64
  sub : F64 → F64 → F64
  mul : F64 → F64 → F64
  div : F64 → F64 → F64
  remEuclid : F64 → F64 → F64
  divEuclid : F64 → F64 → F64
  powf : F64 → F64 → F64
  neg : F64 → F64

namespace Value

/-- `Value::as_number`. -/
def asNumber (v : Value) : Option Number :=
  match v with
  | .f64 x => some (.float x)
  | _ => match v.asI128 with
    | some n => some (.int n)
    | Option.none => Option.none

end Value

namespace Number

/-- `Number::into_float` / `as_float`: `i128 as f64` rounds to nearest, ties to even. -/
def toFloat : Number → F64
  | .float x => x
  | .int i => F64.ofIntRNE i

def isFloat : Number → Bool
  | .float _ => true
  | _ => false

/-- `Number::is_zero`. -/
def isZero : Number → Bool
  | .float x => x.isFinite && x.isZero
  | .int i => i == 0

end Number

/-- `arg_error`. -/
def argError (v : Value) : NumErr := if v.isNumber then .operandRange else .notNumber

/-- Rust `checked_add/sub/mul` etc. on i128: the exact result when it fits. -/
def checkedI128 (r : Int) : Option Int := if inI128 r then some r else none

/-- The `math!` macro. `iop` is the exact integer operation. -/
def mathOp (iop : Int → Int → Int) (fop : F64 → F64 → F64) (l r : Value) : Except NumErr Value :=
  match l.asNumber, r.asNumber with
  | some a, some b =>
    if a.isFloat || b.isFloat then .ok (.f64 (fop a.toFloat b.toFloat))
    else match a, b with
      | .int x, .int y => match checkedI128 (iop x y) with
        | some v => .ok (.i128 v)
        | none => .error .overflow
      | _, _ => .ok (.f64 (fop a.toFloat b.toFloat))   -- unreachable
  | none, _ => .error (argError l)
  | _, none => .error (argError r)

def add (F : FloatOps) := mathOp (· + ·) F.add
def sub (F : FloatOps) := mathOp (· - ·) F.sub
def mul (F : FloatOps) := mathOp (· * ·) F.mul

/-- Rust `i128::checked_rem_euclid`: `None` iff `b == 0` or (`a == MIN` and `b == -1`). -/
def checkedRemEuclid (a b : Int) : Option Int :=
  if b == 0 then none else if a == I128_MIN && b == -1 then none else some (a % b)

/-- Rust `i128::checked_div_euclid`. -/
def checkedDivEuclid (a b : Int) : Option Int :=
  if b == 0 then none else if a == I128_MIN && b == -1 then none else some (a / b)

/-- `number::rem` (with the `b == -1` arm of the F6 fix). -/
def rem (F : FloatOps) (l r : Value) : Except NumErr Value :=
  match l.asNumber, r.asNumber with
  | some a, some b =>
    if b.isZero then .error .divZero
    else if a.isFloat || b.isFloat then .ok (.f64 (F.remEuclid a.toFloat b.toFloat))
    else match a, b with
      | .int x, .int y => match checkedRemEuclid x y with
        | some v => .ok (.i128 v)
        | none => if y == -1 then .ok (.i128 0) else .error .overflow
      | _, _ => .ok (.f64 (F.remEuclid a.toFloat b.toFloat))
  | none, _ => .error (argError l)
  | _, none => .error (argError r)

/-- `number::floor_div`. -/
def floorDiv (F : FloatOps) (l r : Value) : Except NumErr Value :=
  match l.asNumber, r.asNumber with
  | some a, some b =>
    if b.isZero then .error .divZero
    else if a.isFloat || b.isFloat then .ok (.f64 (F.divEuclid a.toFloat b.toFloat))
    else match a, b with
      | .int x, .int y => match checkedDivEuclid x y with
        | some v => .ok (.i128 v)
        | none => .error .overflow
      | _, _ => .ok (.f64 (F.divEuclid a.toFloat b.toFloat))
  | none, _ => .error (argError l)
  | _, none => .error (argError r)

/-- `number::div`: always the float quotient. -/
def div (F : FloatOps) (l r : Value) : Except NumErr Value :=
  match l.asNumber, r.asNumber with
  | some a, some b =>
    if b.isZero then .error .divZero
    else .ok (.f64 (F.div a.toFloat b.toFloat))
  | none, _ => .error (argError l)
  | _, none => .error (argError r)

def U32_MAX : Int := 2^32 - 1

/-- Rust `i128::checked_pow(exp: u32)`: exact result when it fits.  Written so that it is
computable for exponents up to 2^32 (|a| ≥ 2 with e ≥ 128 cannot fit; for a ∈ {-1, 0, 1} only the
parity of e matters); that this is the same as `checkedI128 (a ^ e)` is `checkedPow_eq_spec` in
Props/C13. -/
def checkedPow (a : Int) (e : Nat) : Option Int :=
  if 2 ≤ a.natAbs then (if 128 ≤ e then none else checkedI128 (a ^ e))
  else if e = 0 then some 1
  else if a = -1 ∧ e % 2 = 0 then some 1
  else some a

/-- `number::pow` (with the arm for bases 0, 1 and -1 of the F6 fix). -/
def pow (F : FloatOps) (l r : Value) : Except NumErr Value :=
  match l.asNumber, r.asNumber with
  | some a, some b =>
    let negIntExp := match b with | .int y => decide (y < 0) | _ => false
    if a.isFloat || b.isFloat || negIntExp then .ok (.f64 (F.powf a.toFloat b.toFloat))
    else match a, b with
      | .int x, .int y =>
        -- `u32::try_from(b)`
        if 0 ≤ y ∧ y ≤ U32_MAX then
          match checkedPow x y.toNat with
          | some v => .ok (.i128 v)
          | none => .error .overflow
        else if -1 ≤ x ∧ x ≤ 1 then
          match checkedPow x (2 + (y % 2).toNat) with
          | some v => .ok (.i128 v)
          | none => .error .overflow
        else .error .expRange
      | _, _ => .ok (.f64 (F.powf a.toFloat b.toFloat))
  | none, _ => .error (argError l)
  | _, none => .error (argError r)

/-- `number::negate`. -/
def negate (F : FloatOps) (v : Value) : Except NumErr Value :=
  match v.asNumber with
  | some (.float x) => .ok (.f64 (F.neg x))
  | some (.int i) => match checkedI128 (-i) with
    | some n => .ok (.i128 n)
    | none => .error .overflow
  | none => if v.isNumber then .error .overflow else .error .notNumber

/-! ### Comparison (value/mod.rs) -/

def I128_MIN_F : F64 := F64.ofIntExact I128_MIN          -- `i128::MIN as f64` = -2^127 exactly
def I128_MAX_F : F64 := F64.ofIntExact ((2:Int)^127)      -- `i128::MAX as f64` rounds up to 2^127
def U128_MAX_F : F64 := F64.ofIntExact ((2:Int)^128)      -- `u128::MAX as f64` rounds up to 2^128
def ZERO_F : F64 := F64.ofIntExact 0

/-- `cmp_f64_to_i128`, written with the same float-level steps as the Rust. -/
def cmpF64ToI128 (x : F64) (n : Int) : Ordering :=
  if x.isNan then .gt
  else if F64.lt x I128_MIN_F then .lt
  else if F64.ge x I128_MAX_F then .gt
  else
    let fl := x.floor
    match cmpInt (F64.satCast I128_MIN I128_MAX fl) n with
    | .eq => if F64.gt x fl then .gt else .eq
    | o => o

/-- `cmp_f64_to_u128`. -/
def cmpF64ToU128 (x : F64) (n : Int) : Ordering :=
  if x.isNan then .gt
  else if F64.lt x ZERO_F then .lt
  else if F64.ge x U128_MAX_F then .gt
  else
    let fl := x.floor
    match cmpInt (F64.satCast 0 ((U128_MAX : Int)) fl) n with
    | .eq => if F64.gt x fl then .gt else .eq
    | o => o

/-- `cmp_f64_to_number`. -/
def cmpF64ToNumber (x : F64) (other : Value) : Option Ordering :=
  match other.asI128 with
  | some n => some (cmpF64ToI128 x n)
  | none => (other.asU128).map (cmpF64ToU128 x)

def Ordering.rev : Ordering → Ordering
  | .lt => .gt | .gt => .lt | .eq => .eq

/-- The `(F64, F64)` arm of `partial_cmp`: IEEE order, NaN equal to NaN and after everything. -/
def f64Cmp (x y : F64) : Ordering :=
  match F64.partialCmp x y with
  | some o => o
  | none => match x.isNan, y.isNan with
    | false, true => .lt
    | true, false => .gt
    | _, _ => .eq

/-- The integer × integer arm of `partial_cmp`. -/
def intPartialCmp (a b : Value) : Option Ordering :=
  match a.asU128, b.asU128 with
  | some x, some y => some (cmpInt x y)
  | some _, none => some .gt
  | none, some _ => some .lt
  | none, none => match a.asI128, b.asI128 with
    | some x, some y => some (cmpInt x y)
    | _, _ => none

/-- Numeric arms of `PartialOrd::partial_cmp` (both operands numbers; otherwise `none`). -/
def numPartialCmp (a b : Value) : Option Ordering :=
  match a, b with
  | .f64 x, .f64 y => some (f64Cmp x y)
  | .f64 x, _ => cmpF64ToNumber x b
  | _, .f64 y => (cmpF64ToNumber y a).map Ordering.rev
  | _, _ => if a.isInteger && b.isInteger then intPartialCmp a b else none

/-- The integer × integer arm of `eq`. -/
def intEq (a b : Value) : Bool :=
  match a.asU128, b.asU128 with
  | some x, some y => x == y
  | none, none => a.asI128 == b.asI128
  | _, _ => false

/-- Numeric arms of `PartialEq::eq`. -/
def numEq (a b : Value) : Bool :=
  match a, b with
  | .f64 x, .f64 y => (x.isNan && y.isNan) || F64.feq x y
  | .f64 x, _ => cmpF64ToNumber x b == some .eq
  | _, .f64 y => cmpF64ToNumber y a == some .eq
  | _, _ => if a.isInteger && b.isInteger then intEq a b else false

end Tera
