/-
Model of the registry side of `Tera` (tera/src/tera.rs): `add_raw_templates` (insert each
template remembering the previous entry, `finalize_templates`, on error undo in reverse),
the commit at the end of `finalize_templates`, `set_templates_auto_escape`, `autoescape_on`.

Derived data lives inside the `Template` structs in the Rust (`parents`, `block_lineage`,
`total_content_num_bytes`, `autoescape_enabled`), so an entry of the model's map carries them too:
a failed add must put back the old entries *with* their old derived fields.
-/
import TeraModel.Model.Finalize
namespace Tera.Reg

/-- A `Template` as stored: what the source gives (`tpl`) plus the derived fields. -/
structure Entry where
  tpl : Tpl
  parents : List String
  lineage : BlockMap
  size : Nat
  autoescape : Bool
  deriving Repr, DecidableEq

/-- `Template::new`: no parents, empty lineage, size = source length, autoescape on. -/
def Entry.fresh (t : Tpl) : Entry :=
  { tpl := t, parents := [], lineage := [], size := t.srcLen, autoescape := true }

structure State where
  templates : List Entry
  /-- `Tera.components`: component name ↦ defining template -/
  comps : List (String × String)
  suffixes : List String
  prefixes : List String
  deriving Repr, DecidableEq

/-- `Tera::default()` followed by `set_fallback_prefixes` -/
def State.init (prefixes : List String) : State :=
  { templates := [], comps := [], suffixes := [".html", ".htm", ".xml"], prefixes := prefixes }

def eget (ts : List Entry) (k : String) : Option Entry := ts.find? (fun e => e.tpl.name == k)

/-- `HashMap::insert` -/
def einsert (ts : List Entry) (e : Entry) : List Entry :=
  e :: ts.filter (fun x => !(x.tpl.name == e.tpl.name))

/-- `HashMap::remove` -/
def eremove (ts : List Entry) (k : String) : List Entry := ts.filter (fun x => !(x.tpl.name == k))

/-- One element of the batch given to `add_raw_templates`: a source `Template::new` rejects
(syntax error) or one it accepts. -/
inductive Item where
  | bad (name : String)
  | good (t : Tpl)
  deriving Repr, DecidableEq

/-- `inserted: Vec<(String, Option<Template>)>` -/
abbrev UndoLog := List (String × Option Entry)

/-- The `for (name, content) in templates` loop: returns the map, the undo log (in push order)
and whether `Template::new` failed on some element (the loop stops there). -/
def insertBatch : List Entry → UndoLog → List Item → List Entry × UndoLog × Bool
  | ts, log, [] => (ts, log, true)
  | ts, log, .bad _ :: _ => (ts, log, false)
  | ts, log, .good t :: rest =>
    insertBatch (einsert ts (Entry.fresh t)) (log ++ [(t.name, eget ts t.name)]) rest

/-- One step of the undo loop. -/
def undoOne (ts : List Entry) : String × Option Entry → List Entry
  | (_, some old) => einsert ts old
  | (key, none) => eremove ts key

/-- `for (key, previous) in inserted.into_iter().rev()` -/
def undo (ts : List Entry) (log : UndoLog) : List Entry := log.reverse.foldl undoOne ts

def lookupNat (m : List (String × Nat)) (k : String) : Option Nat :=
  (m.find? (fun e => e.1 == k)).map (·.2)

/-- third loop of `finalize_templates` followed by `set_templates_auto_escape` for one entry
(`.remove(name).unwrap()` on the three maps) -/
def commitEntry (d : Derived) (suffixes : List String) (e : Entry) : Except Err Entry :=
  match lookupNat d.sizes e.tpl.name, lookupParents d.parents e.tpl.name, tbLookup d.lineage e.tpl.name with
  | some sz, some ps, some lin =>
    .ok { tpl := e.tpl, parents := ps, lineage := lin, size := sz,
          autoescape := autoescapeFlag suffixes e.tpl.name }
  | _, _, _ => .error .panic

def commitAll (d : Derived) (suffixes : List String) : List Entry → Except Err (List Entry)
  | [] => .ok []
  | e :: es =>
    match commitEntry d suffixes e, commitAll d suffixes es with
    | .ok e', .ok es' => .ok (e' :: es')
    | .error x, _ => .error x
    | _, .error x => .error x

/-- `finalize_templates`: derive into locals, commit only when nothing failed. -/
def finalize (st : State) (o2 o3 : List String) : Except Err State :=
  match derive st.prefixes (st.templates.map (·.tpl)) o2 o3 with
  | .error e => .error e
  | .ok d =>
    match commitAll d st.suffixes st.templates with
    | .error e => .error e
    | .ok ts => .ok { st with templates := ts, comps := d.comps }

/-- `add_raw_templates`: the new state and the error, if any.  `ord2`, `ord3` choose the
`HashMap` iteration orders from the key list of the map at the time `finalize_templates` runs. -/
def addBatch (st : State) (items : List Item) (ord2 ord3 : List String → List String) :
    State × Option Err :=
  match insertBatch st.templates [] items with
  | (ts, log, false) => ({ st with templates := undo ts log }, some .syntax)
  | (ts, log, true) =>
    match finalize { st with templates := ts } (ord2 (ts.map (·.tpl.name))) (ord3 (ts.map (·.tpl.name))) with
    | .ok st' => (st', none)
    | .error e => ({ st with templates := undo ts log }, some e)

/-- `autoescape_on` -/
def autoescapeOn (st : State) (suffixes : List String) : State :=
  { st with suffixes := suffixes,
            templates := st.templates.map (fun e => { e with autoescape := autoescapeFlag suffixes e.tpl.name }) }

/-- One call of the public API that changes the registry. -/
inductive Op where
  | add (items : List Item)
  | escape (suffixes : List String)
  deriving Repr, DecidableEq

def applyOp (ord2 ord3 : List String → List String) (st : State) : Op → State
  | .add items => (addBatch st items ord2 ord3).1
  | .escape suffixes => autoescapeOn st suffixes

/-- a history of calls, applied in order -/
def runOps (ord2 ord3 : List String → List String) : State → List Op → State
  | st, [] => st
  | st, op :: rest => runOps ord2 ord3 (applyOp ord2 ord3 st op) rest

end Tera.Reg
