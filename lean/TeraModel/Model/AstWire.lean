/-
Line-protocol encoding of the AST (`Model/Ast.lean`), produced from the real parser by
`tera::verif_hooks::{ast_wire, components_wire, template_wire}` and read / written by the Lean
drivers.  Prefix coded, whitespace separated tokens (same style as `Model/Wire.lean`); every
string is the hex of its UTF-8 bytes; values inside `C` use `Wire.showValue` / `Wire.parseValue`.

  expr ::= C <value>
         | Arr<n> aentry*n            aentry ::= I expr | Sp expr
         | Map<n> mentry*n            mentry ::= KV <key as value> expr | Sp expr
         | V:<name>
         | GA0:<name> expr | GA1:<name> expr          (1 = optional `?.`)
         | GI0 expr sub   | GI1 expr sub              (1 = optional `?[`)
         | SL0 expr oexpr oexpr oexpr | SL1 …          (start end step)
         | Fil:<name> expr kwargs | Tst:<name> expr kwargs | Fn:<name> kwargs
         | Ter cond true false
         | LC expr ostr(key) n:<value name> target oexpr(condition)
         | CC0:<name> mentries nodes | CC1:<name> mentries nodes   (1 = self closing)
         | Not expr | Neg expr
         | Bin:<RustVariantName> left right
  oexpr  ::= O0 | O1 expr             ostr ::= O0 | O1 n:<hex>
  kwargs ::= K<n> (n:<name> expr)*n   (sorted by name)
  mentries ::= Map<n> mentry*n
  nodes  ::= Ns<n> node*n
  node ::= Content:<text> | Expr expr | Set0:<name> expr | Set1:<name> expr (1 = global)
         | BSet0:<name> Fs<n> expr*n nodes | BSet1:…
         | Inc:<name> | Blk:<name> nodes | For ostr(key) n:<value> target nodes(body) nodes(else)
         | Brk | Cnt | If expr nodes nodes | FS:<name> kwargs nodes
  component ::= Comp:<name> Args<n> (n:<arg> otype ovalue)*n ostr(rest) Meta<n> (n:<key> <value>)*n nodes
  otype ::= O0 | O1 T:<string|bool|…>      ovalue ::= O0 | O1 <value>
  components ::= Cs<n> component*n
  template ::= T ostr(parent) nodes components
-/
import TeraModel.Model.Ast
import TeraModel.Model.Wire
namespace Tera.AstWire
open Tera.Wire

def hexOfString (s : String) : String := hexOfStr s.toList
def stringOfHex (h : String) : Option String := (strOfHex h).map String.ofList

def flag (b : Bool) : String := if b then "1" else "0"

/-- `<p><0|1>:<hex>` → (flag, string) -/
def flagged (p : String) (t : String) : Option (Bool × String) :=
  if let some d := afterPrefix (p ++ "0:") t then (stringOfHex d).map (fun s => (false, s))
  else if let some d := afterPrefix (p ++ "1:") t then (stringOfHex d).map (fun s => (true, s))
  else none

def parseName : List String → Option (String × List String)
  | t :: rest => do
    let d ← afterPrefix "n:" t
    let s ← stringOfHex d
    pure (s, rest)
  | [] => none

def parseOptName : List String → Option (Option String × List String)
  | "O0" :: rest => some (none, rest)
  | "O1" :: rest => (parseName rest).map (fun (s, r) => (some s, r))
  | _ => none

def counted (p : String) (t : String) : Option Nat :=
  match afterPrefix p t with
  | some d => d.toNat?
  | none => none

mutual
partial def parseExpr : List String → Option (Expr × List String)
  | [] => none
  | t :: rest =>
    if t == "C" then (parseValue rest).map (fun (v, r) => (.const v, r))
    else if t == "Ter" then do
      let (c, r) ← parseExpr rest
      let (a, r) ← parseExpr r
      let (b, r) ← parseExpr r
      pure (.ternary c a b, r)
    else if t == "LC" then do
      let (e, r) ← parseExpr rest
      let (k, r) ← parseOptName r
      let (v, r) ← parseName r
      let (tg, r) ← parseExpr r
      let (c, r) ← parseOptExpr r
      pure (.listComprehension e k v tg c, r)
    else if t == "Not" then (parseExpr rest).map (fun (e, r) => (.unary .Not e, r))
    else if t == "Neg" then (parseExpr rest).map (fun (e, r) => (.unary .Minus e, r))
    else if t == "GI0" || t == "GI1" then do
      let (e, r) ← parseExpr rest
      let (s, r) ← parseExpr r
      pure (.getItem e s (t == "GI1"), r)
    else if t == "SL0" || t == "SL1" then do
      let (e, r) ← parseExpr rest
      let (a, r) ← parseOptExpr r
      let (b, r) ← parseOptExpr r
      let (c, r) ← parseOptExpr r
      pure (.slice e a b c (t == "SL1"), r)
    else if let some d := afterPrefix "V:" t then (stringOfHex d).map (fun s => (.var s, rest))
    else if let some (o, n) := flagged "GA" t then
      (parseExpr rest).map (fun (e, r) => (.getAttr e n o, r))
    else if let some d := afterPrefix "Fil:" t then do
      let n ← stringOfHex d
      let (e, r) ← parseExpr rest
      let (k, r) ← parseKwargs r
      pure (.filter e n k, r)
    else if let some d := afterPrefix "Tst:" t then do
      let n ← stringOfHex d
      let (e, r) ← parseExpr rest
      let (k, r) ← parseKwargs r
      pure (.test e n k, r)
    else if let some d := afterPrefix "Fn:" t then do
      let n ← stringOfHex d
      let (k, r) ← parseKwargs rest
      pure (.functionCall n k, r)
    else if let some d := afterPrefix "Bin:" t then do
      let op ← BinaryOperator.ofName d
      let (a, r) ← parseExpr rest
      let (b, r) ← parseExpr r
      pure (.binary op a b, r)
    else if let some (sc, n) := flagged "CC" t then do
      let (k, r) ← parseMapEntriesHdr rest
      let (b, r) ← parseNodes r
      pure (.componentCall n k b sc, r)
    else if let some n := counted "Arr" t then
      (parseArrayEntries n rest).map (fun (es, r) => (.array es, r))
    else if let some n := counted "Map" t then
      (parseMapEntries n rest).map (fun (es, r) => (.map es, r))
    else none

partial def parseOptExpr : List String → Option (Option Expr × List String)
  | "O0" :: rest => some (none, rest)
  | "O1" :: rest => (parseExpr rest).map (fun (e, r) => (some e, r))
  | _ => none

partial def parseExprs : Nat → List String → Option (List Expr × List String)
  | 0, ts => some ([], ts)
  | n+1, ts => do
    let (e, r) ← parseExpr ts
    let (es, r) ← parseExprs n r
    pure (e :: es, r)

partial def parseKwargs : List String → Option (List (String × Expr) × List String)
  | t :: rest =>
    match counted "K" t with
    | some n => parseKwargsN n rest
    | none => none
  | [] => none

partial def parseKwargsN : Nat → List String → Option (List (String × Expr) × List String)
  | 0, ts => some ([], ts)
  | n+1, ts => do
    let (name, r) ← parseName ts
    let (e, r) ← parseExpr r
    let (es, r) ← parseKwargsN n r
    pure ((name, e) :: es, r)

partial def parseArrayEntries : Nat → List String → Option (List ArrayEntry × List String)
  | 0, ts => some ([], ts)
  | n+1, ts => do
    let (x, r) ← (match ts with
      | "I" :: r => (parseExpr r).map (fun (e, r) => (ArrayEntry.item e, r))
      | "Sp" :: r => (parseExpr r).map (fun (e, r) => (ArrayEntry.spread e, r))
      | _ => none)
    let (xs, r) ← parseArrayEntries n r
    pure (x :: xs, r)

partial def parseMapEntriesHdr : List String → Option (List MapEntry × List String)
  | t :: rest =>
    match counted "Map" t with
    | some n => parseMapEntries n rest
    | none => none
  | [] => none

partial def parseMapEntries : Nat → List String → Option (List MapEntry × List String)
  | 0, ts => some ([], ts)
  | n+1, ts => do
    let (x, r) ← (match ts with
      | "KV" :: r => do
        let (kv, r) ← parseValue r
        let k ← valueToKey kv
        let (e, r) ← parseExpr r
        pure (MapEntry.keyValue k e, r)
      | "Sp" :: r => (parseExpr r).map (fun (e, r) => (MapEntry.spread e, r))
      | _ => none)
    let (xs, r) ← parseMapEntries n r
    pure (x :: xs, r)

/-- `Ns<n> node*n` -/
partial def parseNodes : List String → Option (List Node × List String)
  | t :: rest =>
    match counted "Ns" t with
    | some n => parseNodesN n rest
    | none => none
  | [] => none

partial def parseNodesN : Nat → List String → Option (List Node × List String)
  | 0, ts => some ([], ts)
  | n+1, ts => do
    let (x, r) ← parseNode ts
    let (xs, r) ← parseNodesN n r
    pure (x :: xs, r)

partial def parseNode : List String → Option (Node × List String)
  | [] => none
  | t :: rest =>
    if t == "Expr" then (parseExpr rest).map (fun (e, r) => (.expression e, r))
    else if t == "Brk" then some (.break, rest)
    else if t == "Cnt" then some (.continue, rest)
    else if t == "If" then do
      let (c, r) ← parseExpr rest
      let (a, r) ← parseNodes r
      let (b, r) ← parseNodes r
      pure (.if c a b, r)
    else if t == "For" then do
      let (k, r) ← parseOptName rest
      let (v, r) ← parseName r
      let (tg, r) ← parseExpr r
      let (a, r) ← parseNodes r
      let (b, r) ← parseNodes r
      pure (.forLoop k v tg a b, r)
    else if let some d := afterPrefix "Content:" t then
      (stringOfHex d).map (fun s => (.content s, rest))
    else if let some d := afterPrefix "Inc:" t then
      (stringOfHex d).map (fun s => (.include s, rest))
    else if let some d := afterPrefix "Blk:" t then do
      let n ← stringOfHex d
      let (b, r) ← parseNodes rest
      pure (.block n b, r)
    else if let some d := afterPrefix "FS:" t then do
      let n ← stringOfHex d
      let (k, r) ← parseKwargs rest
      let (b, r) ← parseNodes r
      pure (.filterSection n k b, r)
    else if let some (g, n) := flagged "BSet" t then
      match rest with
      | f :: r =>
        match counted "Fs" f with
        | some cnt => do
          let (fs, r) ← parseExprs cnt r
          let (b, r) ← parseNodes r
          pure (.blockSet n fs b g, r)
        | none => none
      | [] => none
    else if let some (g, n) := flagged "Set" t then
      (parseExpr rest).map (fun (e, r) => (.set n e g, r))
    else none
end

def parseOptType : List String → Option (Option ArgType × List String)
  | "O0" :: rest => some (none, rest)
  | "O1" :: t :: rest =>
    match afterPrefix "T:" t with
    | some d => (ArgType.ofStr d).map (fun ty => (some ty, rest))
    | none => none
  | _ => none

def parseOptValue : List String → Option (Option Value × List String)
  | "O0" :: rest => some (none, rest)
  | "O1" :: rest => (parseValue rest).map (fun (v, r) => (some v, r))
  | _ => none

def parseArgsN : Nat → List String → Option (List (String × ComponentArgument) × List String)
  | 0, ts => some ([], ts)
  | n+1, ts => do
    let (name, r) ← parseName ts
    let (ty, r) ← parseOptType r
    let (dv, r) ← parseOptValue r
    let (xs, r) ← parseArgsN n r
    pure ((name, { default := dv, typ := ty }) :: xs, r)

def parseMetaN : Nat → List String → Option (List (String × Value) × List String)
  | 0, ts => some ([], ts)
  | n+1, ts => do
    let (name, r) ← parseName ts
    let (v, r) ← parseValue r
    let (xs, r) ← parseMetaN n r
    pure ((name, v) :: xs, r)

def parseComponent : List String → Option (ComponentDefinition × List String)
  | t :: a :: rest => do
    let d ← afterPrefix "Comp:" t
    let name ← stringOfHex d
    let na ← counted "Args" a
    let (args, r) ← parseArgsN na rest
    let (restName, r) ← parseOptName r
    match r with
    | m :: r => do
      let nm ← counted "Meta" m
      let (md, r) ← parseMetaN nm r
      let (body, r) ← parseNodes r
      pure ({ name := name, kwargs := args, restParamName := restName, metadata := md, body := body }, r)
    | [] => none
  | _ => none

def parseComponentsN : Nat → List String → Option (List ComponentDefinition × List String)
  | 0, ts => some ([], ts)
  | n+1, ts => do
    let (c, r) ← parseComponent ts
    let (cs, r) ← parseComponentsN n r
    pure (c :: cs, r)

/-- `Cs<n> component*n` -/
def parseComponents : List String → Option (List ComponentDefinition × List String)
  | t :: rest =>
    match counted "Cs" t with
    | some n => parseComponentsN n rest
    | none => none
  | [] => none

/-- `T ostr(parent) nodes components` -/
def parseTemplate : List String → Option (Template × List String)
  | "T" :: rest => do
    let (p, r) ← parseOptName rest
    let (ns, r) ← parseNodes r
    let (cs, r) ← parseComponents r
    pure ({ parent := p, nodes := ns, componentDefinitions := cs }, r)
  | _ => none

/-! ### Printer -/

def showName (s : String) : String := "n:" ++ hexOfString s
def showOptName : Option String → String
  | none => "O0"
  | some s => "O1 " ++ showName s

def joinSp (xs : List String) : String := " ".intercalate xs

mutual
partial def showExpr : Expr → String
  | .const v => "C " ++ showValue v
  | .array items => joinSp (s!"Arr{items.length}" :: items.map showArrayEntry)
  | .map entries => showMapEntries entries
  | .var n => "V:" ++ hexOfString n
  | .getAttr e n o => s!"GA{flag o}:{hexOfString n} {showExpr e}"
  | .getItem e s o => s!"GI{flag o} {showExpr e} {showExpr s}"
  | .slice e a b c o => s!"SL{flag o} {showExpr e} {showOptExpr a} {showOptExpr b} {showOptExpr c}"
  | .filter e n k => s!"Fil:{hexOfString n} {showExpr e} {showKwargs k}"
  | .test e n k => s!"Tst:{hexOfString n} {showExpr e} {showKwargs k}"
  | .ternary c a b => s!"Ter {showExpr c} {showExpr a} {showExpr b}"
  | .listComprehension e k v t c =>
    s!"LC {showExpr e} {showOptName k} {showName v} {showExpr t} {showOptExpr c}"
  | .componentCall n k b sc => s!"CC{flag sc}:{hexOfString n} {showMapEntries k} {showNodes b}"
  | .functionCall n k => s!"Fn:{hexOfString n} {showKwargs k}"
  | .unary .Not e => "Not " ++ showExpr e
  | .unary .Minus e => "Neg " ++ showExpr e
  | .binary op l r => s!"Bin:{op.name} {showExpr l} {showExpr r}"

partial def showOptExpr : Option Expr → String
  | none => "O0"
  | some e => "O1 " ++ showExpr e

partial def showKwargs (k : List (String × Expr)) : String :=
  joinSp (s!"K{k.length}" :: k.map fun (n, e) => showName n ++ " " ++ showExpr e)

partial def showArrayEntry : ArrayEntry → String
  | .item e => "I " ++ showExpr e
  | .spread e => "Sp " ++ showExpr e

partial def showMapEntry : MapEntry → String
  | .keyValue k e => "KV " ++ showValue (keyToValue k) ++ " " ++ showExpr e
  | .spread e => "Sp " ++ showExpr e

partial def showMapEntries (es : List MapEntry) : String :=
  joinSp (s!"Map{es.length}" :: es.map showMapEntry)

partial def showNodes (ns : List Node) : String :=
  joinSp (s!"Ns{ns.length}" :: ns.map showNode)

partial def showNode : Node → String
  | .content s => "Content:" ++ hexOfString s
  | .expression e => "Expr " ++ showExpr e
  | .set n e g => s!"Set{flag g}:{hexOfString n} {showExpr e}"
  | .blockSet n fs b g =>
    joinSp ([s!"BSet{flag g}:{hexOfString n}", s!"Fs{fs.length}"] ++ fs.map showExpr ++ [showNodes b])
  | .include n => "Inc:" ++ hexOfString n
  | .block n b => s!"Blk:{hexOfString n} {showNodes b}"
  | .forLoop k v t b e => s!"For {showOptName k} {showName v} {showExpr t} {showNodes b} {showNodes e}"
  | .break => "Brk"
  | .continue => "Cnt"
  | .if c a b => s!"If {showExpr c} {showNodes a} {showNodes b}"
  | .filterSection n k b => s!"FS:{hexOfString n} {showKwargs k} {showNodes b}"
end

def showComponent (c : ComponentDefinition) : String :=
  joinSp ([s!"Comp:{hexOfString c.name}", s!"Args{c.kwargs.length}"]
    ++ c.kwargs.map (fun (n, a) =>
        showName n ++ " "
          ++ (match a.typ with | none => "O0" | some t => "O1 T:" ++ t.asStr) ++ " "
          ++ (match a.default with | none => "O0" | some v => "O1 " ++ showValue v))
    ++ [showOptName c.restParamName, s!"Meta{c.metadata.length}"]
    ++ c.metadata.map (fun (n, v) => showName n ++ " " ++ showValue v)
    ++ [showNodes c.body])

def showComponents (cs : List ComponentDefinition) : String :=
  joinSp (s!"Cs{cs.length}" :: cs.map showComponent)

def showTemplate (t : Template) : String :=
  s!"T {showOptName t.parent} {showNodes t.nodes} {showComponents t.componentDefinitions}"

end Tera.AstWire
