/-
`Chunk::optimize` (tera/src/parsing/instructions.rs:209-336): the peephole pass that fuses
`LoadName LoadAttr* [WriteTop]` into `LoadPath` / `WritePath` and re-targets jumps.

The Rust is one index loop that pushes onto `optimized` and writes `index_map[i]` as it goes.
The model computes the same thing as a list of *groups*: each iteration of the outer `while`
consumes a run of old instructions (`orig`) and pushes exactly one new instruction (`out`).
`index_map` is then "old index ↦ number of the group that consumed it", plus the one-past-the-end
entry.  The equality of this formulation with the Rust loop is what the stage diff of
harness/src/bin/c09.rs checks on every chunk of every generated template and on synthetic
instruction windows.
-/
import TeraModel.Model.Instr
namespace Tera
namespace Optimize

/-- Result of a Rust function that can panic. -/
inductive Outcome (α : Type) where
  | ok (a : α)
  | panic (site : String)
  deriving Repr, DecidableEq

/-- `is_jump_target[j]` after the marking loop (lines 224-235): the vector has `len` entries, all
false, and entry `t` is set for every operand `t < len` of a
`Jump | PopJumpIfFalse | JumpIfFalseOrPop | JumpIfTrueOrPop | Iterate`. -/
def isTarget (c : List Entry) (j : Nat) : Bool :=
  decide (j < c.length) && c.any (fun e => e.1.target? == some j)

/-- One iteration of the outer `while`: the instruction pushed onto `optimized` (before the
jump fix-up pass) and the old instructions it consumed. -/
structure Group where
  out : Entry
  orig : List Entry
  deriving Repr, DecidableEq

def attrEntry (a : String × List Span) : Entry := (.loadAttr a.1, a.2)

/-- The inner `while j < len` (lines 261-282), started at absolute index `j` on the remaining old
instructions: consecutive `LoadAttr`s none of which is a jump target.  Returns the (attribute,
spans) taken and the instructions left. -/
def collectAttrs (isT : Nat → Bool) : Nat → List Entry → List (String × List Span) × List Entry
  | _, [] => ([], [])
  | j, e :: rest =>
    if isT j then ([], e :: rest)
    else match e.1 with
      | .loadAttr a =>
        let r := collectAttrs isT (j + 1) rest
        ((a, e.2) :: r.1, r.2)
      | _ => ([], e :: rest)

/-- `has_write` (lines 287-289): `j < len && !is_jump_target[j] && old[j] is WriteTop`, where
`rest` are the old instructions from index `j` on. -/
def hasWrite (isT : Nat → Bool) (j : Nat) : List Entry → Bool
  | (.writeTop, _) :: _ => !isT j
  | _ => false

/-- The outer `while i < len` (lines 242-316).  `i` is the absolute index of the head of the list;
`fuel` bounds the number of iterations (the list length suffices: every iteration consumes at
least one instruction). -/
def loop (isT : Nat → Bool) : Nat → Nat → List Entry → List Group
  | 0, _, _ => []
  | _ + 1, _, [] => []
  | fuel + 1, i, e :: rest =>
    match e.1 with
    | .loadName n =>
      if n ≠ MAGICAL_DUMP_VAR then
        let r := collectAttrs isT (i + 1) rest
        let taken := r.1
        let rest' := r.2
        let j := i + 1 + taken.length
        let path := n :: taken.map (·.1)
        let collectedSpans := e.2 ++ taken.flatMap (·.2)
        if hasWrite isT j rest' then
          -- lines 291-297: WritePath, the WriteTop (and its spans) is consumed, i = j + 1
          ⟨(.writePath path, collectedSpans), e :: taken.map attrEntry ++ rest'.take 1⟩
            :: loop isT fuel (j + 1) (rest'.drop 1)
        else if taken.length > 0 then
          -- lines 298-302: LoadPath, i = j
          ⟨(.loadPath path, collectedSpans), e :: taken.map attrEntry⟩ :: loop isT fuel j rest'
        else
          -- lines 304-307: single LoadName, reconstructed; i += 1
          ⟨(.loadName n, collectedSpans), [e]⟩ :: loop isT fuel (i + 1) rest
      else
        ⟨e, [e]⟩ :: loop isT fuel (i + 1) rest
    | _ =>
      -- lines 310-315: no pattern matched, move original
      ⟨e, [e]⟩ :: loop isT fuel (i + 1) rest

/-- `index_map` as the loop leaves it (lines 244, 268, 293, 319): every old index consumed by the
`k`-th iteration maps to `k`; the one-past-the-end index maps to `optimized.len()`. -/
def indexMapGo : Nat → List Group → List Nat
  | k, [] => [k]
  | k, g :: gs => List.replicate g.orig.length k ++ indexMapGo (k + 1) gs

/-- The fix-up of one instruction (lines 323-332): `*target = index_map[*target]`; `none` when the
index is out of bounds (a Rust panic). -/
def remapInstr (imap : List Nat) (i : Instr) : Option Instr :=
  match i.target? with
  | none => some i
  | some t =>
    match imap[t]? with
    | some k => some (i.mapTarget (fun _ => k))
    | none => none

/-- The fix-up pass over `optimized` (lines 322-333). -/
def remap (imap : List Nat) : List Entry → Outcome (List Entry)
  | [] => .ok []
  | e :: es =>
    match remapInstr imap e.1 with
    | none => .panic "instructions.rs:329 index_map[*target]: index out of bounds"
    | some i =>
      match remap imap es with
      | .ok r => .ok ((i, e.2) :: r)
      | .panic s => .panic s

def groups (c : List Entry) : List Group := loop (isTarget c) c.length 0 c

def indexMap (c : List Entry) : List Nat := indexMapGo 0 (groups c)

/-- `Chunk::optimize` on the instruction vector. -/
def optimize (c : List Entry) : Outcome (List Entry) :=
  remap (indexMap c) ((groups c).map (·.out))

end Optimize
end Tera
