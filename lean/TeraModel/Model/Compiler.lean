/-
The bytecode compiler: tera/src/parsing/compiler.rs (`Compiler::{compile, compile_node,
compile_expr, compile_kwargs, compile_map_entries, compile_block, end_branch}`) and its use by
`Template::new` (tera/src/template.rs), WITHOUT the optimisation pass.

What is mirrored, and how
* Instructions are a typed copy of `Instruction` (instructions.rs) minus the two fused
  instructions only the optimiser makes (`LoadPath`, `WritePath`): `CInstr`.  `CInstr.toInstr`
  gives the wire form of Model/Instr.lean (`Instr`), on which the verified checker of
  Model/WellFormed.lean works.
* SPANS ARE DROPPED, except for their presence: an emitted instruction is `(instr, hasSpan)`,
  `hasSpan = true` for `chunk.add(i, Some(span))`, `false` for `chunk.add(i, None)`.
* The Rust compiler is one mutable pass that appends to `self.chunk`, back-patches the operand of
  a forward jump once the jump target is known (`processing_bodies`, `end_branch`, the explicit
  `get_mut` patches of loops), and records blocks and call sites on the side.  The model splits
  that pass into two structural recursions over the same AST, in the same order:
    - `exprCode / nodeCode / nodesCode … base loop x`: the instructions `compile_*(x)` appends when
      `self.chunk.len() == base` and `get_current_loop()` is `loop` (the index of the innermost
      `Iterate` on `processing_bodies`, `none` if there is none).  Jump operands are absolute
      instruction indices, computed from `base` and the lengths of the pieces: the back-patched
      value is written directly (the placeholder `0` never survives `compile_*` in the Rust).
    - `exprEvents / nodeEvents … inLoop depth x`: what the same call records on the side, in
      recording order: one event per `*_calls.entry(name).or_default().push(span)`, one
      `blockDef` per `self.blocks.insert` (with the block's whole chunk and whether
      `block_name_spans` got the name, i.e. `block_depth == 0`), and one `panic` event for each of
      the two sites of compiler.rs that panic on an AST (`get_current_loop().unwrap()` for a
      `continue` without a loop on `processing_bodies`, compiler.rs:591; `unreachable!()` for a
      binary `Is`/`Pipe`, compiler.rs:409).  After a panic event the rest of the model output is
      meaningless; `compileTemplate` returns `.error site` for the first one.
  `top_level_variables` / `temp_variables` are NOT modelled (no instruction, jump or table looked at
  here depends on them).
* `compile_kwargs` iterates a `HashMap<String, Expression>`: the iteration order is a parameter —
  the order of the kwargs list in the AST (`Expr.filter _ _ kwargs` …).  The shared AST wire form
  sends kwargs sorted by name; the stage diff (harness bin c07c) sends them in the real iteration
  order (`verif_hooks::compile_stage_wire`).
* `blocks: HashMap<String, Chunk>` and the five `*_calls: HashMap<String, Vec<Span>>` are
  association lists / name lists in insertion order; `HashMap::insert` semantics (a later entry of
  the same name replaces the earlier one) is `lookupLast`.
-/
import TeraModel.Model.Ast
import TeraModel.Model.Instr
namespace Tera
namespace Compiler

/-- `parsing::instructions::Instruction` as emitted by the compiler (no `LoadPath` / `WritePath`).
The 15 arithmetic / comparison instructions `Mul … In` are `binop op` (the Rust variant of
`Instruction` has the same name as the `BinaryOperator`). -/
inductive CInstr where
  | loadConst (v : Value)
  | loadName (n : String)
  | loadAttr (n : String)
  | loadAttrOpt (n : String)
  | binarySubscript
  | binarySubscriptOpt
  | slice
  | sliceOpt
  | writeText (s : String)
  | writeTop
  | set (n : String)
  | setGlobal (n : String)
  | «include» (n : String)
  | buildMap (n : Nat)
  | buildList (n : Nat)
  | buildMapWithSpreads (isSpread : List Bool)
  | buildListWithSpreads (isSpread : List Bool)
  | callFunction (n : String)
  | renderInlineComponent (n : String)
  | renderBodyComponent (n : String)
  | applyFilter (n : String)
  | runTest (n : String)
  | renderBlock (n : String)
  | jump (t : Nat)
  | popJumpIfFalse (t : Nat)
  | jumpIfFalseOrPop (t : Nat)
  | jumpIfTrueOrPop (t : Nat)
  | capture
  | endCapture
  | startIterate (keyValue : Bool)
  | startIterateComprehension (keyValue : Bool)
  | iterate (t : Nat)
  | storeLocal (n : String)
  | storeDidNotIterate
  | break_
  | popLoop
  | appendToList
  | binop (op : BinaryOperator)
  | not
  | negative
  deriving Inhabited

/-- one element of `Chunk.instructions`: the instruction and whether it was added with a span -/
abbrev CEntry := CInstr × Bool
abbrev Code := List CEntry

/-- `self.chunk.add(i, Some(span))` -/
def sp (i : CInstr) : CEntry := (i, true)
/-- `self.chunk.add(i, None)` -/
def ns (i : CInstr) : CEntry := (i, false)

/-- `Value::from(key)` for a `Key` (value/mod.rs:1286) -/
def keyValue : Key → Value
  | .bool b => .bool b
  | .u64 n => .u64 n
  | .i64 n => .i64 n
  | .u128 n => .u128 n
  | .i128 n => .i128 n
  | .str s => .str false s

/-- `Value::from(key)` for a kwarg name (`String`) -/
def nameValue (n : String) : Value := .str false n.toList

def ArrayEntry.isSpread : ArrayEntry → Bool
  | .spread _ => true
  | .item _ => false

def MapEntry.isSpread : MapEntry → Bool
  | .spread _ => true
  | .keyValue _ _ => false

/-- the instruction closing an array literal: `BuildListWithSpreads(entry_types)` if some entry is
a spread, else `BuildList(items.len())` -/
def arrayBuild (items : List ArrayEntry) : CInstr :=
  if items.any ArrayEntry.isSpread then .buildListWithSpreads (items.map ArrayEntry.isSpread)
  else .buildList items.length

/-- the instruction closing `compile_map_entries` -/
def mapBuild (entries : List MapEntry) : CInstr :=
  if entries.any MapEntry.isSpread then .buildMapWithSpreads (entries.map MapEntry.isSpread)
  else .buildMap entries.length

/-- `Set(name)` or `SetGlobal(name)` -/
def setInstr (name : String) (global : Bool) : CInstr :=
  if global then .setGlobal name else .set name

/-- `UnaryOperator::Not => Instruction::Not`, `UnaryOperator::Minus => Instruction::Negative` -/
def unaryInstr : UnaryOperator → CInstr
  | .Not => .not
  | .Minus => .negative

/-- `StoreLocal(key)` if the loop has a key variable -/
def keyStore : Option String → Code
  | some k => [ns (.storeLocal k)]
  | none => []

mutual
/-- `Compiler::compile_expr` -/
def exprCode (base : Nat) (loop : Option Nat) : Expr → Code
  | .const v => [sp (.loadConst v)]
  | .map entries => mapItemsCode base loop entries ++ [sp (mapBuild entries)]
  | .array items => arrayItemsCode base loop items ++ [sp (arrayBuild items)]
  | .var n => [sp (.loadName n)]
  | .getAttr e n opt =>
    exprCode base loop e ++ [sp (if opt then .loadAttrOpt n else .loadAttr n)]
  | .getItem e s opt =>
    let c1 := exprCode base loop e
    let c2 := exprCode (base + c1.length) loop s
    c1 ++ c2 ++ [sp (if opt then .binarySubscriptOpt else .binarySubscript)]
  | .slice e start stop step opt =>
    let c1 := exprCode base loop e
    let c2 := optExprCode (base + c1.length) loop (.loadConst .none) start
    let c3 := optExprCode (base + c1.length + c2.length) loop (.loadConst .none) stop
    let c4 := optExprCode (base + c1.length + c2.length + c3.length) loop (.loadConst (.i64 1)) step
    c1 ++ c2 ++ c3 ++ c4 ++ [sp (if opt then .sliceOpt else .slice)]
  | .filter e name kwargs =>
    let c1 := exprCode base loop e
    let c2 := kwargsCode (base + c1.length) loop kwargs
    c1 ++ c2 ++ [ns (.buildMap kwargs.length), sp (.applyFilter name)]
  | .test e name kwargs =>
    let c1 := exprCode base loop e
    let c2 := kwargsCode (base + c1.length) loop kwargs
    c1 ++ c2 ++ [ns (.buildMap kwargs.length), sp (.runTest name)]
  | .ternary c t f =>
    let cc := exprCode base loop c
    -- `idx` of `PopJumpIfFalse(0)`, patched by the first `end_branch(self.chunk.len())`
    let idx := base + cc.length
    let ct := exprCode (idx + 1) loop t
    -- `idx` of `Jump(0)`, patched by the second `end_branch`
    let idx2 := idx + 1 + ct.length
    let cf := exprCode (idx2 + 1) loop f
    cc ++ [ns (.popJumpIfFalse (idx2 + 1))] ++ ct ++ [ns (.jump (idx2 + 1 + cf.length))] ++ cf
  | .listComprehension e key value target cond =>
    let ct := exprCode (base + 1) loop target
    let pre := [sp (.buildList 0)] ++ ct
      ++ [ns (.startIterateComprehension key.isSome), ns (.storeLocal value)] ++ keyStore key
    let startIdx := base + pre.length
    -- between `Iterate` and the closing `Jump(start_idx)`:
    -- `[cond; PopJumpIfFalse(→ the closing Jump);] expr; AppendToList`
    let cc := condCode (startIdx + 1) loop cond
    -- index after the `PopJumpIfFalse(0)` of the condition (if there is one)
    let exprIdx := startIdx + 1 + cc.length + (if cond.isSome then 1 else 0)
    let ce := exprCode exprIdx loop e
    -- `jump_back_target = self.chunk.len()` after `AppendToList`
    let skip := if cond.isSome then [ns (.popJumpIfFalse (exprIdx + ce.length + 1))] else []
    let body := cc ++ skip ++ ce ++ [ns .appendToList]
    let loopEnd := startIdx + 1 + body.length + 1
    pre ++ [ns (.iterate loopEnd)] ++ body ++ [ns (.jump startIdx), ns .popLoop]
  | .componentCall name kwargs body selfClosing =>
    let cap := if selfClosing then [] else
      [ns .capture] ++ nodesCode (base + 1) loop body ++ [sp .endCapture]
    let kw := mapItemsCode (base + cap.length) loop kwargs
    cap ++ kw ++ [ns (mapBuild kwargs),
      sp (if selfClosing then .renderInlineComponent name else .renderBodyComponent name)]
  | .functionCall name kwargs =>
    kwargsCode base loop kwargs ++ [ns (.buildMap kwargs.length), sp (.callFunction name)]
  | .unary op e =>
    exprCode base loop e ++ [sp (unaryInstr op)]
  | .binary op l r =>
    match op with
    | .And | .Or =>
      let cl := exprCode base loop l
      -- index of the `JumpIf…OrPop(0)` on the `ShortCircuit` entry, patched to `end`
      let idx := base + cl.length
      let cr := exprCode (idx + 1) loop r
      cl ++ [ns ((if op = .And then CInstr.jumpIfFalseOrPop else CInstr.jumpIfTrueOrPop)
              (idx + 1 + cr.length))] ++ cr
    -- `unreachable!()` (compiler.rs:409) is hit before anything is emitted
    | .Is | .Pipe => []
    | _ =>
      let cl := exprCode base loop l
      let cr := exprCode (base + cl.length) loop r
      cl ++ cr ++ [sp (.binop op)]

/-- `if let Some(c) = list_comp.condition { compile_expr(c) }` (the `PopJumpIfFalse` after it is
emitted by the caller) -/
def condCode (base : Nat) (loop : Option Nat) : Option Expr → Code
  | some c => exprCode base loop c
  | none => []

/-- `if let Some(x) = slice.x { compile_expr(x) } else { add(LoadConst(default), None) }` -/
def optExprCode (base : Nat) (loop : Option Nat) (dflt : CInstr) : Option Expr → Code
  | some e => exprCode base loop e
  | none => [ns dflt]

/-- the loop of `compile_kwargs` (without the closing `BuildMap(num_args)`), kwargs in iteration
order -/
def kwargsCode (base : Nat) (loop : Option Nat) : List (String × Expr) → Code
  | [] => []
  | (k, v) :: rest =>
    let c := [sp (.loadConst (nameValue k))] ++ exprCode (base + 1) loop v
    c ++ kwargsCode (base + c.length) loop rest

/-- the loop over the items of an array literal (both arms of the Rust compile every entry: in
the arm without spreads every entry is an `Item`) -/
def arrayItemsCode (base : Nat) (loop : Option Nat) : List ArrayEntry → Code
  | [] => []
  | .item e :: rest =>
    let c := exprCode base loop e
    c ++ arrayItemsCode (base + c.length) loop rest
  | .spread e :: rest =>
    let c := exprCode base loop e
    c ++ arrayItemsCode (base + c.length) loop rest

/-- the loop of `compile_map_entries` (without the closing instruction; in the arm without spreads
every entry is a `KeyValue`) -/
def mapItemsCode (base : Nat) (loop : Option Nat) : List MapEntry → Code
  | [] => []
  | .keyValue k v :: rest =>
    let c := [sp (.loadConst (keyValue k))] ++ exprCode (base + 1) loop v
    c ++ mapItemsCode (base + c.length) loop rest
  | .spread e :: rest =>
    let c := exprCode base loop e
    c ++ mapItemsCode (base + c.length) loop rest

/-- the filter chain of a set block: `for expr in b.filters { if let Expression::Filter(f) = expr
{ compile_kwargs; ApplyFilter } }` — the source expression of the filter node is not compiled,
anything that is not a filter node is skipped -/
def filtersCode (base : Nat) (loop : Option Nat) : List Expr → Code
  | [] => []
  | .filter _ name kwargs :: rest =>
    let c := kwargsCode base loop kwargs ++ [ns (.buildMap kwargs.length), sp (.applyFilter name)]
    c ++ filtersCode (base + c.length) loop rest
  | _ :: rest => filtersCode base loop rest

/-- `Compiler::compile_node` -/
def nodeCode (base : Nat) (loop : Option Nat) : Node → Code
  | .content text => [ns (.writeText text)]
  | .expression e => exprCode base loop e ++ [ns .writeTop]
  | .set name value global => exprCode base loop value ++ [ns (setInstr name global)]
  | .blockSet name filters body global =>
    let cb := nodesCode (base + 1) loop body
    -- `capture_span = b.filters.first().map(|f| f.span().clone())`
    let cf := filtersCode (base + 1 + cb.length + 1) loop filters
    [ns .capture] ++ cb ++ [(.endCapture, !filters.isEmpty)] ++ cf ++ [ns (setInstr name global)]
  | .include name => [sp (.include name)]
  -- `compile_block`: the body goes to a chunk of its own (see `nodeEvents`)
  | .block name _ => [ns (.renderBlock name)]
  | .forLoop key value target body elseBody =>
    let ct := exprCode base loop target
    let pre := ct ++ [ns (.startIterate key.isSome), ns (.storeLocal value)] ++ keyStore key
    let startIdx := base + pre.length
    let cb := nodesCode (startIdx + 1) (some startIdx) body
    -- `loop_end = self.chunk.len()` after `Jump(start_idx)`
    let loopEnd := startIdx + 1 + cb.length + 1
    let hasElse := !elseBody.isEmpty
    let main := pre ++ [ns (.iterate loopEnd)] ++ cb ++ [ns (.jump startIdx)]
      ++ (if hasElse then [ns .storeDidNotIterate] else []) ++ [ns .popLoop]
    if hasElse then
      let idx := base + main.length
      let ce := nodesCode (idx + 1) loop elseBody
      main ++ [ns (.popJumpIfFalse (idx + 1 + ce.length))] ++ ce
    else main
  | .break => [ns .break_]
  | .continue =>
    match loop with
    | some idx => [ns (.jump idx)]
    -- `get_current_loop().unwrap()` panics (compiler.rs:591), see `nodeEvents`
    | none => []
  | .if c body falseBody =>
    let cc := exprCode base loop c
    let idx := base + cc.length
    let cb := nodesCode (idx + 1) loop body
    if falseBody.isEmpty then
      cc ++ [ns (.popJumpIfFalse (idx + 1 + cb.length))] ++ cb
    else
      let idx2 := idx + 1 + cb.length
      let cf := nodesCode (idx2 + 1) loop falseBody
      cc ++ [ns (.popJumpIfFalse (idx2 + 1))] ++ cb ++ [ns (.jump (idx2 + 1 + cf.length))] ++ cf
  | .filterSection name kwargs body =>
    let cb := nodesCode (base + 1) loop body
    let ck := kwargsCode (base + 1 + cb.length + 1) loop kwargs
    [ns .capture] ++ cb ++ [sp .endCapture] ++ ck
      ++ [ns (.buildMap kwargs.length), sp (.applyFilter name), ns .writeTop]

/-- `for node in nodes { self.compile_node(node) }` -/
def nodesCode (base : Nat) (loop : Option Nat) : List Node → Code
  | [] => []
  | n :: rest =>
    let c := nodeCode base loop n
    c ++ nodesCode (base + c.length) loop rest
end

/-! ### What the pass records on the side -/

inductive Event where
  | filterCall (n : String)
  | testCall (n : String)
  | functionCall (n : String)
  | includeCall (n : String)
  | componentCall (n : String)
  /-- `self.blocks.insert(name, chunk)`; `topLevel`: `block_name_spans.insert(name, span)` too -/
  | blockDef (name : String) (chunk : Code) (topLevel : Bool)
  /-- the compiler panics here (site = file:line) -/
  | panic (site : String)
  deriving Inhabited

mutual
/-- what `compile_expr` records, in order; `inLoop`: `get_current_loop().is_some()`; `depth`:
`self.block_depth` -/
def exprEvents (inLoop : Bool) (depth : Nat) : Expr → List Event
  | .const _ => []
  | .map entries => mapItemsEvents inLoop depth entries
  | .array items => arrayItemsEvents inLoop depth items
  | .var _ => []
  | .getAttr e _ _ => exprEvents inLoop depth e
  | .getItem e s _ => exprEvents inLoop depth e ++ exprEvents inLoop depth s
  | .slice e start stop step _ =>
    exprEvents inLoop depth e ++ optExprEvents inLoop depth start ++ optExprEvents inLoop depth stop
      ++ optExprEvents inLoop depth step
  | .filter e name kwargs =>
    exprEvents inLoop depth e ++ kwargsEvents inLoop depth kwargs ++ [.filterCall name]
  | .test e name kwargs =>
    exprEvents inLoop depth e ++ kwargsEvents inLoop depth kwargs ++ [.testCall name]
  | .ternary c t f =>
    exprEvents inLoop depth c ++ exprEvents inLoop depth t ++ exprEvents inLoop depth f
  | .listComprehension e _ _ target cond =>
    exprEvents inLoop depth target ++ optExprEvents inLoop depth cond ++ exprEvents inLoop depth e
  | .componentCall name kwargs body selfClosing =>
    [.componentCall name]
      ++ (if selfClosing then [] else nodesEvents inLoop depth body)
      ++ mapItemsEvents inLoop depth kwargs
  | .functionCall name kwargs => kwargsEvents inLoop depth kwargs ++ [.functionCall name]
  | .unary _ e => exprEvents inLoop depth e
  | .binary op l r =>
    match op with
    | .Is | .Pipe => [.panic "compiler.rs:409"]
    | _ => exprEvents inLoop depth l ++ exprEvents inLoop depth r

def optExprEvents (inLoop : Bool) (depth : Nat) : Option Expr → List Event
  | some e => exprEvents inLoop depth e
  | none => []

def kwargsEvents (inLoop : Bool) (depth : Nat) : List (String × Expr) → List Event
  | [] => []
  | (_, v) :: rest => exprEvents inLoop depth v ++ kwargsEvents inLoop depth rest

def arrayItemsEvents (inLoop : Bool) (depth : Nat) : List ArrayEntry → List Event
  | [] => []
  | .item e :: rest => exprEvents inLoop depth e ++ arrayItemsEvents inLoop depth rest
  | .spread e :: rest => exprEvents inLoop depth e ++ arrayItemsEvents inLoop depth rest

def mapItemsEvents (inLoop : Bool) (depth : Nat) : List MapEntry → List Event
  | [] => []
  | .keyValue _ v :: rest => exprEvents inLoop depth v ++ mapItemsEvents inLoop depth rest
  | .spread e :: rest => exprEvents inLoop depth e ++ mapItemsEvents inLoop depth rest

def filtersEvents (inLoop : Bool) (depth : Nat) : List Expr → List Event
  | [] => []
  | .filter _ name kwargs :: rest =>
    kwargsEvents inLoop depth kwargs ++ [.filterCall name] ++ filtersEvents inLoop depth rest
  | _ :: rest => filtersEvents inLoop depth rest

/-- what `compile_node` records, in order -/
def nodeEvents (inLoop : Bool) (depth : Nat) : Node → List Event
  | .content _ => []
  | .expression e => exprEvents inLoop depth e
  | .set _ value _ => exprEvents inLoop depth value
  | .blockSet _ filters body _ => nodesEvents inLoop depth body ++ filtersEvents inLoop depth filters
  | .include name => [.includeCall name]
  -- `compile_block`: fresh chunk, `processing_bodies` taken away (no current loop), depth + 1
  | .block name body =>
    nodesEvents false (depth + 1) body ++ [.blockDef name (nodesCode 0 none body) (depth == 0)]
  | .forLoop _ _ target body elseBody =>
    exprEvents inLoop depth target ++ nodesEvents true depth body ++ nodesEvents inLoop depth elseBody
  | .break => []
  | .continue => if inLoop then [] else [.panic "compiler.rs:591"]
  | .if c body falseBody =>
    exprEvents inLoop depth c ++ nodesEvents inLoop depth body ++ nodesEvents inLoop depth falseBody
  | .filterSection name kwargs body =>
    nodesEvents inLoop depth body ++ kwargsEvents inLoop depth kwargs ++ [.filterCall name]

def nodesEvents (inLoop : Bool) (depth : Nat) : List Node → List Event
  | [] => []
  | n :: rest => nodeEvents inLoop depth n ++ nodesEvents inLoop depth rest
end

/-! ### `Template::new` -/

def Event.isPanic : Event → Option String
  | .panic s => some s
  | _ => none

def Event.isBlock : Event → Bool
  | .blockDef _ _ _ => true
  | _ => false

def firstPanic (evs : List Event) : Option String := evs.findSome? Event.isPanic

def filterCalls (evs : List Event) : List String :=
  evs.filterMap fun | .filterCall n => some n | _ => none
def testCalls (evs : List Event) : List String :=
  evs.filterMap fun | .testCall n => some n | _ => none
def functionCalls (evs : List Event) : List String :=
  evs.filterMap fun | .functionCall n => some n | _ => none
def includeCalls (evs : List Event) : List String :=
  evs.filterMap fun | .includeCall n => some n | _ => none
def componentCalls (evs : List Event) : List String :=
  evs.filterMap fun | .componentCall n => some n | _ => none
/-- `blocks`, in insertion order -/
def blockDefs (evs : List Event) : List (String × Code) :=
  evs.filterMap fun | .blockDef n c _ => some (n, c) | _ => none
/-- keys of `block_name_spans`, in insertion order -/
def topBlocks (evs : List Event) : List String :=
  evs.filterMap fun | .blockDef n _ true => some n | _ => none

/-- `HashMap::get` after a sequence of `insert`s -/
def lookupLast (name : String) : List (String × Code) → Option Code
  | [] => none
  | (n, c) :: rest =>
    match lookupLast name rest with
    | some c' => some c'
    | none => if n = name then some c else none

/-- what `body_compiler.compile(parser_output.nodes)` records -/
def bodyEvents (t : Template) : List Event := nodesEvents false 0 t.nodes
/-- what the fresh `Compiler` of a component definition records -/
def componentEvents (c : ComponentDefinition) : List Event := nodesEvents false 0 c.body
/-- everything recorded while `Template::new` runs -/
def allEvents (t : Template) : List Event :=
  bodyEvents t ++ t.componentDefinitions.flatMap componentEvents

/-- The fields of `Template` (template.rs) that come out of the compiler, before
`Chunk::optimize`. -/
structure Compiled where
  /-- `chunk` -/
  main : Code
  /-- `blocks` (of the body compiler only: the blocks of a component's compiler are dropped),
  insertion order -/
  blocks : List (String × Code)
  /-- keys of `block_name_spans` -/
  blockNames : List String
  /-- `components`: name and chunk per definition, in definition order (collected into a
  `HashMap`: a later definition of the same name replaces the earlier one) -/
  components : List (String × Code)
  /-- keys (with repetitions, recording order) of the five call tables, body first, then each
  component definition (`entry(name).or_default().extend(spans)`) -/
  filterCalls : List String
  testCalls : List String
  functionCalls : List String
  includeCalls : List String
  componentCalls : List String

/-- `Template::new` after a successful parse, up to the optimisation pass; `.error site` when the
compiler panics. -/
def compileTemplate (t : Template) : Except String Compiled :=
  match firstPanic (allEvents t) with
  | some site => .error site
  | none =>
    let evs := allEvents t
    .ok {
      main := nodesCode 0 none t.nodes
      blocks := blockDefs (bodyEvents t)
      blockNames := topBlocks (bodyEvents t)
      components := t.componentDefinitions.map fun c => (c.name, nodesCode 0 none c.body)
      filterCalls := filterCalls evs
      testCalls := testCalls evs
      functionCalls := functionCalls evs
      includeCalls := includeCalls evs
      componentCalls := componentCalls evs }

/-- every chunk of the template: main, blocks, component bodies -/
def Compiled.chunks (c : Compiled) : List Code :=
  c.main :: (c.blocks.map (·.2) ++ c.components.map (·.2))

/-! ### The syntactic precondition the parser guarantees (parser.rs `body_contexts`)

`break` / `continue` only with a `for` body around them and no capture (filter section, set block,
component-call body) or block in between (parser.rs:1586-1616); no binary `Is` / `Pipe` node (the
parser turns them into `Test` / `Filter`); no block inside a component definition
(parser.rs:1515).  The stage diff evaluates `templateScoped` on every AST the real parser
produces. -/

mutual
def exprScoped : Expr → Bool
  | .const _ => true
  | .map entries => mapItemsScoped entries
  | .array items => arrayItemsScoped items
  | .var _ => true
  | .getAttr e _ _ => exprScoped e
  | .getItem e s _ => exprScoped e && exprScoped s
  | .slice e start stop step _ =>
    exprScoped e && optExprScoped start && optExprScoped stop && optExprScoped step
  | .filter e _ kwargs => exprScoped e && kwargsScoped kwargs
  | .test e _ kwargs => exprScoped e && kwargsScoped kwargs
  | .ternary c t f => exprScoped c && exprScoped t && exprScoped f
  | .listComprehension e _ _ target cond => exprScoped target && optExprScoped cond && exprScoped e
  | .componentCall _ kwargs body selfClosing =>
    (selfClosing || nodesScoped false body) && mapItemsScoped kwargs
  | .functionCall _ kwargs => kwargsScoped kwargs
  | .unary _ e => exprScoped e
  | .binary op l r =>
    match op with
    | .Is | .Pipe => false
    | _ => exprScoped l && exprScoped r

def optExprScoped : Option Expr → Bool
  | some e => exprScoped e
  | none => true

def kwargsScoped : List (String × Expr) → Bool
  | [] => true
  | (_, v) :: rest => exprScoped v && kwargsScoped rest

def arrayItemsScoped : List ArrayEntry → Bool
  | [] => true
  | .item e :: rest => exprScoped e && arrayItemsScoped rest
  | .spread e :: rest => exprScoped e && arrayItemsScoped rest

def mapItemsScoped : List MapEntry → Bool
  | [] => true
  | .keyValue _ v :: rest => exprScoped v && mapItemsScoped rest
  | .spread e :: rest => exprScoped e && mapItemsScoped rest

def filtersScoped : List Expr → Bool
  | [] => true
  | .filter _ _ kwargs :: rest => kwargsScoped kwargs && filtersScoped rest
  | _ :: rest => filtersScoped rest

/-- `inLoop`: a `for` body is around this node with nothing but `if`s in between -/
def nodeScoped (inLoop : Bool) : Node → Bool
  | .content _ => true
  | .expression e => exprScoped e
  | .set _ value _ => exprScoped value
  | .blockSet _ filters body _ => nodesScoped false body && filtersScoped filters
  | .include _ => true
  | .block _ body => nodesScoped false body
  | .forLoop _ _ target body elseBody =>
    exprScoped target && nodesScoped true body && nodesScoped inLoop elseBody
  | .break => inLoop
  | .continue => inLoop
  | .if c body falseBody => exprScoped c && nodesScoped inLoop body && nodesScoped inLoop falseBody
  | .filterSection _ kwargs body => nodesScoped false body && kwargsScoped kwargs

def nodesScoped (inLoop : Bool) : List Node → Bool
  | [] => true
  | n :: rest => nodeScoped inLoop n && nodesScoped inLoop rest
end

def templateScoped (t : Template) : Bool :=
  nodesScoped false t.nodes
    && t.componentDefinitions.all fun c =>
        nodesScoped false c.body && !(componentEvents c).any Event.isBlock

/-! ### Wire form of the emitted instructions (Model/Instr.lean, Model/InstrWire.lean)

The payload encoders (hex of a name, wire text of a constant) are parameters: no theorem depends
on them, the driver passes the real ones. -/

structure Enc where
  name : String → String
  value : Value → String

def digitChar (d : Nat) : Char := Char.ofNat (48 + d)

/-- decimal digits of a `usize` (`{n}` in the dump hook) -/
def natDec (n : Nat) : List Char :=
  if n < 10 then [digitChar n] else natDec (n / 10) ++ [digitChar (n % 10)]
termination_by n
decreasing_by omega

def flagsText (l : List Bool) : String := String.ofList (l.map fun b => if b then 't' else 'f')
def boolText (b : Bool) : String := if b then "t" else "f"

/-- `verif_hooks::bc_instr_wire` -/
def CInstr.toInstr (enc : Enc) : CInstr → Instr
  | .loadConst v => .other "LoadConst" (enc.value v)
  | .loadName n => .loadName n
  | .loadAttr n => .loadAttr n
  | .loadAttrOpt n => .other "LoadAttrOpt" (enc.name n)
  | .binarySubscript => .other "BinarySubscript" ""
  | .binarySubscriptOpt => .other "BinarySubscriptOpt" ""
  | .slice => .other "Slice" ""
  | .sliceOpt => .other "SliceOpt" ""
  | .writeText s => .other "WriteText" (enc.name s)
  | .writeTop => .writeTop
  | .set n => .other "Set" (enc.name n)
  | .setGlobal n => .other "SetGlobal" (enc.name n)
  | .include n => .other "Include" (enc.name n)
  | .buildMap n => .other "BuildMap" (String.ofList (natDec n))
  | .buildList n => .other "BuildList" (String.ofList (natDec n))
  | .buildMapWithSpreads l => .other "BuildMapWithSpreads" (flagsText l)
  | .buildListWithSpreads l => .other "BuildListWithSpreads" (flagsText l)
  | .callFunction n => .other "CallFunction" (enc.name n)
  | .renderInlineComponent n => .other "RenderInlineComponent" (enc.name n)
  | .renderBodyComponent n => .other "RenderBodyComponent" (enc.name n)
  | .applyFilter n => .other "ApplyFilter" (enc.name n)
  | .runTest n => .other "RunTest" (enc.name n)
  | .renderBlock n => .other "RenderBlock" (enc.name n)
  | .jump t => .jump t
  | .popJumpIfFalse t => .popJumpIfFalse t
  | .jumpIfFalseOrPop t => .jumpIfFalseOrPop t
  | .jumpIfTrueOrPop t => .jumpIfTrueOrPop t
  | .capture => .other "Capture" ""
  | .endCapture => .other "EndCapture" ""
  | .startIterate kv => .other "StartIterate" (boolText kv)
  | .startIterateComprehension kv => .other "StartIterateComprehension" (boolText kv)
  | .iterate t => .iterate t
  | .storeLocal n => .other "StoreLocal" (enc.name n)
  | .storeDidNotIterate => .other "StoreDidNotIterate" ""
  | .break_ => .other "Break" ""
  | .popLoop => .other "PopLoop" ""
  | .appendToList => .other "AppendToList" ""
  | .binop op => .other op.name ""
  | .not => .other "Not" ""
  | .negative => .other "Negative" ""

/-- a chunk in the form the checker of Model/WellFormed.lean reads (span presence as the opaque
tag `s`) -/
def toEntries (enc : Enc) (c : Code) : List Entry :=
  c.map fun e => (e.1.toInstr enc, if e.2 then ["s"] else [])

end Compiler
end Tera
