/-
Model of tera/src/args.rs: which value kinds each typed argument (`ArgFromValue` impl) accepts,
with the error kind on refusal, and `Kwargs::get / must_get`.

Error classes (tera/src/errors.rs): `InvalidArgument` (wrong kind), `OutOfRangeArgument` (right
kind, does not fit the integer type), `MissingArgument` (`must_get` of an absent key), `Msg`
(everything built with `Error::message`).  Messages are not modelled.
-/
import TeraModel.Model.Number
namespace Tera.Args
open Tera

inductive BErr where
  | invalidArg
  | outOfRange
  | missingArg
  | msg
  deriving Repr, DecidableEq

/-- The argument types that occur in the signatures of the built-ins (the generated table
`Generated.Builtins.*Sigs` uses the Rust spelling given by `ArgTy.rust`). -/
inductive ArgTy where
  | str        -- `&str`
  | cowStr     -- `Cow<'_, str>`
  | value      -- `Value`
  | valueRef   -- `&Value`
  | slice      -- `&[Value]`
  | map        -- `&Map`
  | f64        -- `f64`
  | number     -- `Number`
  | bool       -- `bool`
  | usize | u32 | i32 | i128
  | none       -- functions have no receiver
  deriving Repr, DecidableEq

def ArgTy.rust : ArgTy → String
  | .str => "&str" | .cowStr => "Cow<str>" | .value => "Value" | .valueRef => "&Value"
  | .slice => "&[Value]" | .map => "&Map" | .f64 => "f64" | .number => "Number" | .bool => "bool"
  | .usize => "usize" | .u32 => "u32" | .i32 => "i32" | .i128 => "i128" | .none => "-"

def USIZE_MAX : Int := 2^64 - 1      -- 64-bit targets
def U32_MAX' : Int := 2^32 - 1
def I32_MIN : Int := -(2:Int)^31
def I32_MAX : Int := 2^31 - 1

/-- Bounds of the integer argument types. -/
def ArgTy.bounds : ArgTy → Option (Int × Int)
  | .usize => some (0, USIZE_MAX)
  | .u32 => some (0, U32_MAX')
  | .i32 => some (I32_MIN, I32_MAX)
  | .i128 => some (I128_MIN, I128_MAX)
  | _ => Option.none

/-- `v.trunc() == v` for a float, with the integer it then denotes when finite. -/
inductive FloatIntegral where
  | notIntegral          -- NaN or a fractional part: the match guard fails
  | infinite             -- ±inf: `trunc == self` holds but it fits nothing
  | int (n : Int)

def floatIntegral : F64 → FloatIntegral
  | .nan => .notIntegral
  | .inf _ => .infinite
  | x@(.fin ..) => if x.fractIsZero then .int x.truncInt else .notIntegral

/-- `int_from_value::<T>` with `T`'s bounds `lo..=hi`. -/
def intFromValue (lo hi : Int) (v : Value) : Except BErr Int :=
  match v with
  | .f64 x =>
    match floatIntegral x with
    | .notIntegral => .error .invalidArg
    | .infinite => .error .outOfRange
    | .int n =>
      -- `*v >= i128::MIN as f64 && *v < i128::MAX as f64`, then `T::try_from(*v as i128)`
      if I128_MIN ≤ n ∧ n < (2:Int)^127 then (if lo ≤ n ∧ n ≤ hi then .ok n else .error .outOfRange)
      else .error .outOfRange
  | _ =>
    match v.intVal with
    | some n => if lo ≤ n ∧ n ≤ hi then .ok n else .error .outOfRange
    | Option.none => .error .invalidArg

/-- `<&str as ArgFromValue>::from_value`. -/
def strFromValue : Value → Except BErr (List Char)
  | .str _ s => .ok s
  | _ => .error .invalidArg

/-- `<bool as ArgFromValue>::from_value`. -/
def boolFromValue : Value → Except BErr Bool
  | .bool b => .ok b
  | _ => .error .invalidArg

/-- `<f64 as ArgFromValue>::from_value`: every number, integers rounded to nearest. -/
def f64FromValue (v : Value) : Except BErr F64 :=
  match v with
  | .f64 x => .ok x
  | _ => match v.intVal with
    | some n => .ok (F64.ofIntRNE n)
    | Option.none => .error .invalidArg

/-- `<Number as ArgFromValue>::from_value`. -/
def numberFromValue (v : Value) : Except BErr Number :=
  match v.asNumber with
  | some n => .ok n
  | Option.none => if v.isNumber then .error .msg else .error .invalidArg

def mapFromValue : Value → Except BErr (List (Key × Value))
  | .map es => .ok es
  | _ => .error .invalidArg

def sliceFromValue : Value → Except BErr (List Value)
  | .arr xs => .ok xs
  | _ => .error .invalidArg

/-- Does the typed extraction succeed?  (`ok ()` or the error class.) -/
def ArgTy.check (t : ArgTy) (v : Value) : Except BErr Unit :=
  match t with
  | .str => (strFromValue v).map fun _ => ()
  | .cowStr | .value | .valueRef | .none => .ok ()
  | .slice => (sliceFromValue v).map fun _ => ()
  | .map => (mapFromValue v).map fun _ => ()
  | .f64 => (f64FromValue v).map fun _ => ()
  | .number => (numberFromValue v).map fun _ => ()
  | .bool => (boolFromValue v).map fun _ => ()
  | .usize => (intFromValue 0 USIZE_MAX v).map fun _ => ()
  | .u32 => (intFromValue 0 U32_MAX' v).map fun _ => ()
  | .i32 => (intFromValue I32_MIN I32_MAX v).map fun _ => ()
  | .i128 => (intFromValue I128_MIN I128_MAX v).map fun _ => ()

/-- Keyword arguments: `Map` keyed by `Key::Str`; the harness never sends two entries with the
same name. -/
abbrev Kwargs := List (String × Value)

def Kwargs.find (kw : Kwargs) (name : String) : Option Value :=
  match kw with
  | [] => Option.none
  | (k, v) :: rest => if k = name then some v else Kwargs.find rest name

/-- `Kwargs::get::<T>`. -/
def kwGet {α : Type} (conv : Value → Except BErr α) (kw : Kwargs) (name : String) : Except BErr (Option α) :=
  match kw.find name with
  | some v => (conv v).map some
  | Option.none => .ok Option.none

/-- `Kwargs::must_get::<T>`. -/
def kwMust {α : Type} (conv : Value → Except BErr α) (kw : Kwargs) (name : String) : Except BErr α :=
  match kwGet conv kw name with
  | .ok (some a) => .ok a
  | .ok Option.none => .error .missingArg
  | .error e => .error e

end Tera.Args
