/-
A reference JSON *reader* (recursive descent on `List Char`), the inverse direction of the compact
writer `jsonWrite` in `Model/Contrib.lean`. It is not a model of any Rust code: it is the
specification-side reader against which the round trip "read (write v) = canon v" is stated
(`Props/C20Json.lean`). Float tokens are handed to a parameter `parseF` (a correctly rounding
decimal reader), exactly as the writer takes the float printer as a parameter.

Grammar (RFC 8259 without whitespace):
* `null`, `true`, `false`;
* numbers: the maximal run of characters from `-+0123456789.eE`; when the run is an optional `-`
  followed by one or more digits it is an integer (`Json.int`), otherwise the run goes to `parseF`
  and gives `Json.float`;
* strings `"…"` with the escapes `\"` `\\` `\/` `\b` `\f` `\n` `\r` `\t` `\uXXXX` (four hex digits
  of either case, surrogates D800 to DFFF rejected), raw characters below U+0020 rejected, every
  other character literal;
* arrays `[v,v,…]`, `[]`; objects `{"k":v,…}`, `{}` giving the members as an association list in
  text order (duplicates kept).
The whole text has to be consumed.
-/
import TeraModel.Model.Contrib
namespace Tera.Contrib

/-- characters a number token is made of -/
def isNumChar (c : Char) : Bool :=
  c.isDigit || c == '-' || c == '+' || c == '.' || c == 'e' || c == 'E'

/-- value of one hex digit (either case) -/
def hexVal (c : Char) : Option Nat :=
  let n := c.toNat
  if 48 ≤ n ∧ n ≤ 57 then some (n - 48)
  else if 97 ≤ n ∧ n ≤ 102 then some (n - 87)
  else if 65 ≤ n ∧ n ≤ 70 then some (n - 55)
  else none

/-- the character of `\uXXXX`; surrogates are rejected -/
def hex4 (a b c d : Char) : Option Char :=
  match hexVal a, hexVal b, hexVal c, hexVal d with
  | some a, some b, some c, some d =>
    let n := ((a * 16 + b) * 16 + c) * 16 + d
    if 0xD800 ≤ n ∧ n ≤ 0xDFFF then none else some (Char.ofNat n)
  | _, _, _, _ => none

/-- the character a one-letter escape `\e` stands for -/
def unescape (e : Char) : Option Char :=
  if e = '"' then some '"'
  else if e = '\\' then some '\\'
  else if e = '/' then some '/'
  else if e = 'b' then some (Char.ofNat 8)
  else if e = 'f' then some (Char.ofNat 12)
  else if e = 'n' then some '\n'
  else if e = 'r' then some '\r'
  else if e = 't' then some '\t'
  else none

/-- String contents after the opening quote: the decoded text and what follows the closing
quote. -/
def readStr : List Char → Option (List Char × List Char)
  | [] => none
  | c :: cs =>
    if c = '"' then some ([], cs)
    else if c = '\\' then
      match cs with
      | [] => none
      | e :: cs1 =>
        if e = 'u' then
          match cs1 with
          | h1 :: h2 :: h3 :: h4 :: cs2 =>
            match hex4 h1 h2 h3 h4 with
            | none => none
            | some ch =>
              match readStr cs2 with
              | none => none
              | some (s, r) => some (ch :: s, r)
          | _ => none
        else
          match unescape e with
          | none => none
          | some ch =>
            match readStr cs1 with
            | none => none
            | some (s, r) => some (ch :: s, r)
    else if c.toNat < 32 then none
    else
      match readStr cs with
      | none => none
      | some (s, r) => some (c :: s, r)

/-- one or more decimal digits -/
def readNat (ds : List Char) : Option Nat :=
  if !ds.isEmpty && ds.all Char.isDigit then
    some (ds.foldl (fun acc c => 10 * acc + (c.toNat - 48)) 0)
  else none

/-- an optional `-` followed by one or more digits -/
def readInt (tok : List Char) : Option Int :=
  match tok with
  | [] => none
  | c :: ds =>
    if c = '-' then
      match readNat ds with
      | some n => some (-(n : Int))
      | none => none
    else
      match readNat tok with
      | some n => some (n : Int)
      | none => none

/-- A number token: integer when it looks like one, otherwise whatever `parseF` makes of it. -/
def readNumber (parseF : List Char → Option F64) (tok : List Char) : Option Json :=
  match readInt tok with
  | some n => some (.int n)
  | none =>
    match parseF tok with
    | some x => some (.float x)
    | none => none

/-- `dropPrefix p cs = some r` iff `cs = p ++ r`. -/
def dropPrefix : List Char → List Char → Option (List Char)
  | [], cs => some cs
  | _ :: _, [] => none
  | p :: ps, c :: cs => if p = c then dropPrefix ps cs else none

mutual
/-- one value at the head of the text, and the rest -/
def readValue (parseF : List Char → Option F64) : Nat → List Char → Option (Json × List Char)
  | 0, _ => none
  | fuel + 1, cs =>
    match cs with
    | [] => none
    | c :: rest =>
      if isNumChar c then
        match readNumber parseF (cs.takeWhile isNumChar) with
        | some j => some (j, cs.dropWhile isNumChar)
        | none => none
      else if c = '"' then
        match readStr rest with
        | some (s, r) => some (.str s, r)
        | none => none
      else if c = '[' then
        match rest with
        | [] => none
        | d :: r =>
          if d = ']' then some (.arr [], r)
          else
            match readElems parseF fuel rest with
            | some (js, r') => some (.arr js, r')
            | none => none
      else if c = '{' then
        match rest with
        | [] => none
        | d :: r =>
          if d = '}' then some (.obj [], r)
          else
            match readMembers parseF fuel rest with
            | some (ms, r') => some (.obj ms, r')
            | none => none
      else if c = 'n' then
        match dropPrefix ['u', 'l', 'l'] rest with
        | some r => some (.null, r)
        | none => none
      else if c = 't' then
        match dropPrefix ['r', 'u', 'e'] rest with
        | some r => some (.bool true, r)
        | none => none
      else if c = 'f' then
        match dropPrefix ['a', 'l', 's', 'e'] rest with
        | some r => some (.bool false, r)
        | none => none
      else none

/-- `v,v,…,v]` (at least one element), after the opening bracket -/
def readElems (parseF : List Char → Option F64) :
    Nat → List Char → Option (List Json × List Char)
  | 0, _ => none
  | fuel + 1, cs =>
    match readValue parseF fuel cs with
    | none => none
    | some (j, r) =>
      match r with
      | [] => none
      | d :: r1 =>
        if d = ',' then
          match readElems parseF fuel r1 with
          | some (js, r2) => some (j :: js, r2)
          | none => none
        else if d = ']' then some ([j], r1)
        else none

/-- `"k":v,…,"k":v}` (at least one member), after the opening brace -/
def readMembers (parseF : List Char → Option F64) :
    Nat → List Char → Option (List (List Char × Json) × List Char)
  | 0, _ => none
  | fuel + 1, cs =>
    match cs with
    | [] => none
    | q :: cs1 =>
      if q = '"' then
        match readStr cs1 with
        | none => none
        | some (k, cs2) =>
          match cs2 with
          | [] => none
          | col :: cs3 =>
            if col = ':' then
              match readValue parseF fuel cs3 with
              | none => none
              | some (j, r) =>
                match r with
                | [] => none
                | d :: r1 =>
                  if d = ',' then
                    match readMembers parseF fuel r1 with
                    | some (ms, r2) => some ((k, j) :: ms, r2)
                    | none => none
                  else if d = '}' then some ([(k, j)], r1)
                  else none
            else none
      else none
end

/-- Read a whole JSON text (nothing may follow the value). The recursion fuel `text.length + 1`
is enough for every text the descent can accept, since each recursive call is made after at least
one character has been consumed (proved: `jsonRead_fuel_adequate` in Props/C20Json.lean). -/
def jsonRead (parseF : List Char → Option F64) (text : List Char) : Option Json :=
  match readValue parseF (text.length + 1) text with
  | some (j, []) => some j
  | _ => none

/-- What the round trip assumes of the float printer / float reader pair (serde_json + ryu on the
writing side, a correctly rounding decimal reader on the reading side): the text of a finite float
is a non-empty number token that does not look like an integer, and it reads back as the same
float. -/
structure FloatText (fmtF : F64 → List Char) (parseF : List Char → Option F64) : Prop where
  numChars : ∀ x, x.isFinite = true → ∀ c ∈ fmtF x, isNumChar c = true
  nonempty : ∀ x, x.isFinite = true → fmtF x ≠ []
  notInt : ∀ x, x.isFinite = true → ∃ c ∈ fmtF x, c = '.' ∨ c = 'e' ∨ c = 'E'
  readBack : ∀ x, x.isFinite = true → parseF (fmtF x) = some x

end Tera.Contrib
