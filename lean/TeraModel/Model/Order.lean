/-
Model of `impl PartialEq / PartialOrd / Ord for Value` (tera/src/value/mod.rs) on the nested
`Tera.Value`.

* numeric arms delegate to `numEq` / `numPartialCmp` (Model/Number.lean, proved exact in C13);
* `Arc<Vec<Value>>`, `Vec<u8>`, `str` comparisons are the std slice algorithms (lexicographic,
  first non-equal pair decides, then the lengths);
* a map is an association list; `HashMap == HashMap` is std's "same length and every entry of
  the left is found, with an equal value, in the right", `HashMap::get` being `Map.get`
  (first entry whose key is `==`; see Model/Lookup.lean for why the hash does not matter);
* `Ord::cmp` is written as in the source *after* the F7 repair: `partial_cmp` first, then
  same-kind arrays element-wise by `cmp`, maps by their key-sorted entries, then `type_order`.

All functions are structural recursions over `Value` / `List Value` / `List (Key × Value)`.
The map arm of `cmp` sorts the entries before comparing them, which is not a structural
recursion on the map itself; it is written by first *decorating* every entry `(k, v)` of the left
map with the comparison closure `cmp v` (structural), then sorting and zipping.
`Value.cmp_map_eq` (Lemmas/OrderBasic.lean) shows this equals the plain
`lexCmp entryCmp (sortEntriesK a) (sortEntriesK b)`.
-/
import TeraModel.Model.Number
import TeraModel.Model.KeyModel
namespace Tera

/-- `HashMap::get` on an association list: the value of the first entry whose key is `==`. -/
def Map.get {β : Type} (k : KeyRepr) : List (Key × β) → Option β
  | [] => none
  | (k', v) :: rest => if KeyRepr.eq k'.toRepr k then some v else Map.get k rest

/-- `entries.sort_by(|x, y| x.0.cmp(y.0))`. -/
def sortEntriesK {β : Type} (es : List (Key × β)) : List (Key × β) :=
  sortBy (fun x y => Key.cmpK x.1 y.1) es

/-- `Vec<(&Key, f)>` against `Vec<(&Key, &Value)>`: tuple `cmp` is key first, then value. -/
def lexDecorated : List (Key × (Value → Ordering)) → List (Key × Value) → Ordering
  | [], [] => .eq
  | [], _ :: _ => .lt
  | _ :: _, [] => .gt
  | (k1, f) :: r1, (k2, v2) :: r2 =>
    match Key.cmpK k1 k2 with
    | .eq =>
      match f v2 with
      | .eq => lexDecorated r1 r2
      | o => o
    | o => o

namespace Value

/-- `type_order` inside `Ord::cmp`, ranks read from the source by the translator. -/
def typeOrder : Value → Nat
  | .undef => Gen.valueRankUndefined
  | .none => Gen.valueRankNone
  | .bool _ => Gen.valueRankBool
  | .u64 _ => Gen.valueRankU64
  | .i64 _ => Gen.valueRankI64
  | .u128 _ => Gen.valueRankU128
  | .i128 _ => Gen.valueRankI128
  | .f64 _ => Gen.valueRankF64
  | .str .. => Gen.valueRankString
  | .arr _ => Gen.valueRankArray
  | .map _ => Gen.valueRankMap
  | .bytes _ => Gen.valueRankBytes

mutual
/-- `impl PartialEq for Value`. -/
def eqV : Value → Value → Bool
  | .undef, .undef => true
  | .none, .none => true
  | .bool a, .bool b => a == b
  | .arr xs, .arr ys => eqList xs ys
  | .bytes a, .bytes b => a == b
  | .str _ a, .str _ b => a == b
  | .map a, .map b => a.length == b.length && eqEntries a b
  | a, b => numEq a b
/-- `Vec<Value> == Vec<Value>`: same length and element-wise `==`. -/
def eqList : List Value → List Value → Bool
  | [], [] => true
  | x :: xs, y :: ys => eqV x y && eqList xs ys
  | _, _ => false
/-- `self.iter().all(|(k, v)| other.get(k).map_or(false, |v2| *v == *v2))`. -/
def eqEntries : List (Key × Value) → List (Key × Value) → Bool
  | [], _ => true
  | (k, v) :: rest, other =>
    (match Map.get k.toRepr other with
     | some v2 => eqV v v2
     | Option.none => false) && eqEntries rest other
end

mutual
/-- `impl PartialOrd for Value`. -/
def partialCmp : Value → Value → Option Ordering
  | .undef, .undef => some .eq
  | .none, .none => some .eq
  | .bool a, .bool b => some (cmpBool a b)
  | .arr xs, .arr ys => partialCmpList xs ys
  | .bytes a, .bytes b => some (lexCmp cmpNat a b)
  | .str _ a, .str _ b => some (cmpStr a b)
  | a, b => numPartialCmp a b
/-- `[Value]::partial_cmp`: the first pair that is not `Some(Equal)` decides (possibly `None`),
then the lengths. -/
def partialCmpList : List Value → List Value → Option Ordering
  | [], [] => some .eq
  | [], _ :: _ => some .lt
  | _ :: _, [] => some .gt
  | x :: xs, y :: ys =>
    match partialCmp x y with
    | some .eq => partialCmpList xs ys
    | o => o
end

mutual
/-- `impl Ord for Value`. -/
def cmp (a b : Value) : Ordering :=
  match partialCmp a b with
  | some res => res
  | Option.none =>
    match a, b with
    | .arr xs, .arr ys => cmpList xs ys
    | .map x, .map y => lexDecorated (sortEntriesK (decorate x)) (sortEntriesK y)
    | _, _ => cmpNat a.typeOrder b.typeOrder
/-- `a.iter().cmp(b.iter())`. -/
def cmpList : List Value → List Value → Ordering
  | [], [] => .eq
  | [], _ :: _ => .lt
  | _ :: _, [] => .gt
  | x :: xs, y :: ys =>
    match cmp x y with
    | .eq => cmpList xs ys
    | o => o
/-- every entry of the left map paired with "compare my value with …" -/
def decorate : List (Key × Value) → List (Key × (Value → Ordering))
  | [] => []
  | (k, v) :: rest => (k, cmp v) :: decorate rest
end

/-- Tuple comparison of two map entries: `(k1, v1).cmp(&(k2, v2))`. -/
def entryCmp (e1 e2 : Key × Value) : Ordering :=
  match Key.cmpK e1.1 e2.1 with
  | .eq => cmp e1.2 e2.2
  | o => o

end Value
end Tera
