/-
Mirror of the line-quoting code of tera/src/reporting.rs: `get_line_starts` (4-8) and
`SourceLocation::new` (18-51).  Indexing a `Vec` out of range, `start_line - 1` on 0 and
slicing a `str` off a boundary are `.panic` outcomes.
-/
import TeraModel.Model.Lexer
namespace Tera.Report
open Tera Utf8 Lexer

/-- `source.match_indices('\n').map(|(i, _)| i + 1)` starting at byte index `i` -/
def newlineStarts : Bytes → Nat → List Nat
  | [], _ => []
  | b :: t, i => if b = 0x0A then (i + 1) :: newlineStarts t (i + 1) else newlineStarts t (i + 1)

/-- `get_line_starts` -/
def getLineStarts (source : Bytes) : List Nat := 0 :: newlineStarts source 0

/-- `str::trim_end_matches('\n')` -/
def trimEndNewlines (s : Bytes) : Bytes := (s.reverse.dropWhile (· = 0x0A)).reverse

/-- the first `n` chars of `line` mapped to tab / space (reporting.rs:30-35) -/
def underlinePad : Nat → Bytes → Bytes
  | 0, _ => []
  | _, [] => []
  | n + 1, b :: t =>
    if isCont b then underlinePad (n + 1) t
    else (if b = 0x09 then 0x09 else 0x20) :: underlinePad n t

/-- `SourceLocation::new(source, span)`: the quoted line and the underline -/
def sourceLocation (source : Bytes) (span : Span) : Res (Bytes × Bytes) :=
  let lineStarts := getLineStarts source
  let startLine := span.startLine
  let startCol := span.startCol
  if startLine = 0 then .panic "reporting.rs:23 start_line - 1 underflow / index out of range"
  else
    let raw : Res Bytes :=
      if startLine = lineStarts.length then
        match lineStarts[startLine - 1]? with
        | none => .panic "reporting.rs:23 line_starts[start_line - 1]"
        | some a =>
          match sliceFrom? source a with
          | none => .panic "reporting.rs:23 &source[a..]"
          | some l => .ok l
      else
        match lineStarts[startLine - 1]? with
        | none => .panic "reporting.rs:25 line_starts[start_line - 1]"
        | some a =>
          match lineStarts[startLine]? with
          | none => .panic "reporting.rs:25 line_starts[start_line]"
          | some b =>
            match slice? source a b with
            | none => .panic "reporting.rs:25 &source[a..b]"
            | some l => .ok l
    match raw with
    | .panic s => .panic s
    | .ok l =>
      let line := trimEndNewlines l
      let width := if span.endCol > startCol then span.endCol - startCol else 1
      .ok (line, underlinePad startCol line ++ List.replicate width 0x5E)

/-- the span of `Parser::eoi()` (parser.rs:167-176, "the EOI is after the current span"): a copy of
`current_span` with the fields moved to its end that the source says (`Generated.eoi*`, read from
the Rust on every run) -/
def eoiSpan (cur : Span) : Span :=
  { startLine := if Generated.eoiMovesLine then cur.endLine else cur.startLine,
    startCol := if Generated.eoiMovesCol then cur.endCol else cur.startCol,
    endLine := cur.endLine, endCol := cur.endCol,
    rangeStart := if Generated.eoiCollapsesRange then cur.rangeEnd else cur.rangeStart,
    rangeEnd := cur.rangeEnd }

end Tera.Report
