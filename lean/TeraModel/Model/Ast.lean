/-
The abstract syntax tree of tera/src/parsing/ast.rs, without spans.

`Tera.Expr` mirrors `Expression`, `Tera.Node` mirrors `Node`, `Tera.ComponentDefinition` mirrors
`ComponentDefinition`, `Tera.Template` mirrors `ParserOutput`.  Field order follows the Rust structs.

Conventions:
* identifiers, filter/test/function/component names and template text are `String`;
* `kwargs: HashMap<String, Expression>` (filters, tests, functions, filter sections) are
  association lists SORTED BY NAME (strictly increasing: the parser rejects a repeated name), which
  is the canonical form the Rust dump (`verif_hooks::ast_wire`) emits and `Expr.sortKwargs` builds;
* `BTreeMap`s of a component definition are association lists in key order;
* `Const` carries a `Tera.Value`; a constant map is an association list in `Key` order without
  repeated keys (what `Wire.showValue` / harness `wire::encode` use).
-/
import TeraModel.Model.Value
namespace Tera

/-- `ast::UnaryOperator` -/
inductive UnaryOperator where
  | Not | Minus
  deriving Repr, DecidableEq, Inhabited

/-- `ast::BinaryOperator` (19 constructors, same order as the Rust enum) -/
inductive BinaryOperator where
  | Mul | Div | Mod | Plus | Minus | FloorDiv | Power
  | LessThan | GreaterThan | LessThanOrEqual | GreaterThanOrEqual | Equal | NotEqual
  | And | Or | StrConcat | In
  | Is | Pipe
  deriving Repr, DecidableEq, Inhabited

namespace BinaryOperator
/-- every constructor, in declaration order -/
def all : List BinaryOperator :=
  [Mul, Div, Mod, Plus, Minus, FloorDiv, Power, LessThan, GreaterThan, LessThanOrEqual,
   GreaterThanOrEqual, Equal, NotEqual, And, Or, StrConcat, In, Is, Pipe]

/-- Rust variant name -/
def name : BinaryOperator → String
  | Mul => "Mul" | Div => "Div" | Mod => "Mod" | Plus => "Plus" | Minus => "Minus"
  | FloorDiv => "FloorDiv" | Power => "Power" | LessThan => "LessThan"
  | GreaterThan => "GreaterThan" | LessThanOrEqual => "LessThanOrEqual"
  | GreaterThanOrEqual => "GreaterThanOrEqual" | Equal => "Equal" | NotEqual => "NotEqual"
  | And => "And" | Or => "Or" | StrConcat => "StrConcat" | In => "In" | Is => "Is" | Pipe => "Pipe"

def ofName (s : String) : Option BinaryOperator := all.find? (fun o => o.name == s)

/-- `impl Display for BinaryOperator` (the source spelling) -/
def symbol : BinaryOperator → String
  | Mul => "*" | Power => "**" | Div => "/" | FloorDiv => "//" | Mod => "%" | Plus => "+"
  | Minus => "-" | LessThan => "<" | GreaterThan => ">" | LessThanOrEqual => "<="
  | GreaterThanOrEqual => ">=" | Equal => "==" | NotEqual => "!=" | And => "and" | Or => "or"
  | StrConcat => "~" | In => "in" | Is => "is" | Pipe => "|"
end BinaryOperator

/-- `ast::Type` (component argument types) -/
inductive ArgType where
  | String | Bool | Integer | Float | Number | Array | Map | Bytes
  deriving Repr, DecidableEq, Inhabited

namespace ArgType
def all : List ArgType := [String, Bool, Integer, Float, Number, Array, Map, Bytes]
/-- `Type::as_str` -/
def asStr : ArgType → _root_.String
  | String => "string" | Bool => "bool" | Integer => "integer" | Float => "float"
  | Number => "number" | Array => "array" | Map => "map" | Bytes => "bytes"
def ofStr (s : _root_.String) : Option ArgType := all.find? (fun t => t.asStr == s)
end ArgType

mutual
/-- `ast::Expression` -/
inductive Expr where
  /-- `Const(Spanned<Value>)` -/
  | const (v : Value)
  /-- `Array { items }` -/
  | array (items : List ArrayEntry)
  /-- `Map { entries }` -/
  | map (entries : List MapEntry)
  /-- `Var { name }` -/
  | var (name : String)
  /-- `GetAttr { expr, name, optional }` -/
  | getAttr (expr : Expr) (name : String) (optional : Bool)
  /-- `GetItem { expr, sub_expr, optional }` -/
  | getItem (expr : Expr) (subExpr : Expr) (optional : Bool)
  /-- `Slice { expr, start, end, step, optional }` -/
  | slice (expr : Expr) (start : Option Expr) (stop : Option Expr) (step : Option Expr)
      (optional : Bool)
  /-- `Filter { expr, name, kwargs }` (kwargs sorted by name) -/
  | filter (expr : Expr) (name : String) (kwargs : List (String × Expr))
  /-- `Test { expr, name, kwargs }` (kwargs sorted by name) -/
  | test (expr : Expr) (name : String) (kwargs : List (String × Expr))
  /-- `Ternary { expr, true_expr, false_expr }`: `true_expr if expr else false_expr` -/
  | ternary (expr : Expr) (trueExpr : Expr) (falseExpr : Expr)
  /-- `ListComprehension { expr, key, value, target, condition }` -/
  | listComprehension (expr : Expr) (key : Option String) (value : String) (target : Expr)
      (condition : Option Expr)
  /-- `ComponentCall { name, kwargs, body, self_closing }` -/
  | componentCall (name : String) (kwargs : List MapEntry) (body : List Node)
      (selfClosing : Bool)
  /-- `FunctionCall { name, kwargs }` (kwargs sorted by name) -/
  | functionCall (name : String) (kwargs : List (String × Expr))
  /-- `UnaryOperation { op, expr }` -/
  | unary (op : UnaryOperator) (expr : Expr)
  /-- `BinaryOperation { op, left, right }` -/
  | binary (op : BinaryOperator) (left : Expr) (right : Expr)

/-- `ast::ArrayEntry` -/
inductive ArrayEntry where
  | item (e : Expr)
  | spread (e : Expr)

/-- `ast::MapEntry` -/
inductive MapEntry where
  | keyValue (key : Key) (value : Expr)
  | spread (e : Expr)

/-- `ast::Node` -/
inductive Node where
  /-- `Content(String)` -/
  | content (text : String)
  /-- `Expression(Expression)` -/
  | expression (e : Expr)
  /-- `Set { name, value, global }` -/
  | set (name : String) (value : Expr) (global : Bool)
  /-- `BlockSet { name, filters, body, global }`; every filter is a `Expr.filter` whose source is
  `const none` -/
  | blockSet (name : String) (filters : List Expr) (body : List Node) (global : Bool)
  /-- `Include { name }` -/
  | «include» (name : String)
  /-- `Block { name, body }` -/
  | block (name : String) (body : List Node)
  /-- `ForLoop { key, value, target, body, else_body }` -/
  | forLoop (key : Option String) (value : String) (target : Expr) (body : List Node)
      (elseBody : List Node)
  | «break»
  | «continue»
  /-- `If { expr, body, false_body }` -/
  | «if» (expr : Expr) (body : List Node) (falseBody : List Node)
  /-- `FilterSection { name, kwargs, body }` (kwargs sorted by name) -/
  | filterSection (name : String) (kwargs : List (String × Expr)) (body : List Node)
end

instance : Inhabited Expr := ⟨.const .none⟩
instance : Inhabited ArrayEntry := ⟨.item default⟩
instance : Inhabited MapEntry := ⟨.spread default⟩
instance : Inhabited Node := ⟨.break⟩

/-- `ast::ComponentArgument { default, typ }` -/
structure ComponentArgument where
  default : Option Value
  typ : Option ArgType
  deriving Inhabited

/-- `ast::ComponentDefinition` (`kwargs`, `metadata`: BTreeMaps, in key order) -/
structure ComponentDefinition where
  name : String
  kwargs : List (String × ComponentArgument)
  restParamName : Option String
  metadata : List (String × Value)
  body : List Node
  deriving Inhabited

/-- `parser::ParserOutput` -/
structure Template where
  parent : Option String
  nodes : List Node
  componentDefinitions : List ComponentDefinition
  deriving Inhabited

/-! ### Structural (boolean) equality

`deriving DecidableEq` does not go through the nested occurrences (`List (String × Expr)`,
`Option Expr`), and `Value` has no `BEq` in the shared model, so equality is written by hand as
structurally recursive functions over the mutual block. -/

mutual
def Value.astBeq : Value → Value → Bool
  | .undef, .undef => true
  | .none, .none => true
  | .bool a, .bool b => a == b
  | .u64 a, .u64 b => a == b
  | .i64 a, .i64 b => a == b
  | .u128 a, .u128 b => a == b
  | .i128 a, .i128 b => a == b
  | .f64 a, .f64 b => decide (a = b)
  | .str s a, .str t b => s == t && a == b
  | .arr a, .arr b => Value.astBeqList a b
  | .map a, .map b => Value.astBeqEntries a b
  | .bytes a, .bytes b => a == b
  | _, _ => false
def Value.astBeqList : List Value → List Value → Bool
  | [], [] => true
  | a :: as, b :: bs => Value.astBeq a b && Value.astBeqList as bs
  | _, _ => false
def Value.astBeqEntries : List (Key × Value) → List (Key × Value) → Bool
  | [], [] => true
  | (k, a) :: as, (l, b) :: bs => decide (k = l) && Value.astBeq a b && Value.astBeqEntries as bs
  | _, _ => false
end

def Value.astBeqOpt : Option Value → Option Value → Bool
  | none, none => true
  | some a, some b => Value.astBeq a b
  | _, _ => false

mutual
def Expr.beq : Expr → Expr → Bool
  | .const a, .const b => Value.astBeq a b
  | .array a, .array b => ArrayEntry.beqList a b
  | .map a, .map b => MapEntry.beqList a b
  | .var a, .var b => a == b
  | .getAttr e n o, .getAttr e' n' o' => Expr.beq e e' && n == n' && o == o'
  | .getItem e s o, .getItem e' s' o' => Expr.beq e e' && Expr.beq s s' && o == o'
  | .slice e a b c o, .slice e' a' b' c' o' =>
    Expr.beq e e' && Expr.beqOpt a a' && Expr.beqOpt b b' && Expr.beqOpt c c' && o == o'
  | .filter e n k, .filter e' n' k' => Expr.beq e e' && n == n' && Expr.beqKwargs k k'
  | .test e n k, .test e' n' k' => Expr.beq e e' && n == n' && Expr.beqKwargs k k'
  | .ternary c t f, .ternary c' t' f' => Expr.beq c c' && Expr.beq t t' && Expr.beq f f'
  | .listComprehension e k v t c, .listComprehension e' k' v' t' c' =>
    Expr.beq e e' && k == k' && v == v' && Expr.beq t t' && Expr.beqOpt c c'
  | .componentCall n k b s, .componentCall n' k' b' s' =>
    n == n' && MapEntry.beqList k k' && Node.beqList b b' && s == s'
  | .functionCall n k, .functionCall n' k' => n == n' && Expr.beqKwargs k k'
  | .unary o e, .unary o' e' => decide (o = o') && Expr.beq e e'
  | .binary o l r, .binary o' l' r' => decide (o = o') && Expr.beq l l' && Expr.beq r r'
  | _, _ => false
def Expr.beqOpt : Option Expr → Option Expr → Bool
  | none, none => true
  | some a, some b => Expr.beq a b
  | _, _ => false
def Expr.beqList : List Expr → List Expr → Bool
  | [], [] => true
  | a :: as, b :: bs => Expr.beq a b && Expr.beqList as bs
  | _, _ => false
def Expr.beqKwargs : List (String × Expr) → List (String × Expr) → Bool
  | [], [] => true
  | (n, a) :: as, (m, b) :: bs => n == m && Expr.beq a b && Expr.beqKwargs as bs
  | _, _ => false
def ArrayEntry.beq : ArrayEntry → ArrayEntry → Bool
  | .item a, .item b => Expr.beq a b
  | .spread a, .spread b => Expr.beq a b
  | _, _ => false
def ArrayEntry.beqList : List ArrayEntry → List ArrayEntry → Bool
  | [], [] => true
  | a :: as, b :: bs => ArrayEntry.beq a b && ArrayEntry.beqList as bs
  | _, _ => false
def MapEntry.beq : MapEntry → MapEntry → Bool
  | .keyValue k a, .keyValue l b => decide (k = l) && Expr.beq a b
  | .spread a, .spread b => Expr.beq a b
  | _, _ => false
def MapEntry.beqList : List MapEntry → List MapEntry → Bool
  | [], [] => true
  | a :: as, b :: bs => MapEntry.beq a b && MapEntry.beqList as bs
  | _, _ => false
def Node.beq : Node → Node → Bool
  | .content a, .content b => a == b
  | .expression a, .expression b => Expr.beq a b
  | .set n v g, .set n' v' g' => n == n' && Expr.beq v v' && g == g'
  | .blockSet n f b g, .blockSet n' f' b' g' =>
    n == n' && Expr.beqList f f' && Node.beqList b b' && g == g'
  | .include a, .include b => a == b
  | .block n b, .block n' b' => n == n' && Node.beqList b b'
  | .forLoop k v t b e, .forLoop k' v' t' b' e' =>
    k == k' && v == v' && Expr.beq t t' && Node.beqList b b' && Node.beqList e e'
  | .break, .break => true
  | .continue, .continue => true
  | .if c b f, .if c' b' f' => Expr.beq c c' && Node.beqList b b' && Node.beqList f f'
  | .filterSection n k b, .filterSection n' k' b' =>
    n == n' && Expr.beqKwargs k k' && Node.beqList b b'
  | _, _ => false
def Node.beqList : List Node → List Node → Bool
  | [], [] => true
  | a :: as, b :: bs => Node.beq a b && Node.beqList as bs
  | _, _ => false
end

instance : BEq Value := ⟨Value.astBeq⟩
instance : BEq Expr := ⟨Expr.beq⟩
instance : BEq ArrayEntry := ⟨ArrayEntry.beq⟩
instance : BEq MapEntry := ⟨MapEntry.beq⟩
instance : BEq Node := ⟨Node.beq⟩

namespace Expr

/-- `Expression::is_literal` -/
def isLiteral : Expr → Bool
  | .const _ => true
  | _ => false

/-- `Expression::as_value` -/
def asValue : Expr → Option Value
  | .const v => some v
  | _ => none

/-- Insert into a name-sorted kwargs list (the caller has already rejected repeated names, so an
equal name cannot occur; it would be replaced, as `HashMap::insert` does). -/
def insertKwarg (name : String) (e : Expr) : List (String × Expr) → List (String × Expr)
  | [] => [(name, e)]
  | (n, x) :: rest =>
    if name < n then (name, e) :: (n, x) :: rest
    else if name = n then (name, e) :: rest
    else (n, x) :: insertKwarg name e rest

/-- Canonical (name-sorted) form of kwargs given in source order. -/
def sortKwargs (kw : List (String × Expr)) : List (String × Expr) :=
  kw.foldl (fun acc (n, e) => insertKwarg n e acc) []

end Expr

/-! ### Key order restricted to what a literal can contain

`impl Ord for Key` (value/key.rs): strings by bytes, bools `false < true`, integers numerically,
different kinds by `type_order` (bool 0, integer 1, string 2).  Used to keep constant maps
canonical (sorted, no repeated key), which is how both wire encoders print a map. -/
namespace Key

def litIntVal : Key → Option Int
  | .u64 n => some (n : Int) | .i64 n => some n | .u128 n => some (n : Int) | .i128 n => some n
  | _ => none

/-- `type_order` in value/key.rs -/
def litTypeOrder : Key → Nat
  | .bool _ => 0
  | .str _ => 2
  | _ => 1

/-- lexicographic order on code points (= byte order of the UTF-8 encodings) -/
def litCharsLt : List Char → List Char → Bool
  | [], [] => false
  | [], _ :: _ => true
  | _ :: _, [] => false
  | a :: as, b :: bs => if a.toNat < b.toNat then true else if a.toNat > b.toNat then false else litCharsLt as bs

/-- `Key::cmp(a, b) == Less` -/
def litLt (a b : Key) : Bool :=
  match a, b with
  | .str s, .str t => litCharsLt s t
  | .bool x, .bool y => !x && y
  | _, _ =>
    match a.litIntVal, b.litIntVal with
    | some x, some y => decide (x < y)
    | _, _ => decide (a.litTypeOrder < b.litTypeOrder)

/-- `Key::eq` (numeric kinds compare by value) -/
def litSame (a b : Key) : Bool := !(litLt a b) && !(litLt b a)

end Key

/-- `Map::insert` on the canonical (key-sorted) association list: replaces an equal key (keeping
the position; the stored key stays the old one as in `HashMap::insert`), else inserts in order. -/
def Value.mapInsert (k : Key) (v : Value) : List (Key × Value) → List (Key × Value)
  | [] => [(k, v)]
  | (k', v') :: rest =>
    if Key.litLt k k' then (k, v) :: (k', v') :: rest
    else if Key.litLt k' k then (k', v') :: Value.mapInsert k v rest
    else (k', v) :: rest

end Tera
