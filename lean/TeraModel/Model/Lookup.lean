/-
Model of the map lookups of tera/src/value/mod.rs (`get_attr`, `get_item` map arm, `contains`,
`get_from_path` map step), of the `get` filter (filters.rs) and the `containing` test (tests.rs).

A `tera::Map` (`HashMap<Key<'static>, Value>`) is an association list whose keys are pairwise
not `==` (`NoDupKeys`, the invariant `HashMap::insert` keeps).  `HashMap::get`/`contains_key`
are the reference model `Map.hashGet`: the first entry whose key *hashes like* the probe and is
`==` to it, for an arbitrary hasher `H` over the `Hasher::write_*` stream of `Key::hash`;
`Map.get` (Model/Order.lean) is the same without looking at the hash.  That the two agree for
every `H` is a theorem (C15), and needs exactly `k1 == k2 → hashInput k1 = hashInput k2`.
-/
import TeraModel.Model.Order
namespace Tera

/-- `HashMap::get` with the hash made explicit: only entries in the probe's bucket (same hash
of the bytes fed to the hasher) are compared with `==`. -/
def Map.hashGet {β : Type} (H : List HashTok → Nat) (k : KeyRepr) : List (Key × β) → Option β
  | [] => none
  | (k', v) :: rest =>
    if H k'.hashInput == H k.hashInput && KeyRepr.eq k'.toRepr k then some v
    else Map.hashGet H k rest

/-- The invariant of a `HashMap`: no two stored keys are `==`. -/
def NoDupKeys {β : Type} : List (Key × β) → Prop
  | [] => True
  | (k, _) :: rest => (∀ e ∈ rest, Key.eq k e.1 = false) ∧ NoDupKeys rest

/-- `s == attr` scan of `get_attr`: `m.iter().find_map(|(k, v)| match k.as_str() { Some(s) if s
== attr => Some(v), _ => None })`, in whatever order the map iterates. -/
def Map.scanAttr {β : Type} (attr : List Char) : List (Key × β) → Option β
  | [] => none
  | (k, v) :: rest =>
    match k.toRepr.asStr with
    | some s => if s == attr then some v else Map.scanAttr attr rest
    | none => Map.scanAttr attr rest

/-- Is `needle` a contiguous sub-sequence (`str::contains`)? -/
def isInfix (needle : List Char) : List Char → Bool
  | [] => needle.isEmpty
  | c :: cs => needle.isPrefixOf (c :: cs) || isInfix needle cs

namespace Value

/-- `Value::get_attr`: linear scan up to the cutoff, hash lookup with `Key::Str(attr)` beyond. -/
def getAttrH (H : List HashTok → Nat) (v : Value) (attr : List Char) : Option Value :=
  match v with
  | .map m =>
    if m.length ≤ Gen.ATTR_SCAN_CUTOFF then Map.scanAttr attr m
    else Map.hashGet H (.str attr) m
  | _ => Option.none

/-- Outcome of `get_item` on a map. -/
inductive ItemRes where
  | ok (v : Value)
  | badKey              -- "Map keys must be strings, integers, or bools"
  deriving Repr

/-- `Value::get_item`, map arm (the array and string arms are C14's). -/
def getItemMap (H : List HashTok → Nat) (m : List (Key × Value)) (item : Value) : ItemRes :=
  match item.asKeyK with
  | some k => .ok ((Map.hashGet H k.toRepr m).getD .undef)
  | Option.none => .badKey

/-- `Value::contains` (`needle in container`); `none` = "`in` cannot be used on a container of
type …". -/
def containsH (H : List HashTok → Nat) (container needle : Value) : Option Bool :=
  match container with
  | .arr xs => some (xs.any fun x => eqV x needle)
  | .str _ s =>
    match needle with
    | .str _ n => some (isInfix n s)
    | _ => some false
  | .map m =>
    match needle.asKeyK with
    | some k => some (Map.hashGet H k.toRepr m).isSome
    | Option.none => some false
  | _ => Option.none

/-- Outcome of the `containing` test. -/
inductive ContainingRes where
  | ok (b : Bool)
  | badPat             -- string container, `pat` is not a string
  | notContainer
  deriving Repr

/-- tests.rs `is_containing`. -/
def isContaining (H : List HashTok → Nat) (val pat : Value) : ContainingRes :=
  match val with
  | .str _ s =>
    match pat with
    | .str _ n => .ok (isInfix n s)
    | _ => .badPat
  | .arr xs => .ok (xs.any fun x => eqV x pat)
  | .map m =>
    match pat.asKeyK with
    | some k => .ok (Map.hashGet H k.toRepr m).isSome
    | Option.none => .ok false
  | _ => .notContainer

/-- filters.rs `get`: `val.get(&Key::Str(key))`, then the default; `none` = the error. -/
def getFilter (H : List HashTok → Nat) (m : List (Key × Value)) (key : List Char)
    (default : Option Value) : Option Value :=
  match Map.hashGet H (.str key) m with
  | some v => some v
  | Option.none => default

end Value
end Tera
