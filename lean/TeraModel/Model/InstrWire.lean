/-
Wire form of bytecode listings (produced by `verif_hooks::raw_chunks_wire`,
`stored_chunks_wire`, `optimize_wire` in /repo/tera/src/verif_hooks.rs):
one token per instruction, `Kind:arg@span;span…`, no spaces.  `arg` is hex (names, texts),
decimal (counts, jump operands), comma separated hex (paths), `t`/`f` strings (spread vectors,
flags) or empty.
-/
import TeraModel.Model.Instr
import TeraModel.Model.Wire
namespace Tera.InstrWire
open Tera

def splitFirst (c : Char) (s : String) : Option (String × String) :=
  match s.splitOn (String.singleton c) with
  | [] => none
  | [_] => none
  | a :: rest => some (a, String.intercalate (String.singleton c) rest)

def nameOfHex (h : String) : Option String := (Wire.strOfHex h).map String.ofList
def hexOfName (s : String) : String := Wire.hexOfStr s.toList

def pathOfArg (arg : String) : Option (List String) :=
  if arg = "" then some [] else (arg.splitOn ",").mapM nameOfHex

def argOfPath (p : List String) : String := String.intercalate "," (p.map hexOfName)

def parseInstr (kind arg : String) : Option Instr :=
  match kind with
  | "LoadName" => (nameOfHex arg).map .loadName
  | "LoadAttr" => (nameOfHex arg).map .loadAttr
  | "WriteTop" => if arg = "" then some .writeTop else none
  | "LoadPath" => (pathOfArg arg).map .loadPath
  | "WritePath" => (pathOfArg arg).map .writePath
  | "Jump" => arg.toNat?.map .jump
  | "PopJumpIfFalse" => arg.toNat?.map .popJumpIfFalse
  | "JumpIfFalseOrPop" => arg.toNat?.map .jumpIfFalseOrPop
  | "JumpIfTrueOrPop" => arg.toNat?.map .jumpIfTrueOrPop
  | "Iterate" => arg.toNat?.map .iterate
  | k => if k = "" then none else some (.other k arg)

def parseEntry (tok : String) : Option Entry :=
  match splitFirst '@' tok with
  | none => none
  | some (head, spansTxt) =>
    match splitFirst ':' head with
    | none => none
    | some (kind, arg) =>
      (parseInstr kind arg).map fun i =>
        (i, if spansTxt = "" then [] else spansTxt.splitOn ";")

def parseChunk (toks : List String) : Option (List Entry) := toks.mapM parseEntry

def showInstr : Instr → String
  | .loadName n => "LoadName:" ++ hexOfName n
  | .loadAttr a => "LoadAttr:" ++ hexOfName a
  | .writeTop => "WriteTop:"
  | .loadPath p => "LoadPath:" ++ argOfPath p
  | .writePath p => "WritePath:" ++ argOfPath p
  | .jump t => s!"Jump:{t}"
  | .popJumpIfFalse t => s!"PopJumpIfFalse:{t}"
  | .jumpIfFalseOrPop t => s!"JumpIfFalseOrPop:{t}"
  | .jumpIfTrueOrPop t => s!"JumpIfTrueOrPop:{t}"
  | .iterate t => s!"Iterate:{t}"
  | .other k a => k ++ ":" ++ a

def showEntry (e : Entry) : String := showInstr e.1 ++ "@" ++ String.intercalate ";" e.2

def showChunk (c : List Entry) : String := String.intercalate " " (c.map showEntry)

end Tera.InstrWire
