/-
Value-level model of the stack VM, part 2: one arm per instruction of
`VirtualMachine::interpret` (tera/src/vm/interpreter.rs:54-890), the interpreter loop, the nested
calls (`RenderBlock`, `super()`, `Include`, components) and `render` / `render_block`.

* Every `pop` / `peek` / `expect` / `unwrap` / `[]` / `unreachable!` of the Rust is an explicit
  `.panic "<file>:<line>"` result, in the order the Rust evaluates them.
* `rendering_error!(msg, span_range)` is `renderingError`: it panics ("to have a span for error")
  when `Chunk::expand_span` finds no span, then `report_target` indexes `tera.templates` with the
  chunk's name (a panic when it is not there), then the error is returned.
* Nested `interpret` calls go through the parameter `rec` of `step` (`interp` ties the knot with a
  nesting fuel); the loop itself takes a step fuel.
* Built-in filters, tests and functions are parameters of `Env` (`CallRes`).
* The writers are in-memory buffers, so `write_all(..)?` never fails here; `String::from_utf8(..)?`
  of a buffer the VM filled never fails either (text is `List Char`).
-/
import TeraModel.Model.VmState
namespace Tera
namespace Vm

def POP_SITE : String := "stack.rs:33 to have a value"
def PEEK_SITE : String := "stack.rs:38 to peek a value"
def PEEK_MUT_SITE : String := "stack.rs:49 to peek a value"
def SPAN_SITE : String := "interpreter.rs:66 to have a span for error"

/-- `report_target(chunk)` (interpreter.rs:932-939): `&self.tera.templates[&chunk.name]` when the
chunk belongs to another template. -/
def reportTargetOk (env : Env) (vm : VmCtx) (c : Chunk) : Bool :=
  vm.template.name == c.name || (env.template c.name).isSome

/-- `self.rendering_error(msg, chunk, span)` once the span is in hand. -/
def raise (env : Env) (vm : VmCtx) (c : Chunk) (e : RErr) : StepRes :=
  if reportTargetOk env vm c then .err e else .panic "interpreter.rs:934 tera.templates[chunk.name]"

/-- `rendering_error!(msg, span_range)`. -/
def renderingError (env : Env) (vm : VmCtx) (c : Chunk) (r : SpanRange) (e : RErr) : StepRes :=
  if c.expandSpan r then raise env vm c e else .panic SPAN_SITE

/-- `chunk.get_span_at(current_ip, k).expect("to have a span for error")` then
`return Err(self.…_error(..))` (fused instructions). -/
def errorAt (env : Env) (vm : VmCtx) (c : Chunk) (pc k : Nat) (site : String) (e : RErr) : StepRes :=
  if c.hasSpanAt pc k then raise env vm c e else .panic site

/-- The tail of `WriteTop` / `WritePath` (335-354, 864-882): format, escape unless autoescape is
off or the value is safe, write to the innermost capture buffer or the output. -/
def emitValue (env : Env) (vm : VmCtx) (v : Value) (st : State) : State :=
  let text := v.format env.fmtF64
  st.write (if !vm.autoescape || v.isSafe then text else escapeHtml text)

/-! ### straight-line arms -/

/-- `LoadAttr(attr)` / `LoadAttrOpt(attr)` (198-212) -/
def stepLoadAttr (env : Env) (vm : VmCtx) (c : Chunk) (attr : String) (opt : Bool) (pc : Nat)
    (st : State) : StepRes :=
  match st.stack with
  | [] => .panic POP_SITE
  | (a, aSpan) :: rest =>
    if opt && (a.isUndef || a.isNone) then .next (pc + 1) { st with stack := (.undef, (pc, pc)) :: rest }
    else if a.isUndef then renderingError env vm c aSpan .undefinedField
    else .next (pc + 1) { st with stack := ((a.getAttr attr.toList).getD .undef, (pc, pc)) :: rest }

/-- `BinarySubscript` / `BinarySubscriptOpt` (213-245) -/
def stepSubscript (env : Env) (vm : VmCtx) (c : Chunk) (opt : Bool) (pc : Nat) (st : State) : StepRes :=
  match st.stack with
  | [] => .panic POP_SITE
  | [_] => .panic POP_SITE
  | (sub, subSpan) :: (val, valSpan) :: rest =>
    if opt && (val.isUndef || val.isNone) then .next (pc + 1) { st with stack := (.undef, (pc, pc)) :: rest }
    else if val.isUndef then renderingError env vm c valSpan .index
    else if sub.isUndef then renderingError env vm c subSpan .index
    else match val.getItem sub with
      | .ok v => .next (pc + 1) { st with stack := (v, combineSpans valSpan subSpan) :: rest }
      | .error _ => renderingError env vm c subSpan .index

/-- One bound of `Slice` (264-305): `none` value = absent; undefined or not an `i128` = error on
the bound's own span. -/
inductive Bound where
  | val (b : Option Int)
  | bad

def sliceBound (v : Value) : Bound :=
  if v.isNone then .val none
  else if v.isUndef then .bad
  else match v.asI128 with
    | some n => .val (some n)
    | none => .bad

/-- `Slice` / `SliceOpt` (246-318) -/
def stepSlice (env : Env) (vm : VmCtx) (c : Chunk) (opt : Bool) (pc : Nat) (st : State) : StepRes :=
  match st.stack with
  | (step, stepSpan) :: (stop, stopSpan) :: (start, startSpan) :: (val, valSpan) :: rest =>
    if opt && (val.isUndef || val.isNone) then .next (pc + 1) { st with stack := (.undef, (pc, pc)) :: rest }
    else if val.isUndef then renderingError env vm c valSpan .slice
    else match sliceBound start with
      | .bad => renderingError env vm c startSpan .slice
      | .val s =>
        match sliceBound stop with
        | .bad => renderingError env vm c stopSpan .slice
        | .val e =>
          match sliceBound step with
          | .bad => renderingError env vm c stepSpan .slice
          | .val stp =>
            match val.slice s e stp with
            | .ok v => .next (pc + 1) { st with stack := (v, valSpan) :: rest }
            | .error _ => renderingError env vm c valSpan .slice
  | _ => .panic POP_SITE

/-- `WriteTop` (326-355) -/
def stepWriteTop (env : Env) (vm : VmCtx) (c : Chunk) (pc : Nat) (st : State) : StepRes :=
  match st.stack with
  | [] => .panic POP_SITE
  | (top, topSpan) :: rest =>
    if top.isUndef then renderingError env vm c topSpan .undefinedRender
    else .next (pc + 1) (emitValue env vm top { st with stack := rest })

/-- `Set(name)` / `SetGlobal(name)` (356-363) -/
def stepSet (n : String) (global : Bool) (pc : Nat) (st : State) : StepRes :=
  match st.stack with
  | [] => .panic POP_SITE
  | (v, _) :: rest =>
    .next (pc + 1) { st with stack := rest,
                             scope := if global then st.scope.storeGlobal n v else st.scope.storeLocal n v }

/-- Result of a popping loop. -/
inductive PopRes (α : Type) where
  | ok (a : α) (rest : List Slot)
  | err (e : RErr)
  | panic (site : String)

/-- The loop of `BuildMap(n)` (392-396): `n` times pop the value, pop the key, `key.as_key()?`.
`acc` ends up in source order (the Rust reverses the popped vector). -/
def popPairs : Nat → List Slot → List (Key × Value) → PopRes (List (Key × Value))
  | 0, stk, acc => .ok acc stk
  | _ + 1, [], _ => .panic POP_SITE
  | _ + 1, [_], _ => .panic POP_SITE
  | n + 1, (v, _) :: (k, _) :: rest, acc =>
    match k.asKey with
    | none => .err .mapKey
    | some key => popPairs n rest ((key, v) :: acc)

/-- `BuildMap(n)` (385-401): `elems.into_iter().collect()` — a later entry replaces the value of an
earlier equal key. -/
def stepBuildMap (n : Nat) (pc : Nat) (st : State) : StepRes :=
  if n = 0 then .next (pc + 1) (st.push (.map []) (pc, pc))
  else match popPairs n st.stack [] with
    | .panic s => .panic s
    | .err e => .err e
    | .ok elems rest =>
      .next (pc + 1) { st with stack := (.map (elems.foldl (fun m e => mapInsert m e.1 e.2) []), (pc, pc)) :: rest }

/-- The loop of `BuildMapWithSpreads` (407-427); `flags` already reversed. -/
def popSpreadMap (env : Env) (vm : VmCtx) (c : Chunk) : List Bool → List Slot → Entries → StepRes ⊕ (Entries × List Slot)
  | [], stk, acc => .inr (acc, stk)
  | true :: fs, stk, acc =>
    match stk with
    | [] => .inl (.panic POP_SITE)
    | (v, span) :: rest =>
      match v with
      | .map es => popSpreadMap env vm c fs rest (es.foldl (fun a kv => mapInsertIfAbsent a kv.1 kv.2) acc)
      | _ => .inl (renderingError env vm c span .spread)
  | false :: fs, stk, acc =>
    match stk with
    | [] => .inl (.panic POP_SITE)
    | [_] => .inl (.panic POP_SITE)
    | (v, _) :: (k, _) :: rest =>
      match k.asKey with
      | none => .inl (.err .mapKey)
      | some key => popSpreadMap env vm c fs rest (mapInsertIfAbsent acc key v)

def stepBuildMapWithSpreads (env : Env) (vm : VmCtx) (c : Chunk) (flags : List Bool) (pc : Nat)
    (st : State) : StepRes :=
  match popSpreadMap env vm c flags.reverse st.stack [] with
  | .inl r => r
  | .inr (m, rest) => .next (pc + 1) { st with stack := (.map m, (pc, pc)) :: rest }

/-- `BuildList(n)` (433-442): `acc` ends up in source order. -/
def popN : Nat → List Slot → List Value → PopRes (List Value)
  | 0, stk, acc => .ok acc stk
  | _ + 1, [], _ => .panic POP_SITE
  | n + 1, (v, _) :: rest, acc => popN n rest (v :: acc)

def stepBuildList (n : Nat) (pc : Nat) (st : State) : StepRes :=
  match popN n st.stack [] with
  | .panic s => .panic s
  | .err e => .err e
  | .ok elems rest => .next (pc + 1) { st with stack := (.arr elems, (pc, pc)) :: rest }

/-- The loop of `BuildListWithSpreads` (445-463); `flags` already reversed; `acc` in source order. -/
def popSpreadList (env : Env) (vm : VmCtx) (c : Chunk) : List Bool → List Slot → List Value → StepRes ⊕ (List Value × List Slot)
  | [], stk, acc => .inr (acc, stk)
  | f :: fs, stk, acc =>
    match stk with
    | [] => .inl (.panic POP_SITE)
    | (v, span) :: rest =>
      if f then
        match v with
        | .arr xs => popSpreadList env vm c fs rest (xs ++ acc)
        | _ => .inl (renderingError env vm c span .spread)
      else popSpreadList env vm c fs rest (v :: acc)

def stepBuildListWithSpreads (env : Env) (vm : VmCtx) (c : Chunk) (flags : List Bool) (pc : Nat)
    (st : State) : StepRes :=
  match popSpreadList env vm c flags.reverse st.stack [] with
  | .inl r => r
  | .inr (xs, rest) => .next (pc + 1) { st with stack := (.arr xs, (pc, pc)) :: rest }

/-- `ApplyFilter(name)` (519-535) and `RunTest(name)` (536-552): the registry is indexed first,
then the two pops, then `kwargs.into_map_arc().unwrap()`, then the call. -/
def stepFilterOrTest (env : Env) (vm : VmCtx) (c : Chunk) (isTest : Bool) (name : String) (pc : Nat)
    (st : State) : StepRes :=
  if !(if isTest then env.hasTest name else env.hasFilter name) then
    .panic (if isTest then "interpreter.rs:537 tera.tests[name]" else "interpreter.rs:520 tera.filters[name]")
  else
    match st.stack with
    | [] => .panic POP_SITE
    | [_] => .panic POP_SITE
    | (kwargs, _) :: (value, valueSpan) :: rest =>
      match kwargs with
      | .map es =>
        let res := if isTest then env.callTest name value (kwargsOf es) else env.callFilter name value (kwargsOf es)
        match res with
        | .ok v =>
          let v := if !isTest && env.filterIsSafe name then v.markSafe else v
          .next (pc + 1) { st with stack := (v, (pc, pc)) :: rest }
        | .errInvalidArg => renderingError env vm c valueSpan .call
        | .err => renderingError env vm c (pc, pc) .call
        | .panic s => .panic s
        | .unmodelled => .unmodelled ((if isTest then "test " else "filter ") ++ name)
      | _ => .panic (if isTest then "interpreter.rs:541 into_map_arc().unwrap()" else "interpreter.rs:524 into_map_arc().unwrap()")

/-- `Capture` / `EndCapture` (622-629) -/
def stepEndCapture (pc : Nat) (st : State) : StepRes :=
  match st.captures with
  | [] => .panic "interpreter.rs:626 capture_buffers.pop().unwrap()"
  | buf :: restCaps =>
    .next (pc + 1) { st with captures := restCaps, stack := (.str true buf, (pc, pc)) :: st.stack }

/-- `StartIterate(kv)` / `StartIterateComprehension(kv)` (630-655) -/
def stepStartIterate (env : Env) (vm : VmCtx) (c : Chunk) (kv compr : Bool) (pc : Nat) (st : State) : StepRes :=
  match st.stack with
  | [] => .panic POP_SITE
  | (container, span) :: rest =>
    if !container.canBeIteratedOn then renderingError env vm c span .iteration
    else if kv && !container.isMap then renderingError env vm c span .iteration
    else match iterItems container with
      | none => .panic "for_loop.rs:225 Should only be called on iterable values"
      | some items =>
        .next (pc + 1) { st with stack := rest, scope := st.scope.pushLoop (ForLoop.new items compr) }

/-- `StoreLocal(name)` (656-660): nothing happens without a loop. -/
def stepStoreLocal (n : String) (pc : Nat) (st : State) : StepRes :=
  match st.scope.forLoops with
  | [] => .next (pc + 1) st
  | l :: _ => .next (pc + 1) { st with scope := st.scope.setTopLoop (l.storeLocalName n) }

/-- `Iterate(end_ip)` (661-670) -/
def stepIterate (t : Nat) (pc : Nat) (st : State) : StepRes :=
  match st.scope.forLoops with
  | [] => .next (pc + 1) st
  | l :: _ =>
    match l.iterate t with
    | none => .next t st
    | some l' => .next (pc + 1) { st with scope := st.scope.setTopLoop l' }

/-- `StoreDidNotIterate` (671-677) -/
def stepStoreDidNotIterate (pc : Nat) (st : State) : StepRes :=
  match st.scope.forLoops with
  | [] => .next (pc + 1) st
  | l :: _ => .next (pc + 1) (st.push (.bool (!l.iterated)) (pc, pc))

/-- `Break` (678-683) -/
def stepBreak (pc : Nat) (st : State) : StepRes :=
  match st.scope.forLoops with
  | [] => .next (pc + 1) st
  | l :: _ => .next l.endIp st

/-- `AppendToList` (687-695) -/
def stepAppendToList (pc : Nat) (st : State) : StepRes :=
  match st.stack with
  | [] => .panic POP_SITE
  | [_] => .panic PEEK_MUT_SITE
  | (v, _) :: (list, lSpan) :: rest =>
    match list with
    | .arr xs => .next (pc + 1) { st with stack := (.arr (xs ++ [v]), lSpan) :: rest }
    | _ => .panic "interpreter.rs:693 AppendToList only works on arrays"

def mathFn (F : FloatOps) : MathOp → Value → Value → Except NumErr Value
  | .mul => mul F | .div => div F | .floorDiv => floorDiv F | .mod => rem F | .minus => sub F
  | .power => pow F

/-- `math_binop!` (105-144): "divide by 0" is reported on the right operand's span. -/
def stepMath (env : Env) (vm : VmCtx) (c : Chunk) (op : MathOp) (pc : Nat) (st : State) : StepRes :=
  match st.stack with
  | [] => .panic POP_SITE
  | [_] => .panic POP_SITE
  | (b, bSpan) :: (a, aSpan) :: rest =>
    if !a.isNumber then renderingError env vm c aSpan (.math .notNumber)
    else if !b.isNumber then renderingError env vm c bSpan (.math .notNumber)
    else match mathFn env.F op a b with
      | .ok v => .next (pc + 1) { st with stack := (v, combineSpans aSpan bSpan) :: rest }
      | .error .divZero => renderingError env vm c bSpan (.math .divZero)
      | .error e => renderingError env vm c (combineSpans aSpan bSpan) (.math e)

/-- `Plus` (700-720) -/
def stepPlus (env : Env) (vm : VmCtx) (c : Chunk) (pc : Nat) (st : State) : StepRes :=
  match st.stack with
  | [] => .panic POP_SITE
  | [_] => .panic POP_SITE
  | (b, bSpan) :: (a, aSpan) :: rest =>
    if a.isNumber && b.isNumber then
      match add env.F a b with
      | .ok v => .next (pc + 1) { st with stack := (v, combineSpans aSpan bSpan) :: rest }
      | .error e => renderingError env vm c (combineSpans aSpan bSpan) (.math e)
    else renderingError env vm c (combineSpans aSpan bSpan) (.math .notNumber)

def cmpTest : CmpOp → Ordering → Bool
  | .lt, o => o == .lt
  | .gt, o => o == .gt
  | .le, o => o != .gt
  | .ge, o => o != .lt

/-- `ordering_binop!` (90-103) -/
def stepCmp (env : Env) (vm : VmCtx) (c : Chunk) (op : CmpOp) (pc : Nat) (st : State) : StepRes :=
  match st.stack with
  | [] => .panic POP_SITE
  | [_] => .panic POP_SITE
  | (b, bSpan) :: (a, aSpan) :: rest =>
    match partialCmp a b with
    | some o => .next (pc + 1) { st with stack := (.bool (cmpTest op o), combineSpans aSpan bSpan) :: rest }
    | none => renderingError env vm c (combineSpans aSpan bSpan) .notComparable

/-- `op_binop!` (81-87): `Equal`, `NotEqual` -/
def stepEqual (negated : Bool) (pc : Nat) (st : State) : StepRes :=
  match st.stack with
  | [] => .panic POP_SITE
  | [_] => .panic POP_SITE
  | (b, bSpan) :: (a, aSpan) :: rest =>
    .next (pc + 1) { st with stack := (.bool (if negated then !valueEq a b else valueEq a b), combineSpans aSpan bSpan) :: rest }

/-- `StrConcat` (729-744) -/
def stepStrConcat (env : Env) (pc : Nat) (st : State) : StepRes :=
  match st.stack with
  | [] => .panic POP_SITE
  | [_] => .panic POP_SITE
  | (b, bSpan) :: (a, aSpan) :: rest =>
    let r := match a, b with
      | .str _ x, .str _ y => x ++ y
      | _, _ => a.format env.fmtF64 ++ b.format env.fmtF64
    .next (pc + 1) { st with stack := (.str false r, combineSpans aSpan bSpan) :: rest }

/-- `In` (745-756) -/
def stepIn (env : Env) (vm : VmCtx) (c : Chunk) (pc : Nat) (st : State) : StepRes :=
  match st.stack with
  | [] => .panic POP_SITE
  | [_] => .panic POP_SITE
  | (container, cSpan) :: (needle, _) :: rest =>
    match Value.contains container needle with
    | .ok r => .next (pc + 1) { st with stack := (.bool r, (pc, pc)) :: rest }
    | .error _ => renderingError env vm c cSpan .inContainer

/-- `Not` (757-760) -/
def stepNot (pc : Nat) (st : State) : StepRes :=
  match st.stack with
  | [] => .panic POP_SITE
  | (a, aSpan) :: rest => .next (pc + 1) { st with stack := (.bool (!a.isTruthy), aSpan) :: rest }

/-- `Negative` (761-771) -/
def stepNegative (env : Env) (vm : VmCtx) (c : Chunk) (pc : Nat) (st : State) : StepRes :=
  match st.stack with
  | [] => .panic POP_SITE
  | (a, aSpan) :: rest =>
    match negate env.F a with
    | .ok v => .next (pc + 1) { st with stack := (v, aSpan) :: rest }
    | .error e => renderingError env vm c aSpan (.math e)

/-! ### fused path instructions -/

inductive Walk where
  | val (v : Value)
  | stop (r : StepRes)

/-- The `for (k, attr) in path[1..].iter().enumerate()` of `LoadPath` (790-812). -/
def walkLoad (env : Env) (vm : VmCtx) (c : Chunk) (pc : Nat) : Value → Nat → List String → Walk
  | cur, _, [] => .val cur
  | cur, k, attr :: rest =>
    if cur.isUndef then .stop (errorAt env vm c pc (k + 1) "interpreter.rs:794 to have a span for error" .undefinedField)
    else match cur.getAttr attr.toList with
      | some next => walkLoad env vm c pc next (k + 1) rest
      | none =>
        if rest ≠ [] then .stop (errorAt env vm c pc (k + 1) "interpreter.rs:803 to have a span for error" .undefinedField)
        else .val .undef

/-- `LoadPath(path)` (773-820) -/
def stepLoadPath (env : Env) (vm : VmCtx) (c : Chunk) (path : List String) (pc : Nat) (st : State) : StepRes :=
  match path with
  | [] => .panic "interpreter.rs:778 path[0]"
  | n :: attrs =>
    let val := if attrs = [] then lookupName st.scope n else st.scope.getValue n
    if attrs ≠ [] then
      if val.isUndef then errorAt env vm c pc 0 "interpreter.rs:785 to have a span for error" .undefinedVariable
      else match walkLoad env vm c pc val 0 attrs with
        | .val v => .next (pc + 1) (st.push v (pc, pc))
        | .stop r => r
    else .next (pc + 1) (st.push val (pc, pc))

/-- The `for` of `WritePath` (837-847). -/
def walkWrite (env : Env) (vm : VmCtx) (c : Chunk) (pc : Nat) : Value → Nat → List String → Walk
  | cur, _, [] => .val cur
  | cur, k, attr :: rest =>
    match cur.getAttr attr.toList with
    | some next => walkWrite env vm c pc next (k + 1) rest
    | none => .stop (errorAt env vm c pc (k + 1) "interpreter.rs:843 to have a span for error" .undefinedField)

/-- `WritePath(path)` (821-883) -/
def stepWritePath (env : Env) (vm : VmCtx) (c : Chunk) (path : List String) (pc : Nat) (st : State) : StepRes :=
  match path with
  | [] => .panic "interpreter.rs:826 path[0]"
  | n :: attrs =>
    let root := if attrs = [] then lookupName st.scope n else st.scope.getValue n
    if root.isUndef then errorAt env vm c pc 0 "interpreter.rs:831 to have a span for error" .undefinedVariable
    else match walkWrite env vm c pc root 0 attrs with
      | .stop r => r
      | .val v =>
        if v.isUndef then errorAt env vm c pc attrs.length "interpreter.rs:856 to have a span for error" .undefinedRender
        else .next (pc + 1) (emitValue env vm v st)

/-! ### arms that call `interpret` again -/

/-- the state `render_include` builds -/
def includeState (st : State) : State := State.fresh (Scope.included st.scope)

/-- `Include(name)` (364-384) with `render_include` (969-989): a fresh state chained to the
includer for reads, a VM for the included template with the same override and depth; what it
writes goes to the includer's innermost capture buffer or output. -/
def stepInclude (rec : VmCtx → Chunk → State → RunRes) (env : Env) (vm : VmCtx) (name : String)
    (pc : Nat) (st : State) : StepRes :=
  match env.template name with
  | none => .err .templateNotFound
  | some tpl =>
    match rec { vm with template := tpl } tpl.chunk (includeState st) with
    | .done st' => .next (pc + 1) (st.write st'.out)
    | .err e => .err e
    | .panic s => .panic s
    | .unmodelled w => .unmodelled w
    | .outOfFuel => .outOfFuel

/-- The state a block chunk is entered with (573-580): the block is pushed on the block stack and
becomes the current block; when it is the block `render_block` asked for, its text goes to a
buffer of its own and the capture buffers are set aside. -/
def enterBlock (st : State) (name : String) (lineage : List Chunk) : State :=
  let st1 : State := { st with blocks := (name, lineage, 0) :: st.blocks, currentBlockName := some name }
  if st.captureBlock == some name then { st1 with captures := [], out := [] } else st1

/-- Back in the caller (582-590): `st2` is what the block chunk left. -/
def leaveBlock (st st2 : State) (name : String) : State :=
  let st3 : State := { st2 with currentBlockName := st.currentBlockName, blocks := st2.blocks.tail }
  if st.captureBlock == some name then { st3 with captures := st.captures, out := st.out, blockBuffer := st2.out } else st3

/-- `RenderBlock(name)` (559-592) -/
def stepRenderBlock (rec : VmCtx → Chunk → State → RunRes) (vm : VmCtx) (name : String)
    (pc : Nat) (st : State) : StepRes :=
  match (assoc name vm.template.blockLineage) with
  | none => .err .noLineage
  | some [] => .err .noLineage
  | some (first :: more) =>
    match rec vm first (enterBlock st name (first :: more)) with
    | .done st2 => .next (pc + 1) (leaveBlock st st2 name)
    | .err e => .err e
    | .panic s => .panic s
    | .unmodelled w => .unmodelled w
    | .outOfFuel => .outOfFuel

/-- index, counted from the bottom of the block stack (the Rust `Vec` index), of the topmost entry
for `name`: `state.blocks.iter().rposition(|entry| entry.0 == name)` -/
def blockPos (blocks : List (String × List Chunk × Nat)) (name : String) : Option Nat :=
  match blocks.findIdx? (fun e => e.1 == name) with
  | some i => some (blocks.length - 1 - i)
  | none => none

/-- `state.blocks[pos].2 = level` (`pos` from the bottom); `none` = index out of bounds -/
def setLevel (blocks : List (String × List Chunk × Nat)) (pos level : Nat) : Option (List (String × List Chunk × Nat)) :=
  if pos < blocks.length then
    let i := blocks.length - 1 - pos
    some (blocks.modify i (fun e => (e.1, e.2.1, level)))
  else none

/-- The state the parent block's chunk is entered with by `super()` (494-497). -/
def enterSuper (st : State) (blocks1 : List (String × List Chunk × Nat)) : State :=
  { st with blocks := blocks1, captures := [], out := [] }

/-- Back in the calling block (499-506): `st2` is what the parent's chunk left. -/
def leaveSuper (st st2 : State) (blocks3 : List (String × List Chunk × Nat)) (pc : Nat) : State :=
  { st2 with captures := st.captures, out := st.out, blocks := blocks3,
             stack := (.str true st2.out, (pc, pc)) :: st2.stack }

/-- `CallFunction("super")` (472-506) after the kwargs were popped. -/
def stepSuper (rec : VmCtx → Chunk → State → RunRes) (env : Env) (vm : VmCtx) (c : Chunk)
    (pc : Nat) (st : State) : StepRes :=
  match st.currentBlockName with
  | none => renderingError env vm c (pc, pc) .superOutsideBlock
  | some cur =>
    match blockPos st.blocks cur with
    | none => .panic "interpreter.rs:484 no lineage found"
    | some pos =>
      match st.blocks[st.blocks.length - 1 - pos]? with
      | none => .panic "interpreter.rs:485 state.blocks[pos]"
      | some (_, lineage, level) =>
        match lineage[level + 1]? with
        | none => renderingError env vm c (pc, pc) .superTopLevel
        | some blockChunk =>
          match setLevel st.blocks pos (level + 1) with
          | none => .panic "interpreter.rs:495 state.blocks[pos]"
          | some blocks1 =>
            match rec vm blockChunk (enterSuper st blocks1) with
            | .done st2 =>
              match setLevel st2.blocks pos level with
              | none => .panic "interpreter.rs:501 state.blocks[pos]"
              | some blocks3 => .next (pc + 1) (leaveSuper st st2 blocks3 pc)
            | .err e => .err e
            | .panic s => .panic s
            | .unmodelled w => .unmodelled w
            | .outOfFuel => .outOfFuel

/-- `CallFunction(name)` (470-518): the kwargs are popped first, also for `super`. -/
def stepCallFunction (rec : VmCtx → Chunk → State → RunRes) (env : Env) (vm : VmCtx) (c : Chunk)
    (name : String) (pc : Nat) (st : State) : StepRes :=
  match st.stack with
  | [] => .panic POP_SITE
  | (kwargs, _) :: rest =>
    if name = "super" then stepSuper rec env vm c pc { st with stack := rest }
    else
      if !env.hasFunction name then .panic "interpreter.rs:508 tera.functions[name]"
      else
        match kwargs with
        | .map es =>
          match env.callFunction name (kwargsOf es) with
          | .ok v =>
            let v := if env.functionIsSafe name then v.markSafe else v
            .next (pc + 1) { st with stack := (v, (pc, pc)) :: rest }
          | .errInvalidArg => renderingError env vm c (pc, pc) .call
          | .err => renderingError env vm c (pc, pc) .call
          | .panic s => .panic s
          | .unmodelled => .unmodelled ("function " ++ name)
        | _ => .panic "interpreter.rs:509 into_map_arc().unwrap()"

def MAX_COMPONENT_RECURSION_DEPTH : Nat := Generated.MAX_COMPONENT_RECURSION_DEPTH

/-- `Context` from the list `build_context` produces (a later insert of a name replaces). -/
def ctxOfList (l : List (String × Value)) : Ctx := l.foldl (fun c kv => c.insert kv.1 kv.2) []

/-- `State::new_with_chunk(&context, chunk)` of `render_component`: only the bound arguments are
visible (no global context, no includer) -/
def componentState (bound : List (String × Value)) : State :=
  State.fresh (.mk [] [] none (ctxOfList bound) none)

/-- `self.tera.components.get(name).unwrap_or_else(|| &self.template.components[name])` -/
def findComponent (env : Env) (vm : VmCtx) (name : String) : Option (Component.Def × Chunk) :=
  match assoc name env.components with
  | some d => some d
  | none => assoc name vm.template.components

/-- `if has_body { Some(state.stack.pop().0.mark_safe()) } else { None }`; `none` = pop of an
empty stack -/
def popBody (hasBody : Bool) (rest : List Slot) : Option (Option Value × List Slot) :=
  if hasBody then
    match rest with
    | [] => none
    | (b, _) :: rest' => some (some b.markSafe, rest')
  else some (none, rest)

/-- `component!(name, current_ip, has_body)` (146-187) with `render_component` (947-967). -/
def stepComponent (rec : VmCtx → Chunk → State → RunRes) (env : Env) (vm : VmCtx) (c : Chunk)
    (name : String) (hasBody : Bool) (pc : Nat) (st : State) : StepRes :=
  match st.stack with
  | [] => .panic POP_SITE
  | (kwargs, _) :: rest =>
    match kwargs with
    | .map es =>
      match findComponent env vm name with
      | none => .panic "interpreter.rs:154 self.template.components[name]"
      | some (cdef, cchunk) =>
        match popBody hasBody rest with
        | none => .panic POP_SITE
        | some (body, rest') =>
          match Component.buildContext cdef es body with
          | .error _ => renderingError env vm c (pc, pc) .componentBinding
          | .ok bound =>
            if vm.depth + 1 > MAX_COMPONENT_RECURSION_DEPTH then .err .recursionLimit
            else
              match rec { vm with depth := vm.depth + 1 } cchunk (componentState bound) with
              | .done st' => .next (pc + 1) { st with stack := (.str true st'.out, (pc, pc)) :: rest' }
              | .err e => .err e
              | .panic s => .panic s
              | .unmodelled w => .unmodelled w
              | .outOfFuel => .outOfFuel
    | _ => .panic "interpreter.rs:149 to have kwargs"

/-- `PopJumpIfFalse(target)` (597-603) -/
def stepPopJumpIfFalse (t : Nat) (pc : Nat) (st : State) : StepRes :=
  match st.stack with
  | [] => .panic POP_SITE
  | (v, _) :: rest => if !v.isTruthy then .next t { st with stack := rest } else .next (pc + 1) { st with stack := rest }

/-- `JumpIfFalseOrPop(target)` (604-612, `wantTrue = false`) and `JumpIfTrueOrPop(target)`
(613-621): peek; jump keeping the value, or pop it -/
def stepJumpOrPop (wantTrue : Bool) (t : Nat) (pc : Nat) (st : State) : StepRes :=
  match st.stack with
  | [] => .panic PEEK_SITE
  | (v, _) :: rest =>
    if (if wantTrue then v.isTruthy else !v.isTruthy) then .next t st else .next (pc + 1) { st with stack := rest }

/-! ### the interpreter loop -/

/-- One turn of `while let Some((instr, _)) = chunk.get(ip)` on instruction `e` at `ip = pc`.
`rec` = `interpret` for the nested calls. -/
def step (rec : VmCtx → Chunk → State → RunRes) (env : Env) (vm : VmCtx) (c : Chunk)
    (e : VEntry) (pc : Nat) (st : State) : StepRes :=
  match e.1 with
  | .loadConst v => .next (pc + 1) (st.push v (pc, pc))
  | .loadName n => .next (pc + 1) (st.push (lookupName st.scope n) (pc, pc))
  | .loadAttr attr opt => stepLoadAttr env vm c attr opt pc st
  | .binarySubscript opt => stepSubscript env vm c opt pc st
  | .slice opt => stepSlice env vm c opt pc st
  | .writeText t => .next (pc + 1) (st.write t)
  | .writeTop => stepWriteTop env vm c pc st
  | .set n global => stepSet n global pc st
  | .include_ n => stepInclude rec env vm n pc st
  | .buildMap n => stepBuildMap n pc st
  | .buildList n => stepBuildList n pc st
  | .buildMapWithSpreads flags => stepBuildMapWithSpreads env vm c flags pc st
  | .buildListWithSpreads flags => stepBuildListWithSpreads env vm c flags pc st
  | .callFunction n => stepCallFunction rec env vm c n pc st
  | .renderComponent n hasBody => stepComponent rec env vm c n hasBody pc st
  | .applyFilter n => stepFilterOrTest env vm c false n pc st
  | .runTest n => stepFilterOrTest env vm c true n pc st
  | .renderBlock n => stepRenderBlock rec vm n pc st
  | .jump t => .next t st
  | .popJumpIfFalse t => stepPopJumpIfFalse t pc st
  | .jumpIfFalseOrPop t => stepJumpOrPop false t pc st
  | .jumpIfTrueOrPop t => stepJumpOrPop true t pc st
  | .capture => .next (pc + 1) { st with captures := [] :: st.captures }
  | .endCapture => stepEndCapture pc st
  | .startIterate kv compr => stepStartIterate env vm c kv compr pc st
  | .iterate t => stepIterate t pc st
  | .storeLocal n => stepStoreLocal n pc st
  | .storeDidNotIterate => stepStoreDidNotIterate pc st
  | .break_ => stepBreak pc st
  | .popLoop => .next (pc + 1) { st with scope := st.scope.popLoop }
  | .appendToList => stepAppendToList pc st
  | .math op => stepMath env vm c op pc st
  | .plus => stepPlus env vm c pc st
  | .cmp op => stepCmp env vm c op pc st
  | .equal negated => stepEqual negated pc st
  | .strConcat => stepStrConcat env pc st
  | .in_ => stepIn env vm c pc st
  | .not_ => stepNot pc st
  | .negative => stepNegative env vm c pc st
  | .loadPath p => stepLoadPath env vm c p pc st
  | .writePath p => stepWritePath env vm c p pc st

/-- The interpreter loop of one `interpret` call, at most `fuel` turns. -/
def runLoop (rec : VmCtx → Chunk → State → RunRes) (env : Env) (vm : VmCtx) (c : Chunk) :
    Nat → Nat → State → RunRes
  | 0, pc, st =>
    match c.code[pc]? with
    | none => .done st
    | some _ => .outOfFuel
  | fuel + 1, pc, st =>
    match c.code[pc]? with
    | none => .done st
    | some e =>
      match step rec env vm c e pc st with
      | .next pc' st' => runLoop rec env vm c fuel pc' st'
      | .err e => .err e
      | .panic s => .panic s
      | .unmodelled w => .unmodelled w
      | .outOfFuel => .outOfFuel

/-- Fuel of a run: `depth` bounds the nesting of `interpret` calls, `steps` the turns of each
interpreter loop. -/
structure Fuel where
  depth : Nat
  steps : Nat

/-- `VirtualMachine::interpret(state, output)` with `ip = 0`. -/
def interp (env : Env) (steps : Nat) : Nat → VmCtx → Chunk → State → RunRes
  | 0, _, _, _ => .outOfFuel
  | depth + 1, vm, c, st => runLoop (interp env steps depth) env vm c steps 0 st

/-- `run`: one `interpret` call from `ip = 0`. -/
def run (fuel : Fuel) (env : Env) (vm : VmCtx) (c : Chunk) (st : State) : RunRes :=
  interp env fuel.steps fuel.depth vm c st

/-- `render_to` (1020-1025): the chunk that runs is the main chunk of the top-most parent. -/
def entryChunk (env : Env) (tpl : TemplateInfo) : Option Chunk :=
  match tpl.parents.head? with
  | some base => (env.template base).map (·.chunk)
  | none => some tpl.chunk

/-- `State::new_with_chunk(context, chunk)` + `global_context`, `capture_block` (1026-1031) -/
def entryState (block : Option String) (ctx globalCtx : Ctx) : State :=
  { State.fresh (Scope.root ctx globalCtx) with captureBlock := block }

/-- what `render` / `render_block` hand back: the output, or the buffer of the requested block -/
def outcomeOf (block : Option String) : RunRes → Outcome
  | .done st => .ok (if block.isSome then st.blockBuffer else st.out)
  | .err e => .err e
  | .panic s => .panic s
  | .unmodelled w => .unmodelled w
  | .outOfFuel => .outOfFuel

/-- `Tera::render_block`: `!template.block_lineage.contains_key(block_name)` -/
def lineageMissing (tpl : TemplateInfo) : Option String → Bool
  | some b => (assoc b tpl.blockLineage).isNone
  | none => false

/-- `Tera::render(name, ctx)` (`block = none`) / `Tera::render_block(name, block, ctx)`, through
`VirtualMachine::render_to` (1012-1045): the VM belongs to the template asked for. -/
def render (fuel : Fuel) (env : Env) (name : String) (block : Option String) (ctx globalCtx : Ctx) :
    Outcome :=
  match env.template name with
  | none => .err .templateNotFound
  | some tpl =>
    if lineageMissing tpl block then .err .blockNotFound
    else
      match entryChunk env tpl with
      | none => .err .templateNotFound
      | some chunk =>
        outcomeOf block (run fuel env { template := tpl, autoescapeOverride := none, depth := 0 } chunk
          (entryState block ctx globalCtx))

end Vm
end Tera
