/-
Model of the scoping part of tera/src/vm/state.rs (`State::get_value`, `store_local`,
`store_global`) and of tera/src/context.rs (`Context` = a map from names to values).

A `Scope` is the part of the Rust `State` that name resolution reads and assignments write:
`for_loops` (innermost LAST in the Rust `Vec`; here innermost FIRST, i.e. the list is the stack
with its top at the head), `set_variables`, `include_parent`, `context`, `global_context`.
-/
import TeraModel.Model.ForLoopModel
namespace Tera

/-- `Context.data` / `set_variables`: name → value, later inserts replace earlier ones. -/
abbrev Ctx := List (String × Value)

def Ctx.get (c : Ctx) (name : String) : Option Value := ForLoop.lookupCtx c name

/-- `BTreeMap::insert`. -/
def Ctx.insert (c : Ctx) (name : String) (v : Value) : Ctx :=
  (name, v) :: c.filter (fun p => p.1 != name)

inductive Scope where
  | mk (forLoops : List ForLoop) (setVariables : Ctx) (includeParent : Option Scope)
       (context : Ctx) (globalContext : Option Ctx)

namespace Scope

def forLoops : Scope → List ForLoop | .mk l _ _ _ _ => l
def setVariables : Scope → Ctx | .mk _ s _ _ _ => s
def includeParent : Scope → Option Scope | .mk _ _ p _ _ => p
def context : Scope → Ctx | .mk _ _ _ c _ => c
def globalContext : Scope → Option Ctx | .mk _ _ _ _ g => g

/-- `State::new` + `global_context = Some(..)` as done by `render_to`. -/
def root (context globalCtx : Ctx) : Scope := .mk [] [] Option.none context (some globalCtx)

/-- The state `render_include` builds: same `context`, empty loops and assignments, no global
context of its own, chained to the includer for reads. -/
def included (parent : Scope) : Scope := .mk [] [] (some parent) parent.context Option.none

/-- First loop (innermost outwards) that knows the name. -/
def loopsGet (loops : List ForLoop) (name : String) : Option Value :=
  match loops with
  | [] => Option.none
  | l :: rest => match l.get name with
    | some v => some v
    | Option.none => loopsGet rest name

/-- The body of `State::get_value` once the includer's answer (`fromParent`, undefined when there
is no includer) is known. -/
def resolve (loops : List ForLoop) (setVars : Ctx) (fromParent : Value) (context : Ctx)
    (globalCtx : Option Ctx) (name : String) : Value :=
  match loopsGet loops name with
  | some v => v
  | Option.none =>
    match setVars.get name with
    | some v => v
    | Option.none =>
      if !fromParent.isUndef then fromParent
      else match context.get name with
        | some v => v
        | Option.none =>
          match globalCtx with
          | some g => (g.get name).getD Value.undef
          | Option.none => Value.undef

/-- `State::get_value`. -/
def getValue : Scope → String → Value
  | .mk loops setVars parent context globalCtx, name =>
    resolve loops setVars
      (match parent with
       | some p => getValue p name
       | Option.none => Value.undef)
      context globalCtx name

/-- `State::store_global`. -/
def storeGlobal : Scope → String → Value → Scope
  | .mk loops setVars parent context globalCtx, name, v =>
    .mk loops (setVars.insert name v) parent context globalCtx

/-- `State::store_local`: into the innermost loop when there is one. -/
def storeLocal : Scope → String → Value → Scope
  | .mk (l :: rest) setVars parent context globalCtx, name, v =>
    .mk (l.store name v :: rest) setVars parent context globalCtx
  | s@(.mk [] _ _ _ _), name, v => s.storeGlobal name v

/-- `state.for_loops.push(..)`. -/
def pushLoop : Scope → ForLoop → Scope
  | .mk loops setVars parent context globalCtx, l => .mk (l :: loops) setVars parent context globalCtx

/-- `PopLoop`. -/
def popLoop : Scope → Scope
  | .mk loops setVars parent context globalCtx => .mk loops.tail setVars parent context globalCtx

/-- Replace the innermost loop (the VM mutates `for_loops.last_mut()`). -/
def setTopLoop : Scope → ForLoop → Scope
  | .mk (_ :: rest) setVars parent context globalCtx, l => .mk (l :: rest) setVars parent context globalCtx
  | s, _ => s

end Scope
end Tera
