/-
A bytecode checker for the value-level VM (Model/Vm.lean): an abstract interpretation of a typed
chunk that keeps, per value-stack slot, four "known" flags, next to the loop stack and the number
of capture buffers that the checker of Model/WellFormed.lean already tracks:

* `arr`  the value is an array            (`AppendToList` is `unreachable!` otherwise)
* `map`  the value is a map               (`kwargs.into_map().expect(..)` / `.unwrap()`)
* `sp`   `Chunk::expand_span` finds a span for the slot's span range
                                          (`rendering_error!` does `.expect("to have a span for error")`)
* `okb`  as a slice bound the value is fine: `none`, or an integer that fits `i128` (the bounds the
         compiler loads as constants have no span, and need none)

`astep` gives the possible successor states of one instruction, or `none` when the checker cannot
exclude a panic of its arm.  `verify` checks a table of per-instruction abstract states, `infer`
builds one by a forward pass (not trusted), `checkChunk` = infer + verify + the names the chunk
refers to are registered (`namesOk`).  Soundness (`check_sound`, Lemmas/VmSim.lean): a run of the
value-level VM on a checked chunk never ends in a panic.
-/
import TeraModel.Model.Vm
namespace Tera
namespace Vm

structure Tag where
  arr : Bool
  map : Bool
  sp : Bool
  okb : Bool
  deriving Repr, DecidableEq, Inhabited

/-- `a ⊑ b`: everything `b` claims to know, `a` knows too -/
def Tag.le (a b : Tag) : Bool :=
  (!b.arr || a.arr) && (!b.map || a.map) && (!b.sp || a.sp) && (!b.okb || a.okb)

def Tag.join (a b : Tag) : Tag := ⟨a.arr && b.arr, a.map && b.map, a.sp && b.sp, a.okb && b.okb⟩

/-- a freshly computed value pushed with the span range `current_ip..=current_ip` -/
def Tag.fresh (own : Bool) : Tag := ⟨false, false, own, false⟩

def isArrV : Value → Bool
  | .arr _ => true
  | _ => false

def okBoundV (v : Value) : Bool :=
  match sliceBound v with
  | .bad => false
  | .val _ => true

/-- State of the abstract machine; stacks have their top at the head. -/
structure ASt where
  stack : List Tag
  /-- per active loop: the `end_ip` set by `Iterate`, `none` while unknown -/
  loops : List (Option Nat)
  caps : Nat
  deriving Repr, DecidableEq, Inhabited

def ASt.empty : ASt := ⟨[], [], 0⟩

/-- the pops of `BuildMapWithSpreads` (flags already reversed): a spread slot must be spanned -/
def spreadMapPops : List Bool → List Tag → Option (List Tag)
  | [], stk => some stk
  | true :: fs, t :: rest => if t.sp then spreadMapPops fs rest else none
  | false :: fs, _ :: _ :: rest => spreadMapPops fs rest
  | _, _ => none

/-- the pops of `BuildListWithSpreads` (flags already reversed) -/
def spreadListPops : List Bool → List Tag → Option (List Tag)
  | [], stk => some stk
  | f :: fs, t :: rest => if !f || t.sp then spreadListPops fs rest else none
  | _, _ => none

/-- `math_binop!`, `Plus`, `ordering_binop!`: both operands spanned; the result carries the
combination of their ranges -/
def abinop (pc : Nat) (s : ASt) : Option (List (Nat × ASt)) :=
  match s.stack with
  | b :: a :: rest =>
    if a.sp && b.sp then some [(pc + 1, { s with stack := ⟨false, false, true, false⟩ :: rest })] else none
  | _ => none

/-- `JumpIfFalseOrPop` / `JumpIfTrueOrPop`: jump keeping the value, or pop it -/
def ajumpOrPop (t pc : Nat) (s : ASt) : Option (List (Nat × ASt)) :=
  match s.stack with
  | _ :: rest => some [(t, s), (pc + 1, { s with stack := rest })]
  | _ => none

/-- One instruction at `pc` (`own`: it has a span; `nspans`: how many): the possible next
(pc, state) pairs, or `none` when a panic of the arm cannot be excluded. -/
def astep (i : VInstr) (own : Bool) (nspans : Nat) (pc : Nat) (s : ASt) : Option (List (Nat × ASt)) :=
  let next (stk : List Tag) : Option (List (Nat × ASt)) := some [(pc + 1, { s with stack := stk })]
  match i with
  | .loadConst v => next (⟨false, v.isMap, own, okBoundV v⟩ :: s.stack)
  | .loadName _ => next (Tag.fresh own :: s.stack)
  | .loadPath p => if p ≠ [] ∧ p.length ≤ nspans then next (Tag.fresh own :: s.stack) else none
  | .writePath p => if p ≠ [] ∧ p.length ≤ nspans then next s.stack else none
  | .loadAttr _ opt =>
    match s.stack with
    | a :: rest => if opt || a.sp then next (Tag.fresh own :: rest) else none
    | _ => none
  | .binarySubscript opt =>
    match s.stack with
    | sub :: val :: rest =>
      if sub.sp && (opt || val.sp) then next (⟨false, false, sub.sp && val.sp && (!opt || own), false⟩ :: rest) else none
    | _ => none
  | .slice opt =>
    match s.stack with
    | step :: stop :: start :: val :: rest =>
      if val.sp && (step.sp || step.okb) && (stop.sp || stop.okb) && (start.sp || start.okb) then
        next (⟨false, false, val.sp && (!opt || own), false⟩ :: rest)
      else none
    | _ => none
  | .writeText _ | .include_ _ | .renderBlock _ => next s.stack
  | .writeTop =>
    match s.stack with
    | a :: rest => if a.sp then next rest else none
    | _ => none
  | .set .. =>
    match s.stack with
    | _ :: rest => next rest
    | _ => none
  | .buildMap n =>
    if n = 0 then next (⟨false, true, own, false⟩ :: s.stack)
    else if 2 * n ≤ s.stack.length then next (⟨false, true, own, false⟩ :: s.stack.drop (2 * n)) else none
  | .buildList n =>
    if n ≤ s.stack.length then next (⟨true, false, own, false⟩ :: s.stack.drop n) else none
  | .buildMapWithSpreads flags =>
    match spreadMapPops flags.reverse s.stack with
    | some rest => next (⟨false, true, own, false⟩ :: rest)
    | none => none
  | .buildListWithSpreads flags =>
    match spreadListPops flags.reverse s.stack with
    | some rest => next (⟨true, false, own, false⟩ :: rest)
    | none => none
  | .callFunction n =>
    match s.stack with
    | kw :: rest => if own && (n == "super" || kw.map) then next (Tag.fresh own :: rest) else none
    | _ => none
  | .renderComponent _ hasBody =>
    match s.stack with
    | kw :: rest =>
      if own && kw.map then
        if hasBody then
          match rest with
          | _ :: rest' => next (Tag.fresh own :: rest')
          | _ => none
        else next (Tag.fresh own :: rest)
      else none
    | _ => none
  | .applyFilter _ | .runTest _ =>
    match s.stack with
    | kw :: val :: rest => if own && kw.map && val.sp then next (Tag.fresh own :: rest) else none
    | _ => none
  | .jump t => some [(t, s)]
  | .popJumpIfFalse t =>
    match s.stack with
    | _ :: rest => some [(t, { s with stack := rest }), (pc + 1, { s with stack := rest })]
    | _ => none
  | .jumpIfFalseOrPop t | .jumpIfTrueOrPop t => ajumpOrPop t pc s
  | .capture => some [(pc + 1, { s with caps := s.caps + 1 })]
  | .endCapture =>
    if 0 < s.caps then some [(pc + 1, { s with caps := s.caps - 1, stack := Tag.fresh own :: s.stack })] else none
  | .startIterate .. =>
    match s.stack with
    | a :: rest => if a.sp then some [(pc + 1, { s with stack := rest, loops := none :: s.loops })] else none
    | _ => none
  | .iterate t =>
    match s.loops with
    | _ :: outer => some [(t, s), (pc + 1, { s with loops := some t :: outer })]
    | _ => none
  | .storeLocal _ =>
    match s.loops with
    | _ :: _ => some [(pc + 1, s)]
    | _ => none
  | .storeDidNotIterate =>
    match s.loops with
    | _ :: _ => next (Tag.fresh own :: s.stack)
    | _ => none
  | .break_ =>
    match s.loops with
    | some t :: _ => some [(t, s)]
    | _ => none
  | .popLoop =>
    match s.loops with
    | _ :: outer => some [(pc + 1, { s with loops := outer })]
    | _ => none
  | .appendToList =>
    match s.stack with
    | _ :: l :: rest => if l.arr then next ({ l with map := false, okb := false } :: rest) else none
    | _ => none
  | .math _ | .plus | .cmp _ => abinop pc s
  | .equal _ | .strConcat =>
    match s.stack with
    | b :: a :: rest => next (⟨false, false, a.sp && b.sp, false⟩ :: rest)
    | _ => none
  | .in_ =>
    match s.stack with
    | container :: _ :: rest => if container.sp then next (Tag.fresh own :: rest) else none
    | _ => none
  | .not_ =>
    match s.stack with
    | a :: rest => next (⟨false, false, a.sp, false⟩ :: rest)
    | _ => none
  | .negative =>
    match s.stack with
    | a :: rest => if a.sp then next (⟨false, false, true, false⟩ :: rest) else none
    | _ => none

/-! ### the order on abstract states -/

def leTags : List Tag → List Tag → Bool
  | [], [] => true
  | x :: xs, y :: ys => x.le y && leTags xs ys
  | _, _ => false

def leLoops : List (Option Nat) → List (Option Nat) → Bool
  | [], [] => true
  | x :: xs, y :: ys => (y == none || x == y) && leLoops xs ys
  | _, _ => false

def ASt.le (a b : ASt) : Bool := leTags a.stack b.stack && a.caps == b.caps && leLoops a.loops b.loops

/-- The successor `(pc', s')` is accounted for: inside the chunk it is described by the table;
one past the end (`chunk.get(ip)` is `None`: the run stops) all three stacks are empty. -/
def covered (table : List (Option ASt)) (len : Nat) (succ : Nat × ASt) : Bool :=
  if succ.1 < len then
    match table[succ.1]? with
    | some (some b) => succ.2.le b
    | _ => false
  else succ.1 == len && succ.2 == ASt.empty

def verifyAt (code : List VEntry) (table : List (Option ASt)) (pc : Nat) : Bool :=
  match table[pc]?, code[pc]? with
  | some (some a), some e =>
    match astep e.1 (!e.2.isEmpty) e.2.length pc a with
    | none => false
    | some succs => succs.all (covered table code.length)
  | _, _ => true

/-- The table is a valid certificate for the chunk started with empty stacks. -/
def verify (code : List VEntry) (table : List (Option ASt)) : Bool :=
  covered table code.length (0, ASt.empty) && (List.range code.length).all (verifyAt code table)

/-! ### inference of the table (forward pass to a fixed point; not trusted) -/

def joinTags : List Tag → List Tag → Option (List Tag)
  | [], [] => some []
  | x :: xs, y :: ys => (joinTags xs ys).map fun r => x.join y :: r
  | _, _ => none

def joinLoops : List (Option Nat) → List (Option Nat) → Option (List (Option Nat))
  | [], [] => some []
  | x :: xs, y :: ys => (joinLoops xs ys).map fun r => (if x == y then x else none) :: r
  | _, _ => none

def merge (table : List (Option ASt)) (succ : Nat × ASt) : Option (List (Option ASt)) :=
  if succ.1 < table.length then
    match table[succ.1]? with
    | some (some b) =>
      if succ.2.caps == b.caps then
        match joinTags succ.2.stack b.stack, joinLoops succ.2.loops b.loops with
        | some st, some l => some (table.set succ.1 (some { b with stack := st, loops := l }))
        | _, _ => none
      else none
    | _ => some (table.set succ.1 (some succ.2))
  else some table

def inferPass (code : List VEntry) : Nat → Nat → List (Option ASt) → Option (List (Option ASt))
  | 0, _, table => some table
  | fuel + 1, pc, table =>
    match code[pc]? with
    | none => some table
    | some e =>
      match table[pc]? with
      | some (some a) =>
        match astep e.1 (!e.2.isEmpty) e.2.length pc a with
        | none => none
        | some succs =>
          match succs.foldlM merge table with
          | none => none
          | some table' => inferPass code fuel (pc + 1) table'
      | _ => inferPass code fuel (pc + 1) table

/-- passes until the table no longer changes (a backward jump can lower an entry already used) -/
def inferFix (code : List VEntry) : Nat → List (Option ASt) → Option (List (Option ASt))
  | 0, table => some table
  | n + 1, table =>
    match inferPass code code.length 0 table with
    | none => none
    | some table' => if table' == table then some table else inferFix code n table'

def infer (code : List VEntry) : Option (List (Option ASt)) :=
  if code.isEmpty then some []
  else inferFix code 8 ((List.replicate code.length none).set 0 (some ASt.empty))

/-! ### names -/

/-- every name the arm indexes a registry with is registered; a component is in the instance-wide
table; a fused path is not empty -/
def namesOk (env : Env) : VInstr → Bool
  | .applyFilter n => env.hasFilter n
  | .runTest n => env.hasTest n
  | .callFunction n => n == "super" || env.hasFunction n
  | .renderComponent n _ => (assoc n env.components).isSome
  | _ => true

/-- The checker: the chunk's template is registered (`report_target`), names are registered, and
the inferred table verifies. -/
def checkChunk (env : Env) (c : Chunk) : Bool :=
  (env.template c.name).isSome && c.code.all (fun e => namesOk env e.1) &&
  match infer c.code with
  | none => false
  | some table => verify c.code table

end Vm
end Tera
