/-
Skeleton of rendering (tera/src/vm/interpreter.rs): only the instructions that start a nested
`interpret` — `RenderBlock`, `super()` (`CallFunction("super")`), `Include`, component calls — plus
literal text, over the template summaries of Model/Finalize.lean.  Everything else a template can
contain does not nest and is not modelled.

The body of a template / block / component is the item list the harness generator writes for a
summary (`tplgen::TplS::source`): a marker text, `{{ super() }}` if the block calls it, the includes,
the nested blocks, a closing marker.  Fuel bounds the nesting depth of `interpret` calls (the Rust
recursion depth), so "bounded stack" is a statement about fuel.
-/
import TeraModel.Model.Finalize
namespace Tera.Reg

inductive RItem where
  | text (s : String)
  /-- `Instruction::Include(name)` -/
  | inc (target : String)
  /-- `Instruction::RenderBlock(name)` -/
  | blk (name : String)
  /-- `CallFunction("super")` -/
  | sup
  /-- `RenderInlineComponent(name)` -/
  | comp (name : String)
  deriving Repr, DecidableEq

inductive RErr where
  /-- "Tried to use super() in the top level block" -/
  | superAtTop
  /-- "super() called outside of a block" -/
  | superOutsideBlock
  /-- "Block … has no block lineage" -/
  | noLineage
  | templateNotFound
  /-- "Maximum render recursion depth for components exceeded." -/
  | componentDepth
  | outOfFuel
  /-- `expect("no lineage found")`, map indexing -/
  | panic
  deriving Repr, DecidableEq

/-- text that neither the escaper nor `upper` changes (`tplgen::mark`) -/
def mark (s : String) : String :=
  String.ofList (s.toList.map fun c => if c.isAlphanum then c else '_')

def bodyOfTpl (t : Tpl) : List RItem :=
  [.text ("{" ++ mark t.name ++ ":")] ++ t.topIncludes.map .inc ++
    ((t.blocks.filter (fun b => b.nestedIn.isNone)).map (fun b => .blk b.name) ++
      (t.compCalls.map .comp ++ [.text "}"]))

def bodyOfBlock (owner : Tpl) (d : BlockDef) : List RItem :=
  [.text ("[" ++ d.name ++ "@" ++ mark owner.name ++ ":")] ++ (if d.callsSuper then [.sup] else []) ++
    (d.includes.map .inc ++
      ((owner.blocks.filter (fun c => c.nestedIn == some d.name)).map (fun c => .blk c.name) ++ [.text "]"]))

def bodyOfComp (owner : Tpl) (c : CompDef) : List RItem :=
  [.text ("(" ++ mark c.name ++ "@" ++ mark owner.name)] ++ (c.includes.map .inc ++ [.text ")"])

/-- `state.blocks` entry: (block name, lineage, current level); the list head is the stack top -/
abbrev BlockEntry := String × List String × Nat

/-- what `interpret` reads of `VirtualMachine` + `State` -/
structure RCtx where
  /-- `self.template` -/
  view : String
  /-- `state.blocks`, top first -/
  blocks : List BlockEntry
  /-- `state.current_block_name` -/
  cur : Option String
  /-- `self.component_recursion_depth` -/
  compDepth : Nat
  deriving Repr

/-- `rposition(|entry| entry.0 == name)`: the topmost entry with that name -/
def topEntry (bs : List BlockEntry) (name : String) : Option (List String × Nat) :=
  match bs with
  | [] => none
  | e :: rest => if e.1 = name then some e.2 else topEntry rest name

/-- `state.blocks[pos].2 = level` for the topmost entry with that name -/
def setTopLevel (bs : List BlockEntry) (name : String) (lvl : Nat) : List BlockEntry :=
  match bs with
  | [] => []
  | e :: rest => if e.1 = name then (e.1, e.2.1, lvl) :: rest else e :: setTopLevel rest name lvl

structure REnv where
  ps : List String
  S : List Tpl
  /-- `Template.block_lineage` of every template -/
  lineage : TplBlocks
  /-- `Tera.components`: name ↦ defining template -/
  comps : List (String × String)

def lineageOf (env : REnv) (view b : String) : Option (List String) :=
  match tbLookup env.lineage view with
  | some m => blockLookup m b
  | none => none

/-- the chunk of block `b` compiled from template `owner` -/
def blockBody (env : REnv) (owner b : String) : Option (List RItem) :=
  match get env.S owner with
  | some ot => (ot.findBlock b).map (bodyOfBlock ot)
  | none => none

def compBody (env : REnv) (c : String) : Option (List RItem) :=
  match (env.comps.find? (fun e => e.1 == c)).map (·.2) with
  | some owner =>
    match get env.S owner with
    | some ot => (ot.comps.find? (fun d => d.name == c)).map (bodyOfComp ot)
    | none => none
  | none => none

def MAX_COMPONENT_RECURSION_DEPTH : Nat := 20

/-- sequencing with `?`: the continuation only runs when the first part succeeded -/
def andThen (r : Except RErr String) (k : Unit → Except RErr String) : Except RErr String :=
  match r with
  | .ok out => (match k () with | .ok rest => .ok (out ++ rest) | .error e => .error e)
  | .error e => .error e

/-- One `interpret` call over a chunk; `rec` is the nested `interpret` (one level deeper). -/
def runItems (env : REnv) (rec : RCtx → List RItem → Except RErr String) :
    RCtx → List RItem → Except RErr String
  | _, [] => .ok ""
  | ctx, .text s :: rest => andThen (.ok s) (fun _ => runItems env rec ctx rest)
  | ctx, .inc n :: rest =>
    -- render_include: must_get_template, a new vm for the included template, a fresh state
    match resolve env.ps env.S n with
    | none => .error .templateNotFound
    | some r =>
      match get env.S r with
      | none => .error .panic
      | some t =>
        andThen (rec { view := t.name, blocks := [], cur := none, compDepth := ctx.compDepth } (bodyOfTpl t))
          (fun _ => runItems env rec ctx rest)
  | ctx, .blk b :: rest =>
    match lineageOf env ctx.view b with
    | none => .error .noLineage
    | some [] => .error .noLineage
    | some (o :: l) =>
      match blockBody env o b with
      | none => .error .panic
      | some body =>
        andThen (rec { ctx with blocks := (b, o :: l, 0) :: ctx.blocks, cur := some b } body)
          (fun _ => runItems env rec ctx rest)
  | ctx, .sup :: rest =>
    match ctx.cur with
    | none => .error .superOutsideBlock
    | some cb =>
      match topEntry ctx.blocks cb with
      | none => .error .panic
      | some (lineage, level) =>
        match lineage[level + 1]? with
        | none => .error .superAtTop
        | some o =>
          match blockBody env o cb with
          | none => .error .panic
          | some body =>
            andThen (rec { ctx with blocks := setTopLevel ctx.blocks cb (level + 1) } body)
              (fun _ => runItems env rec ctx rest)
  | ctx, .comp c :: rest =>
    if ctx.compDepth + 1 > MAX_COMPONENT_RECURSION_DEPTH then .error .componentDepth
    else
      match compBody env c with
      | none => .error .panic
      | some body =>
        andThen (rec { view := ctx.view, blocks := [], cur := none, compDepth := ctx.compDepth + 1 } body)
          (fun _ => runItems env rec ctx rest)

/-- `interpret` with at most `fuel` nested levels -/
def run (env : REnv) : Nat → RCtx → List RItem → Except RErr String
  | 0, _, _ => .error .outOfFuel
  | fuel + 1, ctx, items => runItems env (run env fuel) ctx items

/-- `render_to`: the chunk of the root ancestor (`parents.first()`), interpreted for `view` -/
def renderTpl (env : REnv) (parents : List String) (fuel : Nat) (view : String) : Except RErr String :=
  let rootName := parents.head?.getD view
  match get env.S rootName with
  | none => .error .templateNotFound
  | some root => run env fuel { view := view, blocks := [], cur := none, compDepth := 0 } (bodyOfTpl root)

end Tera.Reg
