/-
The vocabulary of the panic-site audit (Props/PanicCensusAdd.lean, PanicCensusRender.lean,
PanicCensusBuiltins.lean; helper lemmas in Lemmas/PanicCensus.lean).  Import-free.

`translator/tables/panic_census.py` lists, from the CURRENT source of /repo (comments removed), every
syntactic panic site of the engine outside tests, grouped as

    (file, enclosing fn, kind, normalised text, number of occurrences in that fn)

with the kinds
* `unwrap` — every `.unwrap()` AND every `.expect(…)`; the text is the RECEIVER (the method chain
  the call is applied to, whitespace removed: `state.chunk`, `self.values.pop()`); the `expect`
  message is not part of the key, so unwrap ↔ expect and rewording a message change nothing;
* `macro` — `unreachable!` / `panic!` / `assert!` / `todo!` …, text = the macro with its arguments;
* `index` — index and slice expressions, text = `receiver[index]`;
* `method` — calls of std methods that panic on a bad argument (`windows`, `split_at`, …);
* `unsafe_block` — the text is the block without the keyword.

An ACCOUNT is a hand-written list of rows `(entry, Account)`: for every census entry, what the
verification knows about it.

THE KEY of the census theorems is (file, kind, text): `coversF census account` holds when, for every
key, the census counts — summed over all functions of the file — at most as many occurrences as the
account has rows for (row counts of equal keys add up).  The fn field of a row is informative: it
says where the site is today.  So
* REMOVING a site, moving code within a file (no line numbers anywhere; extracting or inlining a
  helper), editing comments, reformatting, turning an `unwrap` into an `expect("reason")` or back,
  rewording a message — all keep the theorem;
* ADDING a site the account does not know — a new text (for `unwrap`: a new receiver), a new kind of
  site in a file, one more occurrence of a known text in the file — makes `coversF … = true` false,
  and the `decide` proof of the census theorems fails to build.
`covers` is the stricter per-function form (key (file, fn, kind, text)); only the hygiene lemmas of
Lemmas/PanicCensus.lean use it.  The converse (no stale rows) is deliberately NOT a theorem of the
Props files: it would raise an alarm on harmless removals.

No theorem here says a site cannot fire: the account NAMES the model outcome and the theorem that
excludes it (or the guard in the Rust).  What the census theorems prove is the bookkeeping: no
syntactic panic site of the audited files is unknown to the account.
-/
namespace Tera.PanicCensus

/-- What the verification knows about one group of panic sites. -/
inductive Account where
  /-- The executable model has an explicit outcome for the site (`site`: the model's site string,
  or the model file and definition when the outcome is an `.error` / `none` case) and the named
  theorem (`excludedBy`, fully qualified) proves that outcome unreachable. -/
  | modelled (site : String) (excludedBy : String)
  /-- The site cannot fire because of a guard in the Rust, stated in one sentence.  A reason that is
  not visible in the enclosing function starts with "NON-LOCAL: ". -/
  | guarded (why : String)
  /-- The site is not reachable from `add_raw_template(s)` / `render` / `render_block` /
  `render_component` on template input (e.g. a `Display` impl used only by tests). -/
  | notOnPath (why : String)
  deriving Repr, DecidableEq

/-- (file, enclosing fn, kind, normalised text, count) -/
abbrev Entry := String × String × String × String × Nat

abbrev Row := Entry × Account

def Entry.count (e : Entry) : Nat := e.2.2.2.2

/-- same file, enclosing fn, kind and text -/
def sameSite (a b : Entry) : Bool :=
  a.1 == b.1 && a.2.1 == b.2.1 && a.2.2.1 == b.2.2.1 && a.2.2.2.1 == b.2.2.2.1

/-- number of occurrences of the site of `e` the account has rows for -/
def accounted (account : List Row) (e : Entry) : Nat :=
  ((account.filter fun r => sameSite e r.1).map fun r => r.1.count).sum

/-- every census entry is accounted for, occurrence by occurrence -/
def covers (census : List Entry) (account : List Row) : Bool :=
  census.all fun e => decide (e.count ≤ accounted account e)

/-- same file, kind and text (the enclosing fn is NOT compared) -/
def sameSiteF (a b : Entry) : Bool :=
  a.1 == b.1 && a.2.2.1 == b.2.2.1 && a.2.2.2.1 == b.2.2.2.1

/-- occurrences of the site of `e` in the whole FILE, per the census -/
def censusTotalF (census : List Entry) (e : Entry) : Nat :=
  ((census.filter fun c => sameSiteF e c).map fun c => c.count).sum

/-- occurrences of the site of `e` in the whole FILE the account has rows for -/
def accountedF (account : List Row) (e : Entry) : Nat :=
  ((account.filter fun r => sameSiteF e r.1).map fun r => r.1.count).sum

/-- File-level coverage — what the census THEOREMS use: for every (file, kind, text) the census
counts, over all functions of the file, at most as many occurrences as the account has rows for.
Moving code between functions of one file (extracting or inlining a helper) therefore keeps the
theorem; a new text, a new kind of site in a file, or one more occurrence of a known text in the
file breaks it.  (`covers` above is the stricter per-function form; it is kept for the account's
own hygiene lemmas.) -/
def coversF (census : List Entry) (account : List Row) : Bool :=
  census.all fun e => decide (censusTotalF census e ≤ accountedF account e)

/-- the census entries that are NOT accounted for (for diagnosis when a census theorem stops
building: `#eval Tera.PanicCensus.uncovered Tera.Generated.panicCensusAdd Tera.PanicCensus.accountAdd`) -/
def uncovered (census : List Entry) (account : List Row) : List Entry :=
  census.filter fun e => !decide (e.count ≤ accounted account e)

/-- hygiene only (Lemmas-level, not a property): every account row is about a site that exists -/
def notStale (census : List Entry) (account : List Row) : Bool :=
  account.all fun r => census.any fun e => sameSite e r.1

def isModelled : Account → Bool | .modelled .. => true | _ => false
def isGuarded : Account → Bool | .guarded .. => true | _ => false
def isNotOnPath : Account → Bool | .notOnPath .. => true | _ => false

/-- a `guarded` row whose reason is not visible in the enclosing function -/
def isNonLocal : Account → Bool
  | .guarded why => "NON-LOCAL: ".toList.isPrefixOf why.toList
  | _ => false

/-- number of SITES (occurrences) of the rows satisfying `p` -/
def sites (account : List Row) (p : Account → Bool) : Nat :=
  ((account.filter fun r => p r.2).map fun r => r.1.count).sum

end Tera.PanicCensus
